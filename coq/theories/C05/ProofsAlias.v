(* C05 - no aliasing through reads: an in-place update of a value obtained by reading entry (a,i) never changes
   what any other entry (of any attribute) reads, whatever happens between the read and the update. *)
From Coq Require Import ZArith List Bool Lia.
Import ListNotations.
Require Import MV.Lib.Base MV.C05.Types MV.C05.Gen MV.C05.Model MV.C05.ProofsBase MV.C05.Proofs MV.C05.ProofsInv
        MV.C05.ProofsMap.
Open Scope Z_scope.

(* which heap cells the attributes hold: under a key of a sparse attribute / as the default vector *)
Definition entryA (l : list (Z * attr)) (b j : Z) (id : nat) : Prop :=
  exists at_ m, lookup b l = Some at_ /\ ast at_ = Sparse m /\ lookup j m = Some (SVec id).
Definition dcellA (l : list (Z * attr)) (b : Z) (id : nat) : Prop :=
  exists at_, lookup b l = Some at_ /\ adef at_ = DCell id.

(* the cell id is valid and, if an attribute holds it at all, it is under key i of attribute a *)
Definition tracked (id : nat) (a i : Z) (s : state) : Prop :=
  (id < length (hp s))%nat /\
  (forall b j, entryA (attrs s) b j id -> b = a /\ j = i) /\
  (forall b, ~ dcellA (attrs s) b id).

(* every cell stored under a key is tracked to that key: no two entries share a cell, no entry is a default vector *)
Definition own (s : state) : Prop := forall b j id, entryA (attrs s) b j id -> tracked id b j s.

Lemma entry_valid s b j id : inv s -> entryA (attrs s) b j id -> (id < length (hp s))%nat.
Proof.
  intros [_ [H _]] [at_ [m [L [St Lk]]]]. destruct (H _ _ L) as [_ [_ A3]]. rewrite St in A3. destruct A3 as [_ A3].
  destruct (A3 _ _ Lk) as [_ [c [Hc _]]]. apply nth_error_Some. congruence.
Qed.

Lemma dcell_valid s b id : inv s -> dcellA (attrs s) b id -> (id < length (hp s))%nat.
Proof.
  intros [_ [H _]] [at_ [L D]]. destruct (H _ _ L) as [_ [A2 _]]. rewrite D in A2.
  destruct A2 as [_ [c [Hc _]]]. apply nth_error_Some. congruence.
Qed.

(* ------------------------------------------------------------------ how the held cells evolve *)
Lemma entry_put l a at' b j id :
  entryA (put a at' l) b j id ->
  (b = a /\ exists m, ast at' = Sparse m /\ lookup j m = Some (SVec id)) \/ (b <> a /\ entryA l b j id).
Proof.
  intros [at_ [m [L [St Lk]]]]. rewrite lookup_put in L. destruct (b =? a) eqn:E.
  - inversion L; subst. left. split; [lia|eauto].
  - right. split; [lia|]. exists at_, m. auto.
Qed.

Lemma dcell_put l a at' b id :
  dcellA (put a at' l) b id -> (b = a /\ adef at' = DCell id) \/ (b <> a /\ dcellA l b id).
Proof.
  intros [at_ [L D]]. rewrite lookup_put in L. destruct (b =? a) eqn:E.
  - inversion L; subst. left. split; [lia|auto].
  - right. split; [lia|]. exists at_. auto.
Qed.

Lemma grow_cells l h clk amount (P : Z -> Z -> nat -> Prop) (Q : Z -> nat -> Prop) :
  (forall b j id, entryA (map (fun p => (fst p, expand_attr h clk amount (snd p))) l) b j id -> entryA l b j id \/ P b j id) /\
  (forall b id, dcellA (map (fun p => (fst p, expand_attr h clk amount (snd p))) l) b id -> dcellA l b id \/ Q b id).
Proof.
  split.
  - intros b j id [at_ [m [L [St Lk]]]]. left. revert L St Lk. intros L St Lk. rewrite lookup_map_vals in L. destruct (lookup b l) as [x|] eqn:Lx; [|discriminate].
    simpl in L. inversion L; subst. exists x, m. split; [exact Lx|]. split; [|exact Lk].
    unfold expand_attr in St. destruct (ast x) eqn:Sx; [congruence|discriminate].
  - intros b id [at_ [L D]]. left. rewrite lookup_map_vals in L. destruct (lookup b l) as [x|] eqn:Lx; [|discriminate].
    simpl in L. inversion L; subst. exists x. split; [exact Lx|].
    unfold expand_attr in D. destruct (ast x); exact D.
Qed.

Ltac same := split; intros; left; assumption.

Definition creates (o : op) (b : Z) : Prop :=
  match o with
  | Create b' _ _ _ _ | CreateSized b' _ _ _ _ | Register b' _ _ _ _ => b' = b
  | _ => False
  end.

Lemma mut_ref_cells s rf c x :
  (forall b j id, entryA (attrs (mut_ref s rf c x)) b j id -> entryA (attrs s) b j id) /\
  (forall b id, dcellA (attrs (mut_ref s rf c x)) b id -> dcellA (attrs s) b id).
Proof.
  destruct rf as [id'|a stamp k|a st|]; simpl; try (split; intros; assumption).
  - destruct (nth_error (hp s) id'); simpl; split; intros; assumption.
  - destruct (lookup a (attrs s)) as [at_|] eqn:La; [|split; intros; assumption].
    destruct (ast at_) as [m|ne st rows] eqn:St; [split; intros; assumption|].
    destruct (st =? stamp); [|split; intros; assumption]. simpl. split.
    + intros b j id H. apply entry_put in H. destruct H as [[Eb [m' [St' Lk]]]|[_ H]]; [discriminate|exact H].
    + intros b id H. apply dcell_put in H. destruct H as [[Eb D]|[_ H]]; [|exact H]. subst b. exists at_. auto.
Qed.

Ltac by_mut t rf c x := destruct (mut_ref_cells t rf c x) as [M1 M2]; split; intros; left; [apply M1|apply M2]; assumption.

Lemma do_get_attrs s a k : attrs (fst (do_get s a k)) = attrs s.
Proof.
  unfold do_get. repeat (match goal with |- context [match ?x with _ => _ end] => destruct x end); reflexivity.
Qed.

(* one step: the cells held afterwards are the cells held before, except the one cell a vector write / a creation allocates *)
Lemma step_cells s o s' w :
  inv s -> step s o = (s', w) ->
  (forall b j id, entryA (attrs s') b j id ->
                  entryA (attrs s) b j id \/ (id = length (hp s) /\ exists v, o = SetItem b j v)) /\
  (forall b id, dcellA (attrs s') b id ->
                dcellA (attrs s) b id \/ (id = length (hp s) /\ creates o b)).
Proof.
  intros Hi E. unfold step in E. change (attrs s) with (attrs (tick s)). change (hp s) with (hp (tick s)).
  apply inv_tick in Hi. set (t := tick s) in *. clearbody t. clear s.
  destruct o; simpl in E.
  - (* Create *)
    unfold do_create in E.
    destruct (match lookup a (attrs t) with Some _ => create_keeps_existing | None => false end); [inversion E; subst; same|].
    unfold mk_default, default_is_scalar in E. destruct d as [c|].
    + destruct (kind_of c) as [td|]; [|inversion E; subst; same].
      destruct (default_type_bad td t0); inversion E; subst; clear E; [same|]. simpl. split.
      * intros b j id H. apply entry_put in H. destruct H as [[_ [m [St Lk]]]|[_ H]]; [|left; exact H].
        simpl in St. unfold new_storage in St. destruct dense; inversion St; subst. discriminate.
      * intros b id H. apply dcell_put in H. destruct H as [[_ D]|[_ H]]; [discriminate|left; exact H].
    + destruct (k =? 1); inversion E; subst; clear E; simpl; split.
      * intros b j id H. apply entry_put in H. destruct H as [[_ [m [St Lk]]]|[_ H]]; [|left; exact H].
        simpl in St. unfold new_storage in St. destruct dense; inversion St; subst. discriminate.
      * intros b id H. apply dcell_put in H. destruct H as [[_ D]|[_ H]]; [discriminate|left; exact H].
      * intros b j id H. apply entry_put in H. destruct H as [[_ [m [St Lk]]]|[_ H]]; [|left; exact H].
        simpl in St. unfold new_storage in St. destruct dense; inversion St; subst. discriminate.
      * intros b id H. apply dcell_put in H. destruct H as [[Eb D]|[_ H]]; [|left; exact H].
        simpl in D. inversion D. right. split; [reflexivity|]. subst b. reflexivity.
  - (* Delete *)
    inversion E; subst; clear E. simpl. split.
    + intros b j id [at_ [m [L R]]]. rewrite lookup_del in L. destruct (b =? a); [discriminate|]. left. exists at_, m. auto.
    + intros b id [at_ [L D]]. rewrite lookup_del in L. destruct (b =? a); [discriminate|]. left. exists at_. auto.
  - inversion E; subst; same.
  - (* SetItem *)
    unfold do_set in E. destruct (lookup a (attrs t)) as [at_|] eqn:La; [|inversion E; subst; same].
    destruct (ast at_) as [m|ne stamp rows] eqn:St.
    + unfold sparse_vec_uses_attr_dtype, sparse_scal_converted in E.
      destruct (sparse_validate (aty at_) (asz at_) v) as [e|[[|] l]]; [inversion E; subst; same| |];
        (destruct (existsb (overflows (aty at_)) l); [inversion E; subst; same|]); inversion E; subst; clear E; simpl; split.
      * intros b j id H. apply entry_put in H. destruct H as [[Eb [m' [St' Lk]]]|[_ H]]; [|left; exact H].
        simpl in St'. inversion St'; subst m'. rewrite lookup_upsert in Lk. destruct (j =? key) eqn:Ej.
        -- inversion Lk. right. split; [reflexivity|]. apply Z.eqb_eq in Ej. subst. eauto.
        -- left. subst b. exists at_, m. auto.
      * intros b id H. apply dcell_put in H. destruct H as [[Eb D]|[_ H]]; [|left; exact H]. left. subst b. exists at_. auto.
      * intros b j id H. apply entry_put in H. destruct H as [[Eb [m' [St' Lk]]]|[_ H]]; [|left; exact H].
        simpl in St'. inversion St'; subst m'. rewrite lookup_upsert in Lk. destruct (j =? key); [discriminate|].
        left. subst b. exists at_, m. auto.
      * intros b id H. apply dcell_put in H. destruct H as [[Eb D]|[_ H]]; [|left; exact H]. left. subst b. exists at_. auto.
    + destruct (dense_oob key ne); [inversion E; subst; same|].
      destruct (dense_validate (aty at_) (asz at_) v) as [e|[isv l]]; [inversion E; subst; same|].
      destruct (existsb (overflows (aty at_)) l); [inversion E; subst; same|]. inversion E; subst; clear E; simpl; split.
      * intros b j id H. apply entry_put in H. destruct H as [[Eb [m' [St' Lk]]]|[_ H]]; [discriminate|left; exact H].
      * intros b id H. apply dcell_put in H. destruct H as [[Eb D]|[_ H]]; [|left; exact H]. left. subst b. exists at_. auto.
  - (* GetItem *)
    unfold do_get in E.
    repeat (match type of E with context [match ?x with _ => _ end] => destruct x end); inversion E; subst; simpl; same.
  - (* Mut *)
    unfold do_mut in E. destruct (nth_error (refs t) r) as [[id'|a0 st0 k0|a0 st0|]|]; try (inversion E; subst; same).
    + assert (S' : s' = mut_ref t (RObj id') c x) by (inversion E; reflexivity). subst s'. by_mut t (RObj id') c x.
    + assert (S' : s' = mut_ref t (RRow a0 st0 k0) c x) by (inversion E; reflexivity). subst s'. by_mut t (RRow a0 st0 k0) c x.
  - unfold grow in E. inversion E; subst; clear E. simpl. apply grow_cells.
  - unfold grow in E. inversion E; subst; clear E. simpl. apply grow_cells.
  - unfold grow in E. inversion E; subst; clear E. simpl. apply grow_cells.
  - unfold grow in E. inversion E; subst; clear E. simpl. apply grow_cells.
  - inversion E; subst; same.
  - (* ClearAttr *)
    unfold do_clear_attr in E. destruct (lookup a (attrs t)) as [at_|] eqn:La; [|inversion E; subst; same].
    destruct (ast at_) as [m|ne stamp rows] eqn:St; inversion E; subst; clear E; simpl; split.
    + intros b j id H. apply entry_put in H. destruct H as [[Eb [m' [St' Lk]]]|[_ H]]; [|left; exact H].
      simpl in St'. inversion St'; subst. discriminate.
    + intros b id H. apply dcell_put in H. destruct H as [[Eb D]|[_ H]]; [|left; exact H]. left. subst b. exists at_. auto.
    + intros b j id H. apply entry_put in H. destruct H as [[Eb [m' [St' Lk]]]|[_ H]]; [discriminate|left; exact H].
    + intros b id H. apply dcell_put in H. destruct H as [[Eb D]|[_ H]]; [|left; exact H]. left. subst b. exists at_. auto.
  - unfold do_as_array in E.
    repeat (match type of E with context [match ?x with _ => _ end] => destruct x end); inversion E; subst; same.
  - repeat (match type of E with context [match ?x with _ => _ end] => destruct x end); inversion E; subst; same.
  - repeat (match type of E with context [match ?x with _ => _ end] => destruct x end); inversion E; subst; same.
  - inversion E; subst; clear E. simpl. split.
    + intros b j id [at_ [m [L _]]]. discriminate.
    + intros b id [at_ [L _]]. discriminate.
  - inversion E; subst; same.
  - inversion E; subst; same.
  - (* Update *)
    unfold do_update in E. pose proof (do_get_attrs t a key) as GA. destruct (do_get t a key) as [s1 w1]. simpl in GA.
    destruct w1; try (inversion E; subst; rewrite GA; same). destruct isvec; [|inversion E; subst; rewrite GA; same].
    destruct ((c <? 0) || (c >=? Z.of_nat (length row))); [inversion E; subst; rewrite GA; same|].
    destruct (match lookup a (attrs t) with Some at_ => overflows (aty at_) x | None => false end); [inversion E; subst; rewrite GA; same|].
    destruct (nth_error (refs s1) (length (refs t))) as [rf|]; [|inversion E; subst; rewrite GA; same].
    assert (S' : s' = mut_ref s1 rf c x) by (inversion E; reflexivity). subst s'. rewrite <- GA. by_mut s1 rf c x.
  - (* MutArr *)
    unfold do_mut_arr in E. destruct (nth_error (refs t) r) as [[id'|a0 st0 k0|a0 st0|]|]; try (inversion E; subst; same).
    destruct (row <? 0); [inversion E; subst; same|].
    assert (S' : s' = mut_ref t (RRow a0 st0 row) c x) by (inversion E; reflexivity). subst s'. by_mut t (RRow a0 st0 row) c x.
  - (* Contains *)
    unfold do_contains in E.
    repeat (match type of E with context [match ?x with _ => _ end] => destruct x end); inversion E; subst; same.
  - (* ExtendListBad *)
    destruct (corner t).
    + inversion E; subst; same.
    + unfold grow in E. inversion E; subst; clear E. simpl. apply grow_cells.
  - (* CreateSized *)
    unfold do_create_sized in E.
    destruct (match lookup a (attrs t) with Some _ => create_keeps_existing | None => false end); [inversion E; subst; same|].
    unfold mk_default, default_is_scalar in E. destruct d as [c|].
    + destruct (kind_of c) as [td|]; [|inversion E; subst; same].
      destruct (default_type_bad td t0); inversion E; subst; clear E; [same|]. simpl. split.
      * intros b j id H. apply entry_put in H. destruct H as [[_ [m [St Lk]]]|[_ H]]; [discriminate|left; exact H].
      * intros b id H. apply dcell_put in H. destruct H as [[_ D]|[_ H]]; [discriminate|left; exact H].
    + destruct (k =? 1); inversion E; subst; clear E; simpl; split.
      * intros b j id H. apply entry_put in H. destruct H as [[_ [m [St Lk]]]|[_ H]]; [discriminate|left; exact H].
      * intros b id H. apply dcell_put in H. destruct H as [[_ D]|[_ H]]; [discriminate|left; exact H].
      * intros b j id H. apply entry_put in H. destruct H as [[_ [m [St Lk]]]|[_ H]]; [discriminate|left; exact H].
      * intros b id H. apply dcell_put in H. destruct H as [[Eb D]|[_ H]]; [|left; exact H].
        simpl in D. inversion D. right. split; [reflexivity|]. subst b. reflexivity.
  - (* Register *)
    unfold do_register in E.
    destruct (match lookup a (attrs t) with Some _ => register_keeps_existing | None => false end); [inversion E; subst; same|].
    destruct (negb (Z.of_nat (length rows) =? sn t)); [inversion E; subst; same|].
    destruct (sn t =? 0); [inversion E; subst; same|].
    unfold mk_default, default_is_scalar in E. destruct d as [c|].
    + destruct (kind_of c) as [td|]; [|inversion E; subst; same].
      destruct (default_type_bad td t0); inversion E; subst; clear E; [same|]. simpl. split.
      * intros b j id H. apply entry_put in H. destruct H as [[_ [m [St Lk]]]|[_ H]]; [discriminate|left; exact H].
      * intros b id H. apply dcell_put in H. destruct H as [[_ D]|[_ H]]; [discriminate|left; exact H].
    + destruct (k =? 1); inversion E; subst; clear E; simpl; split.
      * intros b j id H. apply entry_put in H. destruct H as [[_ [m [St Lk]]]|[_ H]]; [discriminate|left; exact H].
      * intros b id H. apply dcell_put in H. destruct H as [[_ D]|[_ H]]; [discriminate|left; exact H].
      * intros b j id H. apply entry_put in H. destruct H as [[_ [m [St Lk]]]|[_ H]]; [discriminate|left; exact H].
      * intros b id H. apply dcell_put in H. destruct H as [[Eb D]|[_ H]]; [|left; exact H].
        simpl in D. inversion D. right. split; [reflexivity|]. subst b. reflexivity.
  - unfold do_export_shape in E.
    repeat (match type of E with context [match ?x with _ => _ end] => destruct x end); inversion E; subst; same.
Qed.

(* heaps only grow, references are only ever appended *)
Definition mono (t s' : state) : Prop :=
  (length (hp t) <= length (hp s'))%nat /\ exists extra, refs s' = refs t ++ extra.

Lemma mono_refl t : mono t t.
Proof. split; [lia|exists []; now rewrite app_nil_r]. Qed.

Lemma mono_trans a b c : mono a b -> mono b c -> mono a c.
Proof. intros [H1 [e1 E1]] [H2 [e2 E2]]. split; [lia|]. exists (e1 ++ e2). rewrite E2, E1. now rewrite app_assoc. Qed.

Lemma mut_ref_mono t rf c x : mono t (mut_ref t rf c x).
Proof.
  destruct rf as [id|a st k|a st|]; simpl; try apply mono_refl.
  - destruct (nth_error (hp t) id); simpl; [|apply mono_refl]. split; [simpl; rewrite length_upd; lia|exists []; simpl; now rewrite app_nil_r].
  - destruct (lookup a (attrs t)) as [xx|]; [|apply mono_refl]. destruct (ast xx); [apply mono_refl|].
    destruct (_ =? _); [|apply mono_refl]. split; [simpl; lia|exists []; simpl; now rewrite app_nil_r].
Qed.

Lemma do_get_mono t a k : mono t (fst (do_get t a k)).
Proof.
  unfold do_get. repeat (match goal with |- context [match ?x with _ => _ end] => destruct x end); simpl;
    try apply mono_refl; split; simpl; rewrite ?app_length; simpl; try lia; eexists; reflexivity.
Qed.

Ltac fin := first [apply mono_refl | split; [simpl; rewrite ?app_length; simpl; lia | first [exists []; simpl; now rewrite app_nil_r | eexists; simpl; reflexivity]]].

Lemma step_mono s o s' w :
  step s o = (s', w) -> (length (hp s) <= length (hp s'))%nat /\ exists extra, refs s' = refs s ++ extra.
Proof.
  intros E. unfold step in E. change (hp s) with (hp (tick s)). change (refs s) with (refs (tick s)).
  set (t := tick s) in *. clearbody t. clear s. fold (mono t s').
  assert (Z0 := mono_refl t).
  assert (MK : forall tt k d e0 f0, mk_default (hp t) tt k d = inr (e0, f0) -> (length (hp t) <= length e0)%nat).
  { intros tt k d e0 f0 H. unfold mk_default, default_is_scalar in H. destruct d as [c|].
    - destruct (kind_of c); [|discriminate]. destruct (default_type_bad _ _); inversion H; subst; lia.
    - destruct (k =? 1); inversion H; subst; [lia|]. rewrite app_length; simpl; lia. }
  destruct o; simpl in E.
  - unfold do_create in E.
    destruct (match lookup a (attrs t) with Some _ => create_keeps_existing | None => false end); [inversion E; subst; fin|].
    destruct (mk_default (hp t) t0 k d) as [e|[h' df]] eqn:M; inversion E; subst; [fin|].
    split; [simpl; eapply MK; eauto|exists []; now rewrite app_nil_r].
  - inversion E; subst; fin.
  - inversion E; subst; fin.
  - unfold do_set in E. repeat (match type of E with context [match ?x with _ => _ end] => destruct x end);
      inversion E; subst; fin.
  - assert (S' : s' = fst (do_get t a key)) by now rewrite E. subst s'. apply do_get_mono.
  - unfold do_mut in E. destruct (nth_error (refs t) r) as [[id|a st k|a st|]|]; try (inversion E; subst; fin).
    + assert (S' : s' = mut_ref t (RObj id) c x) by (inversion E; reflexivity). subst s'. apply mut_ref_mono.
    + assert (S' : s' = mut_ref t (RRow a st k) c x) by (inversion E; reflexivity). subst s'. apply mut_ref_mono.
  - unfold grow in E; inversion E; subst; fin.
  - unfold grow in E; inversion E; subst; fin.
  - unfold grow in E; inversion E; subst; fin.
  - unfold grow in E; inversion E; subst; fin.
  - inversion E; subst; fin.
  - unfold do_clear_attr in E. repeat (match type of E with context [match ?x with _ => _ end] => destruct x end);
      inversion E; subst; fin.
  - unfold do_as_array in E. repeat (match type of E with context [match ?x with _ => _ end] => destruct x end);
      inversion E; subst; fin.
  - repeat (match type of E with context [match ?x with _ => _ end] => destruct x end); inversion E; subst; fin.
  - repeat (match type of E with context [match ?x with _ => _ end] => destruct x end); inversion E; subst; fin.
  - inversion E; subst; fin.
  - inversion E; subst; fin.
  - inversion E; subst; fin.
  - unfold do_update in E. pose proof (do_get_mono t a key) as G. destruct (do_get t a key) as [s1 w1]. simpl in G.
    destruct w1; try (inversion E; subst; exact G). destruct isvec; [|inversion E; subst; exact G].
    destruct ((c <? 0) || (c >=? Z.of_nat (length row))); [inversion E; subst; exact G|].
    destruct (match lookup a (attrs t) with Some at_ => overflows (aty at_) x | None => false end); [inversion E; subst; exact G|].
    destruct (nth_error (refs s1) (length (refs t))) as [rf|]; [|inversion E; subst; exact G].
    assert (S' : s' = mut_ref s1 rf c x) by (inversion E; reflexivity). subst s'. eapply mono_trans; [exact G|apply mut_ref_mono].
  - unfold do_mut_arr in E. destruct (nth_error (refs t) r) as [[id|a st k|a st|]|]; try (inversion E; subst; fin).
    destruct (row <? 0); [inversion E; subst; fin|].
    assert (S' : s' = mut_ref t (RRow a st row) c x) by (inversion E; reflexivity). subst s'. apply mut_ref_mono.
  - unfold do_contains in E. repeat (match type of E with context [match ?x with _ => _ end] => destruct x end);
      inversion E; subst; fin.
  - destruct (corner t); [inversion E; subst; fin|unfold grow in E; inversion E; subst; fin].
  - unfold do_create_sized in E.
    destruct (match lookup a (attrs t) with Some _ => create_keeps_existing | None => false end); [inversion E; subst; fin|].
    destruct (mk_default (hp t) t0 k d) as [e|[h' df]] eqn:M; inversion E; subst; [fin|].
    split; [simpl; eapply MK; eauto|exists []; now rewrite app_nil_r].
  - unfold do_register in E.
    destruct (match lookup a (attrs t) with Some _ => register_keeps_existing | None => false end); [inversion E; subst; fin|].
    destruct (negb _); [inversion E; subst; fin|]. destruct (sn t =? 0); [inversion E; subst; fin|].
    destruct (mk_default (hp t) t0 k d) as [e|[h' df]] eqn:M; inversion E; subst; [fin|].
    split; [simpl; eapply MK; eauto|exists []; now rewrite app_nil_r].
  - unfold do_export_shape in E. repeat (match type of E with context [match ?x with _ => _ end] => destruct x end);
      inversion E; subst; fin.
Qed.

Lemma tracked_step s o s' w id a i :
  inv s -> step s o = (s', w) -> tracked id a i s -> tracked id a i s'.
Proof.
  intros Hi E [T1 [T2 T3]]. destruct (step_cells _ _ _ _ Hi E) as [C1 C2]. destruct (step_mono _ _ _ _ E) as [M _].
  split; [lia|]. split.
  - intros b j H. destruct (C1 _ _ _ H) as [H'|[H' _]]; [now apply T2|lia].
  - intros b H. destruct (C2 _ _ H) as [H'|[H' _]]; [now apply (T3 b)|lia].
Qed.

Lemma own_step s o : inv s -> op_ok o -> own s -> own (fst (step s o)).
Proof.
  intros Hi Ho Ow. destruct (step s o) as [s' w] eqn:E. simpl.
  pose proof (inv_step s o Hi Ho) as Hi'. rewrite E in Hi'. simpl in Hi'.
  destruct (step_cells _ _ _ _ Hi E) as [C1 C2].
  intros b j id H. destruct (C1 _ _ _ H) as [H'|[H' [v Eo]]].
  - apply (tracked_step s o s' w id b j Hi E (Ow _ _ _ H')).
  - (* the freshly allocated vector of attr[b][j] = v *)
    subst id. split; [eapply entry_valid; eauto|]. split.
    + intros b' j' H2. destruct (C1 _ _ _ H2) as [H3|[_ [v' Eo']]].
      * apply (entry_valid s) in H3; [lia|exact Hi].
      * rewrite Eo in Eo'. inversion Eo'. auto.
    + intros b' H2. destruct (C2 _ _ H2) as [H3|[_ Eo']].
      * apply (dcell_valid s) in H3; [lia|exact Hi].
      * rewrite Eo in Eo'. exact Eo'.
Qed.

Lemma own_init c : own (init c).
Proof. intros b j id [at_ [m [L _]]]. discriminate. Qed.

Lemma own_run s h : inv s -> own s -> Forall op_ok h -> own (fst (run s h)) /\ inv (fst (run s h)).
Proof.
  revert s. induction h as [|o t IH]; intros s Hi Ow Hh; simpl; [auto|].
  inversion Hh; subst. pose proof (inv_step s o Hi H1) as Hi1. pose proof (own_step s o Hi H1 Ow) as Ow1.
  destruct (step s o) as [s1 w]. simpl in *. specialize (IH s1 Hi1 Ow1 H2).
  destruct (run s1 t) as [s2 ws]. exact IH.
Qed.

Lemma tracked_run s h id a i :
  inv s -> Forall op_ok h -> tracked id a i s -> tracked id a i (fst (run s h)).
Proof.
  revert s. induction h as [|o t IH]; intros s Hi Hh T; simpl; [exact T|].
  inversion Hh; subst. pose proof (inv_step s o Hi H1) as Hi1.
  destruct (step s o) as [s1 w] eqn:E. simpl in *. pose proof (tracked_step _ _ _ _ _ _ _ Hi E T) as T1.
  specialize (IH s1 Hi1 H2 T1). destruct (run s1 t) as [s2 ws]. exact IH.
Qed.

Lemma refs_run s h r rf :
  nth_error (refs s) r = Some rf -> nth_error (refs (fst (run s h))) r = Some rf.
Proof.
  revert s. induction h as [|o t IH]; intros s H; simpl; [exact H|].
  destruct (step s o) as [s1 w] eqn:E. destruct (step_mono _ _ _ _ E) as [_ [extra Er]].
  specialize (IH s1). destruct (run s1 t) as [s2 ws]. simpl in *. apply IH. rewrite Er.
  rewrite nth_error_app1; [exact H|]. apply nth_error_Some. congruence.
Qed.

(* ------------------------------------------------------------------ what a read hands out *)
Lemma get_ref s a i s' w :
  inv s -> own s -> step s (GetItem a i) = (s', w) -> length (refs s') = S (length (refs s)) ->
  exists rf, nth_error (refs s') (length (refs s)) = Some rf /\
             match rf with
             | RObj id => tracked id a i s'
             | RRow a' _ i' => a' = a /\ i' = i
             | RArr _ _ | RNone => False
             end.
Proof.
  intros Hi Ow E HL. unfold step in E. simpl in E.
  change (refs s) with (refs (tick s)) in *. assert (Ow' : own (tick s)) by exact Ow. apply inv_tick in Hi.
  set (t := tick s) in *. clearbody t. clear s Ow.
  unfold do_get in E. destruct (lookup a (attrs t)) as [at_|] eqn:La; [|inversion E; subst; lia].
  pose proof Hi as [_ [H1 _]]. pose proof (H1 _ _ La) as [A1 [A2 A3]].
  destruct (ast at_) as [m|ne stamp rows] eqn:St.
  - destruct (lookup i m) as [[c|id]|] eqn:Lk.
    + inversion E; subst; lia.
    + destruct (nth_error (hp t) id) eqn:Hc; [|inversion E; subst; lia]. inversion E; subst; clear E. simpl.
      exists (RObj id). split; [apply nth_error_app_new|].
      assert (En : entryA (attrs t) a i id) by (exists at_, m; auto).
      destruct (Ow' _ _ _ En) as [T1 [T2 T3]]. split; [exact T1|]. split; assumption.
    + unfold sparse_get_fresh in E. destruct (asz at_ >? 1) eqn:F.
      * inversion E; subst; clear E. simpl. exists (RObj (length (hp t))). split; [apply nth_error_app_new|].
        split; [simpl; rewrite app_length; simpl; lia|]. split.
        -- intros b j H. apply (entry_valid t) in H; [lia|exact Hi].
        -- intros b H. apply (dcell_valid t) in H; [lia|exact Hi].
      * destruct (adef at_) as [c|id] eqn:D; [inversion E; subst; lia|]. exfalso. destruct A2 as [L _]. lia.
  - destruct (dense_oob i ne); [inversion E; subst; lia|].
    destruct (dense_get_scalar (asz at_)); inversion E; subst; clear E; [lia|]. simpl.
    exists (RRow a stamp i). split; [apply nth_error_app_new|auto].
Qed.

(* ------------------------------------------------------------------ an update through the reference *)
Lemma rd_attr_heap_upd h id cl' x j :
  adef x <> DCell id ->
  (forall m, ast x = Sparse m -> lookup j m <> Some (SVec id)) ->
  rd_attr (upd h id cl') x j = rd_attr h x j.
Proof.
  intros ND NE. unfold rd_attr.
  assert (D : default_row (upd h id cl') x = default_row h x).
  { unfold default_row. destruct (adef x) as [c|id'] eqn:Dx; [reflexivity|].
    rewrite nth_error_upd_other; [reflexivity|]. intros Q. apply ND. now subst. }
  destruct (ast x) as [m|ne st rows]; [|reflexivity].
  destruct (lookup j m) as [[c|id']|] eqn:L; [reflexivity| |now rewrite D].
  simpl. rewrite nth_error_upd_other; [reflexivity|]. intros Q. apply (NE m eq_refl). now subst.
Qed.

Lemma mut_frame s rf c x a i b j :
  inv s ->
  match rf with RObj id => tracked id a i s | RRow a' _ i' => a' = a /\ i' = i /\ 0 <= i | RArr _ _ | RNone => True end ->
  (b, j) <> (a, i) ->
  rd (mut_ref s rf c x) b j = rd s b j.
Proof.
  intros Hi Hrf N. destruct rf as [id|a' stamp i'|a' st'|]; simpl; [| |reflexivity|reflexivity].
  - destruct Hrf as [T1 [T2 T3]]. destruct (nth_error (hp s) id) as [cl|] eqn:Hc; [|reflexivity].
    unfold rd. simpl. destruct (lookup b (attrs s)) as [xb|] eqn:Lb; [|reflexivity].
    apply rd_attr_heap_upd.
    + intros D. apply (T3 b). exists xb. auto.
    + intros m St Lk. destruct (T2 b j) as [E1 E2]; [exists xb, m; auto|]. apply N. congruence.
  - destruct Hrf as [Ea [Ei I0]]. subst a' i'.
    destruct (lookup a (attrs s)) as [xa|] eqn:La; [|reflexivity].
    destruct (ast xa) as [m|ne st rows] eqn:St; [reflexivity|]. destruct (st =? stamp); [|reflexivity].
    unfold rd. simpl. rewrite lookup_put. destruct (b =? a) eqn:Eb; [|reflexivity].
    apply Z.eqb_eq in Eb. subst b. rewrite La. assert (j <> i) by congruence.
    unfold rd_attr. simpl. rewrite St. destruct (dense_oob j ne) eqn:O; [reflexivity|].
    assert (0 <= j).
    { destruct (Z_lt_dec j 0); [exfalso|lia]. assert (dense_oob j ne = true) by (apply dense_bounds; lia). congruence. }
    unfold znth_row. rewrite nth_upd_other by lia. reflexivity.
Qed.

(* ------------------------------------------------------------------ the statement *)
Theorem no_aliasing : forall c h1 a i h2 cc x,
  Forall op_ok h1 -> Forall op_ok h2 ->
  let s1 := fst (run (init c) h1) in
  let s1' := fst (step s1 (GetItem a i)) in
  let r := length (refs s1) in
  let s2 := fst (run s1' h2) in
  length (refs s1') = S r ->                         (* the read handed out a reference: a vector entry *)
  forall b j, (b, j) <> (a, i) -> rd (fst (step s2 (Mut r cc x))) b j = rd s2 b j.
Proof.
  intros c h1 a i h2 cc x H1 H2 s1 s1' r s2 HL b j N.
  destruct (own_run (init c) h1 (inv_init c) (own_init c) H1) as [Ow1 Hi1]. fold s1 in Ow1, Hi1.
  destruct (step s1 (GetItem a i)) as [sg w] eqn:Eg. simpl in s1'. subst s1'.
  pose proof (inv_step s1 (GetItem a i) Hi1 I) as Hig. rewrite Eg in Hig. simpl in Hig.
  destruct (get_ref _ _ _ _ _ Hi1 Ow1 Eg HL) as [rf [Hr Hrf]]. fold r in Hr.
  pose proof (inv_run sg h2 Hig H2) as Hi2. fold s2 in Hi2.
  pose proof (refs_run sg h2 r rf Hr) as Hr2. fold s2 in Hr2.
  assert (SM : match rf with RArr _ _ | RNone => True | _ => fst (step s2 (Mut r cc x)) = mut_ref (tick s2) rf cc x end).
  { unfold step. simpl. unfold do_mut. change (refs (tick s2)) with (refs s2). rewrite Hr2. destruct rf; auto. }
  destruct rf as [id|a' st i'|a' st|]; [| |contradiction|contradiction]; rewrite SM;
    change (rd s2 b j) with (rd (tick s2) b j); apply mut_frame with (a := a) (i := i); try exact Hi2; try exact N.
  - apply (tracked_run sg h2 id a i Hig H2 Hrf).
  - destruct Hrf as [E1 E2]. split; [exact E1|]. split; [exact E2|]. subst i'.
    destruct Hig as [_ [_ HF]]. rewrite Forall_forall in HF. apply nth_error_In in Hr. apply (HF _ Hr).
Qed.

(* ------------------------------------------------------------------ updates through an exported array *)
(* dense as_array returns a view of the attribute's array, sparse as_array a detached array: an update of element
   (row, c) of the export changes at most entry (a, row) of the exported attribute - nothing of any other attribute,
   no other row - and nothing at all for a sparse export *)
Lemma as_array_ref s a s' w :
  step s (AsArray a) = (s', w) -> length (refs s') = S (length (refs s)) ->
  exists rf, nth_error (refs s') (length (refs s)) = Some rf /\
             match rf with RArr a' _ => a' = a | RNone => True | _ => False end.
Proof.
  intros E HL. unfold step in E. simpl in E. unfold do_as_array in E. change (refs s) with (refs (tick s)) in *.
  set (t := tick s) in *. clearbody t. clear s.
  destruct (lookup a (attrs t)) as [at_|]; [|inversion E; subst; lia].
  destruct (ast at_) as [m|ne st rows].
  - destruct (fill_rows _ _ _ _ _); inversion E; subst; [|lia]. simpl. exists RNone. split; [apply nth_error_app_new|exact I].
  - inversion E; subst. simpl. exists (RArr a st). split; [apply nth_error_app_new|reflexivity].
Qed.

Theorem export_update_frame : forall s r rf row c x,
  inv s -> nth_error (refs s) r = Some rf ->
  match rf with
  | RArr a _ => forall b j, (b, j) <> (a, row) -> rd (fst (step s (MutArr r row c x))) b j = rd s b j
  | RNone => forall b j, rd (fst (step s (MutArr r row c x))) b j = rd s b j
  | _ => True
  end.
Proof.
  intros s r rf row c x Hi Hr. destruct rf as [id|a st k|a st|]; try exact I.
  - intros b j N. unfold step. simpl. unfold do_mut_arr. change (refs (tick s)) with (refs s). rewrite Hr.
    destruct (row <? 0) eqn:Rw; [reflexivity|]. cbn [fst]. change (rd s b j) with (rd (tick s) b j).
    apply mut_frame with (a := a) (i := row); [exact Hi| |exact N]. repeat split; lia.
  - intros b j. unfold step. simpl. unfold do_mut_arr. change (refs (tick s)) with (refs s). rewrite Hr. reflexivity.
Qed.
