(* C05 - value universe shared by the generated definitions (Gen.v) and the hand-written model (Model.v).
   Executable definitions only. *)
From Coq Require Import ZArith List Bool.
Import ListNotations.
Open Scope Z_scope.

(* Attribute.Type *)
Inductive ty := TBool | TInt | TFloat | TComplex | TString.

Definition ty_eqb (a b : ty) : bool :=
  match a, b with
  | TBool, TBool | TInt, TInt | TFloat, TFloat | TComplex, TComplex | TString, TString => true
  | _, _ => false
  end.

(* A python / numpy scalar as the attribute code sees it: its Attribute.Type (via type(x)) and its value.
   Floats are carried exactly as multiples of 1/8 (CF z is z/8), complex numbers as two such parts, strings as
   the list of their character codes (the fixed-width numpy storage truncates them).
   CX is an object whose type is outside Attribute.Type's vocabulary (None, numpy.float16, numpy.complex128, numpy.str_, list). *)
Inductive comp :=
| CB (b : bool) | CI (z : Z) | CF (z : Z) | CC (re im : Z) | CS (s : list Z) | CX.

Definition kind_of (c : comp) : option ty :=
  match c with
  | CB _ => Some TBool | CI _ => Some TInt | CF _ => Some TFloat | CC _ _ => Some TComplex | CS _ => Some TString
  | CX => None
  end.

Fixpoint zlist_eqb (a b : list Z) : bool :=
  match a, b with
  | [], [] => true
  | x :: s, y :: t => Z.eqb x y && zlist_eqb s t
  | _, _ => false
  end.

Definition comp_eqb (a b : comp) : bool :=
  match a, b with
  | CB x, CB y => Bool.eqb x y
  | CI x, CI y => Z.eqb x y
  | CF x, CF y => Z.eqb x y
  | CC x1 x2, CC y1 y2 => Z.eqb x1 y1 && Z.eqb x2 y2
  | CS x, CS y => zlist_eqb x y
  | CX, CX => true
  | _, _ => false
  end.

(* A value handed to attr[key] = value.
   VScal : a non-iterable scalar object;  VSeq : list / tuple / 1-d numpy array (what list(value) yields);
   VStr  : a python str (iterating it yields its characters: list("ab") = ['a','b']). *)
Inductive value := VScal (c : comp) | VSeq (l : list comp) | VStr (s : list Z).

(* np.squeeze on a shape: every axis of length 1 is dropped *)
Definition squeeze (shape : list Z) : list Z := filter (fun d => negb (d =? 1)) shape.
