(* C05 - the structural invariant of the history machine: along every history every dense attribute is exactly as
   long as the container (alignment), every heap reference is valid, entries have the shape their arity demands. *)
From Coq Require Import ZArith List Bool Lia.
Import ListNotations.
Require Import MV.Lib.Base MV.C05.Types MV.C05.Gen MV.C05.Model MV.C05.ProofsBase MV.C05.Proofs.
Open Scope Z_scope.

(* operations as the property quantifies over them: arities >= 1, appended collections have a length >= 0 *)
Definition op_ok (o : op) : Prop :=
  match o with
  | Create _ _ k _ _ => 1 <= k
  | ExtendList m | ExtendOther m | ExtendListBad m => 0 <= m
  | Register _ _ k rows _ => 1 <= k /\ Forall (fun r => length r = Z.to_nat k) rows
  | CreateSized _ _ _ _ _ => False       (* a caller-chosen size: see create_sized_eq for size = len(container) *)
  | _ => True
  end.

(* the elements of a numpy array of dtype t are values of that dtype: storing them again changes nothing *)
Definition fixed (c : cell) : Prop := Forall (fun v => store (ck c) v = v) (cv c).

Lemma store_idem t c : store t (store t c) = store t c.
Proof.
  unfold store. destruct t, c; try reflexivity. simpl. unfold trunc.
  rewrite firstn_firstn. rewrite Nat.min_id. reflexivity.
Qed.

Definition rowlen (a : attr) (r : list comp) : Prop := length r = Z.to_nat (asz a).

Definition attr_ok (n : Z) (h : heap) (a : attr) : Prop :=
  1 <= asz a /\
  match adef a with
  | DCell id => 1 < asz a /\ exists c, nth_error h id = Some c /\ rowlen a (cv c)
  | DScal _ => True
  end /\
  match ast a with
  | Dense ne _ rows => ne = n /\ Z.of_nat (length rows) = n /\ Forall (rowlen a) rows
  | Sparse m =>
      NoDup (map fst m) /\
      forall k sv, lookup k m = Some sv ->
                   match sv with
                   | SVec id => 1 < asz a /\ exists c, nth_error h id = Some c /\ rowlen a (cv c) /\ ck c = aty a /\ fixed c
                   | SScal c => asz a = 1 /\ store (aty a) c = c
                   end
  end.

Definition ref_ok (h : heap) (r : ref) : Prop :=
  match r with RObj id => (id < length h)%nat | RRow _ _ k => 0 <= k | RArr _ _ | RNone => True end.

Definition inv (s : state) : Prop :=
  0 <= sn s /\
  (forall a at_, lookup a (attrs s) = Some at_ -> attr_ok (sn s) (hp s) at_) /\
  Forall (ref_ok (hp s)) (refs s).

(* heaps only ever grow at the end or are updated in place by a vector of the same length *)
Definition heap_ext (h h' : heap) : Prop :=
  (length h <= length h')%nat /\
  forall id c, nth_error h id = Some c -> exists c', nth_error h' id = Some c' /\ length (cv c') = length (cv c) /\ ck c' = ck c /\
                                           (fixed c -> fixed c').

Lemma heap_ext_refl h : heap_ext h h.
Proof. split; [lia|]. intros id c H. exists c. auto. Qed.

Lemma heap_ext_app h x : heap_ext h (h ++ [x]).
Proof.
  split; [rewrite app_length; simpl; lia|]. intros id c H. exists c. split; [|split; [reflexivity|split; [reflexivity|auto]]].
  rewrite nth_error_app1; [exact H|]. apply nth_error_Some. congruence.
Qed.

Lemma heap_ext_upd h id c0 v :
  nth_error h id = Some c0 -> length v = length (cv c0) -> (fixed c0 -> fixed (mkcell (ck c0) v)) ->
  heap_ext h (upd h id (mkcell (ck c0) v)).
Proof.
  intros H L FX. split; [rewrite length_upd; lia|]. intros id' c H'.
  destruct (Nat.eq_dec id id') as [E|N].
  - subst id'. exists (mkcell (ck c0) v). split.
    + apply nth_error_upd_same. apply nth_error_Some. congruence.
    + simpl. assert (c = c0) by congruence. subst c. split; [congruence|]. split; [reflexivity|exact FX].
  - exists c. split; [|split; [reflexivity|split; [reflexivity|auto]]]. rewrite nth_error_upd_other; auto.
Qed.

Lemma attr_ok_ext n h h' a : heap_ext h h' -> attr_ok n h a -> attr_ok n h' a.
Proof.
  intros [HL HE] [H1 [H2 H3]]. split; [exact H1|]. split.
  - destruct (adef a) as [c|id]; [exact I|]. destruct H2 as [L [c [Hc Hr]]]. split; [exact L|].
    destruct (HE _ _ Hc) as [c' [Hc' [Hl _]]]. exists c'. split; [exact Hc'|]. unfold rowlen in *. congruence.
  - destruct (ast a) as [m|ne st rows]; [|exact H3]. destruct H3 as [ND H3]. split; [exact ND|].
    intros k sv Hk. specialize (H3 k sv Hk). destruct sv as [c|id]; [exact H3|].
    destruct H3 as [L [c [Hc [Hr [Hk' Hf]]]]]. split; [exact L|].
    destruct (HE _ _ Hc) as [c' [Hc' [Hl [Hkk Hff]]]]. exists c'. split; [exact Hc'|]. unfold rowlen in *.
    split; [congruence|]. split; [congruence|auto].
Qed.

Lemma ref_ok_ext h h' r : heap_ext h h' -> ref_ok h r -> ref_ok h' r.
Proof. intros [HL _]. destruct r; simpl; auto; lia. Qed.

Lemma default_row_len n h a : attr_ok n h a -> rowlen a (default_row h a).
Proof.
  intros [H1 [H2 _]]. unfold default_row, rowlen. destruct (adef a) as [c|id].
  - apply repeat_length.
  - destruct H2 as [_ [c [Hc Hr]]]. rewrite Hc. rewrite map_length. exact Hr.
Qed.

Lemma Forall_repeat {A} (P : A -> Prop) x m : P x -> Forall P (repeat x m).
Proof. intros H. induction m; simpl; constructor; auto. Qed.

Lemma Forall_upd {A} (P : A -> Prop) l i v : Forall P l -> P v -> Forall P (upd l i v).
Proof.
  intros H Hv. revert i. induction H; intros [|i]; simpl; constructor; auto.
Qed.

Lemma NoDup_upsert {A} (k : Z) (v : A) l : NoDup (map fst l) -> NoDup (map fst (upsert k v l)).
Proof.
  induction l as [|[k' v'] t IH]; simpl; intros H.
  - constructor; [intros []|constructor].
  - inversion H as [|? ? N ND]; subst. destruct (k =? k') eqn:E; simpl.
    + apply Z.eqb_eq in E. subst. constructor; assumption.
    + constructor; [|now apply IH]. intros Hin. apply upsert_keys_incl in Hin. destruct Hin; [lia|contradiction].
Qed.

(* ------------------------------------------------------------------ preservation, operation by operation *)
Lemma inv_tick s : inv s -> inv (tick s).
Proof. intros H. exact H. Qed.

Lemma inv_with_attr s a at' :
  inv s -> attr_ok (sn s) (hp s) at' -> inv (with_attrs s (put a at' (attrs s))).
Proof.
  intros [H0 [H1 H2]] H. split; [exact H0|]. split; [|exact H2].
  intros b at_. simpl. rewrite lookup_put. destruct (b =? a).
  - intros E. inversion E. subst. exact H.
  - apply H1.
Qed.

Lemma inv_with_heap_attr s h' a at' :
  inv s -> heap_ext (hp s) h' -> attr_ok (sn s) h' at' ->
  inv (with_attrs (with_heap s h') (put a at' (attrs s))).
Proof.
  intros [H0 [H1 H2]] HE H. split; [exact H0|]. split.
  - intros b at_. simpl. rewrite lookup_put. destruct (b =? a).
    + intros E. inversion E. subst. exact H.
    + intros Hb. eapply attr_ok_ext; [exact HE|]. eapply H1; eassumption.
  - simpl. eapply Forall_impl; [|exact H2]. intros r. now apply ref_ok_ext.
Qed.

Lemma inv_create s a t k dense d : inv s -> 1 <= k -> inv (fst (do_create s a t k dense d)).
Proof.
  intros Hi Hk. unfold do_create.
  destruct (match lookup a (attrs s) with Some _ => create_keeps_existing | None => false end); [exact Hi|].
  unfold mk_default, default_is_scalar. destruct d as [c|].
  - destruct (kind_of c) as [td|]; [|exact Hi]. destruct (default_type_bad td t); [exact Hi|]. simpl.
    apply inv_with_heap_attr; [exact Hi|apply heap_ext_refl|].
    destruct Hi as [H0 _].
    split; [exact Hk|]. split; [exact I|]. unfold new_storage. destruct dense; simpl; [|split; [constructor|intros ? ? ?; discriminate]].
    unfold dense_init_n_elem, dense_init_rows, create_dense_n_elem. split; [reflexivity|]. split.
    + rewrite repeat_length. lia.
    + apply Forall_repeat. unfold rowlen, default_row. simpl. apply repeat_length.
  - destruct (k =? 1) eqn:K1; simpl.
    + apply inv_with_heap_attr; [exact Hi|apply heap_ext_refl|].
      destruct Hi as [H0 _].
      split; [exact Hk|]. split; [exact I|]. unfold new_storage. destruct dense; simpl; [|split; [constructor|intros ? ? ?; discriminate]].
      unfold dense_init_n_elem, dense_init_rows, create_dense_n_elem. split; [reflexivity|]. split.
      * rewrite repeat_length. lia.
      * apply Forall_repeat. unfold rowlen, default_row. simpl. apply repeat_length.
    + apply inv_with_heap_attr; [exact Hi|apply heap_ext_app|].
      destruct Hi as [H0 _].
      assert (Hc : nth_error (hp s ++ [mkcell t (repeat (type_default t) (Z.to_nat k))]) (length (hp s))
                   = Some (mkcell t (repeat (type_default t) (Z.to_nat k)))) by apply nth_error_app_new.
      split; [exact Hk|]. split.
      * simpl. split; [lia|]. eexists. split; [exact Hc|]. unfold rowlen. simpl. apply repeat_length.
      * unfold new_storage. destruct dense; simpl; [|split; [constructor|intros ? ? ?; discriminate]].
        unfold dense_init_n_elem, dense_init_rows, create_dense_n_elem. split; [reflexivity|]. split.
        -- rewrite repeat_length. lia.
        -- apply Forall_repeat. unfold rowlen, default_row. simpl. rewrite Hc. simpl.
           rewrite map_length. apply repeat_length.
Qed.

Lemma inv_delete s a : inv s -> inv (with_attrs s (del a (attrs s))).
Proof.
  intros [H0 [H1 H2]]. split; [exact H0|]. split; [|exact H2].
  intros b at_. simpl. rewrite lookup_del. destruct (b =? a); [discriminate|]. apply H1.
Qed.

Lemma inv_set s a key v : inv s -> inv (fst (do_set s a key v)).
Proof.
  intros Hi. unfold do_set. destruct (lookup a (attrs s)) as [at_|] eqn:La; [|exact Hi].
  pose proof Hi as [H0 [H1 H2]]. pose proof (H1 _ _ La) as [A1 [A2 A3]].
  destruct (ast at_) as [m|ne stamp rows] eqn:St.
  - destruct (sparse_validate (aty at_) (asz at_) v) as [e|[isv l]] eqn:V; [exact Hi|].
    apply sparse_validate_inr in V; [|exact A1]. destruct V as [V0 [V1 [V2 V3]]].
    unfold sparse_vec_uses_attr_dtype, sparse_scal_converted.
    destruct isv; destruct (existsb (overflows (aty at_)) l); try exact Hi; simpl.
    + apply inv_with_heap_attr; [exact Hi|apply heap_ext_app|].
      split; [exact A1|]. split.
      * simpl. destruct (adef at_) as [c|id]; [exact I|]. destruct A2 as [L [c [Hc Hr]]]. split; [exact L|].
        exists c. split; [|exact Hr]. rewrite nth_error_app1; [exact Hc|]. apply nth_error_Some. congruence.
      * simpl. destruct A3 as [ND A3]. split; [now apply NoDup_upsert|].
        intros k sv. rewrite lookup_upsert. destruct (k =? key).
        -- intros E. inversion E; subst. split; [lia|]. eexists. split; [apply nth_error_app_new|].
           unfold rowlen. simpl. rewrite map_length. split; [lia|]. split; [reflexivity|].
           unfold fixed. simpl. apply Forall_forall. intros v0 Hv. apply in_map_iff in Hv. destruct Hv as [u [<- _]].
           apply store_idem.
        -- intros Hk. specialize (A3 k sv Hk). destruct sv as [c|id]; [exact A3|].
           destruct A3 as [L [c [Hc Hr]]]. split; [exact L|]. exists c. split; [|exact Hr].
           rewrite nth_error_app1; [exact Hc|]. apply nth_error_Some. congruence.
    + apply inv_with_attr; [exact Hi|]. split; [exact A1|]. split; [exact A2|].
      simpl. destruct A3 as [ND A3]. split; [now apply NoDup_upsert|].
      intros k sv. rewrite lookup_upsert. destruct (k =? key).
      * intros E. inversion E; subst. split; [lia|apply store_idem].
      * apply A3.
  - destruct (dense_oob key ne); [exact Hi|].
    destruct (dense_validate (aty at_) (asz at_) v) as [e|[isv l]] eqn:V; [exact Hi|].
    rewrite <- validate_same in V.
    apply sparse_validate_inr in V; [|exact A1]. destruct V as [V0 [V1 [V2 V3]]].
    destruct (existsb (overflows (aty at_)) l); [exact Hi|].
    simpl. apply inv_with_attr; [exact Hi|]. split; [exact A1|]. split; [exact A2|].
    simpl. destruct A3 as [B1 [B2 B3]]. split; [exact B1|]. split; [rewrite length_upd; exact B2|].
    apply Forall_upd; [exact B3|]. unfold rowlen. simpl. destruct isv.
    + rewrite map_length. lia.
    + apply repeat_length.
Qed.

Lemma inv_get s a key : inv s -> inv (fst (do_get s a key)).
Proof.
  intros Hi. unfold do_get. destruct (lookup a (attrs s)) as [at_|] eqn:La; [|exact Hi].
  pose proof Hi as [H0 [H1 H2]]. pose proof (H1 _ _ La) as [A1 [A2 A3]].
  destruct (ast at_) as [m|ne stamp rows] eqn:St.
  - destruct (lookup key m) as [[c|id]|] eqn:Lk.
    + exact Hi.
    + destruct (nth_error (hp s) id) as [c|] eqn:Hc; [|exact Hi]. simpl.
      split; [exact H0|]. split; [exact H1|]. simpl. apply Forall_app. split; [exact H2|].
      constructor; [|constructor]. simpl. apply nth_error_Some. congruence.
    + destruct (sparse_get_fresh (asz at_)).
      * simpl. split; [exact H0|]. split.
        -- intros b bt Hb. simpl in *. eapply attr_ok_ext; [apply heap_ext_app|]. eapply H1; eassumption.
        -- simpl. apply Forall_app. split.
           ++ eapply Forall_impl; [|exact H2]. intros r. apply ref_ok_ext. apply heap_ext_app.
           ++ constructor; [|constructor]. simpl. rewrite app_length. simpl. lia.
      * destruct (adef at_) as [c|id] eqn:D; [exact Hi|]. simpl.
        split; [exact H0|]. split; [exact H1|]. simpl. apply Forall_app. split; [exact H2|].
        constructor; [|constructor]. simpl. destruct A2 as [_ [c [Hc _]]]. apply nth_error_Some. congruence.
  - destruct (dense_oob key ne) eqn:O; [exact Hi|].
    destruct (dense_get_scalar (asz at_)); [exact Hi|]. simpl.
    split; [exact H0|]. split; [exact H1|]. simpl. apply Forall_app. split; [exact H2|].
    constructor; [|constructor]. simpl.
    destruct (Z_lt_dec key 0) as [N|N]; [|lia].
    exfalso. assert (dense_oob key ne = true) by (apply dense_bounds; lia). congruence.
Qed.

Lemma upd_out_of_range {A} (l : list A) i v : (length l <= i)%nat -> upd l i v = l.
Proof. revert i. induction l; intros [|i] L; simpl in *; try lia; auto. f_equal. apply IHl. lia. Qed.

Lemma inv_mut_ref s r c x : inv s -> inv (mut_ref s r c x).
Proof.
  intros Hi. pose proof Hi as [H0 [H1 H2]]. destruct r as [id|a stamp k|a0 st0|]; simpl; [| |exact Hi|exact Hi].
  - destruct (nth_error (hp s) id) as [cl|] eqn:Hc; [|exact Hi].
    assert (HE : heap_ext (hp s) (upd (hp s) id (mkcell (ck cl) (upd (cv cl) (Z.to_nat c) (store (ck cl) x))))).
    { apply heap_ext_upd; [exact Hc|apply length_upd|]. unfold fixed. simpl. intros FX.
      apply Forall_upd; [exact FX|apply store_idem]. }
    split; [exact H0|]. split.
    + intros b bt Hb. simpl in *. eapply attr_ok_ext; [exact HE|]. eapply H1; eassumption.
    + simpl. eapply Forall_impl; [|exact H2]. intros r. now apply ref_ok_ext.
  - destruct (lookup a (attrs s)) as [at_|] eqn:La; [|exact Hi].
    destruct (ast at_) as [m|ne st rows] eqn:St; [exact Hi|].
    destruct (st =? stamp); [|exact Hi].
    pose proof (H1 _ _ La) as [A1 [A2 A3]]. rewrite St in A3. destruct A3 as [B1 [B2 B3]].
    apply inv_with_attr; [exact Hi|]. split; [exact A1|]. split; [exact A2|]. simpl.
    split; [exact B1|]. split; [rewrite length_upd; exact B2|].
    destruct (Nat.lt_ge_cases (Z.to_nat k) (length rows)) as [L|L].
    + apply Forall_upd; [exact B3|]. unfold rowlen. rewrite length_upd. unfold znth_row.
      rewrite Forall_forall in B3. apply B3. now apply nth_In.
    + rewrite upd_out_of_range by exact L. exact B3.
Qed.

Lemma inv_grow s added amount :
  inv s -> 0 <= added -> amount = added -> inv (fst (grow s added amount)).
Proof.
  intros [H0 [H1 H2]] Ha E. subst amount. unfold grow. simpl. split; [simpl; lia|]. split; [|exact H2]. simpl.
  intros b bt. rewrite lookup_map_vals. destruct (lookup b (attrs s)) as [at_|] eqn:Lb; [|discriminate].
  simpl. intros E. inversion E; subst; clear E. pose proof (H1 _ _ Lb) as Hok. pose proof Hok as [A1 [A2 A3]].
  unfold expand_attr. destruct (ast at_) as [m|ne st rows] eqn:St.
  - split; [exact A1|]. split; [exact A2|]. rewrite St. exact A3.
  - destruct A3 as [B1 [B2 B3]]. split; [exact A1|]. split; [exact A2|]. simpl.
    unfold dense_expand_n_elem, dense_expand_rows. split; [lia|]. split.
    + rewrite app_length, repeat_length. lia.
    + apply Forall_app. split; [exact B3|]. apply Forall_repeat.
      change (rowlen at_ (default_row (hp s) at_)). eapply default_row_len; exact Hok.
Qed.

Lemma inv_clear_attr s a : inv s -> inv (fst (do_clear_attr s a)).
Proof.
  intros Hi. unfold do_clear_attr. destruct (lookup a (attrs s)) as [at_|] eqn:La; [|exact Hi].
  pose proof Hi as [H0 [H1 H2]]. pose proof (H1 _ _ La) as Hok. pose proof Hok as [A1 [A2 A3]].
  destruct (ast at_) as [m|ne stamp rows] eqn:St; simpl.
  - apply inv_with_attr; [exact Hi|]. split; [exact A1|]. split; [exact A2|]. simpl.
    split; [constructor|intros ? ? ?; discriminate].
  - apply inv_with_attr; [exact Hi|]. destruct A3 as [B1 [B2 B3]].
    split; [exact A1|]. split; [exact A2|]. simpl. unfold dense_clear_rows.
    split; [exact B1|]. split; [rewrite repeat_length; lia|].
    apply Forall_repeat. change (rowlen at_ (default_row (hp s) at_)). eapply default_row_len; exact Hok.
Qed.

Lemma inv_push_ref s r : inv s -> ref_ok (hp s) r -> inv (with_refs s (refs s ++ [r])).
Proof.
  intros [H0 [H1 H2]] Hr. split; [exact H0|]. split; [exact H1|]. simpl. apply Forall_app. split; [exact H2|].
  constructor; [exact Hr|constructor].
Qed.

Lemma inv_as_array s a : inv s -> inv (fst (do_as_array s a)).
Proof.
  intros Hi. unfold do_as_array. destruct (lookup a (attrs s)) as [at_|]; [|exact Hi].
  destruct (ast at_); [destruct (fill_rows _ _ _ _ _); [|exact Hi]|]; simpl; apply inv_push_ref; simpl; auto.
Qed.

Lemma inv_update s a key c x : inv s -> inv (fst (do_update s a key c x)).
Proof.
  intros Hi. unfold do_update. pose proof (inv_get s a key Hi) as Hg.
  destruct (do_get s a key) as [s1 w]. simpl in Hg. destruct w; try exact Hg. destruct isvec; [|exact Hg].
  destruct ((c <? 0) || (c >=? Z.of_nat (length row))); [exact Hg|].
  destruct (match lookup a (attrs s) with Some at_ => overflows (aty at_) x | None => false end); [exact Hg|].
  destruct (nth_error (refs s1) (length (refs s))) as [rf|]; [|exact Hg]. apply (inv_mut_ref s1 rf c x Hg).
Qed.

Lemma inv_mut_arr s r row c x : inv s -> inv (fst (do_mut_arr s r row c x)).
Proof.
  intros Hi. unfold do_mut_arr. destruct (nth_error (refs s) r) as [[id|a st k|a st|]|]; try exact Hi.
  destruct (row <? 0); [exact Hi|]. apply (inv_mut_ref s (RRow a st row) c x Hi).
Qed.

Lemma inv_register s a t k rows d :
  inv s -> 1 <= k -> Forall (fun r => length r = Z.to_nat k) rows -> inv (fst (do_register s a t k rows d)).
Proof.
  intros Hi Hk Hr. unfold do_register.
  destruct (match lookup a (attrs s) with Some _ => register_keeps_existing | None => false end); [exact Hi|].
  destruct (negb (Z.of_nat (length rows) =? sn s)) eqn:Sh; [exact Hi|]. destruct (sn s =? 0); [exact Hi|].
  assert (Ln : Z.of_nat (length rows) = sn s) by lia.
  unfold mk_default, default_is_scalar. destruct d as [c|].
  - destruct (kind_of c) as [td|]; [|exact Hi]. destruct (default_type_bad td t); [exact Hi|]. simpl.
    apply inv_with_heap_attr; [exact Hi|apply heap_ext_refl|].
    split; [exact Hk|]. split; [exact I|]. simpl. auto.
  - destruct (k =? 1) eqn:K1; simpl.
    + apply inv_with_heap_attr; [exact Hi|apply heap_ext_refl|]. split; [exact Hk|]. split; [exact I|]. simpl. auto.
    + apply inv_with_heap_attr; [exact Hi|apply heap_ext_app|].
      split; [exact Hk|]. split; [|simpl; auto].
      simpl. split; [lia|]. eexists. split; [apply nth_error_app_new|]. unfold rowlen. simpl. apply repeat_length.
Qed.

Lemma inv_step s o : inv s -> op_ok o -> inv (fst (step s o)).
Proof.
  intros Hi Ho. apply inv_tick in Hi. unfold step. set (t := tick s) in *. clearbody t.
  destruct o; simpl in Ho; simpl; try exact Hi.
  - now apply inv_create.
  - now apply inv_delete.
  - now apply inv_set.
  - now apply inv_get.
  - unfold do_mut. destruct (nth_error (refs t) r) as [[id|a st k|a st|]|]; try exact Hi; first [apply (inv_mut_ref t (RObj id) c x Hi)|apply (inv_mut_ref t (RRow a st k) c x Hi)].
  - apply inv_grow; [exact Hi|lia|]. unfold append_amount. destruct (corner t); reflexivity.
  - apply inv_grow; [exact Hi|lia|]. unfold iadd_list_amount. destruct (corner t); reflexivity.
  - apply inv_grow; [exact Hi|lia|]. unfold iadd_cont_amount. destruct (corner t); reflexivity.
  - apply inv_grow; [exact Hi|destruct Hi; lia|]. unfold iadd_cont_amount. destruct (corner t); reflexivity.
  - now apply inv_clear_attr.
  - now apply inv_as_array.
  - destruct (lookup a (attrs t)); exact Hi.
  - destruct (lookup a (attrs t)) as [at_|]; [|exact Hi]. destruct (ast at_); exact Hi.
  - destruct Hi as [H0 [H1 H2]]. split; [simpl; lia|]. split; [intros ? ? ?; discriminate|exact H2].
  - now apply inv_update.
  - now apply inv_mut_arr.
  - unfold do_contains. destruct (lookup a (attrs t)) as [at_|]; [|exact Hi]. destruct (ast at_) as [m|ne st rows]; [exact Hi|].
    destruct rows; [exact Hi|]. destruct (asz at_ =? 1); exact Hi.
  - destruct (corner t) eqn:Cn.
    + exact Hi.
    + apply inv_grow; [exact Hi|lia|]. unfold iadd_list_amount. rewrite Cn. reflexivity.
  - contradiction.
  - destruct Ho. now apply inv_register.
  - unfold do_export_shape. destruct (lookup a (attrs t)) as [at_|]; [|exact Hi].
    destruct (ast at_); [destruct (fill_rows _ _ _ _ _)|]; exact Hi.
Qed.

Lemma inv_init c : inv (init c).
Proof. split; [simpl; lia|]. split; [intros ? ? ?; discriminate|constructor]. Qed.

Lemma inv_run s h : inv s -> Forall op_ok h -> inv (fst (run s h)).
Proof.
  revert s. induction h as [|o t IH]; intros s Hi Hh; simpl; [exact Hi|].
  inversion Hh; subst. destruct (step s o) as [s1 w] eqn:E. destruct (run s1 t) as [s2 ws] eqn:R. simpl.
  change s2 with (fst (s2, ws)). rewrite <- R. apply IH; [|assumption].
  change s1 with (fst (s1, w)). rewrite <- E. now apply inv_step.
Qed.

(* ------------------------------------------------------------------ alignment, as the property states it *)
Definition aligned (s : state) : Prop :=
  forall a at_, lookup a (attrs s) = Some at_ ->
                match ast at_ with
                | Dense ne _ rows => ne = sn s /\ Z.of_nat (length rows) = sn s /\ len_attr at_ = sn s
                | Sparse _ => True
                end.

Lemma alignment : forall c h, Forall op_ok h -> aligned (fst (run (init c) h)).
Proof.
  intros c h Hh. pose proof (inv_run _ _ (inv_init c) Hh) as [_ [H _]].
  intros a at_ La. specialize (H _ _ La). destruct H as [_ [_ H]].
  unfold len_attr. destruct (ast at_); [exact I|]. destruct H as [B1 [B2 _]]. unfold dense_len. auto.
Qed.

(* growth operations report the new container length and, for every dense attribute, that very length *)
Lemma grow_obs_aligned : forall c h o s' n l,
  Forall op_ok h -> op_ok o ->
  step (fst (run (init c) h)) o = (s', OGrow n l) ->
  n = sn s' /\ aligned s'.
Proof.
  intros c h o s' n l Hh Ho E. pose proof (inv_run _ _ (inv_init c) Hh) as Hi.
  pose proof (inv_step _ _ Hi Ho) as Hi'. rewrite E in Hi'. simpl in Hi'. split.
  - unfold step in E. destruct o; simpl in E;
      try (unfold grow in E; inversion E; reflexivity);
      unfold do_create, do_set, do_get, do_mut, do_clear_attr, do_as_array, do_update, do_mut_arr, do_contains,
        do_create_sized, do_register, do_export_shape, do_get in E;
      repeat (match type of E with context [match ?x with _ => _ end] => destruct x; try discriminate E end);
      try discriminate E; try (unfold grow in E; inversion E; reflexivity).
  - destruct Hi' as [_ [H _]]. intros a at_ La. specialize (H _ _ La). destruct H as [_ [_ H]].
    unfold len_attr. destruct (ast at_); [exact I|]. destruct H as [B1 [B2 _]]. unfold dense_len. auto.
Qed.
