(* C05 - total-map laws of the history machine: read-after-write, frame, defaults, clear, growth; the dense bounds
   at the level of the machine. *)
From Coq Require Import ZArith List Bool Lia.
Import ListNotations.
Require Import MV.Lib.Base MV.C05.Types MV.C05.Gen MV.C05.Model MV.C05.ProofsBase MV.C05.Proofs MV.C05.ProofsInv.
Open Scope Z_scope.

(* ------------------------------------------------------------------ numpy's intermediate dtype is harmless *)
Definition fk (acc : ty) (l : list comp) : ty :=
  fold_left (fun k c => match kind_of c with Some t => kmax k t | None => k end) l acc.

Lemma trank_kmax a b : trank (kmax a b) = Z.max (trank a) (trank b).
Proof. unfold kmax. destruct (trank a <? trank b) eqn:E; lia. Qed.

Lemma fk_ge acc l : trank acc <= trank (fk acc l) /\
                    forall c tv, In c l -> kind_of c = Some tv -> trank tv <= trank (fk acc l).
Proof.
  revert acc. induction l as [|c r IH]; intros acc; simpl.
  - split; [lia|]. intros ? ? [].
  - destruct (kind_of c) as [t|] eqn:K.
    + destruct (IH (kmax acc t)) as [I1 I2]. rewrite trank_kmax in I1. split; [lia|].
      intros c' tv [E|H] K'.
      * subst c'. rewrite K in K'. inversion K'; subst. lia.
      * eapply I2; eauto.
    + destruct (IH acc) as [I1 I2]. split; [exact I1|]. intros c' tv [E|H] K'.
      * subst c'. congruence.
      * eapply I2; eauto.
Qed.

Lemma fk_from acc l : fk acc l = acc \/ exists c, In c l /\ kind_of c = Some (fk acc l).
Proof.
  revert acc. induction l as [|c r IH]; intros acc; simpl; [now left|].
  destruct (kind_of c) as [t|] eqn:K.
  - destruct (IH (kmax acc t)) as [E|[c' [H1 H2]]].
    + fold (fk (kmax acc t) r). rewrite E. unfold kmax. destruct (trank acc <? trank t).
      * right. exists c. split; [now left|exact K].
      * now left.
    + right. exists c'. split; [now right|exact H2].
  - destruct (IH acc) as [E|[c' [H1 H2]]]; [now left|]. right. exists c'. split; [now right|exact H2].
Qed.

Lemma cast_cast c tv K ta :
  kind_of c = Some tv -> widens tv ta -> trank tv <= trank K -> (K = TBool \/ widens K ta) ->
  cast ta (cast K c) = cast ta c.
Proof.
  intros Hk W1 Hr W2.
  destruct c; simpl in Hk; inversion Hk; subst; clear Hk;
    destruct K; simpl in Hr; try lia;
      destruct ta; try reflexivity;
        try (exfalso; destruct W1 as [W|[[W W']|[[W W']|[W W']]]]; discriminate);
        try (exfalso; destruct W2 as [W|[W|[[W W']|[[W W']|[W W']]]]]; discriminate).
Qed.

Lemma cast_store t c : cast t (store t c) = store t c.
Proof. destruct t, c; reflexivity. Qed.

Lemma map_cast_store t l : map (cast t) (map (store t) l) = map (store t) l.
Proof. rewrite map_map. apply map_ext. intros c. apply cast_store. Qed.

(* what an accepted write leaves to be read, in both storages: the components converted to the attribute's dtype
   (bool/int widened, an int in a float attribute becomes the nearest double, strings cut to the fixed width) *)
Definition written (at_ : attr) (isv : bool) (l : list comp) : list comp := map (store (aty at_)) l.

(* what an entry that was never written reads *)
Definition unset_read (h : heap) (a : attr) : list comp :=
  match ast a with
  | Sparse _ => if asz a >? 1 then default_row h a
                else match adef a with DScal c => [cast (aty a) c] | DCell _ => default_row h a end
  | Dense _ _ _ => default_row h a
  end.

(* ------------------------------------------------------------------ reads do not depend on heap growth *)
Lemma rd_attr_app n h x a j : attr_ok n h a -> rd_attr (h ++ [x]) a j = rd_attr h a j.
Proof.
  intros [A1 [A2 A3]]. unfold rd_attr.
  assert (D : default_row (h ++ [x]) a = default_row h a).
  { unfold default_row. destruct (adef a) as [c|id]; [reflexivity|]. destruct A2 as [_ [c [Hc _]]].
    rewrite nth_error_app1; [reflexivity|]. apply nth_error_Some. congruence. }
  destruct (ast a) as [m|ne st rows]; [|reflexivity]. destruct A3 as [_ A3].
  destruct (lookup j m) as [sv|] eqn:L.
  - specialize (A3 _ _ L). destruct sv as [c|id]; [reflexivity|]. simpl.
    destruct A3 as [_ [c [Hc _]]]. rewrite nth_error_app1; [reflexivity|]. apply nth_error_Some. congruence.
  - rewrite D. reflexivity.
Qed.

(* heaps that keep their old cells *)
Definition hpres (h h' : heap) : Prop := forall id, (id < length h)%nat -> nth_error h' id = nth_error h id.

Lemma hpres_refl h : hpres h h.
Proof. intros id _. reflexivity. Qed.

Lemma hpres_app h x : hpres h (h ++ [x]).
Proof. intros id H. now apply nth_error_app1. Qed.

Lemma rd_tick s a k : rd (tick s) a k = rd s a k.
Proof. reflexivity. Qed.

(* ------------------------------------------------------------------ attr[k] = v *)
Lemma set_laws s a k v s' :
  inv s -> step s (SetItem a k v) = (s', OOk) ->
  exists at_ isv l,
    lookup a (attrs s) = Some at_ /\
    sparse_validate (aty at_) (asz at_) v = inr (isv, l) /\
    existsb (overflows (aty at_)) l = false /\
    rd s' a k = Some (written at_ isv l) /\
    (forall b j, (b, j) <> (a, k) -> rd s' b j = rd s b j) /\
    sn s' = sn s.
Proof.
  intros Hi E. unfold step in E. simpl in E. apply inv_tick in Hi.
  assert (RT : forall b j, rd (tick s) b j = rd s b j) by reflexivity.
  assert (NT : sn (tick s) = sn s) by reflexivity.
  assert (AT : attrs (tick s) = attrs s) by reflexivity.
  rewrite <- AT. setoid_rewrite <- RT. rewrite <- NT. clear RT NT AT.
  set (t := tick s) in *. clearbody t. clear s.
  unfold do_set in E. destruct (lookup a (attrs t)) as [at_|] eqn:La; [|discriminate].
  pose proof Hi as [H0 [H1 H2]]. pose proof (H1 _ _ La) as Hok. pose proof Hok as [A1 [A2 A3]].
  exists at_. destruct (ast at_) as [m|ne stamp rows] eqn:St.
  - destruct (sparse_validate (aty at_) (asz at_) v) as [e|[isv l]] eqn:V; [discriminate|].
    exists isv, l. split; [reflexivity|]. split; [reflexivity|].
    pose proof V as V'. apply sparse_validate_inr in V'; [|exact A1]. destruct V' as [V0 [V1 [V2 V3]]].
    unfold sparse_vec_uses_attr_dtype, sparse_scal_converted in E.
    destruct (existsb (overflows (aty at_)) l) eqn:Ov; [destruct isv; discriminate|]. split; [reflexivity|].
    destruct isv; inversion E; subst s'; clear E.
    + split; [|split; [|reflexivity]].
      * unfold rd. simpl. rewrite lookup_put_same. unfold rd_attr. simpl. rewrite lookup_upsert, Z.eqb_refl.
        simpl. rewrite nth_error_app_new. simpl. unfold written. f_equal. apply map_cast_store.
      * intros b j N. unfold rd. simpl. rewrite lookup_put. destruct (b =? a) eqn:Eb.
        -- apply Z.eqb_eq in Eb. subst b. rewrite La. assert (j <> k) by congruence.
           transitivity (rd_attr (hp t ++ [mkcell (aty at_) (map (store (aty at_)) l)]) at_ j).
           ++ unfold rd_attr. simpl. rewrite St. rewrite lookup_upsert.
              destruct (j =? k) eqn:Ej; [lia|]. reflexivity.
           ++ eapply rd_attr_app; exact Hok.
        -- destruct (lookup b (attrs t)) as [bt|] eqn:Lb; [|reflexivity]. eapply rd_attr_app. eapply H1; eassumption.
    + split; [|split; [|reflexivity]].
      * unfold rd. simpl. rewrite lookup_put_same. unfold rd_attr. simpl. rewrite lookup_upsert, Z.eqb_refl.
        simpl. unfold written. destruct l as [|c [|c' r]]; simpl length in V2; try (exfalso; lia). simpl.
        now rewrite cast_store.
      * intros b j N. unfold rd. simpl. rewrite lookup_put. destruct (b =? a) eqn:Eb.
        -- apply Z.eqb_eq in Eb. subst b. rewrite La. assert (j <> k) by congruence.
           unfold rd_attr. simpl. rewrite St. rewrite lookup_upsert.
           destruct (j =? k) eqn:Ej; [lia|]. reflexivity.
        -- reflexivity.
  - destruct (dense_oob k ne) eqn:O; [discriminate|].
    destruct (dense_validate (aty at_) (asz at_) v) as [e|[isv l]] eqn:V; [discriminate|].
    rewrite <- validate_same in V.
    exists isv, l. split; [reflexivity|]. split; [exact V|].
    pose proof V as V'. apply sparse_validate_inr in V'; [|exact A1]. destruct V' as [V0 [V1 [V2 V3]]].
    destruct A3 as [B1 [B2 B3]].
    destruct (existsb (overflows (aty at_)) l) eqn:Ov; [discriminate|]. split; [reflexivity|].
    assert (K0 : 0 <= k < ne).
    { destruct (Z_lt_dec k 0); [exfalso|]; [assert (dense_oob k ne = true) by (apply dense_bounds; lia); congruence|].
      destruct (Z_lt_dec k ne); [lia|]. exfalso. assert (dense_oob k ne = true) by (apply dense_bounds; lia). congruence. }
    inversion E; subst s'; clear E. split; [|split; [|reflexivity]].
    + unfold rd. simpl. rewrite lookup_put_same. unfold rd_attr. simpl. rewrite O.
      unfold znth_row. rewrite nth_upd_same by lia.
      unfold dense_get_scalar, written. destruct isv.
      * assert (asz at_ =? 1 = false) by lia. rewrite H. reflexivity.
      * assert (asz at_ = 1) by lia. rewrite H. simpl.
        destruct l as [|c [|c' r]]; simpl length in V2; try (exfalso; lia). reflexivity.
    + intros b j N. unfold rd. simpl. rewrite lookup_put. destruct (b =? a) eqn:Eb; [|reflexivity].
      apply Z.eqb_eq in Eb. subst b. rewrite La. assert (j <> k) by congruence.
      unfold rd_attr. simpl. rewrite St. destruct (dense_oob j ne) eqn:Oj; [reflexivity|].
      assert (0 <= j).
      { destruct (Z_lt_dec j 0); [exfalso|lia]. assert (dense_oob j ne = true) by (apply dense_bounds; lia). congruence. }
      unfold znth_row. rewrite nth_upd_other by lia. reflexivity.
Qed.

(* ------------------------------------------------------------------ what a read returns, under the invariant *)
Lemma rd_sparse_unset n h a m k :
  attr_ok n h a -> ast a = Sparse m -> lookup k m = None -> rd_attr h a k = Some (unset_read h a).
Proof.
  intros [A1 [A2 A3]] St L. unfold rd_attr, unset_read. rewrite St, L. unfold sparse_get_fresh.
  destruct (asz a >? 1) eqn:E; [reflexivity|]. destruct (adef a) as [c|id] eqn:D; reflexivity.
Qed.

Lemma rd_sparse_set n h a m k sv :
  attr_ok n h a -> ast a = Sparse m -> lookup k m = Some sv ->
  exists row, rd_attr h a k = Some row /\ row_of_sval h a sv = Some row /\ rowlen a row.
Proof.
  intros [A1 [A2 A3]] St L. unfold rd_attr. rewrite St, L. rewrite St in A3. destruct A3 as [_ A3].
  specialize (A3 _ _ L). destruct sv as [c|id]; simpl.
  - eexists. split; [reflexivity|]. split; [reflexivity|]. unfold rowlen. destruct A3 as [A3 _]. rewrite A3. reflexivity.
  - destruct A3 as [_ [c [Hc Hr]]]. rewrite Hc. eexists. split; [reflexivity|]. split; [reflexivity|].
    unfold rowlen in *. now rewrite map_length.
Qed.

Lemma firstn_all1 {A} (l : list A) : length l = 1%nat -> firstn 1 l = l.
Proof. destruct l as [|x [|y r]]; simpl; intros H; try discriminate; reflexivity. Qed.

Lemma rd_dense n h a ne st rows k :
  attr_ok n h a -> ast a = Dense ne st rows -> 0 <= k < n -> rd_attr h a k = Some (znth_row rows k).
Proof.
  intros [A1 [A2 A3]] St K. unfold rd_attr. rewrite St. rewrite St in A3. destruct A3 as [B1 [B2 B3]]. subst ne.
  assert (O : dense_oob k n = false).
  { destruct (dense_oob k n) eqn:O; [|reflexivity]. apply dense_bounds in O. lia. }
  rewrite O. unfold dense_get_scalar. destruct (asz a =? 1) eqn:E; [|reflexivity].
  f_equal. apply firstn_all1. rewrite Forall_forall in B3. unfold znth_row.
  assert (In (nth (Z.to_nat k) rows []) rows) by (apply nth_In; lia).
  rewrite (B3 _ H). lia.
Qed.

Lemma rd_dense_oob h a ne st rows k :
  ast a = Dense ne st rows -> ~ (0 <= k < ne) -> rd_attr h a k = None.
Proof.
  intros St K. unfold rd_attr. rewrite St.
  assert (O : dense_oob k ne = true) by (now apply dense_bounds). now rewrite O.
Qed.

(* the observation attr[k] produces, as a function of the state *)
Definition get_obs (s : state) (a k : Z) : obs :=
  match lookup a (attrs s) with
  | None => OErr ENoAttr
  | Some at_ =>
      match rd_attr (hp s) at_ k with
      | Some row => OVal row (asz at_ >? 1)
      | None => OErr EOob
      end
  end.

Lemma get_laws s a k s' w :
  inv s -> step s (GetItem a k) = (s', w) ->
  w = get_obs s a k /\ (forall b j, rd s' b j = rd s b j) /\ sn s' = sn s /\ attrs s' = attrs s /\
  hpres (hp s) (hp s') /\ corner s' = corner s.
Proof.
  intros Hi E. unfold step in E. simpl in E. apply inv_tick in Hi.
  change (get_obs s a k) with (get_obs (tick s) a k).
  assert (RT : forall b j, rd (tick s) b j = rd s b j) by reflexivity.
  assert (NT : sn (tick s) = sn s) by reflexivity.
  assert (AT : attrs (tick s) = attrs s) by reflexivity.
  assert (HT : hp (tick s) = hp s) by reflexivity.
  assert (CT : corner (tick s) = corner s) by reflexivity.
  rewrite <- AT, <- HT, <- CT. setoid_rewrite <- RT. rewrite <- NT. clear RT NT AT HT CT.
  set (t := tick s) in *. clearbody t. clear s.
  assert (HR := hpres_refl (hp t)).
  unfold do_get in E. unfold get_obs. destruct (lookup a (attrs t)) as [at_|] eqn:La.
  2:{ inversion E; subst. repeat split; auto. }
  pose proof Hi as [H0 [H1 H2]]. pose proof (H1 _ _ La) as Hok. pose proof Hok as [A1 [A2 A3]].
  destruct (ast at_) as [m|ne stamp rows] eqn:St.
  - destruct (lookup k m) as [sv|] eqn:Lk.
    + destruct (rd_sparse_set _ _ _ _ _ _ Hok St Lk) as [row [R1 [R2 R3]]]. rewrite R1.
      destruct A3 as [_ A3]. specialize (A3 _ _ Lk). destruct sv as [c|id].
      * inversion E; subst. simpl in R2. inversion R2; subst. assert (asz at_ >? 1 = false) by lia. rewrite H. repeat split; auto.
      * destruct A3 as [L [c [Hc Hr]]]. rewrite Hc in E. inversion E; subst. simpl in R2. rewrite Hc in R2.
        inversion R2; subst. assert (asz at_ >? 1 = true) by lia. rewrite H. repeat split; auto.
    + rewrite (rd_sparse_unset _ _ _ _ _ Hok St Lk). unfold sparse_get_fresh in E. unfold unset_read. rewrite St.
      destruct (asz at_ >? 1) eqn:F.
      * inversion E; subst. split; [reflexivity|]. split; [|simpl; repeat split; auto; apply hpres_app].
        intros b j. unfold rd. simpl. destruct (lookup b (attrs t)) as [bt|] eqn:Lb; [|reflexivity].
        eapply rd_attr_app. eapply H1; eassumption.
      * assert (asz at_ = 1) by lia. destruct (adef at_) as [c|id] eqn:D.
        -- inversion E; subst. repeat split; auto.
        -- exfalso. destruct A2 as [L _]. lia.
  - destruct (dense_oob k ne) eqn:O.
    + inversion E; subst. unfold rd_attr. rewrite St, O. repeat split; auto.
    + destruct A3 as [B1 [B2 B3]]. assert (K : 0 <= k < sn t).
      { subst ne. destruct (Z_lt_dec k 0); [exfalso; assert (dense_oob k (sn t) = true) by (apply dense_bounds; lia); congruence|].
        destruct (Z_lt_dec k (sn t)); [lia|]. exfalso. assert (dense_oob k (sn t) = true) by (apply dense_bounds; lia). congruence. }
      rewrite (rd_dense _ _ _ _ _ _ _ Hok St K). unfold dense_get_scalar in E.
      destruct (asz at_ =? 1) eqn:E1.
      * inversion E; subst. assert (asz at_ >? 1 = false) by lia. rewrite H.
        split; [|repeat split; auto]. f_equal. apply firstn_all1. rewrite Forall_forall in B3. unfold znth_row.
        assert (In (nth (Z.to_nat k) rows []) rows) by (apply nth_In; lia). rewrite (B3 _ H3). lia.
      * inversion E; subst. assert (asz at_ >? 1 = true) by lia. rewrite H. repeat split; auto.
Qed.

(* ------------------------------------------------------------------ dense bounds, at the level of the machine *)
Lemma validate_not_oob t e v er : dense_validate t e v = inl er -> er <> EOob.
Proof.
  unfold dense_validate, validate. intros H.
  repeat (match type of H with context [match ?x with _ => _ end] => destruct x eqn:?; try discriminate H end);
    inversion H; subst; try discriminate.
  all: match goal with C : check_comps _ _ _ = Some _ |- _ => revert C end.
  all: match goal with |- check_comps ?f ?t ?l = Some _ -> _ => generalize l end.
  all: intros l0; induction l0 as [|c0 r0 IH0]; simpl; [discriminate|].
  all: destruct (kind_of c0); [|intros Q; inversion Q; discriminate].
  all: match goal with |- context [if ?b then _ else _] => destruct b end; [exact IH0|intros Q; inversion Q; discriminate].
Qed.

Lemma dense_bounds_machine s a at_ ne st rows k :
  inv s -> lookup a (attrs s) = Some at_ -> ast at_ = Dense ne st rows ->
  (snd (step s (GetItem a k)) = OErr EOob <-> ~ (0 <= k < sn s)) /\
  (forall v, snd (step s (SetItem a k v)) = OErr EOob <-> ~ (0 <= k < sn s)).
Proof.
  intros Hi La St. pose proof Hi as [H0 [H1 H2]]. pose proof (H1 _ _ La) as Hok. pose proof Hok as [A1 [A2 A3]].
  rewrite St in A3. destruct A3 as [B1 [B2 B3]]. subst ne. split.
  - destruct (step s (GetItem a k)) as [s' w] eqn:E. destruct (get_laws _ _ _ _ _ Hi E) as [W _]. simpl. subst w.
    unfold get_obs. rewrite La. split.
    + intros H K. rewrite (rd_dense _ _ _ _ _ _ _ Hok St K) in H. discriminate.
    + intros K. now rewrite (rd_dense_oob _ _ _ _ _ _ St K).
  - intros v. unfold step. simpl. unfold do_set. change (attrs (tick s)) with (attrs s). rewrite La, St.
    destruct (dense_oob k (sn s)) eqn:O.
    + simpl. split; [intros _; now apply dense_bounds|reflexivity].
    + split.
      * destruct (dense_validate (aty at_) (asz at_) v) as [er|[isv l]] eqn:V; simpl;
          [|destruct (existsb (overflows (aty at_)) l); simpl; discriminate].
        intros H. inversion H. exfalso. eapply validate_not_oob; eauto.
      * intros K. apply dense_bounds in K. congruence.
Qed.

(* ------------------------------------------------------------------ creation, clearing, growth *)
Definition default_of (t : ty) (d : option comp) : comp := match d with Some c => c | None => type_default t end.

Lemma map_repeat {A B} (f : A -> B) x n : map f (repeat x n) = repeat (f x) n.
Proof. induction n; simpl; congruence. Qed.

Lemma unset_read_dense h a ne st rows : ast a = Dense ne st rows -> unset_read h a = default_row h a.
Proof. intros St. unfold unset_read. now rewrite St. Qed.

Lemma create_laws s a t k dense d s' :
  inv s -> 1 <= k -> step s (Create a t k dense d) = (s', OOk) ->
  exists at', lookup a (attrs s') = Some at' /\ aty at' = t /\ asz at' = k /\
              default_row (hp s') at' = repeat (store t (default_of t d)) (Z.to_nat k) /\
              (forall j, 0 <= j < sn s -> rd s' a j = Some (unset_read (hp s') at')) /\
              (forall b j, b <> a -> rd s' b j = rd s b j) /\ sn s' = sn s.
Proof.
  intros Hi Hk E. pose proof (inv_step s (Create a t k dense d) Hi Hk) as Hi'. rewrite E in Hi'. simpl in Hi'.
  unfold step in E. simpl in E. apply inv_tick in Hi.
  assert (RT : forall b j, rd (tick s) b j = rd s b j) by reflexivity.
  assert (NT : sn (tick s) = sn s) by reflexivity.
  setoid_rewrite <- RT. rewrite <- NT. clear RT NT. set (u := tick s) in *. clearbody u. clear s.
  unfold do_create in E.
  assert (KE : create_keeps_existing = false) by reflexivity. rewrite KE in E.
  assert (Q : (match lookup a (attrs u) with Some _ => false | None => false end) = false) by (destruct (lookup a (attrs u)); reflexivity).
  rewrite Q in E. clear Q KE.
  assert (V : (exists c, d = Some c /\ mk_default (hp u) t k d = inr (hp u, DScal c)) \/
              (d = None /\ k = 1 /\ mk_default (hp u) t k d = inr (hp u, DScal (type_default t))) \/
              (d = None /\ k <> 1 /\ mk_default (hp u) t k d = inr (hp u ++ [mkcell t (repeat (type_default t) (Z.to_nat k))], DCell (length (hp u))))).
  { unfold mk_default, default_is_scalar in *. destruct d as [c|].
    - destruct (kind_of c) as [td|]; [|discriminate]. destruct (default_type_bad td t); [discriminate|]. left. eauto.
    - destruct (k =? 1) eqn:K1; [right; left|right; right]; repeat split; auto; lia. }
  pose proof Hi' as [_ [I1 _]].
  assert (RD : forall h' df, inv (with_attrs (with_heap u h') (put a (mkattr t k df (new_storage h' t k df dense (sn u) (clock u))) (attrs u))) ->
               forall j, 0 <= j < sn u ->
               rd (with_attrs (with_heap u h') (put a (mkattr t k df (new_storage h' t k df dense (sn u) (clock u))) (attrs u))) a j
               = Some (unset_read h' (mkattr t k df (new_storage h' t k df dense (sn u) (clock u))))).
  { intros h' df [_ [J1 _]] j Hj. simpl in J1. pose proof (J1 a _ (lookup_put_same _ _ _)) as Ok.
    unfold rd. simpl. rewrite lookup_put_same. unfold new_storage in *. destruct dense.
    - erewrite rd_dense; [|exact Ok|reflexivity|lia]. unfold znth_row, dense_init_rows, create_dense_n_elem.
      rewrite nth_repeat_in by lia. reflexivity.
    - erewrite rd_sparse_unset; [|exact Ok|reflexivity|reflexivity]. reflexivity. }
  destruct V as [[c [Ed V]]|[[Ed [K1 V]]|[Ed [K1 V]]]]; rewrite V in E; inversion E; subst s'; clear E;
    eexists; (split; [simpl; apply lookup_put_same|]); (split; [reflexivity|]); (split; [reflexivity|]).
  - subst d. split; [reflexivity|]. split; [apply RD; exact Hi'|]. split; [|reflexivity].
    intros b j N. unfold rd. simpl. now rewrite lookup_put_other.
  - subst d k. split; [reflexivity|]. split; [apply RD; exact Hi'|]. split; [|reflexivity].
    intros b j N. unfold rd. simpl. now rewrite lookup_put_other.
  - subst d. split.
    { unfold default_row. simpl. rewrite nth_error_app_new. simpl. apply map_repeat. }
    split; [apply RD; exact Hi'|]. split; [|reflexivity].
    intros b j N. unfold rd. simpl. rewrite lookup_put_other by exact N.
    destruct (lookup b (attrs u)) as [bt|] eqn:Lb; [|reflexivity]. eapply rd_attr_app.
    destruct Hi as [_ [H1 _]]. eapply H1; eassumption.
Qed.

Lemma clear_laws s a s' :
  inv s -> step s (ClearAttr a) = (s', OOk) ->
  exists at_ at', lookup a (attrs s) = Some at_ /\ lookup a (attrs s') = Some at' /\
                  default_row (hp s') at' = default_row (hp s) at_ /\
                  (forall j, 0 <= j < sn s -> rd s' a j = Some (unset_read (hp s) at_)) /\
                  (forall b j, b <> a -> rd s' b j = rd s b j) /\ sn s' = sn s.
Proof.
  intros Hi E. pose proof (inv_step s (ClearAttr a) Hi I) as Hi'. rewrite E in Hi'. simpl in Hi'.
  unfold step in E. simpl in E. apply inv_tick in Hi.
  assert (RT : forall b j, rd (tick s) b j = rd s b j) by reflexivity.
  assert (NT : sn (tick s) = sn s) by reflexivity.
  assert (AT : attrs (tick s) = attrs s) by reflexivity.
  assert (HT : hp (tick s) = hp s) by reflexivity.
  setoid_rewrite <- RT. rewrite <- NT, <- AT, <- HT. clear RT NT AT HT. set (u := tick s) in *. clearbody u. clear s.
  unfold do_clear_attr in E. destruct (lookup a (attrs u)) as [at_|] eqn:La; [|discriminate].
  pose proof Hi' as [_ [I1 _]].
  destruct (ast at_) as [m|ne st rows] eqn:St; inversion E; subst s'; clear E; simpl in *;
    pose proof (I1 a _ (lookup_put_same _ _ _)) as Ok; exists at_; eexists; (split; [reflexivity|]);
      (split; [apply lookup_put_same|]); (split; [reflexivity|]); (split; [|split; [|reflexivity]]).
  - intros j Hj. unfold rd. simpl. rewrite lookup_put_same.
    erewrite rd_sparse_unset; [|exact Ok|reflexivity|reflexivity]. unfold unset_read. simpl. rewrite St. reflexivity.
  - intros b j N. unfold rd. simpl. now rewrite lookup_put_other.
  - intros j Hj. unfold rd. simpl. rewrite lookup_put_same.
    pose proof Ok as [_ [_ B]]. simpl in B. destruct B as [B1 _].
    erewrite rd_dense; [|exact Ok|reflexivity|lia]. unfold znth_row, dense_clear_rows.
    rewrite nth_repeat_in by lia. unfold unset_read. now rewrite St.
  - intros b j N. unfold rd. simpl. now rewrite lookup_put_other.
Qed.

(* growth: old entries keep their values, the new elements read the default *)
Lemma grow_laws s added amount a at_ :
  inv s -> 0 <= added -> amount = added -> lookup a (attrs s) = Some at_ ->
  let s' := fst (grow s added amount) in
  sn s' = sn s + added /\
  (forall j, 0 <= j < sn s -> rd s' a j = rd s a j) /\
  (forall j, sn s <= j < sn s' ->
             match ast at_ with Sparse m => lookup j m = None | Dense _ _ _ => True end ->
             rd s' a j = Some (unset_read (hp s) at_)).
Proof.
  intros Hi Ha Eam La s'. pose proof (inv_grow s added amount Hi Ha Eam) as Hi'. fold s' in Hi'.
  subst amount. unfold grow in s'. simpl in s'. subst s'. simpl.
  pose proof Hi as [Nn [H1 _]]. pose proof (H1 _ _ La) as Ok.
  destruct Hi' as [_ [I1 _]]. simpl in I1.
  assert (La' : lookup a (map (fun p => (fst p, expand_attr (hp s) (clock s) added (snd p))) (attrs s))
                = Some (expand_attr (hp s) (clock s) added at_)) by (rewrite lookup_map_vals, La; reflexivity).
  pose proof (I1 _ _ La') as Ok'.
  split; [reflexivity|]. unfold rd. simpl. rewrite La', La. unfold expand_attr in *.
  destruct (ast at_) as [m|ne st rows] eqn:St.
  - split; [reflexivity|]. intros j Hj Lk. eapply rd_sparse_unset; eauto.
  - pose proof Ok as [_ [_ B]]. rewrite St in B. destruct B as [B1 [B2 B3]]. subst ne. split.
    + intros j Hj. erewrite rd_dense; [|exact Ok'|reflexivity|lia]. erewrite rd_dense; [|exact Ok|exact St|lia].
      unfold znth_row. rewrite app_nth1 by lia. reflexivity.
    + intros j Hj _. erewrite rd_dense; [|exact Ok'|reflexivity|lia].
      unfold znth_row, dense_expand_rows. rewrite nth_app_repeat_new by lia. unfold unset_read. now rewrite St.
Qed.

(* ------------------------------------------------------------------ frame: what an operation can change *)
(* the operations that may change what entry (a,k) reads: a write to that very entry, creation / registration /
   deletion / clearing of attribute a, clearing the container, and (conservatively) every in-place update *)
Definition touches (o : op) (a k : Z) : Prop :=
  match o with
  | SetItem a' k' _ => a' = a /\ k' = k
  | Create a' _ _ _ _ | CreateSized a' _ _ _ _ | Register a' _ _ _ _ | Delete a' | ClearAttr a' => a' = a
  | ClearAll | Mut _ _ _ | MutArr _ _ _ _ | Update _ _ _ _ => True
  | _ => False
  end.

Lemma rd_put_other s l a at' b j : b <> a -> rd (with_attrs s (put a at' l)) b j = rd (with_attrs s l) b j.
Proof. intros N. unfold rd. simpl. now rewrite lookup_put_other. Qed.

Lemma frame_step s o a k :
  inv s -> op_ok o -> ~ touches o a k -> 0 <= k < sn s -> rd (fst (step s o)) a k = rd s a k.
Proof.
  intros Hi Ho NT Hk. destruct (step s o) as [s' w] eqn:E. simpl.
  destruct o; simpl in NT, Ho; try (exfalso; apply NT; exact I).
  - (* Create *)
    destruct w; try (unfold step in E; simpl in E; unfold do_create in E;
      repeat (match type of E with context [match ?x with _ => _ end] => destruct x end); inversion E; subst; reflexivity).
    destruct (create_laws _ _ _ _ _ _ _ Hi Ho E) as [x0 [_ [_ [_ [_ [_ [F _]]]]]]]. apply F. congruence.
  - (* Delete *)
    unfold step in E. simpl in E. inversion E; subst. unfold rd. simpl. rewrite lookup_del.
    destruct (a =? a0) eqn:Q; [exfalso; apply NT; lia|reflexivity].
  - unfold step in E. simpl in E. inversion E; subst. reflexivity.
  - (* SetItem *)
    destruct w; try (unfold step in E; simpl in E; unfold do_set in E;
      repeat (match type of E with context [match ?x with _ => _ end] => destruct x end); inversion E; subst; reflexivity).
    destruct (set_laws _ _ _ _ _ Hi E) as [x0 [i0 [l0 [_ [_ [_ [_ [F _]]]]]]]]. apply F. intros Q. apply NT. inversion Q. auto.
  - destruct (get_laws _ _ _ _ _ Hi E) as [_ [F _]]. apply F.
  - (* Append *)
    unfold step in E. simpl in E. destruct (lookup a (attrs s)) as [at_|] eqn:La.
    + assert (S' : s' = fst (grow (tick s) 1 (append_amount (tick s)))) by now rewrite E. subst s'.
      destruct (grow_laws (tick s) 1 (append_amount (tick s)) a at_ Hi) as [_ [G _]]; [lia| |exact La|apply G; exact Hk].
      unfold append_amount. destruct (corner (tick s)); reflexivity.
    + unfold grow in E. inversion E; subst. unfold rd. simpl. rewrite lookup_map_vals.
      change (attrs (tick s)) with (attrs s). now rewrite La.
  - unfold step in E. simpl in E. destruct (lookup a (attrs s)) as [at_|] eqn:La.
    + assert (S' : s' = fst (grow (tick s) m (iadd_list_amount (tick s) m))) by now rewrite E. subst s'.
      destruct (grow_laws (tick s) m (iadd_list_amount (tick s) m) a at_ Hi) as [_ [G _]]; [lia| |exact La|apply G; exact Hk].
      unfold iadd_list_amount. destruct (corner (tick s)); reflexivity.
    + unfold grow in E. inversion E; subst. unfold rd. simpl. rewrite lookup_map_vals.
      change (attrs (tick s)) with (attrs s). now rewrite La.
  - unfold step in E. simpl in E. destruct (lookup a (attrs s)) as [at_|] eqn:La.
    + assert (S' : s' = fst (grow (tick s) m (iadd_cont_amount (tick s) m m))) by now rewrite E. subst s'.
      destruct (grow_laws (tick s) m (iadd_cont_amount (tick s) m m) a at_ Hi) as [_ [G _]]; [lia| |exact La|apply G; exact Hk].
      unfold iadd_cont_amount. destruct (corner (tick s)); reflexivity.
    + unfold grow in E. inversion E; subst. unfold rd. simpl. rewrite lookup_map_vals.
      change (attrs (tick s)) with (attrs s). now rewrite La.
  - unfold step in E. simpl in E. destruct (lookup a (attrs s)) as [at_|] eqn:La.
    + assert (S' : s' = fst (grow (tick s) (sn (tick s)) (iadd_cont_amount (tick s) (sn (tick s)) (sn (tick s) + sn (tick s)))))
        by (change (sn (tick s)) with (sn s); rewrite E; reflexivity).
      subst s'.
      destruct (grow_laws (tick s) (sn (tick s)) (iadd_cont_amount (tick s) (sn (tick s)) (sn (tick s) + sn (tick s))) a at_ Hi)
        as [_ [G _]]; [destruct Hi; simpl; lia| |exact La|apply G; exact Hk].
      unfold iadd_cont_amount. destruct (corner (tick s)); reflexivity.
    + unfold grow in E. inversion E; subst. unfold rd. simpl. rewrite lookup_map_vals.
      change (attrs (tick s)) with (attrs s). now rewrite La.
  - unfold step in E. simpl in E. inversion E; subst. reflexivity.
  - (* ClearAttr *)
    destruct w; try (unfold step in E; simpl in E; unfold do_clear_attr in E;
      repeat (match type of E with context [match ?x with _ => _ end] => destruct x end); inversion E; subst; reflexivity).
    destruct (clear_laws _ _ _ Hi E) as [x0 [x1 [_ [_ [_ [_ [F _]]]]]]]. apply F. congruence.
  - (* AsArray *)
    unfold step in E. simpl in E. unfold do_as_array in E.
    repeat (match type of E with context [match ?x with _ => _ end] => destruct x end); inversion E; subst; reflexivity.
  - unfold step in E. simpl in E. destruct (lookup a0 (attrs s)); inversion E; subst; reflexivity.
  - unfold step in E. simpl in E. destruct (lookup a0 (attrs s)) as [x|]; [destruct (ast x)|]; inversion E; subst; reflexivity.
  - unfold step in E. simpl in E. inversion E; subst. reflexivity.
  - unfold step in E. simpl in E. inversion E; subst. reflexivity.
  - (* Contains *)
    unfold step in E. simpl in E. unfold do_contains in E.
    repeat (match type of E with context [match ?x with _ => _ end] => destruct x end); inversion E; subst; reflexivity.
  - (* ExtendListBad *)
    unfold step in E. simpl in E. change (corner (tick s)) with (corner s) in E. destruct (corner s) eqn:Cn.
    + inversion E; subst. reflexivity.
    + destruct (lookup a (attrs s)) as [at_|] eqn:La.
      * assert (S' : s' = fst (grow (tick s) (m + 1) (iadd_list_amount (tick s) (m + 1)))) by now rewrite E. subst s'.
        destruct (grow_laws (tick s) (m + 1) (iadd_list_amount (tick s) (m + 1)) a at_ Hi) as [_ [G _]]; [lia| |exact La|apply G; exact Hk].
        unfold iadd_list_amount. change (corner (tick s)) with (corner s). rewrite Cn. reflexivity.
      * unfold grow in E. inversion E; subst. unfold rd. simpl. rewrite lookup_map_vals.
        change (attrs (tick s)) with (attrs s). now rewrite La.
  - contradiction.
  - (* Register *)
    unfold step in E. simpl in E. unfold do_register in E.
    destruct (match lookup a0 (attrs (tick s)) with Some _ => register_keeps_existing | None => false end); [inversion E; subst; reflexivity|].
    destruct (negb _); [inversion E; subst; reflexivity|]. destruct (sn (tick s) =? 0); [inversion E; subst; reflexivity|].
    destruct (mk_default (hp (tick s)) t k0 d) as [e|[h' df]] eqn:M; inversion E; subst; [reflexivity|].
    unfold rd. simpl. rewrite lookup_put_other by (intros Q; apply NT; auto).
    change (attrs (tick s)) with (attrs s). destruct (lookup a (attrs s)) as [bt|] eqn:Lb; [|reflexivity].
    unfold mk_default, default_is_scalar in M. destruct d as [c|].
    + destruct (kind_of c); [|discriminate]. destruct (default_type_bad _ _); inversion M; subst. reflexivity.
    + destruct (k0 =? 1); inversion M; subst; [reflexivity|]. eapply rd_attr_app. destruct Hi as [_ [H1 _]]. eapply H1; eauto.
  - unfold step in E. simpl in E. unfold do_export_shape in E.
    repeat (match type of E with context [match ?x with _ => _ end] => destruct x end); inversion E; subst; reflexivity.
Qed.
