(* C05 property theorems only: each closed by `exact <lemma>` with Print Assumptions beneath.
   Model: MV.C05.Model (history machine over a heap of value cells); generated decision expressions: MV.C05.Gen. *)
From Coq Require Import ZArith List Bool.
Import ListNotations.
Require Import MV.Lib.Base MV.C05.Types MV.C05.Gen MV.C05.Model MV.C05.Run MV.C05.Proofs MV.C05.ProofsInv
        MV.C05.ProofsMap MV.C05.ProofsAgree MV.C05.ProofsAlias MV.C05.ProofsTop.
Open Scope Z_scope.

(* (full, on the generated table) _can_be_casted accepts exactly the identity and the widenings bool -> int -> float *)
Theorem C05_cast_lattice : forall a b, can_be_casted a b = true <-> widens a b.
Proof. exact cast_lattice. Qed.
Print Assumptions C05_cast_lattice.

(* (full) both storages run the same acceptance decision - same verdict, same error, same accepted components - and
   accept exactly the values with `arity` components whose types widen to the attribute's type *)
Theorem C05_accept_reject_same : forall t e v,
  sparse_validate t e v = dense_validate t e v /\
  (1 <= e -> ((exists r, sparse_validate t e v = inr r) <-> valid_value t e v) /\
             ((exists r, dense_validate t e v = inr r) <-> valid_value t e v)).
Proof. exact accept_reject_same. Qed.
Print Assumptions C05_accept_reject_same.

(* (full, on the generated test) the dense bounds test fires exactly on the indices outside [0, n): n itself included *)
Theorem C05_dense_bounds : forall key n, dense_oob key n = true <-> ~ (0 <= key < n).
Proof. exact dense_bounds. Qed.
Print Assumptions C05_dense_bounds.

(* (full) along every history, a read or write of a dense attribute answers OutOfBounds exactly at the indices
   outside the container (this needs the alignment invariant: n_elem = len(container)) *)
Theorem C05_dense_out_of_bounds : forall s a at_ ne st rows k, reachable s ->
  lookup a (attrs s) = Some at_ -> ast at_ = Dense ne st rows ->
  (snd (step s (GetItem a k)) = OErr EOob <-> ~ (0 <= k < sn s)) /\
  (forall v, snd (step s (SetItem a k v)) = OErr EOob <-> ~ (0 <= k < sn s)).
Proof. exact dense_out_of_bounds. Qed.
Print Assumptions C05_dense_out_of_bounds.

(* (full) total map with default: read = pure function of the state; read-after-write; frame; refused writes change
   nothing; new attributes and cleared attributes read the default at every element index *)
Theorem C05_total_map : forall s, reachable s ->
  (forall a k s' w, step s (GetItem a k) = (s', w) ->
                    w = get_obs s a k /\ forall b j, rd s' b j = rd s b j) /\
  (forall a k v s', step s (SetItem a k v) = (s', OOk) ->
                    exists at_ isv l, lookup a (attrs s) = Some at_ /\
                                      sparse_validate (aty at_) (asz at_) v = inr (isv, l) /\
                                      rd s' a k = Some (map (cast (aty at_)) l) /\
                                      forall b j, (b, j) <> (a, k) -> rd s' b j = rd s b j) /\
  (forall a k v s' e, step s (SetItem a k v) = (s', OErr e) -> forall b j, rd s' b j = rd s b j) /\
  (forall a t k dense d s', 1 <= k -> step s (Create a t k dense d) = (s', OOk) ->
                            (forall j, 0 <= j < sn s -> rd s' a j = Some (repeat (cast t (default_of t d)) (Z.to_nat k))) /\
                            forall b j, b <> a -> rd s' b j = rd s b j) /\
  (forall a s', step s (ClearAttr a) = (s', OOk) ->
                exists at_, lookup a (attrs s) = Some at_ /\
                            (forall j, 0 <= j < sn s -> rd s' a j = Some (default_row (hp s) at_)) /\
                            forall b j, b <> a -> rd s' b j = rd s b j).
Proof. exact total_map. Qed.
Print Assumptions C05_total_map.

(* (full) growth (append, += list, += container, += self) keeps every stored value and the new elements read the default *)
Theorem C05_growth_keeps_values : forall s o s' n l, reachable s -> op_ok o ->
  step s o = (s', OGrow n l) -> o <> ClearAll ->
  sn s <= sn s' /\
  forall a at_, lookup a (attrs s) = Some at_ ->
    (forall j, 0 <= j < sn s -> rd s' a j = rd s a j) /\
    (forall j, sn s <= j < sn s' ->
               match ast at_ with Sparse m => lookup j m = None | Dense _ _ _ => True end ->
               rd s' a j = Some (default_row (hp s) at_)).
Proof. exact growth_keeps_values. Qed.
Print Assumptions C05_growth_keeps_values.

(* (full) sparse = dense: the same history - writes, reads, growth, clearing, array export, creation, deletion - run
   with every attribute sparse and with every attribute dense gives the same observations, provided reads and writes
   address elements of the container *)
Theorem C05_sparse_dense_agree : forall c h,
  Forall op_ok h -> Forall shared_op h -> well_addressed 0 h ->
  map pub (snd (run (init c) (map (force false) h))) = map pub (snd (run (init c) (map (force true) h))).
Proof. exact sparse_dense_agree. Qed.
Print Assumptions C05_sparse_dense_agree.

(* (full) no aliasing: whatever happens between reading entry (a,i) and updating the value that read handed out,
   the update changes no other entry of any attribute *)
Theorem C05_no_aliasing : forall c h1 a i h2 cc x,
  Forall op_ok h1 -> Forall op_ok h2 ->
  let s1 := fst (run (init c) h1) in
  let s1' := fst (step s1 (GetItem a i)) in
  let r := length (refs s1) in
  let s2 := fst (run s1' h2) in
  length (refs s1') = S r ->
  forall b j, (b, j) <> (a, i) -> rd (fst (step s2 (Mut r cc x))) b j = rd s2 b j.
Proof. exact no_aliasing. Qed.
Print Assumptions C05_no_aliasing.

(* (full) alignment: after any history every dense attribute has n_elem = number of rows = len(container) *)
Theorem C05_alignment : forall c h, Forall op_ok h -> aligned (fst (run (init c) h)).
Proof. exact alignment. Qed.
Print Assumptions C05_alignment.
