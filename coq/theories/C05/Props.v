(* C05 property theorems only: each closed by `exact <lemma>` with Print Assumptions beneath.
   Model: MV.C05.Model (history machine over a heap of value cells); generated decision expressions: MV.C05.Gen. *)
From Coq Require Import ZArith List Bool.
Import ListNotations.
Require Import MV.Lib.Base MV.C05.Types MV.C05.Gen MV.C05.Model MV.C05.Run MV.C05.Proofs MV.C05.ProofsInv
        MV.C05.ProofsMap MV.C05.ProofsAgree MV.C05.ProofsAlias MV.C05.ProofsTop MV.C05.ProofsMore.
Open Scope Z_scope.

(* (full, on the generated table) _can_be_casted accepts exactly the identity and the widenings bool -> int -> float *)
Theorem C05_cast_lattice : forall a b, can_be_casted a b = true <-> widens a b.
Proof. exact cast_lattice. Qed.
Print Assumptions C05_cast_lattice.

(* (full) both storages run the same acceptance decision - same verdict, same error, same accepted components - and
   accept exactly the values with `arity` components whose types widen to the attribute's type *)
Theorem C05_accept_reject_same : forall t e v,
  sparse_validate t e v = dense_validate t e v /\
  (1 <= e -> ((exists r, sparse_validate t e v = inr r) <-> valid_value t e v) /\
             ((exists r, dense_validate t e v = inr r) <-> valid_value t e v)).
Proof. exact accept_reject_same. Qed.
Print Assumptions C05_accept_reject_same.

(* (full, on the generated test) the dense bounds test fires exactly on the indices outside [0, n): n itself included *)
Theorem C05_dense_bounds : forall key n, dense_oob key n = true <-> ~ (0 <= key < n).
Proof. exact dense_bounds. Qed.
Print Assumptions C05_dense_bounds.

(* (full) along every history, a read or write of a dense attribute answers OutOfBounds exactly at the indices
   outside the container (this needs the alignment invariant: n_elem = len(container)) *)
Theorem C05_dense_out_of_bounds : forall s a at_ ne st rows k, reachable s ->
  lookup a (attrs s) = Some at_ -> ast at_ = Dense ne st rows ->
  (snd (step s (GetItem a k)) = OErr EOob <-> ~ (0 <= k < sn s)) /\
  (forall v, snd (step s (SetItem a k v)) = OErr EOob <-> ~ (0 <= k < sn s)).
Proof. exact dense_out_of_bounds. Qed.
Print Assumptions C05_dense_out_of_bounds.

(* (full) total map with default: read = pure function of the state; read-after-write (`written`: the accepted
   components converted to the attribute's dtype - strings cut to Type.dtype's fixed width - except that a sparse
   scalar entry keeps the python object); frame; refused writes change nothing; new and cleared attributes read the
   default at every element index *)
Theorem C05_total_map : forall s, reachable s ->
  (forall a k s' w, step s (GetItem a k) = (s', w) ->
                    w = get_obs s a k /\ forall b j, rd s' b j = rd s b j) /\
  (forall a k v s', step s (SetItem a k v) = (s', OOk) ->
                    exists at_ isv l, lookup a (attrs s) = Some at_ /\
                                      sparse_validate (aty at_) (asz at_) v = inr (isv, l) /\
                                      rd s' a k = Some (written at_ isv l) /\
                                      forall b j, (b, j) <> (a, k) -> rd s' b j = rd s b j) /\
  (forall a k v s' e, step s (SetItem a k v) = (s', OErr e) -> forall b j, rd s' b j = rd s b j) /\
  (forall a t k dense d s', 1 <= k -> step s (Create a t k dense d) = (s', OOk) ->
                            (exists at', lookup a (attrs s') = Some at' /\
                                         default_row (hp s') at' = repeat (store t (default_of t d)) (Z.to_nat k) /\
                                         forall j, 0 <= j < sn s -> rd s' a j = Some (unset_read (hp s') at')) /\
                            forall b j, b <> a -> rd s' b j = rd s b j) /\
  (forall a s', step s (ClearAttr a) = (s', OOk) ->
                exists at_, lookup a (attrs s) = Some at_ /\
                            (forall j, 0 <= j < sn s -> rd s' a j = Some (unset_read (hp s) at_)) /\
                            forall b j, b <> a -> rd s' b j = rd s b j).
Proof. exact total_map. Qed.
Print Assumptions C05_total_map.

(* (full) growth (append, += list, += container, += self) keeps every stored value and the new elements read the default *)
Theorem C05_growth_keeps_values : forall s o s' n l, reachable s -> op_ok o ->
  step s o = (s', OGrow n l) -> o <> ClearAll ->
  sn s <= sn s' /\
  forall a at_, lookup a (attrs s) = Some at_ ->
    (forall j, 0 <= j < sn s -> rd s' a j = rd s a j) /\
    (forall j, sn s <= j < sn s' ->
               match ast at_ with Sparse m => lookup j m = None | Dense _ _ _ => True end ->
               rd s' a j = Some (unset_read (hp s) at_)).
Proof. exact growth_keeps_values. Qed.
Print Assumptions C05_growth_keeps_values.

(* (full) a CornerDataContainer refuses a list with an item it cannot unpack as a whole: nothing changes *)
Theorem C05_refused_append_changes_nothing : forall s m s' w,
  corner s = true -> step s (ExtendListBad m) = (s', w) ->
  w = OGrowErr EUnpack (sn s) (lens (attrs s)) /\ sn s' = sn s /\ attrs s' = attrs s /\ hp s' = hp s.
Proof. exact refused_append_changes_nothing. Qed.
Print Assumptions C05_refused_append_changes_nothing.

(* FULL STATEMENT (false of the code, see the two _refuted theorems below):
     forall c h, Forall op_ok h -> Forall shared_op h -> well_addressed c 0 h ->
       map pub (snd (run (init c) (map (force false) h))) = map pub (snd (run (init c) (map (force true) h))).
   (partial) sparse = dense under three guards: reads and writes address elements of the container (well_addressed),
   every custom default string fits Type.dtype's fixed width (short_op), and every in-place update attr[k][c] = x hits
   an entry that holds a written vector (updates_hit_written).  Then the same history -
   creation, deletion, writes, reads, in-place updates, growth of every kind, clearing, array export - run with every
   attribute sparse and with every attribute dense gives the same observations. *)
Theorem C05_sparse_dense_agree_partial : forall c h,
  Forall op_ok h -> Forall shared_op h -> Forall short_op h -> well_addressed c 0 h ->
  updates_hit_written (init c) h ->
  map pub (snd (run (init c) (map (force false) h))) = map pub (snd (run (init c) (map (force true) h))).
Proof. exact sparse_dense_agree. Qed.
Print Assumptions C05_sparse_dense_agree_partial.

(* (refuted, known finding inplace-update-of-unset-entry) attr[0][0] = 5. on a never-written entry: the dense read is
   a view and the update is stored, the sparse read is a detached copy of the default and the update is lost *)
Theorem C05_agree_updates_unset_refuted :
  exists c h, Forall op_ok h /\ Forall shared_op h /\ Forall short_op h /\ well_addressed c 0 h /\
              map pub (snd (run (init c) (map (force false) h))) <> map pub (snd (run (init c) (map (force true) h))).
Proof. exact agree_updates_unset_refuted. Qed.
Print Assumptions C05_agree_updates_unset_refuted.

(* (refuted, known finding string-longer-than-fixed-width) a 33-character custom default of a scalar string attribute:
   the dense storage keeps 32 characters, the sparse read of a never-written entry returns all 33 *)
Theorem C05_agree_long_strings_refuted :
  exists c h, Forall op_ok h /\ Forall shared_op h /\ well_addressed c 0 h /\ updates_hit_written (init c) h /\
              map pub (snd (run (init c) (map (force false) h))) <> map pub (snd (run (init c) (map (force true) h))).
Proof. exact agree_long_strings_refuted. Qed.
Print Assumptions C05_agree_long_strings_refuted.

(* (full) no aliasing: whatever happens between reading entry (a,i) and updating the value that read handed out,
   the update changes no other entry of any attribute *)
Theorem C05_no_aliasing : forall c h1 a i h2 cc x,
  Forall op_ok h1 -> Forall op_ok h2 ->
  let s1 := fst (run (init c) h1) in
  let s1' := fst (step s1 (GetItem a i)) in
  let r := length (refs s1) in
  let s2 := fst (run s1' h2) in
  length (refs s1') = S r ->
  forall b j, (b, j) <> (a, i) -> rd (fst (step s2 (Mut r cc x))) b j = rd s2 b j.
Proof. exact no_aliasing. Qed.
Print Assumptions C05_no_aliasing.

(* (full) alignment: after any history every dense attribute has n_elem = number of rows = len(container) *)
Theorem C05_alignment : forall c h, Forall op_ok h -> aligned (fst (run (init c) h)).
Proof. exact alignment. Qed.
Print Assumptions C05_alignment.

(* (full) updates through an exported array: dense as_array returns a view, sparse as_array a detached array; an
   update of element (row, c) of the export changes at most entry (a, row) of the exported attribute and nothing at all
   for a sparse export *)
Theorem C05_export_update_frame : forall s r rf row c x,
  inv s -> nth_error (refs s) r = Some rf ->
  match rf with
  | RArr a _ => forall b j, (b, j) <> (a, row) -> rd (fst (step s (MutArr r row c x))) b j = rd s b j
  | RNone => forall b j, rd (fst (step s (MutArr r row c x))) b j = rd s b j
  | _ => True
  end.
Proof. exact export_update_frame. Qed.
Print Assumptions C05_export_update_frame.

(* (full) len / iteration / `in`: dense len = len(container) and iteration = as_array = the reads; sparse `in`, len,
   iteration are about the keys written since creation / clear *)
Theorem C05_len_iter_contains : forall s a at_, reachable s -> lookup a (attrs s) = Some at_ ->
  match ast at_ with
  | Dense ne st rows =>
      snd (step s (Len a)) = ONat (sn s) /\
      snd (step s (Iter a)) = ORows rows /\ snd (step s (AsArray a)) = ORows rows /\
      Z.of_nat (length rows) = sn s /\
      forall k, 0 <= k < sn s -> rd s a k = Some (nth (Z.to_nat k) rows [])
  | Sparse m =>
      NoDup (map fst m) /\
      snd (step s (Len a)) = ONat (Z.of_nat (length m)) /\
      snd (step s (Iter a)) = OKeys (map fst m) /\
      (forall k, snd (step s (Contains a k)) = OBool (match lookup k m with Some _ => true | None => false end)) /\
      (forall k v s', step s (SetItem a k v) = (s', OOk) ->
                      exists at' m', lookup a (attrs s') = Some at' /\ ast at' = Sparse m' /\
                                     forall j, In j (map fst m') <-> j = k \/ In j (map fst m)) /\
      (forall s', step s (ClearAttr a) = (s', OOk) -> exists at', lookup a (attrs s') = Some at' /\ ast at' = Sparse [])
  end.
Proof. exact len_iter_contains. Qed.
Print Assumptions C05_len_iter_contains.

(* (full) create_attribute(size=...): with size = len(container) it IS the plain dense creation; otherwise the new
   attribute is `size - len` off and growth keeps exactly that offset *)
Theorem C05_create_sized : forall s a t k d size,
  (size = sn s -> step s (CreateSized a t k d size) = step s (Create a t k true d)) /\
  (forall s', step s (CreateSized a t k d size) = (s', OOk) -> lookup a (attrs s) = None ->
              exists at' st rows, lookup a (attrs s') = Some at' /\ ast at' = Dense size st rows /\
                                  length rows = Z.to_nat size) /\
  (forall at_ ne st rows added, ast at_ = Dense ne st rows ->
      match ast (expand_attr (hp s) (clock s) added at_) with
      | Dense ne' _ rows' => ne' - (sn s + added) = ne - sn s /\ (0 <= added -> length rows' = (length rows + Z.to_nat added)%nat)
      | Sparse _ => False
      end).
Proof. exact create_sized. Qed.
Print Assumptions C05_create_sized.

(* (full) register_array_as_attribute: accepted only for an array with len(container) > 0 rows; the attribute then
   reads the rows of that array, nothing else moves (and every theorem about reachable states covers what follows) *)
Theorem C05_register_array : forall s a t k rows d s', reachable s -> op_ok (Register a t k rows d) ->
  step s (Register a t k rows d) = (s', OOk) -> lookup a (attrs s) = None ->
  Z.of_nat (length rows) = sn s /\ 0 < sn s /\
  (forall j, 0 <= j < sn s -> rd s' a j = Some (nth (Z.to_nat j) rows [])) /\
  (forall b j, b <> a -> rd s' b j = rd s b j) /\ sn s' = sn s.
Proof. exact register_array. Qed.
Print Assumptions C05_register_array.

(* (refuted, known finding sparse-accepts-out-of-container-index) without `well_addressed` the two storages disagree:
   the sparse storage accepts a[5] = 7 on a 1-element container (dense: OutOfBounds) and the value becomes entry 5
   once the container has grown *)
Theorem C05_agree_out_of_container_refuted :
  exists c h, Forall op_ok h /\ Forall shared_op h /\ Forall short_op h /\ updates_hit_written (init c) h /\
              map pub (snd (run (init c) (map (force false) h))) <> map pub (snd (run (init c) (map (force true) h))).
Proof. exact agree_out_of_container_refuted. Qed.
Print Assumptions C05_agree_out_of_container_refuted.

(* (refuted, same finding) a sparse write at key -1 is exported by as_array at row n-1 while entry n-1 reads the default *)
Theorem C05_sparse_negative_key_export_refuted :
  exists s, reachable s /\ exists a rows, snd (step s (AsArray a)) = ORows rows /\
            nth_error rows (Z.to_nat (sn s - 1)) <> rd s a (sn s - 1).
Proof. exact sparse_negative_key_export_refuted. Qed.
Print Assumptions C05_sparse_negative_key_export_refuted.

(* (refuted, known finding string-longer-than-fixed-width) read-after-write fails for a string longer than the fixed
   width: both storages cut it (C05_total_map states exactly what is read back: `written`) *)
Theorem C05_long_string_cut_refuted :
  exists s a k v s', reachable s /\ step s (SetItem a k v) = (s', OOk) /\
    exists at_ isv l, lookup a (attrs s) = Some at_ /\ sparse_validate (aty at_) (asz at_) v = inr (isv, l) /\
                      rd s' a k <> Some (map (cast (aty at_)) l).
Proof. exact long_string_cut_refuted. Qed.
Print Assumptions C05_long_string_cut_refuted.

(* (full) history level: the last value written, or else the default - whatever happens in between that does not
   touch the entry (writes elsewhere, other attributes created / deleted / cleared, every kind of growth, refused
   operations, reads, exports) *)
Theorem C05_last_write_or_default : forall c h1 a k h2,
  Forall op_ok h1 -> Forall op_ok h2 -> untouched h2 a k ->
  let s1 := fst (run (init c) h1) in
  0 <= k < sn s1 ->
  (forall v s1', step s1 (SetItem a k v) = (s1', OOk) ->
     exists at_ isv l, lookup a (attrs s1) = Some at_ /\ sparse_validate (aty at_) (asz at_) v = inr (isv, l) /\
                       rd (fst (run s1' h2)) a k = Some (written at_ isv l)) /\
  (forall t e dense d s1', 1 <= e -> step s1 (Create a t e dense d) = (s1', OOk) ->
     exists at', lookup a (attrs s1') = Some at' /\ rd (fst (run s1' h2)) a k = Some (unset_read (hp s1') at')) /\
  (forall s1', step s1 (ClearAttr a) = (s1', OOk) ->
     exists at_, lookup a (attrs s1) = Some at_ /\ rd (fst (run s1' h2)) a k = Some (unset_read (hp s1) at_)).
Proof. exact last_write_or_default. Qed.
Print Assumptions C05_last_write_or_default.

(* (full) one-step frame for EVERY operation that does not touch (a,k) - Delete/AsArray/Has/Len/Iter/Snap/Contains,
   writes elsewhere, growth, ... - and the law of deletion *)
Theorem C05_frame_and_delete : forall s, reachable s ->
  (forall o a k, op_ok o -> ~ touches o a k -> 0 <= k < sn s -> rd (fst (step s o)) a k = rd s a k) /\
  (forall a k, rd (fst (step s (Delete a))) a k = None).
Proof. exact frame_and_delete. Qed.
Print Assumptions C05_frame_and_delete.

(* (full) array export: both storages return an array of shape (len(container), arity) with its axes of length 1
   dropped and of the attribute's dtype - the sparse and the dense export have the same shape for every container
   size, 0, 1 and 2 included (the generated dense_export_shape / sparse_export_shape are what is proved about) *)
Theorem C05_export_shape : forall s a at_ sh k, reachable s -> lookup a (attrs s) = Some at_ ->
  snd (step s (ExportShape a)) = OShape sh k ->
  sh = squeeze [sn s; asz at_] /\ k = aty at_ /\ fst (step s (ExportShape a)) = tick s.
Proof. exact export_shape. Qed.
Print Assumptions C05_export_shape.

(* (full) "accept and reject the same values", along every history: attr[k] = v is accepted exactly when v is storable
   (exact arity, every component's type widens bool->int->float to the attribute's, numpy can represent it) - one
   condition for both storages - and, for the dense storage only, k is an element index *)
Theorem C05_write_accepted_iff : forall s a at_ k v, reachable s -> lookup a (attrs s) = Some at_ ->
  (snd (step s (SetItem a k v)) = OOk <->
   match ast at_ with Dense _ _ _ => 0 <= k < sn s | Sparse _ => True end /\ storable (aty at_) (asz at_) v).
Proof. exact write_accepted_iff. Qed.
Print Assumptions C05_write_accepted_iff.

(* (full) attr[k][c] = x - stored, lost or refused - changes what no other entry of any attribute reads *)
Theorem C05_update_frame : forall s a k c x b j, reachable s -> (b, j) <> (a, k) ->
  rd (fst (step s (Update a k c x))) b j = rd s b j.
Proof. exact update_frame. Qed.
Print Assumptions C05_update_frame.

(* (full, guards = the two listed findings) array export holds what the reads return, row by row, in both storages *)
Theorem C05_export_is_reads : forall s a at_ rows, reachable s -> lookup a (attrs s) = Some at_ ->
  snd (step s (AsArray a)) = ORows rows ->
  match ast at_ with
  | Dense _ _ _ => True
  | Sparse m => forall j, In j (map fst m) -> 0 <= j < sn s
  end ->
  length rows = Z.to_nat (sn s) /\
  forall k, 0 <= k < sn s ->
            match ast at_ with
            | Dense _ _ _ => True
            | Sparse m => lookup k m <> None \/ unset_read (hp s) at_ = default_row (hp s) at_
            end ->
            rd s a k = Some (nth (Z.to_nat k) rows []).
Proof. exact export_is_reads. Qed.
Print Assumptions C05_export_is_reads.
