(* C05 property theorems only: each closed by `exact <lemma>` with Print Assumptions beneath. *)
From Coq Require Import ZArith List Bool.
Require Import MV.Lib.Base MV.C05.Types MV.C05.Gen MV.C05.Model MV.C05.Run MV.C05.Proofs.
Open Scope Z_scope.

(* _can_be_casted accepts exactly the widenings bool -> int -> float and the identity *)
Theorem C05_cast_lattice : forall a b, can_be_casted a b = true <-> widens a b.
Proof. exact cast_lattice. Qed.
Print Assumptions C05_cast_lattice.

(* the dense bounds test fires exactly on the indices outside [0, n): the size itself included *)
Theorem C05_dense_bounds : forall key n, dense_oob key n = true <-> ~ (0 <= key < n).
Proof. exact dense_bounds. Qed.
Print Assumptions C05_dense_bounds.
