(* C05 - lemmas about the generated decision expressions (Gen.v). *)
From Coq Require Import ZArith List Bool Lia.
Import ListNotations.
Require Import MV.Lib.Base MV.C05.Types MV.C05.Gen MV.C05.Model.
Open Scope Z_scope.

(* ------------------------------------------------------------------ the cast lattice *)
(* the chain  Bool < Int < Float ; Complex and String stand alone *)
Definition widens (a b : ty) : Prop :=
  a = b \/ (a = TBool /\ b = TInt) \/ (a = TBool /\ b = TFloat) \/ (a = TInt /\ b = TFloat).

Lemma cast_lattice : forall a b, can_be_casted a b = true <-> widens a b.
Proof.
  intros a b. unfold widens. split.
  - destruct a, b; vm_compute; intros H; try discriminate H; intuition congruence.
  - intros [H|[[H1 H2]|[[H1 H2]|[H1 H2]]]]; subst; try reflexivity. destruct b; reflexivity.
Qed.

(* ------------------------------------------------------------------ the dense bounds test *)
Lemma dense_bounds : forall key n, dense_oob key n = true <-> ~ (0 <= key < n).
Proof. intros key n. unfold dense_oob. lia. Qed.

(* ------------------------------------------------------------------ which values are accepted *)
(* the components python hands over for an attribute of arity e *)
Definition comps_of (e : Z) (v : value) : option (list comp) :=
  if e >? 1 then seq_of v
  else match v with VScal c => Some [c] | VStr s => Some [CS s] | VSeq _ => None end.

Definition comp_ok (t : ty) (c : comp) : Prop := exists tv, kind_of c = Some tv /\ widens tv t.

(* the property's rule: exactly `arity` components, each of a type that widens to the attribute's type *)
Definition valid_value (t : ty) (e : Z) (v : value) : Prop :=
  exists l, comps_of e v = Some l /\ Z.of_nat (length l) = e /\ Forall (comp_ok t) l.

Lemma check_comps_None t l : check_comps can_be_casted t l = None <-> Forall (comp_ok t) l.
Proof.
  induction l as [|c r IH]; simpl.
  - split; auto.
  - destruct (kind_of c) as [tv|] eqn:K.
    + destruct (can_be_casted tv t) eqn:C.
      * rewrite IH. split.
        -- intros H. constructor; [|exact H]. exists tv. split; [exact K|]. now apply cast_lattice.
        -- intros H. now inversion H.
      * split; [discriminate|]. intros H. inversion H as [|? ? [tv' [K' W]] ?]; subst.
        rewrite K in K'. inversion K'; subst. apply cast_lattice in W. congruence.
    + split; [discriminate|]. intros H. inversion H as [|? ? [tv' [K' W]] ?]; subst. congruence.
Qed.

Lemma sparse_validate_inr t e v isv l :
  1 <= e ->
  sparse_validate t e v = inr (isv, l) <->
  (isv = (e >? 1) /\ comps_of e v = Some l /\ Z.of_nat (length l) = e /\ Forall (comp_ok t) l).
Proof.
  intros He. unfold sparse_validate, validate, comps_of, sparse_is_vec, sparse_size_bad,
    sparse_checks_all_components, sparse_vec_cast_ok, sparse_scal_cast_ok.
  destruct (e >? 1) eqn:E.
  - destruct (seq_of v) as [l0|] eqn:S.
    + destruct (negb (Z.of_nat (length l0) =? e)) eqn:Z0.
      * split; [discriminate|]. intros [_ [H1 [H2 _]]]. inversion H1; subst. lia.
      * destruct (check_comps (fun tv ta => can_be_casted tv ta) t l0) as [er|] eqn:C.
        -- split; [discriminate|]. intros [_ [H1 [_ H3]]]. inversion H1; subst.
           apply check_comps_None in H3. unfold can_be_casted in *. congruence.
        -- split.
           ++ intros H. inversion H; subst. repeat split; auto; [lia|]. now apply check_comps_None.
           ++ intros [H0 [H1 _]]. inversion H1; subst. reflexivity.
    + split; [discriminate|]. intros [_ [H _]]. discriminate.
  - assert (e = 1) by lia. subst e. destruct v as [c|l0|s].
    + destruct (kind_of c) as [tv|] eqn:K.
      * destruct (can_be_casted tv t) eqn:C.
        -- split.
           ++ intros H. inversion H; subst. repeat split; auto. constructor; [|constructor].
              exists tv. split; auto. now apply cast_lattice.
           ++ intros [H0 [H1 _]]. inversion H1; subst. reflexivity.
        -- split; [discriminate|]. intros [_ [H1 [_ H3]]]. inversion H1; subst.
           inversion H3 as [|? ? [tv' [K' W]] ?]; subst. rewrite K in K'. inversion K'; subst.
           apply cast_lattice in W. congruence.
      * split; [discriminate|]. intros [_ [H1 [_ H3]]]. inversion H1; subst.
        inversion H3 as [|? ? [tv' [K' W]] ?]; subst. congruence.
    + split; [discriminate|]. intros [_ [H _]]. discriminate.
    + destruct (can_be_casted TString t) eqn:C.
      * split.
        -- intros H. inversion H; subst. repeat split; auto. constructor; [|constructor].
           exists TString. split; auto. now apply cast_lattice.
        -- intros [H0 [H1 _]]. inversion H1; subst. reflexivity.
      * split; [discriminate|]. intros [_ [H1 [_ H3]]]. inversion H1; subst.
        inversion H3 as [|? ? [tv' [K' W]] ?]; subst. simpl in K'. inversion K'; subst.
        apply cast_lattice in W. congruence.
Qed.

(* both storages run the same decision procedure: same verdict, same error kind, same accepted components *)
Lemma validate_same : forall t e v, sparse_validate t e v = dense_validate t e v.
Proof. reflexivity. Qed.

Lemma accepts_iff_valid t e v :
  1 <= e ->
  ((exists r, sparse_validate t e v = inr r) <-> valid_value t e v) /\
  ((exists r, dense_validate t e v = inr r) <-> valid_value t e v).
Proof.
  intros He. pose proof (validate_same t e v) as VS. rewrite <- VS. clear VS. assert (H : (exists r, sparse_validate t e v = inr r) <-> valid_value t e v).
  { split.
    - intros [[isv l] H]. apply sparse_validate_inr in H; [|exact He]. destruct H as [_ [H1 [H2 H3]]].
      exists l. auto.
    - intros [l [H1 [H2 H3]]]. exists (e >? 1, l). apply sparse_validate_inr; auto. }
  split; exact H.
Qed.

Lemma accept_reject_same : forall t e v,
  sparse_validate t e v = dense_validate t e v /\
  (1 <= e -> ((exists r, sparse_validate t e v = inr r) <-> valid_value t e v) /\
             ((exists r, dense_validate t e v = inr r) <-> valid_value t e v)).
Proof. intros t e v. split; [apply validate_same|apply accepts_iff_valid]. Qed.

Example valid_value_ex : valid_value TFloat 3 (VSeq [CB true; CI 2; CF 20]) /\ ~ valid_value TInt 2 (VSeq [CI 1; CF 20]).
Proof.
  split.
  - exists [CB true; CI 2; CF 20]. repeat split; auto. repeat constructor.
    + exists TBool. split; auto. right. right. left. auto.
    + exists TInt. split; auto. right. right. right. auto.
    + exists TFloat. split; auto. left. auto.
  - intros [l [H1 [_ H3]]]. vm_compute in H1. inversion H1; subst.
    inversion H3 as [|? ? _ H4]; subst. inversion H4 as [|? ? [tv [K W]] _]; subst.
    simpl in K. inversion K; subst. destruct W as [W|[[W _]|[[W _]|[W _]]]]; discriminate.
Qed.
