(* C05 - the property-level statements, over all reachable states / all histories, with non-vacuity examples. *)
From Coq Require Import ZArith List Bool Lia.
Import ListNotations.
Require Import MV.Lib.Base MV.C05.Types MV.C05.Gen MV.C05.Model MV.C05.ProofsBase MV.C05.Proofs MV.C05.ProofsInv
        MV.C05.ProofsMap MV.C05.ProofsAgree MV.C05.ProofsAlias.
Open Scope Z_scope.

(* a state the container can be in: reached from the empty container by some history of well-formed operations *)
Definition reachable (s : state) : Prop := exists c h, Forall op_ok h /\ s = fst (run (init c) h).

Lemma reachable_inv s : reachable s -> inv s.
Proof. intros [c [h [Hh E]]]. subst. apply inv_run; [apply inv_init|exact Hh]. Qed.

Lemma set_err_unchanged s a k v s' e : step s (SetItem a k v) = (s', OErr e) -> forall b j, rd s' b j = rd s b j.
Proof.
  intros E b j. unfold step in E. simpl in E. unfold do_set in E.
  repeat (match type of E with context [match ?x with _ => _ end] => destruct x end); inversion E; subst; reflexivity.
Qed.

(* ------------------------------------------------------------------ total map with default *)
Theorem total_map : forall s, reachable s ->
  (* a read is the pure function rd of the state (get_obs), and changes no read *)
  (forall a k s' w, step s (GetItem a k) = (s', w) ->
                    w = get_obs s a k /\ forall b j, rd s' b j = rd s b j) /\
  (* an accepted write is read back - the accepted components in the attribute's type - and nothing else moves *)
  (forall a k v s', step s (SetItem a k v) = (s', OOk) ->
                    exists at_ isv l, lookup a (attrs s) = Some at_ /\
                                      sparse_validate (aty at_) (asz at_) v = inr (isv, l) /\
                                      rd s' a k = Some (written at_ isv l) /\
                                      forall b j, (b, j) <> (a, k) -> rd s' b j = rd s b j) /\
  (* a refused write changes nothing *)
  (forall a k v s' e, step s (SetItem a k v) = (s', OErr e) -> forall b j, rd s' b j = rd s b j) /\
  (* a new attribute reads its default (custom or the type's) at every element index *)
  (forall a t k dense d s', 1 <= k -> step s (Create a t k dense d) = (s', OOk) ->
                            (exists at', lookup a (attrs s') = Some at' /\
                                         default_row (hp s') at' = repeat (store t (default_of t d)) (Z.to_nat k) /\
                                         forall j, 0 <= j < sn s -> rd s' a j = Some (unset_read (hp s') at')) /\
                            forall b j, b <> a -> rd s' b j = rd s b j) /\
  (* clear resets every element index to the default and touches no other attribute *)
  (forall a s', step s (ClearAttr a) = (s', OOk) ->
                exists at_, lookup a (attrs s) = Some at_ /\
                            (forall j, 0 <= j < sn s -> rd s' a j = Some (unset_read (hp s) at_)) /\
                            forall b j, b <> a -> rd s' b j = rd s b j).
Proof.
  intros s Hr. pose proof (reachable_inv s Hr) as Hi. repeat split.
  - destruct (get_laws _ _ _ _ _ Hi H) as [W _]. exact W.
  - destruct (get_laws _ _ _ _ _ Hi H) as [_ [F _]]. exact F.
  - intros a k v s' E. destruct (set_laws _ _ _ _ _ Hi E) as [at_ [isv [l [H1 [H2 [_ [H3 [H4 _]]]]]]]]. eauto 8.
  - intros a k v s' e E. eapply set_err_unchanged; eauto.
  - destruct (create_laws _ _ _ _ _ _ _ Hi H H0) as [at' [L [T [Z0 [D [R0 [F N]]]]]]]. eauto.
  - destruct (create_laws _ _ _ _ _ _ _ Hi H H0) as [at' [L [T [Z0 [D [R0 [F N]]]]]]]. exact F.
  - intros a s' E. destruct (clear_laws _ _ _ Hi E) as [at_ [at' [L [L' [D [R0 [F N]]]]]]]. eauto.
Qed.

(* growth keeps every value and gives the new elements the default *)
Theorem growth_keeps_values : forall s o s' n l, reachable s -> op_ok o ->
  step s o = (s', OGrow n l) -> o <> ClearAll ->
  sn s <= sn s' /\
  forall a at_, lookup a (attrs s) = Some at_ ->
    (forall j, 0 <= j < sn s -> rd s' a j = rd s a j) /\
    (forall j, sn s <= j < sn s' ->
               match ast at_ with Sparse m => lookup j m = None | Dense _ _ _ => True end ->
               rd s' a j = Some (unset_read (hp s) at_)).
Proof.
  intros s o s' n l Hr Ho E NC. pose proof (reachable_inv s Hr) as Hi. apply inv_tick in Hi.
  assert (G : forall added amount, 0 <= added -> amount = added -> grow (tick s) added amount = (s', OGrow n l) ->
              sn s <= sn s' /\ forall a at_, lookup a (attrs s) = Some at_ ->
                (forall j, 0 <= j < sn s -> rd s' a j = rd s a j) /\
                (forall j, sn s <= j < sn s' ->
                           match ast at_ with Sparse m => lookup j m = None | Dense _ _ _ => True end ->
                           rd s' a j = Some (unset_read (hp s) at_))).
  { intros added amount Ha Ea Eg. assert (S' : s' = fst (grow (tick s) added amount)) by now rewrite Eg. split.
    - subst s'. unfold grow. simpl. lia.
    - intros a at_ La. destruct (grow_laws (tick s) added amount a at_ Hi Ha Ea La) as [G1 [G2 G3]].
      rewrite <- S' in *. split; [exact G2|exact G3]. }
  unfold step in E. destruct o; simpl in E, Ho;
    try (unfold do_create, do_set, do_get, do_mut, do_clear_attr, do_as_array, do_update, do_mut_arr, do_contains,
           do_create_sized, do_register, do_export_shape, do_get in E;
         repeat (match type of E with context [match ?x with _ => _ end] => destruct x; try discriminate E end);
         discriminate E).
  - apply (G 1 (append_amount (tick s))); [lia| |exact E]. unfold append_amount. destruct (corner (tick s)); reflexivity.
  - apply (G m (iadd_list_amount (tick s) m)); [lia| |exact E]. unfold iadd_list_amount. destruct (corner (tick s)); reflexivity.
  - apply (G m (iadd_cont_amount (tick s) m m)); [lia| |exact E]. unfold iadd_cont_amount. destruct (corner (tick s)); reflexivity.
  - apply (G (sn (tick s)) (iadd_cont_amount (tick s) (sn (tick s)) (sn (tick s) + sn (tick s)))); [destruct Hi; lia| |exact E].
    unfold iadd_cont_amount. destruct (corner (tick s)); reflexivity.
  - congruence.
  - destruct (corner s) eqn:Cn; [discriminate E|].
    apply (G (m + 1) (iadd_list_amount (tick s) (m + 1))); [lia| |exact E]. unfold iadd_list_amount.
    change (corner (tick s)) with (corner s). rewrite Cn. reflexivity.
Qed.

(* ------------------------------------------------------------------ dense bounds along every history *)
Theorem dense_out_of_bounds : forall s a at_ ne st rows k, reachable s ->
  lookup a (attrs s) = Some at_ -> ast at_ = Dense ne st rows ->
  (snd (step s (GetItem a k)) = OErr EOob <-> ~ (0 <= k < sn s)) /\
  (forall v, snd (step s (SetItem a k v)) = OErr EOob <-> ~ (0 <= k < sn s)).
Proof. intros. eapply dense_bounds_machine; eauto. now apply reachable_inv. Qed.

(* ------------------------------------------------------------------ alignment *)
Theorem alignment_reachable : forall s, reachable s -> 0 <= sn s /\ aligned s.
Proof.
  intros s [c [h [Hh E]]]. subst. split.
  - pose proof (inv_run _ _ (inv_init c) Hh) as [H _]. exact H.
  - now apply alignment.
Qed.

(* ------------------------------------------------------------------ non-vacuity: concrete histories *)
Definition ex_hist : list op :=
  [Append; Append; Create 0 TFloat 2 false None; Create 1 TFloat 2 true (Some (CF 12));
   SetItem 0 1 (VSeq [CI 3; CF 20]); SetItem 1 0 (VSeq [CB true; CF 4]); GetItem 0 0; GetItem 1 0;
   ExtendOther 2; ExtendSelf; ClearAttr 0; AsArray 1].

Example ex_hist_ok : Forall op_ok ex_hist.
Proof. unfold ex_hist. repeat constructor; simpl; lia. Qed.

Example ex_reachable_dense :
  let s := fst (run (init false) ex_hist) in
  reachable s /\ sn s = 8 /\
  exists at_ ne st rows, lookup 1 (attrs s) = Some at_ /\ ast at_ = Dense ne st rows /\ ne = 8 /\ length rows = 8%nat.
Proof.
  split; [exists false, ex_hist; split; [exact ex_hist_ok|reflexivity]|].
  vm_compute. split; [reflexivity|]. do 4 eexists. repeat split; reflexivity.
Qed.

(* the agreement theorem speaks about real histories: this one writes, reads, updates a written entry in place, grows,
   clears and exports *)
Definition ex_shared : list op :=
  [Append; ExtendList 2; Create 0 TFloat 2 false None; SetItem 0 1 (VSeq [CI 3; CF 20]); GetItem 0 1; GetItem 0 2;
   Update 0 1 0 (CF 44); GetItem 0 1;
   SetItem 0 2 (VSeq [CI 3]); SetItem 0 0 (VSeq [CF 8; CS [1]]); Append; ExtendSelf; ExtendListBad 1; AsArray 0; GetItem 0 7;
   ClearAttr 0; AsArray 0; Create 1 TString 1 true (Some (CS [2])); SetItem 1 3 (VStr [1]); GetItem 1 3; GetItem 1 4;
   Update 1 3 0 (CS [1])].

Example ex_shared_ok :
  Forall op_ok ex_shared /\ Forall shared_op ex_shared /\ Forall short_op ex_shared /\ well_addressed false 0 ex_shared /\
  updates_hit_written (init false) ex_shared.
Proof.
  split; [unfold ex_shared; repeat constructor; simpl; lia|].
  split; [unfold ex_shared; repeat constructor|].
  split; [unfold ex_shared; repeat constructor; simpl; unfold string_width; lia|].
  split; [unfold ex_shared; simpl; repeat split; lia|].
  vm_compute. repeat split; try exact I; intros H; [eauto|discriminate H].
Qed.

Example ex_shared_obs :
  map pub (snd (run (init false) (map (force false) ex_shared))) =
  [OGrow 1 []; OGrow 3 []; OOk; OOk; OVal [CF 24; CF 20] true; OVal [CF 0; CF 0] true;
   OOk; OVal [CF 44; CF 20] true; OErr ESize; OErr EType;
   OGrow 4 []; OGrow 8 []; OGrow 10 [];
   ORows [[CF 0; CF 0]; [CF 44; CF 20]; [CF 0; CF 0]; [CF 0; CF 0]; [CF 0; CF 0]; [CF 0; CF 0]; [CF 0; CF 0]; [CF 0; CF 0]; [CF 0; CF 0]; [CF 0; CF 0]];
   OVal [CF 0; CF 0] true; OOk; ORows (repeat [CF 0; CF 0] 10); OOk; OOk; OVal [CS [1]] false; OVal [CS [2]] false;
   OErr ENotSub].
Proof. vm_compute. reflexivity. Qed.

(* the no-aliasing theorem's hypothesis (the read hands out a reference) is met by sparse unset, sparse set and dense reads *)
Example ex_alias_hyp :
  let h1 := [Append; Append; Append; Create 0 TInt 3 false None; Create 1 TInt 3 true None; SetItem 0 1 (VSeq [CI 1; CI 2; CI 3])] in
  let s1 := fst (run (init false) h1) in
  Forall op_ok h1 /\
  length (refs (fst (step s1 (GetItem 0 0)))) = S (length (refs s1)) /\
  length (refs (fst (step s1 (GetItem 0 1)))) = S (length (refs s1)) /\
  length (refs (fst (step s1 (GetItem 1 2)))) = S (length (refs s1)) /\
  (* and the update is not a no-op: through the reference of a written entry and through a dense view it shows *)
  rd (fst (step (fst (step s1 (GetItem 0 1))) (Mut 0 2 (CI 9)))) 0 1 = Some [CI 1; CI 2; CI 9] /\
  rd (fst (step (fst (step s1 (GetItem 1 2))) (Mut 0 0 (CI 9)))) 1 2 = Some [CI 9; CI 0; CI 0].
Proof. cbv zeta. split; [repeat constructor; simpl; lia|]. vm_compute. repeat split; reflexivity. Qed.

Example ex_total_map_hyp : reachable (fst (run (init true) ex_hist)).
Proof. exists true, ex_hist. split; [exact ex_hist_ok|reflexivity]. Qed.

(* ------------------------------------------------------------------ len, iteration, `in` *)
Lemma upsert_keys_iff {A} (k : Z) (v : A) l j : In j (map fst (upsert k v l)) <-> j = k \/ In j (map fst l).
Proof.
  split; [apply upsert_keys_incl|]. induction l as [|[k' v'] t IH]; simpl.
  - intros [H|[]]. now left.
  - destruct (k =? k') eqn:E; simpl.
    + apply Z.eqb_eq in E. subst. intros [H|[H|H]]; auto.
    + intros [H|[H|H]]; auto.
Qed.

(* dense: len = len(container), iteration yields exactly the rows the reads return (= as_array).
   sparse: `in`, len and iteration speak about the keys written since creation / the last clear (by design:
   "sparse attributes allow to iterate only over non-default elements"); the dense `in` is python's fallback to
   iteration (membership among the values) and is not comparable. *)
Theorem len_iter_contains : forall s a at_, reachable s -> lookup a (attrs s) = Some at_ ->
  match ast at_ with
  | Dense ne st rows =>
      snd (step s (Len a)) = ONat (sn s) /\
      snd (step s (Iter a)) = ORows rows /\ snd (step s (AsArray a)) = ORows rows /\
      Z.of_nat (length rows) = sn s /\
      forall k, 0 <= k < sn s -> rd s a k = Some (nth (Z.to_nat k) rows [])
  | Sparse m =>
      NoDup (map fst m) /\
      snd (step s (Len a)) = ONat (Z.of_nat (length m)) /\
      snd (step s (Iter a)) = OKeys (map fst m) /\
      (forall k, snd (step s (Contains a k)) = OBool (match lookup k m with Some _ => true | None => false end)) /\
      (forall k v s', step s (SetItem a k v) = (s', OOk) ->
                      exists at' m', lookup a (attrs s') = Some at' /\ ast at' = Sparse m' /\
                                     forall j, In j (map fst m') <-> j = k \/ In j (map fst m)) /\
      (forall s', step s (ClearAttr a) = (s', OOk) -> exists at', lookup a (attrs s') = Some at' /\ ast at' = Sparse [])
  end.
Proof.
  intros s a at_ Hr La. pose proof (reachable_inv s Hr) as Hi. pose proof Hi as [_ [H1 _]].
  pose proof (H1 _ _ La) as Ok. destruct (ast at_) as [m|ne st rows] eqn:St.
  - pose proof Ok as [_ [_ A3]]. rewrite St in A3. destruct A3 as [ND _].
    split; [exact ND|]. unfold step. simpl. change (attrs (tick s)) with (attrs s). rewrite La.
    unfold len_attr, do_contains. simpl. rewrite La, St. repeat split; auto.
    + intros k v s' E. unfold do_set in E. change (attrs (tick s)) with (attrs s) in E. rewrite La, St in E.
      unfold sparse_vec_uses_attr_dtype, sparse_scal_converted in E.
      destruct (sparse_validate (aty at_) (asz at_) v) as [e|[[|] l]]; [discriminate E| |];
        (destruct (existsb (overflows (aty at_)) l); [discriminate E|]); inversion E; subst; simpl;
        rewrite lookup_put_same; eexists; eexists; (split; [reflexivity|]); (split; [reflexivity|]);
          intros j; apply upsert_keys_iff.
    + intros s' E. unfold do_clear_attr in E. change (attrs (tick s)) with (attrs s) in E. rewrite La, St in E.
      inversion E; subst. simpl. rewrite lookup_put_same. eauto.
  - pose proof Ok as [_ [_ B]]. rewrite St in B. destruct B as [B1 [B2 _]]. subst ne.
    unfold step. simpl. change (attrs (tick s)) with (attrs s). rewrite La. unfold len_attr, do_as_array.
    change (attrs (tick s)) with (attrs s). rewrite La, St. simpl. repeat split; auto.
    intros k Hk. unfold rd. rewrite La. erewrite rd_dense; eauto. reflexivity.
Qed.

(* ------------------------------------------------------------------ create_attribute(size=...) *)
(* the documented use - size = current length of the container - is the plain dense creation, to which every theorem
   applies; any other size creates an attribute that is `size - len` off, and growth keeps exactly that offset *)
Theorem create_sized : forall s a t k d size,
  (size = sn s -> step s (CreateSized a t k d size) = step s (Create a t k true d)) /\
  (forall s', step s (CreateSized a t k d size) = (s', OOk) -> lookup a (attrs s) = None ->
              exists at' st rows, lookup a (attrs s') = Some at' /\ ast at' = Dense size st rows /\
                                  length rows = Z.to_nat size) /\
  (forall at_ ne st rows added, ast at_ = Dense ne st rows ->
      match ast (expand_attr (hp s) (clock s) added at_) with
      | Dense ne' _ rows' => ne' - (sn s + added) = ne - sn s /\ (0 <= added -> length rows' = (length rows + Z.to_nat added)%nat)
      | Sparse _ => False
      end).
Proof.
  intros s a t k d size. split; [|split].
  - intros E. subst size. reflexivity.
  - intros s' E Ln. unfold step in E. simpl in E. unfold do_create_sized in E.
    change (attrs (tick s)) with (attrs s) in E. rewrite Ln in E.
    destruct (mk_default (hp (tick s)) t k d) as [e|[h' df]]; inversion E; subst. simpl. rewrite lookup_put_same.
    do 3 eexists. split; [reflexivity|]. unfold new_storage_n, dense_init_n_elem, dense_init_rows, create_dense_n_elem_sized. simpl.
    split; [reflexivity|]. apply repeat_length.
  - intros at_ ne st rows added St. unfold expand_attr. rewrite St. simpl.
    unfold dense_expand_n_elem, dense_expand_rows. split; [lia|]. intros _. rewrite app_length, repeat_length. reflexivity.
Qed.

(* ------------------------------------------------------------------ register_array_as_attribute *)
Theorem register_array : forall s a t k rows d s', reachable s -> op_ok (Register a t k rows d) ->
  step s (Register a t k rows d) = (s', OOk) -> lookup a (attrs s) = None ->
  Z.of_nat (length rows) = sn s /\ 0 < sn s /\
  (forall j, 0 <= j < sn s -> rd s' a j = Some (nth (Z.to_nat j) rows [])) /\
  (forall b j, b <> a -> rd s' b j = rd s b j) /\ sn s' = sn s.
Proof.
  intros s a t k rows d s' Hr Ho E Ln. pose proof (reachable_inv s Hr) as Hi.
  pose proof (inv_step s _ Hi Ho) as Hi'. rewrite E in Hi'. simpl in Hi'.
  unfold step in E. simpl in E. unfold do_register in E. change (attrs (tick s)) with (attrs s) in E.
  change (sn (tick s)) with (sn s) in E. change (hp (tick s)) with (hp s) in E. rewrite Ln in E.
  destruct (negb (Z.of_nat (length rows) =? sn s)) eqn:Sh; [discriminate|].
  destruct (sn s =? 0) eqn:Z0; [discriminate|]. destruct Hi as [N0 [H1 _]].
  split; [lia|]. split; [lia|].
  destruct (mk_default (hp s) t k d) as [e|[h' df]] eqn:M; inversion E; subst s'; clear E.
  destruct Hi' as [_ [I1 _]]. simpl in I1. pose proof (I1 a _ (lookup_put_same _ _ _)) as Ok.
  split; [|split; [|reflexivity]].
  - intros j Hj. unfold rd. simpl. rewrite lookup_put_same. erewrite rd_dense; [|exact Ok|reflexivity|exact Hj]. reflexivity.
  - intros b j Nb. unfold rd. simpl. rewrite lookup_put_other by exact Nb.
    destruct (lookup b (attrs s)) as [bt|] eqn:Lb; [|reflexivity].
    unfold mk_default, default_is_scalar in M. destruct d as [c|].
    + destruct (kind_of c); [|discriminate]. destruct (default_type_bad _ _); inversion M; subst. reflexivity.
    + destruct (k =? 1); inversion M; subst; [reflexivity|]. eapply rd_attr_app. eapply H1; eauto.
Qed.

(* ------------------------------------------------------------------ appending a list with an item that cannot be unpacked *)
(* (CornerDataContainer): the whole append is refused and nothing changes: container and attributes stay aligned *)
Theorem refused_append_changes_nothing : forall s m s' w,
  corner s = true -> step s (ExtendListBad m) = (s', w) ->
  w = OGrowErr EUnpack (sn s) (lens (attrs s)) /\ sn s' = sn s /\ attrs s' = attrs s /\ hp s' = hp s.
Proof.
  intros s m s' w C E. unfold step in E. simpl in E. change (corner (tick s)) with (corner s) in E. rewrite C in E.
  inversion E; subst. auto.
Qed.

(* ------------------------------------------------------------------ history-level: the last value written, or else the default *)
Fixpoint untouched (h : list op) (a k : Z) : Prop :=
  match h with [] => True | o :: t => ~ touches o a k /\ untouched t a k end.

Lemma sn_step s o : inv s -> op_ok o -> o <> ClearAll -> sn s <= sn (fst (step s o)).
Proof.
  intros Hi Ho NC. unfold step. change (sn s) with (sn (tick s)). apply inv_tick in Hi. set (t := tick s) in *. clearbody t.
  destruct Hi as [N0 _].
  destruct o; simpl in Ho; cbn [fst]; try (simpl; lia); try congruence; try contradiction.
  - unfold do_create. repeat (match goal with |- context [match ?x with _ => _ end] => destruct x end); simpl; lia.
  - unfold do_set. repeat (match goal with |- context [match ?x with _ => _ end] => destruct x end); simpl; lia.
  - unfold do_get. repeat (match goal with |- context [match ?x with _ => _ end] => destruct x end); simpl; lia.
  - unfold do_mut. destruct (nth_error (refs t) r) as [[id|a st k|a st|]|]; cbn [fst]; try lia.
    + destruct (mut_ref_fields t (RObj id) c x) as [_ [Q _]]. rewrite Q. lia.
    + destruct (mut_ref_fields t (RRow a st k) c x) as [_ [Q _]]. rewrite Q. lia.
  - unfold do_clear_attr. repeat (match goal with |- context [match ?x with _ => _ end] => destruct x end); simpl; lia.
  - destruct (as_array_fields t a) as [_ [_ [Q _]]]. rewrite Q. lia.
  - destruct (lookup a (attrs t)); simpl; lia.
  - destruct (lookup a (attrs t)) as [x|]; [destruct (ast x)|]; simpl; lia.
  - unfold do_update. destruct (do_get t a key) as [s1 w1] eqn:G.
    assert (Q : sn s1 = sn t).
    { assert (S1 : s1 = fst (do_get t a key)) by now rewrite G. subst s1. unfold do_get.
      repeat (match goal with |- context [match ?x with _ => _ end] => destruct x end); reflexivity. }
    destruct w1; cbn [fst]; try lia. destruct isvec; cbn [fst]; [|lia].
    destruct ((c <? 0) || (c >=? Z.of_nat (length row))); cbn [fst]; [lia|].
    destruct (match lookup a (attrs t) with Some at_ => overflows (aty at_) x | None => false end); cbn [fst]; [lia|].
    destruct (nth_error (refs s1) (length (refs t))) as [rf|]; cbn [fst]; [|lia].
    destruct (mut_ref_fields s1 rf c x) as [_ [Q2 _]]. rewrite Q2. lia.
  - unfold do_mut_arr. destruct (nth_error (refs t) r) as [[id|a st k|a st|]|]; cbn [fst]; try lia.
    destruct (row <? 0); cbn [fst]; [lia|]. destruct (mut_ref_fields t (RRow a st row) c x) as [_ [Q _]]. rewrite Q. lia.
  - unfold do_contains. repeat (match goal with |- context [match ?x with _ => _ end] => destruct x end); simpl; lia.
  - destruct (corner t); simpl; lia.
  - unfold do_register. repeat (match goal with |- context [match ?x with _ => _ end] => destruct x end); simpl; lia.
  - unfold do_export_shape. repeat (match goal with |- context [match ?x with _ => _ end] => destruct x end); simpl; lia.
Qed.

Lemma frame_run : forall h s a k,
  inv s -> Forall op_ok h -> untouched h a k -> 0 <= k < sn s -> rd (fst (run s h)) a k = rd s a k.
Proof.
  induction h as [|o t IH]; intros s a k Hi Hh Hu Hk; simpl; [reflexivity|].
  inversion Hh as [|? ? Ho Ht]; subst. destruct Hu as [Nt Hu].
  pose proof (inv_step s o Hi Ho) as Hi1. pose proof (frame_step s o a k Hi Ho Nt Hk) as F.
  assert (NC : o <> ClearAll) by (intros Q; subst; apply Nt; exact I).
  pose proof (sn_step s o Hi Ho NC) as Sn.
  destruct (step s o) as [s1 w]. simpl in *. specialize (IH s1 a k Hi1 Ht Hu).
  destruct (run s1 t) as [s2 ws]. simpl in *. rewrite IH; [exact F|lia].
Qed.

(* "An attribute answers, for every element index of its container, the last value written there or else its
   default": after an accepted write to (a,k), whatever follows - reads, writes to other entries or attributes,
   creation / deletion / clearing of other attributes, every kind of growth, refused operations, exports - the entry
   reads the written value; likewise a created or cleared attribute reads its default at k until (a,k) is written. *)
Theorem last_write_or_default : forall c h1 a k h2,
  Forall op_ok h1 -> Forall op_ok h2 -> untouched h2 a k ->
  let s1 := fst (run (init c) h1) in
  0 <= k < sn s1 ->
  (forall v s1', step s1 (SetItem a k v) = (s1', OOk) ->
     exists at_ isv l, lookup a (attrs s1) = Some at_ /\ sparse_validate (aty at_) (asz at_) v = inr (isv, l) /\
                       rd (fst (run s1' h2)) a k = Some (written at_ isv l)) /\
  (forall t e dense d s1', 1 <= e -> step s1 (Create a t e dense d) = (s1', OOk) ->
     exists at', lookup a (attrs s1') = Some at' /\ rd (fst (run s1' h2)) a k = Some (unset_read (hp s1') at')) /\
  (forall s1', step s1 (ClearAttr a) = (s1', OOk) ->
     exists at_, lookup a (attrs s1) = Some at_ /\ rd (fst (run s1' h2)) a k = Some (unset_read (hp s1) at_)).
Proof.
  intros c h1 a k h2 H1 H2 Hu s1 Hk. pose proof (inv_run _ _ (inv_init c) H1) as Hi. fold s1 in Hi. repeat split.
  - intros v s1' E. destruct (set_laws _ _ _ _ _ Hi E) as [at_ [isv [l [L [V [_ [Rk [_ Sn]]]]]]]].
    exists at_, isv, l. split; [exact L|]. split; [exact V|].
    pose proof (inv_step s1 (SetItem a k v) Hi I) as Hi'. rewrite E in Hi'. simpl in Hi'.
    rewrite (frame_run h2 s1' a k Hi' H2 Hu); [exact Rk|lia].
  - intros t e dense d s1' He E. destruct (create_laws _ _ _ _ _ _ _ Hi He E) as [at' [L [_ [_ [_ [R0 [_ Sn]]]]]]].
    exists at'. split; [exact L|].
    pose proof (inv_step s1 (Create a t e dense d) Hi He) as Hi'. rewrite E in Hi'. simpl in Hi'.
    rewrite (frame_run h2 s1' a k Hi' H2 Hu); [apply R0; exact Hk|lia].
  - intros s1' E. destruct (clear_laws _ _ _ Hi E) as [at_ [at' [L [_ [_ [R0 [_ Sn]]]]]]].
    exists at_. split; [exact L|].
    pose proof (inv_step s1 (ClearAttr a) Hi I) as Hi'. rewrite E in Hi'. simpl in Hi'.
    rewrite (frame_run h2 s1' a k Hi' H2 Hu); [apply R0; exact Hk|lia].
Qed.

(* one-step frame for every operation that does not touch (a,k), and the law of deletion *)
Theorem frame_and_delete : forall s, reachable s ->
  (forall o a k, op_ok o -> ~ touches o a k -> 0 <= k < sn s -> rd (fst (step s o)) a k = rd s a k) /\
  (forall a k, rd (fst (step s (Delete a))) a k = None).
Proof.
  intros s Hr. pose proof (reachable_inv s Hr) as Hi. split.
  - intros o a k Ho Nt Hk. now apply frame_step.
  - intros a k. unfold step, rd. simpl. rewrite lookup_del, Z.eqb_refl. reflexivity.
Qed.

(* ------------------------------------------------------------------ more refuted statements (known findings) *)
(* the sparse storage has no bounds check: a write at an index that is not an element of the container is accepted,
   stays invisible to dense-style reads, and becomes an entry once the container has grown that far *)
Definition wit_oob : list op :=
  [Append; Create 0 TInt 1 false None; SetItem 0 5 (VScal (CI 7)); Append; Append; Append; Append; Append; GetItem 0 5].

Theorem agree_out_of_container_refuted :
  exists c h, Forall op_ok h /\ Forall shared_op h /\ Forall short_op h /\ updates_hit_written (init c) h /\
              map pub (snd (run (init c) (map (force false) h))) <> map pub (snd (run (init c) (map (force true) h))).
Proof.
  exists false, wit_oob. unfold wit_oob.
  split; [repeat constructor; simpl; lia|]. split; [repeat constructor|]. split; [repeat constructor|].
  split; [vm_compute; repeat split|]. vm_compute. intros H. discriminate H.
Qed.

(* ... and a negative key is exported by as_array at row n-1 (numpy wraps it) while entry n-1 reads the default *)
Theorem sparse_negative_key_export_refuted :
  exists s, reachable s /\ exists a rows, snd (step s (AsArray a)) = ORows rows /\
            nth_error rows (Z.to_nat (sn s - 1)) <> rd s a (sn s - 1).
Proof.
  exists (fst (run (init false) [Append; Append; Create 0 TInt 1 false None; SetItem 0 (-1) (VScal (CI 5))])).
  split; [exists false, [Append; Append; Create 0 TInt 1 false None; SetItem 0 (-1) (VScal (CI 5))]; split; [|reflexivity];
          repeat constructor; simpl; lia|].
  exists 0, [[CI 0]; [CI 5]]. split; [vm_compute; reflexivity|]. vm_compute. intros H. discriminate H.
Qed.

(* a string longer than the fixed width is cut by both storages: the value read back is not the value written *)
Theorem long_string_cut_refuted :
  exists s a k v s', reachable s /\ step s (SetItem a k v) = (s', OOk) /\
    exists at_ isv l, lookup a (attrs s) = Some at_ /\ sparse_validate (aty at_) (asz at_) v = inr (isv, l) /\
                      rd s' a k <> Some (map (cast (aty at_)) l).
Proof.
  exists (fst (run (init false) [Append; Create 0 TString 1 true None])), 0, 0, (VStr long_string).
  eexists. split; [exists false, [Append; Create 0 TString 1 true None]; split; [|reflexivity]; repeat constructor; simpl; lia|].
  split; [vm_compute; reflexivity|]. do 3 eexists. split; [vm_compute; reflexivity|]. split; [vm_compute; reflexivity|].
  vm_compute. intros H. discriminate H.
Qed.

(* ------------------------------------------------------------------ more non-vacuity *)
Example ex_growth_premise :
  let s := fst (run (init false) [Append; Create 0 TInt 1 false None; SetItem 0 0 (VScal (CI 3))]) in
  exists at_ m, lookup 0 (attrs s) = Some at_ /\ ast at_ = Sparse m /\ lookup 1 m = None /\
                rd (fst (step s Append)) 0 1 = Some (unset_read (hp s) at_) /\ rd (fst (step s Append)) 0 0 = Some [CI 3].
Proof.
  cbv zeta. exists (mkattr TInt 1 (DScal (CI 0)) (Sparse [(0, SScal (CI 3))])), [(0, SScal (CI 3))].
  vm_compute. repeat split; reflexivity.
Qed.

Example ex_valid_vstr : valid_value TString 3 (VStr [97; 98; 99]) /\ valid_value TString 1 (VStr [97; 98; 99]) /\
                        ~ valid_value TInt 3 (VStr [97; 98; 99]).
Proof.
  split; [|split].
  - exists [CS [97]; CS [98]; CS [99]]. repeat split; auto. repeat constructor; exists TString; split; auto; left; auto.
  - exists [CS [97; 98; 99]]. repeat split; auto. repeat constructor; exists TString; split; auto; left; auto.
  - intros [l [H1 [_ H3]]]. vm_compute in H1. inversion H1; subst. inversion H3 as [|? ? [tv [K W]] _]; subst.
    simpl in K. inversion K; subst. destruct W as [W|[[W _]|[[W _]|[W _]]]]; discriminate.
Qed.

Example ex_overflow :
  let s := fst (run (init false) [Append; Create 0 TInt 1 false None; Create 1 TInt 1 true None; Create 2 TFloat 1 false None]) in
  snd (step s (SetItem 0 0 (VScal (CI (2 ^ 64))))) = OErr EOverflow /\
  snd (step s (SetItem 1 0 (VScal (CI (2 ^ 63))))) = OErr EOverflow /\
  rd (fst (step s (SetItem 2 0 (VScal (CI (2 ^ 53 + 1)))))) 2 0 = Some [CF (8 * 2 ^ 53)] /\
  rd (fst (step s (SetItem 0 0 (VScal (CI (2 ^ 63 - 1)))))) 0 0 = Some [CI (2 ^ 63 - 1)].
Proof. vm_compute. repeat split; reflexivity. Qed.

(* ------------------------------------------------------------------ the shape of the exported array *)
(* along every history, for both storages: as_array returns an array of shape (len(container), arity) without its
   axes of length 1 (np.squeeze), of the attribute's dtype - the same shape for a sparse and for a dense attribute of
   the same arity, in particular for containers of 0, 1 and 2 elements *)
Theorem export_shape : forall s a at_ sh k, reachable s -> lookup a (attrs s) = Some at_ ->
  snd (step s (ExportShape a)) = OShape sh k ->
  sh = squeeze [sn s; asz at_] /\ k = aty at_ /\ fst (step s (ExportShape a)) = tick s.
Proof.
  intros s a at_ sh k Hr La E. pose proof (reachable_inv s Hr) as [_ [H1 _]]. pose proof (H1 _ _ La) as [_ [_ A3]].
  unfold step in *. simpl in *. unfold do_export_shape in *. change (attrs (tick s)) with (attrs s) in *. rewrite La in *.
  destruct (ast at_) as [m|ne st rows].
  - destruct (fill_rows _ _ _ _ _); simpl in E; inversion E; subst. auto.
  - destruct A3 as [B1 [B2 _]]. simpl in E. inversion E; subst. rewrite B2. auto.
Qed.

Example ex_export_shapes :
  let h n k dense := repeat Append n ++ [Create 0 TFloat k dense None; ExportShape 0] in
  let shape n k dense := last (snd (run (init false) (h n k dense))) OOther in
  shape 0%nat 1 false = OShape [0] TFloat /\ shape 0%nat 1 true = OShape [0] TFloat /\
  shape 1%nat 1 false = OShape [] TFloat /\ shape 1%nat 1 true = OShape [] TFloat /\
  shape 1%nat 3 false = OShape [3] TFloat /\ shape 1%nat 3 true = OShape [3] TFloat /\
  shape 2%nat 1 false = OShape [2] TFloat /\ shape 2%nat 3 true = OShape [2; 3] TFloat /\
  shape 0%nat 3 false = OShape [0; 3] TFloat.
Proof. vm_compute. repeat split; reflexivity. Qed.
