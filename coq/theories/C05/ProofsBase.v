(* C05 - list / association-list lemmas used by the proofs. *)
From Coq Require Import ZArith List Bool Lia.
Import ListNotations.
Require Import MV.Lib.Base MV.C05.Types MV.C05.Gen MV.C05.Model.
Open Scope Z_scope.

Section Assoc.
Context {A : Type}.

Lemma lookup_put_same (k : Z) (v : A) l : lookup k (put k v l) = Some v.
Proof.
  induction l as [|[k' v'] t IH]; simpl.
  - now rewrite Z.eqb_refl.
  - destruct (k =? k') eqn:E; simpl.
    + now rewrite Z.eqb_refl.
    + destruct (k <? k'); simpl; [now rewrite Z.eqb_refl|]. rewrite E. exact IH.
Qed.

Lemma lookup_put_other (k j : Z) (v : A) l : j <> k -> lookup j (put k v l) = lookup j l.
Proof.
  intros N. induction l as [|[k' v'] t IH]; simpl.
  - destruct (j =? k) eqn:E; [lia|reflexivity].
  - destruct (k =? k') eqn:E; simpl.
    + apply Z.eqb_eq in E. subst k'. destruct (j =? k) eqn:F; [lia|reflexivity].
    + destruct (k <? k'); simpl.
      * destruct (j =? k) eqn:F; [lia|reflexivity].
      * destruct (j =? k'); [reflexivity|exact IH].
Qed.

Lemma lookup_put (k j : Z) (v : A) l : lookup j (put k v l) = if j =? k then Some v else lookup j l.
Proof.
  destruct (j =? k) eqn:E.
  - apply Z.eqb_eq in E. subst. apply lookup_put_same.
  - apply lookup_put_other. lia.
Qed.

Lemma lookup_del (k j : Z) (l : list (Z * A)) : lookup j (del k l) = if j =? k then None else lookup j l.
Proof.
  induction l as [|[k' v'] t IH]; simpl.
  - now destruct (j =? k).
  - destruct (k =? k') eqn:E.
    + apply Z.eqb_eq in E. subst k'. rewrite IH. now destruct (j =? k).
    + simpl. destruct (j =? k') eqn:F; [|exact IH].
      destruct (j =? k) eqn:G; [lia|reflexivity].
Qed.

Lemma lookup_upsert (k j : Z) (v : A) l : lookup j (upsert k v l) = if j =? k then Some v else lookup j l.
Proof.
  induction l as [|[k' v'] t IH]; simpl.
  - reflexivity.
  - destruct (k =? k') eqn:E; simpl.
    + apply Z.eqb_eq in E. subst k'. now destruct (j =? k).
    + destruct (j =? k') eqn:F.
      * destruct (j =? k) eqn:G; [lia|reflexivity].
      * exact IH.
Qed.

Lemma lookup_map_vals {B} (f : A -> B) (j : Z) (l : list (Z * A)) :
  lookup j (map (fun p => (fst p, f (snd p))) l) = option_map f (lookup j l).
Proof.
  induction l as [|[k v] t IH]; simpl; [reflexivity|]. now destruct (j =? k).
Qed.

Lemma lookup_In (j : Z) (l : list (Z * A)) v : lookup j l = Some v -> In (j, v) l.
Proof.
  induction l as [|[k w] t IH]; simpl; [discriminate|].
  destruct (j =? k) eqn:E.
  - intros H. inversion H. subst. apply Z.eqb_eq in E. subst. now left.
  - intros H. right. now apply IH.
Qed.

Lemma upsert_keys_incl (k : Z) (v : A) l j : In j (map fst (upsert k v l)) -> j = k \/ In j (map fst l).
Proof.
  induction l as [|[k' v'] t IH]; simpl.
  - intros [H|[]]. now left.
  - destruct (k =? k') eqn:E; simpl.
    + apply Z.eqb_eq in E. subst. intros [H|H]; [now left| right; now right].
    + intros [H|H]; [right; now left|]. destruct (IH H); [now left|right; now right].
Qed.

Lemma lookup_Some_key (j : Z) (l : list (Z * A)) v : lookup j l = Some v -> In j (map fst l).
Proof. intros H. apply lookup_In in H. apply in_map_iff. now exists (j, v). Qed.

Lemma lookup_None_key (j : Z) (l : list (Z * A)) : ~ In j (map fst l) -> lookup j l = None.
Proof.
  induction l as [|[k w] t IH]; simpl; [reflexivity|]. intros N.
  destruct (j =? k) eqn:E; [apply Z.eqb_eq in E; subst; exfalso; apply N; now left|].
  apply IH. intros H. apply N. now right.
Qed.

Lemma length_upd (l : list A) i v : length (upd l i v) = length l.
Proof. revert i. induction l; intros [|i]; simpl; auto. Qed.

Lemma nth_upd_same (l : list A) i v d : (i < length l)%nat -> nth i (upd l i v) d = v.
Proof. revert i. induction l; intros [|i]; simpl; intros H; try lia; auto. apply IHl. lia. Qed.

Lemma nth_upd_other (l : list A) i j v d : i <> j -> nth j (upd l i v) d = nth j l d.
Proof. revert i j. induction l; intros [|i] [|j]; simpl; intros H; try lia; auto. Qed.

Lemma nth_error_upd_other (l : list A) i j v : i <> j -> nth_error (upd l i v) j = nth_error l j.
Proof. revert i j. induction l; intros [|i] [|j]; simpl; intros H; try lia; auto. Qed.

Lemma nth_error_upd_same (l : list A) i v : (i < length l)%nat -> nth_error (upd l i v) i = Some v.
Proof. revert i. induction l; intros [|i]; simpl; intros H; try lia; auto. apply IHl. lia. Qed.

Lemma nth_error_app_old (l : list A) x i : (i < length l)%nat -> nth_error (l ++ [x]) i = nth_error l i.
Proof. intros H. now rewrite nth_error_app1. Qed.

Lemma nth_error_app_new (l : list A) x : nth_error (l ++ [x]) (length l) = Some x.
Proof. rewrite nth_error_app2 by lia. now rewrite Nat.sub_diag. Qed.

Lemma nth_app_repeat_old (l : list A) x m i d : (i < length l)%nat -> nth i (l ++ repeat x m) d = nth i l d.
Proof. intros H. now rewrite app_nth1. Qed.

Lemma nth_app_repeat_new (l : list A) x m i d :
  (length l <= i < length l + m)%nat -> nth i (l ++ repeat x m) d = x.
Proof.
  intros H. rewrite app_nth2 by lia. apply nth_repeat_lt || idtac.
  remember (i - length l)%nat as j. assert (j < m)%nat by lia. clear -H0.
  revert j H0. induction m; intros [|j] H; simpl; try lia; auto. apply IHm. lia.
Qed.

Lemma nth_repeat_in (x : A) m i d : (i < m)%nat -> nth i (repeat x m) d = x.
Proof. revert i. induction m; intros [|i] H; simpl; try lia; auto. apply IHm. lia. Qed.

End Assoc.
