(* C05 - round 7: acceptance of a write at the level of the machine; the in-place update attr[k][c] = x harms no
   other entry. *)
From Coq Require Import ZArith List Bool Lia.
Import ListNotations.
Require Import MV.Lib.Base MV.C05.Types MV.C05.Gen MV.C05.Model MV.C05.ProofsBase MV.C05.Proofs MV.C05.ProofsInv
        MV.C05.ProofsMap MV.C05.ProofsAlias MV.C05.ProofsAgree MV.C05.ProofsTop.
Open Scope Z_scope.

(* ------------------------------------------------------------------ which writes are accepted *)
(* the value has the shape and the component types the attribute takes, and numpy can represent every component *)
Definition storable (t : ty) (e : Z) (v : value) : Prop :=
  exists l, comps_of e v = Some l /\ Z.of_nat (length l) = e /\ Forall (comp_ok t) l /\ existsb (overflows t) l = false.

(* "accept and reject the same values": along every history a write attr[k] = v is accepted exactly when v is storable
   (exact arity, every component bool->int->float-widens to the attribute's type, representable) - the same condition
   for both storages - and, for the dense storage only, k is an element index *)
Theorem write_accepted_iff : forall s a at_ k v, reachable s -> lookup a (attrs s) = Some at_ ->
  (snd (step s (SetItem a k v)) = OOk <->
   match ast at_ with Dense _ _ _ => 0 <= k < sn s | Sparse _ => True end /\ storable (aty at_) (asz at_) v).
Proof.
  intros s a at_ k v Hr La. pose proof (reachable_inv s Hr) as [_ [H1 _]]. pose proof (H1 _ _ La) as [A1 [_ A3]].
  unfold step. simpl. unfold do_set. change (attrs (tick s)) with (attrs s). rewrite La. unfold storable.
  destruct (ast at_) as [m|ne st rows] eqn:St.
  - unfold sparse_vec_uses_attr_dtype, sparse_scal_converted.
    destruct (sparse_validate (aty at_) (asz at_) v) as [e|[isv l]] eqn:V.
    + split; [discriminate|]. intros [_ [l [C1 [C2 [C3 _]]]]].
      assert (Q : sparse_validate (aty at_) (asz at_) v = inr (asz at_ >? 1, l)) by (apply sparse_validate_inr; auto).
      congruence.
    + pose proof V as V'. apply sparse_validate_inr in V'; [|exact A1]. destruct V' as [V0 [V1 [V2 V3]]].
      destruct (existsb (overflows (aty at_)) l) eqn:Ov.
      * split; [destruct isv; discriminate|]. intros [_ [l' [C1 [_ [_ C4]]]]]. rewrite V1 in C1. inversion C1; subst. congruence.
      * split; [|destruct isv; reflexivity]. intros _. split; [exact I|]. exists l. auto.
  - destruct A3 as [B1 _]. subst ne. destruct (dense_oob k (sn s)) eqn:O.
    + split; [discriminate|]. intros [K _]. apply dense_bounds in O. contradiction.
    + assert (K : 0 <= k < sn s).
      { destruct (Z_lt_dec k 0); [exfalso; assert (dense_oob k (sn s) = true) by (apply dense_bounds; lia); congruence|].
        destruct (Z_lt_dec k (sn s)); [lia|]. exfalso. assert (dense_oob k (sn s) = true) by (apply dense_bounds; lia). congruence. }
      rewrite <- validate_same.
      destruct (sparse_validate (aty at_) (asz at_) v) as [e|[isv l]] eqn:V.
      * split; [discriminate|]. intros [_ [l [C1 [C2 [C3 _]]]]].
        assert (Q : sparse_validate (aty at_) (asz at_) v = inr (asz at_ >? 1, l)) by (apply sparse_validate_inr; auto).
        congruence.
      * pose proof V as V'. apply sparse_validate_inr in V'; [|exact A1]. destruct V' as [V0 [V1 [V2 V3]]].
        destruct (existsb (overflows (aty at_)) l) eqn:Ov.
        -- split; [discriminate|]. intros [_ [l' [C1 [_ [_ C4]]]]]. rewrite V1 in C1. inversion C1; subst. congruence.
        -- split; [|reflexivity]. intros _. split; [exact K|]. exists l. auto.
Qed.

Example ex_write_accepted :
  let s := fst (run (init false) [Append; Create 0 TFloat 2 false None; Create 1 TFloat 2 true None]) in
  storable TFloat 2 (VSeq [CB true; CI 3]) /\ ~ storable TFloat 2 (VSeq [CI 3; CI (2 ^ 1100)]) /\
  ~ storable TFloat 2 (VSeq [CF 8]) /\
  snd (step s (SetItem 0 0 (VSeq [CB true; CI 3]))) = OOk /\ snd (step s (SetItem 1 0 (VSeq [CB true; CI 3]))) = OOk /\
  snd (step s (SetItem 1 1 (VSeq [CB true; CI 3]))) = OErr EOob.
Proof.
  cbv zeta. split; [|split; [|split]].
  - exists [CB true; CI 3]. repeat split; auto. repeat constructor; [exists TBool|exists TInt]; split; auto; unfold widens; auto.
  - intros [l [C1 [_ [_ C4]]]]. vm_compute in C1. inversion C1; subst. vm_compute in C4. discriminate.
  - intros [l [C1 [C2 _]]]. vm_compute in C1. inversion C1; subst. simpl in C2. lia.
  - vm_compute. repeat split; reflexivity.
Qed.

(* ------------------------------------------------------------------ attr[k][c] = x harms no other entry *)
Lemma reachable_own s : reachable s -> own s.
Proof. intros [c [h [Hh E]]]. subst. apply (own_run (init c) h (inv_init c) (own_init c) Hh). Qed.

Lemma do_get_val_pushes s a k s1 row :
  do_get s a k = (s1, OVal row true) -> length (refs s1) = S (length (refs s)).
Proof.
  unfold do_get. intros E.
  repeat (match type of E with context [match ?x with _ => _ end] => destruct x end); inversion E; subst; simpl;
    rewrite app_length; simpl; lia.
Qed.

(* "Changing a value obtained by reading one entry never changes what any other entry reads", for the one-statement
   idiom: whatever the outcome (stored, lost on a never-written sparse entry, refused) no entry other than (a,k) - of
   the same or of any other attribute - reads differently afterwards *)
Theorem update_frame : forall s a k c x b j, reachable s -> (b, j) <> (a, k) ->
  rd (fst (step s (Update a k c x))) b j = rd s b j.
Proof.
  intros s a k c x b j Hr N. pose proof (reachable_inv s Hr) as Hi. pose proof (reachable_own s Hr) as Ow.
  destruct (step s (GetItem a k)) as [s1 w] eqn:Eg.
  destruct (get_laws _ _ _ _ _ Hi Eg) as [_ [Fr _]].
  pose proof (inv_step s (GetItem a k) Hi I) as Hi1. rewrite Eg in Hi1. simpl in Hi1.
  assert (Eg' : do_get (tick s) a k = (s1, w)) by exact Eg.
  unfold step. simpl. unfold do_update. rewrite Eg'.
  destruct w; cbn [fst]; try (rewrite Fr; reflexivity).
  destruct isvec; cbn [fst]; [|rewrite Fr; reflexivity].
  destruct ((c <? 0) || (c >=? Z.of_nat (length row))); cbn [fst]; [rewrite Fr; reflexivity|].
  destruct (match lookup a (attrs (tick s)) with Some at_ => overflows (aty at_) x | None => false end); cbn [fst];
    [rewrite Fr; reflexivity|].
  pose proof (do_get_val_pushes _ _ _ _ _ Eg') as HL. change (refs (tick s)) with (refs s) in *.
  destruct (get_ref _ _ _ _ _ Hi Ow Eg HL) as [rf [Hr' Hrf]]. rewrite Hr'. cbn [fst].
  rewrite <- Fr. apply mut_frame with (a := a) (i := k); [exact Hi1| |exact N].
  destruct rf as [id|a' st i'|a' st|]; try contradiction; [exact Hrf|].
  destruct Hrf as [E1 E2]. split; [exact E1|]. split; [exact E2|]. subst i'.
  destruct Hi1 as [_ [_ HF]]. rewrite Forall_forall in HF. apply nth_error_In in Hr'. apply (HF _ Hr').
Qed.

Example ex_update_frame :
  let s := fst (run (init false) [Append; Append; Create 0 TInt 2 false None; Create 1 TInt 2 true None;
                                  SetItem 0 0 (VSeq [CI 1; CI 2]); SetItem 1 0 (VSeq [CI 1; CI 2])]) in
  rd (fst (step s (Update 0 0 1 (CI 9)))) 0 0 = Some [CI 1; CI 9] /\ rd (fst (step s (Update 0 0 1 (CI 9)))) 0 1 = rd s 0 1 /\
  rd (fst (step s (Update 1 0 1 (CI 9)))) 1 0 = Some [CI 1; CI 9] /\ rd (fst (step s (Update 1 0 1 (CI 9)))) 0 0 = rd s 0 0 /\
  rd (fst (step s (Update 0 1 0 (CI 9)))) 0 1 = rd s 0 1.     (* never-written sparse entry: the update is lost (known finding) *)
Proof. vm_compute. repeat split; reflexivity. Qed.

(* ------------------------------------------------------------------ the exported array holds what the reads return *)
(* "array export": for both storages as_array(len(container)) has one row per element and row k is what attr[k] reads -
   for the sparse storage provided its keys are element indices (see the finding sparse-accepts-out-of-container-index)
   and, at never-written entries, the default is one numpy stores unchanged (see string-longer-than-fixed-width) *)
Theorem export_is_reads : forall s a at_ rows, reachable s -> lookup a (attrs s) = Some at_ ->
  snd (step s (AsArray a)) = ORows rows ->
  match ast at_ with
  | Dense _ _ _ => True
  | Sparse m => forall j, In j (map fst m) -> 0 <= j < sn s
  end ->
  length rows = Z.to_nat (sn s) /\
  forall k, 0 <= k < sn s ->
            match ast at_ with
            | Dense _ _ _ => True
            | Sparse m => lookup k m <> None \/ unset_read (hp s) at_ = default_row (hp s) at_
            end ->
            rd s a k = Some (nth (Z.to_nat k) rows []).
Proof.
  intros s a at_ rows Hr La E HK. pose proof (reachable_inv s Hr) as Hi. pose proof Hi as [N0 [H1 _]].
  pose proof (H1 _ _ La) as Ok. unfold step in E. simpl in E. unfold do_as_array in E.
  change (attrs (tick s)) with (attrs s) in E. change (hp (tick s)) with (hp s) in E. change (sn (tick s)) with (sn s) in E.
  rewrite La in E. destruct (ast at_) as [m|ne st rws] eqn:St.
  - pose proof Ok as [_ [_ A3]]. rewrite St in A3. destruct A3 as [ND A3].
    destruct (fill_rows_spec (hp s) at_ (sn s) m (repeat (default_row (hp s) at_) (Z.to_nat (sn s))) ND HK (repeat_length _ _))
      as [out [F1 [F2 F3]]].
    rewrite F1 in E. simpl in E. inversion E; subst rows. split; [exact F2|].
    intros k Hk Hd. rewrite (F3 k Hk). unfold rd. rewrite La.
    destruct (lookup k m) as [sv|] eqn:L.
    + destruct (rd_sparse_set _ _ _ _ _ _ Ok St L) as [row [R1 [R2 R3]]]. rewrite R1. f_equal.
      specialize (A3 _ _ L). destruct sv as [c|id]; simpl in *.
      * inversion R2. destruct A3 as [A3 Fx]. rewrite A3. simpl. rewrite <- Fx at 1. now rewrite cast_store.
      * destruct A3 as [_ [cl [Hc [_ [Hk' Hf]]]]]. rewrite Hc in *. inversion R2. unfold fixed in Hf. rewrite Hk' in Hf.
        now apply fixed_cast_store.
    + rewrite (rd_sparse_unset _ _ _ _ _ Ok St L). rewrite nth_repeat_in by lia.
      destruct Hd as [Hd|Hd]; [congruence|]. now rewrite Hd.
  - simpl in E. inversion E; subst rows. pose proof Ok as [_ [_ B]]. rewrite St in B. destruct B as [B1 [B2 _]]. subst ne.
    split; [lia|]. intros k Hk _. unfold rd. rewrite La. erewrite rd_dense; eauto. reflexivity.
Qed.

Example ex_export_is_reads :
  let s := fst (run (init false) [Append; Append; Append; Create 0 TFloat 2 false (Some (CF 12));
                                  SetItem 0 1 (VSeq [CI 3; CB true])]) in
  snd (step s (AsArray 0)) = ORows [[CF 12; CF 12]; [CF 24; CF 8]; [CF 12; CF 12]] /\
  rd s 0 1 = Some [CF 24; CF 8] /\ rd s 0 2 = Some [CF 12; CF 12].
Proof. vm_compute. repeat split; reflexivity. Qed.
