(* C05 - boolean checkers evaluated by the correspondence batches: the model's observations against the
   implementation's, operation by operation. No proofs. *)
From Coq Require Import ZArith List Bool.
Import ListNotations.
Require Import MV.Lib.Base MV.C05.Types MV.C05.Gen MV.C05.Model.
Open Scope Z_scope.

Definition err_eqb (a b : err) : bool :=
  match a, b with
  | EOob, EOob | ESize, ESize | EType, EType | EEnum, EEnum | ENotIter, ENotIter | ENoAttr, ENoAttr
  | EDflt, EDflt | EBadAppend, EBadAppend | EIndex, EIndex | ENoRef, ENoRef
  | EUnpack, EUnpack | ENotSub, ENotSub | EBadRef, EBadRef | EAmbiguous, EAmbiguous | EShape, EShape
  | EOverflow, EOverflow => true
  | _, _ => false
  end.

Definition row_eqb := list_eqb comp_eqb.
Definition rows_eqb := list_eqb row_eqb.
Definition zz_eqb (a b : Z * Z) : bool := Z.eqb (fst a) (fst b) && Z.eqb (snd a) (snd b).
Definition orow_eqb (a b : option (list comp)) : bool :=
  match a, b with Some x, Some y => row_eqb x y | None, None => true | _, _ => false end.
Definition snap_eqb (a b : list (Z * list (option (list comp)))) : bool :=
  list_eqb (fun x y => Z.eqb (fst x) (fst y) && list_eqb orow_eqb (snd x) (snd y)) a b.

Definition obs_eqb (a b : obs) : bool :=
  match a, b with
  | OOk, OOk => true
  | OErr x, OErr y => err_eqb x y
  | OVal r1 v1, OVal r2 v2 => row_eqb r1 r2 && Bool.eqb v1 v2
  | ORows x, ORows y => rows_eqb x y
  | OKeys x, OKeys y => list_eqb Z.eqb x y
  | ONat x, ONat y => Z.eqb x y
  | OBool x, OBool y => Bool.eqb x y
  | OGrow n1 l1, OGrow n2 l2 => Z.eqb n1 n2 && list_eqb zz_eqb l1 l2
  | OGrowErr e1 n1 l1, OGrowErr e2 n2 l2 => err_eqb e1 e2 && Z.eqb n1 n2 && list_eqb zz_eqb l1 l2
  | OSnap x, OSnap y => snap_eqb x y
  | OShape s1 k1, OShape s2 k2 => list_eqb Z.eqb s1 s2 && ty_eqb k1 k2
  | _, _ => false
  end.

Fixpoint run_check (s : state) (h : list (op * obs)) : bool :=
  match h with
  | [] => true
  | (o, w) :: t => let '(s', w') := step s o in obs_eqb w' w && run_check s' t
  end.

Definition check_case (c : bool * list (op * obs)) : bool := run_check (init (fst c)) (snd c).
