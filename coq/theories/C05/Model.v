(* C05 - executable model of mouette/mesh/mesh_attributes.py (Attribute = sparse dict storage, ArrayAttribute = dense
   numpy storage) and of the attribute plumbing of mouette/mesh/data_container.py (DataContainer, CornerDataContainer).

   A history machine: the state is the container length, the attributes (type, arity, default, storage) and a heap of
   value cells.  Python objects that are handed out *by reference* live in the heap: the numpy vector stored under a
   key of a sparse vector attribute, the lazily created default vector of a vector attribute, the fresh vector a sparse
   read of an unset key returns.  The 2-d array of a dense attribute is kept inline together with a stamp that
   identifies the array object: a read of a dense vector entry returns a *view* (attribute, stamp, row); _expand and
   clear rebind _data to a new array, so older views go stale and updates through them are invisible.

   Every decision expression / table / amount comes from Gen.v (regenerated from the source on every run).
   Executable definitions only - no proofs here. *)
From Coq Require Import ZArith List Bool Lia.
Import ListNotations.
Require Import MV.Lib.Base MV.C05.Types MV.C05.Gen.
Open Scope Z_scope.

(* ------------------------------------------------------------------ numpy dtype conversion of one component *)
Definition b2z (b : bool) : Z := if b then 1 else 0.

Definition cast (t : ty) (c : comp) : comp :=
  match t, c with
  | TBool, CI z => CB (negb (z =? 0))
  | TBool, CF z => CB (negb (z =? 0))
  | TInt, CB b => CI (b2z b)
  | TInt, CF z => CI (Z.quot z 8)              (* truncation toward zero *)
  | TFloat, CB b => CF (8 * b2z b)
  | TFloat, CI z => CF (8 * z)
  | TComplex, CB b => CC (8 * b2z b) 0
  | TComplex, CI z => CC (8 * z) 0
  | TComplex, CF z => CC z 0
  | _, c => c
  end.

(* python int -> binary64: exact below 2^53, else round to nearest, ties to even *)
Definition round53 (z : Z) : Z :=
  let a := Z.abs z in
  if a <? 2 ^ 53 then z
  else
    let e := Z.log2 a - 52 in
    let q := a / 2 ^ e in
    let r := a mod 2 ^ e in
    let half := 2 ^ (e - 1) in
    let q' := if (half <? r) || ((r =? half) && Z.odd q) then q + 1 else q in
    Z.sgn z * (q' * 2 ^ e).

(* assignment into a numpy array of the attribute's dtype: numeric conversion (an int becomes the nearest double),
   strings cut to the fixed width *)
Definition trunc (l : list Z) : list Z := firstn (Z.to_nat string_width) l.
Definition store (t : ty) (c : comp) : comp :=
  match t, c with
  | TFloat, CI z => CF (8 * round53 z)
  | _, _ => match t, cast t c with
            | TString, CS l => CS (trunc l)
            | _, c' => c'
            end
  end.

(* the conversion raises OverflowError: an int outside int64 into an int array, an int beyond the doubles into a float array *)
Definition overflows (t : ty) (c : comp) : bool :=
  match t, c with
  | TInt, CI z => (z <? - 2 ^ 63) || (z >=? 2 ^ 63)
  | TFloat, CI z => 2 ^ 1024 <=? Z.abs (round53 z)
  | _, _ => false
  end.

Definition trank (t : ty) : Z :=
  match t with TBool => 0 | TInt => 1 | TFloat => 2 | TComplex => 3 | TString => 4 end.
Definition kmax (a b : ty) : ty := if trank a <? trank b then b else a.
(* dtype numpy gives to np.asarray(list of scalars) *)
Definition vec_kind (l : list comp) : ty :=
  fold_left (fun k c => match kind_of c with Some t => kmax k t | None => k end) l TBool.

(* ------------------------------------------------------------------ small containers *)
Fixpoint lookup {A} (k : Z) (l : list (Z * A)) : option A :=
  match l with
  | [] => None
  | (k', v) :: t => if k =? k' then Some v else lookup k t
  end.

(* python dict assignment: replace in place, else append (insertion order is kept) *)
Fixpoint upsert {A} (k : Z) (v : A) (l : list (Z * A)) : list (Z * A) :=
  match l with
  | [] => [(k, v)]
  | (k', v') :: t => if k =? k' then (k, v) :: t else (k', v') :: upsert k v t
  end.

(* attributes of a container, kept sorted by name (observations list them by name) *)
Fixpoint put {A} (k : Z) (v : A) (l : list (Z * A)) : list (Z * A) :=
  match l with
  | [] => [(k, v)]
  | (k', v') :: t => if k =? k' then (k, v) :: t else if k <? k' then (k, v) :: l else (k', v') :: put k v t
  end.

Fixpoint del {A} (k : Z) (l : list (Z * A)) : list (Z * A) :=
  match l with
  | [] => []
  | (k', v') :: t => if k =? k' then del k t else (k', v') :: del k t
  end.

Fixpoint upd {A} (l : list A) (i : nat) (v : A) : list A :=
  match l, i with
  | [], _ => []
  | _ :: t, O => v :: t
  | h :: t, S j => h :: upd t j v
  end.

(* ------------------------------------------------------------------ state *)
Record cell := mkcell { ck : ty; cv : list comp }.          (* a 1-d numpy array object *)
Definition heap := list cell.

Inductive sval := SScal (c : comp) | SVec (id : nat).        (* what a sparse dict holds under a key *)
Inductive dflt := DScal (c : comp) | DCell (id : nat).       (* self._default_value: a scalar, or the default vector object *)
Inductive storage :=
| Sparse (m : list (Z * sval))
| Dense (n_elem : Z) (stamp : Z) (rows : list (list comp)).

Record attr := mkattr { aty : ty; asz : Z; adef : dflt; ast : storage }.

(* a reference handed out by a read of a vector entry *)
Inductive ref :=
| RObj (id : nat)                      (* a 1-d array object in the heap *)
| RRow (a : Z) (stamp : Z) (k : Z)     (* view of row k of the array `stamp` of dense attribute a *)
| RArr (a : Z) (stamp : Z)             (* the whole array `stamp` of dense attribute a (dense as_array returns a view) *)
| RNone.                               (* a detached array nobody else holds (sparse as_array) *)

Record state := mkst {
  corner : bool;                (* CornerDataContainer rather than DataContainer *)
  sn : Z;                       (* len(container) *)
  attrs : list (Z * attr);
  hp : heap;
  refs : list ref;              (* every reference handed out so far, in order *)
  clock : Z                     (* stamps for dense arrays *)
}.

Definition init (c : bool) : state := mkst c 0 [] [] [] 0.

Inductive err := EOob | ESize | EType | EEnum | ENotIter | ENoAttr | EDflt | EBadAppend | EIndex | ENoRef
                 | EUnpack | ENotSub | EBadRef | EAmbiguous | EShape | EOverflow.

Inductive obs :=
| OOk | OErr (e : err)
| OVal (row : list comp) (isvec : bool)
| ORows (rows : list (list comp))
| OKeys (l : list Z)
| ONat (z : Z) | OBool (b : bool)
| OGrow (n : Z) (lens : list (Z * Z))
| OGrowErr (e : err) (n : Z) (lens : list (Z * Z))
| OSnap (s : list (Z * list (option (list comp))))
| OShape (shape : list Z) (kind : ty)        (* shape and dtype kind of an exported array *)
| OOther.

Inductive op :=
| Create (a : Z) (t : ty) (k : Z) (dense : bool) (d : option comp)
| Delete (a : Z) | Has (a : Z)
| SetItem (a : Z) (key : Z) (v : value)
| GetItem (a : Z) (key : Z)
| Mut (r : nat) (c : Z) (x : comp)          (* refs[r][c] = x *)
| Append | ExtendList (m : Z) | ExtendOther (m : Z) | ExtendSelf | ExtendBad
| ClearAttr (a : Z) | AsArray (a : Z) | Len (a : Z) | Iter (a : Z)
| ClearAll | CLen | Snap
| Update (a : Z) (key : Z) (c : Z) (x : comp)        (* attr[key][c] = x *)
| MutArr (r : nat) (row c : Z) (x : comp)            (* refs[r][row, c] = x  on an array handed out by as_array *)
| Contains (a : Z) (k : Z)                           (* k in attr *)
| ExtendListBad (m : Z)                              (* += [m well-formed items, then one a corner container cannot unpack] *)
| CreateSized (a : Z) (t : ty) (k : Z) (d : option comp) (size : Z)     (* create_attribute(dense=True, size=size) *)
| Register (a : Z) (t : ty) (k : Z) (rows : list (list comp)) (d : option comp)   (* register_array_as_attribute *)
| ExportShape (a : Z).                                (* as_array(..).shape and .dtype.kind *)

(* ------------------------------------------------------------------ defaults *)
Definition default_row (h : heap) (a : attr) : list comp :=
  match adef a with
  | DScal c => repeat (store (aty a) c) (Z.to_nat (asz a))
  | DCell id => match nth_error h id with Some c => map (store (aty a)) (cv c) | None => [] end
  end.

(* ------------------------------------------------------------------ validation of a value (both __setitem__) *)
Definition seq_of (v : value) : option (list comp) :=
  match v with
  | VScal _ => None                     (* list(scalar): TypeError, not iterable *)
  | VSeq l => Some l
  | VStr s => Some (map (fun ch => CS [ch]) s)
  end.

Fixpoint check_comps (cast_ok : ty -> ty -> bool) (ta : ty) (l : list comp) : option err :=
  match l with
  | [] => None
  | c :: t =>
      match kind_of c with
      | None => Some EEnum                                  (* Attribute.Type(type(x)): not a valid Type *)
      | Some tv => if cast_ok tv ta then check_comps cast_ok ta t else Some EType
      end
  end.

Definition validate (is_vec : Z -> bool) (size_bad : Z -> Z -> bool) (all : bool)
           (vcast scast : ty -> ty -> bool) (ta : ty) (e : Z) (v : value) : err + (bool * list comp) :=
  if is_vec e then
    match seq_of v with
    | None => inl ENotIter
    | Some l =>
        if size_bad (Z.of_nat (length l)) e then inl ESize
        else match check_comps vcast ta (if all then l else firstn 1 l) with
             | Some er => inl er
             | None => inr (true, l)
             end
    end
  else
    match v with
    | VSeq _ => inl EEnum                                    (* type(value) is list / tuple / ndarray *)
    | VScal c =>
        match kind_of c with
        | None => inl EEnum
        | Some tv => if scast tv ta then inr (false, [c]) else inl EType
        end
    | VStr s => if scast TString ta then inr (false, [CS s]) else inl EType
    end.

Definition sparse_validate := validate sparse_is_vec sparse_size_bad sparse_checks_all_components
                                       sparse_vec_cast_ok sparse_scal_cast_ok.
Definition dense_validate := validate dense_is_vec dense_size_bad dense_checks_all_components
                                      dense_vec_cast_ok dense_scal_cast_ok.

(* ------------------------------------------------------------------ reads *)
Definition row_of_sval (h : heap) (a : attr) (sv : sval) : option (list comp) :=
  match sv with
  | SScal c => Some [cast (aty a) c]
  | SVec id => match nth_error h id with Some c => Some (map (cast (aty a)) (cv c)) | None => None end
  end.

Definition znth_row (rows : list (list comp)) (k : Z) : list comp := nth (Z.to_nat k) rows [].

(* what attr[k] reads, canonically (cast to the attribute's type), without any effect; None = the read raises *)
Definition rd_attr (h : heap) (a : attr) (k : Z) : option (list comp) :=
  match ast a with
  | Sparse m =>
      match lookup k m with
      | Some sv => row_of_sval h a sv
      | None =>
          if sparse_get_fresh (asz a) then Some (default_row h a)
          else match adef a with
               | DScal c => if asz a >? 1 then None else Some [cast (aty a) c]
               | DCell _ => Some (default_row h a)
               end
      end
  | Dense ne _ rows =>
      if dense_oob k ne then None
      else if dense_get_scalar (asz a) then Some (firstn 1 (znth_row rows k)) else Some (znth_row rows k)
  end.

Definition rd (s : state) (a k : Z) : option (list comp) :=
  match lookup a (attrs s) with
  | Some at_ => rd_attr (hp s) at_ k
  | None => None
  end.

Definition snapshot (s : state) : list (Z * list (option (list comp))) :=
  map (fun p => (fst p, map (rd_attr (hp s) (snd p)) (zrange (sn s)))) (attrs s).

Definition len_attr (a : attr) : Z :=
  match ast a with
  | Sparse m => Z.of_nat (length m)
  | Dense ne _ _ => dense_len ne
  end.

Definition lens (l : list (Z * attr)) : list (Z * Z) := map (fun p => (fst p, len_attr (snd p))) l.

(* ------------------------------------------------------------------ operations *)
Definition tick (s : state) : state := mkst (corner s) (sn s) (attrs s) (hp s) (refs s) (clock s + 1).
Definition with_attrs (s : state) (l : list (Z * attr)) : state := mkst (corner s) (sn s) l (hp s) (refs s) (clock s).
Definition with_heap (s : state) (h : heap) : state := mkst (corner s) (sn s) (attrs s) h (refs s) (clock s).
Definition with_refs (s : state) (r : list ref) : state := mkst (corner s) (sn s) (attrs s) (hp s) r (clock s).
Definition with_n (s : state) (n : Z) : state := mkst (corner s) n (attrs s) (hp s) (refs s) (clock s).

(* Attribute.__init__ / ArrayAttribute.__init__: the default (checked for its type; the implicit default of a
   vector attribute is the object Vec([d]*k), allocated here rather than lazily: the difference is not observable) *)
Definition mk_default (h : heap) (t : ty) (k : Z) (d : option comp) : err + (heap * dflt) :=
  match d with
  | Some c =>
      match kind_of c with
      | None => inl EEnum
      | Some td => if default_type_bad td t then inl EDflt else inr (h, DScal c)
      end
  | None =>
      if default_is_scalar k then inr (h, DScal (type_default t))
      else inr (h ++ [mkcell t (repeat (type_default t) (Z.to_nat k))], DCell (length h))
  end.

Definition new_storage_n (h : heap) (t : ty) (k : Z) (df : dflt) (ne0 clk : Z) : storage :=
  Dense (dense_init_n_elem ne0) clk
        (repeat (default_row h (mkattr t k df (Sparse []))) (Z.to_nat (dense_init_rows ne0))).

Definition new_storage (h : heap) (t : ty) (k : Z) (df : dflt) (dense : bool) (n clk : Z) : storage :=
  if dense then
    let ne0 := create_dense_n_elem n in
    Dense (dense_init_n_elem ne0) clk
          (repeat (default_row h (mkattr t k df (Sparse []))) (Z.to_nat (dense_init_rows ne0)))
  else Sparse [].

Definition do_create (s : state) (a : Z) (t : ty) (k : Z) (dense : bool) (d : option comp) : state * obs :=
  if (match lookup a (attrs s) with Some _ => create_keeps_existing | None => false end) then (s, OOk)
  else
    match mk_default (hp s) t k d with
    | inl e => (s, OErr e)
    | inr (h', df) =>
        (with_attrs (with_heap s h')
                    (put a (mkattr t k df (new_storage h' t k df dense (sn s) (clock s))) (attrs s)), OOk)
    end.

Definition set_storage (a : attr) (st : storage) : attr := mkattr (aty a) (asz a) (adef a) st.

(* attr[key] = value *)
Definition do_set (s : state) (a key : Z) (v : value) : state * obs :=
  match lookup a (attrs s) with
  | None => (s, OErr ENoAttr)
  | Some at_ =>
      match ast at_ with
      | Sparse m =>
          match sparse_validate (aty at_) (asz at_) v with
          | inl e => (s, OErr e)
          | inr (true, l) =>
              (* self._data[key] = Vec(np.array(data, dtype)): a new array object *)
              let kd := if sparse_vec_uses_attr_dtype then aty at_ else vec_kind l in
              if existsb (overflows kd) l then (s, OErr EOverflow)
              else
                let id := length (hp s) in
                (with_attrs (with_heap s (hp s ++ [mkcell kd (map (store kd) l)]))
                            (put a (set_storage at_ (Sparse (upsert key (SVec id) m))) (attrs s)), OOk)
          | inr (false, l) =>
              if sparse_scal_converted then
                (* np.array(value, dtype).item(): the value in the attribute's type *)
                if existsb (overflows (aty at_)) l then (s, OErr EOverflow)
                else (with_attrs s (put a (set_storage at_ (Sparse (upsert key (SScal (store (aty at_) (hd CX l))) m))) (attrs s)), OOk)
              else
                (with_attrs s (put a (set_storage at_ (Sparse (upsert key (SScal (hd CX l)) m))) (attrs s)), OOk)
          end
      | Dense ne stamp rows =>
          if dense_oob key ne then (s, OErr EOob)
          else
            match dense_validate (aty at_) (asz at_) v with
            | inl e => (s, OErr e)
            | inr (isv, l) =>
                if existsb (overflows (aty at_)) l then (s, OErr EOverflow)
                else
                  let row := if isv then map (store (aty at_)) l
                             else repeat (store (aty at_) (hd CX l)) (Z.to_nat (asz at_)) in
                  (with_attrs s (put a (set_storage at_ (Dense ne stamp (upd rows (Z.to_nat key) row))) (attrs s)), OOk)
            end
      end
  end.

(* attr[key] *)
Definition do_get (s : state) (a key : Z) : state * obs :=
  match lookup a (attrs s) with
  | None => (s, OErr ENoAttr)
  | Some at_ =>
      match ast at_ with
      | Sparse m =>
          match lookup key m with
          | Some (SScal c) => (s, OVal [cast (aty at_) c] false)
          | Some (SVec id) =>
              match nth_error (hp s) id with
              | Some c => (with_refs s (refs s ++ [RObj id]), OVal (map (cast (aty at_)) (cv c)) true)
              | None => (s, OOther)
              end
          | None =>
              if sparse_get_fresh (asz at_) then
                (* Vec(np.full(elemsize, default, dtype)): a fresh array nobody else holds *)
                let row := default_row (hp s) at_ in
                let id := length (hp s) in
                (with_refs (with_heap s (hp s ++ [mkcell (aty at_) row])) (refs s ++ [RObj id]), OVal row true)
              else
                match adef at_ with
                | DScal c => (s, OVal [cast (aty at_) c] false)
                | DCell id => (with_refs s (refs s ++ [RObj id]), OVal (default_row (hp s) at_) true)   (* the shared default object *)
                end
          end
      | Dense ne stamp rows =>
          if dense_oob key ne then (s, OErr EOob)
          else if dense_get_scalar (asz at_) then (s, OVal (firstn 1 (znth_row rows key)) false)
          else (with_refs s (refs s ++ [RRow a stamp key]), OVal (znth_row rows key) true)
      end
  end.

(* refs[r][c] = x *)
Definition mut_ref (s : state) (r : ref) (c : Z) (x : comp) : state :=
  match r with
  | RObj id =>
      match nth_error (hp s) id with
      | Some cl => with_heap s (upd (hp s) id (mkcell (ck cl) (upd (cv cl) (Z.to_nat c) (store (ck cl) x))))
      | None => s
      end
  | RRow a stamp k =>
      match lookup a (attrs s) with
      | Some at_ =>
          match ast at_ with
          | Dense ne st rows =>
              if st =? stamp then
                let row := upd (znth_row rows k) (Z.to_nat c) (store (aty at_) x) in
                with_attrs s (put a (set_storage at_ (Dense ne st (upd rows (Z.to_nat k) row))) (attrs s))
              else s                                    (* a view of an array the attribute no longer uses *)
          | Sparse _ => s
          end
      | None => s
      end
  | RArr _ _ | RNone => s
  end.

Definition do_mut (s : state) (r : nat) (c : Z) (x : comp) : state * obs :=
  match nth_error (refs s) r with
  | None => (s, OErr ENoRef)
  | Some (RArr _ _) | Some RNone => (s, OErr EBadRef)
  | Some rf => let s' := mut_ref s rf c x in (s', OSnap (snapshot s'))
  end.

(* refs[r][row, c] = x on an exported array: a dense export is a view of the attribute's array *)
Definition do_mut_arr (s : state) (r : nat) (row c : Z) (x : comp) : state * obs :=
  match nth_error (refs s) r with
  | None => (s, OErr ENoRef)
  | Some (RArr a stamp) => if row <? 0 then (s, OErr EIndex)
                           else let s' := mut_ref s (RRow a stamp row) c x in (s', OSnap (snapshot s'))
  | Some RNone => (s, OSnap (snapshot s))
  | Some _ => (s, OErr EBadRef)
  end.

(* attr._expand(amount) *)
Definition expand_attr (h : heap) (clk amount : Z) (a : attr) : attr :=
  match ast a with
  | Sparse _ => a
  | Dense ne _ rows =>
      set_storage a (Dense (dense_expand_n_elem ne amount) clk
                           (rows ++ repeat (default_row h a) (Z.to_nat (dense_expand_rows ne amount))))
  end.

Definition grow (s : state) (added amount : Z) : state * obs :=
  let l := map (fun p => (fst p, expand_attr (hp s) (clock s) amount (snd p))) (attrs s) in
  let s' := with_attrs (with_n s (sn s + added)) l in
  (s', OGrow (sn s') (lens l)).

Definition append_amount (s : state) : Z := if corner s then cdc_append_amount else dc_append_amount.
Definition iadd_list_amount (s : state) (m : Z) : Z := if corner s then cdc_iadd_list_amount m else dc_iadd_list_amount m.
Definition iadd_cont_amount (s : state) (before after : Z) : Z :=
  if corner s then cdc_iadd_cont_amount before after else dc_iadd_cont_amount before after.

Definition do_clear_attr (s : state) (a : Z) : state * obs :=
  match lookup a (attrs s) with
  | None => (s, OErr ENoAttr)
  | Some at_ =>
      match ast at_ with
      | Sparse _ => (with_attrs s (put a (set_storage at_ (Sparse [])) (attrs s)), OOk)
      | Dense ne _ _ =>
          (with_attrs s (put a (set_storage at_ (Dense ne (clock s) (repeat (default_row (hp s) at_) (Z.to_nat (dense_clear_rows ne)))))
                              (attrs s)), OOk)
      end
  end.

(* Attribute.as_array(container_size): np.full then out[i,:] = x in dict order (negative keys wrap, others raise) *)
Fixpoint fill_rows (h : heap) (a : attr) (n : Z) (m : list (Z * sval)) (out : list (list comp)) : option (list (list comp)) :=
  match m with
  | [] => Some out
  | (i, sv) :: t =>
      let j := if i <? 0 then i + n else i in
      if (j <? 0) || (j >=? n) then None
      else
        let row := match sv with
                   | SScal c => repeat (store (aty a) c) (Z.to_nat (asz a))
                   | SVec id => match nth_error h id with Some c => map (store (aty a)) (cv c) | None => [] end
                   end in
        fill_rows h a n t (upd out (Z.to_nat j) row)
  end.

Definition do_as_array (s : state) (a : Z) : state * obs :=
  match lookup a (attrs s) with
  | None => (s, OErr ENoAttr)
  | Some at_ =>
      match ast at_ with
      | Sparse m =>
          match fill_rows (hp s) at_ (sn s) m (repeat (default_row (hp s) at_) (Z.to_nat (sn s))) with
          | Some rows => (with_refs s (refs s ++ [RNone]), ORows rows)
          | None => (s, OErr EIndex)
          end
      | Dense _ stamp rows => (with_refs s (refs s ++ [RArr a stamp]), ORows rows)
      end
  end.

(* attr[key][c] = x : the read, then the update of what the read handed out *)
Definition do_update (s : state) (a key c : Z) (x : comp) : state * obs :=
  match do_get s a key with
  | (s1, OVal row true) =>
      if (c <? 0) || (c >=? Z.of_nat (length row)) then (s1, OErr EIndex)
      else if match lookup a (attrs s) with Some at_ => overflows (aty at_) x | None => false end then (s1, OErr EOverflow)
      else match nth_error (refs s1) (length (refs s)) with
           | Some rf => (mut_ref s1 rf c x, OOk)
           | None => (s1, OOther)
           end
  | (s1, OVal _ false) => (s1, OErr ENotSub)            (* a scalar does not support item assignment *)
  | (s1, OErr e) => (s1, OErr e)
  | (s1, _) => (s1, OOther)
  end.

(* k in attr : no __contains__, python iterates - keys for the sparse storage, rows for the dense one *)
Definition num_eq (k : Z) (c : comp) : bool :=
  match c with
  | CB b => b2z b =? k | CI z => z =? k | CF z => z =? 8 * k | CC re im => (re =? 8 * k) && (im =? 0)
  | _ => false
  end.

Definition do_contains (s : state) (a k : Z) : state * obs :=
  match lookup a (attrs s) with
  | None => (s, OErr ENoAttr)
  | Some at_ =>
      match ast at_ with
      | Sparse m => (s, OBool (match lookup k m with Some _ => true | None => false end))
      | Dense _ _ rows =>
          match rows with
          | [] => (s, OBool false)
          | _ => if asz at_ =? 1 then (s, OBool (existsb (fun r => num_eq k (hd CX r)) rows))
                 else (s, OErr EAmbiguous)
          end
      end
  end.

Definition do_create_sized (s : state) (a : Z) (t : ty) (k : Z) (d : option comp) (size : Z) : state * obs :=
  if (match lookup a (attrs s) with Some _ => create_keeps_existing | None => false end) then (s, OOk)
  else
    match mk_default (hp s) t k d with
    | inl e => (s, OErr e)
    | inr (h', df) =>
        (with_attrs (with_heap s h')
                    (put a (mkattr t k df (new_storage_n h' t k df (create_dense_n_elem_sized (sn s) size) (clock s))) (attrs s)), OOk)
    end.

(* register_array_as_attribute(name, data): the attribute adopts the caller's array (dtype and all) *)
Definition do_register (s : state) (a : Z) (t : ty) (k : Z) (rows : list (list comp)) (d : option comp) : state * obs :=
  if (match lookup a (attrs s) with Some _ => register_keeps_existing | None => false end) then (s, OOk)
  else if negb (Z.of_nat (length rows) =? sn s) then (s, OErr EShape)
  else if sn s =? 0 then (s, OErr EIndex)                   (* type(data[0,0].item()) on an empty array *)
  else
    match mk_default (hp s) t k d with
    | inl e => (s, OErr e)
    | inr (h', df) =>
        (with_attrs (with_heap s h') (put a (mkattr t k df (Dense (sn s) (clock s) rows)) (attrs s)), OOk)
    end.

(* the shape (and dtype) of what as_array returns; the state is untouched *)
Definition do_export_shape (s : state) (a : Z) : state * obs :=
  match lookup a (attrs s) with
  | None => (s, OErr ENoAttr)
  | Some at_ =>
      match ast at_ with
      | Sparse m =>
          match fill_rows (hp s) at_ (sn s) m (repeat (default_row (hp s) at_) (Z.to_nat (sn s))) with
          | Some _ => (s, OShape (sparse_export_shape (sn s) (asz at_)) (aty at_))
          | None => (s, OErr EIndex)
          end
      | Dense _ _ rows => (s, OShape (dense_export_shape (Z.of_nat (length rows)) (asz at_)) (aty at_))
      end
  end.

Definition step (s0 : state) (o : op) : state * obs :=
  let s := tick s0 in
  match o with
  | Create a t k dense d => do_create s a t k dense d
  | Delete a => (with_attrs s (del a (attrs s)), OOk)
  | Has a => (s, OBool (match lookup a (attrs s) with Some _ => true | None => false end))
  | SetItem a key v => do_set s a key v
  | GetItem a key => do_get s a key
  | Mut r c x => do_mut s r c x
  | Append => grow s 1 (append_amount s)
  | ExtendList m => grow s m (iadd_list_amount s m)
  | ExtendOther m => grow s m (iadd_cont_amount s m m)
  | ExtendSelf => grow s (sn s) (iadd_cont_amount s (sn s) (sn s + sn s))
  | ExtendBad => (s, OGrowErr EBadAppend (sn s) (lens (attrs s)))
  | ClearAttr a => do_clear_attr s a
  | AsArray a => do_as_array s a
  | Len a => match lookup a (attrs s) with Some at_ => (s, ONat (len_attr at_)) | None => (s, OErr ENoAttr) end
  | Iter a =>
      match lookup a (attrs s) with
      | Some at_ =>
          match ast at_ with
          | Sparse m => (s, OKeys (map fst m))
          | Dense _ _ rows => (s, ORows rows)
          end
      | None => (s, OErr ENoAttr)
      end
  | ClearAll => (with_attrs (with_n s 0) [], OGrow 0 [])
  | CLen => (s, ONat (sn s))
  | Snap => (s, OSnap (snapshot s))
  | Update a key c x => do_update s a key c x
  | MutArr r row c x => do_mut_arr s r row c x
  | Contains a k => do_contains s a k
  | ExtendListBad m =>
      if corner s then
        if cdc_iadd_list_atomic then (s, OGrowErr EUnpack (sn s) (lens (attrs s)))
        else let s' := with_n s (sn s + m) in (s', OGrowErr EUnpack (sn s') (lens (attrs s')))
      else grow s (m + 1) (iadd_list_amount s (m + 1))          (* any object is an element of a DataContainer *)
  | CreateSized a t k d size => do_create_sized s a t k d size
  | Register a t k rows d => do_register s a t k rows d
  | ExportShape a => do_export_shape s a
  end.

Fixpoint run (s : state) (h : list op) : state * list obs :=
  match h with
  | [] => (s, [])
  | o :: t => let '(s1, w) := step s o in let '(s2, ws) := run s1 t in (s2, w :: ws)
  end.
