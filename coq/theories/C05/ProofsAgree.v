(* C05 - sparse and dense storage agree: the same history, run once with every attribute created sparse and once
   with every attribute created dense, yields the same observations (lock-step simulation). *)
From Coq Require Import ZArith List Bool Lia.
Import ListNotations.
Require Import MV.Lib.Base MV.C05.Types MV.C05.Gen MV.C05.Model MV.C05.ProofsBase MV.C05.Proofs MV.C05.ProofsInv
        MV.C05.ProofsMap.
Open Scope Z_scope.

(* the same operation with the storage mode of a creation forced *)
Definition force (dense : bool) (o : op) : op :=
  match o with Create a t k _ d => Create a t k dense d | _ => o end.

(* operations whose observations the two storages are meant to share: everything but the in-place update through a
   reference (the dense view writes through, the sparse default copy does not - the property only says it harms no
   other entry), len / iteration (sparse: explicitly written keys, by design) and the harness's own Snap *)
Definition shared_op (o : op) : Prop :=
  match o with Mut _ _ _ | Len _ | Iter _ | Snap => False | _ => True end.

(* container length after an operation: a function of the history alone *)
Definition size_after (n : Z) (o : op) : Z :=
  match o with
  | Append => n + 1 | ExtendList m | ExtendOther m => n + m | ExtendSelf => n + n | ClearAll => 0 | _ => n
  end.

(* reads and writes address elements of the container *)
Fixpoint well_addressed (n : Z) (h : list op) : Prop :=
  match h with
  | [] => True
  | o :: t => match o with SetItem _ k _ | GetItem _ k => 0 <= k < n | _ => True end /\ well_addressed (size_after n o) t
  end.

(* lengths of the individual attributes are storage specific: erased from growth observations *)
Definition pub (w : obs) : obs :=
  match w with OGrow n _ => OGrow n [] | OGrowErr e n _ => OGrowErr e n [] | x => x end.

Lemma reads_pres n h h' a :
  attr_ok n h a -> hpres h h' -> default_row h' a = default_row h a /\ forall j, rd_attr h' a j = rd_attr h a j.
Proof.
  intros [A1 [A2 A3]] HP.
  assert (D : default_row h' a = default_row h a).
  { unfold default_row. destruct (adef a) as [c|id]; [reflexivity|]. destruct A2 as [_ [c [Hc _]]].
    rewrite HP; [reflexivity|]. apply nth_error_Some. congruence. }
  split; [exact D|]. intros j. unfold rd_attr.
  destruct (ast a) as [m|ne st rows]; [|reflexivity]. destruct A3 as [_ A3].
  destruct (lookup j m) as [sv|] eqn:L.
  - specialize (A3 _ _ L). destruct sv as [c|id]; [reflexivity|]. simpl.
    destruct A3 as [_ [c [Hc _]]]. rewrite HP; [reflexivity|]. apply nth_error_Some. congruence.
  - rewrite D. reflexivity.
Qed.

(* ------------------------------------------------------------------ the simulation relation *)
Definition arel (s d : state) (a : Z) : Prop :=
  match lookup a (attrs s), lookup a (attrs d) with
  | None, None => True
  | Some x, Some y =>
      aty x = aty y /\ asz x = asz y /\
      (exists m, ast x = Sparse m /\ forall k, In k (map fst m) -> 0 <= k < sn s) /\
      (exists ne st rows, ast y = Dense ne st rows) /\
      default_row (hp s) x = default_row (hp d) y /\
      forall k, 0 <= k < sn s -> rd_attr (hp s) x k = rd_attr (hp d) y k
  | _, _ => False
  end.

Definition R (s d : state) : Prop :=
  corner s = corner d /\ sn s = sn d /\ inv s /\ inv d /\ forall a, arel s d a.

Lemma arel_frame s d s' d' b :
  inv s -> inv d -> arel s d b ->
  lookup b (attrs s') = lookup b (attrs s) -> lookup b (attrs d') = lookup b (attrs d) ->
  hpres (hp s) (hp s') -> hpres (hp d) (hp d') -> sn s' = sn s ->
  arel s' d' b.
Proof.
  intros [_ [I1 _]] [_ [J1 _]] H Ls Ld Hs Hd N. unfold arel in *. rewrite Ls, Ld, N.
  destruct (lookup b (attrs s)) as [x|] eqn:Lx; destruct (lookup b (attrs d)) as [y|] eqn:Ly; try exact H.
  destruct H as [T [Z0 [K [DN [DF RD]]]]].
  destruct (reads_pres _ _ _ _ (I1 _ _ Lx) Hs) as [D1 R1].
  destruct (reads_pres _ _ _ _ (J1 _ _ Ly) Hd) as [D2 R2].
  repeat split; auto.
  - congruence.
  - intros k Hk. rewrite R1, R2. now apply RD.
Qed.

Lemma default_row_set_storage h x st : default_row h (set_storage x st) = default_row h x.
Proof. reflexivity. Qed.

Lemma default_row_fresh h t k v st :
  default_row (h ++ [mkcell t v]) (mkattr t k (DCell (length h)) st) = map (cast t) v.
Proof. unfold default_row. simpl. rewrite nth_error_app_new. reflexivity. Qed.

Lemma map_repeat {A B} (f : A -> B) x n : map f (repeat x n) = repeat (f x) n.
Proof. induction n; simpl; congruence. Qed.

Lemma R_tick s d : R s d -> R (tick s) (tick d).
Proof. intros H. exact H. Qed.

Lemma in_range_not_oob k n : 0 <= k < n -> dense_oob k n = false.
Proof. intros K. destruct (dense_oob k n) eqn:O; [|reflexivity]. apply dense_bounds in O. lia. Qed.

(* ------------------------------------------------------------------ create *)
Lemma sim_create s d a t k df :
  R s d -> 1 <= k ->
  snd (do_create s a t k false df) = snd (do_create d a t k true df) /\
  R (fst (do_create s a t k false df)) (fst (do_create d a t k true df)).
Proof.
  intros HR Hk. pose proof HR as [C [N [Is [Id HA]]]].
  pose proof (inv_create s a t k false df Is Hk) as Is'.
  pose proof (inv_create d a t k true df Id Hk) as Id'.
  revert Is' Id'. unfold do_create.
  assert (P : (match lookup a (attrs s) with Some _ => create_keeps_existing | None => false end)
              = (match lookup a (attrs d) with Some _ => create_keeps_existing | None => false end)).
  { specialize (HA a). unfold arel in HA.
    destruct (lookup a (attrs s)), (lookup a (attrs d)); try reflexivity; contradiction. }
  rewrite <- P. destruct (match lookup a (attrs s) with Some _ => create_keeps_existing | None => false end).
  { intros _ _. simpl. split; [reflexivity|exact HR]. }
  assert (V : (exists e, mk_default (hp s) t k df = inl e /\ mk_default (hp d) t k df = inl e) \/
              (exists c, mk_default (hp s) t k df = inr (hp s, DScal c) /\ mk_default (hp d) t k df = inr (hp d, DScal c)) \/
              (k <> 1 /\ mk_default (hp s) t k df = inr (hp s ++ [mkcell t (repeat (type_default t) (Z.to_nat k))], DCell (length (hp s))) /\
               mk_default (hp d) t k df = inr (hp d ++ [mkcell t (repeat (type_default t) (Z.to_nat k))], DCell (length (hp d))))).
  { unfold mk_default. destruct df as [c|].
    - destruct (kind_of c) as [td|]; [|left; eauto]. destruct (default_type_bad td t); [left; eauto|right; left; eauto].
    - destruct (k =? 1) eqn:K1; [right; left; eauto|right; right]. split; [lia|auto]. }
  destruct V as [[e [V1 V2]]|[[c [V1 V2]]|[K1 [V1 V2]]]]; rewrite V1, V2; simpl.
  - intros _ _. split; [reflexivity|exact HR].
  - intros Is' Id'. split; [reflexivity|]. split; [exact C|]. split; [exact N|]. split; [exact Is'|]. split; [exact Id'|].
    intros b. destruct (Z.eq_dec b a) as [E|NE].
    + subst b. unfold arel. simpl. rewrite !lookup_put_same. simpl.
      destruct Is' as [_ [I1 _]]. destruct Id' as [_ [J1 _]].
      pose proof (I1 a _ (lookup_put_same _ _ _)) as Okx. pose proof (J1 a _ (lookup_put_same _ _ _)) as Oky.
      simpl in Okx, Oky.
      repeat split; auto.
      * exists []. split; [reflexivity|]. intros ? [].
      * unfold new_storage. eauto.
      * intros j Hj. erewrite rd_sparse_unset; [|exact Okx|reflexivity|reflexivity].
        erewrite rd_dense; [|exact Oky|reflexivity|lia].
        unfold znth_row, dense_init_rows, create_dense_n_elem. rewrite nth_repeat_in by lia. reflexivity.
    + apply (arel_frame s d _ _ b Is Id (HA b)); simpl; auto; try apply hpres_refl.
      * now rewrite lookup_put_other.
      * now rewrite lookup_put_other.
  - intros Is' Id'. split; [reflexivity|]. split; [exact C|]. split; [exact N|]. split; [exact Is'|]. split; [exact Id'|].
    intros b. destruct (Z.eq_dec b a) as [E|NE].
    + subst b. unfold arel. simpl. rewrite !lookup_put_same. simpl.
      destruct Is' as [_ [I1 _]]. destruct Id' as [_ [J1 _]].
      pose proof (I1 a _ (lookup_put_same _ _ _)) as Okx. pose proof (J1 a _ (lookup_put_same _ _ _)) as Oky.
      simpl in Okx, Oky.
      repeat split; auto.
      * exists []. split; [reflexivity|]. intros ? [].
      * unfold new_storage. eauto.
      * rewrite !default_row_fresh. reflexivity.
      * intros j Hj. erewrite rd_sparse_unset; [|exact Okx|reflexivity|reflexivity].
        erewrite rd_dense; [|exact Oky|reflexivity|lia].
        unfold znth_row, dense_init_rows, create_dense_n_elem. rewrite nth_repeat_in by lia.
        rewrite !default_row_fresh. reflexivity.
    + apply (arel_frame s d _ _ b Is Id (HA b)); simpl; auto; try apply hpres_app.
      * now rewrite lookup_put_other.
      * now rewrite lookup_put_other.
Qed.

(* ------------------------------------------------------------------ set *)
Lemma sim_set s d a k v :
  R s d -> 0 <= k < sn s ->
  snd (step s (SetItem a k v)) = snd (step d (SetItem a k v)) /\
  R (fst (step s (SetItem a k v))) (fst (step d (SetItem a k v))).
Proof.
  intros HR Hk. pose proof HR as [C [N [Is [Id HA]]]].
  pose proof (inv_step s (SetItem a k v) Is I) as Is'.
  pose proof (inv_step d (SetItem a k v) Id I) as Id'.
  destruct (step s (SetItem a k v)) as [s' ws] eqn:Es. destruct (step d (SetItem a k v)) as [d' wd] eqn:Ed.
  simpl in *. pose proof Es as Es0. pose proof Ed as Ed0.
  unfold step in Es, Ed. simpl in Es, Ed. unfold do_set in Es, Ed.
  change (attrs (tick s)) with (attrs s) in Es. change (attrs (tick d)) with (attrs d) in Ed.
  pose proof (HA a) as Ha. unfold arel in Ha.
  destruct (lookup a (attrs s)) as [x|] eqn:Lx; destruct (lookup a (attrs d)) as [y|] eqn:Ly; try contradiction.
  2:{ inversion Es; inversion Ed; subst. split; [reflexivity|]. exact HR. }
  destruct Ha as [T [Z0 [[m [Sx Kx]] [[ne [st [rows Sy]]] [DF RD]]]]].
  pose proof Id as [_ [J1 _]]. pose proof (J1 _ _ Ly) as Oky. pose proof Oky as [_ [_ B]]. rewrite Sy in B.
  destruct B as [B1 _]. subst ne.
  rewrite Sx in Es. rewrite Sy in Ed. rewrite in_range_not_oob in Ed by lia.
  rewrite <- validate_same, <- T, <- Z0 in Ed.
  destruct (sparse_validate (aty x) (asz x) v) as [e|[isv l]] eqn:V.
  { inversion Es; inversion Ed; subst. split; [reflexivity|]. exact HR. }
  assert (Ws : ws = OOk) by (destruct isv; inversion Es; reflexivity).
  assert (Wd : wd = OOk) by (inversion Ed; reflexivity).
  subst ws wd. split; [reflexivity|].
  destruct (set_laws _ _ _ _ _ Is Es0) as [x0 [isv0 [l0 [Lx0 [V0 [Rk [Fr Sn]]]]]]].
  destruct (set_laws _ _ _ _ _ Id Ed0) as [y0 [isv1 [l1 [Ly0 [V1 [Rk1 [Fr1 Sn1]]]]]]].
  rewrite Lx in Lx0. inversion Lx0; subst x0. rewrite Ly in Ly0. inversion Ly0; subst y0.
  rewrite V in V0. inversion V0; subst isv0 l0. rewrite <- T, <- Z0, V in V1. inversion V1; subst isv1 l1.
  clear Lx0 Ly0 V0 V1.
  assert (Cs : corner s' = corner s) by (destruct isv; inversion Es; reflexivity).
  assert (Cd : corner d' = corner d) by (inversion Ed; reflexivity).
  split; [congruence|]. split; [congruence|]. split; [exact Is'|]. split; [exact Id'|].
  assert (Hs : hpres (hp s) (hp s')) by (destruct isv; inversion Es; simpl; [apply hpres_app|apply hpres_refl]).
  assert (Hd : hpres (hp d) (hp d')) by (inversion Ed; simpl; apply hpres_refl).
  intros b. destruct (Z.eq_dec b a) as [E|NE].
  - subst b. unfold arel.
    assert (exists x', lookup a (attrs s') = Some x' /\ aty x' = aty x /\ asz x' = asz x /\ adef x' = adef x /\
                       exists m', ast x' = Sparse m' /\ forall j, In j (map fst m') -> j = k \/ In j (map fst m)) as [x' [Lx' [T1 [Z1 [D1 [m' [Sx' Kx']]]]]]].
    { destruct isv; inversion Es; subst s'; simpl; rewrite lookup_put_same; eexists; (split; [reflexivity|]); simpl;
        repeat split; auto; eexists; (split; [reflexivity|]); intros j; apply upsert_keys_incl. }
    assert (exists y', lookup a (attrs d') = Some y' /\ aty y' = aty y /\ asz y' = asz y /\ adef y' = adef y /\
                       exists ne' st' rows', ast y' = Dense ne' st' rows') as [y' [Ly' [T2 [Z2 [D2 Sy']]]]].
    { inversion Ed; subst d'; simpl; rewrite lookup_put_same; eexists; (split; [reflexivity|]); simpl; repeat split; eauto. }
    rewrite Lx', Ly'. split; [congruence|]. split; [congruence|]. split.
    { exists m'. split; [exact Sx'|]. intros j Hj. rewrite Sn. destruct (Kx' _ Hj); [lia|auto]. }
    split; [exact Sy'|]. split.
    { pose proof Is as [_ [I1 _]]. destruct (reads_pres _ _ _ _ (I1 _ _ Lx) Hs) as [P1 _].
      destruct (reads_pres _ _ _ _ Oky Hd) as [P2 _].
      transitivity (default_row (hp s') x); [unfold default_row; now rewrite T1, Z1, D1|].
      transitivity (default_row (hp d') y); [congruence|]. unfold default_row. now rewrite T2, Z2, D2. }
    intros j Hj. rewrite Sn in Hj.
    assert (Q1 : rd s' a j = rd_attr (hp s') x' j) by (unfold rd; now rewrite Lx').
    assert (Q2 : rd d' a j = rd_attr (hp d') y' j) by (unfold rd; now rewrite Ly').
    rewrite <- Q1, <- Q2. destruct (Z.eq_dec j k) as [Ej|Nj].
    + subst j. rewrite Rk, Rk1. congruence.
    + rewrite Fr, Fr1 by congruence. unfold rd. rewrite Lx, Ly. now apply RD.
  - apply (arel_frame s d s' d' b Is Id (HA b)); auto.
    + destruct isv; inversion Es; subst s'; simpl; now rewrite lookup_put_other.
    + inversion Ed; subst d'; simpl; now rewrite lookup_put_other.
Qed.

(* ------------------------------------------------------------------ get *)
Lemma sim_get s d a k :
  R s d -> 0 <= k < sn s ->
  snd (step s (GetItem a k)) = snd (step d (GetItem a k)) /\
  R (fst (step s (GetItem a k))) (fst (step d (GetItem a k))).
Proof.
  intros HR Hk. pose proof HR as [C [N [Is [Id HA]]]].
  pose proof (inv_step s (GetItem a k) Is I) as Is'.
  pose proof (inv_step d (GetItem a k) Id I) as Id'.
  destruct (step s (GetItem a k)) as [s' ws] eqn:Es. destruct (step d (GetItem a k)) as [d' wd] eqn:Ed.
  simpl in *.
  destruct (get_laws _ _ _ _ _ Is Es) as [Ws [_ [Ns [As [Hs Cs]]]]].
  destruct (get_laws _ _ _ _ _ Id Ed) as [Wd [_ [Nd [Ad [Hd Cd]]]]].
  split.
  - subst ws wd. unfold get_obs. pose proof (HA a) as Ha. unfold arel in Ha.
    destruct (lookup a (attrs s)) as [x|]; destruct (lookup a (attrs d)) as [y|]; try contradiction; [|reflexivity].
    destruct Ha as [T [Z0 [_ [_ [_ RD]]]]]. rewrite (RD k Hk), Z0. reflexivity.
  - split; [congruence|]. split; [congruence|]. split; [exact Is'|]. split; [exact Id'|].
    intros b. apply (arel_frame s d s' d' b Is Id (HA b)); auto; congruence.
Qed.

(* ------------------------------------------------------------------ growth *)
Lemma sim_grow s d added amount :
  R s d -> 0 <= added -> amount = added ->
  pub (snd (grow s added amount)) = pub (snd (grow d added amount)) /\
  R (fst (grow s added amount)) (fst (grow d added amount)).
Proof.
  intros HR Ha Eam. pose proof HR as [C [N [Is [Id HA]]]].
  pose proof (inv_grow s added amount Is Ha Eam) as Is'.
  pose proof (inv_grow d added amount Id Ha Eam) as Id'.
  subst amount. unfold grow in *. simpl in *. split; [now rewrite N|].
  split; [exact C|]. split; [simpl; lia|]. split; [exact Is'|]. split; [exact Id'|].
  intros b. pose proof (HA b) as Hb. unfold arel in *. simpl. rewrite !lookup_map_vals.
  destruct (lookup b (attrs s)) as [x|] eqn:Lx; destruct (lookup b (attrs d)) as [y|] eqn:Ly; try contradiction; [|exact I].
  simpl. destruct Hb as [T [Z0 [[m [Sx Kx]] [[ne [st [rows Sy]]] [DF RD]]]]].
  pose proof Is as [_ [I1 _]]. pose proof Id as [Nn [J1 _]].
  pose proof (I1 _ _ Lx) as Okx. pose proof (J1 _ _ Ly) as Oky.
  destruct Id' as [_ [J1' _]]. simpl in J1'.
  assert (Ly' : lookup b (map (fun p => (fst p, expand_attr (hp d) (clock d) added (snd p))) (attrs d))
                = Some (expand_attr (hp d) (clock d) added y)) by (rewrite lookup_map_vals, Ly; reflexivity).
  pose proof (J1' _ _ Ly') as Oky'. clear J1' Ly'.
  unfold expand_attr in *. rewrite Sx. rewrite Sy in *. simpl.
  split; [exact T|]. split; [exact Z0|]. split.
  { exists m. split; [exact Sx|]. intros j Hj. specialize (Kx j Hj). lia. }
  split; [eauto|]. split; [exact DF|].
  intros j Hj.
  pose proof Oky as [_ [_ B]]. rewrite Sy in B. destruct B as [B1 [B2 B3]]. subst ne.
  erewrite (rd_dense _ (hp d) _ _ _ _ j Oky'); [|reflexivity|lia].
  destruct (Z_lt_dec j (sn s)) as [Lt|Ge].
  - rewrite RD by lia. erewrite rd_dense; [|exact Oky|exact Sy|lia].
    unfold znth_row. rewrite app_nth1 by lia. reflexivity.
  - rewrite (rd_sparse_unset _ _ _ _ _ Okx Sx).
    + unfold znth_row, dense_expand_rows. rewrite nth_app_repeat_new by lia. now rewrite DF.
    + apply lookup_None_key. intros Hin. specialize (Kx j Hin). lia.
Qed.

(* ------------------------------------------------------------------ clear *)
Lemma sim_clear_attr s d a :
  R s d ->
  snd (do_clear_attr s a) = snd (do_clear_attr d a) /\ R (fst (do_clear_attr s a)) (fst (do_clear_attr d a)).
Proof.
  intros HR. pose proof HR as [C [N [Is [Id HA]]]].
  pose proof (inv_clear_attr s a Is) as Is'. pose proof (inv_clear_attr d a Id) as Id'.
  revert Is' Id'. unfold do_clear_attr. pose proof (HA a) as Ha. unfold arel in Ha.
  destruct (lookup a (attrs s)) as [x|] eqn:Lx; destruct (lookup a (attrs d)) as [y|] eqn:Ly; try contradiction.
  2:{ intros _ _. split; [reflexivity|exact HR]. }
  destruct Ha as [T [Z0 [[m [Sx Kx]] [[ne [st [rows Sy]]] [DF RD]]]]]. rewrite Sx, Sy. simpl.
  intros Is' Id'. split; [reflexivity|]. split; [exact C|]. split; [exact N|]. split; [exact Is'|]. split; [exact Id'|].
  intros b. destruct (Z.eq_dec b a) as [E|NE].
  - subst b. unfold arel. simpl. rewrite !lookup_put_same. simpl.
    destruct Is' as [_ [I1 _]]. destruct Id' as [_ [J1 _]].
    pose proof (I1 a _ (lookup_put_same _ _ _)) as Okx. pose proof (J1 a _ (lookup_put_same _ _ _)) as Oky.
    simpl in Okx, Oky. pose proof Oky as [_ [_ B]]. simpl in B. destruct B as [B1 _].
    repeat split; auto.
    + exists []. split; [reflexivity|]. intros ? [].
    + eauto.
    + intros j Hj. erewrite rd_sparse_unset; [|exact Okx|reflexivity|reflexivity].
      erewrite rd_dense; [|exact Oky|reflexivity|lia].
      unfold znth_row, dense_clear_rows. rewrite nth_repeat_in by lia. f_equal. exact DF.
  - apply (arel_frame s d _ _ b Is Id (HA b)); simpl; auto; try apply hpres_refl; now rewrite lookup_put_other.
Qed.

(* ------------------------------------------------------------------ array export *)
Definition fill_row (h : heap) (a : attr) (sv : sval) : list comp :=
  match sv with
  | SScal c => repeat (cast (aty a) c) (Z.to_nat (asz a))
  | SVec id => match nth_error h id with Some c => map (cast (aty a)) (cv c) | None => [] end
  end.

Lemma fill_rows_spec h a n m : forall out,
  NoDup (map fst m) -> (forall k, In k (map fst m) -> 0 <= k < n) -> length out = Z.to_nat n ->
  exists out', fill_rows h a n m out = Some out' /\ length out' = Z.to_nat n /\
               forall i, 0 <= i < n ->
                         nth (Z.to_nat i) out' [] = match lookup i m with
                                                    | Some sv => fill_row h a sv
                                                    | None => nth (Z.to_nat i) out []
                                                    end.
Proof.
  induction m as [|[i0 sv] t IH]; intros out ND HK HL; simpl.
  - exists out. auto.
  - inversion ND as [|? ? Nin ND']; subst. assert (K0 : 0 <= i0 < n) by (apply HK; now left).
    assert (E1 : (i0 <? 0) = false) by lia. rewrite E1.
    assert (E2 : ((i0 <? 0) || (i0 >=? n)) = false) by lia. rewrite E2.
    fold (fill_row h a sv).
    destruct (IH (upd out (Z.to_nat i0) (fill_row h a sv)) ND') as [out' [F1 [F2 F3]]].
    + intros k Hk. apply HK. now right.
    + now rewrite length_upd.
    + exists out'. split; [exact F1|]. split; [exact F2|]. intros i Hi. rewrite (F3 i Hi).
      destruct (i =? i0) eqn:Ei.
      * apply Z.eqb_eq in Ei. subst i. rewrite (lookup_None_key _ _ Nin). apply nth_upd_same. lia.
      * destruct (lookup i t); [reflexivity|]. apply nth_upd_other. lia.
Qed.

Lemma sim_as_array s d a :
  R s d -> do_as_array s a = (s, snd (do_as_array s a)) /\ do_as_array d a = (d, snd (do_as_array d a)) /\
           snd (do_as_array s a) = snd (do_as_array d a).
Proof.
  intros HR. pose proof HR as [C [N [Is [Id HA]]]]. unfold do_as_array.
  pose proof (HA a) as Ha. unfold arel in Ha.
  destruct (lookup a (attrs s)) as [x|] eqn:Lx; destruct (lookup a (attrs d)) as [y|] eqn:Ly; try contradiction.
  2:{ auto. }
  destruct Ha as [T [Z0 [[m [Sx Kx]] [[ne [st [rows Sy]]] [DF RD]]]]]. rewrite Sx, Sy.
  pose proof Is as [Nn [I1 _]]. pose proof Id as [_ [J1 _]].
  pose proof (I1 _ _ Lx) as Okx. pose proof (J1 _ _ Ly) as Oky.
  pose proof Okx as [_ [_ A3]]. rewrite Sx in A3. destruct A3 as [ND A3].
  pose proof Oky as [_ [_ B]]. rewrite Sy in B. destruct B as [B1 [B2 B3]]. subst ne.
  destruct (fill_rows_spec (hp s) x (sn s) m (repeat (default_row (hp s) x) (Z.to_nat (sn s))) ND Kx (repeat_length _ _))
    as [out [F1 [F2 F3]]].
  rewrite F1. simpl. split; [reflexivity|]. split; [reflexivity|]. f_equal.
  apply nth_ext with (d := []) (d' := []); [lia|]. intros i Hi. rewrite F2 in Hi.
  assert (Hz : 0 <= Z.of_nat i < sn s) by lia.
  specialize (F3 _ Hz). rewrite Nat2Z.id in F3. rewrite F3.
  specialize (RD _ Hz). erewrite (rd_dense _ _ _ _ _ _ _ Oky Sy) in RD by lia.
  unfold znth_row in RD. rewrite Nat2Z.id in RD.
  destruct (lookup (Z.of_nat i) m) as [sv|] eqn:L.
  - destruct (rd_sparse_set _ _ _ _ _ _ Okx Sx L) as [row [R1 [R2 R3]]]. rewrite R1 in RD. inversion RD; subst.
    specialize (A3 _ _ L). destruct sv as [c|id]; simpl in *.
    + inversion R2. rewrite A3. reflexivity.
    + destruct (nth_error (hp s) id); inversion R2; reflexivity.
  - rewrite (rd_sparse_unset _ _ _ _ _ Okx Sx L) in RD. inversion RD. rewrite nth_repeat_in by lia. reflexivity.
Qed.

(* ------------------------------------------------------------------ one step of both worlds *)
Definition addressed (n : Z) (o : op) : Prop :=
  match o with SetItem _ k _ | GetItem _ k => 0 <= k < n | _ => True end.

Lemma sim_step s d o :
  R s d -> op_ok o -> shared_op o -> addressed (sn s) o ->
  pub (snd (step s (force false o))) = pub (snd (step d (force true o))) /\
  R (fst (step s (force false o))) (fst (step d (force true o))) /\
  sn (fst (step s (force false o))) = size_after (sn s) o.
Proof.
  intros HR Ho Hs Ha. pose proof HR as [C [N [Is [Id HA]]]].
  destruct o; simpl in Ho, Hs, Ha; try contradiction; simpl force.
  - (* Create *)
    unfold step. simpl. destruct (sim_create (tick s) (tick d) a t k d0 (R_tick _ _ HR) Ho) as [W HR'].
    split; [now rewrite W|]. split; [exact HR'|].
    unfold do_create. destruct (match lookup a (attrs (tick s)) with Some _ => create_keeps_existing | None => false end);
      [reflexivity|]. destruct (mk_default (hp (tick s)) t k d0) as [e|[h' df]]; reflexivity.
  - (* Delete *)
    unfold step. simpl. split; [reflexivity|]. split; [|reflexivity].
    split; [exact C|]. split; [exact N|].
    split; [apply (inv_delete (tick s)); exact Is|]. split; [apply (inv_delete (tick d)); exact Id|].
    intros b. destruct (Z.eq_dec b a) as [E|NE].
    + subst b. unfold arel. simpl. rewrite !lookup_del, Z.eqb_refl. exact I.
    + apply (arel_frame s d _ _ b Is Id (HA b)); simpl; auto; try apply hpres_refl; rewrite lookup_del;
        destruct (b =? a) eqn:E; try lia; reflexivity.
  - (* Has *)
    unfold step. simpl. split; [|split; [exact HR|reflexivity]].
    pose proof (HA a) as H. unfold arel in H. change (attrs (tick s)) with (attrs s). change (attrs (tick d)) with (attrs d).
    destruct (lookup a (attrs s)), (lookup a (attrs d)); try contradiction; reflexivity.
  - (* SetItem *)
    destruct (sim_set s d a key v HR Ha) as [W HR']. split; [now rewrite W|]. split; [exact HR'|].
    destruct (step s (SetItem a key v)) as [s' w] eqn:E. simpl.
    unfold step in E. simpl in E. unfold do_set in E.
    repeat (match type of E with context [match ?x with _ => _ end] => destruct x end); inversion E; reflexivity.
  - (* GetItem *)
    destruct (sim_get s d a key HR Ha) as [W HR']. split; [now rewrite W|]. split; [exact HR'|].
    destruct (step s (GetItem a key)) as [s' w] eqn:E. simpl. destruct (get_laws _ _ _ _ _ Is E) as [_ [_ [Q _]]]. exact Q.
  - (* Append *)
    unfold step. simpl. assert (Q : append_amount (tick d) = append_amount (tick s)) by (unfold append_amount; simpl; now rewrite C).
    rewrite Q. destruct (sim_grow (tick s) (tick d) 1 (append_amount (tick s)) (R_tick _ _ HR)) as [W HR']; [lia| |].
    + unfold append_amount. destruct (corner (tick s)); reflexivity.
    + split; [first [exact W|reflexivity]|]. split; [first [exact HR'|simpl in HR'; exact HR']|reflexivity].
  - (* ExtendList *)
    unfold step. simpl. assert (Q : iadd_list_amount (tick d) m = iadd_list_amount (tick s) m) by (unfold iadd_list_amount; simpl; now rewrite C).
    rewrite Q. destruct (sim_grow (tick s) (tick d) m (iadd_list_amount (tick s) m) (R_tick _ _ HR)) as [W HR']; [lia| |].
    + unfold iadd_list_amount. destruct (corner (tick s)); reflexivity.
    + split; [first [exact W|reflexivity]|]. split; [first [exact HR'|simpl in HR'; exact HR']|reflexivity].
  - (* ExtendOther *)
    unfold step. simpl. assert (Q : iadd_cont_amount (tick d) m m = iadd_cont_amount (tick s) m m) by (unfold iadd_cont_amount; simpl; now rewrite C).
    rewrite Q. destruct (sim_grow (tick s) (tick d) m (iadd_cont_amount (tick s) m m) (R_tick _ _ HR)) as [W HR']; [lia| |].
    + unfold iadd_cont_amount. destruct (corner (tick s)); reflexivity.
    + split; [first [exact W|reflexivity]|]. split; [first [exact HR'|simpl in HR'; exact HR']|reflexivity].
  - (* ExtendSelf *)
    assert (Ed : step d ExtendSelf = grow (tick d) (sn (tick s)) (iadd_cont_amount (tick s) (sn (tick s)) (sn (tick s) + sn (tick s)))).
    { unfold step. unfold iadd_cont_amount. simpl. rewrite <- N, <- C. reflexivity. }
    rewrite Ed. change (step s ExtendSelf) with (grow (tick s) (sn (tick s)) (iadd_cont_amount (tick s) (sn (tick s)) (sn (tick s) + sn (tick s)))).
    destruct (sim_grow (tick s) (tick d) (sn (tick s)) (iadd_cont_amount (tick s) (sn (tick s)) (sn (tick s) + sn (tick s))) (R_tick _ _ HR)) as [W HR'].
    + destruct Is; simpl; lia.
    + unfold iadd_cont_amount. destruct (corner (tick s)); reflexivity.
    + split; [exact W|]. split; [exact HR'|reflexivity].
  - (* ExtendBad *)
    unfold step. simpl. change (sn (tick d)) with (sn d). change (sn (tick s)) with (sn s). rewrite N.
    split; [reflexivity|]. split; [exact HR|reflexivity].
  - (* ClearAttr *)
    unfold step. simpl. destruct (sim_clear_attr (tick s) (tick d) a (R_tick _ _ HR)) as [W HR'].
    split; [now rewrite W|]. split; [exact HR'|].
    unfold do_clear_attr. destruct (lookup a (attrs (tick s))) as [x|]; [|reflexivity]. destruct (ast x); reflexivity.
  - (* AsArray *)
    unfold step. simpl. destruct (sim_as_array (tick s) (tick d) a (R_tick _ _ HR)) as [E1 [E2 W]].
    rewrite E1, E2. simpl. split; [now rewrite W|]. split; [exact HR|reflexivity].
  - (* ClearAll *)
    unfold step. simpl. split; [reflexivity|]. split; [|reflexivity].
    pose proof (inv_step s ClearAll Is I) as Is'. pose proof (inv_step d ClearAll Id I) as Id'.
    split; [exact C|]. split; [reflexivity|]. split; [exact Is'|]. split; [exact Id'|].
    intros b. unfold arel. simpl. exact I.
  - (* CLen *)
    unfold step. simpl. change (sn (tick d)) with (sn d). change (sn (tick s)) with (sn s). rewrite N.
    split; [reflexivity|]. split; [exact HR|reflexivity].
Qed.

Lemma R_init c : R (init c) (init c).
Proof.
  split; [reflexivity|]. split; [reflexivity|]. split; [apply inv_init|]. split; [apply inv_init|].
  intros a. unfold arel. simpl. exact I.
Qed.

Lemma sim_run : forall h s d,
  R s d -> Forall op_ok h -> Forall shared_op h -> well_addressed (sn s) h ->
  map pub (snd (run s (map (force false) h))) = map pub (snd (run d (map (force true) h))).
Proof.
  induction h as [|o t IH]; intros s d HR H1 H2 H3; simpl; [reflexivity|].
  inversion H1 as [|? ? Ho1 Ht1]; subst. inversion H2 as [|? ? Ho2 Ht2]; subst. destruct H3 as [Ha3 Ht3].
  destruct (sim_step s d o HR Ho1 Ho2 Ha3) as [W [HR' Sz]].
  destruct (step s (force false o)) as [s1 w1]. destruct (step d (force true o)) as [d1 w2]. simpl in *.
  specialize (IH s1 d1 HR'). rewrite Sz in IH.
  destruct (run s1 (map (force false) t)) as [s2 ws]. destruct (run d1 (map (force true) t)) as [d2 wd]. simpl in *.
  f_equal; [exact W|]. apply IH; assumption.
Qed.

(* the statement: the two storages answer alike along every history that addresses elements of the container *)
Theorem sparse_dense_agree : forall c h,
  Forall op_ok h -> Forall shared_op h -> well_addressed 0 h ->
  map pub (snd (run (init c) (map (force false) h))) = map pub (snd (run (init c) (map (force true) h))).
Proof. intros c h H1 H2 H3. apply sim_run; auto. apply R_init. Qed.
