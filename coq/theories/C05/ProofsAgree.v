(* C05 - sparse and dense storage agree: the same history, run once with every attribute created sparse and once
   with every attribute created dense, yields the same observations (lock-step simulation). *)
From Coq Require Import ZArith List Bool Lia.
Import ListNotations.
Require Import MV.Lib.Base MV.C05.Types MV.C05.Gen MV.C05.Model MV.C05.ProofsBase MV.C05.Proofs MV.C05.ProofsInv
        MV.C05.ProofsMap MV.C05.ProofsAlias.
Open Scope Z_scope.

(* the same operation with the storage mode of a creation forced *)
Definition force (dense : bool) (o : op) : op :=
  match o with Create a t k _ d => Create a t k dense d | _ => o end.

(* operations whose observations the two storages are meant to share: everything but the in-place update through a
   reference (the dense view writes through, the sparse default copy does not - the property only says it harms no
   other entry), len / iteration (sparse: explicitly written keys, by design) and the harness's own Snap *)
Definition shared_op (o : op) : Prop :=
  match o with
  | Mut _ _ _ | Len _ | Iter _ | Snap | MutArr _ _ _ _ | Contains _ _ | CreateSized _ _ _ _ _ | Register _ _ _ _ _ => False
  | _ => True
  end.

(* strings within the fixed width of the dense storage (Type.dtype): longer ones are cut by numpy, see
   long_strings_refuted *)
Definition short (c : comp) : Prop := match c with CS l => Z.of_nat (length l) <= string_width | _ => True end.
Definition short_value (v : value) : Prop :=
  match v with VScal c => short c | VSeq l => Forall short l | VStr s => Z.of_nat (length s) <= string_width end.
Definition short_op (o : op) : Prop :=
  match o with
  | Create _ _ _ _ (Some c) => short c         (* a custom default: the sparse read of an unset scalar entry returns it as it is *)
  | _ => True
  end.

Lemma store_short t c : kind_of c = Some t -> short c -> store t c = cast t c.
Proof.
  intros K H. unfold store. destruct t, c; simpl in K; try discriminate K; try reflexivity. simpl in *. unfold trunc.
  rewrite firstn_all2; [reflexivity|lia].
Qed.

Lemma comps_short e v l : comps_of e v = Some l -> short_value v -> Forall short l.
Proof.
  unfold comps_of. destruct (e >? 1).
  - destruct v as [c|l0|s0]; simpl; intros H Hs; inversion H; subst; auto.
    clear. induction s0; simpl; constructor; auto. simpl. unfold string_width. lia.
  - destruct v as [c|l0|s0]; simpl; intros H Hs; inversion H; subst; repeat constructor; auto.
Qed.

(* container length after an operation: a function of the history alone *)
Definition size_after (cn : bool) (n : Z) (o : op) : Z :=
  match o with
  | Append => n + 1 | ExtendList m | ExtendOther m => n + m | ExtendSelf => n + n | ClearAll => 0
  | ExtendListBad m => if cn then n else n + (m + 1)     (* refused as a whole by a corner container *)
  | _ => n
  end.

(* reads and writes address elements of the container *)
Fixpoint well_addressed (cn : bool) (n : Z) (h : list op) : Prop :=
  match h with
  | [] => True
  | o :: t => match o with SetItem _ k _ | GetItem _ k | Update _ k _ _ => 0 <= k < n | _ => True end /\
              well_addressed cn (size_after cn n o) t
  end.

(* lengths of the individual attributes are storage specific: erased from growth observations *)
Definition pub (w : obs) : obs :=
  match w with OGrow n _ => OGrow n [] | OGrowErr e n _ => OGrowErr e n [] | x => x end.

Lemma reads_pres n h h' a :
  attr_ok n h a -> hpres h h' ->
  default_row h' a = default_row h a /\ unset_read h' a = unset_read h a /\ forall j, rd_attr h' a j = rd_attr h a j.
Proof.
  intros [A1 [A2 A3]] HP.
  assert (D : default_row h' a = default_row h a).
  { unfold default_row. destruct (adef a) as [c|id]; [reflexivity|]. destruct A2 as [_ [c [Hc _]]].
    rewrite HP; [reflexivity|]. apply nth_error_Some. congruence. }
  split; [exact D|]. split; [unfold unset_read; now rewrite D|]. intros j. unfold rd_attr.
  destruct (ast a) as [m|ne st rows]; [|reflexivity]. destruct A3 as [_ A3].
  destruct (lookup j m) as [sv|] eqn:L.
  - specialize (A3 _ _ L). destruct sv as [c|id]; [reflexivity|]. simpl.
    destruct A3 as [_ [c [Hc _]]]. rewrite HP; [reflexivity|]. apply nth_error_Some. congruence.
  - rewrite D. reflexivity.
Qed.

(* ------------------------------------------------------------------ the simulation relation *)
Definition arel (s d : state) (a : Z) : Prop :=
  match lookup a (attrs s), lookup a (attrs d) with
  | None, None => True
  | Some x, Some y =>
      aty x = aty y /\ asz x = asz y /\
      (exists m, ast x = Sparse m /\ forall k, In k (map fst m) -> 0 <= k < sn s) /\
      (exists ne st rows, ast y = Dense ne st rows) /\
      default_row (hp s) x = default_row (hp d) y /\
      unset_read (hp s) x = default_row (hp s) x /\
      forall k, 0 <= k < sn s -> rd_attr (hp s) x k = rd_attr (hp d) y k
  | _, _ => False
  end.

Definition R (s d : state) : Prop :=
  corner s = corner d /\ sn s = sn d /\ inv s /\ inv d /\ forall a, arel s d a.

Lemma arel_frame s d s' d' b :
  inv s -> inv d -> arel s d b ->
  lookup b (attrs s') = lookup b (attrs s) -> lookup b (attrs d') = lookup b (attrs d) ->
  hpres (hp s) (hp s') -> hpres (hp d) (hp d') -> sn s' = sn s ->
  arel s' d' b.
Proof.
  intros [_ [I1 _]] [_ [J1 _]] H Ls Ld Hs Hd N. unfold arel in *. rewrite Ls, Ld, N.
  destruct (lookup b (attrs s)) as [x|] eqn:Lx; destruct (lookup b (attrs d)) as [y|] eqn:Ly; try exact H.
  destruct H as [T [Z0 [K [DN [DF [UR RD]]]]]].
  destruct (reads_pres _ _ _ _ (I1 _ _ Lx) Hs) as [D1 [U1 R1]].
  destruct (reads_pres _ _ _ _ (J1 _ _ Ly) Hd) as [D2 [U2 R2]].
  repeat split; auto.
  - congruence.
  - congruence.
  - intros k Hk. rewrite R1, R2. now apply RD.
Qed.

Lemma default_row_set_storage h x st : default_row h (set_storage x st) = default_row h x.
Proof. reflexivity. Qed.

Lemma default_row_fresh h t k v st :
  default_row (h ++ [mkcell t v]) (mkattr t k (DCell (length h)) st) = map (store t) v.
Proof. unfold default_row. simpl. rewrite nth_error_app_new. reflexivity. Qed.

Lemma map_repeat {A B} (f : A -> B) x n : map f (repeat x n) = repeat (f x) n.
Proof. induction n; simpl; congruence. Qed.

Lemma R_tick s d : R s d -> R (tick s) (tick d).
Proof. intros H. exact H. Qed.

Lemma in_range_not_oob k n : 0 <= k < n -> dense_oob k n = false.
Proof. intros K. destruct (dense_oob k n) eqn:O; [|reflexivity]. apply dense_bounds in O. lia. Qed.

(* ------------------------------------------------------------------ create *)
Lemma type_default_short t : short (type_default t).
Proof. destruct t; simpl; auto. unfold string_width. lia. Qed.

Lemma sim_create s d a t k df :
  R s d -> 1 <= k -> match df with Some c => short c | None => True end ->
  snd (do_create s a t k false df) = snd (do_create d a t k true df) /\
  R (fst (do_create s a t k false df)) (fst (do_create d a t k true df)).
Proof.
  intros HR Hk Hsh. pose proof HR as [C [N [Is [Id HA]]]].
  pose proof (inv_create s a t k false df Is Hk) as Is'.
  pose proof (inv_create d a t k true df Id Hk) as Id'.
  revert Is' Id'. unfold do_create.
  assert (P : (match lookup a (attrs s) with Some _ => create_keeps_existing | None => false end)
              = (match lookup a (attrs d) with Some _ => create_keeps_existing | None => false end)).
  { specialize (HA a). unfold arel in HA.
    destruct (lookup a (attrs s)), (lookup a (attrs d)); try reflexivity; contradiction. }
  rewrite <- P. destruct (match lookup a (attrs s) with Some _ => create_keeps_existing | None => false end).
  { intros _ _. simpl. split; [reflexivity|exact HR]. }
  assert (V : (exists e, mk_default (hp s) t k df = inl e /\ mk_default (hp d) t k df = inl e) \/
              (exists c, short c /\ kind_of c = Some t /\ mk_default (hp s) t k df = inr (hp s, DScal c) /\ mk_default (hp d) t k df = inr (hp d, DScal c)) \/
              (k <> 1 /\ mk_default (hp s) t k df = inr (hp s ++ [mkcell t (repeat (type_default t) (Z.to_nat k))], DCell (length (hp s))) /\
               mk_default (hp d) t k df = inr (hp d ++ [mkcell t (repeat (type_default t) (Z.to_nat k))], DCell (length (hp d))))).
  { unfold mk_default, default_is_scalar. destruct df as [c|].
    - destruct (kind_of c) as [td|] eqn:Kc; [|left; eauto]. destruct (default_type_bad td t) eqn:Db; [left; eauto|right; left].
      exists c. split; [exact Hsh|]. split; [|auto]. unfold default_type_bad in Db. destruct td, t; simpl in Db; try discriminate Db; exact Kc.
    - destruct (k =? 1) eqn:K1; [right; left; exists (type_default t); split; [apply type_default_short|split; [destruct t; reflexivity|auto]]|right; right].
      split; [lia|auto]. }
  destruct V as [[e [V1 V2]]|[[c [Sc [Kc [V1 V2]]]]|[K1 [V1 V2]]]]; rewrite V1, V2; simpl.
  - intros _ _. split; [reflexivity|exact HR].
  - intros Is' Id'. split; [reflexivity|]. split; [exact C|]. split; [exact N|]. split; [exact Is'|]. split; [exact Id'|].
    intros b. destruct (Z.eq_dec b a) as [E|NE].
    + subst b. unfold arel. simpl. rewrite !lookup_put_same. simpl.
      destruct Is' as [_ [I1 _]]. destruct Id' as [_ [J1 _]].
      pose proof (I1 a _ (lookup_put_same _ _ _)) as Okx. pose proof (J1 a _ (lookup_put_same _ _ _)) as Oky.
      simpl in Okx, Oky.
      assert (UR : unset_read (hp s) (mkattr t k (DScal c) (Sparse [])) = default_row (hp s) (mkattr t k (DScal c) (Sparse []))).
      { unfold unset_read, default_row. simpl. destruct (k >? 1) eqn:K1; [reflexivity|].
        assert (k = 1) by lia. subst k. simpl. now rewrite (store_short t c Kc Sc). }
      split; [reflexivity|]. split; [reflexivity|]. split; [exists []; split; [reflexivity|intros ? []]|].
      split; [unfold new_storage; eauto|]. split; [reflexivity|]. split; [exact UR|].
      intros j Hj. erewrite rd_sparse_unset; [|exact Okx|reflexivity|reflexivity].
      erewrite rd_dense; [|exact Oky|reflexivity|lia].
      unfold znth_row, dense_init_rows, create_dense_n_elem. rewrite nth_repeat_in by lia. f_equal. exact UR.
    + apply (arel_frame s d _ _ b Is Id (HA b)); simpl; auto; try apply hpres_refl.
      * now rewrite lookup_put_other.
      * now rewrite lookup_put_other.
  - intros Is' Id'. split; [reflexivity|]. split; [exact C|]. split; [exact N|]. split; [exact Is'|]. split; [exact Id'|].
    intros b. destruct (Z.eq_dec b a) as [E|NE].
    + subst b. unfold arel. simpl. rewrite !lookup_put_same. simpl.
      destruct Is' as [_ [I1 _]]. destruct Id' as [_ [J1 _]].
      pose proof (I1 a _ (lookup_put_same _ _ _)) as Okx. pose proof (J1 a _ (lookup_put_same _ _ _)) as Oky.
      simpl in Okx, Oky. pose proof Okx as [_ [[K2 _] _]]. simpl in K2.
      assert (UR : forall h st, unset_read h (mkattr t k (DCell (length (hp s))) (Sparse st)) = default_row h (mkattr t k (DCell (length (hp s))) (Sparse st))).
      { intros h st. unfold unset_read. simpl. assert (Q : k >? 1 = true) by lia. now rewrite Q. }
      split; [reflexivity|]. split; [reflexivity|]. split; [exists []; split; [reflexivity|intros ? []]|].
      split; [unfold new_storage; eauto|]. split; [rewrite !default_row_fresh; reflexivity|]. split; [apply UR|].
      intros j Hj. erewrite rd_sparse_unset; [|exact Okx|reflexivity|reflexivity].
      erewrite rd_dense; [|exact Oky|reflexivity|lia].
      unfold znth_row, dense_init_rows, create_dense_n_elem. rewrite nth_repeat_in by lia.
      unfold new_storage. rewrite UR. rewrite !default_row_fresh. reflexivity.
    + apply (arel_frame s d _ _ b Is Id (HA b)); simpl; auto; try apply hpres_app.
      * now rewrite lookup_put_other.
      * now rewrite lookup_put_other.
Qed.

(* ------------------------------------------------------------------ set *)
Lemma sim_set s d a k v :
  R s d -> 0 <= k < sn s ->
  snd (step s (SetItem a k v)) = snd (step d (SetItem a k v)) /\
  R (fst (step s (SetItem a k v))) (fst (step d (SetItem a k v))).
Proof.
  intros HR Hk. pose proof HR as [C [N [Is [Id HA]]]].
  pose proof (inv_step s (SetItem a k v) Is I) as Is'.
  pose proof (inv_step d (SetItem a k v) Id I) as Id'.
  destruct (step s (SetItem a k v)) as [s' ws] eqn:Es. destruct (step d (SetItem a k v)) as [d' wd] eqn:Ed.
  simpl in *. pose proof Es as Es0. pose proof Ed as Ed0.
  unfold step in Es, Ed. simpl in Es, Ed. unfold do_set in Es, Ed.
  change (attrs (tick s)) with (attrs s) in Es. change (attrs (tick d)) with (attrs d) in Ed.
  pose proof (HA a) as Ha. unfold arel in Ha.
  destruct (lookup a (attrs s)) as [x|] eqn:Lx; destruct (lookup a (attrs d)) as [y|] eqn:Ly; try contradiction.
  2:{ inversion Es; inversion Ed; subst. split; [reflexivity|]. exact HR. }
  destruct Ha as [T [Z0 [[m [Sx Kx]] [[ne [st [rows Sy]]] [DF [UR RD]]]]]].
  pose proof Id as [_ [J1 _]]. pose proof (J1 _ _ Ly) as Oky. pose proof Oky as [_ [_ B]]. rewrite Sy in B.
  destruct B as [B1 _]. subst ne.
  rewrite Sx in Es. rewrite Sy in Ed. rewrite in_range_not_oob in Ed by lia.
  rewrite <- validate_same, <- T, <- Z0 in Ed.
  destruct (sparse_validate (aty x) (asz x) v) as [e|[isv l]] eqn:V.
  { inversion Es; inversion Ed; subst. split; [reflexivity|]. exact HR. }
  unfold sparse_vec_uses_attr_dtype, sparse_scal_converted in Es.
  destruct (existsb (overflows (aty x)) l) eqn:Ov.
  { assert (Ws : ws = OErr EOverflow /\ s' = tick s) by (destruct isv; inversion Es; auto).
    destruct Ws; subst. inversion Ed; subst. split; [reflexivity|]. exact HR. }
  assert (Ws : ws = OOk) by (destruct isv; inversion Es; reflexivity).
  assert (Wd : wd = OOk) by (inversion Ed; reflexivity).
  subst ws wd. split; [reflexivity|].
  destruct (set_laws _ _ _ _ _ Is Es0) as [x0 [isv0 [l0 [Lx0 [V0 [_ [Rk [Fr Sn]]]]]]]].
  destruct (set_laws _ _ _ _ _ Id Ed0) as [y0 [isv1 [l1 [Ly0 [V1 [_ [Rk1 [Fr1 Sn1]]]]]]]].
  rewrite Lx in Lx0. inversion Lx0; subst x0. rewrite Ly in Ly0. inversion Ly0; subst y0.
  rewrite V in V0. inversion V0; subst isv0 l0. rewrite <- T, <- Z0, V in V1. inversion V1; subst isv1 l1.
  clear Lx0 Ly0 V0 V1.
  assert (Cs : corner s' = corner s) by (destruct isv; inversion Es; reflexivity).
  assert (Cd : corner d' = corner d) by (inversion Ed; reflexivity).
  split; [congruence|]. split; [congruence|]. split; [exact Is'|]. split; [exact Id'|].
  assert (Hs : hpres (hp s) (hp s')) by (destruct isv; inversion Es; simpl; [apply hpres_app|apply hpres_refl]).
  assert (Hd : hpres (hp d) (hp d')) by (inversion Ed; simpl; apply hpres_refl).
  intros b. destruct (Z.eq_dec b a) as [E|NE].
  - subst b. unfold arel.
    assert (exists x', lookup a (attrs s') = Some x' /\ aty x' = aty x /\ asz x' = asz x /\ adef x' = adef x /\
                       exists m', ast x' = Sparse m' /\ forall j, In j (map fst m') -> j = k \/ In j (map fst m)) as [x' [Lx' [T1 [Z1 [D1 [m' [Sx' Kx']]]]]]].
    { destruct isv; inversion Es; subst s'; simpl; rewrite lookup_put_same; eexists; (split; [reflexivity|]); simpl;
        repeat split; auto; eexists; (split; [reflexivity|]); intros j; apply upsert_keys_incl. }
    assert (exists y', lookup a (attrs d') = Some y' /\ aty y' = aty y /\ asz y' = asz y /\ adef y' = adef y /\
                       exists ne' st' rows', ast y' = Dense ne' st' rows') as [y' [Ly' [T2 [Z2 [D2 Sy']]]]].
    { inversion Ed; subst d'; simpl; rewrite lookup_put_same; eexists; (split; [reflexivity|]); simpl; repeat split; eauto. }
    rewrite Lx', Ly'. split; [congruence|]. split; [congruence|]. split.
    { exists m'. split; [exact Sx'|]. intros j Hj. rewrite Sn. destruct (Kx' _ Hj); [lia|auto]. }
    split; [exact Sy'|]. split.
    { pose proof Is as [_ [I1 _]]. destruct (reads_pres _ _ _ _ (I1 _ _ Lx) Hs) as [P1 _].
      destruct (reads_pres _ _ _ _ Oky Hd) as [P2 _].
      transitivity (default_row (hp s') x); [unfold default_row; now rewrite T1, Z1, D1|].
      transitivity (default_row (hp d') y); [congruence|]. unfold default_row. now rewrite T2, Z2, D2. }
    split.
    { pose proof Is as [_ [I1 _]]. destruct (reads_pres _ _ _ _ (I1 _ _ Lx) Hs) as [P1 [P3 _]].
      transitivity (unset_read (hp s') x); [unfold unset_read, default_row; now rewrite Sx', Sx, T1, Z1, D1|].
      transitivity (default_row (hp s') x); [congruence|]. unfold default_row. now rewrite T1, Z1, D1. }
    intros j Hj. rewrite Sn in Hj.
    assert (Q1 : rd s' a j = rd_attr (hp s') x' j) by (unfold rd; now rewrite Lx').
    assert (Q2 : rd d' a j = rd_attr (hp d') y' j) by (unfold rd; now rewrite Ly').
    rewrite <- Q1, <- Q2. destruct (Z.eq_dec j k) as [Ej|Nj].
    + subst j. rewrite Rk, Rk1. unfold written. now rewrite T.
    + rewrite Fr, Fr1 by congruence. unfold rd. rewrite Lx, Ly. now apply RD.
  - apply (arel_frame s d s' d' b Is Id (HA b)); auto.
    + destruct isv; inversion Es; subst s'; simpl; now rewrite lookup_put_other.
    + inversion Ed; subst d'; simpl; now rewrite lookup_put_other.
Qed.

(* ------------------------------------------------------------------ get *)
Lemma sim_get s d a k :
  R s d -> 0 <= k < sn s ->
  snd (step s (GetItem a k)) = snd (step d (GetItem a k)) /\
  R (fst (step s (GetItem a k))) (fst (step d (GetItem a k))).
Proof.
  intros HR Hk. pose proof HR as [C [N [Is [Id HA]]]].
  pose proof (inv_step s (GetItem a k) Is I) as Is'.
  pose proof (inv_step d (GetItem a k) Id I) as Id'.
  destruct (step s (GetItem a k)) as [s' ws] eqn:Es. destruct (step d (GetItem a k)) as [d' wd] eqn:Ed.
  simpl in *.
  destruct (get_laws _ _ _ _ _ Is Es) as [Ws [_ [Ns [As [Hs Cs]]]]].
  destruct (get_laws _ _ _ _ _ Id Ed) as [Wd [_ [Nd [Ad [Hd Cd]]]]].
  split.
  - subst ws wd. unfold get_obs. pose proof (HA a) as Ha. unfold arel in Ha.
    destruct (lookup a (attrs s)) as [x|]; destruct (lookup a (attrs d)) as [y|]; try contradiction; [|reflexivity].
    destruct Ha as [T [Z0 [_ [_ [_ [_ RD]]]]]]. rewrite (RD k Hk), Z0. reflexivity.
  - split; [congruence|]. split; [congruence|]. split; [exact Is'|]. split; [exact Id'|].
    intros b. apply (arel_frame s d s' d' b Is Id (HA b)); auto; congruence.
Qed.

(* ------------------------------------------------------------------ growth *)
Lemma sim_grow s d added amount :
  R s d -> 0 <= added -> amount = added ->
  pub (snd (grow s added amount)) = pub (snd (grow d added amount)) /\
  R (fst (grow s added amount)) (fst (grow d added amount)).
Proof.
  intros HR Ha Eam. pose proof HR as [C [N [Is [Id HA]]]].
  pose proof (inv_grow s added amount Is Ha Eam) as Is'.
  pose proof (inv_grow d added amount Id Ha Eam) as Id'.
  subst amount. unfold grow in *. simpl in *. split; [now rewrite N|].
  split; [exact C|]. split; [simpl; lia|]. split; [exact Is'|]. split; [exact Id'|].
  intros b. pose proof (HA b) as Hb. unfold arel in *. simpl. rewrite !lookup_map_vals.
  destruct (lookup b (attrs s)) as [x|] eqn:Lx; destruct (lookup b (attrs d)) as [y|] eqn:Ly; try contradiction; [|exact I].
  simpl. destruct Hb as [T [Z0 [[m [Sx Kx]] [[ne [st [rows Sy]]] [DF [UR RD]]]]]].
  pose proof Is as [_ [I1 _]]. pose proof Id as [Nn [J1 _]].
  pose proof (I1 _ _ Lx) as Okx. pose proof (J1 _ _ Ly) as Oky.
  destruct Id' as [_ [J1' _]]. simpl in J1'.
  assert (Ly' : lookup b (map (fun p => (fst p, expand_attr (hp d) (clock d) added (snd p))) (attrs d))
                = Some (expand_attr (hp d) (clock d) added y)) by (rewrite lookup_map_vals, Ly; reflexivity).
  pose proof (J1' _ _ Ly') as Oky'. clear J1' Ly'.
  unfold expand_attr in *. rewrite Sx. rewrite Sy in *. simpl.
  split; [exact T|]. split; [exact Z0|]. split.
  { exists m. split; [exact Sx|]. intros j Hj. specialize (Kx j Hj). lia. }
  split; [eauto|]. split; [exact DF|]. split; [exact UR|].
  intros j Hj.
  pose proof Oky as [_ [_ B]]. rewrite Sy in B. destruct B as [B1 [B2 B3]]. subst ne.
  erewrite (rd_dense _ (hp d) _ _ _ _ j Oky'); [|reflexivity|lia].
  destruct (Z_lt_dec j (sn s)) as [Lt|Ge].
  - rewrite RD by lia. erewrite rd_dense; [|exact Oky|exact Sy|lia].
    unfold znth_row. rewrite app_nth1 by lia. reflexivity.
  - rewrite (rd_sparse_unset _ _ _ _ _ Okx Sx).
    + unfold znth_row, dense_expand_rows. rewrite nth_app_repeat_new by lia. now rewrite UR, DF.
    + apply lookup_None_key. intros Hin. specialize (Kx j Hin). lia.
Qed.

(* ------------------------------------------------------------------ clear *)
Lemma sim_clear_attr s d a :
  R s d ->
  snd (do_clear_attr s a) = snd (do_clear_attr d a) /\ R (fst (do_clear_attr s a)) (fst (do_clear_attr d a)).
Proof.
  intros HR. pose proof HR as [C [N [Is [Id HA]]]].
  pose proof (inv_clear_attr s a Is) as Is'. pose proof (inv_clear_attr d a Id) as Id'.
  revert Is' Id'. unfold do_clear_attr. pose proof (HA a) as Ha. unfold arel in Ha.
  destruct (lookup a (attrs s)) as [x|] eqn:Lx; destruct (lookup a (attrs d)) as [y|] eqn:Ly; try contradiction.
  2:{ intros _ _. split; [reflexivity|exact HR]. }
  destruct Ha as [T [Z0 [[m [Sx Kx]] [[ne [st [rows Sy]]] [DF [UR RD]]]]]]. rewrite Sx, Sy. simpl.
  intros Is' Id'. split; [reflexivity|]. split; [exact C|]. split; [exact N|]. split; [exact Is'|]. split; [exact Id'|].
  intros b. destruct (Z.eq_dec b a) as [E|NE].
  - subst b. unfold arel. simpl. rewrite !lookup_put_same. simpl.
    destruct Is' as [_ [I1 _]]. destruct Id' as [_ [J1 _]].
    pose proof (I1 a _ (lookup_put_same _ _ _)) as Okx. pose proof (J1 a _ (lookup_put_same _ _ _)) as Oky.
    simpl in Okx, Oky. pose proof Oky as [_ [_ B]]. simpl in B. destruct B as [B1 _].
    assert (UR' : unset_read (hp s) (set_storage x (Sparse [])) = default_row (hp s) x).
    { rewrite <- UR. unfold unset_read. simpl. now rewrite Sx. }
    split; [exact T|]. split; [exact Z0|]. split; [exists []; split; [reflexivity|intros ? []]|].
    split; [eauto|]. split; [exact DF|]. split; [exact UR'|].
    intros j Hj. erewrite rd_sparse_unset; [|exact Okx|reflexivity|reflexivity].
    erewrite rd_dense; [|exact Oky|reflexivity|lia].
    unfold znth_row, dense_clear_rows. rewrite nth_repeat_in by lia. f_equal. rewrite UR'. exact DF.
  - apply (arel_frame s d _ _ b Is Id (HA b)); simpl; auto; try apply hpres_refl; now rewrite lookup_put_other.
Qed.

(* ------------------------------------------------------------------ array export *)
Definition fill_row (h : heap) (a : attr) (sv : sval) : list comp :=
  match sv with
  | SScal c => repeat (store (aty a) c) (Z.to_nat (asz a))
  | SVec id => match nth_error h id with Some c => map (store (aty a)) (cv c) | None => [] end
  end.

Lemma fill_rows_spec h a n m : forall out,
  NoDup (map fst m) -> (forall k, In k (map fst m) -> 0 <= k < n) -> length out = Z.to_nat n ->
  exists out', fill_rows h a n m out = Some out' /\ length out' = Z.to_nat n /\
               forall i, 0 <= i < n ->
                         nth (Z.to_nat i) out' [] = match lookup i m with
                                                    | Some sv => fill_row h a sv
                                                    | None => nth (Z.to_nat i) out []
                                                    end.
Proof.
  induction m as [|[i0 sv] t IH]; intros out ND HK HL; simpl.
  - exists out. auto.
  - inversion ND as [|? ? Nin ND']; subst. assert (K0 : 0 <= i0 < n) by (apply HK; now left).
    assert (E1 : (i0 <? 0) = false) by lia. rewrite E1.
    assert (E2 : ((i0 <? 0) || (i0 >=? n)) = false) by lia. rewrite E2.
    fold (fill_row h a sv).
    destruct (IH (upd out (Z.to_nat i0) (fill_row h a sv)) ND') as [out' [F1 [F2 F3]]].
    + intros k Hk. apply HK. now right.
    + now rewrite length_upd.
    + exists out'. split; [exact F1|]. split; [exact F2|]. intros i Hi. rewrite (F3 i Hi).
      destruct (i =? i0) eqn:Ei.
      * apply Z.eqb_eq in Ei. subst i. rewrite (lookup_None_key _ _ Nin). apply nth_upd_same. lia.
      * destruct (lookup i t); [reflexivity|]. apply nth_upd_other. lia.
Qed.

Lemma as_array_fields s a :
  attrs (fst (do_as_array s a)) = attrs s /\ hp (fst (do_as_array s a)) = hp s /\ sn (fst (do_as_array s a)) = sn s /\
  corner (fst (do_as_array s a)) = corner s.
Proof.
  unfold do_as_array. destruct (lookup a (attrs s)) as [x|]; [|auto]. destruct (ast x); [destruct (fill_rows _ _ _ _ _)|]; auto.
Qed.

Lemma fixed_cast_store t (l : list comp) :
  Forall (fun v => store t v = v) l -> map (cast t) l = map (store t) l.
Proof.
  intros H. apply map_ext_in. intros v Hv. rewrite Forall_forall in H. rewrite <- (H v Hv) at 1. apply cast_store.
Qed.

Lemma sim_as_array s d a :
  R s d -> snd (do_as_array s a) = snd (do_as_array d a) /\ R (fst (do_as_array s a)) (fst (do_as_array d a)).
Proof.
  intros HR. pose proof HR as [C [N [Is [Id HA]]]].
  destruct (as_array_fields s a) as [As [Hs [Ns Cs]]]. destruct (as_array_fields d a) as [Ad [Hd [Nd Cd]]].
  split.
  2:{ split; [congruence|]. split; [congruence|]. split; [now apply inv_as_array|]. split; [now apply inv_as_array|].
      intros b. apply (arel_frame s d _ _ b Is Id (HA b)); try congruence;
        first [rewrite Hs; apply hpres_refl|rewrite Hd; apply hpres_refl]. }
  unfold do_as_array.
  pose proof (HA a) as Ha. unfold arel in Ha.
  destruct (lookup a (attrs s)) as [x|] eqn:Lx; destruct (lookup a (attrs d)) as [y|] eqn:Ly; try contradiction.
  2:{ reflexivity. }
  destruct Ha as [T [Z0 [[m [Sx Kx]] [[ne [st [rows Sy]]] [DF [UR RD]]]]]]. rewrite Sx, Sy.
  pose proof Is as [Nn [I1 _]]. pose proof Id as [_ [J1 _]].
  pose proof (I1 _ _ Lx) as Okx. pose proof (J1 _ _ Ly) as Oky.
  pose proof Okx as [_ [_ A3]]. rewrite Sx in A3. destruct A3 as [ND A3].
  pose proof Oky as [_ [_ B]]. rewrite Sy in B. destruct B as [B1 [B2 B3]]. subst ne.
  destruct (fill_rows_spec (hp s) x (sn s) m (repeat (default_row (hp s) x) (Z.to_nat (sn s))) ND Kx (repeat_length _ _))
    as [out [F1 [F2 F3]]].
  rewrite F1. simpl. f_equal.
  apply nth_ext with (d := []) (d' := []); [lia|]. intros i Hi. rewrite F2 in Hi.
  assert (Hz : 0 <= Z.of_nat i < sn s) by lia.
  specialize (F3 _ Hz). rewrite Nat2Z.id in F3. rewrite F3.
  specialize (RD _ Hz). erewrite (rd_dense _ _ _ _ _ _ _ Oky Sy) in RD by lia.
  unfold znth_row in RD. rewrite Nat2Z.id in RD.
  destruct (lookup (Z.of_nat i) m) as [sv|] eqn:L.
  - destruct (rd_sparse_set _ _ _ _ _ _ Okx Sx L) as [row [R1 [R2 R3]]]. rewrite R1 in RD. inversion RD; subst.
    specialize (A3 _ _ L). destruct sv as [c|id]; simpl in *.
    + inversion R2. destruct A3 as [A3 Fx]. rewrite A3. simpl. rewrite <- Fx at 2. now rewrite cast_store.
    + destruct A3 as [_ [cl [Hc [_ [Hk Hf]]]]]. rewrite Hc in *. inversion R2. unfold fixed in Hf. rewrite Hk in Hf.
      symmetry. now apply fixed_cast_store.
  - rewrite (rd_sparse_unset _ _ _ _ _ Okx Sx L) in RD. inversion RD. rewrite nth_repeat_in by lia. congruence.
Qed.

(* both exports have the same shape: whatever convention the code uses (np.squeeze: (n,k) without its axes of
   length 1), the two storages use the same *)
Lemma export_shape_same n k : sparse_export_shape n k = dense_export_shape n k.
Proof. reflexivity. Qed.

Lemma sim_export_shape s d a :
  R s d -> do_export_shape s a = (s, snd (do_export_shape s a)) /\ do_export_shape d a = (d, snd (do_export_shape d a)) /\
           snd (do_export_shape s a) = snd (do_export_shape d a).
Proof.
  intros HR. pose proof HR as [C [N [Is [Id HA]]]]. unfold do_export_shape.
  pose proof (HA a) as Ha. unfold arel in Ha.
  destruct (lookup a (attrs s)) as [x|] eqn:Lx; destruct (lookup a (attrs d)) as [y|] eqn:Ly; try contradiction.
  2:{ auto. }
  destruct Ha as [T [Z0 [[m [Sx Kx]] [[ne [st [rows Sy]]] _]]]]. rewrite Sx, Sy.
  pose proof Is as [Nn [I1 _]]. pose proof Id as [_ [J1 _]].
  pose proof (I1 _ _ Lx) as [_ [_ A3]]. rewrite Sx in A3. destruct A3 as [ND _].
  pose proof (J1 _ _ Ly) as [_ [_ B]]. rewrite Sy in B. destruct B as [B1 [B2 _]].
  destruct (fill_rows_spec (hp s) x (sn s) m (repeat (default_row (hp s) x) (Z.to_nat (sn s))) ND Kx (repeat_length _ _))
    as [out [F1 _]].
  rewrite F1. simpl. split; [reflexivity|]. split; [reflexivity|].
  rewrite export_shape_same, B2, <- N, T, Z0. reflexivity.
Qed.

(* ------------------------------------------------------------------ one step of both worlds *)
Definition addressed (n : Z) (o : op) : Prop :=
  match o with SetItem _ k _ | GetItem _ k | Update _ k _ _ => 0 <= k < n | _ => True end.

Definition not_update (o : op) : Prop := match o with Update _ _ _ _ => False | _ => True end.

Lemma sim_step s d o :
  R s d -> op_ok o -> shared_op o -> short_op o -> not_update o -> addressed (sn s) o ->
  pub (snd (step s (force false o))) = pub (snd (step d (force true o))) /\
  R (fst (step s (force false o))) (fst (step d (force true o))) /\
  sn (fst (step s (force false o))) = size_after (corner s) (sn s) o.
Proof.
  intros HR Ho Hs Hsh Hnu Ha. pose proof HR as [C [N [Is [Id HA]]]].
  destruct o; simpl in Ho, Hs, Ha, Hnu; try contradiction; simpl force.
  - (* Create *)
    unfold step. simpl. destruct (sim_create (tick s) (tick d) a t k d0 (R_tick _ _ HR) Ho) as [W HR'].
    { destruct d0; exact Hsh || exact I. }
    split; [now rewrite W|]. split; [exact HR'|].
    unfold do_create. destruct (match lookup a (attrs (tick s)) with Some _ => create_keeps_existing | None => false end);
      [reflexivity|]. destruct (mk_default (hp (tick s)) t k d0) as [e|[h' df]]; reflexivity.
  - (* Delete *)
    unfold step. simpl. split; [reflexivity|]. split; [|reflexivity].
    split; [exact C|]. split; [exact N|].
    split; [apply (inv_delete (tick s)); exact Is|]. split; [apply (inv_delete (tick d)); exact Id|].
    intros b. destruct (Z.eq_dec b a) as [E|NE].
    + subst b. unfold arel. simpl. rewrite !lookup_del, Z.eqb_refl. exact I.
    + apply (arel_frame s d _ _ b Is Id (HA b)); simpl; auto; try apply hpres_refl; rewrite lookup_del;
        destruct (b =? a) eqn:E; try lia; reflexivity.
  - (* Has *)
    unfold step. simpl. split; [|split; [exact HR|reflexivity]].
    pose proof (HA a) as H. unfold arel in H. change (attrs (tick s)) with (attrs s). change (attrs (tick d)) with (attrs d).
    destruct (lookup a (attrs s)), (lookup a (attrs d)); try contradiction; reflexivity.
  - (* SetItem *)
    destruct (sim_set s d a key v HR Ha) as [W HR']. split; [now rewrite W|]. split; [exact HR'|].
    destruct (step s (SetItem a key v)) as [s' w] eqn:E. simpl.
    unfold step in E. simpl in E. unfold do_set in E.
    repeat (match type of E with context [match ?x with _ => _ end] => destruct x end); inversion E; reflexivity.
  - (* GetItem *)
    destruct (sim_get s d a key HR Ha) as [W HR']. split; [now rewrite W|]. split; [exact HR'|].
    destruct (step s (GetItem a key)) as [s' w] eqn:E. simpl. destruct (get_laws _ _ _ _ _ Is E) as [_ [_ [Q _]]]. exact Q.
  - (* Append *)
    unfold step. simpl. assert (Q : append_amount (tick d) = append_amount (tick s)) by (unfold append_amount; simpl; now rewrite C).
    rewrite Q. destruct (sim_grow (tick s) (tick d) 1 (append_amount (tick s)) (R_tick _ _ HR)) as [W HR']; [lia| |].
    + unfold append_amount. destruct (corner (tick s)); reflexivity.
    + split; [first [exact W|reflexivity]|]. split; [first [exact HR'|simpl in HR'; exact HR']|reflexivity].
  - (* ExtendList *)
    unfold step. simpl. assert (Q : iadd_list_amount (tick d) m = iadd_list_amount (tick s) m) by (unfold iadd_list_amount; simpl; now rewrite C).
    rewrite Q. destruct (sim_grow (tick s) (tick d) m (iadd_list_amount (tick s) m) (R_tick _ _ HR)) as [W HR']; [lia| |].
    + unfold iadd_list_amount. destruct (corner (tick s)); reflexivity.
    + split; [first [exact W|reflexivity]|]. split; [first [exact HR'|simpl in HR'; exact HR']|reflexivity].
  - (* ExtendOther *)
    unfold step. simpl. assert (Q : iadd_cont_amount (tick d) m m = iadd_cont_amount (tick s) m m) by (unfold iadd_cont_amount; simpl; now rewrite C).
    rewrite Q. destruct (sim_grow (tick s) (tick d) m (iadd_cont_amount (tick s) m m) (R_tick _ _ HR)) as [W HR']; [lia| |].
    + unfold iadd_cont_amount. destruct (corner (tick s)); reflexivity.
    + split; [first [exact W|reflexivity]|]. split; [first [exact HR'|simpl in HR'; exact HR']|reflexivity].
  - (* ExtendSelf *)
    assert (Ed : step d ExtendSelf = grow (tick d) (sn (tick s)) (iadd_cont_amount (tick s) (sn (tick s)) (sn (tick s) + sn (tick s)))).
    { unfold step. unfold iadd_cont_amount. simpl. rewrite <- N, <- C. reflexivity. }
    rewrite Ed. change (step s ExtendSelf) with (grow (tick s) (sn (tick s)) (iadd_cont_amount (tick s) (sn (tick s)) (sn (tick s) + sn (tick s)))).
    destruct (sim_grow (tick s) (tick d) (sn (tick s)) (iadd_cont_amount (tick s) (sn (tick s)) (sn (tick s) + sn (tick s))) (R_tick _ _ HR)) as [W HR'].
    + destruct Is; simpl; lia.
    + unfold iadd_cont_amount. destruct (corner (tick s)); reflexivity.
    + split; [exact W|]. split; [exact HR'|reflexivity].
  - (* ExtendBad *)
    unfold step. simpl. change (sn (tick d)) with (sn d). change (sn (tick s)) with (sn s). rewrite N.
    split; [reflexivity|]. split; [exact HR|reflexivity].
  - (* ClearAttr *)
    unfold step. simpl. destruct (sim_clear_attr (tick s) (tick d) a (R_tick _ _ HR)) as [W HR'].
    split; [now rewrite W|]. split; [exact HR'|].
    unfold do_clear_attr. destruct (lookup a (attrs (tick s))) as [x|]; [|reflexivity]. destruct (ast x); reflexivity.
  - (* AsArray *)
    unfold step. simpl. destruct (sim_as_array (tick s) (tick d) a (R_tick _ _ HR)) as [W HR'].
    split; [now rewrite W|]. split; [exact HR'|]. destruct (as_array_fields (tick s) a) as [_ [_ [Q _]]]. exact Q.
  - (* ClearAll *)
    unfold step. simpl. split; [reflexivity|]. split; [|reflexivity].
    pose proof (inv_step s ClearAll Is I) as Is'. pose proof (inv_step d ClearAll Id I) as Id'.
    split; [exact C|]. split; [reflexivity|]. split; [exact Is'|]. split; [exact Id'|].
    intros b. unfold arel. simpl. exact I.
  - (* CLen *)
    unfold step. simpl. change (sn (tick d)) with (sn d). change (sn (tick s)) with (sn s). rewrite N.
    split; [reflexivity|]. split; [exact HR|reflexivity].
  - (* ExtendListBad *)
    unfold step. cbn [force]. change (corner (tick s)) with (corner s). change (corner (tick d)) with (corner d).
    rewrite <- C. destruct (corner s) eqn:Cn.
    + simpl. change (sn (tick d)) with (sn d). change (sn (tick s)) with (sn s). rewrite N.
      split; [reflexivity|]. split; [exact HR|reflexivity].
    + assert (Q : iadd_list_amount (tick d) (m + 1) = iadd_list_amount (tick s) (m + 1)) by (unfold iadd_list_amount; simpl; rewrite <- C, Cn; reflexivity).
      rewrite Q. destruct (sim_grow (tick s) (tick d) (m + 1) (iadd_list_amount (tick s) (m + 1)) (R_tick _ _ HR)) as [W HR']; [lia| |].
      * unfold iadd_list_amount. change (corner (tick s)) with (corner s). rewrite Cn. reflexivity.
      * split; [exact W|]. split; [exact HR'|reflexivity].
  - (* ExportShape *)
    unfold step. simpl. destruct (sim_export_shape (tick s) (tick d) a (R_tick _ _ HR)) as [E1 [E2 W]].
    rewrite E1, E2. simpl. split; [now rewrite W|]. split; [exact HR|reflexivity].
Qed.

Lemma R_init c : R (init c) (init c).
Proof.
  split; [reflexivity|]. split; [reflexivity|]. split; [apply inv_init|]. split; [apply inv_init|].
  intros a. unfold arel. simpl. exact I.
Qed.

(* ------------------------------------------------------------------ attr[k][c] = x on an entry that was written *)
(* the sparse entry (a,k) holds a vector (it was written since the attribute was created / cleared) - or the
   attribute is missing / scalar, in which case both storages refuse alike *)
Definition upd_guard (s : state) (a k : Z) : Prop :=
  match lookup a (attrs s) with
  | Some x => match ast x with
              | Sparse m => 1 < asz x -> exists id, lookup k m = Some (SVec id)
              | Dense _ _ _ => True
              end
  | None => True
  end.

Lemma map_upd {A B} (f : A -> B) l i v : map f (upd l i v) = upd (map f l) i (f v).
Proof. revert i. induction l; intros [|i]; simpl; auto. now rewrite IHl. Qed.

Lemma R_with_refs s d rs rd_ :
  R s d -> Forall (ref_ok (hp s)) rs -> Forall (ref_ok (hp d)) rd_ -> R (with_refs s rs) (with_refs d rd_).
Proof.
  intros [C [N [[I0 [I1 I2]] [[J0 [J1 J2]] HA]]]] Hs Hd.
  split; [exact C|]. split; [exact N|]. split; [split; [exact I0|split; [exact I1|exact Hs]]|].
  split; [split; [exact J0|split; [exact J1|exact Hd]]|]. exact HA.
Qed.

Lemma mut_ref_fields s rf c x :
  corner (mut_ref s rf c x) = corner s /\ sn (mut_ref s rf c x) = sn s /\ refs (mut_ref s rf c x) = refs s.
Proof.
  destruct rf as [id|a st k|a st|]; simpl; auto.
  - destruct (nth_error (hp s) id); auto.
  - destruct (lookup a (attrs s)) as [xx|]; auto. destruct (ast xx); auto. destruct (_ =? _); auto.
Qed.

Lemma sim_update s d a k c x0 :
  R s d -> own s -> 0 <= k < sn s -> upd_guard s a k ->
  snd (do_update s a k c x0) = snd (do_update d a k c x0) /\
  R (fst (do_update s a k c x0)) (fst (do_update d a k c x0)) /\
  (length (refs (fst (do_update s a k c x0))) - length (refs s) =
   length (refs (fst (do_update d a k c x0))) - length (refs d))%nat /\
  sn (fst (do_update s a k c x0)) = sn s.
Proof.
  intros HR Ow Hk G. pose proof HR as [C [N [Is [Id HA]]]].
  pose proof (HA a) as Ha. unfold arel in Ha. unfold upd_guard in G. unfold do_update, do_get.
  destruct (lookup a (attrs s)) as [x|] eqn:Lx; destruct (lookup a (attrs d)) as [y|] eqn:Ly; try contradiction.
  2:{ simpl. split; [reflexivity|split; [exact HR|split; [lia|reflexivity]]]. }
  destruct Ha as [T [Z0 [[m [Sx Kx]] [[ne [st [rows Sy]]] [DF [UR RD]]]]]]. rewrite Sx in G |- *. rewrite Sy.
  pose proof Is as [Nn [I1 I2]]. pose proof Id as [_ [J1 J2]].
  pose proof (I1 _ _ Lx) as Okx. pose proof (J1 _ _ Ly) as Oky.
  pose proof Okx as [A1 [A2 A3]]. rewrite Sx in A3. destruct A3 as [ND A3].
  pose proof Oky as [_ [_ B]]. rewrite Sy in B. destruct B as [B1 [B2 B3]]. subst ne.
  rewrite (in_range_not_oob k (sn d)) by lia. unfold dense_get_scalar, sparse_get_fresh.
  destruct (Z_lt_dec 1 (asz x)) as [Vec|Scal].
  2:{ (* scalar attribute: a scalar does not support item assignment, in either storage *)
      assert (E1 : asz x = 1) by lia. assert (E2 : asz y =? 1 = true) by lia. rewrite E2.
      assert (E3 : asz x >? 1 = false) by lia. rewrite E3.
      destruct (lookup k m) as [[c0|id]|] eqn:Lk.
      - simpl. split; [reflexivity|split; [exact HR|split; [lia|reflexivity]]].
      - exfalso. destruct (A3 _ _ Lk) as [L _]. lia.
      - destruct (adef x) as [c0|id] eqn:D; [simpl; split; [reflexivity|split; [exact HR|split; [lia|reflexivity]]]|]. exfalso. destruct A2 as [L _]. lia. }
  destruct (G Vec) as [id Lk]. rewrite Lk. destruct (A3 _ _ Lk) as [_ [cl [Hc [Hr [Hkd Hfx]]]]]. rewrite Hc.
  assert (E2 : asz y =? 1 = false) by lia. rewrite E2.
  (* the two rows read alike *)
  pose proof (RD k Hk) as RDk. erewrite (rd_dense _ _ _ _ _ _ _ Oky Sy) in RDk by lia.
  unfold rd_attr in RDk. rewrite Sx, Lk in RDk. simpl in RDk. rewrite Hc in RDk. inversion RDk as [RowEq]. clear RDk.
  rewrite RowEq.
  assert (N1 : nth_error (refs (with_refs s (refs s ++ [RObj id]))) (length (refs s)) = Some (RObj id)) by (simpl; apply nth_error_app_new).
  assert (N2 : nth_error (refs (with_refs d (refs d ++ [RRow a st k]))) (length (refs d)) = Some (RRow a st k)) by (simpl; apply nth_error_app_new).
  assert (RS : Forall (ref_ok (hp s)) (refs s ++ [RObj id])).
  { apply Forall_app. split; [exact I2|]. constructor; [|constructor]. simpl. apply nth_error_Some. congruence. }
  assert (RDn : Forall (ref_ok (hp d)) (refs d ++ [RRow a st k])).
  { apply Forall_app. split; [exact J2|]. constructor; [|constructor]. simpl. lia. }
  pose proof (R_with_refs s d _ _ HR RS RDn) as HR1.
  destruct ((c <? 0) || (c >=? Z.of_nat (length (znth_row rows k)))) eqn:Cr.
  { simpl. split; [reflexivity|]. split; [exact HR1|]. split; [rewrite !app_length; simpl; lia|reflexivity]. }
  rewrite <- T. destruct (overflows (aty x) x0).
  { simpl. split; [reflexivity|]. split; [exact HR1|]. split; [rewrite !app_length; simpl; lia|reflexivity]. }
  rewrite N1, N2. cbn [fst snd]. split; [reflexivity|].
  set (s1 := with_refs s (refs s ++ [RObj id])) in *. set (d1 := with_refs d (refs d ++ [RRow a st k])) in *.
  pose proof HR1 as [_ [_ [Is1 [Id1 _]]]].
  assert (T1 : tracked id a k s1).
  { assert (En : entryA (attrs s) a k id) by (exists x, m; auto). exact (Ow _ _ _ En). }
  split; [|split].
  2:{ destruct (mut_ref_fields s1 (RObj id) c x0) as [_ [_ Q1]]. destruct (mut_ref_fields d1 (RRow a st k) c x0) as [_ [_ Q2]].
      rewrite Q1, Q2. unfold s1, d1. simpl. rewrite !app_length. simpl. lia. }
  2:{ destruct (mut_ref_fields s1 (RObj id) c x0) as [_ [Q1 _]]. exact Q1. }
  (* the relation after the two updates *)
  destruct (mut_ref_fields s1 (RObj id) c x0) as [CS1 [NS1 _]]. destruct (mut_ref_fields d1 (RRow a st k) c x0) as [CD1 [ND1 _]].
  split; [rewrite CS1, CD1; exact C|]. split; [rewrite NS1, ND1; exact N|].
  split; [apply inv_mut_ref; exact Is1|]. split; [apply inv_mut_ref; exact Id1|].
  pose proof (inv_mut_ref d1 (RRow a st k) c x0 Id1) as Id2.
  intros b. unfold arel.
  assert (AS : attrs (mut_ref s1 (RObj id) c x0) = attrs s) by (simpl; change (hp s1) with (hp s); rewrite Hc; reflexivity).
  assert (NS : sn (mut_ref s1 (RObj id) c x0) = sn s) by (simpl; change (hp s1) with (hp s); rewrite Hc; reflexivity).
  rewrite AS, NS.
  assert (HS : hp (mut_ref s1 (RObj id) c x0) = upd (hp s) id (mkcell (ck cl) (upd (cv cl) (Z.to_nat c) (store (ck cl) x0))))
    by (simpl; change (hp s1) with (hp s); rewrite Hc; reflexivity).
  rewrite HS.
  assert (AD : attrs (mut_ref d1 (RRow a st k) c x0)
               = put a (set_storage y (Dense (sn d) st (upd rows (Z.to_nat k) (upd (znth_row rows k) (Z.to_nat c) (store (aty y) x0))))) (attrs d))
    by (simpl; change (attrs d1) with (attrs d); rewrite Ly, Sy, Z.eqb_refl; reflexivity).
  assert (HD : hp (mut_ref d1 (RRow a st k) c x0) = hp d)
    by (simpl; change (attrs d1) with (attrs d); rewrite Ly, Sy, Z.eqb_refl; reflexivity).
  rewrite AD, HD in *.
  (* what the update of cell id leaves untouched in the sparse world *)
  assert (PR : forall b' xb, lookup b' (attrs s) = Some xb ->
               default_row (upd (hp s) id (mkcell (ck cl) (upd (cv cl) (Z.to_nat c) (store (ck cl) x0)))) xb = default_row (hp s) xb /\
               forall j, (b', j) <> (a, k) ->
                         rd_attr (upd (hp s) id (mkcell (ck cl) (upd (cv cl) (Z.to_nat c) (store (ck cl) x0)))) xb j = rd_attr (hp s) xb j).
  { intros b' xb Lb. destruct T1 as [_ [T2 T3]]. change (attrs s1) with (attrs s) in *.
    assert (NDc : adef xb <> DCell id) by (intros Q; apply (T3 b'); exists xb; auto).
    split.
    - unfold default_row. destruct (adef xb) as [c0|id'] eqn:Dx; [reflexivity|].
      rewrite nth_error_upd_other; [reflexivity|]. intros Q. apply NDc. now subst.
    - intros j Nj. apply rd_attr_heap_upd; [exact NDc|]. intros m0 St0 Lk0.
      destruct (T2 b' j) as [Eq1 Eq2]; [exists xb, m0; auto|]. apply Nj. congruence. }
  destruct (Z.eq_dec b a) as [Eb|NE].
  - subst b. rewrite Lx, lookup_put_same. simpl.
    destruct (PR a x Lx) as [PD PRd].
    split; [exact T|]. split; [exact Z0|]. split; [exists m; auto|]. split; [eauto|].
    split; [rewrite PD; exact DF|]. split; [unfold unset_read in *; rewrite PD; exact UR|].
    intros j Hj. destruct (Z.eq_dec j k) as [Ej|Nj].
    + subst j. unfold rd_attr at 1. rewrite Sx, Lk. simpl.
      rewrite nth_error_upd_same by (apply nth_error_Some; congruence). simpl.
      destruct Id2 as [_ [J1' _]]. rewrite AD in J1'. pose proof (J1' a _ (lookup_put_same _ _ _)) as Oky'.
      rewrite ND1 in Oky'. rewrite HD in Oky'.
      erewrite rd_dense; [|exact Oky'|reflexivity|change (sn d1) with (sn d); rewrite <- N; exact Hk]. f_equal. unfold znth_row at 1.
      rewrite nth_upd_same by lia. rewrite map_upd, RowEq, Hkd, <- T, cast_store. reflexivity.
    + rewrite PRd by congruence. rewrite (RD j Hj).
      unfold rd_attr. simpl. rewrite Sy. destruct (dense_oob j (sn d)) eqn:O; [reflexivity|].
      unfold znth_row. rewrite nth_upd_other by lia. reflexivity.
  - rewrite lookup_put_other by exact NE. pose proof (HA b) as Hb. unfold arel in Hb.
    destruct (lookup b (attrs s)) as [xb|] eqn:Lb; destruct (lookup b (attrs d)) as [yb|] eqn:Lyb; try contradiction; [|exact I].
    destruct (PR b xb Lb) as [PD PRd].
    destruct Hb as [Tb [Zb [Kb [DNb [DFb [URb RDb]]]]]].
    split; [exact Tb|]. split; [exact Zb|]. split; [exact Kb|]. split; [exact DNb|].
    split; [rewrite PD; exact DFb|]. split; [unfold unset_read in *; rewrite PD; exact URb|].
    intros j Hj. rewrite PRd by congruence. now apply RDb.
Qed.

(* ------------------------------------------------------------------ references are handed out in step *)
Definition bump (o : op) (w : obs) : nat :=
  match o, w with
  | GetItem _ _, OVal _ true => 1
  | AsArray _, ORows _ => 1
  | _, _ => 0
  end.

Lemma bump_pub o w w' : pub w = pub w' -> bump o w = bump o w'.
Proof. destruct o, w, w'; simpl; intros H; try discriminate H; try reflexivity; inversion H; reflexivity. Qed.

Lemma refs_len_step s o s' w :
  shared_op o -> not_update o -> step s o = (s', w) -> length (refs s') = (length (refs s) + bump o w)%nat.
Proof.
  intros Hs Hn E. unfold step in E. change (refs s) with (refs (tick s)). set (t := tick s) in *. clearbody t. clear s.
  destruct o; simpl in Hs, Hn; try contradiction; simpl in E.
  - unfold do_create in E. destruct (match lookup a (attrs t) with Some _ => create_keeps_existing | None => false end);
      [inversion E; subst; simpl; lia|].
    destruct (mk_default (hp t) t0 k d) as [e|[h' df]]; inversion E; subst; simpl; lia.
  - inversion E; subst; simpl; lia.
  - inversion E; subst; simpl; lia.
  - unfold do_set in E. repeat (match type of E with context [match ?x with _ => _ end] => destruct x end);
      inversion E; subst; simpl; lia.
  - unfold do_get in E. repeat (match type of E with context [match ?x with _ => _ end] => destruct x end);
      inversion E; subst; simpl; rewrite ?app_length; simpl; lia.
  - unfold grow in E; inversion E; subst; simpl; lia.
  - unfold grow in E; inversion E; subst; simpl; lia.
  - unfold grow in E; inversion E; subst; simpl; lia.
  - unfold grow in E; inversion E; subst; simpl; lia.
  - inversion E; subst; simpl; lia.
  - unfold do_clear_attr in E. repeat (match type of E with context [match ?x with _ => _ end] => destruct x end);
      inversion E; subst; simpl; lia.
  - unfold do_as_array in E. repeat (match type of E with context [match ?x with _ => _ end] => destruct x end);
      inversion E; subst; simpl; rewrite ?app_length; simpl; lia.
  - inversion E; subst; simpl; lia.
  - inversion E; subst; simpl; lia.
  - destruct (corner t); [inversion E; subst; simpl; lia|unfold grow in E; inversion E; subst; simpl; lia].
  - unfold do_export_shape in E. repeat (match type of E with context [match ?x with _ => _ end] => destruct x end);
      inversion E; subst; simpl; lia.
Qed.

Lemma do_get_corner s a k : corner (fst (do_get s a k)) = corner s.
Proof. unfold do_get. repeat (match goal with |- context [match ?x with _ => _ end] => destruct x end); reflexivity. Qed.

Lemma step_corner s o : corner (fst (step s o)) = corner s.
Proof.
  unfold step. change (corner s) with (corner (tick s)). set (t := tick s). clearbody t.
  destruct o; cbn [fst]; try reflexivity.
  - unfold do_create. repeat (match goal with |- context [match ?x with _ => _ end] => destruct x end); reflexivity.
  - unfold do_set. repeat (match goal with |- context [match ?x with _ => _ end] => destruct x end); reflexivity.
  - apply do_get_corner.
  - unfold do_mut. destruct (nth_error (refs t) r) as [[id|a st k|a st|]|]; try reflexivity; cbn [fst]; apply mut_ref_fields.
  - unfold do_clear_attr. repeat (match goal with |- context [match ?x with _ => _ end] => destruct x end); reflexivity.
  - apply as_array_fields.
  - destruct (lookup a (attrs t)); reflexivity.
  - destruct (lookup a (attrs t)) as [x|]; [destruct (ast x)|]; reflexivity.
  - unfold do_update. pose proof (do_get_corner t a key) as G. destruct (do_get t a key) as [s1 w1]. simpl in G.
    destruct w1; try exact G. destruct isvec; [|exact G].
    destruct ((c <? 0) || (c >=? Z.of_nat (length row))); [exact G|].
    destruct (match lookup a (attrs t) with Some at_ => overflows (aty at_) x | None => false end); [exact G|].
    destruct (nth_error (refs s1) (length (refs t))) as [rf|]; [|exact G]. cbn [fst].
    destruct (mut_ref_fields s1 rf c x) as [Q _]. congruence.
  - unfold do_mut_arr. destruct (nth_error (refs t) r) as [[id|a st k|a st|]|]; try reflexivity.
    destruct (row <? 0); [reflexivity|]. cbn [fst]. apply mut_ref_fields.
  - unfold do_contains. repeat (match goal with |- context [match ?x with _ => _ end] => destruct x end); reflexivity.
  - destruct (corner t) eqn:Cn; simpl; [exact Cn|exact Cn].
  - unfold do_create_sized. repeat (match goal with |- context [match ?x with _ => _ end] => destruct x end); reflexivity.
  - unfold do_register. repeat (match goal with |- context [match ?x with _ => _ end] => destruct x end); reflexivity.
  - unfold do_export_shape. repeat (match goal with |- context [match ?x with _ => _ end] => destruct x end); reflexivity.
Qed.

(* ------------------------------------------------------------------ the full relation and the run *)
Definition RR (s d : state) : Prop := R s d /\ length (refs s) = length (refs d) /\ own s.

Lemma RR_init c : RR (init c) (init c).
Proof. split; [apply R_init|]. split; [reflexivity|apply own_init]. Qed.

(* guard of the in-place updates of a history: each one hits an entry that holds a written vector at that time
   (evaluated along the sparse run) *)
Fixpoint updates_hit_written (s : state) (h : list op) : Prop :=
  match h with
  | [] => True
  | o :: t => match o with Update a k _ _ => upd_guard s a k | _ => True end /\
              updates_hit_written (fst (step s (force false o))) t
  end.

Lemma sim_step_full s d o :
  RR s d -> op_ok o -> shared_op o -> short_op o -> addressed (sn s) o ->
  match o with Update a k _ _ => upd_guard s a k | _ => True end ->
  pub (snd (step s (force false o))) = pub (snd (step d (force true o))) /\
  RR (fst (step s (force false o))) (fst (step d (force true o))) /\
  sn (fst (step s (force false o))) = size_after (corner s) (sn s) o /\
  corner (fst (step s (force false o))) = corner s.
Proof.
  intros [HR [HL Ow]] Ho Hs Hsh Ha G.
  assert (Ow' : own (fst (step s (force false o)))).
  { apply own_step; [destruct HR as [_ [_ [Is _]]]; exact Is| |exact Ow]. destruct o; exact Ho. }
  assert (CN : corner (fst (step s (force false o))) = corner s) by apply step_corner.
  assert (NU : not_update o \/ exists a key c x, o = Update a key c x) by (destruct o; simpl; eauto 6).
  destruct NU as [NU|[a [key [c [x Eo]]]]].
  { destruct (sim_step s d _ HR Ho Hs Hsh NU Ha) as [W [HR' Sz]].
    split; [exact W|]. split; [|split; [exact Sz|exact CN]].
    split; [exact HR'|]. split; [|exact Ow'].
    assert (Hs' : shared_op (force false o)) by (destruct o; exact Hs).
    assert (Hs'' : shared_op (force true o)) by (destruct o; exact Hs).
    assert (NU' : not_update (force false o)) by (destruct o; exact NU).
    assert (NU'' : not_update (force true o)) by (destruct o; exact NU).
    destruct (step s (force false o)) as [s1 w1] eqn:E1. destruct (step d (force true o)) as [d1 w2] eqn:E2.
    simpl in *. rewrite (refs_len_step _ _ _ _ Hs' NU' E1), (refs_len_step _ _ _ _ Hs'' NU'' E2), HL. f_equal.
    transitivity (bump o w1); [destruct o; reflexivity|]. transitivity (bump o w2); [|destruct o; reflexivity].
    apply bump_pub. exact W. }
  subst o.
  (* Update *)
  simpl force. unfold step. simpl in *.
  destruct (sim_update (tick s) (tick d) a key c x (R_tick _ _ HR) Ow Ha G) as [W [HR' [HLn Sz]]].
  split; [now rewrite W|]. split; [|split; [exact Sz|exact CN]].
  split; [exact HR'|]. split; [|exact Ow'].
  pose proof (do_get_mono (tick s) a key) as M1. pose proof (do_get_mono (tick d) a key) as M2.
  assert (G1 : (length (refs (tick s)) <= length (refs (fst (do_update (tick s) a key c x))))%nat).
  { pose proof (step_mono s (Update a key c x) _ _ (surjective_pairing _)) as [_ [ex Ex]]. unfold step in Ex. simpl in Ex.
    change (refs (tick s)) with (refs s). rewrite Ex, app_length. lia. }
  assert (G2 : (length (refs (tick d)) <= length (refs (fst (do_update (tick d) a key c x))))%nat).
  { pose proof (step_mono d (Update a key c x) _ _ (surjective_pairing _)) as [_ [ex Ex]]. unfold step in Ex. simpl in Ex.
    change (refs (tick d)) with (refs d). rewrite Ex, app_length. lia. }
  change (refs (tick s)) with (refs s) in *. change (refs (tick d)) with (refs d) in *. lia.
Qed.

Lemma sim_run_full : forall h s d,
  RR s d -> Forall op_ok h -> Forall shared_op h -> Forall short_op h ->
  well_addressed (corner s) (sn s) h -> updates_hit_written s h ->
  map pub (snd (run s (map (force false) h))) = map pub (snd (run d (map (force true) h))).
Proof.
  induction h as [|o t IH]; intros s d HR H1 H2 H3 H4 H5; simpl; [reflexivity|].
  inversion H1 as [|? ? Ho1 Ht1]; subst. inversion H2 as [|? ? Ho2 Ht2]; subst. inversion H3 as [|? ? Ho3 Ht3]; subst.
  destruct H4 as [Ha4 Ht4]. destruct H5 as [Hg5 Ht5].
  destruct (sim_step_full s d o HR Ho1 Ho2 Ho3 Ha4 Hg5) as [W [HR' [Sz Cn]]].
  destruct (step s (force false o)) as [s1 w1]. destruct (step d (force true o)) as [d1 w2]. simpl in *.
  specialize (IH s1 d1 HR'). rewrite Sz, Cn in IH.
  destruct (run s1 (map (force false) t)) as [s2 ws]. destruct (run d1 (map (force true) t)) as [d2 wd]. simpl in *.
  f_equal; [exact W|]. apply IH; assumption.
Qed.

(* the statement: along every history of shared operations - in-place updates attr[k][c] = x of written entries
   included - whose reads and writes address elements of the container and whose strings fit the fixed width,
   the all-sparse and the all-dense run answer alike *)
Theorem sparse_dense_agree : forall c h,
  Forall op_ok h -> Forall shared_op h -> Forall short_op h -> well_addressed c 0 h ->
  updates_hit_written (init c) h ->
  map pub (snd (run (init c) (map (force false) h))) = map pub (snd (run (init c) (map (force true) h))).
Proof. intros c h H1 H2 H3 H4 H5. apply sim_run_full; auto. apply RR_init. Qed.

(* ------------------------------------------------------------------ where the full statement fails (known findings) *)
(* 1. an in-place update of the value read at a never-written entry: the dense read is a view and writes through,
      the sparse read is a detached copy of the default *)
Definition wit_update : list op :=
  [Append; Create 0 TFloat 2 false None; Update 0 0 0 (CF 40); GetItem 0 0].

Theorem agree_updates_unset_refuted :
  exists c h, Forall op_ok h /\ Forall shared_op h /\ Forall short_op h /\ well_addressed c 0 h /\
              map pub (snd (run (init c) (map (force false) h))) <> map pub (snd (run (init c) (map (force true) h))).
Proof.
  exists false, wit_update. unfold wit_update. repeat split; try (repeat constructor; simpl; try lia; auto).
  vm_compute. intros H. discriminate H.
Qed.

(* 2. a custom default string longer than the fixed width of the numpy storage: the dense storage (and every as_array)
      cuts it, the sparse read of a never-written scalar entry returns the default object as it is *)
Definition long_string : list Z := repeat 120 33.

Definition wit_long : list op :=
  [Append; Create 0 TString 1 false (Some (CS long_string)); GetItem 0 0].

Theorem agree_long_strings_refuted :
  exists c h, Forall op_ok h /\ Forall shared_op h /\ well_addressed c 0 h /\ updates_hit_written (init c) h /\
              map pub (snd (run (init c) (map (force false) h))) <> map pub (snd (run (init c) (map (force true) h))).
Proof.
  exists false, wit_long. unfold wit_long. repeat split; try (repeat constructor; simpl; try lia; auto).
  vm_compute. intros H. discriminate H.
Qed.
