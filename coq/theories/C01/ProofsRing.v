(* C01 - the rotational sort of the corners around a vertex (_sort_vertex_neighborhoods) *)
From Coq Require Import ZArith List Bool Lia Sorting.Permutation Sorting.Sorted.
Import ListNotations.
Require Import MV.C01.Defs MV.C01.Gen MV.C01.Model MV.C01.Spec
        MV.C01.ProofsMaps MV.C01.ProofsCorners MV.C01.ProofsTables MV.C01.ProofsSort.
Open Scope Z_scope.

Section Ring.
  Variable nv : Z.
  Variable faces : list (list Z).
  Hypothesis Hwf : wf_faces nv faces.
  Let Hfaces : Forall (face_ok nv) faces := proj1 Hwf.
  Let Horiented : oriented faces := proj2 Hwf.

  (* ---------------------------------------------------------------- the specification's rotation on corner records *)
  Lemma sp_corner_self x : In x (all_corners faces) -> sp_corner faces (cid x) = Some x.
  Proof.
    intros Hx. unfold sp_corner. destruct (find (fun y => cid y =? cid x) (all_corners faces)) as [y|] eqn:E.
    - apply find_some in E as [Hy Ey]. apply Z.eqb_eq in Ey. f_equal. apply (corner_same_id faces); auto.
    - pose proof (find_none _ _ E x Hx) as Hn. cbn in Hn. rewrite Z.eqb_refl in Hn. discriminate.
  Qed.
  Lemma sp_corner_In c x : sp_corner faces c = Some x -> In x (all_corners faces) /\ cid x = c.
  Proof. unfold sp_corner. intros H. apply find_some in H as [H1 H2]. apply Z.eqb_eq in H2. auto. Qed.

  Lemma next_of_prev x : In x (all_corners faces) -> ((ci x - 1) mod cn x + 1) mod cn x = ci x.
  Proof.
    intros Hx. pose proof (corner_pos_range faces x Hx) as R.
    destruct (Z.eq_dec (ci x) 0) as [E0|N0].
    - rewrite E0. replace (0 - 1) with (-1) by lia.
      replace (-1 mod cn x) with (cn x - 1).
      + replace (cn x - 1 + 1) with (cn x) by lia. rewrite Z_mod_same_full. lia.
      + apply Z.mod_unique with (q := -1); lia.
    - rewrite (Z.mod_small (ci x - 1)) by lia. replace (ci x - 1 + 1) with (ci x) by lia. apply Z.mod_small. lia.
  Qed.

  Lemma prev_sib_he x y :
    In x (all_corners faces) -> In y (all_corners faces) -> cf y = cf x -> ci y = (ci x - 1) mod cn x -> cn y = cn x ->
    ct y = cv x.
  Proof.
    intros Hx Hy Ef Ei En. pose proof (next_of_prev x Hx) as E.
    apply all_corners_In in Hx as (F & H1 & H2 & H3 & _). apply all_corners_In in Hy as (G & K1 & K2 & K3 & K4 & _).
    rewrite Ef in K1. assert (G = F) by congruence. subst G. rewrite K4, Ei, En.
    rewrite E. apply zth_d_Some. exact H2.
  Qed.

  Lemma L_prev x : In x (all_corners faces) -> sp_prev faces (cid x) = Some (prev_id x).
  Proof. intros Hx. unfold sp_prev. rewrite (sp_corner_self x Hx). reflexivity. Qed.
  Lemma L_next x : In x (all_corners faces) -> sp_next faces (cid x) = Some (next_id x).
  Proof. intros Hx. unfold sp_next. rewrite (sp_corner_self x Hx). reflexivity. Qed.
  Lemma L_opp x : In x (all_corners faces) -> sp_opp faces (cid x) = option_map cid (sp_he faces (ct x) (cv x)).
  Proof.
    intros Hx. unfold sp_opp. rewrite (sp_corner_self x Hx). destruct (sp_he faces (ct x) (cv x)); reflexivity.
  Qed.

  Lemma L_cw x : In x (all_corners faces) -> sp_cw faces (cid x) = option_map cid (sp_he faces (cv x) (cp x)).
  Proof.
    intros Hx. unfold sp_cw. rewrite (L_prev x Hx).
    destruct (prev_sibling faces x Hx) as (y & Hy & A1 & A2 & A3 & A4 & A5).
    assert (Ey : prev_id x = cid y) by (unfold prev_id; lia). rewrite Ey, (L_opp y Hy).
    rewrite (prev_sib_he x y Hx Hy A1 A2 A3), A5. reflexivity.
  Qed.

  Lemma L_ccw x : In x (all_corners faces) -> sp_ccw faces (cid x) = option_map next_id (sp_he faces (ct x) (cv x)).
  Proof.
    intros Hx. unfold sp_ccw. rewrite (L_opp x Hx).
    destruct (sp_he faces (ct x) (cv x)) as [y|] eqn:E; [|reflexivity].
    apply (sp_he_some faces) in E as (Hy & _). cbn. apply (L_next y Hy).
  Qed.

  (* the two rotations are inverse of each other *)
  Lemma L_inv a b :
    In a (all_corners faces) -> In b (all_corners faces) ->
    sp_cw faces (cid b) = Some (cid a) -> sp_ccw faces (cid a) = Some (cid b).
  Proof.
    intros Ha Hb H. rewrite (L_cw b Hb) in H.
    destruct (sp_he faces (cv b) (cp b)) as [a'|] eqn:E; [|discriminate]. cbn in H. inversion H as [Eid].
    pose proof (sp_he_some faces _ _ _ E) as (Ha' & E1 & E2).
    assert (a' = a) by (apply (corner_same_id faces); auto). subst a'.
    rewrite (L_ccw a Ha), E2, E1.
    destruct (prev_sibling faces b Hb) as (bp & Hbp & A1 & A2 & A3 & A4 & A5).
    pose proof (prev_sib_he b bp Hb Hbp A1 A2 A3) as Ect.
    rewrite <- A5, <- Ect, (sp_he_self faces Horiented bp Hbp). cbn. f_equal.
    unfold next_id. rewrite A4, A2, A3, (next_of_prev b Hb). lia.
  Qed.
End Ring.

(* ------------------------------------------------------------------ the model's walks are the specification's rotations *)
Section RingModel.
  Variable nv : Z.
  Variable faces : list (list Z).
  Hypothesis Hwf : wf_faces nv faces.
  Let Hfaces : Forall (face_ok nv) faces := proj1 Hwf.
  Let Horiented : oriented faces := proj2 Hwf.
  Variable T : tables.
  Hypothesis HT : tspec4 nv faces T.

  Lemma he_lookup_T u v :
    zzget (u, v) (t_he T)
    = match sp_he faces u v with Some x => Some (R1 x (option_map cid (sp_he faces v u))) | None => None end.
  Proof.
    destruct HT as (T0 & es & S & (E1 & _)). rewrite E1.
    destruct (sp_he faces u v) as [x|] eqn:E.
    - apply (sp_he_some faces) in E as (Hx & <- & <-). apply (ts_he _ _ _ _ S x Hx).
    - apply (ts_he_none _ _ _ _ S). intros x Hx Ek. inversion Ek. eapply (sp_he_none faces); eauto.
  Qed.
  Lemma c2h_lookup_T c : zget c (t_Cn2he T) = sp_corner_to_half_edge faces c.
  Proof. destruct HT as (T0 & es & S & (_ & E2 & _)). rewrite E2. apply (ts_c2h _ _ _ _ S). Qed.

  Lemma corner_field_T slot c :
    corner_field (t_Cn2he T) (t_he T) slot c
    = match sp_corner faces c with
      | Some x => rec_slot (R1 x (option_map cid (sp_he faces (ct x) (cv x)))) slot
      | None => Ok None
      end.
  Proof.
    unfold corner_field. rewrite c2h_lookup_T. unfold sp_corner_to_half_edge.
    destruct (sp_corner faces c) as [x|] eqn:Ex; [|reflexivity].
    apply sp_corner_In in Ex as [Hx _]. rewrite he_lookup_T, (sp_he_self faces Horiented x Hx). reflexivity.
  Qed.

  Lemma step_prev c : apply_step T W_prev (Some c) = Ok (sp_prev faces c).
  Proof. cbn [apply_step step_slot]. rewrite corner_field_T. unfold sp_prev. destruct (sp_corner faces c); reflexivity. Qed.
  Lemma step_next c : apply_step T W_next (Some c) = Ok (sp_next faces c).
  Proof. cbn [apply_step step_slot]. rewrite corner_field_T. unfold sp_next. destruct (sp_corner faces c); reflexivity. Qed.
  Lemma step_opp c : apply_step T W_opp (Some c) = Ok (sp_opp faces c).
  Proof.
    cbn [apply_step step_slot]. rewrite corner_field_T. unfold sp_opp. destruct (sp_corner faces c) as [x|]; [|reflexivity].
    cbn. destruct (sp_he faces (ct x) (cv x)); reflexivity.
  Qed.

  Lemma steps_cw c : apply_steps T cw_steps (Some c) = Ok (sp_cw faces c).
  Proof.
    unfold cw_steps. cbn [apply_steps]. rewrite step_prev. cbn [bind]. unfold sp_cw.
    destruct (sp_prev faces c) as [p|]; [rewrite step_opp|]; reflexivity.
  Qed.

  Lemma walk_cw_eq fuel : forall c ind si,
    walk T cw_steps [] cw_delta fuel c ind si = Ok (walk_spec (sp_cw faces) (-1) fuel c ind si).
  Proof.
    induction fuel as [|k IH]; intros c ind si; [reflexivity|].
    cbn [walk walk_spec]. rewrite steps_cw. cbn [bind].
    destruct (sp_cw faces c) as [c'|]; [|reflexivity]. cbn [apply_steps bind]. apply IH.
  Qed.

  Lemma sp_opp_valid c o : sp_opp faces c = Some o -> exists y, In y (all_corners faces) /\ cid y = o.
  Proof.
    unfold sp_opp. destruct (sp_corner faces c) as [x|]; [|discriminate].
    destruct (sp_he faces (ct x) (cv x)) as [y|] eqn:E; [|discriminate]. intros H. inversion H.
    apply (sp_he_some faces) in E as (Hy & _). eauto.
  Qed.

  Lemma walk_ccw_eq fuel : forall c ind si,
    walk T ccw_steps_before_test ccw_steps_after_test ccw_delta fuel c ind si
    = Ok (walk_spec (sp_ccw faces) 1 fuel c ind si).
  Proof.
    induction fuel as [|k IH]; intros c ind si; [reflexivity|].
    cbn [walk walk_spec]. unfold ccw_steps_before_test, ccw_steps_after_test. cbn [apply_steps].
    rewrite step_opp. cbn [bind]. unfold sp_ccw.
    destruct (sp_opp faces c) as [o|] eqn:Eo; [|reflexivity].
    rewrite step_next. cbn [bind].
    destruct (sp_opp_valid c o Eo) as (y & Hy & <-). rewrite (L_next faces y Hy). apply IH.
  Qed.
End RingModel.

(* ------------------------------------------------------------------ list-level: the sorted ring *)
Section RingList.
  Variable nv : Z.
  Variable faces : list (list Z).
  Hypothesis Hwf : wf_faces nv faces.

  Definition valid_corner (c : Z) : Prop := exists x, In x (all_corners faces) /\ cid x = c.

  Lemma corners_at_In A c : In c (corners_at faces A) <-> exists x, In x (all_corners faces) /\ cid x = c /\ cv x = A.
  Proof.
    unfold corners_at. rewrite in_map_iff. split.
    - intros (x & E & Hx). apply filter_In in Hx as [Hx Ev]. apply Z.eqb_eq in Ev. eauto.
    - intros (x & Hx & E & Ev). exists x. split; [exact E|]. apply filter_In. split; [exact Hx|]. apply Z.eqb_eq, Ev.
  Qed.

  Lemma NoDup_map_filter {A B} (g : A -> B) (p : A -> bool) l : NoDup (map g l) -> NoDup (map g (filter p l)).
  Proof.
    induction l as [|a t IH]; cbn; intros H; [constructor|]. inversion H; subst.
    destruct (p a); cbn; [constructor|]; auto.
    intros Hin. apply H2. apply in_map_iff in Hin as (y & E & Hy). apply filter_In in Hy as [Hy _].
    apply in_map_iff. eauto.
  Qed.

  Lemma NoDup_corners_at A : NoDup (corners_at faces A).
  Proof. unfold corners_at. apply NoDup_map_filter. apply (NoDup_cid faces). Qed.

  Lemma chain_cw_app l1 l2 : chain_cw faces (l1 ++ l2) -> chain_cw faces l1 /\ chain_cw faces l2.
  Proof.
    induction l1 as [|a t IH]; intros H; [split; [exact I|exact H]|].
    destruct t as [|b t].
    - split; [exact I|]. destruct l2; [exact I|]. cbn in H. tauto.
    - change ((a :: b :: t) ++ l2) with (a :: (b :: t) ++ l2) in H. cbn [app chain_cw] in H. destruct H as [E H].
      destruct (IH H) as [H1 H2]. split; [|exact H2]. cbn [chain_cw]. split; assumption.
  Qed.

  Lemma chain_cw_snoc l a d :
    chain_cw faces l -> (l <> [] -> sp_cw faces a = Some (last l d)) -> chain_cw faces (l ++ [a]).
  Proof.
    induction l as [|x t IH]; intros Hc Hl; [exact I|].
    destruct t as [|y t].
    - cbn. split; [apply Hl; discriminate|exact I].
    - destruct Hc as [E Hc]. change ((x :: y :: t) ++ [a]) with (x :: (y :: t) ++ [a]). cbn [app chain_cw].
      split; [exact E|]. apply IH; [exact Hc|]. intros _. exact (Hl ltac:(discriminate)).
  Qed.

  Lemma last_rev {A} (l : list A) d : last (rev l) d = hd d l.
  Proof. destruct l as [|a t]; [reflexivity|]. cbn [rev hd]. apply last_last. Qed.

  Lemma chain_cw_rev l : chain_cw faces l -> chain (sp_cw faces) (rev l).
  Proof.
    induction l as [|a t IH]; intros H; [exact I|].
    destruct t as [|b t]; [exact I|]. destruct H as [E H].
    change (rev (a :: b :: t)) with (rev (b :: t) ++ [a]).
    apply (chain_snoc _ _ _ 0); [apply IH, H|]. intros _. rewrite last_rev. exact E.
  Qed.

  Lemma chain_ccw_of_cw l :
    (forall c, In c l -> valid_corner c) -> chain_cw faces l -> chain (sp_ccw faces) l.
  Proof.
    induction l as [|a t IH]; intros Hv H; [exact I|].
    destruct t as [|b t]; [exact I|]. destruct H as [E H]. cbn [chain]. split.
    - destruct (Hv a (or_introl eq_refl)) as (xa & Ha & <-).
      destruct (Hv b (or_intror (or_introl eq_refl))) as (xb & Hb & <-).
      apply (L_inv nv faces Hwf); assumption.
    - apply IH; [|exact H]. intros c Hc. apply Hv. right. exact Hc.
  Qed.

  (* rotating a closed ring *)
  Lemma rot1 a l :
    chain_cw faces (a :: l) -> ring_closed faces (a :: l) -> chain_cw faces (l ++ [a]) /\ ring_closed faces (l ++ [a]).
  Proof.
    intros Hc Hr. destruct l as [|b t]; [split; assumption|].
    destruct Hc as [E Hc]. unfold ring_closed in Hr. rewrite last_cons in Hr. split.
    - apply (chain_cw_snoc _ _ b); [exact Hc|]. intros _. rewrite last_cons. rewrite last_cons in Hr. exact Hr.
    - change ((b :: t) ++ [a]) with (b :: t ++ [a]). unfold ring_closed. rewrite last_cons, last_last. exact E.
  Qed.

  Lemma rotN pre c0 post :
    chain_cw faces (pre ++ c0 :: post) -> ring_closed faces (pre ++ c0 :: post) ->
    chain_cw faces (post ++ pre ++ [c0]) /\ ring_closed faces (post ++ pre ++ [c0]).
  Proof.
    revert post. induction pre as [|a pre IH]; intros post Hc Hr.
    - cbn [app] in *. apply rot1; assumption.
    - change ((a :: pre) ++ c0 :: post) with (a :: (pre ++ c0 :: post)) in Hc, Hr.
      destruct (rot1 _ _ Hc Hr) as [Hc1 Hr1]. rewrite <- app_assoc in Hc1, Hr1. cbn [app] in Hc1, Hr1.
      destruct (IH (post ++ [a]) Hc1 Hr1) as [Hc2 Hr2].
      rewrite <- app_assoc in Hc2, Hr2. cbn [app] in Hc2, Hr2. split; assumption.
  Qed.

  Definition ring_props (l : list Z) : Prop :=
    NoDup l /\ chain_cw faces l /\ (ring_closed faces l \/ ring_open faces l).

  (* what the two walks and the sort by index leave, on an abstract list of corners *)
  Lemma ring_sorted_list c0 rest l0 :
    let cs := c0 :: rest in
    NoDup cs -> (forall c, In c l0 <-> In c cs) -> (forall c, In c l0 -> valid_corner c) -> ring_props l0 ->
    forall si0,
    let n := length cs in
    let r1 := walk_spec (sp_cw faces) (-1) n c0 0 si0 in
    let si2 := if snd r1 then fst (walk_spec (sp_ccw faces) 1 n c0 0 (fst r1)) else fst r1 in
    exists l, sort_by (fun a b => key_of si2 a <=? key_of si2 b) cs = l
              /\ (forall c, In c l <-> In c cs) /\ ring_props l
              /\ incr (key_of si2) l /\ (forall c, In c l -> zget c si2 <> None).
  Proof.
    intros cs Hn Hsame Hval (Hn0 & Hc0 & Hr0) si0 n r1 si2.
    assert (Hperm : Permutation cs l0).
    { apply NoDup_Permutation; auto. intros c. symmetry. apply Hsame. }
    assert (Hlen : length l0 = n) by (symmetry; apply Permutation_length, Hperm).
    assert (Hin0 : In c0 l0) by (apply Hsame; left; reflexivity).
    apply in_split in Hin0 as (pre & post & El0).
    destruct Hr0 as [Hclosed|Hopen].
    - (* interior vertex: one walk all the way round *)
      set (l' := post ++ pre ++ [c0]).
      rewrite El0 in Hc0, Hclosed. destruct (rotN pre c0 post Hc0 Hclosed) as [Hc' Hr']. fold l' in Hc', Hr'.
      assert (Hp' : Permutation l0 l').
      { rewrite El0. unfold l'. rewrite (app_assoc post pre [c0]).
        eapply Permutation_trans; [apply Permutation_app_comm|]. cbn [app]. apply Permutation_cons_append. }
      assert (Hn' : NoDup l') by (eapply Permutation_NoDup; eauto).
      set (w := rev l').
      assert (Ew : w = c0 :: (rev pre ++ rev post)).
      { unfold w, l'. rewrite !rev_app_distr. cbn [rev app]. try rewrite <- app_assoc. reflexivity. }
      assert (Hchain : chain (sp_cw faces) w) by (apply chain_cw_rev, Hc').
      assert (Hlast : sp_cw faces (last (rev pre ++ rev post) c0) = Some c0).
      { assert (E : last (rev pre ++ rev post) c0 = hd c0 l').
        { rewrite <- (last_rev l' c0). fold w. rewrite Ew. rewrite last_cons. reflexivity. }
        rewrite E. unfold ring_closed in Hr'. destruct l' as [|a t] eqn:El'; [destruct post; discriminate|].
        cbn [hd]. rewrite Hr'. f_equal. unfold l' in El'. rewrite <- El'.
        rewrite app_assoc. apply last_last. }
      assert (Hwlen : length w = n).
      { unfold w. rewrite rev_length. rewrite <- Hlen. symmetry. apply Permutation_length, Hp'. }
      assert (Er1 : r1 = (assign w 0 (-1) si0, false)).
      { unfold r1. rewrite <- Hwlen, Ew. rewrite Ew in Hchain. apply (walk_closed _ _ _ _ _ _ c0 Hchain Hlast). }
      unfold si2. rewrite Er1. cbn [fst snd].
      assert (Hincr : incr (key_of (assign w 0 (-1) si0)) l').
      { assert (Hnw : NoDup w) by (unfold w; apply NoDup_rev, Hn').
        destruct (assign_decr w Hnw 0 si0) as (I1 & _). unfold w in I1 at 2. rewrite rev_involutive in I1. exact I1. }
      exists l'. split; [|split; [|split; [|split]]].
      + apply sort_by_unique; [|exact Hincr].
        eapply Permutation_trans; [exact Hperm|exact Hp'].
      + intros c. rewrite <- Hsame. split; intros H.
        * eapply Permutation_in; [apply Permutation_sym, Hp'|exact H].
        * eapply Permutation_in; [exact Hp'|exact H].
      + split; [exact Hn'|]. split; [exact Hc'|]. left. exact Hr'.
      + exact Hincr.
      + intros c Hc. apply assign_some. unfold w. apply -> in_rev. exact Hc.
    - (* border vertex: clockwise to the border, then counter-clockwise to the other border *)
      rewrite El0 in Hc0, Hopen, Hn0.
      assert (Hcpre : chain_cw faces (pre ++ [c0])).
      { replace (pre ++ c0 :: post) with ((pre ++ [c0]) ++ post) in Hc0 by (rewrite <- app_assoc; reflexivity).
        apply chain_cw_app in Hc0. tauto. }
      assert (Hcpost : chain_cw faces (c0 :: post)) by (apply chain_cw_app in Hc0; tauto).
      set (wcw := c0 :: rev pre).
      assert (Ewcw : wcw = rev (pre ++ [c0])) by (unfold wcw; rewrite rev_app_distr; reflexivity).
      assert (Hchcw : chain (sp_cw faces) wcw) by (rewrite Ewcw; apply chain_cw_rev, Hcpre).
      assert (Hhd : hd c0 (pre ++ c0 :: post) = last (rev pre) c0).
      { destruct pre as [|a pre']; [reflexivity|]. rewrite last_rev. reflexivity. }
      assert (Hopen1 : sp_cw faces (last (rev pre) c0) = None).
      { rewrite <- Hhd. unfold ring_open in Hopen. destruct (pre ++ c0 :: post) eqn:E; [destruct pre; discriminate|].
        cbn [hd]. tauto. }
      assert (Hopen2 : sp_ccw faces (last post c0) = None).
      { unfold ring_open in Hopen. destruct (pre ++ c0 :: post) as [|a t] eqn:E; [destruct pre; discriminate|].
        destruct Hopen as [_ H]. rewrite <- E in H.
        replace (last (pre ++ c0 :: post) a) with (last post c0) in H; [exact H|].
        clear. induction pre as [|p pre IH]; cbn [app].
        - rewrite last_cons. reflexivity.
        - rewrite last_cons. destruct pre; cbn [app] in *; rewrite ?last_cons in *; auto. }
      assert (Hlcw : (length wcw <= n)%nat).
      { unfold wcw. cbn [length]. rewrite rev_length. rewrite <- Hlen, El0, app_length. cbn [length]. lia. }
      assert (Er1 : r1 = (assign wcw 0 (-1) si0, true)).
      { unfold r1. apply (walk_open _ _ _ _ _ _ _ Hchcw Hopen1 Hlcw). }
      set (wccw := c0 :: post).
      assert (Hchccw : chain (sp_ccw faces) wccw).
      { apply chain_ccw_of_cw; [|exact Hcpost]. intros c Hc. apply Hval. rewrite El0. apply in_or_app. right. exact Hc. }
      assert (Hlccw : (length wccw <= n)%nat).
      { unfold wccw. cbn [length]. rewrite <- Hlen, El0, app_length. cbn [length]. lia. }
      unfold si2. rewrite Er1. cbn [fst snd].
      rewrite (walk_open _ _ _ _ _ _ _ Hchccw Hopen2 Hlccw). cbn [fst].
      set (si1 := assign wcw 0 (-1) si0). set (sif := assign wccw 0 1 si1).
      assert (Hnpre : NoDup (pre ++ [c0]) /\ NoDup (c0 :: post) /\ (forall c, In c pre -> ~ In c (c0 :: post))).
      { destruct (NoDup_app_inv _ _ Hn0) as (A1 & A2 & A3). split; [|split; [exact A2|]].
        - replace (pre ++ c0 :: post) with ((pre ++ [c0]) ++ post) in Hn0 by (rewrite <- app_assoc; reflexivity).
          apply NoDup_app_inv in Hn0. tauto.
        - intros c Hc1 Hc2. eapply A3; eauto. }
      destruct Hnpre as (Hn1 & Hn2 & Hdisj).
      assert (Hnwcw : NoDup wcw) by (rewrite Ewcw; apply NoDup_rev, Hn1).
      destruct (assign_decr wcw Hnwcw 0 si0) as (D1 & D2 & D3). fold si1 in D1, D2, D3.
      destruct (assign_incr wccw Hn2 0 si1) as (U1 & U2 & U3 & U4). fold sif in U1, U2, U3, U4.
      assert (Hincr : incr (key_of sif) (pre ++ c0 :: post)).
      { replace (pre ++ c0 :: post) with ((pre ++ [c0]) ++ post) by (rewrite <- app_assoc; reflexivity).
        apply incr_app.
        * rewrite Ewcw, rev_involutive in D1. eapply incr_ext; [|exact D1].
          intros a Ha. apply in_app_or in Ha as [Ha|[<-|[]]].
          -- unfold sif, key_of. rewrite assign_other; [reflexivity|]. apply Hdisj, Ha.
          -- transitivity 0; [exact D3 | symmetry; exact U3].
        * inversion U1; assumption.
        * intros a b Ha Hb. specialize (U4 b Hb).
          apply in_app_or in Ha as [Ha|[<-|[]]]; [|unfold sif, si1, wccw, wcw in *; lia].
          assert (Ek : key_of sif a = key_of si1 a).
          { unfold sif, key_of. rewrite assign_other; [reflexivity|]. apply Hdisj, Ha. }
          assert (Hin : In a wcw) by (unfold wcw; right; apply -> in_rev; exact Ha).
          specialize (D2 a Hin). unfold sif, si1, wccw, wcw in *; lia. }
      exists (pre ++ c0 :: post). split; [|split; [|split; [|split]]].
      + apply sort_by_unique; [rewrite <- El0; exact Hperm|exact Hincr].
      + intros c. rewrite <- El0. apply Hsame.
      + rewrite <- El0 in *. split; [exact Hn0|]. split; [exact Hc0|]. right. exact Hopen.
      + exact Hincr.
      + intros c Hc. apply in_app_or in Hc as [Hc|Hc].
        * unfold sif. rewrite assign_other by (apply Hdisj, Hc). apply assign_some. unfold wcw. right. apply -> in_rev. exact Hc.
        * apply assign_some. exact Hc.
  Qed.
End RingList.

(* ------------------------------------------------------------------ _sort_vertex_neighborhoods on the tables *)
(* key of a neighbour v of A in the vertex sort: index of the corner of half-edge A->v, None (= -inf) without one *)
Definition vkey (faces : list (list Z)) (si2 : zmap Z) (A v : Z) : Z * option Z :=
  (v, match option_map cid (sp_he faces A v) with Some c => zget c si2 | None => None end).

(* what the vertex sort leaves for vertex A whose sorted corner ring is l and whose neighbour list was adjA *)
Definition vsorted (faces : list (list Z)) (A : Z) (l adjA vs : list Z) : Prop :=
  Permutation vs adjA /\ (l = [] -> vs = adjA)
  /\ (l <> [] -> exists si2, incr (key_of si2) l /\ (forall c, In c l -> zget c si2 <> None)
                   /\ vs = map fst (sort_by (fun a b => okey_leb (snd a) (snd b)) (map (vkey faces si2 A) adjA))).

Section SortVertex.
  Variable nv : Z.
  Variable faces : list (list Z).
  Hypothesis Hwf : wf_faces nv faces.

  Lemma ring_spec_nil A : corners_at faces A = [] -> ring_spec faces A [].
  Proof. intros E. split; [constructor|]. split; [rewrite E; tauto|]. split; [exact I|left; exact I]. Qed.

  Lemma sort_vertex_spec T A adjA :
    tspec4 nv faces T ->
    zget A (t_adjV2Cn T) = Some (corners_at faces A) -> zget A (t_adjV2V T) = Some adjA ->
    (exists l0, ring_spec faces A l0) ->
    exists T', sort_vertex T A = Ok T' /\ same4 T T'
      /\ (exists l vs, zget A (t_adjV2Cn T') = Some l /\ ring_spec faces A l
                       /\ zget A (t_adjV2V T') = Some vs /\ vsorted faces A l adjA vs)
      /\ (forall B, B <> A -> zget B (t_adjV2Cn T') = zget B (t_adjV2Cn T) /\ zget B (t_adjV2V T') = zget B (t_adjV2V T)).
  Proof.
    intros HT Ecs Eadj (l0 & Hn0 & Hsame0 & Hc0 & Hr0).
    unfold sort_vertex. rewrite Ecs. cbn [of_opt bind].
    destruct (corners_at faces A) as [|c0 rest] eqn:Ecorn.
    - exists T. split; [reflexivity|]. split; [repeat split|]. split.
      + exists [], adjA. split; [exact Ecs|]. split; [apply ring_spec_nil, Ecorn|]. split; [exact Eadj|].
        split; [apply Permutation_refl|]. split; [reflexivity|congruence].
      + intros B _. split; reflexivity.
    - set (cs := c0 :: rest) in *.
      set (si0 := fold_left (fun m c => zset c 0 m) cs zempty).
      rewrite (walk_cw_eq nv faces Hwf T HT). cbn [bind].
      assert (Hval : forall c, In c l0 -> valid_corner faces c).
      { intros c Hc. assert (Hc' : In c (corners_at faces A)) by (rewrite Ecorn; apply Hsame0, Hc).
        apply corners_at_In in Hc' as (x & Hx & E & _). exists x. auto. }
      assert (Hncs : NoDup cs) by (rewrite <- Ecorn; apply NoDup_corners_at).
      destruct (ring_sorted_list nv faces Hwf c0 rest l0 Hncs Hsame0 Hval (conj Hn0 (conj Hc0 Hr0)) si0)
        as (l & Esort & Hsame & (Hn & Hc & Hr) & Hincr & Hsome).
      change (c0 :: rest) with cs in Esort, Hincr, Hsome.
      destruct (walk_spec (sp_cw faces) (-1) (length cs) c0 0 si0) as [si1 b] eqn:Ew1.
      cbn [fst snd] in Esort, Hincr, Hsome.
      assert (Esi2 : (if b
                      then do r2 <- walk T ccw_steps_before_test ccw_steps_after_test ccw_delta (length cs) c0 0 si1; Ok (fst r2)
                      else Ok si1)
                     = Ok (if b then fst (walk_spec (sp_ccw faces) 1 (length cs) c0 0 si1) else si1)).
      { destruct b; [|reflexivity]. rewrite (walk_ccw_eq nv faces Hwf T HT). reflexivity. }
      rewrite Esi2. cbn [bind].
      set (si2 := if b then fst (walk_spec (sp_ccw faces) 1 (length cs) c0 0 si1) else si1) in *.
      rewrite Eadj. cbn [of_opt bind].
      set (g := fun v : Z => (v, match option_map cid (sp_he faces A v) with Some c => zget c si2 | None => None end)).
      rewrite (mapM_ok _ g).
      2:{ intros v _. unfold he_get_default, key_half_edge_to_corner, key_vertex_sort. cbn [fst snd].
          rewrite (he_lookup_T nv faces T HT). unfold g. destruct (sp_he faces A v); reflexivity. }
      cbn [bind]. eexists. split; [reflexivity|]. split; [repeat split|].
      cbn [t_adjV2Cn t_adjV2V]. split.
      + exists l. eexists. split; [rewrite zget_zset_same; f_equal; exact Esort|]. split.
        { split; [exact Hn|]. split; [|split; assumption]. intros c. rewrite Ecorn. apply Hsame. }
        split; [apply zget_zset_same|]. split; [|split].
        * eapply Permutation_trans; [apply Permutation_map, sort_perm_gen|].
          rewrite map_map. unfold g. cbn [fst]. rewrite map_id. apply Permutation_refl.
        * intros ->. exfalso. assert (Hin : In c0 []) by (apply Hsame; left; reflexivity). destruct Hin.
        * intros _. exists si2. split; [exact Hincr|]. split; [exact Hsome|]. reflexivity.
      + intros B NB. rewrite !zget_zset_other by exact NB. split; reflexivity.
  Qed.
End SortVertex.

(* ------------------------------------------------------------------ all vertices: _compute_connectivity with sorting on *)
Section SortAll.
  Variable nv : Z.
  Variable faces : list (list Z).
  Variable m : mesh.
  Hypothesis Hwf : wf_mesh nv faces.
  Hypothesis Hm : mesh_of nv faces m.

  Lemma compute_true_eq :
    compute_connectivity m true = bind (compute_connectivity m false) (foldM sort_vertex (zrange (m_nv m))).
  Proof.
    unfold compute_connectivity.
    destruct (compute_adjV2V m); cbn [bind]; [|reflexivity].
    destruct (corner_pass m) as [[[v2c vf2c] f2c]|]; cbn [bind]; [|reflexivity].
    destruct (he_pass m vf2c) as [[[he0' c2h] keys]|]; cbn [bind]; [|reflexivity].
    destruct (opp_pass he0' keys); cbn [bind]; reflexivity.
  Qed.

  Lemma same4_trans T1 T2 T3 : same4 T1 T2 -> same4 T2 T3 -> same4 T1 T3.
  Proof. unfold same4. intuition congruence. Qed.

  Lemma compute_sorted_spec :
    exists T, compute_connectivity m true = Ok T /\ tspec4 nv faces T /\
      forall A, 0 <= A < nv ->
        exists l vs, zget A (t_adjV2Cn T) = Some l /\ ring_spec faces A l
                     /\ zget A (t_adjV2V T) = Some vs /\ vsorted faces A l (nbrs (m_edges m) A) vs.
  Proof.
    destruct Hwf as (Hwff & Hrings).
    destruct (compute_unsorted_spec nv faces m Hwff Hm) as (T0 & E0 & S0).
    rewrite compute_true_eq, E0. cbn [bind]. destruct Hm as (Env & _). rewrite Env.
    set (I := fun (pre : list Z) (T' : tables) =>
      same4 T0 T'
      /\ (forall A, In A pre -> 0 <= A < nv ->
            exists l vs, zget A (t_adjV2Cn T') = Some l /\ ring_spec faces A l
                         /\ zget A (t_adjV2V T') = Some vs /\ vsorted faces A l (nbrs (m_edges m) A) vs)
      /\ (forall A, ~ In A pre -> zget A (t_adjV2Cn T') = zget A (t_adjV2Cn T0)
                                 /\ zget A (t_adjV2V T') = zget A (t_adjV2V T0))).
    destruct (foldM_inv sort_vertex I (zrange nv) T0) as (T & ET & (I1 & I2 & I3)).
    - split; [repeat split|]. split; [intros A []|]. intros A _. split; reflexivity.
    - intros pre x T' (post & Epost) (J1 & J2 & J3).
      assert (Hx : 0 <= x < nv). { apply In_zrange. rewrite Epost. apply in_or_app. right. left. reflexivity. }
      assert (Hnx : ~ In x pre).
      { pose proof (NoDup_zrange nv) as Hn. rewrite Epost in Hn. apply NoDup_remove_2 in Hn.
        intros Hin. apply Hn. apply in_or_app. left. exact Hin. }
      destruct (J3 x Hnx) as (K1 & K2).
      assert (HT' : tspec4 nv faces T') by (exists T0, (m_edges m); split; assumption).
      assert (Hr : in_range nv x = true) by (unfold in_range; lia).
      destruct (sort_vertex_spec nv faces Hwff T' x (nbrs (m_edges m) x) HT') as (T'' & E'' & S'' & R1' & R3').
      + rewrite K1, (ts_v2c _ _ _ _ S0), Hr. reflexivity.
      + rewrite K2, (ts_v2v _ _ _ _ S0), Hr. reflexivity.
      + apply Hrings, Hx.
      + exists T''. split; [exact E''|]. split; [eapply same4_trans; eauto|]. split.
        * intros A HA HrA. apply in_app_or in HA as [HA|[<-|[]]].
          -- assert (NA : A <> x) by (intros ->; contradiction).
             destruct (R3' A NA) as (Q1 & Q2). rewrite Q1, Q2. apply J2; assumption.
          -- exact R1'.
        * intros A HA. assert (NA : A <> x) by (intros ->; apply HA; apply in_or_app; right; left; reflexivity).
          destruct (R3' A NA) as (Q1 & Q2). rewrite Q1, Q2. apply J3. intros Hin. apply HA. apply in_or_app. left. exact Hin.
    - exists T. split; [exact ET|]. split; [exists T0, (m_edges m); split; assumption|].
      intros A HA. apply I2; [apply In_zrange, HA|exact HA].
  Qed.
End SortAll.
