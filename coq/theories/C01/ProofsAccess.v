(* C01 - every order-free connectivity answer equals direct inspection of the face list (Spec.v) *)
From Coq Require Import ZArith List Bool Lia.
Import ListNotations.
Require Import MV.C01.Defs MV.C01.Gen MV.C01.Model MV.C01.Spec MV.C01.Pure
        MV.C01.ProofsMaps MV.C01.ProofsCorners MV.C01.ProofsTables.
Open Scope Z_scope.

Section Access.
  Variable nv : Z.
  Variable faces : list (list Z).
  Variable m : mesh.
  Variable f : bool.
  Variable T : tables.
  Hypothesis Hwf : wf_faces nv faces.
  Hypothesis Hm : mesh_of nv faces m.
  Hypothesis HT : compute_connectivity m f = Ok T.

  Let Hfaces : Forall (face_ok nv) faces := proj1 Hwf.
  Let Horiented : oriented faces := proj2 Hwf.

  Lemma T4 : tspec4 nv faces T.
  Proof. eapply compute_spec4; eauto. Qed.

  Lemma CR_ok : CR m f = Ok T. Proof. exact HT. Qed.

  Lemma guard_ok g : p_guard1 m f g = Ok tt.
  Proof. destruct g as [[a []]|]; cbn; rewrite ?CR_ok; reflexivity. Qed.

  Lemma he_lookup x :
    In x (all_corners faces) ->
    zzget (cv x, ct x) (t_he T) = Some (R1 x (option_map cid (sp_he faces (ct x) (cv x)))).
  Proof. destruct T4 as (T0 & es & S & (E1 & _)). rewrite E1. apply (ts_he _ _ _ _ S). Qed.

  Lemma he_lookup_none u v : sp_he faces u v = None -> zzget (u, v) (t_he T) = None.
  Proof.
    intros H. destruct T4 as (T0 & es & S & (E1 & _)). rewrite E1. apply (ts_he_none _ _ _ _ S).
    intros x Hx E. inversion E. eapply (sp_he_none faces); eauto.
  Qed.

  Lemma c2h_lookup c : zget c (t_Cn2he T) = sp_corner_to_half_edge faces c.
  Proof. destruct T4 as (T0 & es & S & (_ & E2 & _)). rewrite E2. apply (ts_c2h _ _ _ _ S). Qed.

  Lemma sp_corner_some c x : sp_corner faces c = Some x -> In x (all_corners faces) /\ cid x = c.
  Proof. unfold sp_corner. intros H. apply find_some in H as [H1 H2]. apply Z.eqb_eq in H2. auto. Qed.

  (* ---- previous / next / opposite corner *)
  Lemma corner_field_eq g slot c :
    p_corner_field m f g slot c
    = match sp_corner faces c with
      | Some x => rec_slot (R1 x (option_map cid (sp_he faces (ct x) (cv x)))) slot
      | None => Ok None
      end.
  Proof.
    unfold p_corner_field, p_Cn2he, p_he. rewrite guard_ok, CR_ok. cbn [bind].
    rewrite c2h_lookup. unfold sp_corner_to_half_edge.
    destruct (sp_corner faces c) as [x|] eqn:Ex; [|reflexivity].
    apply sp_corner_some in Ex as [Hx _]. rewrite (he_lookup x Hx). reflexivity.
  Qed.

  Lemma previous_corner_correct c : p_previous_corner m f c = Ok (sp_prev faces c).
  Proof.
    unfold p_previous_corner. rewrite corner_field_eq. unfold sp_prev.
    destruct (sp_corner faces c); reflexivity.
  Qed.
  Lemma next_corner_correct c : p_next_corner m f c = Ok (sp_next faces c).
  Proof.
    unfold p_next_corner. rewrite corner_field_eq. unfold sp_next.
    destruct (sp_corner faces c); reflexivity.
  Qed.
  Lemma opposite_corner_correct c : p_opposite_corner m f c = Ok (sp_opp faces c).
  Proof.
    unfold p_opposite_corner. rewrite corner_field_eq. unfold sp_opp.
    destruct (sp_corner faces c) as [x|]; [|reflexivity].
    cbn. destruct (sp_he faces (ct x) (cv x)); reflexivity.
  Qed.

  Lemma corner_to_half_edge_correct c : p_corner_to_half_edge m f c = Ok (sp_corner_to_half_edge faces c).
  Proof. unfold p_corner_to_half_edge, p_Cn2he. rewrite guard_ok, CR_ok. cbn [bind]. rewrite c2h_lookup. reflexivity. Qed.

  (* ---- half-edge keyed answers *)
  Lemma he_key_lookup u v :
    zzget (u, v) (t_he T)
    = match sp_he faces u v with
      | Some x => Some (R1 x (option_map cid (sp_he faces v u)))
      | None => None
      end.
  Proof.
    destruct (sp_he faces u v) as [x|] eqn:E.
    - apply (sp_he_some faces) in E as (Hx & E1 & E2). subst u v. apply he_lookup, Hx.
    - apply he_lookup_none, E.
  Qed.

  Lemma half_edge_to_corner_correct u v : p_half_edge_to_corner m f u v = Ok (sp_half_edge_to_corner faces u v).
  Proof.
    unfold p_half_edge_to_corner, p_he. rewrite guard_ok, CR_ok. cbn [bind].
    unfold he_get_default, key_half_edge_to_corner. rewrite he_key_lookup. unfold sp_half_edge_to_corner.
    destruct (sp_he faces u v); reflexivity.
  Qed.

  Lemma direct_face_correct u v : p_direct_face m f u v = Ok (sp_direct_face faces u v).
  Proof.
    unfold p_direct_face, p_he. rewrite guard_ok, CR_ok. cbn [bind].
    unfold key_direct_face. rewrite he_key_lookup. unfold sp_direct_face.
    destruct (sp_he faces u v); reflexivity.
  Qed.

  Lemma direct_face_inds_correct u v : p_direct_face_inds m f u v = Ok (sp_direct_face_inds faces u v).
  Proof.
    unfold p_direct_face_inds, p_he. rewrite guard_ok, CR_ok. cbn [bind].
    unfold key_direct_face. rewrite he_key_lookup. unfold sp_direct_face_inds.
    destruct (sp_he faces u v); reflexivity.
  Qed.

  Lemma edge_to_faces_correct u v :
    p_edge_to_faces m f u v = Ok [sp_direct_face faces u v; sp_direct_face faces v u].
  Proof.
    unfold p_edge_to_faces, g_edge_to_faces_calls. cbn beta iota zeta delta [fst snd].
    rewrite guard_ok, !direct_face_correct. reflexivity.
  Qed.

  Lemma opposite_face_correct u v F :
    p_opposite_face m f u v F
    = Ok (if oz_eqb (sp_direct_face faces u v) F then sp_direct_face faces v u
          else if oz_eqb (sp_direct_face faces v u) F then sp_direct_face faces u v else None).
  Proof.
    unfold p_opposite_face, g_opposite_face_calls, g_opposite_face_ret. cbn beta iota zeta delta [fst snd].
    rewrite guard_ok, !direct_face_correct. reflexivity.
  Qed.

  Lemma vertex_to_corner_in_face_correct V F :
    p_vertex_to_corner_in_face m f V F = Ok (sp_vertex_to_corner_in_face faces V F).
  Proof.
    unfold p_vertex_to_corner_in_face, p_adjVF2Cn. rewrite guard_ok, CR_ok. cbn [bind].
    destruct T4 as (T0 & es & S & (_ & _ & E3 & _)). rewrite E3, (ts_vf _ _ _ _ S). reflexivity.
  Qed.

  Lemma face_to_first_corner_correct F :
    p_face_to_first_corner m f F = of_opt EKey (sp_face_to_first_corner faces F).
  Proof.
    unfold p_face_to_first_corner, p_adjF2Cn, g_ftfc_key, g_ftfc_ret. rewrite guard_ok, CR_ok. cbn [bind].
    destruct T4 as (T0 & es & S & (_ & _ & _ & E4)). rewrite E4, (ts_f2c _ _ _ _ S).
    destruct (sp_face_to_first_corner faces F); reflexivity.
  Qed.
End Access.
