(* C01 - query-order independence: every reachable cache state is `ok` (each lazily filled group of attributes is
   either wholly unset or holds exactly what its compute method yields for the mesh) and in an `ok` state every
   accessor returns its pure answer (Pure.v) and leaves an `ok` state.  The generated guards enter through
   `sim_guard1` / `guard_wf` / `groups_of`: an accessor that reads a table without a guard that loads it cannot be
   proved. *)
From Coq Require Import ZArith List Bool Lia.
Import ListNotations.
Require Import MV.C01.Defs MV.C01.Gen MV.C01.Model MV.C01.Pure.
Open Scope Z_scope.

Inductive grp := G_conn | G_eid | G_fid | G_ibe | G_ibv.

Definition grp_of_attr (a : attr) : grp :=
  match a with
  | A_adjV2V | A_half_edges | A_Cn2he | A_adjVF2Cn | A_adjV2Cn | A_adjF2Cn => G_conn
  | A_edge_id => G_eid
  | A_face_id => G_fid
  | A_boundary_edges | A_interior_edges => G_ibe
  | A_is_vertex_on_border | A_boundary_vertices | A_interior_vertices => G_ibv
  end.
Definition grp_of_comp (k : comp1) : grp :=
  match k with K_connectivity => G_conn | K_edge_id => G_eid | K_face_ids => G_fid end.

(* the guard tests an attribute of the very group its compute method fills *)
Definition guard_wf (g : option (attr * comp1)) : Prop :=
  match g with None => True | Some (a, k) => grp_of_attr a = grp_of_comp k end.
Definition groups_of (g : option (attr * comp1)) : list grp :=
  match g with None => [] | Some (_, k) => [grp_of_comp k] end.

Section Q.
  Variable m : mesh.
  Variable f : bool.

  Definition ok_conn (s : cache) : Prop :=
    (c_adjV2V s = None /\ c_adjV2Cn s = None /\ c_adjVF2Cn s = None /\ c_adjF2Cn s = None /\ c_he s = None /\ c_Cn2he s = None)
    \/ exists T, CR m f = Ok T /\ c_adjV2V s = Some (t_adjV2V T) /\ c_adjV2Cn s = Some (t_adjV2Cn T)
                 /\ c_adjVF2Cn s = Some (t_adjVF2Cn T) /\ c_adjF2Cn s = Some (t_adjF2Cn T)
                 /\ c_he s = Some (t_he T) /\ c_Cn2he s = Some (t_Cn2he T).
  Definition ok_eid (s : cache) : Prop := c_edge_id s = None \/ c_edge_id s = Some (EID m).
  Definition ok_fid (s : cache) : Prop := c_face_id s = None \/ c_face_id s = Some (FID m).
  Definition ok_ibe (s : cache) : Prop :=
    (c_bnd_edges s = None /\ c_int_edges s = None)
    \/ exists ib, IBE m f = Ok ib /\ c_bnd_edges s = Some (snd ib) /\ c_int_edges s = Some (fst ib).
  Definition ok_ibv (s : cache) : Prop :=
    (c_vborder s = None /\ c_bnd_verts s = None /\ c_int_verts s = None)
    \/ exists r, IBV m f = Ok r /\ c_vborder s = Some (fst (fst r)) /\ c_bnd_verts s = Some (snd (fst r))
                 /\ c_int_verts s = Some (snd r).
  Definition ok12 (s : cache) : Prop := ok_conn s /\ ok_eid s /\ ok_fid s /\ ok_ibe s.
  Definition ok (s : cache) : Prop := ok12 s /\ ok_ibv s.

  Definition has (g : grp) (s : cache) : Prop :=
    match g with
    | G_conn => c_he s <> None
    | G_eid => c_edge_id s <> None
    | G_fid => c_face_id s <> None
    | G_ibe => c_bnd_edges s <> None
    | G_ibv => c_vborder s <> None
    end.
  Definition ext (s s' : cache) : Prop := forall g, has g s -> has g s'.
  Definition ibv_same (s s' : cache) : Prop :=
    c_vborder s' = c_vborder s /\ c_bnd_verts s' = c_bnd_verts s /\ c_int_verts s' = c_int_verts s.

  (* accessor a, started in an ok state in which the groups L are loaded, ends in an ok state, never unloads
     anything, does not touch the vertex-border attributes, returns p, and when p is a value has loaded D *)
  Definition sim {X} (L D : list grp) (a : M X) (p : res X) : Prop :=
    forall s, ok12 s -> (forall g, In g L -> has g s) ->
      ok12 (fst (a s)) /\ ext s (fst (a s)) /\ ibv_same s (fst (a s)) /\ snd (a s) = p /\
      (forall x, p = Ok x -> forall g, In g D -> has g (fst (a s))).

  Ltac split5 := split; [|split; [|split; [|split]]].
  Ltac nopost := let x := fresh in let g := fresh in intros x _ g [].

  Lemma ext_refl s : ext s s. Proof. intros g H; exact H. Qed.
  Lemma ibv_same_refl s : ibv_same s s. Proof. repeat split. Qed.
  Lemma ibv_same_trans a b c : ibv_same a b -> ibv_same b c -> ibv_same a c.
  Proof. unfold ibv_same. intuition congruence. Qed.

  Lemma sim_ret {X} L (x : X) : sim L [] (ret x) (Ok x).
  Proof. intros s H HL. cbn. split5; auto using ext_refl, ibv_same_refl. nopost. Qed.

  Lemma sim_raise {X} L e : sim L [] (@raise X e) (Err e).
  Proof. intros s H HL. cbn. split5; auto using ext_refl, ibv_same_refl. nopost. Qed.

  Lemma sim_lift {X} L (r : res X) : sim L [] (lift r) r.
  Proof. intros s H HL. cbn. split5; auto using ext_refl, ibv_same_refl. nopost. Qed.

  Lemma sim_weaken {X} L L' D (a : M X) p : incl L L' -> sim L D a p -> sim L' D a p.
  Proof. intros Hi Hs s H HL. apply Hs; auto. Qed.

  Lemma sim_post_nil {X} L D (a : M X) p : sim L D a p -> sim L [] a p.
  Proof.
    intros Hs s H HL. destruct (Hs s H HL) as (A & B & C & E & _). split5; auto. nopost.
  Qed.

  Lemma sim_bind {X Y} L D1 D2 (a : M X) (k : X -> M Y) p g :
    sim L D1 a p -> (forall x, sim (D1 ++ L) D2 (k x) (g x)) -> sim L D2 (bindM a k) (bind p g).
  Proof.
    intros Ha Hk s H HL. unfold bindM.
    destruct (Ha s H HL) as (A & B & C & E & P). destruct (a s) as [s1 r]. cbn in *. subst r.
    destruct p as [x|e]; cbn.
    - assert (HL1 : forall g0, In g0 (D1 ++ L) -> has g0 s1).
      { intros g0 Hg. apply in_app_or in Hg as [Hg|Hg]; [eapply P; eauto | apply B, HL, Hg]. }
      destruct (Hk x s1 A HL1) as (A' & B' & C' & E' & P'). split5; auto.
      + intros g0 Hg. apply B', B, Hg.
      + eapply ibv_same_trans; eauto.
    - split5; auto. intros ? Hx. discriminate.
  Qed.

  Lemma sim_mapMM {X Y} L (k : X -> M Y) g l :
    (forall x, sim L [] (k x) (g x)) -> sim L [] (mapMM k l) (mapM g l).
  Proof.
    intros Hk. induction l as [|x t IH].
    - apply sim_ret.
    - cbn [mapMM mapM].
      assert (E : mapM g (x :: t) = bind (g x) (fun y => bind (mapM g t) (fun ys => Ok (y :: ys)))).
      { cbn. destruct (g x); cbn; [destruct (mapM g t)|]; reflexivity. }
      cbn [mapM] in E. rewrite E.
      eapply sim_bind; [apply Hk|]. intros y. cbn [app].
      eapply sim_bind; [apply IH|]. intros ys. apply sim_ret.
  Qed.

  (* ---- reading a loaded attribute *)
  Ltac rd_tac :=
    let s := fresh "s" in let H := fresh "H" in let HL := fresh "HL" in
    intros s H HL; unfold rd; cbn [fst snd];
    split5; [exact H | apply ext_refl | apply ibv_same_refl | | nopost].

  Lemma sim_rd_he L : In G_conn L -> sim L [] (rd c_he) (p_he m f).
  Proof.
    intros HI. rd_tac. specialize (HL _ HI). cbn in HL.
    destruct H as ([ (?&?&?&?&E&?) | (T & ET & ?&?&?&?&E&?)] & _); [congruence|].
    unfold p_he. rewrite ET, E. reflexivity.
  Qed.
  Lemma sim_rd_Cn2he L : In G_conn L -> sim L [] (rd c_Cn2he) (p_Cn2he m f).
  Proof.
    intros HI. rd_tac. specialize (HL _ HI). cbn in HL.
    destruct H as ([ (?&?&?&?&E&?) | (T & ET & ?&?&?&?&?&E)] & _); [congruence|].
    unfold p_Cn2he. rewrite ET, E. reflexivity.
  Qed.
  Lemma sim_rd_adjV2V L : In G_conn L -> sim L [] (rd c_adjV2V) (p_adjV2V m f).
  Proof.
    intros HI. rd_tac. specialize (HL _ HI). cbn in HL.
    destruct H as ([ (?&?&?&?&E&?) | (T & ET & E&?&?&?&?&?)] & _); [congruence|].
    unfold p_adjV2V. rewrite ET, E. reflexivity.
  Qed.
  Lemma sim_rd_adjV2Cn L : In G_conn L -> sim L [] (rd c_adjV2Cn) (p_adjV2Cn m f).
  Proof.
    intros HI. rd_tac. specialize (HL _ HI). cbn in HL.
    destruct H as ([ (?&?&?&?&E&?) | (T & ET & ?&E&?&?&?&?)] & _); [congruence|].
    unfold p_adjV2Cn. rewrite ET, E. reflexivity.
  Qed.
  Lemma sim_rd_adjVF2Cn L : In G_conn L -> sim L [] (rd c_adjVF2Cn) (p_adjVF2Cn m f).
  Proof.
    intros HI. rd_tac. specialize (HL _ HI). cbn in HL.
    destruct H as ([ (?&?&?&?&E&?) | (T & ET & ?&?&E&?&?&?)] & _); [congruence|].
    unfold p_adjVF2Cn. rewrite ET, E. reflexivity.
  Qed.
  Lemma sim_rd_adjF2Cn L : In G_conn L -> sim L [] (rd c_adjF2Cn) (p_adjF2Cn m f).
  Proof.
    intros HI. rd_tac. specialize (HL _ HI). cbn in HL.
    destruct H as ([ (?&?&?&?&E&?) | (T & ET & ?&?&?&E&?&?)] & _); [congruence|].
    unfold p_adjF2Cn. rewrite ET, E. reflexivity.
  Qed.
  Lemma sim_rd_edge_id L : In G_eid L -> sim L [] (rd c_edge_id) (Ok (EID m)).
  Proof.
    intros HI. rd_tac. specialize (HL _ HI). cbn in HL.
    destruct H as (_ & [E|E] & _); [congruence|]. rewrite E. reflexivity.
  Qed.
  Lemma sim_rd_face_id L : In G_fid L -> sim L [] (rd c_face_id) (Ok (FID m)).
  Proof.
    intros HI. rd_tac. specialize (HL _ HI). cbn in HL.
    destruct H as (_ & _ & [E|E] & _); [congruence|]. rewrite E. reflexivity.
  Qed.
  Lemma sim_rd_bnd_edges L : In G_ibe L -> sim L [] (rd c_bnd_edges) (do ib <- IBE m f; Ok (snd ib)).
  Proof.
    intros HI. rd_tac. specialize (HL _ HI). cbn in HL.
    destruct H as (_ & _ & _ & [(E&?)|(ib & EI & E & ?)]); [congruence|]. rewrite E, EI. reflexivity.
  Qed.
  Lemma sim_rd_int_edges L : In G_ibe L -> sim L [] (rd c_int_edges) (do ib <- IBE m f; Ok (fst ib)).
  Proof.
    intros HI. rd_tac. specialize (HL _ HI). cbn in HL.
    destruct H as (_ & _ & _ & [(E&?)|(ib & EI & E1 & E)]); [congruence|]. rewrite E, EI. reflexivity.
  Qed.

  (* ---- the lazy guard *)
  Lemma unchanged {X} (s : cache) (p : res X) (D : list grp) :
    ok12 s -> (forall g, In g D -> has g s) ->
    ok12 s /\ ext s s /\ ibv_same s s /\ p = p /\ (forall x, p = Ok x -> forall g, In g D -> has g s).
  Proof. intros H HD. split5; auto using ext_refl, ibv_same_refl. Qed.

  Lemma sim_guard1 L g : guard_wf g -> sim L (groups_of g) (guard1 m f g) (p_guard1 m f g).
  Proof.
    intros W s H HL. destruct g as [[a k]|]; cbn [guard1 p_guard1 groups_of].
    2:{ cbn [fst snd]. apply unchanged; auto. intros g []. }
    cbn in W. pose proof H as (Hc & He & Hf & Hi).
    destruct k; cbn [grp_of_comp] in *.
    - (* connectivity *)
      destruct (attr_is_none a s) eqn:E.
      + assert (Ehe : c_adjV2V s = None /\ c_adjV2Cn s = None /\ c_adjVF2Cn s = None /\ c_adjF2Cn s = None /\ c_he s = None /\ c_Cn2he s = None).
        { destruct Hc as [Hn|(T & ET & E1&E2&E3&E4&E5&E6)]; [exact Hn|].
          destruct a; cbn in W; try discriminate; cbn in E; unfold isnone, onone in E;
            rewrite ?E1, ?E2, ?E3, ?E4, ?E5, ?E6 in E; discriminate. }
        unfold run_comp1. fold (CR m f). destruct (CR m f) as [T|e] eqn:ET; cbn [bind fst snd].
        * unfold sets_connectivity, copy_attrs.
          cbn [fold_left copy_attr cache_of_tables c_adjV2V c_edge_id c_he c_Cn2he c_adjVF2Cn c_adjV2Cn c_adjF2Cn c_face_id c_bnd_edges c_int_edges c_vborder c_bnd_verts c_int_verts].
          split5.
          -- split; [|split; [|split]]; cbn; auto.
             right. exists T. repeat split; auto.
          -- intros g Hg. destruct g; cbn in *; auto. intuition congruence.
          -- repeat split.
          -- reflexivity.
          -- intros x _ g [<-|[]]. cbn. congruence.
        * split5; auto using ext_refl, ibv_same_refl. intros x Hx; discriminate.
      + assert (Ehe : exists T, CR m f = Ok T /\ c_he s = Some (t_he T)).
        { destruct Hc as [(E1&E2&E3&E4&E5&E6)|(T & ET & E1&E2&E3&E4&E5&E6)]; [|eauto].
          destruct a; cbn in W; try discriminate; cbn in E; unfold isnone, onone in E;
            rewrite ?E1, ?E2, ?E3, ?E4, ?E5, ?E6 in E; discriminate. }
        destruct Ehe as (T & ET & Ehe). cbn [fst snd]. rewrite ET. cbn [bind].
        apply unchanged; auto. intros g [<-|[]]. cbn. congruence.
    - (* edge ids *)
      assert (Ea : a = A_edge_id) by (destruct a; cbn in W; congruence). subst a.
      cbn [attr_is_none]. unfold isnone, onone. destruct (c_edge_id s) eqn:E.
      + cbn [fst snd]. apply unchanged; auto. intros g [<-|[]]. cbn. congruence.
      + unfold run_comp1, sets_edge_id, copy_attrs.
        cbn [fold_left copy_attr cache_of_tables c_adjV2V c_edge_id c_he c_Cn2he c_adjVF2Cn c_adjV2Cn c_adjF2Cn c_face_id c_bnd_edges c_int_edges c_vborder c_bnd_verts c_int_verts fst snd].
        split5.
        * split; [|split; [|split]]; cbn; auto; try (right; reflexivity).
        * intros g Hg. destruct g; cbn in *; auto; congruence.
        * repeat split.
        * reflexivity.
        * intros x _ g [<-|[]]. cbn. congruence.
    - (* face ids *)
      assert (Ea : a = A_face_id) by (destruct a; cbn in W; congruence). subst a.
      cbn [attr_is_none]. unfold isnone, onone. destruct (c_face_id s) eqn:E.
      + cbn [fst snd]. apply unchanged; auto. intros g [<-|[]]. cbn. congruence.
      + unfold run_comp1, sets_face_ids, copy_attrs.
        cbn [fold_left copy_attr cache_of_tables c_adjV2V c_edge_id c_he c_Cn2he c_adjVF2Cn c_adjV2Cn c_adjF2Cn c_face_id c_bnd_edges c_int_edges c_vborder c_bnd_verts c_int_verts fst snd].
        split5.
        * split; [|split; [|split]]; cbn; auto; try (right; reflexivity).
        * intros g Hg. destruct g; cbn in *; auto; congruence.
        * repeat split.
        * reflexivity.
        * intros x _ g [<-|[]]. cbn. congruence.
  Qed.

  (* ---------------------------------------------------------------- connectivity accessors *)
  Ltac in_tac := first [ solve [cbn; auto] | solve [simpl; tauto] | solve [compute; tauto] ].
  Ltac wf_tac := first [ exact I | reflexivity | solve [cbn; auto] ].

  Ltac sim_leaf :=
    match goal with
    | |- sim _ _ (ret _) _ => apply sim_ret
    | |- sim _ _ (raise _) _ => apply sim_raise
    | |- sim _ _ (lift _) _ => apply sim_lift
    | |- sim _ _ (guard1 _ _ _) _ => apply sim_guard1; wf_tac
    | |- sim _ _ (rd c_he) _ => apply sim_rd_he; in_tac
    | |- sim _ _ (rd c_Cn2he) _ => apply sim_rd_Cn2he; in_tac
    | |- sim _ _ (rd c_adjV2V) _ => apply sim_rd_adjV2V; in_tac
    | |- sim _ _ (rd c_adjV2Cn) _ => apply sim_rd_adjV2Cn; in_tac
    | |- sim _ _ (rd c_adjVF2Cn) _ => apply sim_rd_adjVF2Cn; in_tac
    | |- sim _ _ (rd c_adjF2Cn) _ => apply sim_rd_adjF2Cn; in_tac
    | |- sim _ _ (rd c_edge_id) _ => apply sim_rd_edge_id; in_tac
    | |- sim _ _ (rd c_face_id) _ => apply sim_rd_face_id; in_tac
    end.

  Ltac sim_with tac :=
    repeat first
      [ sim_leaf
      | tac
      | match goal with
        | |- sim _ _ (bindM _ _) (bind _ _) => eapply sim_bind; [ | intros ? ]
        | |- sim _ _ (mapMM _ _) (mapM _ _) => apply sim_mapMM; intros ?
        | |- sim _ _ (match ?x with _ => _ end) _ => destruct x
        | |- sim _ _ (if ?x then _ else _) _ => destruct x
        | |- sim _ _ (let '(_, _) := ?x in _) _ => destruct x
        end ].
  Ltac sim_go := sim_with fail.

  Lemma sim_edge_id L u v : sim L [] (acc_edge_id m f u v) (p_edge_id m f u v).
  Proof. unfold acc_edge_id, p_edge_id; sim_go. Qed.

  Lemma sim_edge_at L E : sim L [] (edge_at m E) (p_edge_at m E).
  Proof. unfold edge_at, p_edge_at; sim_go. Qed.

  Lemma sim_other_edge_end L E V : sim L [] (acc_other_edge_end m f E V) (p_other_edge_end m f E V).
  Proof. unfold acc_other_edge_end, p_other_edge_end; sim_with ltac:(apply sim_edge_at). Qed.

  Lemma sim_vertex_to_vertices L V : sim L [] (acc_vertex_to_vertices m f V) (p_vertex_to_vertices m f V).
  Proof. unfold acc_vertex_to_vertices, p_vertex_to_vertices; sim_go. Qed.

  Lemma sim_vertex_to_edges L V : sim L [] (acc_vertex_to_edges m f V) (p_vertex_to_edges m f V).
  Proof.
    unfold acc_vertex_to_edges, p_vertex_to_edges;
      sim_with ltac:(first [apply sim_vertex_to_vertices | apply sim_edge_id]).
  Qed.

  Lemma sim_edge_to_vertices L E : sim L [] (acc_edge_to_vertices m f E) (p_edge_to_vertices m f E).
  Proof. unfold acc_edge_to_vertices, p_edge_to_vertices; sim_with ltac:(apply sim_edge_at). Qed.

  Lemma sim_face_id L vs : sim L [] (acc_face_id m f vs) (p_face_id m f vs).
  Proof. unfold acc_face_id, p_face_id; sim_go. Qed.

  Lemma sim_vertex_to_corners L V : sim L [] (acc_vertex_to_corners m f V) (p_vertex_to_corners m f V).
  Proof. unfold acc_vertex_to_corners, p_vertex_to_corners; sim_go. Qed.

  Lemma sim_corner_to_face L C : sim L [] (acc_corner_to_face m f C) (p_corner_to_face m f C).
  Proof. unfold acc_corner_to_face, p_corner_to_face; sim_go. Qed.

  Lemma sim_vertex_to_faces L V : sim L [] (acc_vertex_to_faces m f V) (p_vertex_to_faces m f V).
  Proof.
    unfold acc_vertex_to_faces, p_vertex_to_faces;
      sim_with ltac:(first [apply sim_vertex_to_corners | apply sim_corner_to_face]).
  Qed.

  Lemma sim_vertex_to_corner_in_face L V F :
    sim L [] (acc_vertex_to_corner_in_face m f V F) (p_vertex_to_corner_in_face m f V F).
  Proof. unfold acc_vertex_to_corner_in_face, p_vertex_to_corner_in_face; sim_go. Qed.

  Lemma sim_corner_field L g slot C :
    guard_wf g -> In G_conn (groups_of g) ->
    sim L [] (acc_corner_field m f g slot C) (p_corner_field m f g slot C).
  Proof.
    intros W HI. unfold acc_corner_field, p_corner_field.
    eapply sim_bind; [apply sim_guard1; exact W|]. intros _.
    eapply sim_bind; [apply sim_rd_Cn2he; apply in_or_app; left; exact HI|]. intros c2h.
    destruct (zget C c2h); [|apply sim_ret].
    eapply sim_bind; [apply sim_rd_he; cbn; apply in_or_app; left; exact HI|]. intros he.
    sim_go.
  Qed.
  Lemma sim_previous_corner L C : sim L [] (acc_previous_corner m f C) (p_previous_corner m f C).
  Proof. apply sim_corner_field; [wf_tac | in_tac]. Qed.
  Lemma sim_next_corner L C : sim L [] (acc_next_corner m f C) (p_next_corner m f C).
  Proof. apply sim_corner_field; [wf_tac | in_tac]. Qed.
  Lemma sim_opposite_corner L C : sim L [] (acc_opposite_corner m f C) (p_opposite_corner m f C).
  Proof. apply sim_corner_field; [wf_tac | in_tac]. Qed.

  Lemma sim_corner_to_half_edge L C : sim L [] (acc_corner_to_half_edge m f C) (p_corner_to_half_edge m f C).
  Proof. unfold acc_corner_to_half_edge, p_corner_to_half_edge; sim_go. Qed.

  Lemma sim_half_edge_to_corner L u v : sim L [] (acc_half_edge_to_corner m f u v) (p_half_edge_to_corner m f u v).
  Proof. unfold acc_half_edge_to_corner, p_half_edge_to_corner; sim_go. Qed.

  Lemma sim_direct_face L u v : sim L [] (acc_direct_face m f u v) (p_direct_face m f u v).
  Proof. unfold acc_direct_face, p_direct_face; sim_go. Qed.

  Lemma sim_direct_face_inds L u v : sim L [] (acc_direct_face_inds m f u v) (p_direct_face_inds m f u v).
  Proof. unfold acc_direct_face_inds, p_direct_face_inds; sim_go. Qed.

  Lemma sim_edge_to_faces L u v : sim L [] (acc_edge_to_faces m f u v) (p_edge_to_faces m f u v).
  Proof. unfold acc_edge_to_faces, p_edge_to_faces; sim_with ltac:(apply sim_direct_face). Qed.

  Lemma sim_opposite_face L u v F : sim L [] (acc_opposite_face m f u v F) (p_opposite_face m f u v F).
  Proof. unfold acc_opposite_face, p_opposite_face; sim_with ltac:(apply sim_direct_face). Qed.

  Lemma sim_unpack3 L l : sim L [] (unpack3 l) (p_unpack3 l).
  Proof. unfold unpack3, p_unpack3; sim_go. Qed.

  Lemma sim_opposite_face_inds L u v F :
    sim L [] (acc_opposite_face_inds m f u v F) (p_opposite_face_inds m f u v F).
  Proof.
    unfold acc_opposite_face_inds, p_opposite_face_inds;
      sim_with ltac:(first [apply sim_direct_face_inds | apply sim_unpack3]).
  Qed.

  Lemma sim_face_at L F : sim L [] (face_at m F) (p_face_at m F).
  Proof. unfold face_at, p_face_at; sim_go. Qed.

  Lemma sim_common_edge_loop L F1 n iF1 iF2 is :
    sim L [] (common_edge_loop m f F1 n iF1 iF2 is) (p_common_edge_loop m f F1 n iF1 iF2 is).
  Proof.
    revert L. induction is as [|i t IH]; intros L; cbn [common_edge_loop p_common_edge_loop]; [apply sim_ret|].
    sim_with ltac:(first [apply sim_opposite_face | apply IH]).
  Qed.

  Lemma sim_common_edge L a b : sim L [] (acc_common_edge m f a b) (p_common_edge m f a b).
  Proof.
    unfold acc_common_edge, p_common_edge; sim_with ltac:(first [apply sim_face_at | apply sim_common_edge_loop]).
  Qed.

  Lemma sim_face_to_vertices L F : sim L [] (acc_face_to_vertices m f F) (p_face_to_vertices m f F).
  Proof. unfold acc_face_to_vertices, p_face_to_vertices; sim_with ltac:(apply sim_face_at). Qed.

  Lemma sim_in_face_index L F V : sim L [] (acc_in_face_index m f F V) (p_in_face_index m f F V).
  Proof. unfold acc_in_face_index, p_in_face_index; sim_with ltac:(apply sim_face_at). Qed.

  Lemma sim_face_to_edges L F : sim L [] (acc_face_to_edges m f F) (p_face_to_edges m f F).
  Proof.
    unfold acc_face_to_edges, p_face_to_edges; sim_with ltac:(first [apply sim_face_at | apply sim_edge_id]).
  Qed.

  Lemma sim_face_to_first_corner L F : sim L [] (acc_face_to_first_corner m f F) (p_face_to_first_corner m f F).
  Proof. unfold acc_face_to_first_corner, p_face_to_first_corner; sim_go. Qed.

  Lemma sim_face_to_corners L F : sim L [] (acc_face_to_corners m f F) (p_face_to_corners m f F).
  Proof. unfold acc_face_to_corners, p_face_to_corners; sim_with ltac:(apply sim_face_at). Qed.

  Lemma sim_face_to_faces L F : sim L [] (acc_face_to_faces m f F) (p_face_to_faces m f F).
  Proof.
    unfold acc_face_to_faces, p_face_to_faces;
      sim_with ltac:(first [apply sim_face_to_corners | apply sim_opposite_corner | apply sim_corner_to_face]).
  Qed.

  Lemma sim_is_edge_on_border L u v : sim L [] (acc_is_edge_on_border m f u v) (p_is_edge_on_border m f u v).
  Proof.
    unfold acc_is_edge_on_border, p_is_edge_on_border;
      sim_with ltac:(first [apply sim_edge_id | apply sim_direct_face]).
  Qed.

  (* ---------------------------------------------------------------- border edges *)
  Lemma sim_ib_edges_loop L es inte bnd :
    sim L [] (ib_edges_loop m f es inte bnd) (p_ib_edges_loop m f es inte bnd).
  Proof.
    revert L inte bnd. induction es as [|[e [u v]] t IH]; intros L inte bnd;
      cbn [ib_edges_loop p_ib_edges_loop]; [apply sim_ret|].
    sim_with ltac:(first [apply sim_is_edge_on_border | apply IH]).
  Qed.

  Lemma sim_compute_ib_edges L : sim L [G_ibe] (compute_ib_edges m f) (do _ <- IBE m f; Ok tt).
  Proof.
    intros s H HL. unfold compute_ib_edges, bindM.
    destruct (sim_ib_edges_loop L (enumerate (m_edges m)) [] [] s H HL) as (A & B & C & E & _).
    fold (IBE m f) in E. destruct (ib_edges_loop m f (enumerate (m_edges m)) [] [] s) as [s1 r]. cbn [fst snd] in *.
    subst r. destruct (IBE m f) as [ib|e] eqn:EI; cbn [bind].
    - unfold sets_ib_edges, copy_attrs.
      cbn [fold_left copy_attr c_adjV2V c_edge_id c_he c_Cn2he c_adjVF2Cn c_adjV2Cn c_adjF2Cn c_face_id c_bnd_edges c_int_edges c_vborder c_bnd_verts c_int_verts fst snd].
      destruct A as (A1 & A2 & A3 & A4). split5.
      + split; [|split; [|split]]; auto. right. exists ib. cbn. auto.
      + intros g Hg. apply B in Hg. destruct g; cbn in *; auto; congruence.
      + exact C.
      + reflexivity.
      + intros x _ g [<-|[]]. cbn. congruence.
    - cbn [fst snd]. split5; auto. intros x Hx; discriminate.
  Qed.

  Definition guard_e_wf (g : option attr) : Prop :=
    match g with None => True | Some a => grp_of_attr a = G_ibe end.
  Definition groups_e (g : option attr) : list grp := match g with None => [] | Some _ => [G_ibe] end.

  Lemma sim_guard_edges L g : guard_e_wf g -> sim L (groups_e g) (guard_edges m f g) (p_guard_edges m f g).
  Proof.
    intros W. destruct g as [a|]; cbn [guard_edges p_guard_edges groups_e].
    2:{ intros s H HL. cbn [fst snd]. apply unchanged; auto. intros g []. }
    intros s H HL. cbn in W. unfold guard_edges.
    destruct (attr_is_none a s) eqn:E.
    - exact (sim_compute_ib_edges L s H HL).
    - cbn [fst snd]. pose proof H as (_ & _ & _ & [(E1&E2)|(ib & EI & E1 & E2)]).
      + destruct a; cbn in W; try discriminate; cbn in E; unfold isnone, onone in E; rewrite ?E1, ?E2 in E; discriminate.
      + rewrite EI. cbn [bind]. apply unchanged; auto. intros g [<-|[]]. cbn. congruence.
  Qed.

  Lemma sim_boundary_edges L : sim L [] (acc_boundary_edges m f) (p_boundary_edges m f).
  Proof.
    unfold acc_boundary_edges, p_boundary_edges.
    eapply sim_bind; [apply sim_guard_edges; reflexivity|]. intros _.
    apply sim_rd_bnd_edges. cbn. auto.
  Qed.
  Lemma sim_interior_edges L : sim L [] (acc_interior_edges m f) (p_interior_edges m f).
  Proof.
    unfold acc_interior_edges, p_interior_edges.
    eapply sim_bind; [apply sim_guard_edges; reflexivity|]. intros _.
    apply sim_rd_int_edges. cbn. auto.
  Qed.

  (* ---------------------------------------------------------------- border vertices (full invariant) *)
  Definition sim3 {X} (a : M X) (p : res X) : Prop :=
    forall s, ok s -> ok (fst (a s)) /\ snd (a s) = p.

  Lemma sim_sim3 {X} D (a : M X) p : sim [] D a p -> sim3 a p.
  Proof.
    intros Hs s (H12 & Hv). destruct (Hs s H12) as (A & B & (C1 & C2 & C3) & E & _); [intros g []|].
    split; [|exact E]. split; [exact A|]. unfold ok_ibv in *. rewrite C1, C2, C3. exact Hv.
  Qed.

  Lemma sim3_fmap {X Y} (a : M X) p (h : X -> Y) : sim3 a p -> sim3 (fmapM h a) (rmap h p).
  Proof.
    intros Ha s H. unfold fmapM, bindM, rmap. destruct (Ha s H) as (A & E). destruct (a s) as [s1 r]. cbn in *.
    subst r. destruct p; cbn; auto.
  Qed.

  Lemma ib_verts_loop_pure es attr bset s :
    ib_verts_loop m es attr bset s = (s, p_ib_verts_loop m es attr bset).
  Proof.
    revert attr bset. induction es as [|e t IH]; intros attr bset; cbn [ib_verts_loop p_ib_verts_loop]; [reflexivity|].
    unfold bindM, edge_at, lift, p_edge_at. destruct (of_opt EIndex (zth (m_edges m) e)) as [[a b]|]; cbn; [apply IH|reflexivity].
  Qed.

  Hypothesis IBV_ok : exists r, IBV m f = Ok r.

  Lemma compute_ib_vertices_spec s :
    ok s -> c_vborder s = None -> c_bnd_verts s = None -> c_int_verts s = None ->
    exists sf, compute_ib_vertices m f s = (sf, Ok tt) /\ ok sf /\ c_vborder sf <> None.
  Proof.
    intros (H12 & Hv) E1 E2 E3. destruct IBV_ok as (r0 & ER).
    unfold compute_ib_vertices, bindM, ib_verts_init, copy_attrs.
    cbn [fold_left copy_attr c_adjV2V c_edge_id c_he c_Cn2he c_adjVF2Cn c_adjV2Cn c_adjF2Cn c_face_id c_bnd_edges c_int_edges c_vborder c_bnd_verts c_int_verts].
    set (s1 := mkCache _ _ _ _ _ _ _ _ _ _ _ _ _).
    assert (H1 : ok12 s1).
    { destruct H12 as (A1 & A2 & A3 & A4). split; [|split; [|split]]; assumption. }
    destruct (sim_boundary_edges [] s1 H1) as (A & B & (C1 & C2 & C3) & E & _); [intros g []|].
    destruct (acc_boundary_edges m f s1) as [s2 r]. cbn [fst snd] in *. subst r.
    pose proof ER as ER0.
    unfold IBV in ER. destruct (p_boundary_edges m f) as [be|e]; [|discriminate]. cbn [bind] in ER.
    rewrite ib_verts_loop_pure.
    destruct (p_ib_verts_loop m be zempty []) as [rr|e]; [|discriminate]. cbn [bind] in ER.
    unfold ib_verts_selfcall, gattr_boundary_vertices. cbn [attr_is_none]. rewrite C2. subst s1.
    cbn [c_bnd_verts isnone onone].
    unfold ib_verts_store, sets_ib_vertices, copy_attrs.
    cbn [fold_left copy_attr c_adjV2V c_edge_id c_he c_Cn2he c_adjVF2Cn c_adjV2Cn c_adjF2Cn c_face_id c_bnd_edges c_int_edges c_vborder c_bnd_verts c_int_verts fst snd].
    eexists. split; [reflexivity|]. split; [|cbn; discriminate].
    split.
    - destruct A as (A1 & A2 & A3 & A4). split; [|split; [|split]]; assumption.
    - right. exists r0. inversion ER; subst r0. cbn. auto.
  Qed.

  Definition guard_v_wf (g : option attr) : Prop :=
    match g with None => True | Some a => grp_of_attr a = G_ibv end.

  Lemma guard_verts_spec g s :
    guard_v_wf g -> ok s ->
    ok (fst (guard_verts m f g s)) /\ snd (guard_verts m f g s) = Ok tt /\
    (g <> None -> c_vborder (fst (guard_verts m f g s)) <> None).
  Proof.
    intros W H. destruct g as [a|]; cbn [guard_verts].
    2:{ cbn. split; [auto|split; [auto|congruence]]. }
    cbn in W. unfold guard_verts. destruct (attr_is_none a s) eqn:E.
    - pose proof H as (_ & [(E1&E2&E3)|(r & _ & E1 & E2 & E3)]).
      + destruct (compute_ib_vertices_spec s H E1 E2 E3) as (sf & EC & A & C). rewrite EC. cbn. auto.
      + destruct a; cbn in W; try discriminate; cbn in E; unfold isnone, onone in E; rewrite ?E1, ?E2, ?E3 in E; discriminate.
    - cbn [fst snd]. split; [auto|split; [auto|]]. intros _.
      pose proof H as (_ & [(E1&E2&E3)|(r & _ & E1 & E2 & E3)]).
      + destruct a; cbn in W; try discriminate; cbn in E; unfold isnone, onone in E; rewrite ?E1, ?E2, ?E3 in E; discriminate.
      + congruence.
  Qed.

  Lemma ibv_loaded s : ok s -> c_vborder s <> None ->
    exists r, IBV m f = Ok r /\ c_vborder s = Some (fst (fst r)) /\ c_bnd_verts s = Some (snd (fst r)) /\ c_int_verts s = Some (snd r).
  Proof. intros (_ & [(E1&_)|Hr]) Hn; [congruence | exact Hr]. Qed.

  Lemma p_guard_verts_ok g : p_guard_verts m f g = Ok tt.
  Proof. destruct IBV_ok as (r & E). destruct g; cbn; [rewrite E|]; reflexivity. Qed.

  Lemma sim3_boundary_vertices : sim3 (acc_boundary_vertices m f) (p_boundary_vertices m f).
  Proof.
    intros s H. unfold acc_boundary_vertices, p_boundary_vertices, bindM.
    destruct (guard_verts_spec gattr_boundary_vertices s eq_refl H) as (A & B & C).
    destruct (guard_verts m f gattr_boundary_vertices s) as [s1 r]. cbn [fst snd] in *. subst r.
    rewrite p_guard_verts_ok. cbn [bind]. split; [exact A|].
    destruct (ibv_loaded s1 A (C ltac:(discriminate))) as (r & ER & E1 & E2 & E3).
    unfold rd_list, gret_boundary_vertices, p_rd_vlist, rd. cbn [snd]. rewrite E2, ER. reflexivity.
  Qed.
  Lemma sim3_interior_vertices : sim3 (acc_interior_vertices m f) (p_interior_vertices m f).
  Proof.
    intros s H. unfold acc_interior_vertices, p_interior_vertices, bindM.
    destruct (guard_verts_spec gattr_interior_vertices s eq_refl H) as (A & B & C).
    destruct (guard_verts m f gattr_interior_vertices s) as [s1 r]. cbn [fst snd] in *. subst r.
    rewrite p_guard_verts_ok. cbn [bind]. split; [exact A|].
    destruct (ibv_loaded s1 A (C ltac:(discriminate))) as (r & ER & E1 & E2 & E3).
    unfold rd_list, gret_interior_vertices, p_rd_vlist, rd. cbn [snd]. rewrite E3, ER. reflexivity.
  Qed.
  Lemma sim3_is_vertex_on_border u : sim3 (acc_is_vertex_on_border m f u) (p_is_vertex_on_border m f u).
  Proof.
    intros s H. unfold acc_is_vertex_on_border, p_is_vertex_on_border, bindM.
    destruct (guard_verts_spec gattr_is_vertex_on_border s eq_refl H) as (A & B & C).
    destruct (guard_verts m f gattr_is_vertex_on_border s) as [s1 r]. cbn [fst snd] in *. subst r.
    rewrite p_guard_verts_ok. cbn [bind].
    destruct (ibv_loaded s1 A (C ltac:(discriminate))) as (r & ER & E1 & E2 & E3).
    unfold rd. rewrite E1, ER. cbn. split; [exact A|reflexivity].
  Qed.

  (* ---------------------------------------------------------------- clear / clear_boundary_data *)
  Lemma clear_ok s : ok s -> ok (fst (acc_clear s)).
  Proof.
    intros ((A1 & A2 & A3 & A4) & Hv). unfold acc_clear, clears_connectivity, copy_attrs.
    cbn [fold_left copy_attr empty_cache c_adjV2V c_edge_id c_he c_Cn2he c_adjVF2Cn c_adjV2Cn c_adjF2Cn c_face_id c_bnd_edges c_int_edges c_vborder c_bnd_verts c_int_verts fst].
    split; [split; [|split; [|split]]|]; auto.
    - left. repeat split.
    - left. reflexivity.
    - left. reflexivity.
  Qed.
  Lemma clear_boundary_ok s : ok s -> ok (fst (acc_clear_boundary_data s)).
  Proof.
    intros ((A1 & A2 & A3 & A4) & Hv). unfold acc_clear_boundary_data, clears_boundary, copy_attrs.
    cbn [fold_left copy_attr empty_cache c_adjV2V c_edge_id c_he c_Cn2he c_adjVF2Cn c_adjV2Cn c_adjF2Cn c_face_id c_bnd_edges c_int_edges c_vborder c_bnd_verts c_int_verts fst].
    split; [split; [|split; [|split]]|]; auto.
    - left. repeat split.
    - left. repeat split.
  Qed.

  (* ---------------------------------------------------------------- every query *)
  Lemma run_query_sim3 q : sim3 (run_query m f q) (p_query m f q).
  Proof.
    destruct q; cbn [run_query p_query];
      try (apply sim3_fmap; eapply sim_sim3;
           first [ apply sim_vertex_to_faces | apply sim_vertex_to_corners | apply sim_vertex_to_corner_in_face
                 | apply sim_previous_corner | apply sim_next_corner | apply sim_opposite_corner
                 | apply sim_corner_to_half_edge | apply sim_corner_to_face | apply sim_half_edge_to_corner
                 | apply sim_direct_face | apply sim_direct_face_inds | apply sim_edge_to_faces
                 | apply sim_opposite_face | apply sim_opposite_face_inds | apply sim_common_edge
                 | apply sim_face_to_vertices | apply sim_in_face_index | apply sim_face_to_edges
                 | apply sim_face_to_first_corner | apply sim_face_to_corners | apply sim_face_to_faces
                 | apply sim_face_id | apply sim_edge_id | apply sim_other_edge_end
                 | apply sim_vertex_to_vertices | apply sim_vertex_to_edges | apply sim_edge_to_vertices
                 | apply sim_boundary_edges | apply sim_interior_edges | apply sim_is_edge_on_border ]).
    - apply sim3_fmap, sim3_boundary_vertices.
    - apply sim3_fmap, sim3_interior_vertices.
    - apply sim3_fmap, sim3_is_vertex_on_border.
    - intros s H. unfold fmapM, bindM. cbn. split; [apply (clear_ok s H)|reflexivity].
    - intros s H. unfold fmapM, bindM. cbn. split; [apply (clear_boundary_ok s H)|reflexivity].
  Qed.

  (* the constructors initialise every lazily computed attribute to None: a fresh mesh has the empty cache *)
  Lemma fresh_cache_is_empty : forall a : attr, In a inits_none /\ attr_is_none a empty_cache = true.
  Proof. intros a. split; [destruct a; cbn; tauto|destruct a; reflexivity]. Qed.

  Lemma empty_ok : ok empty_cache.
  Proof. split; [split; [|split; [|split]]|]; left; cbn; repeat split. Qed.

  Lemma query_step_ok s q :
    ok s -> ok (fst (query_step m f s q)) /\ snd (query_step m f s q) = pure_answer m f q.
  Proof.
    intros H. unfold query_step, pure_answer. destruct (run_query_sim3 q s H) as (A & E).
    destruct (run_query m f q s) as [s' r]. cbn [fst snd] in *. subst r. split; [exact A|].
    destruct (p_query m f q); reflexivity.
  Qed.

  Lemma run_script_ok qs : ok (run_script m f qs).
  Proof.
    unfold run_script. assert (G : forall s, ok s -> ok (fold_left (fun s q => fst (query_step m f s q)) qs s)).
    { induction qs as [|q t IH]; intros s H; cbn [fold_left]; [exact H|]. apply IH. apply (query_step_ok s q H). }
    apply G, empty_ok.
  Qed.

  (* in every cache state reachable from a fresh mesh by any script, every query is answered by its pure answer *)
  Lemma query_order_independent qs q :
    snd (query_step m f (run_script m f qs) q) = pure_answer m f q.
  Proof. apply query_step_ok, run_script_ok. Qed.
End Q.
