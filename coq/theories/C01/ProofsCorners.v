(* C01 - the list of corners with coordinates (Spec.all_corners): characterisation, siblings, uniqueness *)
From Coq Require Import ZArith List Bool Lia.
Import ListNotations.
Require Import MV.C01.Defs MV.C01.Spec.
Open Scope Z_scope.

Lemma zth_Some {A} (l : list A) i v : zth l i = Some v <-> 0 <= i /\ nth_error l (Z.to_nat i) = Some v.
Proof.
  unfold zth. destruct (i <? 0) eqn:E; split.
  - discriminate.
  - intros [H _]. lia.
  - intros H. split; [lia|exact H].
  - intros [_ H]. exact H.
Qed.

Lemma zth_range {A} (l : list A) i v : zth l i = Some v -> 0 <= i < zlen l.
Proof.
  intros H. apply zth_Some in H as [H0 H]. split; [exact H0|].
  assert (Hn : (Z.to_nat i < length l)%nat) by (apply nth_error_Some; congruence). unfold zlen. lia.
Qed.

Lemma zth_in_range {A} (l : list A) i : 0 <= i < zlen l -> exists v, zth l i = Some v.
Proof.
  intros H. unfold zlen in H. destruct (nth_error l (Z.to_nat i)) as [v|] eqn:E.
  - exists v. apply zth_Some. split; [lia|exact E].
  - apply nth_error_None in E. lia.
Qed.

Lemma zth_In {A} (l : list A) i v : zth l i = Some v -> In v l.
Proof. intros H. apply zth_Some in H as [_ H]. eapply nth_error_In; eauto. Qed.

Lemma zth_cons_0 {A} (x : A) t : zth (x :: t) 0 = Some x.
Proof. reflexivity. Qed.
Lemma zth_cons_S {A} (x : A) t i : 0 < i -> zth (x :: t) i = zth t (i - 1).
Proof.
  intros H. unfold zth. destruct (i <? 0) eqn:E1; [lia|]. destruct (i - 1 <? 0) eqn:E2; [lia|].
  replace (Z.to_nat i) with (S (Z.to_nat (i - 1))) by lia. reflexivity.
Qed.

Lemma enum_from_In {A} (l : list A) k i v :
  In (i, v) (enum_from k l) <-> k <= i /\ zth l (i - k) = Some v.
Proof.
  revert k. induction l as [|x t IH]; intros k; cbn [enum_from In].
  - split; [tauto|]. intros [_ H]. apply zth_Some in H as [_ H]. destruct (Z.to_nat (i - k)); discriminate.
  - rewrite IH. split.
    + intros [E|[H1 H2]].
      * inversion E; subst. split; [lia|]. replace (i - i) with 0 by lia. reflexivity.
      * split; [lia|]. rewrite zth_cons_S by lia. replace (i - k - 1) with (i - (k + 1)) by lia. exact H2.
    + intros [H1 H2]. destruct (Z.eq_dec i k) as [->|N].
      * left. replace (k - k) with 0 in H2 by lia. cbn in H2. congruence.
      * right. split; [lia|]. rewrite zth_cons_S in H2 by lia. replace (i - (k + 1)) with (i - k - 1) by lia. exact H2.
Qed.

Lemma enumerate_In {A} (l : list A) i v : In (i, v) (enumerate l) <-> zth l i = Some v.
Proof.
  unfold enumerate. rewrite enum_from_In. replace (i - 0) with i by lia. split; [tauto|].
  intros H. split; [|exact H]. apply zth_range in H. lia.
Qed.

Lemma enum_from_length {A} (l : list A) k : length (enum_from k l) = length l.
Proof. revert k. induction l; intros; cbn; auto. Qed.

Lemma enum_from_app {A} (l1 l2 : list A) k :
  enum_from k (l1 ++ l2) = enum_from k l1 ++ enum_from (k + zlen l1) l2.
Proof.
  revert k. induction l1 as [|x t IH]; intros k; cbn [app enum_from].
  - unfold zlen. cbn. f_equal. lia.
  - rewrite IH. unfold zlen. cbn [length]. do 3 f_equal. lia.
Qed.

Lemma map_fst_enum_from {A} (l : list A) k : map fst (enum_from k l) = map (fun i => k + i) (zrange (zlen l)).
Proof.
  revert k. induction l as [|x t IH]; intros k.
  - reflexivity.
  - cbn [enum_from map fst]. rewrite IH. unfold zrange, zlen. cbn [length].
    replace (Z.to_nat (Z.of_nat (S (length t)))) with (S (length t)) by lia.
    replace (Z.to_nat (Z.of_nat (length t))) with (length t) by lia.
    cbn [seq map]. f_equal; [lia|]. rewrite <- seq_shift. rewrite !map_map.
    apply map_ext. intros a. lia.
Qed.

Lemma map_snd_enum_from {A} (l : list A) k : map snd (enum_from k l) = l.
Proof. revert k. induction l as [|x t IH]; intros k; cbn; [reflexivity|]. f_equal. apply IH. Qed.

(* ------------------------------------------------------------------ offsets *)
Fixpoint off (faces : list (list Z)) (f : nat) {struct f} : Z :=
  match f, faces with
  | O, _ => 0
  | S k, [] => 0
  | S k, F :: t => zlen F + off t k
  end.

Definition corner_ok (faces : list (list Z)) (x : crn) : Prop :=
  exists F, zth faces (cf x) = Some F /\ zth F (ci x) = Some (cv x) /\ cn x = zlen F
            /\ ct x = zth_d F ((ci x + 1) mod cn x) /\ cp x = zth_d F ((ci x - 1) mod cn x)
            /\ cid x = off faces (Z.to_nat (cf x)) + ci x.

Lemma face_corners_In F f c0 x :
  In x (face_corners F f c0) <->
  (zth F (ci x) = Some (cv x) /\ cf x = f /\ cn x = zlen F /\ ct x = zth_d F ((ci x + 1) mod cn x)
   /\ cp x = zth_d F ((ci x - 1) mod cn x) /\ cid x = c0 + ci x).
Proof.
  unfold face_corners. rewrite in_map_iff. split.
  - intros ([i v] & E & Hin). apply enumerate_In in Hin. subst x. cbn. auto 10.
  - intros (H1 & H2 & H3 & H4 & H5 & H6). exists (ci x, cv x). split; [|apply enumerate_In; exact H1].
    destruct x; cbn in *. subst. reflexivity.
Qed.

Lemma corners_from_In faces f0 c0 x :
  0 <= f0 ->
  In x (corners_from faces f0 c0) <->
  (f0 <= cf x /\ exists F, zth faces (cf x - f0) = Some F /\ zth F (ci x) = Some (cv x) /\ cn x = zlen F
            /\ ct x = zth_d F ((ci x + 1) mod cn x) /\ cp x = zth_d F ((ci x - 1) mod cn x)
            /\ cid x = c0 + off faces (Z.to_nat (cf x - f0)) + ci x).
Proof.
  revert f0 c0. induction faces as [|G t IH]; intros f0 c0 H0; cbn [corners_from].
  - split; [intros []|]. intros (_ & F & H & _). apply zth_Some in H as [_ H]. destruct (Z.to_nat (cf x - f0)); discriminate.
  - rewrite in_app_iff, face_corners_In, IH by lia. split.
    + intros [(H1 & H2 & H3 & H4 & H5 & H6)|(H1 & F & H2 & H3 & H4 & H5 & H6 & H7)].
      * split; [lia|]. exists G. rewrite H2. replace (f0 - f0) with 0 by lia. cbn [Z.to_nat off].
        repeat split; auto. lia.
      * split; [lia|]. exists F. rewrite zth_cons_S by lia. replace (cf x - f0 - 1) with (cf x - (f0 + 1)) by lia.
        repeat split; auto.
        replace (Z.to_nat (cf x - f0)) with (S (Z.to_nat (cf x - (f0 + 1)))) by lia. cbn [off]. lia.
    + intros (H1 & F & H2 & H3 & H4 & H5 & H6 & H7). destruct (Z.eq_dec (cf x) f0) as [E|N].
      * left. rewrite E in *. replace (f0 - f0) with 0 in * by lia. cbn in H2. inversion H2; subst F.
        cbn [Z.to_nat off] in H7. repeat split; auto. lia.
      * right. split; [lia|]. exists F. rewrite zth_cons_S in H2 by lia.
        replace (cf x - (f0 + 1)) with (cf x - f0 - 1) by lia. repeat split; auto.
        replace (Z.to_nat (cf x - f0)) with (S (Z.to_nat (cf x - f0 - 1))) in H7 by lia. cbn [off] in H7. lia.
Qed.

Lemma all_corners_In faces x : In x (all_corners faces) <-> corner_ok faces x.
Proof.
  unfold all_corners, corner_ok. rewrite corners_from_In by lia. split.
  - intros (H0 & F & H). exists F. replace (cf x - 0) with (cf x) in H by lia. replace (0 + off faces (Z.to_nat (cf x))) with (off faces (Z.to_nat (cf x))) in H by lia. exact H.
  - intros (F & H). pose proof H as (H1 & _). apply zth_range in H1. split; [lia|]. exists F.
    replace (cf x - 0) with (cf x) by lia. replace (0 + off faces (Z.to_nat (cf x))) with (off faces (Z.to_nat (cf x))) by lia. exact H.
Qed.

(* ------------------------------------------------------------------ siblings and uniqueness *)
Lemma crn_eq x y :
  cid x = cid y -> cv x = cv y -> cf x = cf y -> ci x = ci y -> cn x = cn y -> ct x = ct y -> cp x = cp y -> x = y.
Proof. destruct x, y; cbn; intros; subst; reflexivity. Qed.

Lemma corner_same_pos faces x y :
  In x (all_corners faces) -> In y (all_corners faces) -> cf x = cf y -> ci x = ci y -> x = y.
Proof.
  intros Hx Hy Ef Ei. apply all_corners_In in Hx as (F & H1 & H2 & H3 & H4 & H5 & H6).
  apply all_corners_In in Hy as (G & K1 & K2 & K3 & K4 & K5 & K6).
  rewrite Ef in H1. assert (F = G) by congruence. subst G.
  apply crn_eq; congruence.
Qed.

Lemma off_step faces k F : nth_error faces k = Some F -> off faces (S k) = off faces k + zlen F.
Proof.
  revert k. induction faces as [|G t IH]; intros k H; [destruct k; discriminate|].
  destruct k as [|k]; cbn in H.
  - inversion H; subst. cbn. lia.
  - change (off (G :: t) (S (S k))) with (zlen G + off t (S k)).
    change (off (G :: t) (S k)) with (zlen G + off t k). rewrite (IH k H). lia.
Qed.

Lemma off_mono faces a b F : (a < b)%nat -> nth_error faces a = Some F -> off faces a + zlen F <= off faces b.
Proof.
  intros Hab Ha. induction b as [|b IH]; [lia|].
  destruct (Nat.eq_dec a b) as [->|N].
  - rewrite (off_step _ _ _ Ha). lia.
  - assert (Hlt : (a < b)%nat) by lia. specialize (IH Hlt).
    destruct (nth_error faces b) as [G|] eqn:Eb.
    + rewrite (off_step _ _ _ Eb). unfold zlen in *. lia.
    + assert (off faces (S b) = off faces b).
      { clear - Eb. revert b Eb. induction faces as [|G t IH]; intros b Eb; [destruct b; reflexivity|].
        destruct b; [discriminate|]. cbn in Eb.
        change (off (G :: t) (S (S b))) with (zlen G + off t (S b)).
        change (off (G :: t) (S b)) with (zlen G + off t b). rewrite (IH b Eb). reflexivity. }
      lia.
Qed.

Lemma corner_same_id faces x y :
  In x (all_corners faces) -> In y (all_corners faces) -> cid x = cid y -> x = y.
Proof.
  intros Hx Hy E. pose proof Hx as Hx'. pose proof Hy as Hy'.
  apply all_corners_In in Hx as (F & H1 & H2 & H3 & H4 & H5 & H6).
  apply all_corners_In in Hy as (G & K1 & K2 & K3 & K4 & K5 & K6).
  pose proof (zth_range _ _ _ H2) as R1. pose proof (zth_range _ _ _ K2) as R2.
  pose proof (zth_range _ _ _ H1) as S1. pose proof (zth_range _ _ _ K1) as S2.
  apply zth_Some in H1 as [_ H1]. apply zth_Some in K1 as [_ K1].
  assert (Ef : cf x = cf y).
  { destruct (Z.lt_trichotomy (cf x) (cf y)) as [L|[L|L]]; [|exact L|].
    - pose proof (off_mono faces (Z.to_nat (cf x)) (Z.to_nat (cf y)) F ltac:(lia) H1). lia.
    - pose proof (off_mono faces (Z.to_nat (cf y)) (Z.to_nat (cf x)) G ltac:(lia) K1). lia. }
  apply (corner_same_pos faces); auto. rewrite Ef in H6. lia.
Qed.

Lemma NoDup_nth_error_inj {A} (l : list A) i j v :
  NoDup l -> nth_error l i = Some v -> nth_error l j = Some v -> i = j.
Proof.
  intros Hn Hi Hj. rewrite NoDup_nth_error in Hn. apply Hn; [|congruence].
  apply nth_error_Some. congruence.
Qed.

Lemma corner_same_vf faces x y :
  Forall (fun F => NoDup F) faces ->
  In x (all_corners faces) -> In y (all_corners faces) -> cv x = cv y -> cf x = cf y -> x = y.
Proof.
  intros Hn Hx Hy Ev Ef. apply (corner_same_pos faces); auto.
  apply all_corners_In in Hx as (F & H1 & H2 & _). apply all_corners_In in Hy as (G & K1 & K2 & _).
  rewrite Ef in H1. assert (F = G) by congruence. subst G.
  assert (NF : NoDup F). { rewrite Forall_forall in Hn. apply Hn. eapply zth_In; eauto. }
  apply zth_Some in H2 as [P1 H2]. apply zth_Some in K2 as [P2 K2]. rewrite Ev in H2.
  pose proof (NoDup_nth_error_inj _ _ _ _ NF H2 K2). lia.
Qed.

Lemma NoDup_map_inj {A B} (g : A -> B) l x y : NoDup (map g l) -> In x l -> In y l -> g x = g y -> x = y.
Proof.
  induction l as [|a t IH]; intros Hn Hx Hy E; [destruct Hx|].
  cbn in Hn. inversion Hn as [|? ? Hnot Hn']; subst.
  destruct Hx as [->|Hx], Hy as [->|Hy]; auto.
  - exfalso. apply Hnot. rewrite E. apply in_map, Hy.
  - exfalso. apply Hnot. rewrite <- E. apply in_map, Hx.
Qed.

Lemma corner_same_he faces x y :
  oriented faces -> In x (all_corners faces) -> In y (all_corners faces) -> cv x = cv y -> ct x = ct y -> x = y.
Proof.
  intros Ho Hx Hy E1 E2. apply (NoDup_map_inj (fun x => (cv x, ct x)) (all_corners faces)); auto. congruence.
Qed.

(* the corner at position j of the face of x *)
Lemma sibling faces x j :
  In x (all_corners faces) -> 0 <= j < cn x ->
  exists y, In y (all_corners faces) /\ cf y = cf x /\ ci y = j /\ cn y = cn x /\ cid y = cid x - ci x + j
            /\ exists F, zth faces (cf x) = Some F /\ zth F j = Some (cv y).
Proof.
  intros Hx Hj. apply all_corners_In in Hx as (F & H1 & H2 & H3 & H4 & H5 & H6).
  destruct (zth_in_range F j ltac:(lia)) as (v & Hv).
  exists (mkC (cid x - ci x + j) v (cf x) j (cn x) (zth_d F ((j + 1) mod cn x)) (zth_d F ((j - 1) mod cn x))).
  split; [|cbn; repeat split; eauto].
  apply all_corners_In. exists F. cbn. repeat split; auto. lia.
Qed.

Lemma zth_d_Some l i v : zth l i = Some v -> zth_d l i = v.
Proof. unfold zth_d. intros ->. reflexivity. Qed.

Lemma next_sibling faces x :
  In x (all_corners faces) ->
  exists y, In y (all_corners faces) /\ cf y = cf x /\ ci y = (ci x + 1) mod cn x /\ cn y = cn x
            /\ cid y = cid x - ci x + (ci x + 1) mod cn x /\ cv y = ct x.
Proof.
  intros Hx. pose proof Hx as Hx'. apply all_corners_In in Hx' as (F & H1 & H2 & H3 & H4 & H5 & H6).
  pose proof (zth_range _ _ _ H2) as R.
  assert (Hj : 0 <= (ci x + 1) mod cn x < cn x) by (apply Z.mod_pos_bound; lia).
  destruct (sibling faces x _ Hx Hj) as (y & Hy & A1 & A2 & A3 & A4 & G & B1 & B2).
  exists y. repeat split; auto. assert (G = F) by congruence. subst G.
  rewrite H4. symmetry. apply zth_d_Some. exact B2.
Qed.

Lemma prev_sibling faces x :
  In x (all_corners faces) ->
  exists y, In y (all_corners faces) /\ cf y = cf x /\ ci y = (ci x - 1) mod cn x /\ cn y = cn x
            /\ cid y = cid x - ci x + (ci x - 1) mod cn x /\ cv y = cp x.
Proof.
  intros Hx. pose proof Hx as Hx'. apply all_corners_In in Hx' as (F & H1 & H2 & H3 & H4 & H5 & H6).
  pose proof (zth_range _ _ _ H2) as R.
  assert (Hj : 0 <= (ci x - 1) mod cn x < cn x) by (apply Z.mod_pos_bound; lia).
  destruct (sibling faces x _ Hx Hj) as (y & Hy & A1 & A2 & A3 & A4 & G & B1 & B2).
  exists y. repeat split; auto. assert (G = F) by congruence. subst G.
  rewrite H5. symmetry. apply zth_d_Some. exact B2.
Qed.

Lemma corner_pos_range faces x : In x (all_corners faces) -> 0 <= ci x < cn x.
Proof.
  intros Hx. apply all_corners_In in Hx as (F & H1 & H2 & H3 & _). rewrite H3. eapply zth_range; eauto.
Qed.
