(* C01 - boolean checkers evaluated by the correspondence batches: the model is run on a fresh cache through
   the same query script the implementation was driven with and every answer is compared through the relation the
   property fixes (rings up to rotation, unordered answers as sets, everything else exactly). No proofs. *)
From Coq Require Import ZArith List Bool.
Import ListNotations.
Require Import MV.C01.Defs MV.C01.Gen MV.C01.Model MV.C01.Spec.
Open Scope Z_scope.

Definition oz_eqb2 (a b : option Z) : bool :=
  match a, b with Some x, Some y => x =? y | None, None => true | _, _ => false end.

(* a refusal is a refusal: which exception class the implementation raises is left free by the property *)
Definition err_eqb (a b : err) : bool := true.

Definition ans_eqb (a b : ans) : bool :=
  match a, b with
  | ANone, ANone => true
  | AInt x, AInt y => x =? y
  | ABool x, ABool y => Bool.eqb x y
  | AList x, AList y => list_eqb oz_eqb2 x y
  | AErr x, AErr y => err_eqb x y
  | _, _ => false
  end.

Fixpoint all_some (l : list (option Z)) : option (list Z) :=
  match l with
  | [] => Some []
  | Some x :: t => match all_some t with Some r => Some (x :: r) | None => None end
  | None :: _ => None
  end.

Definition zl_eqb := list_eqb Z.eqb.

Definition is_rotation (a b : list Z) : bool :=
  match a with
  | [] => match b with [] => true | _ => false end
  | _ => existsb (fun k => zl_eqb b (skipn k a ++ firstn k a)) (seq 0 (length a))
  end.

Fixpoint nodupb (l : list Z) : bool :=
  match l with [] => true | x :: t => negb (existsb (Z.eqb x) t) && nodupb t end.
Definition same_set (a b : list Z) : bool := nodupb a && nodupb b && zl_eqb (zsort a) (zsort b).

Inductive relation_kind := R_exact | R_ring_closed | R_ring_open | R_rot | R_set | R_multiset.
Definition same_multiset (a b : list Z) : bool := zl_eqb (zsort a) (zsort b).
Definition is_err (a : ans) : bool := match a with AErr _ => true | _ => false end.

Definition lift_rel (f : list Z -> list Z -> bool) (a b : ans) : bool :=
  match a, b with
  | AList x, AList y => match all_some x, all_some y with Some x', Some y' => f x' y' | _, _ => false end
  | _, _ => false
  end.

Section Check.
  Variable m : mesh.
  Variable sortflag : bool.
  Variable sfull : cache.   (* a cache in which everything has been computed: source of the pure answers *)

  Definition pure_bool (q : query) : bool :=
    match snd (query_step m sortflag sfull q) with ABool b => b | _ => false end.

  Definition rel_of (q : query) : relation_kind :=
    match q with
    | Q_vertex_to_faces V | Q_vertex_to_corners V | Q_vertex_to_vertices V | Q_vertex_to_edges V =>
        if sortflag then (if pure_bool (Q_is_vertex_on_border V) then R_ring_open else R_ring_closed) else R_set
    (* a classification is a set; the faces around a face a multiset (the property fixes no order for them) *)
    | Q_boundary_vertices | Q_interior_vertices | Q_boundary_edges | Q_interior_edges => R_set
    | Q_face_to_faces _ => R_multiset
    (* the sides of a face: the starting side is free *)
    | Q_face_to_vertices _ | Q_face_to_corners _ | Q_face_to_edges _ => R_rot
    | Q_common_edge _ _ => R_set
    | _ => R_exact
    end.

  (* `free`: the query names no element of the mesh (an id past the end, a vertex pair that is no edge, a vertex not in
     the face ...): the property says nothing about it, a refusal is as good as the conventional None / False.
     Rotational order fixes no direction: a ring may be listed either way round. *)
  Definition agree (q : query) (free : bool) (a o : ans) : bool :=
    match rel_of q with
    | R_exact => ans_eqb a o
    | R_ring_open => ans_eqb a o || lift_rel (fun x y => zl_eqb (rev x) y) a o
    | R_ring_closed => ans_eqb a o || lift_rel is_rotation a o || lift_rel (fun x y => is_rotation (rev x) y) a o
    | R_rot => ans_eqb a o || lift_rel is_rotation a o
    | R_set => ans_eqb a o || lift_rel same_set a o
    | R_multiset => ans_eqb a o || lift_rel same_multiset a o
    end
    || (free && (is_err o || is_err a)).

  Fixpoint run_check (script : list (query * ans * bool)) (s : cache) : bool :=
    match script with
    | [] => true
    | (q, o, free) :: t =>
        let '(s', a) := query_step m sortflag s q in
        (* the model's answer in this cache state = the implementation's answer (through the relation)
           and = the model's own pure answer *)
        agree q free a o && ans_eqb a (snd (query_step m sortflag sfull q)) && run_check t s'
    end.

  (* position of the first disagreement, for diagnostics *)
  Fixpoint first_bad (script : list (query * ans * bool)) (s : cache) (k : Z) : option (Z * ans) :=
    match script with
    | [] => None
    | (q, o, free) :: t =>
        let '(s', a) := query_step m sortflag s q in
        if agree q free a o && ans_eqb a (snd (query_step m sortflag sfull q)) then first_bad t s' (k + 1) else Some (k, a)
    end.
End Check.

Definition full_cache (m : mesh) (sortflag : bool) : cache :=
  run_script m sortflag [Q_interior_vertices; Q_face_id []; Q_boundary_edges].

Definition all_computed (s : cache) : bool :=
  negb (isnone (c_adjV2V s) || isnone (c_edge_id s) || isnone (c_he s) || isnone (c_Cn2he s) || isnone (c_adjVF2Cn s)
        || isnone (c_adjV2Cn s) || isnone (c_adjF2Cn s) || isnone (c_face_id s) || isnone (c_bnd_edges s)
        || isnone (c_int_edges s) || isnone (c_vborder s) || isnone (c_bnd_verts s) || isnone (c_int_verts s)).

(* one case: nv, faces, the implementation's edge list and corner list, config.sort_neighborhoods, the script with the
   implementation's answers *)
Definition case := (Z * list (list Z) * list (Z * Z) * list (Z * Z) * bool * list (query * ans * bool))%type.

Definition check_case (c : case) : bool :=
  let '(nv, faces, edges_obs, corners_obs, sortflag, script) := c in
  (* the mesh as the connectivity code sees it: the finished object's own face list and edge container; its corner
     container must be the concatenation of its faces *)
  let m := mkMesh nv faces edges_obs (gen_corners faces) in
  list_eqb pair_eqb corners_obs (gen_corners faces)
  && edges_ok_b faces edges_obs
  && wf_mesh_b nv faces            (* the finished mesh satisfies the hypotheses of the theorems *)
  && (let sfull := full_cache m sortflag in
      all_computed sfull && run_check m sortflag sfull script empty_cache).

Definition debug_case (c : case) :=
  let '(nv, faces, edges_obs, corners_obs, sortflag, script) := c in
  let m := mkMesh nv faces edges_obs (gen_corners faces) in
  (edges_ok_b faces edges_obs, list_eqb pair_eqb corners_obs (gen_corners faces), wf_mesh_b nv faces,
   all_computed (full_cache m sortflag),
   first_bad m sortflag (full_cache m sortflag) script empty_cache 0).
