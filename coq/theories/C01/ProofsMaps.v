(* C01 - finite-map facts (PositiveMap tries keyed through an injection of Z) and generic fold lemmas *)
From Coq Require Import ZArith List Bool Lia PArith FMapPositive.
Import ListNotations.
Require Import MV.C01.Defs.
Open Scope Z_scope.

Lemma zkey_inj a b : zkey a = zkey b -> a = b.
Proof. destruct a, b; cbn; intros H; try discriminate; try reflexivity; inversion H; reflexivity. Qed.

Lemma zget_empty {V} k : zget k (@zempty V) = None.
Proof. unfold zget, zempty. apply PM.gempty. Qed.
Lemma zget_zset_same {V} k (v : V) m : zget k (zset k v m) = Some v.
Proof. unfold zget, zset. apply PM.gss. Qed.
Lemma zget_zset_other {V} k k' (v : V) m : k <> k' -> zget k (zset k' v m) = zget k m.
Proof. intros H. unfold zget, zset. apply PM.gso. intros E. apply H, zkey_inj, E. Qed.
Lemma zget_zset {V} k k' (v : V) m : zget k (zset k' v m) = if k =? k' then Some v else zget k m.
Proof.
  destruct (Z.eqb_spec k k') as [->|N]; [apply zget_zset_same | apply zget_zset_other, N].
Qed.

Lemma zzget_empty {V} k : zzget k (@zzempty V) = None.
Proof. unfold zzget, zzempty. rewrite PM.gempty. reflexivity. Qed.
Lemma zzget_zzset_same {V} k (v : V) m : zzget k (zzset k v m) = Some v.
Proof. unfold zzget, zzset. rewrite PM.gss. apply PM.gss. Qed.
Lemma zzget_zzset_other {V} k k' (v : V) m : k <> k' -> zzget k (zzset k' v m) = zzget k m.
Proof.
  intros H. unfold zzget, zzset. destruct k as [a b], k' as [a' b']; cbn [fst snd] in *.
  destruct (Z.eq_dec a a') as [->|Na].
  - rewrite PM.gss. assert (Nb : b <> b') by congruence.
    rewrite PM.gso by (intros E; apply Nb, zkey_inj, E).
    destruct (PM.find (zkey a') m); [reflexivity | apply PM.gempty].
  - rewrite PM.gso by (intros E; apply Na, zkey_inj, E). reflexivity.
Qed.
Definition zz_eqb (a b : Z * Z) : bool := (fst a =? fst b) && (snd a =? snd b).
Lemma zz_eqb_spec a b : reflect (a = b) (zz_eqb a b).
Proof.
  unfold zz_eqb. destruct a as [a1 a2], b as [b1 b2]; cbn.
  destruct (Z.eqb_spec a1 b1), (Z.eqb_spec a2 b2); cbn; constructor; congruence.
Qed.
Lemma zzget_zzset {V} k k' (v : V) m : zzget k (zzset k' v m) = if zz_eqb k k' then Some v else zzget k m.
Proof.
  destruct (zz_eqb_spec k k') as [->|N]; [apply zzget_zzset_same | apply zzget_zzset_other, N].
Qed.

(* ---- a dict filled by successive assignments d[key x] = val x *)
Section FoldSet.
  Context {A V : Type} (key : A -> Z * Z) (val : A -> V).
  Definition zzfill (l : list A) (m0 : zzmap V) : zzmap V := fold_left (fun m x => zzset (key x) (val x) m) l m0.

  Lemma zzfill_absent l m0 k : (forall x, In x l -> key x <> k) -> zzget k (zzfill l m0) = zzget k m0.
  Proof.
    revert m0. induction l as [|y t IH]; intros m0 H; cbn; [reflexivity|].
    rewrite IH by (intros x Hx; apply H; right; exact Hx).
    apply zzget_zzset_other. intros E. apply (H y); [left; reflexivity | symmetry; exact E].
  Qed.

  Lemma zzfill_app l1 l2 m0 : zzfill (l1 ++ l2) m0 = zzfill l2 (zzfill l1 m0).
  Proof. unfold zzfill. apply fold_left_app. Qed.

  Lemma zzfill_unique l m0 x :
    In x l -> (forall y, In y l -> key y = key x -> y = x) -> zzget (key x) (zzfill l m0) = Some (val x).
  Proof.
    revert x. induction l as [|y t IH] using rev_ind; intros x Hin Hu; [destruct Hin|].
    rewrite zzfill_app. cbn. rewrite zzget_zzset.
    destruct (zz_eqb_spec (key x) (key y)) as [E|N].
    - rewrite (Hu y); [reflexivity | apply in_or_app; right; left; reflexivity | symmetry; exact E].
    - apply in_app_or in Hin as [Hin|[->|[]]]; [|congruence].
      apply IH; [exact Hin|]. intros z Hz. apply Hu. apply in_or_app; left; exact Hz.
  Qed.

  Lemma zzfill_some l m0 k v :
    zzget k (zzfill l m0) = Some v -> (exists x, In x l /\ key x = k /\ val x = v) \/ zzget k m0 = Some v.
  Proof.
    induction l as [|y t IH] using rev_ind; [right; assumption|].
    rewrite zzfill_app. cbn. rewrite zzget_zzset.
    destruct (zz_eqb_spec k (key y)) as [E|N].
    - intros H. inversion H; subst. left. exists y. split; [apply in_or_app; right; left; reflexivity|auto].
    - intros H. destruct (IH H) as [(x & Hx & E1 & E2)|Hm]; [left|right; exact Hm].
      exists x. split; [apply in_or_app; left; exact Hx|auto].
  Qed.
End FoldSet.

Section FoldSetZ.
  Context {A V : Type} (key : A -> Z) (val : A -> V).
  Definition zfill (l : list A) (m0 : zmap V) : zmap V := fold_left (fun m x => zset (key x) (val x) m) l m0.

  Lemma zfill_app l1 l2 m0 : zfill (l1 ++ l2) m0 = zfill l2 (zfill l1 m0).
  Proof. unfold zfill. apply fold_left_app. Qed.

  Lemma zfill_absent l m0 k : (forall x, In x l -> key x <> k) -> zget k (zfill l m0) = zget k m0.
  Proof.
    revert m0. induction l as [|y t IH]; intros m0 H; cbn; [reflexivity|].
    rewrite IH by (intros x Hx; apply H; right; exact Hx).
    apply zget_zset_other. intros E. apply (H y); [left; reflexivity | symmetry; exact E].
  Qed.

  Lemma zfill_unique l m0 x :
    In x l -> (forall y, In y l -> key y = key x -> y = x) -> zget (key x) (zfill l m0) = Some (val x).
  Proof.
    revert x. induction l as [|y t IH] using rev_ind; intros x Hin Hu; [destruct Hin|].
    rewrite zfill_app. cbn. rewrite zget_zset.
    destruct (Z.eqb_spec (key x) (key y)) as [E|N].
    - rewrite (Hu y); [reflexivity | apply in_or_app; right; left; reflexivity | symmetry; exact E].
    - apply in_app_or in Hin as [Hin|[->|[]]]; [|congruence].
      apply IH; [exact Hin|]. intros z Hz. apply Hu. apply in_or_app; left; exact Hz.
  Qed.

  Lemma zfill_some l m0 k v :
    zget k (zfill l m0) = Some v -> (exists x, In x l /\ key x = k /\ val x = v) \/ zget k m0 = Some v.
  Proof.
    induction l as [|y t IH] using rev_ind; [right; assumption|].
    rewrite zfill_app. cbn. rewrite zget_zset.
    destruct (Z.eqb_spec k (key y)) as [E|N].
    - intros H. inversion H; subst. left. exists y. split; [apply in_or_app; right; left; reflexivity|auto].
    - intros H. destruct (IH H) as [(x & Hx & E1 & E2)|Hm]; [left|right; exact Hm].
      exists x. split; [apply in_or_app; left; exact Hx|auto].
  Qed.
End FoldSetZ.

(* ---- foldM: invariant rule *)
Lemma foldM_inv {A S} (f : S -> A -> res S) (I : list A -> S -> Prop) l s0 :
  I [] s0 ->
  (forall pre x s, (exists post, l = pre ++ x :: post) -> I pre s -> exists s', f s x = Ok s' /\ I (pre ++ [x]) s') ->
  exists s', foldM f l s0 = Ok s' /\ I l s'.
Proof.
  intros H0 Hstep.
  assert (G : forall pre post s, l = pre ++ post -> I pre s -> exists s', foldM f post s = Ok s' /\ I l s').
  { intros pre post. revert pre. induction post as [|x t IH]; intros pre s El Hs.
    - exists s. rewrite app_nil_r in El. subst. auto.
    - destruct (Hstep pre x s (ex_intro _ t El) Hs) as (s' & Es & Hs'). cbn. rewrite Es.
      apply (IH (pre ++ [x])); [rewrite <- app_assoc; exact El | exact Hs']. }
  apply (G [] l s0 eq_refl H0).
Qed.

Lemma foldM_app {A S} (f : S -> A -> res S) l1 l2 s :
  foldM f (l1 ++ l2) s = bind (foldM f l1 s) (foldM f l2).
Proof.
  revert s. induction l1 as [|x t IH]; intros s; cbn; [reflexivity|].
  destruct (f s x); cbn; [apply IH|reflexivity].
Qed.

Lemma foldM_map {A B S} (f : S -> B -> res S) (g : A -> B) l s :
  foldM f (map g l) s = foldM (fun s x => f s (g x)) l s.
Proof. revert s. induction l as [|x t IH]; intros s; cbn; [reflexivity|]. destruct (f s (g x)); auto. Qed.

Lemma foldM_ext {A S} (f g : S -> A -> res S) l s :
  (forall s x, In x l -> f s x = g s x) -> foldM f l s = foldM g l s.
Proof.
  revert s. induction l as [|x t IH]; intros s H; cbn; [reflexivity|].
  rewrite (H s x (or_introl eq_refl)). destruct (g s x); [apply IH; intros; apply H; right; assumption|reflexivity].
Qed.

Lemma NoDup_app_intro {A} (l1 l2 : list A) :
  NoDup l1 -> NoDup l2 -> (forall x, In x l1 -> In x l2 -> False) -> NoDup (l1 ++ l2).
Proof.
  induction l1 as [|a t IH]; intros H1 H2 Hd; cbn; [exact H2|].
  inversion H1; subst. constructor.
  - intros Hin. apply in_app_or in Hin as [Hin|Hin]; [contradiction|]. apply (Hd a); [left; reflexivity|exact Hin].
  - apply IH; auto. intros x Hx1 Hx2. apply (Hd x); [right; exact Hx1|exact Hx2].
Qed.

Lemma find_app {A} (p : A -> bool) l1 l2 :
  find p (l1 ++ l2) = match find p l1 with Some x => Some x | None => find p l2 end.
Proof. induction l1 as [|a t IH]; cbn; [reflexivity|]. destruct (p a); [reflexivity|exact IH]. Qed.

Lemma filter_app' {A} (p : A -> bool) l1 l2 : filter p (l1 ++ l2) = filter p l1 ++ filter p l2.
Proof. induction l1 as [|a t IH]; cbn; [reflexivity|]. destruct (p a); cbn; rewrite IH; reflexivity. Qed.

Lemma NoDup_app_inv {A} (l1 l2 : list A) :
  NoDup (l1 ++ l2) -> NoDup l1 /\ NoDup l2 /\ (forall x, In x l1 -> In x l2 -> False).
Proof.
  induction l1 as [|a t IH]; cbn; intros H; [split; [constructor|split; [exact H|intros x []]]|].
  inversion H; subst. destruct (IH H3) as (I1 & I2 & I3). split; [|split; [exact I2|]].
  - constructor; [|exact I1]. intros Hin. apply H2. apply in_or_app. left. exact Hin.
  - intros x [<-|Hx] Hx2; [apply H2; apply in_or_app; right; exact Hx2|eapply I3; eauto].
Qed.
