(* C01 - the statements exported by Props.v, assembled from the lemma files, with their non-vacuity examples *)
From Coq Require Import ZArith List Bool Lia.
Import ListNotations.
Require Import MV.C01.Defs MV.C01.Gen MV.C01.Model MV.C01.Spec MV.C01.Pure
        MV.C01.ProofsMaps MV.C01.ProofsCorners MV.C01.ProofsTables MV.C01.ProofsAccess MV.C01.ProofsEdges
        MV.C01.ProofsQuery MV.C01.ProofsSort MV.C01.ProofsRing MV.C01.ProofsBorder MV.C01.ProofsMore MV.C01.ProofsVerts MV.C01.ProofsKind.
From Coq Require Import Sorting.Permutation.
Open Scope Z_scope.

(* ------------------------------------------------------------------ order-free tables *)
Definition tables_answers_correct (faces : list (list Z)) (m : mesh) (f : bool) : Prop :=
  (forall c, p_previous_corner m f c = Ok (sp_prev faces c))
  /\ (forall c, p_next_corner m f c = Ok (sp_next faces c))
  /\ (forall c, p_opposite_corner m f c = Ok (sp_opp faces c))
  /\ (forall c, p_corner_to_half_edge m f c = Ok (sp_corner_to_half_edge faces c))
  /\ (forall u v, p_half_edge_to_corner m f u v = Ok (sp_half_edge_to_corner faces u v))
  /\ (forall u v, p_direct_face m f u v = Ok (sp_direct_face faces u v))
  /\ (forall u v, p_direct_face_inds m f u v = Ok (sp_direct_face_inds faces u v))
  /\ (forall u v, p_edge_to_faces m f u v = Ok [sp_direct_face faces u v; sp_direct_face faces v u])
  /\ (forall u v F, p_opposite_face m f u v F
                    = Ok (if oz_eqb (sp_direct_face faces u v) F then sp_direct_face faces v u
                          else if oz_eqb (sp_direct_face faces v u) F then sp_direct_face faces u v else None))
  /\ (forall V F, p_vertex_to_corner_in_face m f V F = Ok (sp_vertex_to_corner_in_face faces V F))
  /\ (forall F, p_face_to_first_corner m f F = of_opt EKey (sp_face_to_first_corner faces F))
  /\ (forall u v, p_edge_id m f u v = Ok (sp_edge_id (m_edges m) u v))
  /\ (forall vs, p_face_id m f vs = Ok (sp_face_id faces vs)).

Lemma tables_correct nv faces m f T :
  wf_faces nv faces -> mesh_of nv faces m -> compute_connectivity m f = Ok T ->
  tables_answers_correct faces m f.
Proof.
  intros Hw Hm HT. unfold tables_answers_correct.
  repeat split; intros.
  - eapply previous_corner_correct; eauto.
  - eapply next_corner_correct; eauto.
  - eapply opposite_corner_correct; eauto.
  - eapply corner_to_half_edge_correct; eauto.
  - eapply half_edge_to_corner_correct; eauto.
  - eapply direct_face_correct; eauto.
  - eapply direct_face_inds_correct; eauto.
  - eapply edge_to_faces_correct; eauto.
  - eapply opposite_face_correct; eauto.
  - eapply vertex_to_corner_in_face_correct; eauto.
  - eapply face_to_first_corner_correct; eauto.
  - apply edge_id_correct.
  - destruct Hm as (_ & E & _). rewrite <- E. apply face_id_correct.
Qed.

Lemma compute_total_unsorted nv faces :
  wf_faces nv faces -> exists T, compute_connectivity (build_mesh nv faces) false = Ok T.
Proof.
  intros Hw. destruct (compute_unsorted_spec nv faces _ Hw (build_mesh_of nv faces Hw)) as (T & E & _). eauto.
Qed.

(* ------------------------------------------------------------------ the connectivity computation never raises on a manifold mesh *)
Lemma compute_total nv faces m f :
  wf_mesh nv faces -> mesh_of nv faces m -> exists T, compute_connectivity m f = Ok T.
Proof.
  intros Hw Hm. destruct f.
  - destruct (compute_sorted_spec nv faces m Hw Hm) as (T & E & _). eauto.
  - destruct (compute_unsorted_spec nv faces m (proj1 Hw) Hm) as (T & E & _). eauto.
Qed.

(* query-order independence with no side condition, for every oriented manifold surface *)
Lemma query_order_independent_wf nv faces m f :
  wf_mesh nv faces -> mesh_of nv faces m ->
  forall qs q, snd (query_step m f (run_script m f qs) q) = pure_answer m f q.
Proof.
  intros Hw Hm. destruct (compute_total nv faces m f Hw Hm) as (T & HT).
  apply query_order_independent. eapply IBV_total; eauto. exact (proj1 Hw).
Qed.

(* ------------------------------------------------------------------ rings around a vertex *)
Lemma vertex_to_corners_eq m f T A :
  compute_connectivity m f = Ok T -> p_vertex_to_corners m f A = Ok (zget A (t_adjV2Cn T)).
Proof.
  intros HT. unfold p_vertex_to_corners, p_adjV2Cn, CR. rewrite HT.
  destruct guard_vertex_to_corners as [[a []]|]; cbn; unfold CR; rewrite ?HT; reflexivity.
Qed.
Lemma vertex_to_vertices_eq m f T A :
  compute_connectivity m f = Ok T -> p_vertex_to_vertices m f A = of_opt EKey (zget A (t_adjV2V T)).
Proof.
  intros HT. unfold p_vertex_to_vertices, p_adjV2V, CR. rewrite HT.
  destruct guard_vertex_to_vertices as [[a []]|]; cbn; unfold CR; rewrite ?HT; reflexivity.
Qed.

(* sorting on: the corners around every vertex come in rotational order (closed ring / open fan from border to border)
   and the vertices around it in the matching order: the neighbour across the incoming border edge first (border vertex
   only), then the half-edge targets of the corner ring *)
Lemma vertex_ring_sorted nv faces m :
  wf_mesh nv faces -> mesh_of nv faces m -> edges_exact faces (m_edges m) ->
  forall A, 0 <= A < nv ->
    exists l, p_vertex_to_corners m true A = Ok (Some l) /\ ring_spec faces A l
              /\ p_vertex_to_vertices m true A = Ok (sp_vertex_ring faces l).
Proof.
  intros Hw Hm Hex A HA. destruct (compute_sorted_spec nv faces m Hw Hm) as (T & ET & _ & HR).
  destruct (HR A HA) as (l & vs & El & Hl & Ev & Hvs).
  exists l. rewrite (vertex_to_corners_eq m true T A ET), El. split; [reflexivity|]. split; [exact Hl|].
  rewrite (vertex_to_vertices_eq m true T A ET), Ev. cbn [of_opt]. f_equal.
  apply (vertex_order nv faces (proj1 Hw) A l Hl (nbrs (m_edges m) A)); [apply nbrs_NoDup| |exact Hvs].
  intros w. rewrite nbrs_In. apply Hex.
Qed.

(* sorting off: the same answers as sets (the model lists them in corner / edge order) *)
Lemma unsorted_sets nv faces m :
  wf_faces nv faces -> mesh_of nv faces m ->
  forall A, 0 <= A < nv ->
    p_vertex_to_corners m false A = Ok (Some (corners_at faces A))
    /\ p_vertex_to_vertices m false A = Ok (nbrs (m_edges m) A)
    /\ (forall w, In w (nbrs (m_edges m) A) <-> In (A, w) (m_edges m) \/ In (w, A) (m_edges m)).
Proof.
  intros Hw Hm A HA. destruct (compute_unsorted_spec nv faces m Hw Hm) as (T & ET & S).
  assert (Hr : in_range nv A = true) by (unfold in_range; lia).
  split; [|split].
  - rewrite (vertex_to_corners_eq m false T A ET), (ts_v2c _ _ _ _ S), Hr. reflexivity.
  - rewrite (vertex_to_vertices_eq m false T A ET), (ts_v2v _ _ _ _ S), Hr. reflexivity.
  - intros w. apply nbrs_In.
Qed.

(* ------------------------------------------------------------------ border / interior partition *)
Definition border_partition_stmt (faces : list (list Z)) (m : mesh) (f : bool) : Prop :=
  exists be ie bv iv,
    p_boundary_edges m f = Ok be /\ p_interior_edges m f = Ok ie
    /\ p_boundary_vertices m f = Ok bv /\ p_interior_vertices m f = Ok iv
    /\ Permutation (be ++ ie) (zrange (zlen (m_edges m)))
    /\ (forall e u v, zth (m_edges m) e = Some (u, v) ->
          (In e be <-> sp_edge_on_border faces (m_edges m) u v = true)
          /\ (In e ie <-> sp_edge_on_border faces (m_edges m) u v = false))
    /\ (forall u v, p_is_edge_on_border m f u v = Ok (sp_edge_on_border faces (m_edges m) u v))
    /\ NoDup bv /\ (forall x, In x bv <-> sp_vertex_on_border faces (m_edges m) x = true)
    /\ iv = filter (fun x => negb (sp_vertex_on_border faces (m_edges m) x)) (zrange (m_nv m))
    /\ (forall x, p_is_vertex_on_border m f x = Ok (sp_vertex_on_border faces (m_edges m) x)).

Lemma border_partition nv faces m f T :
  wf_faces nv faces -> mesh_of nv faces m -> compute_connectivity m f = Ok T -> border_partition_stmt faces m f.
Proof.
  intros Hw Hm HT.
  destruct (border_vertices_correct nv faces m f T Hw Hm HT) as (bv & iv & E1 & E2 & N & Hb & Hi).
  exists (bnd_ids faces m), (int_ids faces m), bv, iv.
  split; [eapply boundary_edges_correct; eauto|]. split; [eapply interior_edges_correct; eauto|].
  split; [exact E1|]. split; [exact E2|]. split; [apply edge_partition|]. split.
  - intros e u v Ez. split.
    + rewrite bnd_ids_In. split.
      * intros (uv & Ez' & HB). rewrite Ez in Ez'. inversion Ez'; subst uv. exact HB.
      * intros HB. exists (u, v). auto.
    + rewrite int_ids_In. split.
      * intros (uv & Ez' & HB). rewrite Ez in Ez'. inversion Ez'; subst uv. exact HB.
      * intros HB. exists (u, v). auto.
  - split; [intros u v; eapply is_edge_on_border_correct; eauto|].
    split; [exact N|]. split; [exact Hb|]. split; [exact Hi|].
    intros x. eapply is_vertex_on_border_correct; eauto.
Qed.

(* ------------------------------------------------------------------ derived list answers *)
Definition derived_lists_stmt (faces : list (list Z)) (m : mesh) (f : bool) : Prop :=
  (* corner -> face *)
  (forall c, 0 <= c -> p_corner_to_face m f c = match sp_corner faces c with Some x => Ok (cf x) | None => Err EIndex end)
  (* faces / edges around a vertex follow the corner ring / the vertex ring *)
  /\ (forall A l, p_vertex_to_corners m f A = Ok (Some l) -> (forall c, In c l -> valid_corner faces c) ->
                  p_vertex_to_faces m f A = Ok (map (sp_corner_face faces) l))
  /\ (forall A vs, p_vertex_to_vertices m f A = Ok vs ->
                   p_vertex_to_edges m f A = Ok (map (sp_edge_id (m_edges m) A) vs))
  (* corners, edges, faces around a face, side by side *)
  /\ (forall F lF, zth faces F = Some lF -> lF <> [] ->
        exists c0, sp_face_to_first_corner faces F = Some c0
          /\ p_face_to_corners m f F = Ok (map (fun i => c0 + i) (zrange (zlen lF)))
          /\ (forall i, 0 <= i < zlen lF ->
                exists x, In x (all_corners faces) /\ cf x = F /\ ci x = i /\ cid x = c0 + i /\ zth lF i = Some (cv x))
          /\ p_face_to_faces m f F
             = Ok (flat_map (fun c => match sp_opp faces c with Some o => [sp_corner_face faces o] | None => [] end)
                            (map (fun i => c0 + i) (zrange (zlen lF)))))
  /\ (forall F lF, zth faces F = Some lF ->
        p_face_to_edges m f F
        = Ok (map (fun i => sp_edge_id (m_edges m) (zth_d lF i) (zth_d lF ((i + 1) mod zlen lF))) (zrange (zlen lF)))).

Lemma derived_lists nv faces m f T :
  wf_faces nv faces -> mesh_of nv faces m -> compute_connectivity m f = Ok T -> derived_lists_stmt faces m f.
Proof.
  intros Hw Hm HT. unfold derived_lists_stmt. split; [|split; [|split; [|split]]].
  - intros c _. eapply corner_to_face_correct; eauto.
  - intros A l E Hv. eapply vertex_to_faces_correct; eauto.
  - intros A vs E. eapply vertex_to_edges_correct; eauto.
  - intros F lF Ez Hne.
    destruct (face_to_corners_correct nv faces m f T Hw Hm HT F lF Ez Hne) as (c0 & E0 & E1 & E2).
    exists c0. split; [exact E0|]. split; [exact E1|]. split; [exact E2|].
    destruct (face_to_faces_correct nv faces m f T Hw Hm HT F lF Ez Hne) as (cs & Ecs & Eff).
    rewrite E1 in Ecs. inversion Ecs; subst cs. exact Eff.
  - intros F lF Ez. eapply face_to_edges_correct; eauto.
Qed.

(* ------------------------------------------------------------------ the remaining accessors *)
Definition remaining_accessors_stmt (faces : list (list Z)) (m : mesh) (f : bool) : Prop :=
  (* ids are non-negative: Python's negative indices wrap around, which the model does not reproduce *)
  (forall F, 0 <= F -> p_face_to_vertices m f F = of_opt EIndex (zth faces F))
  /\ (forall E, 0 <= E -> p_edge_to_vertices m f E = of_opt EIndex (zth (m_edges m) E))
  /\ (forall E V, 0 <= E -> p_other_edge_end m f E V = sp_other_edge_end (m_edges m) E V)
  /\ (forall F V lF, zth faces F = Some lF ->
        exists r, p_in_face_index m f F V = Ok r /\
          match r with
          | Some i => zth lF i = Some V /\ (forall j, 0 <= j < i -> zth lF j <> Some V)
          | None => ~ In V lF
          end)
  /\ (forall u v F, p_opposite_face_inds m f u v F = Ok (sp_opposite_face_inds faces u v F))
  /\ (forall iF1 iF2 lF, zth faces iF1 = Some lF ->
        p_common_edge m f iF1 iF2 = Ok (sp_common_edge_loop faces lF iF2 (zrange (zlen lF)))).

Lemma remaining_accessors nv faces m f T :
  wf_faces nv faces -> mesh_of nv faces m -> compute_connectivity m f = Ok T -> remaining_accessors_stmt faces m f.
Proof.
  intros Hw Hm HT. unfold remaining_accessors_stmt. split; [|split; [|split; [|split; [|split]]]].
  - intros F _. eapply face_to_vertices_correct; eauto.
  - intros E _. eapply edge_to_vertices_correct; eauto.
  - intros E V _. eapply other_edge_end_correct; eauto.
  - intros F V lF Ez. eapply in_face_index_correct; eauto.
  - intros u v F. eapply opposite_face_inds_correct; eauto.
  - intros iF1 iF2 lF Ez. eapply common_edge_correct; eauto.
Qed.

Lemma build_mesh_ok nv faces :
  wf_faces nv faces -> mesh_of nv faces (build_mesh nv faces) /\ edges_exact faces (m_edges (build_mesh nv faces)).
Proof. intros Hw. split; [apply build_mesh_of, Hw|]. cbn. eapply gen_edges_exact; eauto. Qed.

(* ------------------------------------------------------------------ examples: the hypotheses are satisfiable *)
Definition ex_faces : list (list Z) := [[0; 1; 2]; [0; 2; 3]; [0; 3; 4; 5]].   (* a fan of 2 triangles and a quad; vertex 0 on the border *)
Definition ex_closed : list (list Z) := [[0; 1; 2]; [0; 3; 1]; [1; 3; 2]; [0; 2; 3]].   (* tetrahedron: every vertex interior *)

Lemma NoDup_nodupZ l : nodupZ l = true -> NoDup l.
Proof.
  induction l as [|x t IH]; cbn; intros H; [constructor|].
  apply andb_true_iff in H as [H1 H2]. constructor; [|apply IH, H2].
  intros Hin. apply negb_true_iff in H1.
  assert (existsb (Z.eqb x) t = true) by (apply existsb_exists; exists x; split; [exact Hin|apply Z.eqb_refl]).
  congruence.
Qed.
Lemma NoDup_nodupZZ l : nodupZZ l = true -> NoDup l.
Proof.
  induction l as [|x t IH]; cbn; intros H; [constructor|].
  apply andb_true_iff in H as [H1 H2]. constructor; [|apply IH, H2].
  intros Hin. apply negb_true_iff in H1.
  assert (existsb (pair_eqb' x) t = true).
  { apply existsb_exists. exists x. split; [exact Hin|]. unfold pair_eqb'. rewrite !Z.eqb_refl. reflexivity. }
  congruence.
Qed.

Lemma wf_faces_b_sound nv faces : wf_faces_b nv faces = true -> wf_faces nv faces.
Proof.
  unfold wf_faces_b, wf_faces. intros H. apply andb_true_iff in H as [H1 H2]. split.
  - rewrite Forall_forall. intros F HF. rewrite forallb_forall in H1. specialize (H1 F HF).
    unfold face_ok_b in H1. apply andb_true_iff in H1 as [H1 H3]. apply andb_true_iff in H1 as [H1 H4].
    split; [lia|]. split; [apply NoDup_nodupZ, H4|].
    rewrite Forall_forall. intros v Hv. rewrite forallb_forall in H3. specialize (H3 v Hv). lia.
  - unfold oriented. apply NoDup_nodupZZ, H2.
Qed.

Example ex_wf_faces : wf_faces 6 ex_faces.
Proof. apply wf_faces_b_sound. vm_compute. reflexivity. Qed.
Example ex_closed_wf_faces : wf_faces 4 ex_closed.
Proof. apply wf_faces_b_sound. vm_compute. reflexivity. Qed.

Example ex_compute_ok : exists T, compute_connectivity (build_mesh 6 ex_faces) true = Ok T.
Proof. eexists. vm_compute. reflexivity. Qed.

Example ex_IBV_ok : exists r, IBV (build_mesh 6 ex_faces) true = Ok r.
Proof. eexists. vm_compute. reflexivity. Qed.
Example ex_closed_IBV_ok : exists r, IBV (build_mesh 4 ex_closed) true = Ok r.
Proof. eexists. vm_compute. reflexivity. Qed.

(* the answer is a real one, e.g. the opposite of corner 2 (vertex 2 of face 0, half-edge 2->0) is corner 3 *)
Example ex_opposite : pure_answer (build_mesh 6 ex_faces) true (Q_opposite_corner 2) = AInt 3.
Proof. vm_compute. reflexivity. Qed.
Example ex_fresh_half_edge_to_corner :
  snd (query_step (build_mesh 6 ex_faces) true empty_cache (Q_half_edge_to_corner 0 1)) = AInt 0.
Proof. vm_compute. reflexivity. Qed.

(* wf_mesh (with the rings) is satisfiable: the boolean checker is sound for the ring part by construction
   (it exhibits the ring), so a concrete mesh is discharged by evaluation *)
Lemma chain_cw_b_sound faces l : chain_cw_b faces l = true -> chain_cw faces l.
Proof.
  induction l as [|a t IH]; intros H; [exact I|]. destruct t as [|b t]; [exact I|].
  cbn [chain_cw_b] in H. apply andb_true_iff in H as [H1 H2]. cbn [chain_cw]. split; [|apply IH, H2].
  unfold oZ_eqb in H1. destruct (sp_cw faces b); [apply Z.eqb_eq in H1; congruence|discriminate].
Qed.

Lemma oZ_eqb_eq a b : oZ_eqb a b = true -> a = b.
Proof. destruct a, b; cbn; intros H; try discriminate; [apply Z.eqb_eq in H; congruence|reflexivity]. Qed.

Lemma ring_spec_b_sound faces A l : ring_spec_b faces A l = true -> ring_spec faces A l.
Proof.
  unfold ring_spec_b. intros H.
  apply andb_true_iff in H as [H H0]. apply andb_true_iff in H as [H Hch].
  apply andb_true_iff in H as [H Hsup]. apply andb_true_iff in H as [Hnd Hsub].
  split; [apply NoDup_nodupZ; assumption|]. split; [|split; [apply chain_cw_b_sound; assumption|]].
  - intros c. split; intros Hc.
    + rewrite forallb_forall in Hsub. specialize (Hsub c Hc). apply existsb_exists in Hsub as (y & Hy & E). apply Z.eqb_eq in E. subst. exact Hy.
    + rewrite forallb_forall in Hsup. specialize (Hsup c Hc). apply existsb_exists in Hsup as (y & Hy & E). apply Z.eqb_eq in E. subst. exact Hy.
  - destruct l as [|a t]; [left; exact I|]. apply orb_true_iff in H0 as [H0|H0].
    + left. apply oZ_eqb_eq in H0. exact H0.
    + right. apply andb_true_iff in H0 as [H3 H4]. apply oZ_eqb_eq in H3, H4. split; assumption.
Qed.

Lemma wf_mesh_b_sound nv faces : wf_mesh_b nv faces = true -> wf_mesh nv faces.
Proof.
  unfold wf_mesh_b. intros H. apply andb_true_iff in H as [H1 H2]. split; [apply wf_faces_b_sound, H1|].
  intros A HA. exists (find_ring faces A). apply ring_spec_b_sound. rewrite forallb_forall in H2. apply H2.
  apply In_zrange. exact HA.
Qed.

Example ex_wf_mesh : wf_mesh 6 ex_faces.
Proof. apply wf_mesh_b_sound. vm_compute. reflexivity. Qed.
Example ex_closed_wf_mesh : wf_mesh 4 ex_closed.
Proof. apply wf_mesh_b_sound. vm_compute. reflexivity. Qed.
(* the open fan of vertex 0 (border) and a closed ring (vertex 0 of the tetrahedron) as the model sorts them *)
Example ex_ring_open : pure_answer (build_mesh 6 ex_faces) true (Q_vertex_to_corners 0) = AList [Some 6; Some 3; Some 0].
Proof. vm_compute. reflexivity. Qed.
Example ex_ring_closed : pure_answer (build_mesh 4 ex_closed) true (Q_vertex_to_corners 0) = AList [Some 3; Some 9; Some 0].
Proof. vm_compute. reflexivity. Qed.

Example ex_vertex_ring_open : pure_answer (build_mesh 6 ex_faces) true (Q_vertex_to_vertices 0) = AList [Some 5; Some 3; Some 2; Some 1]
                              /\ sp_vertex_ring ex_faces [6; 3; 0] = [5; 3; 2; 1].
Proof. split; vm_compute; reflexivity. Qed.

(* what the correspondence verifies on every finished object (its own face list, edge container, corner container) implies
   the hypotheses of all the theorems for the mesh the model is run on *)
Lemma case_hypotheses_sound nv faces edges :
  wf_mesh_b nv faces = true -> edges_ok_b faces edges = true ->
  wf_mesh nv faces /\ mesh_of nv faces (mkMesh nv faces edges (gen_corners faces)) /\ edges_exact faces edges.
Proof.
  intros H1 H2. pose proof (wf_mesh_b_sound nv faces H1) as Hw.
  destruct (edges_ok_b_sound nv faces edges (proj1 Hw) H2) as (Hv & He).
  split; [exact Hw|]. split; [|exact He]. unfold mesh_of. cbn. auto.
Qed.

(* ------------------------------------------------------------------ round 7 *)
(* a query on a freshly built mesh is answered exactly as after any script of other queries *)
Lemma fresh_as_later nv faces m f :
  wf_mesh nv faces -> mesh_of nv faces m ->
  forall qs q, snd (query_step m f empty_cache q) = snd (query_step m f (run_script m f qs) q).
Proof.
  intros Hw Hm qs q. rewrite (query_order_independent_wf nv faces m f Hw Hm qs q).
  exact (query_order_independent_wf nv faces m f Hw Hm [] q).
Qed.

(* the kind of the sorted corner ring IS the border classification the border API gives for the vertex *)
Lemma ring_kind_is_border_class nv faces m :
  wf_mesh nv faces -> mesh_of nv faces m -> edges_exact faces (m_edges m) ->
  forall A l, 0 <= A < nv -> p_vertex_to_corners m true A = Ok (Some l) -> l <> [] ->
    ring_spec faces A l
    /\ (ring_open faces l <-> p_is_vertex_on_border m true A = Ok true)
    /\ (ring_closed faces l <-> p_is_vertex_on_border m true A = Ok false).
Proof.
  intros Hw Hm Hex A l HA El Hne.
  destruct (vertex_ring_sorted nv faces m Hw Hm Hex A HA) as (l' & El' & Hring & _).
  rewrite El in El'. inversion El'; subst l'.
  destruct (compute_total nv faces m true Hw Hm) as (T & HT).
  rewrite (is_vertex_on_border_correct nv faces m true T (proj1 Hw) Hm HT A).
  pose proof (ring_open_iff_border nv faces (m_edges m) (proj1 Hw) Hex A l Hring Hne) as H1.
  pose proof (ring_closed_iff_interior nv faces (m_edges m) (proj1 Hw) Hex A l Hring Hne) as H2.
  split; [exact Hring|]. split.
  - rewrite H1. split; [intros ->; reflexivity|intros E; inversion E; reflexivity].
  - rewrite H2. split; [intros ->; reflexivity|intros E; inversion E; reflexivity].
Qed.

(* both kinds occur: vertex 0 of the fan example is a border vertex with an open fan, vertex 0 of the tetrahedron is
   interior with a closed ring *)
Example ex_ring_kinds :
  ring_open ex_faces [6; 3; 0] /\ pure_answer (build_mesh 6 ex_faces) true (Q_is_vertex_on_border 0) = ABool true
  /\ ring_closed ex_closed [3; 9; 0] /\ pure_answer (build_mesh 4 ex_closed) true (Q_is_vertex_on_border 0) = ABool false.
Proof. repeat split; vm_compute; reflexivity. Qed.
Example ex_fresh_as_later :
  snd (query_step (build_mesh 6 ex_faces) true empty_cache (Q_half_edge_to_corner 2 0))
  = snd (query_step (build_mesh 6 ex_faces) true
           (run_script (build_mesh 6 ex_faces) true [Q_boundary_vertices; Q_clear; Q_vertex_to_corners 0]) (Q_half_edge_to_corner 2 0)).
Proof. vm_compute. reflexivity. Qed.

(* every query the property names is ANSWERED (no exception value) when it names an element of the mesh, sorting on or off *)
Definition named_queries_answered (nv : Z) (faces : list (list Z)) (m : mesh) (f : bool) : Prop :=
  (forall c, valid_corner faces c ->
     exists a b o, p_next_corner m f c = Ok (Some a) /\ p_previous_corner m f c = Ok (Some b) /\ p_opposite_corner m f c = Ok o)
  /\ (forall u v, exists o l i, p_direct_face m f u v = Ok o /\ p_edge_to_faces m f u v = Ok l /\ p_edge_id m f u v = Ok i)
  /\ (forall A, 0 <= A < nv ->
       exists cs vs fs es, p_vertex_to_corners m f A = Ok (Some cs) /\ p_vertex_to_vertices m f A = Ok vs
                           /\ p_vertex_to_faces m f A = Ok fs /\ p_vertex_to_edges m f A = Ok es)
  /\ (forall F lF, zth faces F = Some lF -> exists l, p_face_to_faces m f F = Ok l)
  /\ (forall vs, exists o, p_face_id m f vs = Ok o)
  /\ (exists be ie bv iv, p_boundary_edges m f = Ok be /\ p_interior_edges m f = Ok ie
                          /\ p_boundary_vertices m f = Ok bv /\ p_interior_vertices m f = Ok iv)
  /\ (forall u v, exists b, p_is_edge_on_border m f u v = Ok b)
  /\ (forall x, exists b, p_is_vertex_on_border m f x = Ok b).

Lemma vertex_rings_answered nv faces m f T :
  wf_mesh nv faces -> mesh_of nv faces m -> compute_connectivity m f = Ok T ->
  forall A, 0 <= A < nv ->
    exists cs vs, zget A (t_adjV2Cn T) = Some cs /\ zget A (t_adjV2V T) = Some vs /\ (forall c, In c cs -> valid_corner faces c).
Proof.
  intros Hw Hm HT A HA. destruct f.
  - destruct (compute_sorted_spec nv faces m Hw Hm) as (T' & ET' & _ & HR). rewrite HT in ET'. inversion ET'; subst T'.
    destruct (HR A HA) as (l & vs & El & Hl & Ev & _). exists l, vs. split; [exact El|]. split; [exact Ev|].
    intros c Hc. destruct Hl as (_ & Hs & _). apply Hs, corners_at_In in Hc as (x & Hx & E & _). exists x. auto.
  - destruct (compute_unsorted_spec nv faces m (proj1 Hw) Hm) as (T' & ET' & S). rewrite HT in ET'. inversion ET'; subst T'.
    assert (Hr : in_range nv A = true) by (unfold in_range; lia).
    exists (corners_at faces A), (nbrs (m_edges m) A).
    rewrite (ts_v2c _ _ _ _ S), (ts_v2v _ _ _ _ S), Hr. split; [reflexivity|]. split; [reflexivity|].
    intros c Hc. apply corners_at_In in Hc as (x & Hx & E & _). exists x. auto.
Qed.

Lemma named_answered nv faces m f :
  wf_mesh nv faces -> mesh_of nv faces m -> named_queries_answered nv faces m f.
Proof.
  intros Hw Hm. destruct (compute_total nv faces m f Hw Hm) as (T & HT). pose proof (proj1 Hw) as Hwf.
  pose proof (tables_correct nv faces m f T Hwf Hm HT) as (Tp & Tn & To & _ & _ & Tdf & _ & Tef & _ & _ & _ & Tei & Tfi).
  destruct (border_partition nv faces m f T Hwf Hm HT) as (be & ie & bv & iv & B1 & B2 & B3 & B4 & _ & _ & B7 & _ & _ & _ & B11).
  unfold named_queries_answered. split; [|split; [|split; [|split; [|split; [|split; [|split]]]]]].
  - intros c (x & Hx & <-). rewrite Tn, Tp, To. rewrite (L_next faces x Hx), (L_prev faces x Hx).
    exists (next_id x), (prev_id x), (sp_opp faces (cid x)). auto.
  - intros u v. rewrite Tdf, Tef, Tei. do 3 eexists. repeat split; reflexivity.
  - intros A HA. destruct (vertex_rings_answered nv faces m f T Hw Hm HT A HA) as (cs & vs & Ec & Ev & Hv).
    assert (P1 : p_vertex_to_corners m f A = Ok (Some cs)) by (rewrite (vertex_to_corners_eq m f T A HT), Ec; reflexivity).
    assert (P2 : p_vertex_to_vertices m f A = Ok vs) by (rewrite (vertex_to_vertices_eq m f T A HT), Ev; reflexivity).
    exists cs, vs. eexists. eexists. split; [exact P1|]. split; [exact P2|]. split.
    + exact (vertex_to_faces_correct nv faces m f T Hm HT A cs P1 Hv).
    + exact (vertex_to_edges_correct m f T HT A vs P2).
  - intros F lF Ez. assert (Hne : lF <> []).
    { destruct Hwf as (Hf & _). rewrite Forall_forall in Hf. destruct (Hf lF (zth_In _ _ _ Ez)) as (Hl & _).
      intros ->. cbn in Hl. lia. }
    destruct (face_to_faces_correct nv faces m f T Hwf Hm HT F lF Ez Hne) as (cs & _ & E). eauto.
  - intros vs. rewrite Tfi. eexists. reflexivity.
  - exists be, ie, bv, iv. auto.
  - intros u v. rewrite B7. eexists. reflexivity.
  - intros x. rewrite B11. eexists. reflexivity.
Qed.

Example ex_named_answered : named_queries_answered 6 ex_faces (build_mesh 6 ex_faces) true.
Proof. apply named_answered; [exact ex_wf_mesh|apply build_mesh_of, ex_wf_faces]. Qed.
