(* C01 - basic types of the surface-connectivity model: finite maps keyed by Z / Z*Z (PositiveMap tries),
   Python-like results (explicit exceptions), the names of the lazily initialised attributes and of the
   methods that compute them.  No proofs here. *)
From Coq Require Import ZArith List Bool PArith FMapPositive.
Import ListNotations.
Require Export MV.Lib.Base.   (* zrange, In_zrange, list_eqb *)
Open Scope Z_scope.

(* ------------------------------------------------------------------ finite maps *)
Module PM := PositiveMap.

(* an injection of all of Z into positive (Python dict keys are arbitrary ints) *)
Definition zkey (z : Z) : positive :=
  match z with Z0 => 1%positive | Zpos p => (p~0)%positive | Zneg p => (p~1)%positive end.

Definition zmap (V : Type) := PM.t V.
Definition zempty {V} : zmap V := PM.empty V.
Definition zget {V} (k : Z) (m : zmap V) : option V := PM.find (zkey k) m.
Definition zset {V} (k : Z) (v : V) (m : zmap V) : zmap V := PM.add (zkey k) v m.

Definition zzmap (V : Type) := PM.t (PM.t V).
Definition zzempty {V} : zzmap V := PM.empty (PM.t V).
Definition zzget {V} (k : Z * Z) (m : zzmap V) : option V :=
  match PM.find (zkey (fst k)) m with Some r => PM.find (zkey (snd k)) r | None => None end.
Definition zzset {V} (k : Z * Z) (v : V) (m : zzmap V) : zzmap V :=
  PM.add (zkey (fst k))
         (PM.add (zkey (snd k)) v (match PM.find (zkey (fst k)) m with Some r => r | None => PM.empty V end)) m.

(* association lists for keys that are tuples of arbitrary length (face_id) *)
Fixpoint lz_eqb (a b : list Z) : bool :=
  match a, b with
  | [], [] => true
  | x :: s, y :: t => Z.eqb x y && lz_eqb s t
  | _, _ => false
  end.
Definition lmap (V : Type) := list (list Z * V).
Fixpoint lget {V} (k : list Z) (m : lmap V) : option V :=
  match m with [] => None | (k', v) :: t => if lz_eqb k k' then Some v else lget k t end.
Definition lset {V} (k : list Z) (v : V) (m : lmap V) : lmap V := (k, v) :: m.

(* ------------------------------------------------------------------ Python-like results *)
Inductive err := EAttr   (* attribute is still None: AttributeError / TypeError on None *)
               | EKey    (* KeyError *)
               | EIndex  (* IndexError *)
               | EType   (* TypeError (e.g. iterating None) *)
               | EAssert (* AssertionError *)
               | EFuel.  (* never a Python exception: a model loop ran out of fuel *)

Inductive res (A : Type) := Ok (a : A) | Err (e : err).
Arguments Ok {A} a.
Arguments Err {A} e.

Definition bind {A B} (r : res A) (f : A -> res B) : res B :=
  match r with Ok a => f a | Err e => Err e end.
Notation "'do' x <- r ; k" := (bind r (fun x => k)) (at level 200, x pattern, r at level 100, k at level 200).

Fixpoint foldM {A S} (f : S -> A -> res S) (l : list A) (s : S) : res S :=
  match l with
  | [] => Ok s
  | x :: t => match f s x with Ok s' => foldM f t s' | Err e => Err e end
  end.

Fixpoint mapM {A B} (f : A -> res B) (l : list A) : res (list B) :=
  match l with
  | [] => Ok []
  | x :: t => match f x with
              | Ok y => match mapM f t with Ok ys => Ok (y :: ys) | Err e => Err e end
              | Err e => Err e
              end
  end.

Definition of_opt {A} (e : err) (o : option A) : res A := match o with Some a => Ok a | None => Err e end.

Definition onone {A} (o : option A) : bool := match o with None => true | Some _ => false end.
(* Python `a == b` between a possibly-None value and an int *)
Definition oz_eqb (a : option Z) (b : Z) : bool := match a with Some x => x =? b | None => false end.

(* l[i] for a Python list and a NON-NEGATIVE index (negative indices are never produced by the model's callers) *)
Definition zth {A} (l : list A) (i : Z) : option A := if i <? 0 then None else nth_error l (Z.to_nat i).
Definition zlen {A} (l : list A) : Z := Z.of_nat (length l).

(* enumerate(l) *)
Fixpoint enum_from {A} (k : Z) (l : list A) : list (Z * A) :=
  match l with [] => [] | x :: t => (k, x) :: enum_from (k + 1) t end.
Definition enumerate {A} (l : list A) := enum_from 0 l.

(* ------------------------------------------------------------------ keyify = sorted tuple *)
Fixpoint zinsert (x : Z) (l : list Z) : list Z :=
  match l with [] => [x] | y :: t => if x <=? y then x :: l else y :: zinsert x t end.
Definition zsort (l : list Z) : list Z := fold_right zinsert [] l.
Definition keyify2 (u v : Z) : Z * Z := if u <=? v then (u, v) else (v, u).

(* ------------------------------------------------------------------ names of lazily initialised attributes *)
Inductive attr :=
  | A_adjV2V | A_edge_id                                              (* PolyLine._Connectivity *)
  | A_half_edges | A_Cn2he | A_adjVF2Cn | A_adjV2Cn | A_adjF2Cn | A_face_id   (* SurfaceMesh._Connectivity *)
  | A_boundary_edges | A_interior_edges | A_is_vertex_on_border | A_boundary_vertices | A_interior_vertices.

(* methods a connectivity accessor may call to fill its cache *)
Inductive comp1 := K_connectivity | K_edge_id | K_face_ids.
(* methods a SurfaceMesh border accessor may call *)
Inductive comp2 := K_ib_edges | K_ib_vertices.

(* half-edge record as the Python list [corner, previous, next, opposite, face, i, j] *)
Definition herec := list (option Z).

(* answers of the public API, canonical form *)
Inductive ans :=
  | ANone
  | AInt (z : Z)
  | ABool (b : bool)
  | AList (l : list (option Z))   (* lists and tuples; None entries allowed *)
  | AErr (e : err).

Definition oz_ans (o : option Z) : ans := match o with Some z => AInt z | None => ANone end.
Definition zl_ans (l : list Z) : ans := AList (map Some l).

(* the steps of the rotational walk, named so that the generated file can say which are composed *)
Inductive wstep := W_prev | W_next | W_opp.
