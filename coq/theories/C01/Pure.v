(* C01 - the pure answer of every public query: the same accessor bodies as Model.v, read in the exception monad
   only, every lazily cached table replaced by the value its compute method yields for the mesh.  Nothing here
   depends on a cache state: `pure_answer m sortflag q` is a function of the mesh, the configuration and the query.
   No proofs. *)
From Coq Require Import ZArith List Bool.
Import ListNotations.
Require Import MV.C01.Defs MV.C01.Gen MV.C01.Model.
Open Scope Z_scope.

Section Pure.
  Variable m : mesh.
  Variable sortflag : bool.

  Definition CR : res tables := compute_connectivity m sortflag.
  Definition EID : zzmap Z := compute_edge_id m.
  Definition FID : lmap Z := compute_face_ids m.

  (* what a guard contributes to the answer: the exception its computation may raise *)
  Definition p_guard1 (g : option (attr * comp1)) : res unit :=
    match g with
    | Some (_, K_connectivity) => do _ <- CR; Ok tt
    | _ => Ok tt
    end.

  Definition p_adjV2V := do T <- CR; Ok (t_adjV2V T).
  Definition p_adjV2Cn := do T <- CR; Ok (t_adjV2Cn T).
  Definition p_adjVF2Cn := do T <- CR; Ok (t_adjVF2Cn T).
  Definition p_adjF2Cn := do T <- CR; Ok (t_adjF2Cn T).
  Definition p_he := do T <- CR; Ok (t_he T).
  Definition p_Cn2he := do T <- CR; Ok (t_Cn2he T).

  Definition p_edge_id (u v : Z) : res (option Z) :=
    do _ <- p_guard1 guard_edge_id; do t <- Ok EID; Ok (zzget (g_edge_id_key u v) t).

  Definition p_edge_at (E : Z) : res (Z * Z) := of_opt EIndex (zth (m_edges m) E).

  Definition p_other_edge_end (E V : Z) : res (option Z) :=
    do _ <- p_guard1 guard_other_edge_end; do ab <- p_edge_at E;
    let '(A, B) := ab in
    Ok (g_other_edge_end V A B).

  Definition p_vertex_to_vertices (V : Z) : res (list Z) :=
    do _ <- p_guard1 guard_vertex_to_vertices; do t <- p_adjV2V; of_opt EKey (zget V t).

  Definition p_vertex_to_edges (V : Z) : res (list (option Z)) :=
    do _ <- p_guard1 guard_vertex_to_edges; do l <- p_vertex_to_vertices V; mapM (fun u => let c := g_vertex_to_edges_call V u in p_edge_id (fst c) (snd c)) l.

  Definition p_edge_to_vertices (E : Z) : res (Z * Z) := do _ <- p_guard1 guard_edge_to_vertices; p_edge_at E.

  Definition p_face_id (vs : list Z) : res (option Z) :=
    do _ <- p_guard1 guard_face_id; do t <- Ok FID; Ok (lget (g_face_id_key vs) t).

  Definition p_vertex_to_corners (V : Z) : res (option (list Z)) :=
    do _ <- p_guard1 guard_vertex_to_corners; do t <- p_adjV2Cn; Ok (zget (g_vertex_to_corners_key V) t).

  Definition p_corner_to_face (C : Z) : res Z :=
    do _ <- p_guard1 guard_corner_to_face; do vf <- of_opt EIndex (zth (m_corners m) C); Ok (snd vf).

  Definition p_vertex_to_faces (V : Z) : res (list Z) :=
    do _ <- p_guard1 guard_vertex_to_faces; do cs <- p_vertex_to_corners V;
    match cs with None => Err EType | Some l => mapM p_corner_to_face l end.

  Definition p_vertex_to_corner_in_face (V F : Z) : res (option Z) :=
    do _ <- p_guard1 guard_vertex_to_corner_in_face; do t <- p_adjVF2Cn; Ok (zzget (g_vcif_key V F) t).

  Definition p_corner_field (g : option (attr * comp1)) (slot : nat) (C : Z) : res (option Z) :=
    do _ <- p_guard1 g; do c2h <- p_Cn2he;
    match zget C c2h with
    | None => Ok None
    | Some key => do he <- p_he; do r <- of_opt EKey (zzget key he); rec_slot r slot
    end.
  Definition p_previous_corner := p_corner_field guard_previous_corner slot_previous_corner.
  Definition p_next_corner := p_corner_field guard_next_corner slot_next_corner.
  Definition p_opposite_corner := p_corner_field guard_opposite_corner slot_opposite_corner.

  Definition p_corner_to_half_edge (C : Z) : res (option (Z * Z)) :=
    do _ <- p_guard1 guard_corner_to_half_edge; do t <- p_Cn2he; Ok (zget (g_c2he_key C) t).

  Definition p_half_edge_to_corner (u v : Z) : res (option Z) :=
    do _ <- p_guard1 guard_half_edge_to_corner; do he <- p_he;
    he_get_default he slot_half_edge_to_corner (key_half_edge_to_corner u v).

  Definition p_direct_face (u v : Z) : res (option Z) :=
    do _ <- p_guard1 guard_direct_face; do he <- p_he;
    match zzget (key_direct_face u v) he with Some r => rec_slot r slot_direct_face | None => Ok None end.
  Definition p_direct_face_inds (u v : Z) : res (list (option Z)) :=
    do _ <- p_guard1 guard_direct_face; do he <- p_he;
    match zzget (key_direct_face u v) he with Some r => Ok (skipn slot_direct_face_from r) | None => Ok [None; None; None] end.

  Definition p_edge_to_faces (u v : Z) : res (list (option Z)) :=
    do _ <- p_guard1 guard_edge_to_faces;
    let '(c1, c2) := g_edge_to_faces_calls u v in
    do a <- p_direct_face (fst c1) (snd c1); do b <- p_direct_face (fst c2) (snd c2); Ok [a; b].

  Definition p_opposite_face (u v F : Z) : res (option Z) :=
    do _ <- p_guard1 guard_opposite_face;
    let '(c1, c2) := g_opposite_face_calls u v in
    do F1 <- p_direct_face (fst c1) (snd c1); do F2 <- p_direct_face (fst c2) (snd c2);
    Ok (g_opposite_face_ret F F1 F2).

  Definition p_unpack3 (l : list (option Z)) : res (option Z * option Z * option Z) :=
    match l with [a; b; c] => Ok (a, b, c) | _ => Err EType end.

  Definition p_opposite_face_inds (u v F : Z) : res (list (option Z)) :=
    do _ <- p_guard1 guard_opposite_face;
    let '(c1, c2) := g_opposite_face_inds_calls u v in
    do t1 <- p_direct_face_inds (fst c1) (snd c1); do x1 <- p_unpack3 t1;
    do t2 <- p_direct_face_inds (fst c2) (snd c2); do x2 <- p_unpack3 t2;
    let '(a0, a1, a2) := x1 in
    let '(b0, b1, b2) := x2 in
    Ok (g_opposite_face_inds_ret F a0 a1 a2 b0 b1 b2).

  Definition p_face_at (F : Z) : res (list Z) := of_opt EIndex (zth (m_faces m) F).

  Fixpoint p_common_edge_loop (F1 : list Z) (n iF1 iF2 : Z) (is : list Z) : res (list (option Z)) :=
    match is with
    | [] => Ok g_common_edge_default
    | i :: t =>
        do A <- of_opt EIndex (zth F1 (fst (g_common_edge_idx i n)));
        do B <- of_opt EIndex (zth F1 (snd (g_common_edge_idx i n)));
        do o <- (let c := g_common_edge_call A B iF1 iF2 in p_opposite_face (fst (fst c)) (snd (fst c)) (snd c));
        if g_common_edge_test o A B iF1 iF2 then Ok (g_common_edge_ret A B iF1 iF2)
        else p_common_edge_loop F1 n iF1 iF2 t
    end.
  Definition p_common_edge (iF1 iF2 : Z) : res (list (option Z)) :=
    do _ <- p_guard1 guard_common_edge; do F1 <- p_face_at iF1;
    p_common_edge_loop F1 (zlen F1) iF1 iF2 (zrange (zlen F1)).

  Definition p_face_to_vertices (F : Z) : res (list Z) := do _ <- p_guard1 guard_face_to_vertices; p_face_at F.

  Definition p_in_face_index (F V : Z) : res (option Z) :=
    do _ <- p_guard1 guard_in_face_index; do lF <- p_face_at F; Ok (in_face_index_loop F V lF 0).

  Definition p_face_to_edges (F : Z) : res (list (option Z)) :=
    do _ <- p_guard1 guard_face_to_edges; do lF <- p_face_at F;
    let n := zlen lF in
    mapM (fun i => do a <- of_opt EIndex (zth lF (fst (g_face_to_edges_idx i n)));
                   do b <- of_opt EIndex (zth lF (snd (g_face_to_edges_idx i n))); p_edge_id a b)
         (zrange n).

  Definition p_face_to_first_corner (F : Z) : res Z :=
    do _ <- p_guard1 guard_face_to_first_corner; do t <- p_adjF2Cn;
    do c0 <- of_opt EKey (zget (g_ftfc_key F) t); Ok (g_ftfc_ret F c0).

  Definition p_face_to_corners (F : Z) : res (list Z) :=
    do _ <- p_guard1 guard_face_to_corners; do lF <- p_face_at F;
    mapM (fun i => do t <- p_adjF2Cn; do c <- of_opt EKey (zget (g_ftc_key F i) t); Ok (g_ftc_elem F c i)) (zrange (zlen lF)).

  Definition p_face_to_faces (F : Z) : res (list Z) :=
    do _ <- p_guard1 guard_face_to_faces; do cs <- p_face_to_corners F;
    do ops <- mapM p_opposite_corner cs;
    mapM p_corner_to_face (flat_map (fun o => match o with Some c => [c] | None => [] end) ops).

  (* ---------------- border API *)
  Definition p_is_edge_on_border (u v : Z) : res bool :=
    do e <- p_edge_id u v;
    match e with
    | None => Ok (edge_on_border_expr None None None)
    | Some _ => do a <- p_direct_face u v; do b <- p_direct_face v u; Ok (edge_on_border_expr e a b)
    end.

  Fixpoint p_ib_edges_loop (es : list (Z * (Z * Z))) (inte bnd : list Z) : res (list Z * list Z) :=
    match es with
    | [] => Ok (inte, bnd)
    | (e, (u, v)) :: t =>
        do b <- (let c := g_ibe_call e u v in p_is_edge_on_border (fst c) (snd c));
        let ib := ib_push (if g_ibe_test b e u v then g_ibe_then e u v else g_ibe_else e u v) (inte, bnd) in
        p_ib_edges_loop t (fst ib) (snd ib)
    end.
  (* (interior, boundary) as _compute_interior_boundary_edges leaves them *)
  Definition IBE : res (list Z * list Z) := p_ib_edges_loop (enumerate (m_edges m)) [] [].

  Definition p_guard_edges (g : option attr) : res unit :=
    match g with Some _ => do _ <- IBE; Ok tt | None => Ok tt end.
  (* return self.<list attribute>, for the two edge lists *)
  Definition p_rd_elist (a : attr) : res (list Z) :=
    match a with
    | A_boundary_edges => do ib <- IBE; Ok (snd ib)
    | A_interior_edges => do ib <- IBE; Ok (fst ib)
    | _ => Err EAttr    (* a vertex list / another attribute: depends on what else was computed *)
    end.
  Definition p_boundary_edges : res (list Z) :=
    do _ <- p_guard_edges gattr_boundary_edges; p_rd_elist gret_boundary_edges.
  Definition p_interior_edges : res (list Z) :=
    do _ <- p_guard_edges gattr_interior_edges; p_rd_elist gret_interior_edges.

  Fixpoint p_ib_verts_loop (es : list Z) (attr : zmap bool) (bset : list Z) : res (zmap bool * list Z) :=
    match es with
    | [] => Ok (attr, bset)
    | e :: t =>
        do ab <- p_edge_at e;
        let '(a, b) := ab in
        p_ib_verts_loop t (fold_left (fun tb kv => zset (fst kv) (snd kv) tb) (g_ibv_marks a b) attr)
                          (fold_left (fun s x => set_add x s) (g_ibv_adds a b) bset)
    end.
  (* (is_vertex_on_border attribute, boundary vertices, interior vertices) *)
  Definition IBV : res (zmap bool * list Z * list Z) :=
    do be <- p_boundary_edges;
    do r <- p_ib_verts_loop be zempty [];
    Ok (fst r, snd r, map g_ibv_interior_val (filter (fun x => g_ibv_interior_test (vb_get (fst r) x) x) (zrange (m_nv m)))).

  Definition p_guard_verts (g : option attr) : res unit :=
    match g with Some _ => do _ <- IBV; Ok tt | None => Ok tt end.
  Definition p_rd_vlist (a : attr) : res (list Z) :=
    match a with
    | A_boundary_vertices => do r <- IBV; Ok (snd (fst r))
    | A_interior_vertices => do r <- IBV; Ok (snd r)
    | _ => Err EAttr
    end.
  Definition p_boundary_vertices : res (list Z) :=
    do _ <- p_guard_verts gattr_boundary_vertices; p_rd_vlist gret_boundary_vertices.
  Definition p_interior_vertices : res (list Z) :=
    do _ <- p_guard_verts gattr_interior_vertices; p_rd_vlist gret_interior_vertices.
  Definition p_is_vertex_on_border (u : Z) : res bool :=
    do _ <- p_guard_verts gattr_is_vertex_on_border; do r <- IBV; Ok (vb_get (fst (fst r)) (g_is_vertex_on_border_key u)).

  Definition rmap {X Y} (f : X -> Y) (r : res X) : res Y := do x <- r; Ok (f x).

  Definition p_query (q : query) : res ans :=
    match q with
    | Q_vertex_to_faces V => rmap zl_ans (p_vertex_to_faces V)
    | Q_vertex_to_corners V => rmap (fun o => match o with Some l => zl_ans l | None => ANone end) (p_vertex_to_corners V)
    | Q_vertex_to_corner_in_face V F => rmap oz_ans (p_vertex_to_corner_in_face V F)
    | Q_previous_corner C => rmap oz_ans (p_previous_corner C)
    | Q_next_corner C => rmap oz_ans (p_next_corner C)
    | Q_opposite_corner C => rmap oz_ans (p_opposite_corner C)
    | Q_corner_to_half_edge C => rmap (fun o => match o with Some p => pair_ans p | None => ANone end) (p_corner_to_half_edge C)
    | Q_corner_to_face C => rmap AInt (p_corner_to_face C)
    | Q_half_edge_to_corner u v => rmap oz_ans (p_half_edge_to_corner u v)
    | Q_direct_face u v => rmap oz_ans (p_direct_face u v)
    | Q_direct_face_inds u v => rmap AList (p_direct_face_inds u v)
    | Q_edge_to_faces u v => rmap AList (p_edge_to_faces u v)
    | Q_opposite_face u v F => rmap oz_ans (p_opposite_face u v F)
    | Q_opposite_face_inds u v F => rmap AList (p_opposite_face_inds u v F)
    | Q_common_edge F1 F2 => rmap AList (p_common_edge F1 F2)
    | Q_face_to_vertices F => rmap zl_ans (p_face_to_vertices F)
    | Q_in_face_index F V => rmap oz_ans (p_in_face_index F V)
    | Q_face_to_edges F => rmap AList (p_face_to_edges F)
    | Q_face_to_first_corner F => rmap AInt (p_face_to_first_corner F)
    | Q_face_to_corners F => rmap zl_ans (p_face_to_corners F)
    | Q_face_to_faces F => rmap zl_ans (p_face_to_faces F)
    | Q_face_id vs => rmap oz_ans (p_face_id vs)
    | Q_edge_id u v => rmap oz_ans (p_edge_id u v)
    | Q_other_edge_end E V => rmap oz_ans (p_other_edge_end E V)
    | Q_vertex_to_vertices V => rmap zl_ans (p_vertex_to_vertices V)
    | Q_vertex_to_edges V => rmap AList (p_vertex_to_edges V)
    | Q_edge_to_vertices E => rmap pair_ans (p_edge_to_vertices E)
    | Q_boundary_edges => rmap zl_ans p_boundary_edges
    | Q_interior_edges => rmap zl_ans p_interior_edges
    | Q_boundary_vertices => rmap zl_ans p_boundary_vertices
    | Q_interior_vertices => rmap zl_ans p_interior_vertices
    | Q_is_edge_on_border u v => rmap ABool (p_is_edge_on_border u v)
    | Q_is_vertex_on_border V => rmap ABool (p_is_vertex_on_border V)
    | Q_clear => Ok ANone
    | Q_clear_boundary_data => Ok ANone
    end.

  (* the answer of a query as a function of the mesh, the configuration and the query alone *)
  Definition pure_answer (q : query) : ans :=
    match p_query q with Ok a => a | Err e => AErr e end.
End Pure.
