(* C01 - the vertex ring: with sorting on, vertex_to_vertices is the border neighbour (if any) followed by the targets of
   the sorted corner ring.  Needs the edge list to be exactly the sides of the faces (proved for the completion of
   mesh_data.py). *)
From Coq Require Import ZArith List Bool Lia Sorting.Permutation Sorting.Sorted.
Import ListNotations.
Require Import MV.C01.Defs MV.C01.Gen MV.C01.Model MV.C01.Spec MV.C01.Pure
        MV.C01.ProofsMaps MV.C01.ProofsCorners MV.C01.ProofsTables MV.C01.ProofsEdges
        MV.C01.ProofsSort MV.C01.ProofsRing MV.C01.ProofsBorder.
Open Scope Z_scope.

Definition edges_exact (faces : list (list Z)) (edges : list (Z * Z)) : Prop :=
  forall u v, (In (u, v) edges \/ In (v, u) edges) <-> (sp_he faces u v <> None \/ sp_he faces v u <> None).

Definition sp_target (faces : list (list Z)) (c : Z) : Z := match sp_corner faces c with Some x => ct x | None => 0 end.
Definition sp_source_prev (faces : list (list Z)) (c : Z) : Z := match sp_corner faces c with Some x => cp x | None => 0 end.

(* the vertices around A in the order of its sorted corner ring l: for a border vertex first the neighbour across the
   incoming border edge, then for every corner the vertex its half-edge points to *)
Definition sp_vertex_ring (faces : list (list Z)) (l : list Z) : list Z :=
  match l with
  | a :: _ => match sp_cw faces a with None => [sp_source_prev faces a] | Some _ => [] end
  | [] => []
  end ++ map (sp_target faces) l.

Lemma nbrs_In es v w : In w (nbrs es v) <-> In (v, w) es \/ In (w, v) es.
Proof.
  unfold nbrs.
  assert (G : forall l0, In w (fold_left (nbr_step v) es l0) <-> In w l0 \/ In (v, w) es \/ In (w, v) es).
  { induction es as [|[a b] t IH]; intros l0; cbn [fold_left]; [cbn; tauto|].
    rewrite IH. unfold nbr_step. cbn [fst snd].
    destruct (Z.eqb_spec a v) as [->|Na], (Z.eqb_spec b v) as [->|Nb]; rewrite ?set_add_In; cbn [In]; split;
      intros H; repeat (destruct H as [H|H]); try (inversion H; subst); auto; try congruence;
      try (left; tauto); try (right; tauto); tauto. }
  rewrite G. cbn. tauto.
Qed.

Lemma nbrs_NoDup es v : NoDup (nbrs es v).
Proof.
  unfold nbrs. assert (G : forall l0, NoDup l0 -> NoDup (fold_left (nbr_step v) es l0)).
  { induction es as [|e t IH]; intros l0 H; cbn [fold_left]; [exact H|]. apply IH. unfold nbr_step.
    destruct (fst e =? v), (snd e =? v); auto using set_add_NoDup. }
  apply G. constructor.
Qed.

(* ------------------------------------------------------------------ the completed edge list is exactly the sides *)
Lemma pair_eqb_true a b : pair_eqb a b = true -> a = b.
Proof.
  unfold pair_eqb. destruct a, b; cbn. intros H. apply andb_true_iff in H as [H1 H2].
  apply Z.eqb_eq in H1, H2. congruence.
Qed.

Definition ge_inner (F : list Z) (acc : list (Z * Z)) (i : Z) : list (Z * Z) :=
  match zth F i, zth F ((i + 1) mod zlen F) with
  | Some a, Some b => let e := keyify2 a b in if existsb (pair_eqb e) acc then acc else acc ++ [e]
  | _, _ => acc
  end.
Definition ge_outer (acc : list (Z * Z)) (F : list Z) : list (Z * Z) := fold_left (ge_inner F) (zrange (zlen F)) acc.

Lemma gen_edges_unfold faces : gen_edges faces = fold_left ge_outer faces [].
Proof. reflexivity. Qed.

Lemma ge_inner_mono F acc i e : In e acc -> In e (ge_inner F acc i).
Proof.
  intros H. unfold ge_inner. destruct (zth F i); [|exact H]. destruct (zth F ((i + 1) mod zlen F)); [|exact H].
  cbn zeta. destruct (existsb _ acc); [exact H|]. apply in_or_app. left. exact H.
Qed.
Lemma ge_inner_fold_mono F is acc e : In e acc -> In e (fold_left (ge_inner F) is acc).
Proof. revert acc. induction is as [|i t IH]; intros acc H; cbn; [exact H|]. apply IH, ge_inner_mono, H. Qed.
Lemma ge_outer_fold_mono fs acc e : In e acc -> In e (fold_left ge_outer fs acc).
Proof. revert acc. induction fs as [|F t IH]; intros acc H; cbn; [exact H|]. apply IH. apply ge_inner_fold_mono, H. Qed.

Lemma ge_inner_adds F acc i a b :
  zth F i = Some a -> zth F ((i + 1) mod zlen F) = Some b -> In (keyify2 a b) (ge_inner F acc i).
Proof.
  intros Ea Eb. unfold ge_inner. rewrite Ea, Eb. cbn zeta.
  destruct (existsb (pair_eqb (keyify2 a b)) acc) eqn:E.
  - apply existsb_exists in E as (e & He & Ee). apply pair_eqb_true in Ee. subst. exact He.
  - apply in_or_app. right. left. reflexivity.
Qed.
Lemma ge_inner_fold_adds F is acc i a b :
  In i is -> zth F i = Some a -> zth F ((i + 1) mod zlen F) = Some b -> In (keyify2 a b) (fold_left (ge_inner F) is acc).
Proof.
  revert acc. induction is as [|j t IH]; intros acc Hi Ea Eb; [destruct Hi|]. cbn [fold_left].
  destruct Hi as [->|Hi]; [apply ge_inner_fold_mono; apply ge_inner_adds; assumption|apply IH; assumption].
Qed.
Lemma ge_outer_fold_adds fs acc F i a b :
  In F fs -> 0 <= i < zlen F -> zth F i = Some a -> zth F ((i + 1) mod zlen F) = Some b ->
  In (keyify2 a b) (fold_left ge_outer fs acc).
Proof.
  revert acc. induction fs as [|G t IH]; intros acc HF Hi Ea Eb; [destruct HF|]. cbn [fold_left].
  destruct HF as [->|HF]; [|apply IH; assumption].
  apply ge_outer_fold_mono. unfold ge_outer. apply (ge_inner_fold_adds F _ acc i a b); auto. apply In_zrange, Hi.
Qed.

Section Exact.
  Variable nv : Z.
  Variable faces : list (list Z).
  Hypothesis Hwf : wf_faces nv faces.
  Let Hfaces : Forall (face_ok nv) faces := proj1 Hwf.
  Let Horiented : oriented faces := proj2 Hwf.

  Lemma corner_side x : In x (all_corners faces) -> In (keyify2 (cv x) (ct x)) (gen_edges faces).
  Proof.
    intros Hx. pose proof (corner_pos_range faces x Hx) as R.
    apply all_corners_In in Hx as (F & H1 & H2 & H3 & H4 & _).
    destruct (zth_in_range F ((ci x + 1) mod zlen F)) as (b & Eb); [apply Z.mod_pos_bound; lia|].
    rewrite H3 in H4. rewrite (zth_d_Some _ _ _ Eb) in H4. subst b.
    rewrite gen_edges_unfold. apply (ge_outer_fold_adds faces [] F (ci x)); auto.
    - eapply zth_In; eauto.
    - lia.
  Qed.

  Lemma side_corner e : side_of faces e -> exists x, In x (all_corners faces) /\ e = keyify2 (cv x) (ct x).
  Proof.
    intros (F & i & a & b & HF & Ea & Eb & Hi & ->).
    apply In_nth_error in HF as (k & Hk).
    exists (mkC (off faces k + i) a (Z.of_nat k) i (zlen F) (zth_d F ((i + 1) mod zlen F)) (zth_d F ((i - 1) mod zlen F))).
    split; [|cbn; rewrite (zth_d_Some _ _ _ Eb); reflexivity].
    apply all_corners_In. exists F. cbn. rewrite Nat2Z.id. repeat split; auto.
    apply zth_Some. split; [lia|]. rewrite Nat2Z.id. exact Hk.
  Qed.

  Lemma gen_edges_exact : edges_exact faces (gen_edges faces).
  Proof.
    intros u v. split.
    - intros H.
      assert (Hs : exists x, In x (all_corners faces) /\ ((u, v) = keyify2 (cv x) (ct x) \/ (v, u) = keyify2 (cv x) (ct x))).
      { pose proof (gen_edges_sides faces) as Hall. rewrite Forall_forall in Hall.
        destruct H as [H|H]; destruct (side_corner _ (Hall _ H)) as (x & Hx & E); eauto. }
      destruct Hs as (x & Hx & E). pose proof (sp_he_self faces Horiented x Hx) as Es.
      destruct (keyify2_cases (cv x) (ct x)) as [K|K]; rewrite K in E; destruct E as [E|E]; inversion E; subst;
        ((left; congruence) || (right; congruence)).
    - intros [H|H].
      + destruct (sp_he faces u v) as [x|] eqn:E; [|congruence]. apply (sp_he_some faces) in E as (Hx & <- & <-).
        pose proof (corner_side x Hx) as Hin. destruct (keyify2_cases (cv x) (ct x)) as [K|K]; rewrite K in Hin; auto.
      + destruct (sp_he faces v u) as [x|] eqn:E; [|congruence]. apply (sp_he_some faces) in E as (Hx & <- & <-).
        pose proof (corner_side x Hx) as Hin. destruct (keyify2_cases (cv x) (ct x)) as [K|K]; rewrite K in Hin; auto.
  Qed.
End Exact.

(* ------------------------------------------------------------------ the order of the vertex ring *)
Section VertexOrder.
  Variable nv : Z.
  Variable faces : list (list Z).
  Hypothesis Hwf : wf_faces nv faces.
  Let Hfaces : Forall (face_ok nv) faces := proj1 Hwf.
  Let Horiented : oriented faces := proj2 Hwf.

  Lemma prev_of_next x : In x (all_corners faces) -> ((ci x + 1) mod cn x - 1) mod cn x = ci x.
  Proof.
    intros Hx. pose proof (corner_pos_range faces x Hx) as R.
    destruct (Z.eq_dec (ci x + 1) (cn x)) as [E|N].
    - rewrite E, Z_mod_same_full. replace (0 - 1) with (-1) by lia.
      replace (-1 mod cn x) with (cn x - 1); [lia|]. apply Z.mod_unique with (q := -1); lia.
    - rewrite (Z.mod_small (ci x + 1)) by lia. replace (ci x + 1 - 1) with (ci x) by lia. apply Z.mod_small. lia.
  Qed.

  Lemma next_sib_cp y z :
    In y (all_corners faces) -> In z (all_corners faces) -> cf z = cf y -> ci z = (ci y + 1) mod cn y -> cn z = cn y ->
    cp z = cv y.
  Proof.
    intros Hy Hz Ef Ei En. pose proof (prev_of_next y Hy) as E.
    apply all_corners_In in Hy as (F & H1 & H2 & H3 & _). apply all_corners_In in Hz as (G & K1 & K2 & K3 & _ & K5 & _).
    rewrite Ef in K1. assert (G = F) by congruence. subst G. rewrite K5, Ei, En, E. apply zth_d_Some. exact H2.
  Qed.

  Variable A : Z.
  Variable l : list Z.
  Hypothesis Hring : ring_spec faces A l.

  Lemma ring_corner c : In c l -> exists x, In x (all_corners faces) /\ cid x = c /\ cv x = A
                                      /\ sp_target faces c = ct x /\ sp_source_prev faces c = cp x.
  Proof.
    intros Hc. destruct Hring as (_ & Hs & _). apply Hs, corners_at_In in Hc as (x & Hx & E & Ev).
    exists x. unfold sp_target, sp_source_prev. rewrite <- E, (sp_corner_self faces x Hx). auto.
  Qed.

  Lemma corner_in_ring x : In x (all_corners faces) -> cv x = A -> In (cid x) l.
  Proof. intros Hx Ev. destruct Hring as (_ & Hs & _). apply Hs, corners_at_In. eauto. Qed.

  Lemma target_iff w : In w (map (sp_target faces) l) <-> sp_he faces A w <> None.
  Proof.
    rewrite in_map_iff. split.
    - intros (c & E & Hc). destruct (ring_corner c Hc) as (x & Hx & Ec & Ev & Et & _).
      rewrite <- E, Et, <- Ev, (sp_he_self faces Horiented x Hx). discriminate.
    - intros H. destruct (sp_he faces A w) as [x|] eqn:E; [|congruence].
      apply (sp_he_some faces) in E as (Hx & Ev & Et). exists (cid x). split; [|apply corner_in_ring; auto].
      unfold sp_target. rewrite (sp_corner_self faces x Hx). exact Et.
  Qed.

  Lemma target_inj c d : In c l -> In d l -> sp_target faces c = sp_target faces d -> c = d.
  Proof.
    intros Hc Hd E. destruct (ring_corner c Hc) as (x & Hx & <- & Evx & Etx & _).
    destruct (ring_corner d Hd) as (y & Hy & <- & Evy & Ety & _). f_equal.
    apply (corner_same_he faces); auto; congruence.
  Qed.

  Lemma tail_has_cw a t : l = a :: t -> forall b, In b t -> sp_cw faces b <> None.
  Proof.
    intros El. destruct Hring as (_ & _ & Hc & _). rewrite El in Hc. clear El.
    revert a Hc. induction t as [|b' t IH]; intros a Hc b Hb; [destruct Hb|].
    destruct Hc as [E Hc]. destruct Hb as [<-|Hb]; [congruence|]. eapply IH; eauto.
  Qed.

  (* a neighbour reached only by an incoming half-edge is the source of the first corner's incoming border edge *)
  Lemma incoming_only w :
    sp_he faces A w = None -> sp_he faces w A <> None ->
    exists a t, l = a :: t /\ sp_cw faces a = None /\ sp_source_prev faces a = w.
  Proof.
    intros Hn Hs. destruct (sp_he faces w A) as [y|] eqn:E; [|congruence].
    apply (sp_he_some faces) in E as (Hy & Evy & Ety).
    destruct (next_sibling faces y Hy) as (z & Hz & A1 & A2 & A3 & A4 & A5).
    assert (Evz : cv z = A) by congruence.
    assert (Epz : cp z = w) by (rewrite (next_sib_cp y z Hy Hz A1 A2 A3); exact Evy).
    assert (Ecw : sp_cw faces (cid z) = None) by (rewrite (L_cw faces z Hz), Evz, Epz, Hn; reflexivity).
    pose proof (corner_in_ring z Hz Evz) as Hin.
    destruct l as [|a t] eqn:El; [destruct Hin|]. exists a, t. split; [reflexivity|].
    destruct Hin as [Ea|Ht].
    - subst a. split; [exact Ecw|]. unfold sp_source_prev. rewrite (sp_corner_self faces z Hz). exact Epz.
    - exfalso. rewrite <- El in *. eapply (tail_has_cw a t El); eauto.
  Qed.

  Lemma prefix_he a t :
    l = a :: t -> sp_cw faces a = None ->
    sp_he faces A (sp_source_prev faces a) = None /\ sp_he faces (sp_source_prev faces a) A <> None.
  Proof.
    intros El Ecw. destruct (ring_corner a ltac:(rewrite El; left; reflexivity)) as (x & Hx & Ec & Ev & _ & Ep).
    rewrite <- Ec, (L_cw faces x Hx), Ev in Ecw. rewrite Ep. split.
    - destruct (sp_he faces A (cp x)); [discriminate|reflexivity].
    - destruct (prev_sibling faces x Hx) as (y & Hy & A1 & A2 & A3 & A4 & A5).
      pose proof (prev_sib_he faces x y Hx Hy A1 A2 A3) as Ect.
      rewrite <- A5, <- Ev, <- Ect, (sp_he_self faces Horiented y Hy). discriminate.
  Qed.

  Variable adjA : list Z.
  Hypothesis HadjN : NoDup adjA.
  Hypothesis HadjI : forall w, In w adjA <-> (sp_he faces A w <> None \/ sp_he faces w A <> None).

  Lemma ring_perm : Permutation adjA (sp_vertex_ring faces l).
  Proof.
    apply NoDup_Permutation; [exact HadjN| |].
    - (* no repetition *)
      unfold sp_vertex_ring.
      assert (Hm : NoDup (map (sp_target faces) l)).
      { destruct Hring as (Hn & _).
        assert (G : forall l', (forall c, In c l' -> In c l) -> NoDup l' -> NoDup (map (sp_target faces) l')).
        { induction l' as [|c t IH]; intros Hsub Hn'; [constructor|]. inversion Hn'; subst. cbn [map]. constructor.
          - intros Hin. apply in_map_iff in Hin as (d & E & Hd). apply H1.
            rewrite (target_inj c d); auto; [apply Hsub; left; reflexivity|apply Hsub; right; exact Hd].
          - apply IH; auto. intros d Hd. apply Hsub. right. exact Hd. }
        apply G; auto. }
      destruct l as [|a t] eqn:El; [exact Hm|]. destruct (sp_cw faces a) eqn:Ecw; [exact Hm|].
      cbn [app]. constructor; [|exact Hm]. rewrite <- El in *.
      destruct (prefix_he a t El Ecw) as (Hn & _). intros Hin. apply target_iff in Hin. congruence.
    - (* same elements *)
      intros w. rewrite HadjI. unfold sp_vertex_ring. rewrite in_app_iff, target_iff. split.
      + intros [H|H]; [right; exact H|].
        destruct (sp_he faces A w) eqn:E; [right; discriminate|]. left.
        destruct (incoming_only w E H) as (a & t & El & Ecw & Ep). rewrite El, Ecw. left. exact Ep.
      + intros [H|H]; [|left; exact H].
        destruct l as [|a t] eqn:El; [destruct H|]. destruct (sp_cw faces a) eqn:Ecw; [destruct H|].
        destruct H as [<-|[]]. rewrite <- El in *. right. apply (prefix_he a t El Ecw).
  Qed.

  (* the sort by (None first, then corner index) of the neighbours yields the vertex ring *)
  Lemma vertex_order vs : vsorted faces A l adjA vs -> vs = sp_vertex_ring faces l.
  Proof.
    intros (Hperm & Hnil & Hcons).
    assert (Hcase : l = [] \/ exists a t, l = a :: t) by (destruct l; eauto).
    destruct Hcase as [El|(a & t & El)].
    - rewrite (Hnil El). pose proof ring_perm as P. rewrite El in P. cbn in P.
      apply Permutation_sym, Permutation_nil in P. rewrite El. exact P.
    - destruct (Hcons ltac:(rewrite El; discriminate)) as (si2 & Hincr & Hsome & ->).
      set (vk := vkey faces si2 A).
      set (lo := key_of si2 a - 1).
      set (zk := fun p : Z * option Z => match snd p with None => lo | Some k => k end).
      assert (Hkey : forall c, In c l -> lo < key_of si2 c).
      { intros c Hc. rewrite El in Hincr, Hc. inversion Hincr; subst. destruct Hc as [<-|Hc]; [unfold lo; lia|].
        rewrite Forall_forall in H2. specialize (H2 c Hc). unfold lo. lia. }
      assert (Hvk : forall w, snd (vk w) = None \/ exists c, In c l /\ snd (vk w) = Some (key_of si2 c) /\ sp_target faces c = w).
      { intros w. unfold vk, vkey. cbn [snd]. destruct (sp_he faces A w) as [x|] eqn:E; [|left; reflexivity]. right.
        apply (sp_he_some faces) in E as (Hx & Ev & Et). exists (cid x). cbn [option_map].
        pose proof (corner_in_ring x Hx Ev) as Hin. split; [exact Hin|].
        unfold key_of. destruct (zget (cid x) si2) eqn:Ez; [|exfalso; eapply Hsome; eauto].
        split; [reflexivity|]. unfold sp_target. rewrite (sp_corner_self faces x Hx). exact Et. }
      assert (Hzk_t : forall c, In c l -> zk (vk (sp_target faces c)) = key_of si2 c).
      { intros c Hc. destruct (Hvk (sp_target faces c)) as [E|(d & Hd & E & Et)].
        - exfalso. unfold vk, vkey in E. cbn [snd] in E.
          assert (Hne : sp_he faces A (sp_target faces c) <> None) by (apply target_iff, in_map, Hc).
          destruct (sp_he faces A (sp_target faces c)) as [x|] eqn:Ex; [|congruence]. cbn [option_map] in E.
          apply (sp_he_some faces) in Ex as (Hx & Ev & _). eapply Hsome; [apply (corner_in_ring x Hx Ev)|exact E].
        - unfold zk. rewrite E. f_equal. apply target_inj; auto. }
      rewrite (sort_by_ext _ (fun p q => zk p <=? zk q)).
      2:{ intros p q Hp Hq. apply in_map_iff in Hp as (w1 & <- & _). apply in_map_iff in Hq as (w2 & <- & _).
          unfold zk. destruct (Hvk w1) as [E1|(c1 & H1 & E1 & _)], (Hvk w2) as [E2|(c2 & H2 & E2 & _)]; rewrite E1, E2; cbn [okey_leb].
          - symmetry. apply Z.leb_le. lia.
          - symmetry. apply Z.leb_le. specialize (Hkey c2 H2). lia.
          - symmetry. apply Z.leb_gt. specialize (Hkey c1 H1). lia.
          - reflexivity. }
      rewrite (sort_by_unique zk _ (map vk (sp_vertex_ring faces l))).
      + rewrite map_map. unfold vk, vkey. cbn [fst]. apply map_id.
      + apply Permutation_map, ring_perm.
      + unfold sp_vertex_ring. rewrite map_app. apply incr_app.
        * rewrite El. destruct (sp_cw faces a); [constructor|]. cbn [map]. constructor; constructor.
        * apply incr_map. apply incr_map. eapply incr_ext; [|exact Hincr]. intros c Hc. symmetry. apply Hzk_t, Hc.
        * intros p q Hp Hq. apply in_map_iff in Hq as (w & <- & Hw). apply in_map_iff in Hw as (c & <- & Hc).
          rewrite (Hzk_t c Hc). rewrite El in Hp. destruct (sp_cw faces a) eqn:Ecw; [destruct Hp|].
          destruct Hp as [<-|[]]. destruct (prefix_he a t El Ecw) as (Hn & _).
          unfold zk, vk, vkey. cbn [snd]. rewrite Hn. cbn [option_map]. apply Hkey, Hc.
  Qed.
End VertexOrder.

(* ------------------------------------------------------------------ the per-case boolean check of the edge container is sound *)
Lemma pair_eqb'_true a b : pair_eqb' a b = true -> a = b.
Proof.
  unfold pair_eqb'. destruct a, b; cbn. intros H. apply andb_true_iff in H as [H1 H2].
  apply Z.eqb_eq in H1, H2. congruence.
Qed.

Lemma edges_ok_b_sound nv faces edges :
  wf_faces nv faces -> edges_ok_b faces edges = true ->
  Forall (edge_valid nv) edges /\ edges_exact faces edges.
Proof.
  intros Hw H. pose proof Hw as (Hf & Ho). unfold edges_ok_b in H.
  apply andb_true_iff in H as [H H4]. apply andb_true_iff in H as [H2 H3].
  rewrite forallb_forall in H2, H3, H4.
  assert (Hsrc : forall e, In e edges -> exists x, In x (all_corners faces) /\ keyify2 (cv x) (ct x) = e).
  { intros e He. specialize (H3 e He). apply existsb_exists in H3 as (x & Hx & E). apply pair_eqb'_true in E. eauto. }
  assert (Hdst : forall x, In x (all_corners faces) -> In (keyify2 (cv x) (ct x)) edges).
  { intros x Hx. specialize (H4 x Hx). apply existsb_exists in H4 as (e & He & E). apply pair_eqb'_true in E. congruence. }
  split.
  - rewrite Forall_forall. intros e He. destruct (Hsrc e He) as (x & Hx & E). specialize (H2 e He).
    pose proof (AC_vertex_range nv faces Hf x Hx) as R1.
    destruct (next_sibling faces x Hx) as (y & Hy & _ & _ & _ & _ & Ey).
    pose proof (AC_vertex_range nv faces Hf y Hy) as R2. rewrite Ey in R2.
    unfold edge_valid. destruct (keyify2_cases (cv x) (ct x)) as [K|K]; rewrite K in E; subst e; cbn in *; lia.
  - intros u v. split.
    + intros [He|He]; destruct (Hsrc _ He) as (x & Hx & E); pose proof (sp_he_self faces Ho x Hx) as Es;
        destruct (keyify2_cases (cv x) (ct x)) as [K|K]; rewrite K in E; inversion E; subst;
        ((left; congruence) || (right; congruence)).
    + intros [Hs|Hs].
      * destruct (sp_he faces u v) as [x|] eqn:E; [|congruence]. apply (sp_he_some faces) in E as (Hx & <- & <-).
        pose proof (Hdst x Hx) as Hin. destruct (keyify2_cases (cv x) (ct x)) as [K|K]; rewrite K in Hin; auto.
      * destruct (sp_he faces v u) as [x|] eqn:E; [|congruence]. apply (sp_he_some faces) in E as (Hx & <- & <-).
        pose proof (Hdst x Hx) as Hin. destruct (keyify2_cases (cv x) (ct x)) as [K|K]; rewrite K in Hin; auto.
Qed.
