(* C01 - the tables built by _compute_connectivity (model) characterised through the corner list of the
   specification: corner dictionaries, half-edge table, opposite pass. *)
From Coq Require Import ZArith List Bool Lia.
Import ListNotations.
Require Import MV.C01.Defs MV.C01.Gen MV.C01.Model MV.C01.Spec MV.C01.ProofsMaps MV.C01.ProofsCorners.
Open Scope Z_scope.

(* ------------------------------------------------------------------ corner list of the model = corner list of the spec *)
Lemma enum_from_map {A B} (g : A -> B) l k j :
  enum_from (k + j) (map g l) = map (fun iv => (k + fst iv, g (snd iv))) (enum_from j l).
Proof.
  revert j. induction l as [|x t IH]; intros j; cbn; [reflexivity|].
  f_equal. replace (k + j + 1) with (k + (j + 1)) by lia. apply IH.
Qed.

Lemma zlen_map {A B} (g : A -> B) l : zlen (map g l) = zlen l.
Proof. unfold zlen. rewrite map_length. reflexivity. Qed.

Lemma gen_corners_enum faces f0 c0 :
  enum_from c0 (flat_map (fun fF => map (fun v => (v, fst fF)) (snd fF)) (enum_from f0 faces))
  = map (fun x => (cid x, (cv x, cf x))) (corners_from faces f0 c0).
Proof.
  revert f0 c0. induction faces as [|F t IH]; intros f0 c0; cbn [enum_from flat_map corners_from]; [reflexivity|].
  rewrite enum_from_app, map_app, zlen_map, IH. f_equal. cbn [fst snd].
  unfold face_corners, enumerate. rewrite map_map. cbn [cid cv cf].
  replace c0 with (c0 + 0) at 1 by lia. rewrite (enum_from_map (fun v => (v, f0)) F c0 0). reflexivity.
Qed.

Lemma enumerate_gen_corners faces :
  enumerate (gen_corners faces) = map (fun x => (cid x, (cv x, cf x))) (all_corners faces).
Proof. apply gen_corners_enum. Qed.

Lemma off_nonneg faces k : 0 <= off faces k.
Proof.
  revert faces. induction k as [|k IH]; intros faces; [cbn; lia|].
  destruct faces as [|F t]; [cbn; lia|]. change (off (F :: t) (S k)) with (zlen F + off t k).
  specialize (IH t). unfold zlen. lia.
Qed.

Lemma corners_from_lb faces f0 c0 x : 0 <= f0 -> In x (corners_from faces f0 c0) -> c0 <= cid x.
Proof.
  intros H0 H. apply corners_from_In in H as (_ & F & H1 & H2 & _ & _ & _ & H6); [|exact H0].
  apply zth_range in H2. pose proof (off_nonneg faces (Z.to_nat (cf x - f0))). lia.
Qed.

Lemma NoDup_cid_from faces f0 c0 : 0 <= f0 -> NoDup (map cid (corners_from faces f0 c0)).
Proof.
  revert f0 c0. induction faces as [|F t IH]; intros f0 c0 H0; cbn [corners_from map]; [constructor|].
  rewrite map_app. apply NoDup_app_intro.
  - unfold face_corners. rewrite map_map. cbn [cid].
    replace (map (fun iv : Z * Z => c0 + fst iv) (enumerate F)) with (map (fun i => c0 + i) (map fst (enumerate F)))
      by (rewrite map_map; reflexivity).
    unfold enumerate. rewrite map_fst_enum_from, map_map.
    apply FinFun.Injective_map_NoDup; [intros a b; lia | apply NoDup_zrange].
  - apply IH. lia.
  - intros c Hc1 Hc2. apply in_map_iff in Hc1 as (x & <- & Hx). apply in_map_iff in Hc2 as (y & E & Hy).
    apply face_corners_In in Hx as (H1 & _ & _ & _ & _ & H6). apply zth_range in H1.
    apply corners_from_lb in Hy; lia.
Qed.

Lemma init_vmap_get nv v : zget v (init_vmap nv) = if (0 <=? v) && (v <? nv) then Some [] else None.
Proof.
  unfold init_vmap. change (fold_left (fun m0 v0 => zset v0 [] m0) (zrange nv) zempty)
    with (zfill (fun v : Z => v) (fun _ : Z => @nil Z) (zrange nv) zempty).
  destruct ((0 <=? v) && (v <? nv)) eqn:E.
  - apply (zfill_unique (fun v : Z => v) (fun _ : Z => @nil Z)).
    + apply In_zrange. lia.
    + intros y _ Ey. exact Ey.
  - rewrite zfill_absent; [apply zget_empty|]. intros x Hx Ex. apply In_zrange in Hx. lia.
Qed.

Lemma set_add_fresh x l : ~ In x l -> set_add x l = l ++ [x].
Proof.
  intros H. unfold set_add. destruct (existsb (Z.eqb x) l) eqn:E; [|reflexivity].
  apply existsb_exists in E as (y & Hy & Ey). apply Z.eqb_eq in Ey. subst. contradiction.
Qed.

Section Tables.
  Variable nv : Z.
  Variable faces : list (list Z).
  Hypothesis Hfaces : Forall (face_ok nv) faces.

  Lemma faces_nodup : Forall (fun F => NoDup F) faces.
  Proof. eapply Forall_impl; [|exact Hfaces]. intros F (_ & H & _). exact H. Qed.

  Lemma AC_vertex_range x : In x (all_corners faces) -> 0 <= cv x < nv.
  Proof.
    intros Hx. apply all_corners_In in Hx as (F & H1 & H2 & _).
    rewrite Forall_forall in Hfaces. destruct (Hfaces F (zth_In _ _ _ H1)) as (_ & _ & Hr).
    rewrite Forall_forall in Hr. apply Hr. eapply zth_In; eauto.
  Qed.

  Lemma AC_arity x : In x (all_corners faces) -> 3 <= cn x.
  Proof.
    intros Hx. apply all_corners_In in Hx as (F & H1 & H2 & H3 & _).
    rewrite Forall_forall in Hfaces. destruct (Hfaces F (zth_In _ _ _ H1)) as (Hl & _). lia.
  Qed.

  Lemma NoDup_cid : NoDup (map cid (all_corners faces)).
  Proof. apply NoDup_cid_from. lia. Qed.

  Definition cstep (st : zmap (list Z) * zzmap Z * zmap Z) (x : crn) := corner_step st (cid x, (cv x, cf x)).

  Definition cinv (pre : list crn) (st : zmap (list Z) * zzmap Z * zmap Z) : Prop :=
    let '(v2c, vf2c, f2c) := st in
    (forall v, zget v v2c = if (0 <=? v) && (v <? nv) then Some (map cid (filter (fun y => cv y =? v) pre)) else None)
    /\ vf2c = zzfill (fun y => (cv y, cf y)) cid pre zzempty
    /\ (forall f, zget f f2c = option_map cid (find (fun y => cf y =? f) pre)).

  Lemma corner_pass_spec :
    exists st, foldM corner_step (enumerate (gen_corners faces)) (init_vmap nv, zzempty, zempty) = Ok st
               /\ cinv (all_corners faces) st.
  Proof.
    rewrite enumerate_gen_corners, foldM_map. fold cstep.
    apply (foldM_inv cstep cinv).
    - cbn. split; [|split]; auto. intros v. rewrite init_vmap_get. reflexivity.
      intros f. apply zget_empty.
    - intros pre x [[v2c vf2c] f2c] (post & Epost) (I1 & I2 & I3).
      assert (Hx : In x (all_corners faces)) by (rewrite Epost; apply in_or_app; right; left; reflexivity).
      pose proof (AC_vertex_range x Hx) as Hr.
      assert (Hfresh : ~ In (cid x) (map cid pre)).
      { pose proof NoDup_cid as Hn. rewrite Epost, map_app in Hn. cbn in Hn.
        apply NoDup_remove_2 in Hn. intros Hin. apply Hn. apply in_or_app. left. exact Hin. }
      unfold cstep, corner_step, vmap_add, g_v2c_add, g_vf_entry, g_f2c_entry, g_f2c_test, g_f2c_store_when_absent.
      cbn [fst snd]. rewrite I1.
      replace ((0 <=? cv x) && (cv x <? nv)) with true by lia. cbn [bind].
      eexists. split; [reflexivity|]. split; [|split].
      + intros v. rewrite zget_zset. destruct (Z.eqb_spec v (cv x)) as [->|N].
        * replace ((0 <=? cv x) && (cv x <? nv)) with true by lia.
          rewrite filter_app', map_app. cbn [filter]. rewrite Z.eqb_refl. cbn [map].
          rewrite set_add_fresh; [reflexivity|].
          intros Hin. apply Hfresh. apply in_map_iff in Hin as (y & Ey & Hy). apply filter_In in Hy as [Hy _].
          apply in_map_iff. exists y. auto.
        * rewrite I1. rewrite filter_app', map_app. cbn [filter].
          replace (cv x =? v) with false by lia. cbn. rewrite app_nil_r. reflexivity.
      + rewrite I2. rewrite zzfill_app. reflexivity.
      + intros f. rewrite find_app. cbn [find]. rewrite (I3 (cf x)).
        destruct (find (fun y => cf y =? cf x) pre) as [y0|] eqn:Ef; cbn [option_map].
        * rewrite I3. destruct (find (fun y => cf y =? f) pre) eqn:Eg; [reflexivity|].
          destruct (Z.eqb_spec (cf x) f) as [<-|N]; [congruence|reflexivity].
        * rewrite zget_zset. destruct (Z.eqb_spec f (cf x)) as [->|N].
          -- rewrite Ef. rewrite Z.eqb_refl. reflexivity.
          -- rewrite I3. destruct (find (fun y => cf y =? f) pre); [reflexivity|].
             replace (cf x =? f) with false by lia. reflexivity.
  Qed.

  (* ---------------------------------------------------------------- half-edge pass, flattened over the corner list *)
  Definition prev_id (x : crn) : Z := cid x - ci x + (ci x - 1) mod cn x.
  Definition next_id (x : crn) : Z := cid x - ci x + (ci x + 1) mod cn x.

  Definition hstep (vf : zzmap Z) (st : zzmap herec * zmap (Z * Z) * list (Z * Z)) (x : crn)
    : res (zzmap herec * zmap (Z * Z) * list (Z * Z)) :=
    let '(he, c2h, keys) := st in
    do iC <- of_opt EKey (zzget (cv x, cf x) vf);
    do iCprev <- of_opt EKey (zzget (cp x, cf x) vf);
    do iCnext <- of_opt EKey (zzget (ct x, cf x) vf);
    Ok (zzset (he_key (cv x) (cp x) (ct x)) (he_record iC iCprev iCnext (cf x) (ci x) (cn x)) he,
        zset (cn2he_key iC iCprev iCnext) (cn2he_val (cv x) (cp x) (ct x)) c2h,
        he_key (cv x) (cp x) (ct x) :: keys).

  Lemma he_step_crn vf F f c0 st x :
    In x (face_corners F f c0) -> he_step vf f F (zlen F) st (ci x) = hstep vf st x.
  Proof.
    intros Hx. apply face_corners_In in Hx as (H1 & H2 & H3 & H4 & H5 & H6).
    pose proof (zth_range _ _ _ H1) as R.
    unfold he_step, hstep. destruct st as [[he c2h] keys]. rewrite H1. cbn [of_opt bind].
    unfold he_idx_prev, he_idx_next.
    destruct (zth_in_range F ((ci x - 1) mod zlen F)) as (vp & Ep); [apply Z.mod_pos_bound; lia|].
    destruct (zth_in_range F ((ci x + 1) mod zlen F)) as (vn & En); [apply Z.mod_pos_bound; lia|].
    rewrite Ep, En. cbn [of_opt bind].
    rewrite H3 in H4, H5. rewrite (zth_d_Some _ _ _ En) in H4. rewrite (zth_d_Some _ _ _ Ep) in H5.
    rewrite H2, H3, H4, H5. reflexivity.
  Qed.

  Lemma map_zero_plus l : map (fun i => 0 + i) l = l.
  Proof. induction l as [|a t IH]; cbn [map]; [reflexivity|]. rewrite IH. reflexivity. Qed.

  Lemma he_face_flat vf F f c0 st :
    foldM (he_step vf f F (zlen F)) (zrange (zlen F)) st = foldM (hstep vf) (face_corners F f c0) st.
  Proof.
    assert (E : zrange (zlen F) = map fst (enumerate F)).
    { unfold enumerate. rewrite map_fst_enum_from, map_zero_plus. reflexivity. }
    rewrite E. unfold face_corners. rewrite !foldM_map. apply foldM_ext.
    intros s iv Hiv.
    set (x := mkC (c0 + fst iv) (snd iv) f (fst iv) (zlen F) (zth_d F ((fst iv + 1) mod zlen F)) (zth_d F ((fst iv - 1) mod zlen F))).
    change (fst iv) with (ci x) at 1. apply (he_step_crn vf F f c0).
    unfold face_corners. apply in_map_iff. exists iv. split; [reflexivity|exact Hiv].
  Qed.

  Lemma he_pass_flat vf fs f0 c0 st :
    foldM (fun st fF => let '(iF, F) := fF in foldM (he_step vf iF F (zlen F)) (zrange (zlen F)) st) (enum_from f0 fs) st
    = foldM (hstep vf) (corners_from fs f0 c0) st.
  Proof.
    revert f0 c0 st. induction fs as [|F t IH]; intros f0 c0 st; cbn [enum_from corners_from foldM]; [reflexivity|].
    rewrite foldM_app, (he_face_flat vf F f0 c0).
    destruct (foldM (hstep vf) (face_corners F f0 c0) st); cbn [bind]; [apply IH|reflexivity].
  Qed.

  Definition hk (x : crn) : Z * Z := he_key (cv x) (cp x) (ct x).
  Definition hv (x : crn) : herec := he_record (cid x) (prev_id x) (next_id x) (cf x) (ci x) (cn x).

  Lemma hstep_fold vf l he c2h keys :
    (forall x, In x l -> zzget (cv x, cf x) vf = Some (cid x) /\ zzget (cp x, cf x) vf = Some (prev_id x)
                         /\ zzget (ct x, cf x) vf = Some (next_id x)) ->
    foldM (hstep vf) l (he, c2h, keys)
    = Ok (zzfill hk hv l he,
          zfill (fun x => cn2he_key (cid x) (prev_id x) (next_id x)) (fun x => cn2he_val (cv x) (cp x) (ct x)) l c2h,
          rev (map hk l) ++ keys).
  Proof.
    revert he c2h keys. induction l as [|x t IH]; intros he c2h keys H; [reflexivity|].
    cbn [foldM]. destruct (H x (or_introl eq_refl)) as (E1 & E2 & E3).
    unfold hstep at 1. rewrite E1, E2, E3. cbn [of_opt bind].
    rewrite IH by (intros y Hy; apply H; right; exact Hy).
    cbn [map rev]. rewrite <- app_assoc. reflexivity.
  Qed.

  Lemma vf2c_lookup x :
    In x (all_corners faces) ->
    zzget (cv x, cf x) (zzfill (fun y => (cv y, cf y)) cid (all_corners faces) zzempty) = Some (cid x).
  Proof.
    intros Hx. apply (zzfill_unique (fun y => (cv y, cf y)) cid); [exact Hx|].
    intros y Hy E. inversion E. apply (corner_same_vf faces); auto using faces_nodup.
  Qed.

  Lemma vf2c_lookups x :
    In x (all_corners faces) ->
    let vf := zzfill (fun y => (cv y, cf y)) cid (all_corners faces) zzempty in
    zzget (cv x, cf x) vf = Some (cid x) /\ zzget (cp x, cf x) vf = Some (prev_id x)
    /\ zzget (ct x, cf x) vf = Some (next_id x).
  Proof.
    intros Hx vf. split; [apply vf2c_lookup, Hx|]. split.
    - destruct (prev_sibling faces x Hx) as (y & Hy & A1 & A2 & A3 & A4 & A5).
      rewrite <- A5, <- A1. unfold vf. rewrite (vf2c_lookup y Hy). unfold prev_id. congruence.
    - destruct (next_sibling faces x Hx) as (y & Hy & A1 & A2 & A3 & A4 & A5).
      rewrite <- A5, <- A1. unfold vf. rewrite (vf2c_lookup y Hy). unfold next_id. congruence.
  Qed.

  (* ---------------------------------------------------------------- the opposite pass *)
  Hypothesis Horiented : oriented faces.

  Lemma sp_he_some u v y : sp_he faces u v = Some y -> In y (all_corners faces) /\ cv y = u /\ ct y = v.
  Proof.
    unfold sp_he. intros H. apply find_some in H as [H1 H2]. apply andb_true_iff in H2 as [E1 E2].
    apply Z.eqb_eq in E1, E2. auto.
  Qed.
  Lemma sp_he_none u v y : sp_he faces u v = None -> In y (all_corners faces) -> cv y = u -> ct y = v -> False.
  Proof.
    unfold sp_he. intros H Hy E1 E2. pose proof (find_none _ _ H y Hy) as Hn. cbn in Hn.
    rewrite E1, E2, !Z.eqb_refl in Hn. discriminate.
  Qed.
  Lemma sp_he_self y : In y (all_corners faces) -> sp_he faces (cv y) (ct y) = Some y.
  Proof.
    intros Hy. destruct (sp_he faces (cv y) (ct y)) as [z|] eqn:E.
    - apply sp_he_some in E as (Hz & E1 & E2). f_equal. apply (corner_same_he faces); auto.
    - exfalso. eapply sp_he_none; eauto.
  Qed.

  Lemma cv_ne_ct x : In x (all_corners faces) -> cv x <> ct x.
  Proof.
    intros Hx E. destruct (next_sibling faces x Hx) as (y & Hy & A1 & A2 & A3 & A4 & A5).
    assert (y = x) by (apply (corner_same_vf faces); auto using faces_nodup; congruence). subst y.
    pose proof (corner_pos_range faces x Hx). pose proof (AC_arity x Hx).
    destruct (Z.eq_dec (ci x + 1) (cn x)) as [E1|N1].
    - rewrite E1, Z_mod_same_full in A2. lia.
    - rewrite Z.mod_small in A2 by lia. lia.
  Qed.

  Lemma hk_eq x : hk x = (cv x, ct x).
  Proof. reflexivity. Qed.

  Lemma hk_inj x y : In x (all_corners faces) -> In y (all_corners faces) -> hk x = hk y -> x = y.
  Proof. rewrite !hk_eq. intros Hx Hy E. inversion E. apply (corner_same_he faces); auto. Qed.

  Definition R1 (x : crn) (o : option Z) : herec :=
    [Some (cid x); Some (prev_id x); Some (next_id x); o; Some (cf x); Some (ci x); Some ((ci x + 1) mod cn x)].
  Lemma hv_R1 x : hv x = R1 x None.
  Proof. reflexivity. Qed.
  Lemma set_slot_R1 x o o' : set_slot (R1 x o) opp_write_slot o' = Ok (R1 x o').
  Proof. reflexivity. Qed.
  Lemma rec_slot_R1_read x o : rec_slot (R1 x o) opp_read_slot = Ok (Some (cid x)).
  Proof. reflexivity. Qed.

  Definition he0 : zzmap herec := zzfill hk hv (all_corners faces) zzempty.

  Definition oppP (P : list (Z * Z)) (x : crn) : option Z :=
    match sp_he faces (ct x) (cv x) with
    | Some y => if existsb (zz_eqb (hk x)) P || existsb (zz_eqb (hk y)) P then Some (cid y) else None
    | None => None
    end.

  Definition oinv (P : list (Z * Z)) (he : zzmap herec) : Prop :=
    (forall x, In x (all_corners faces) -> zzget (hk x) he = Some (R1 x (oppP P x)))
    /\ (forall k, (forall x, In x (all_corners faces) -> hk x <> k) -> zzget k he = None).

  Lemma oinv_init : oinv [] he0.
  Proof.
    split.
    - intros x Hx. unfold he0. rewrite (zzfill_unique hk hv); [|exact Hx|intros y Hy E; apply hk_inj; auto].
      rewrite hv_R1. unfold oppP. cbn. destruct (sp_he faces (ct x) (cv x)); reflexivity.
    - intros k Hk. unfold he0. rewrite zzfill_absent by exact Hk. apply zzget_empty.
  Qed.

  Lemma zz_eqb_refl k : zz_eqb k k = true.
  Proof. destruct (zz_eqb_spec k k); congruence. Qed.
  Lemma zz_eqb_neq a b : a <> b -> zz_eqb a b = false.
  Proof. intros N. destruct (zz_eqb_spec a b); congruence. Qed.

  Lemma oinv_step pre x0 he :
    In x0 (all_corners faces) -> oinv pre he ->
    exists he', opp_step he (hk x0) = Ok he' /\ oinv (pre ++ [hk x0]) he'.
  Proof.
    intros Hx0 (I1 & I2). unfold opp_step. change (hk x0) with (cv x0, ct x0). cbn beta iota.
    unfold he_get_default. change (cv x0, ct x0) with (hk x0). rewrite (I1 x0 Hx0), rec_slot_R1_read. cbn [bind].
    destruct (sp_he faces (ct x0) (cv x0)) as [y|] eqn:Ey.
    - (* the reversed half-edge exists *)
      pose proof (sp_he_some _ _ _ Ey) as (Hy & Ey1 & Ey2).
      assert (Eky : hk y = (ct x0, cv x0)) by (rewrite hk_eq; congruence).
      assert (Nxy : hk x0 <> hk y).
      { rewrite Eky, hk_eq. intros E. inversion E. apply (cv_ne_ct x0 Hx0). assumption. }
      rewrite <- Eky, (I1 y Hy), rec_slot_R1_read. cbn [bind].
      cbn [of_opt bind]. rewrite set_slot_R1. cbn [bind].
      rewrite zzget_zzset_other by congruence. rewrite (I1 y Hy). cbn [of_opt bind]. rewrite set_slot_R1. cbn [bind].
      eexists. split; [reflexivity|]. split.
      + intros x Hx. rewrite !zzget_zzset.
        destruct (zz_eqb_spec (hk x) (hk y)) as [E|N].
        * assert (x = y) by (apply hk_inj; auto). subst x. f_equal. f_equal.
          unfold oppP. rewrite Ey2, Ey1, (sp_he_self x0 Hx0). rewrite !existsb_app. cbn [existsb].
          rewrite zz_eqb_refl, !orb_true_r. reflexivity.
        * destruct (zz_eqb_spec (hk x) (hk x0)) as [E0|N0].
          -- assert (x = x0) by (apply hk_inj; auto). subst x. f_equal. f_equal.
             unfold oppP. rewrite Ey. rewrite !existsb_app. cbn [existsb]. rewrite zz_eqb_refl, !orb_true_r.
             reflexivity.
          -- rewrite (I1 x Hx). f_equal. f_equal. unfold oppP.
             destruct (sp_he faces (ct x) (cv x)) as [z|] eqn:Ez; [|reflexivity].
             rewrite !existsb_app. cbn [existsb]. rewrite (zz_eqb_neq _ _ N0), !orb_false_r.
             rewrite zz_eqb_neq; [rewrite !orb_false_r; reflexivity|].
             intros E. pose proof (sp_he_some _ _ _ Ez) as (Hz & Ez1 & Ez2).
             assert (z = x0) by (apply hk_inj; auto). subst z. apply N. rewrite Eky, hk_eq. congruence.
      + intros k Hk. rewrite !zzget_zzset_other; [apply I2, Hk | | ].
        * intros E. apply (Hk x0 Hx0). congruence.
        * intros E. apply (Hk y Hy). congruence.
    - (* border half-edge: nothing is written *)
      rewrite I2.
      2:{ intros x Hx E. rewrite hk_eq in E. inversion E. eapply sp_he_none; eauto. }
      cbn. eexists. split; [reflexivity|]. split; [|exact I2].
      intros x Hx. rewrite (I1 x Hx). f_equal. f_equal. unfold oppP.
      destruct (sp_he faces (ct x) (cv x)) as [z|] eqn:Ez; [|reflexivity].
      pose proof (sp_he_some _ _ _ Ez) as (Hz & Ez1 & Ez2).
      rewrite !existsb_app. cbn [existsb]. rewrite !orb_false_r.
      rewrite (zz_eqb_neq (hk x) (hk x0)), (zz_eqb_neq (hk z) (hk x0)); [rewrite !orb_false_r; reflexivity| |].
      * intros E. assert (z = x0) by (apply hk_inj; auto). subst z.
        eapply (sp_he_none _ _ x Ey); eauto.
      * intros E. assert (x = x0) by (apply hk_inj; auto). subst x. congruence.
  Qed.

  Lemma opp_pass_spec :
    exists he, opp_pass he0 (rev (map hk (all_corners faces))) = Ok he
               /\ (forall x, In x (all_corners faces) ->
                      zzget (hk x) he = Some (R1 x (option_map cid (sp_he faces (ct x) (cv x)))))
               /\ (forall k, (forall x, In x (all_corners faces) -> hk x <> k) -> zzget k he = None).
  Proof.
    unfold opp_pass.
    destruct (foldM_inv opp_step oinv (rev (map hk (all_corners faces))) he0 oinv_init) as (he & E & I1 & I2).
    - intros pre k he (post & Ek) Hinv.
      assert (Hk : In k (rev (map hk (all_corners faces)))) by (rewrite Ek; apply in_or_app; right; left; reflexivity).
      apply in_rev in Hk. apply in_map_iff in Hk as (x0 & <- & Hx0). apply oinv_step; assumption.
    - exists he. split; [exact E|]. split; [|exact I2].
      intros x Hx. rewrite (I1 x Hx). f_equal. f_equal. unfold oppP.
      destruct (sp_he faces (ct x) (cv x)) as [y|]; [|reflexivity].
      replace (existsb (zz_eqb (hk x)) (rev (map hk (all_corners faces)))) with true; [reflexivity|].
      symmetry. apply existsb_exists. exists (hk x). split; [|apply zz_eqb_refl].
      apply -> in_rev. apply in_map, Hx.
  Qed.
End Tables.

(* ------------------------------------------------------------------ vertex -> vertices (linear.py) *)
Definition nbr_step (v : Z) (l : list Z) (e : Z * Z) : list Z :=
  let l1 := if fst e =? v then set_add (snd e) l else l in
  if snd e =? v then set_add (fst e) l1 else l1.
Definition nbrs (es : list (Z * Z)) (v : Z) : list Z := fold_left (nbr_step v) es [].

Definition edge_valid (nv : Z) (e : Z * Z) : Prop := fst e <> snd e /\ 0 <= fst e < nv /\ 0 <= snd e < nv.

Lemma compute_adjV2V_spec m :
  Forall (edge_valid (m_nv m)) (m_edges m) ->
  exists vv, compute_adjV2V m = Ok vv /\
             forall v, zget v vv = if (0 <=? v) && (v <? m_nv m) then Some (nbrs (m_edges m) v) else None.
Proof.
  intros Hv. unfold compute_adjV2V.
  apply (foldM_inv _ (fun pre vv => forall v, zget v vv = if (0 <=? v) && (v <? m_nv m) then Some (nbrs pre v) else None)).
  - intros v. rewrite init_vmap_get. reflexivity.
  - intros pre [A B] vv (post & E) I.
    assert (He : edge_valid (m_nv m) (A, B)).
    { rewrite Forall_forall in Hv. apply Hv. rewrite E. apply in_or_app. right. left. reflexivity. }
    destruct He as (N & RA & RB). cbn [fst snd] in *.
    unfold g_v2v_assert, g_v2v_adds. replace (A =? B) with false by lia. cbn [negb foldM fst snd].
    unfold vmap_add. rewrite (I A). replace ((0 <=? A) && (A <? m_nv m)) with true by lia. cbn [bind].
    rewrite zget_zset_other by congruence. rewrite (I B). replace ((0 <=? B) && (B <? m_nv m)) with true by lia.
    eexists. split; [reflexivity|]. intros v. unfold nbrs. rewrite fold_left_app. cbn [fold_left].
    fold (nbrs pre v). unfold nbr_step. cbn [fst snd]. rewrite !zget_zset.
    destruct (Z.eqb_spec v B) as [->|NB].
    + replace (A =? B) with false by lia. rewrite Z.eqb_refl.
      replace ((0 <=? B) && (B <? m_nv m)) with true by lia. reflexivity.
    + replace (B =? v) with false by lia. destruct (Z.eqb_spec v A) as [->|NA].
      * rewrite Z.eqb_refl. replace ((0 <=? A) && (A <? m_nv m)) with true by lia. reflexivity.
      * replace (A =? v) with false by lia. apply I.
Qed.

(* ------------------------------------------------------------------ assembly: the unsorted tables *)
Definition mesh_of (nv : Z) (faces : list (list Z)) (m : mesh) : Prop :=
  m_nv m = nv /\ m_faces m = faces /\ m_corners m = gen_corners faces /\ Forall (edge_valid nv) (m_edges m).

Definition in_range (nv v : Z) : bool := (0 <=? v) && (v <? nv).

Record tables_spec (nv : Z) (faces : list (list Z)) (edges : list (Z * Z)) (T : tables) : Prop := {
  ts_he : forall x, In x (all_corners faces) ->
          zzget (cv x, ct x) (t_he T) = Some (R1 x (option_map cid (sp_he faces (ct x) (cv x))));
  ts_he_none : forall k, (forall x, In x (all_corners faces) -> (cv x, ct x) <> k) -> zzget k (t_he T) = None;
  ts_c2h : forall c, zget c (t_Cn2he T) = sp_corner_to_half_edge faces c;
  ts_vf : forall v f, zzget (v, f) (t_adjVF2Cn T) = sp_vertex_to_corner_in_face faces v f;
  ts_f2c : forall f, zget f (t_adjF2Cn T) = sp_face_to_first_corner faces f;
  ts_v2c : forall v, zget v (t_adjV2Cn T) = if in_range nv v then Some (corners_at faces v) else None;
  ts_v2v : forall v, zget v (t_adjV2V T) = if in_range nv v then Some (nbrs edges v) else None
}.

Lemma compute_unsorted_spec nv faces m :
  wf_faces nv faces -> mesh_of nv faces m ->
  exists T, compute_connectivity m false = Ok T /\ tables_spec nv faces (m_edges m) T.
Proof.
  intros (Hf & Ho) (E1 & E2 & E3 & E4).
  unfold compute_connectivity.
  destruct (compute_adjV2V_spec m) as (vv & Evv & Hvv); [rewrite E1; exact E4|]. rewrite Evv. cbn [bind].
  unfold corner_pass. rewrite E3, E1.
  destruct (corner_pass_spec nv faces Hf) as ([[v2c vf2c] f2c] & Ecp & I1 & I2 & I3). rewrite Ecp. cbn [bind].
  unfold he_pass. rewrite E2. unfold enumerate.
  rewrite (he_pass_flat vf2c faces 0 0). fold (all_corners faces).
  rewrite (hstep_fold vf2c (all_corners faces)).
  2:{ intros x Hx. rewrite I2. apply (vf2c_lookups nv faces Hf x Hx). }
  cbn [bind]. rewrite app_nil_r.
  destruct (opp_pass_spec nv faces Hf Ho) as (he & Ehe & H1 & H2).
  unfold he0 in Ehe. rewrite Ehe. cbn [bind].
  eexists. split; [reflexivity|]. constructor; cbn [t_he t_Cn2he t_adjVF2Cn t_adjF2Cn t_adjV2Cn t_adjV2V].
  - intros x Hx. apply (H1 x Hx).
  - intros k Hk. apply H2. exact Hk.
  - intros c. unfold sp_corner_to_half_edge, sp_corner.
    destruct (find (fun x => cid x =? c) (all_corners faces)) as [x|] eqn:Ef.
    + apply find_some in Ef as [Hx Ec]. apply Z.eqb_eq in Ec. subst c.
      apply (zfill_unique (fun x => cn2he_key (cid x) (prev_id x) (next_id x)) (fun x => cn2he_val (cv x) (cp x) (ct x)));
        [exact Hx|]. intros y Hy Ey. apply (corner_same_id faces); auto.
    + rewrite zfill_absent; [apply zget_empty|]. intros x Hx Ex.
      pose proof (find_none _ _ Ef x Hx) as Hn. cbn in Hn. unfold cn2he_key in Ex. lia.
  - intros v f. rewrite I2. unfold sp_vertex_to_corner_in_face.
    destruct (find (fun x => (cv x =? v) && (cf x =? f)) (all_corners faces)) as [x|] eqn:Ef.
    + apply find_some in Ef as [Hx Ec]. apply andb_true_iff in Ec as [Ec1 Ec2]. apply Z.eqb_eq in Ec1, Ec2. subst v f.
      apply (vf2c_lookup nv faces Hf x Hx).
    + rewrite zzfill_absent; [apply zzget_empty|]. intros x Hx Ex. inversion Ex; subst.
      pose proof (find_none _ _ Ef x Hx) as Hn. cbn in Hn. rewrite !Z.eqb_refl in Hn. discriminate.
  - intros f. rewrite I3. unfold sp_face_to_first_corner. destruct (find _ _); reflexivity.
  - intros v. rewrite I1. unfold in_range, corners_at. reflexivity.
  - intros v. rewrite Hvv, E1. reflexivity.
Qed.

(* ------------------------------------------------------------------ sorting only permutes the two vertex rings *)
Definition same4 (T T' : tables) : Prop :=
  t_he T' = t_he T /\ t_Cn2he T' = t_Cn2he T /\ t_adjVF2Cn T' = t_adjVF2Cn T /\ t_adjF2Cn T' = t_adjF2Cn T.

Lemma sort_vertex_same4 T A T' : sort_vertex T A = Ok T' -> same4 T T'.
Proof.
  unfold sort_vertex. destruct (of_opt EKey (zget A (t_adjV2Cn T))) as [cs|]; cbn [bind]; [|discriminate].
  destruct cs as [|c0 cs]; [intros E; inversion E; repeat split|].
  destruct (walk T cw_steps [] cw_delta _ c0 0 _) as [[si1 b]|]; cbn [bind]; [|discriminate].
  destruct (if b then _ else _) as [si2|]; cbn [bind]; [|discriminate].
  destruct (of_opt EKey (zget A (t_adjV2V T))) as [adjA|]; cbn [bind]; [|discriminate].
  destruct (mapM _ adjA) as [keyed|]; cbn [bind]; [|discriminate].
  intros E. inversion E. repeat split.
Qed.

Lemma sort_all_same4 l T T' : foldM sort_vertex l T = Ok T' -> same4 T T'.
Proof.
  revert T. induction l as [|A t IH]; intros T; cbn [foldM].
  - intros E. inversion E. repeat split.
  - destruct (sort_vertex T A) as [T1|] eqn:E1; [|discriminate]. intros E.
    apply sort_vertex_same4 in E1 as (A1 & A2 & A3 & A4). apply IH in E as (B1 & B2 & B3 & B4).
    repeat split; congruence.
Qed.

(* whatever the configuration, a successful _compute_connectivity yields the four order-free tables of the spec *)
Definition tspec4 (nv : Z) (faces : list (list Z)) (T : tables) : Prop :=
  exists T0 edges, tables_spec nv faces edges T0 /\ same4 T0 T.

Lemma compute_spec4 nv faces m f T :
  wf_faces nv faces -> mesh_of nv faces m -> compute_connectivity m f = Ok T -> tspec4 nv faces T.
Proof.
  intros Hw Hm HT. destruct (compute_unsorted_spec nv faces m Hw Hm) as (T0 & E0 & S0).
  exists T0, (m_edges m). split; [exact S0|].
  destruct f; [|rewrite E0 in HT; inversion HT; repeat split].
  unfold compute_connectivity in *.
  destruct (compute_adjV2V m); cbn [bind] in *; [|discriminate].
  destruct (corner_pass m) as [[[v2c vf2c] f2c]|]; cbn [bind] in *; [|discriminate].
  destruct (he_pass m vf2c) as [[[he0' c2h] keys]|]; cbn [bind] in *; [|discriminate].
  destruct (opp_pass he0' keys); cbn [bind] in *; [|discriminate].
  inversion E0; subst T0. apply sort_all_same4 in HT. exact HT.
Qed.
