(* C01 - which kind of ring a vertex has is its border classification: the sorted corner ring of a vertex is an open fan
   (it starts at a corner whose incoming edge has no face on the other side) exactly when the border API calls the vertex
   a border vertex, and a closed ring exactly when it calls it interior. *)
From Coq Require Import ZArith List Bool Lia Sorting.Permutation.
Import ListNotations.
Require Import MV.C01.Defs MV.C01.Gen MV.C01.Model MV.C01.Spec MV.C01.Pure
        MV.C01.ProofsMaps MV.C01.ProofsCorners MV.C01.ProofsTables MV.C01.ProofsEdges
        MV.C01.ProofsSort MV.C01.ProofsRing MV.C01.ProofsBorder MV.C01.ProofsVerts.
Open Scope Z_scope.

Lemma last_index_some {A} (p : A -> bool) l : forall k x, In x l -> p x = true -> last_index p l k <> None.
Proof.
  induction l as [|y t IH]; intros k x Hin Hp; [destruct Hin|]. cbn [last_index].
  destruct (last_index p t (k + 1)) eqn:E; [discriminate|].
  destruct Hin as [->|Hin]; [rewrite Hp; discriminate|]. exfalso. eapply IH; eauto.
Qed.

Lemma pair_eqb'_refl a : pair_eqb' a a = true.
Proof. unfold pair_eqb'. rewrite !Z.eqb_refl. reflexivity. Qed.

Section Kind.
  Variable nv : Z.
  Variable faces : list (list Z).
  Variable edges : list (Z * Z).
  Hypothesis Hwf : wf_faces nv faces.
  Hypothesis Hex : edges_exact faces edges.
  Variable A : Z.
  Variable l : list Z.
  Hypothesis Hring : ring_spec faces A l.

  Lemma edge_row_has_id e : In e edges -> sp_edge_id edges (fst e) (snd e) <> None.
  Proof. intros He. unfold sp_edge_id. apply (last_index_some _ _ _ e He). apply pair_eqb'_refl. Qed.

  (* a row {A, w} of the edge container one of whose two directions has no face makes A a border vertex *)
  Lemma border_from_side w :
    (In (A, w) edges \/ In (w, A) edges) -> (sp_he faces A w = None \/ sp_he faces w A = None) ->
    sp_vertex_on_border faces edges A = true.
  Proof.
    intros Hin Hnone. unfold sp_vertex_on_border. apply existsb_exists.
    assert (Hbd : forall u v, In (u, v) edges -> (sp_he faces u v = None \/ sp_he faces v u = None) ->
                  sp_edge_on_border faces edges u v = true).
    { intros u v Hi Hn. unfold sp_edge_on_border. pose proof (edge_row_has_id _ Hi) as Hid. cbn [fst snd] in Hid.
      destruct (sp_edge_id edges u v); [|congruence]. destruct Hn as [E|E]; rewrite E; [reflexivity|].
      destruct (sp_he faces u v); reflexivity. }
    destruct Hin as [Hin|Hin].
    - exists (A, w). split; [exact Hin|]. cbn [fst snd]. rewrite Z.eqb_refl. cbn [orb andb]. apply Hbd; [exact Hin|exact Hnone].
    - exists (w, A). split; [exact Hin|]. cbn [fst snd]. rewrite Z.eqb_refl, orb_true_r. cbn [andb]. apply Hbd; [exact Hin|tauto].
  Qed.

  Lemma closed_all_ccw : ring_closed faces l -> forall c, In c l -> sp_ccw faces c <> None.
  Proof.
    intros Hcl c Hc. destruct Hring as (_ & _ & Hch & _).
    destruct (ring_corner faces A l Hring c Hc) as (xc & Hxc & Ec & _).
    apply in_split in Hc as (l1 & l2 & El). destruct l2 as [|d l2].
    - (* c is the last corner: the ring closes on the first one *)
      destruct l as [|a t] eqn:Ea; [destruct l1; discriminate|]. unfold ring_closed in Hcl.
      assert (Elast : last (a :: t) a = c) by (rewrite El; apply last_last).
      rewrite Elast in Hcl.
      destruct (ring_corner faces A (a :: t) Hring a (or_introl eq_refl)) as (xa & Hxa & Eca & _).
      rewrite <- Eca, <- Ec in Hcl. rewrite <- Ec, (L_inv nv faces Hwf xc xa Hxc Hxa Hcl). discriminate.
    - rewrite El in Hch. apply chain_cw_app in Hch as [_ Hch]. destruct Hch as [E _].
      assert (Hd : In d l) by (rewrite El; apply in_or_app; right; right; left; reflexivity).
      destruct (ring_corner faces A l Hring d Hd) as (xd & Hxd & Ed & _).
      rewrite <- Ed, <- Ec in E. rewrite <- Ec, (L_inv nv faces Hwf xc xd Hxc Hxd E). discriminate.
  Qed.

  Lemma open_not_closed a t : l = a :: t -> ring_open faces l -> ring_closed faces l -> False.
  Proof. intros -> [H1 _] H2. unfold ring_closed in H2. congruence. Qed.

  Theorem ring_open_iff_border :
    l <> [] -> (ring_open faces l <-> sp_vertex_on_border faces edges A = true).
  Proof.
    intros Hne. destruct l as [|a t] eqn:El; [congruence|]. rewrite <- El in *. split.
    - (* an open fan: the incoming edge of its first corner is a border edge at A *)
      intros Hop. assert (Ecw : sp_cw faces a = None) by (rewrite El in Hop; exact (proj1 Hop)).
      destruct (prefix_he nv faces Hwf A l Hring a t El Ecw) as (Hn & Hs).
      apply (border_from_side (sp_source_prev faces a)); [|left; exact Hn].
      apply Hex. right. exact Hs.
    - intros Hb. unfold sp_vertex_on_border in Hb. apply existsb_exists in Hb as ([u v] & He & Hb).
      cbn [fst snd] in Hb. apply andb_true_iff in Hb as [Hend Hbd].
      assert (Hside : sp_he faces u v = None \/ sp_he faces v u = None).
      { unfold sp_edge_on_border in Hbd. destruct (sp_edge_id edges u v); [|discriminate].
        destruct (sp_he faces u v); [|left; reflexivity]. destruct (sp_he faces v u); [discriminate|right; reflexivity]. }
      assert (Hsome : sp_he faces u v <> None \/ sp_he faces v u <> None) by (apply Hex; left; exact He).
      (* name the other end w: exactly one of A->w, w->A is a half-edge *)
      assert (Hw : exists w, (sp_he faces A w = None /\ sp_he faces w A <> None) \/ (sp_he faces w A = None /\ sp_he faces A w <> None)).
      { apply orb_true_iff in Hend as [E|E]; apply Z.eqb_eq in E; subst.
        - exists v. destruct Hside as [H|H]; [left|right]; split; auto; destruct Hsome; congruence.
        - exists u. destruct Hside as [H|H]; [right|left]; split; auto; destruct Hsome; congruence. }
      destruct Hw as (w & [(Hn & Hs)|(Hn & Hs)]).
      + destruct (incoming_only faces A l Hring w Hn Hs) as (a' & t' & El' & Ecw & _).
        destruct Hring as (_ & _ & _ & [Hcl|Hop]); [|exact Hop].
        exfalso. rewrite El' in Hcl. unfold ring_closed in Hcl. congruence.
      + destruct (sp_he faces A w) as [x|] eqn:Ex; [|congruence].
        apply (sp_he_some faces) in Ex as (Hx & Ev & Et).
        pose proof (corner_in_ring faces A l Hring x Hx Ev) as Hin.
        assert (Eccw : sp_ccw faces (cid x) = None) by (rewrite (L_ccw faces x Hx), Et, Ev, Hn; reflexivity).
        destruct Hring as (_ & _ & _ & [Hcl|Hop]); [|exact Hop].
        exfalso. exact (closed_all_ccw Hcl (cid x) Hin Eccw).
  Qed.

  Theorem ring_closed_iff_interior :
    l <> [] -> (ring_closed faces l <-> sp_vertex_on_border faces edges A = false).
  Proof.
    intros Hne. pose proof (ring_open_iff_border Hne) as Hiff.
    destruct l as [|a t] eqn:El; [congruence|]. rewrite <- El in *. split.
    - intros Hcl. destruct (sp_vertex_on_border faces edges A) eqn:E; [|reflexivity].
      exfalso. apply (open_not_closed a t El); [apply Hiff; reflexivity|exact Hcl].
    - intros E. destruct Hring as (_ & _ & _ & [Hcl|Hop]); [exact Hcl|]. apply Hiff in Hop. congruence.
  Qed.
End Kind.
