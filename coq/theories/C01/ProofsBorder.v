(* C01 - border / interior classification of edges and vertices; the border computations raise no exception *)
From Coq Require Import ZArith List Bool Lia Sorting.Permutation.
Import ListNotations.
Require Import MV.C01.Defs MV.C01.Gen MV.C01.Model MV.C01.Spec MV.C01.Pure
        MV.C01.ProofsMaps MV.C01.ProofsCorners MV.C01.ProofsTables MV.C01.ProofsAccess MV.C01.ProofsEdges.
Open Scope Z_scope.

Section Border.
  Variable nv : Z.
  Variable faces : list (list Z).
  Variable m : mesh.
  Variable f : bool.
  Variable T : tables.
  Hypothesis Hwf : wf_faces nv faces.
  Hypothesis Hm : mesh_of nv faces m.
  Hypothesis HT : compute_connectivity m f = Ok T.

  Let edges := m_edges m.
  Definition Bd (uv : Z * Z) : bool := sp_edge_on_border faces edges (fst uv) (snd uv).

  Lemma is_edge_on_border_correct u v : p_is_edge_on_border m f u v = Ok (sp_edge_on_border faces edges u v).
  Proof.
    unfold p_is_edge_on_border. rewrite edge_id_correct. cbn [bind]. unfold sp_edge_on_border. fold edges.
    destruct (sp_edge_id edges u v) as [e|]; [|reflexivity].
    rewrite !(direct_face_correct nv faces m f T Hwf Hm HT). cbn [bind]. unfold sp_direct_face.
    destruct (sp_he faces u v), (sp_he faces v u); reflexivity.
  Qed.

  Lemma ib_edges_loop_spec es : forall k inte bnd,
    p_ib_edges_loop m f (enum_from k es) inte bnd
    = Ok (inte ++ map fst (filter (fun ke => negb (Bd (snd ke))) (enum_from k es)),
          bnd ++ map fst (filter (fun ke => Bd (snd ke)) (enum_from k es))).
  Proof.
    induction es as [|[u v] t IH]; intros k inte bnd; cbn [enum_from p_ib_edges_loop].
    - cbn. rewrite !app_nil_r. reflexivity.
    - unfold g_ibe_call, g_ibe_test, g_ibe_then, g_ibe_else. cbn beta iota zeta delta [fst snd].
      rewrite is_edge_on_border_correct. cbn [bind].
      change (sp_edge_on_border faces edges u v) with (Bd (u, v)).
      cbn [filter snd]. destruct (Bd (u, v)); cbn [negb ib_push fst snd]; rewrite IH; cbn [map fst]; rewrite <- ?app_assoc; reflexivity.
  Qed.

  Definition bnd_ids : list Z := map fst (filter (fun ke => Bd (snd ke)) (enumerate edges)).
  Definition int_ids : list Z := map fst (filter (fun ke => negb (Bd (snd ke))) (enumerate edges)).

  Lemma IBE_eq : IBE m f = Ok (int_ids, bnd_ids).
  Proof. unfold IBE, enumerate. fold edges. rewrite ib_edges_loop_spec. reflexivity. Qed.

  Lemma boundary_edges_correct : p_boundary_edges m f = Ok bnd_ids.
  Proof.
    unfold p_boundary_edges, p_guard_edges, p_rd_elist, gret_boundary_edges. rewrite IBE_eq. destruct gattr_boundary_edges; reflexivity.
  Qed.
  Lemma interior_edges_correct : p_interior_edges m f = Ok int_ids.
  Proof.
    unfold p_interior_edges, p_guard_edges, p_rd_elist, gret_interior_edges. rewrite IBE_eq. destruct gattr_interior_edges; reflexivity.
  Qed.

  Lemma bnd_ids_In e : In e bnd_ids <-> exists uv, zth edges e = Some uv /\ Bd uv = true.
  Proof.
    unfold bnd_ids. rewrite in_map_iff. split.
    - intros ([e' uv] & <- & H). apply filter_In in H as [H1 H2]. apply enumerate_In in H1. eauto.
    - intros (uv & H1 & H2). exists (e, uv). split; [reflexivity|]. apply filter_In. split; [apply enumerate_In, H1|exact H2].
  Qed.
  Lemma int_ids_In e : In e int_ids <-> exists uv, zth edges e = Some uv /\ Bd uv = false.
  Proof.
    unfold int_ids. rewrite in_map_iff. split.
    - intros ([e' uv] & <- & H). apply filter_In in H as [H1 H2]. apply enumerate_In in H1. apply negb_true_iff in H2. eauto.
    - intros (uv & H1 & H2). exists (e, uv). split; [reflexivity|]. apply filter_In. split; [apply enumerate_In, H1|]. cbn. rewrite H2. reflexivity.
  Qed.

  Lemma filter_partition {A} (p : A -> bool) l : Permutation (filter p l ++ filter (fun x => negb (p x)) l) l.
  Proof.
    induction l as [|a t IH]; cbn; [constructor|]. destruct (p a); cbn.
    - apply perm_skip, IH.
    - eapply Permutation_trans; [apply Permutation_sym, Permutation_middle|]. apply perm_skip, IH.
  Qed.

  Lemma edge_partition : Permutation (bnd_ids ++ int_ids) (zrange (zlen edges)).
  Proof.
    unfold bnd_ids, int_ids. rewrite <- map_app.
    replace (zrange (zlen edges)) with (map fst (enumerate edges)).
    - apply Permutation_map, filter_partition.
    - unfold enumerate. rewrite map_fst_enum_from. apply map_zero_plus.
  Qed.

  (* ---------------------------------------------------------------- vertices *)
  Lemma edge_at_ok e : In e bnd_ids -> exists ab, p_edge_at m e = Ok ab /\ zth edges e = Some ab /\ Bd ab = true.
  Proof. intros H. apply bnd_ids_In in H as (uv & H1 & H2). exists uv. unfold p_edge_at. fold edges. rewrite H1. auto. Qed.

  Definition touches (es : list Z) (x : Z) : Prop :=
    exists e a b, In e es /\ zth edges e = Some (a, b) /\ (x = a \/ x = b).

  Lemma set_add_In x y l : In y (set_add x l) <-> y = x \/ In y l.
  Proof.
    unfold set_add. destruct (existsb (Z.eqb x) l) eqn:E.
    - split; [auto|]. intros [->|H]; [|exact H]. apply existsb_exists in E as (z & Hz & Ez). apply Z.eqb_eq in Ez. subst. exact Hz.
    - rewrite in_app_iff. cbn. intuition.
  Qed.
  Lemma set_add_NoDup x l : NoDup l -> NoDup (set_add x l).
  Proof.
    intros H. unfold set_add. destruct (existsb (Z.eqb x) l) eqn:E; [exact H|].
    apply NoDup_app_intro; [exact H|constructor; [intros []|constructor]|].
    intros y Hy [Ey|[]]. subst y.
    assert (existsb (Z.eqb x) l = true) by (apply existsb_exists; exists x; split; [exact Hy|apply Z.eqb_refl]).
    congruence.
  Qed.

  Lemma vb_get_set2 attr a b x :
    vb_get (zset b true (zset a true attr)) x = true <-> (x = a \/ x = b) \/ vb_get attr x = true.
  Proof.
    unfold vb_get. rewrite !zget_zset.
    destruct (Z.eqb_spec x b) as [Eb|Nb]; [tauto|]. destruct (Z.eqb_spec x a) as [Ea|Na]; [tauto|]. tauto.
  Qed.

  Lemma touches_cons e t a b x :
    zth edges e = Some (a, b) -> (touches (e :: t) x <-> (x = a \/ x = b) \/ touches t x).
  Proof.
    intros Ez. unfold touches. split.
    - intros (e' & a' & b' & [He'|He'] & Ez' & Hx).
      + subst e'. rewrite Ez in Ez'. inversion Ez'; subst. left. exact Hx.
      + right. exists e', a', b'. auto.
    - intros [Hx|(e' & a' & b' & He' & Ez' & Hx)].
      + exists e, a, b. cbn. auto.
      + exists e', a', b'. cbn. auto.
  Qed.

  Lemma touches_nil x : touches [] x <-> False.
  Proof. unfold touches. split; [intros (e & a & b & [] & _)|tauto]. Qed.

  Lemma ib_verts_loop_spec es : (forall e, In e es -> In e bnd_ids) -> forall attr bset,
    exists attr' bset', p_ib_verts_loop m es attr bset = Ok (attr', bset')
      /\ (forall x, vb_get attr' x = true <-> vb_get attr x = true \/ touches es x)
      /\ (forall x, In x bset' <-> In x bset \/ touches es x)
      /\ (NoDup bset -> NoDup bset').
  Proof.
    induction es as [|e t IH]; intros Hsub attr bset; cbn [p_ib_verts_loop].
    - exists attr, bset. split; [reflexivity|]. split; [|split; [|auto]]; intros x; rewrite touches_nil; tauto.
    - destruct (edge_at_ok e (Hsub e (or_introl eq_refl))) as ([a b] & E1 & E2 & _). rewrite E1. cbn [bind].
      unfold g_ibv_marks, g_ibv_adds. cbn [fold_left fst snd].
      destruct (IH (fun e' H => Hsub e' (or_intror H)) (zset b true (zset a true attr)) (set_add b (set_add a bset)))
        as (attr' & bset' & E & I1 & I2 & I3).
      exists attr', bset'. split; [exact E|]. split; [|split].
      + intros x. rewrite I1, vb_get_set2, (touches_cons e t a b x E2). tauto.
      + intros x. rewrite I2, !set_add_In, (touches_cons e t a b x E2). tauto.
      + intros Hn. apply I3. apply set_add_NoDup, set_add_NoDup, Hn.
  Qed.

  Lemma IBV_total : exists r, IBV m f = Ok r.
  Proof.
    unfold IBV. rewrite boundary_edges_correct. cbn [bind].
    destruct (ib_verts_loop_spec bnd_ids (fun e H => H) zempty []) as (attr' & bset' & E & _). rewrite E. cbn [bind]. eauto.
  Qed.

  (* the vertex classification: touched by a border edge or not *)
  Lemma vb_get_empty x : vb_get zempty x = false.
  Proof. unfold vb_get. rewrite zget_empty. reflexivity. Qed.

  Lemma IBV_spec :
    exists attr bv, IBV m f = Ok (attr, bv, filter (fun x => negb (vb_get attr x)) (zrange (m_nv m)))
      /\ (forall x, vb_get attr x = true <-> touches bnd_ids x)
      /\ (forall x, In x bv <-> touches bnd_ids x) /\ NoDup bv.
  Proof.
    unfold IBV. rewrite boundary_edges_correct. cbn [bind].
    destruct (ib_verts_loop_spec bnd_ids (fun e H => H) zempty []) as (attr' & bset' & E & I1 & I2 & I3). rewrite E. cbn [bind fst snd].
    exists attr', bset'. split; [unfold g_ibv_interior_val, g_ibv_interior_test; rewrite map_id; reflexivity|].
    split; [|split; [|apply I3; constructor]].
    - intros x. rewrite I1, vb_get_empty. split; [intros [H|H]; [discriminate|exact H]|auto].
    - intros x. rewrite I2. cbn. tauto.
  Qed.

  Lemma touches_spec x : touches bnd_ids x <-> sp_vertex_on_border faces edges x = true.
  Proof.
    unfold sp_vertex_on_border. rewrite existsb_exists. unfold touches. split.
    - intros (e & a & b & He & Ez & Hx). apply bnd_ids_In in He as (uv & Ez' & HB).
      rewrite Ez in Ez'. inversion Ez'; subst uv. exists (a, b). split; [eapply zth_In; eauto|].
      cbn [fst snd]. unfold Bd in HB. cbn [fst snd] in HB. rewrite HB, andb_true_r.
      destruct Hx as [->| ->]; rewrite Z.eqb_refl; auto using orb_true_r.
    - intros ([a b] & Hin & H). cbn [fst snd] in H. apply andb_true_iff in H as [H1 H2].
      apply In_nth_error in Hin as (k & Hk).
      exists (Z.of_nat k), a, b. split; [|split].
      + apply bnd_ids_In. exists (a, b). split; [|exact H2]. apply zth_Some. split; [lia|]. rewrite Nat2Z.id. exact Hk.
      + apply zth_Some. split; [lia|]. rewrite Nat2Z.id. exact Hk.
      + apply orb_true_iff in H1 as [H1|H1]; apply Z.eqb_eq in H1; auto.
  Qed.

  Lemma is_vertex_on_border_correct x : p_is_vertex_on_border m f x = Ok (sp_vertex_on_border faces edges x).
  Proof.
    destruct IBV_spec as (attr & bv & E & I1 & _). unfold p_is_vertex_on_border, p_guard_verts, g_is_vertex_on_border_key. rewrite E.
    assert (Eb : vb_get attr x = sp_vertex_on_border faces edges x).
    { destruct (vb_get attr x) eqn:E1, (sp_vertex_on_border faces edges x) eqn:E2; auto.
      - apply I1, touches_spec in E1. congruence.
      - apply touches_spec, I1 in E2. congruence. }
    destruct gattr_is_vertex_on_border; cbn; rewrite Eb; reflexivity.
  Qed.

  Lemma border_vertices_correct :
    exists bv iv, p_boundary_vertices m f = Ok bv /\ p_interior_vertices m f = Ok iv
      /\ NoDup bv /\ (forall x, In x bv <-> sp_vertex_on_border faces edges x = true)
      /\ iv = filter (fun x => negb (sp_vertex_on_border faces edges x)) (zrange (m_nv m)).
  Proof.
    destruct IBV_spec as (attr & bv & E & I1 & I2 & I3).
    exists bv, (filter (fun x => negb (vb_get attr x)) (zrange (m_nv m))).
    unfold p_boundary_vertices, p_interior_vertices, p_guard_verts, p_rd_vlist, gret_boundary_vertices, gret_interior_vertices. rewrite E.
    split; [destruct gattr_boundary_vertices; reflexivity|]. split; [destruct gattr_interior_vertices; reflexivity|].
    split; [exact I3|]. split; [intros x; rewrite I2; apply touches_spec|].
    apply filter_ext. intros x. f_equal.
    destruct (vb_get attr x) eqn:E1, (sp_vertex_on_border faces edges x) eqn:E2; auto.
    - apply I1, touches_spec in E1. congruence.
    - apply touches_spec, I1 in E2. congruence.
  Qed.
End Border.
