(* C01 - lemmas: basic facts (maps, keyify) *)
From Coq Require Import ZArith List Bool Lia.
Import ListNotations.
Require Import MV.C01.Defs MV.C01.Gen MV.C01.Model MV.C01.Spec.
Open Scope Z_scope.

Lemma keyify2_sym u v : keyify2 u v = keyify2 v u.
Proof.
  unfold keyify2. destruct (u <=? v) eqn:E1, (v <=? u) eqn:E2; try reflexivity.
  - assert (u = v) by lia. subst. reflexivity.
  - lia.
Qed.

Lemma edge_id_symmetric m f s u v :
  snd (query_step m f s (Q_edge_id u v)) = snd (query_step m f s (Q_edge_id v u)).
Proof.
  unfold query_step, run_query, fmapM, acc_edge_id, bindM.
  rewrite (keyify2_sym u v). reflexivity.
Qed.
