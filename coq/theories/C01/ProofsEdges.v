(* C01 - edges: the completion from faces yields valid edges; edge_id / face_id tables; unsorted neighbourhoods *)
From Coq Require Import ZArith List Bool Lia.
Import ListNotations.
Require Import MV.C01.Defs MV.C01.Gen MV.C01.Model MV.C01.Spec MV.C01.Pure
        MV.C01.ProofsMaps MV.C01.ProofsCorners MV.C01.ProofsTables.
Open Scope Z_scope.

Lemma keyify2_cases a b : keyify2 a b = (a, b) \/ keyify2 a b = (b, a).
Proof. unfold keyify2. destruct (a <=? b); auto. Qed.

(* every edge completed from the faces joins two consecutive vertices of some face *)
Definition side_of (faces : list (list Z)) (e : Z * Z) : Prop :=
  exists F i a b, In F faces /\ zth F i = Some a /\ zth F ((i + 1) mod zlen F) = Some b /\ 0 <= i < zlen F
                  /\ e = keyify2 a b.

Lemma gen_edges_sides faces : Forall (side_of faces) (gen_edges faces).
Proof.
  unfold gen_edges.
  assert (G : forall fs acc, (forall F, In F fs -> In F faces) -> Forall (side_of faces) acc ->
              Forall (side_of faces)
                (fold_left (fun acc F => let n := zlen F in
                   fold_left (fun acc i => match zth F i, zth F ((i + 1) mod n) with
                       | Some a, Some b => let e := keyify2 a b in if existsb (pair_eqb e) acc then acc else acc ++ [e]
                       | _, _ => acc end) (zrange n) acc) fs acc)).
  { induction fs as [|F t IH]; intros acc Hsub Hacc; cbn [fold_left]; [exact Hacc|].
    apply IH; [intros G HG; apply Hsub; right; exact HG|].
    assert (HF : In F faces) by (apply Hsub; left; reflexivity).
    assert (H : forall is acc0, (forall i, In i is -> 0 <= i < zlen F) -> Forall (side_of faces) acc0 ->
              Forall (side_of faces) (fold_left (fun acc i => match zth F i, zth F ((i + 1) mod zlen F) with
                       | Some a, Some b => let e := keyify2 a b in if existsb (pair_eqb e) acc then acc else acc ++ [e]
                       | _, _ => acc end) is acc0)).
    { induction is as [|i is IHi]; intros acc0 Hr H0; cbn [fold_left]; [exact H0|].
      apply IHi; [intros j Hj; apply Hr; right; exact Hj|].
      destruct (zth F i) as [a|] eqn:Ea; [|exact H0].
      destruct (zth F ((i + 1) mod zlen F)) as [b|] eqn:Eb; [|exact H0].
      cbn zeta. destruct (existsb _ acc0); [exact H0|].
      apply Forall_app. split; [exact H0|]. constructor; [|constructor].
      exists F, i, a, b. repeat split; auto; apply (Hr i); left; reflexivity. }
    apply H; [|exact Hacc]. intros i Hi. apply In_zrange in Hi. exact Hi. }
  apply G; [auto|constructor].
Qed.

Lemma side_valid nv faces e : Forall (face_ok nv) faces -> side_of faces e -> edge_valid nv e.
Proof.
  intros Hf (F & i & a & b & HF & Ha & Hb & Hi & ->).
  rewrite Forall_forall in Hf. destruct (Hf F HF) as (Hl & Hn & Hr). rewrite Forall_forall in Hr.
  assert (Nab : a <> b).
  { intros ->. apply zth_Some in Ha as [_ Ha]. apply zth_Some in Hb as [Hb0 Hb].
    pose proof (NoDup_nth_error_inj _ _ _ _ Hn Ha Hb) as E.
    assert (E' : i = (i + 1) mod zlen F) by lia.
    destruct (Z.eq_dec (i + 1) (zlen F)) as [E1|N1].
    - rewrite E1, Z_mod_same_full in E'. lia.
    - rewrite Z.mod_small in E' by lia. lia. }
  pose proof (Hr a (zth_In _ _ _ Ha)). pose proof (Hr b (zth_In _ _ _ Hb)).
  unfold edge_valid. destruct (keyify2_cases a b) as [-> | ->]; cbn; lia.
Qed.

Lemma build_mesh_of nv faces : wf_faces nv faces -> mesh_of nv faces (build_mesh nv faces).
Proof.
  intros (Hf & _). unfold mesh_of, build_mesh. cbn. repeat split.
  eapply Forall_impl; [|apply gen_edges_sides]. intros e He. eapply side_valid; eauto.
Qed.

(* ------------------------------------------------------------------ edge_id / face_id *)
Lemma edge_id_fold key l k0 m0 :
  zzget key (fold_left (fun acc iE => zzset (keyify2 (fst (snd iE)) (snd (snd iE))) (fst iE) acc) (enum_from k0 l) m0)
  = match last_index (fun e => pair_eqb' (keyify2 (fst e) (snd e)) key) l k0 with
    | Some r => Some r
    | None => zzget key m0
    end.
Proof.
  revert k0 m0. induction l as [|e t IH]; intros k0 m0; cbn [enum_from fold_left last_index]; [reflexivity|].
  rewrite IH. cbn [fst snd]. destruct (last_index _ t (k0 + 1)); [reflexivity|].
  rewrite zzget_zzset. unfold pair_eqb', zz_eqb.
  destruct (keyify2 (fst e) (snd e)) as [a b], key as [c d]. cbn [fst snd].
  rewrite (Z.eqb_sym c a), (Z.eqb_sym d b). destruct ((a =? c) && (b =? d)); reflexivity.
Qed.

Lemma edge_id_correct m f u v : p_edge_id m f u v = Ok (sp_edge_id (m_edges m) u v).
Proof.
  unfold p_edge_id, guard_edge_id, p_guard1. cbn [bind]. unfold EID, compute_edge_id, enumerate.
  rewrite edge_id_fold, zzget_empty. unfold sp_edge_id. destruct (last_index _ _ _); reflexivity.
Qed.

Lemma lz_eqb_sym a b : lz_eqb a b = lz_eqb b a.
Proof.
  revert b. induction a as [|x s IH]; intros [|y t]; cbn; try reflexivity. rewrite (Z.eqb_sym x y), IH. reflexivity.
Qed.

Lemma face_id_fold key l k0 m0 :
  lget key (fold_left (fun acc iF => lset (zsort (snd iF)) (fst iF) acc) (enum_from k0 l) m0)
  = match last_index (fun F => lz_eqb (zsort F) key) l k0 with
    | Some r => Some r
    | None => lget key m0
    end.
Proof.
  revert k0 m0. induction l as [|F t IH]; intros k0 m0; cbn [enum_from fold_left last_index]; [reflexivity|].
  rewrite IH. cbn [fst snd]. destruct (last_index _ t (k0 + 1)); [reflexivity|].
  unfold lset. cbn [lget]. rewrite lz_eqb_sym. destruct (lz_eqb (zsort F) key); reflexivity.
Qed.

Lemma face_id_correct m f vs : p_face_id m f vs = Ok (sp_face_id (m_faces m) vs).
Proof.
  unfold p_face_id, guard_face_id, p_guard1. cbn [bind]. unfold FID, compute_face_ids, enumerate.
  rewrite face_id_fold. cbn [lget]. unfold sp_face_id. destruct (last_index _ _ _); reflexivity.
Qed.
