(* C01 - executable model of PolyLine._Connectivity / SurfaceMesh._Connectivity and of the border API of
   SurfaceMesh (mouette/mesh/datatypes/{linear,surface}.py), plus the two mesh_data.py completions it relies on.
   Hand-written: the loop skeletons, the monadic plumbing and the cache state machine (tied by the correspondence
   batches; their statement structure is checked strictly by the translator).  GENERATED (Gen.v, every run): every lazy
   guard, the attributes assigned / cleared, dictionary keys and stored entries (g_*_key, g_*_entry, g_*_add), index
   formulas (he_idx_*, g_*_idx), argument orders of nested calls (g_*_call(s)), return expressions and branch tests
   (g_*_ret, g_*_test), the half-edge record layout and the slots read, the walk steps, the border predicate, what the
   border properties return (the gret_ constants).
   NO proofs in this file. *)
From Coq Require Import ZArith List Bool.
Import ListNotations.
Require Import MV.C01.Defs MV.C01.Gen.
Open Scope Z_scope.

(* ------------------------------------------------------------------ the mesh as the connectivity code sees it *)
Record mesh := mkMesh {
  m_nv : Z;                          (* len(mesh.vertices) *)
  m_faces : list (list Z);           (* mesh.faces *)
  m_edges : list (Z * Z);            (* mesh.edges *)
  m_corners : list (Z * Z)           (* mesh.face_corners : (element, adj) = (vertex, face) *)
}.

(* mesh_data.py:_generate_face_corners *)
Definition gen_corners (faces : list (list Z)) : list (Z * Z) :=
  flat_map (fun fF => map (fun v => (v, fst fF)) (snd fF)) (enumerate faces).

Definition pair_eqb (a b : Z * Z) : bool := (fst a =? fst b) && (snd a =? snd b).

(* mesh_data.py:_complete_edges_from_faces on an initially empty edge container *)
Definition gen_edges (faces : list (list Z)) : list (Z * Z) :=
  fold_left (fun acc F =>
    let n := zlen F in
    fold_left (fun acc i =>
      match zth F i, zth F ((i + 1) mod n) with
      | Some a, Some b => let e := keyify2 a b in if existsb (pair_eqb e) acc then acc else acc ++ [e]
      | _, _ => acc
      end) (zrange n) acc) faces [].

Definition build_mesh (nv : Z) (faces : list (list Z)) : mesh :=
  mkMesh nv faces (gen_edges faces) (gen_corners faces).

(* ------------------------------------------------------------------ tables of _compute_connectivity *)
Record tables := mkTables {
  t_adjV2V : zmap (list Z);
  t_adjV2Cn : zmap (list Z);
  t_adjVF2Cn : zzmap Z;
  t_adjF2Cn : zmap Z;
  t_he : zzmap herec;
  t_Cn2he : zmap (Z * Z)
}.

(* a Python set of ints turned into a list: insertion order, no duplicates (iteration order is not modelled:
   the correspondence compares such lists as sets) *)
Definition set_add (x : Z) (l : list Z) : list Z := if existsb (Z.eqb x) l then l else l ++ [x].

Definition init_vmap (nv : Z) : zmap (list Z) := fold_left (fun m v => zset v [] m) (zrange nv) zempty.

(* d[k].add(x)  : KeyError when k is absent *)
Definition vmap_add (k x : Z) (m : zmap (list Z)) : res (zmap (list Z)) :=
  match zget k m with Some l => Ok (zset k (set_add x l) m) | None => Err EKey end.

(* linear.py:_compute_connectivity *)
Definition compute_adjV2V (m : mesh) : res (zmap (list Z)) :=
  foldM (fun acc e =>
           let '(A, B) := e in
           if g_v2v_assert A B
           then foldM (fun acc kv => vmap_add (fst kv) (snd kv) acc) (g_v2v_adds A B) acc
           else Err EAssert)
        (m_edges m) (init_vmap (m_nv m)).

(* surface.py:_compute_connectivity, corner dictionaries *)
Definition corner_step (st : zmap (list Z) * zzmap Z * zmap Z) (cvf : Z * (Z * Z))
  : res (zmap (list Z) * zzmap Z * zmap Z) :=
  let '(v2c, vf2c, f2c) := st in
  let '(iC, (elem, adj)) := cvf in     (* v,f = face_corners.element(iC), face_corners.adj(iC) *)
  let a := g_v2c_add elem adj iC in
  let e := g_vf_entry elem adj iC in
  let k := g_f2c_entry elem adj iC in
  do v2c' <- vmap_add (fst a) (snd a) v2c;
  Ok (v2c', zzset (fst e) (snd e) vf2c,
      match zget (g_f2c_test elem adj iC) f2c with
      | Some _ => if g_f2c_store_when_absent then f2c else zset (fst k) (snd k) f2c
      | None => if g_f2c_store_when_absent then zset (fst k) (snd k) f2c else f2c
      end).

Definition corner_pass (m : mesh) : res (zmap (list Z) * zzmap Z * zmap Z) :=
  foldM corner_step (enumerate (m_corners m)) (init_vmap (m_nv m), zzempty, zempty).

(* r[k] : IndexError beyond the end *)
Definition rec_slot (r : herec) (k : nat) : res (option Z) := of_opt EIndex (nth_error r k).
(* r[k] = v *)
Definition set_slot (r : herec) (k : nat) (v : option Z) : res herec :=
  if (k <? length r)%nat then Ok (firstn k r ++ v :: skipn (S k) r) else Err EIndex.

(* surface.py:_compute_connectivity, half edges (first loop nest) *)
Definition he_step (vf2c : zzmap Z) (iF : Z) (F : list Z) (n : Z)
           (st : zzmap herec * zmap (Z * Z) * list (Z * Z)) (iV : Z)
  : res (zzmap herec * zmap (Z * Z) * list (Z * Z)) :=
  let '(he, c2h, keys) := st in
  do P <- of_opt EIndex (zth F iV);
  do Pprev <- of_opt EIndex (zth F (he_idx_prev iV n));
  do Pnext <- of_opt EIndex (zth F (he_idx_next iV n));
  do iC <- of_opt EKey (zzget (P, iF) vf2c);
  do iCprev <- of_opt EKey (zzget (Pprev, iF) vf2c);
  do iCnext <- of_opt EKey (zzget (Pnext, iF) vf2c);
  Ok (zzset (he_key P Pprev Pnext) (he_record iC iCprev iCnext iF iV n) he,
      zset (cn2he_key iC iCprev iCnext) (cn2he_val P Pprev Pnext) c2h,
      he_key P Pprev Pnext :: keys).

Definition he_pass (m : mesh) (vf2c : zzmap Z) : res (zzmap herec * zmap (Z * Z) * list (Z * Z)) :=
  foldM (fun st fF => let '(iF, F) := fF in foldM (he_step vf2c iF F (zlen F)) (zrange (zlen F)) st)
        (enumerate (m_faces m)) (zzempty, zempty, []).

(* d.get(k, [None])[slot] *)
Definition he_get_default (he : zzmap herec) (slot : nat) (k : Z * Z) : res (option Z) :=
  match zzget k he with Some r => rec_slot r slot | None => rec_slot [None] slot end.

(* surface.py:_compute_connectivity, second loop (opposites); the dict's keys are the keys inserted above *)
Definition opp_step (he : zzmap herec) (k : Z * Z) : res (zzmap herec) :=
  let '(A, B) := k in
  do c1 <- he_get_default he opp_read_slot (A, B);
  do c2 <- he_get_default he opp_read_slot (B, A);
  match c1, c2 with
  | Some iC1, Some iC2 =>
      do r1 <- of_opt EKey (zzget (A, B) he);
      do r1' <- set_slot r1 opp_write_slot (Some iC2);
      let he1 := zzset (A, B) r1' he in
      do r2 <- of_opt EKey (zzget (B, A) he1);
      do r2' <- set_slot r2 opp_write_slot (Some iC1);
      Ok (zzset (B, A) r2' he1)
  | _, _ => Ok he
  end.

Definition opp_pass (he : zzmap herec) (keys : list (Z * Z)) : res (zzmap herec) := foldM opp_step keys he.

(* ---- the corner accessors on given tables (bodies of previous/next/opposite_corner after the guard) *)
Definition corner_field (c2h : zmap (Z * Z)) (he : zzmap herec) (slot : nat) (C : Z) : res (option Z) :=
  match zget C c2h with
  | None => Ok None
  | Some key => do r <- of_opt EKey (zzget key he); rec_slot r slot
  end.

Definition step_slot (w : wstep) : nat :=
  match w with W_prev => slot_previous_corner | W_next => slot_next_corner | W_opp => slot_opposite_corner end.

(* accessor applied to a possibly-None corner: dict.get(None) is None, so None propagates *)
Definition apply_step (T : tables) (w : wstep) (c : option Z) : res (option Z) :=
  match c with None => Ok None | Some c => corner_field (t_Cn2he T) (t_he T) (step_slot w) c end.

Fixpoint apply_steps (T : tables) (ws : list wstep) (c : option Z) : res (option Z) :=
  match ws with [] => Ok c | w :: t => do c' <- apply_step T w c; apply_steps T t c' end.

(* one of the two loops of _sort_vertex_neighborhoods:
     for _ in range(fuel): sort_index[Cn] = ind; ind += delta; Cn = <before>(Cn); if Cn is None: break; Cn = <after>(Cn)
   returns the index map and whether the loop was left through the None test *)
Fixpoint walk (T : tables) (before after : list wstep) (delta : Z) (fuel : nat) (Cn ind : Z) (si : zmap Z)
  : res (zmap Z * bool) :=
  match fuel with
  | O => Ok (si, false)
  | S k =>
      let si' := zset Cn ind si in
      do c1 <- apply_steps T before (Some Cn);
      match c1 with
      | None => Ok (si', true)
      | Some _ =>
          do c2 <- apply_steps T after c1;
          match c2 with
          | None => Err EFuel   (* a None corner would be used as a dict key: outside what the model covers *)
          | Some c' => walk T before after delta k c' (ind + delta) si'
          end
      end
  end.

(* stable sort by key (list.sort(key=...)) *)
Fixpoint insert_by {A} (leb : A -> A -> bool) (x : A) (l : list A) : list A :=
  match l with [] => [x] | y :: t => if leb x y then x :: l else y :: insert_by leb x t end.
Definition sort_by {A} (leb : A -> A -> bool) (l : list A) : list A := fold_right (insert_by leb) [] l.

(* keys of the vertex sort: None stands for -inf *)
Definition okey_leb (a b : option Z) : bool :=
  match a, b with None, _ => true | Some _, None => false | Some x, Some y => x <=? y end.

Definition sort_vertex (T : tables) (A : Z) : res tables :=
  do corners_A <- of_opt EKey (zget A (t_adjV2Cn T));
  match corners_A with
  | [] => Ok T
  | c0 :: _ =>
      let si0 := fold_left (fun m c => zset c 0 m) corners_A zempty in
      let n := length corners_A in
      do r1 <- walk T cw_steps [] cw_delta n c0 0 si0;
      let '(si1, is_boundary) := r1 in
      do si2 <- (if is_boundary
                 then do r2 <- walk T ccw_steps_before_test ccw_steps_after_test ccw_delta n c0 0 si1; Ok (fst r2)
                 else Ok si1);
      let ckey c := match zget c si2 with Some k => k | None => 0 end in   (* every corner of A was given index 0 first *)
      let sorted := sort_by (fun a b => ckey a <=? ckey b) corners_A in
      do adjA <- of_opt EKey (zget A (t_adjV2V T));
      do keyed <- mapM (fun v => do c <- he_get_default (t_he T) slot_half_edge_to_corner (key_half_edge_to_corner (fst (key_vertex_sort A v)) (snd (key_vertex_sort A v)));
                                 Ok (v, match c with Some c => zget c si2 | None => None end)) adjA;
      let sortedV := map fst (sort_by (fun a b => okey_leb (snd a) (snd b)) keyed) in
      Ok (mkTables (zset A sortedV (t_adjV2V T)) (zset A sorted (t_adjV2Cn T))
                   (t_adjVF2Cn T) (t_adjF2Cn T) (t_he T) (t_Cn2he T))
  end.

Definition compute_connectivity (m : mesh) (sortflag : bool) : res tables :=
  do vv <- compute_adjV2V m;
  do cp <- corner_pass m;
  let '(v2c, vf2c, f2c) := cp in
  do hp <- he_pass m vf2c;
  let '(he0, c2h, keys) := hp in
  do he <- opp_pass he0 keys;
  let T := mkTables vv v2c vf2c f2c he c2h in
  if sortflag then foldM sort_vertex (zrange (m_nv m)) T else Ok T.

(* linear.py:_compute_edge_id / surface.py:_compute_face_ids *)
Definition compute_edge_id (m : mesh) : zzmap Z :=
  fold_left (fun acc iE => let e := g_edge_id_entry (fst iE) (snd iE) in zzset (fst e) (snd e) acc)
            (enumerate (m_edges m)) zzempty.
Definition compute_face_ids (m : mesh) : lmap Z :=
  fold_left (fun acc iF => let e := g_face_id_entry (fst iF) (snd iF) in lset (fst e) (snd e) acc)
            (enumerate (m_faces m)) [].

(* ------------------------------------------------------------------ the lazy caches *)
Record cache := mkCache {
  c_adjV2V : option (zmap (list Z));
  c_edge_id : option (zzmap Z);
  c_he : option (zzmap herec);
  c_Cn2he : option (zmap (Z * Z));
  c_adjVF2Cn : option (zzmap Z);
  c_adjV2Cn : option (zmap (list Z));
  c_adjF2Cn : option (zmap Z);
  c_face_id : option (lmap Z);
  c_bnd_edges : option (list Z);
  c_int_edges : option (list Z);
  c_vborder : option (zmap bool);
  c_bnd_verts : option (list Z);
  c_int_verts : option (list Z)
}.

Definition empty_cache : cache :=
  mkCache None None None None None None None None None None None None None.

Definition isnone {A} (o : option A) : bool := onone o.

Definition attr_is_none (a : attr) (s : cache) : bool :=
  match a with
  | A_adjV2V => isnone (c_adjV2V s) | A_edge_id => isnone (c_edge_id s)
  | A_half_edges => isnone (c_he s) | A_Cn2he => isnone (c_Cn2he s)
  | A_adjVF2Cn => isnone (c_adjVF2Cn s) | A_adjV2Cn => isnone (c_adjV2Cn s)
  | A_adjF2Cn => isnone (c_adjF2Cn s) | A_face_id => isnone (c_face_id s)
  | A_boundary_edges => isnone (c_bnd_edges s) | A_interior_edges => isnone (c_int_edges s)
  | A_is_vertex_on_border => isnone (c_vborder s)
  | A_boundary_vertices => isnone (c_bnd_verts s) | A_interior_vertices => isnone (c_int_verts s)
  end.

(* self.<a> = <value of a in b> *)
Definition copy_attr (b : cache) (s : cache) (a : attr) : cache :=
  match a with
  | A_adjV2V => mkCache (c_adjV2V b) (c_edge_id s) (c_he s) (c_Cn2he s) (c_adjVF2Cn s) (c_adjV2Cn s) (c_adjF2Cn s) (c_face_id s) (c_bnd_edges s) (c_int_edges s) (c_vborder s) (c_bnd_verts s) (c_int_verts s)
  | A_edge_id => mkCache (c_adjV2V s) (c_edge_id b) (c_he s) (c_Cn2he s) (c_adjVF2Cn s) (c_adjV2Cn s) (c_adjF2Cn s) (c_face_id s) (c_bnd_edges s) (c_int_edges s) (c_vborder s) (c_bnd_verts s) (c_int_verts s)
  | A_half_edges => mkCache (c_adjV2V s) (c_edge_id s) (c_he b) (c_Cn2he s) (c_adjVF2Cn s) (c_adjV2Cn s) (c_adjF2Cn s) (c_face_id s) (c_bnd_edges s) (c_int_edges s) (c_vborder s) (c_bnd_verts s) (c_int_verts s)
  | A_Cn2he => mkCache (c_adjV2V s) (c_edge_id s) (c_he s) (c_Cn2he b) (c_adjVF2Cn s) (c_adjV2Cn s) (c_adjF2Cn s) (c_face_id s) (c_bnd_edges s) (c_int_edges s) (c_vborder s) (c_bnd_verts s) (c_int_verts s)
  | A_adjVF2Cn => mkCache (c_adjV2V s) (c_edge_id s) (c_he s) (c_Cn2he s) (c_adjVF2Cn b) (c_adjV2Cn s) (c_adjF2Cn s) (c_face_id s) (c_bnd_edges s) (c_int_edges s) (c_vborder s) (c_bnd_verts s) (c_int_verts s)
  | A_adjV2Cn => mkCache (c_adjV2V s) (c_edge_id s) (c_he s) (c_Cn2he s) (c_adjVF2Cn s) (c_adjV2Cn b) (c_adjF2Cn s) (c_face_id s) (c_bnd_edges s) (c_int_edges s) (c_vborder s) (c_bnd_verts s) (c_int_verts s)
  | A_adjF2Cn => mkCache (c_adjV2V s) (c_edge_id s) (c_he s) (c_Cn2he s) (c_adjVF2Cn s) (c_adjV2Cn s) (c_adjF2Cn b) (c_face_id s) (c_bnd_edges s) (c_int_edges s) (c_vborder s) (c_bnd_verts s) (c_int_verts s)
  | A_face_id => mkCache (c_adjV2V s) (c_edge_id s) (c_he s) (c_Cn2he s) (c_adjVF2Cn s) (c_adjV2Cn s) (c_adjF2Cn s) (c_face_id b) (c_bnd_edges s) (c_int_edges s) (c_vborder s) (c_bnd_verts s) (c_int_verts s)
  | A_boundary_edges => mkCache (c_adjV2V s) (c_edge_id s) (c_he s) (c_Cn2he s) (c_adjVF2Cn s) (c_adjV2Cn s) (c_adjF2Cn s) (c_face_id s) (c_bnd_edges b) (c_int_edges s) (c_vborder s) (c_bnd_verts s) (c_int_verts s)
  | A_interior_edges => mkCache (c_adjV2V s) (c_edge_id s) (c_he s) (c_Cn2he s) (c_adjVF2Cn s) (c_adjV2Cn s) (c_adjF2Cn s) (c_face_id s) (c_bnd_edges s) (c_int_edges b) (c_vborder s) (c_bnd_verts s) (c_int_verts s)
  | A_is_vertex_on_border => mkCache (c_adjV2V s) (c_edge_id s) (c_he s) (c_Cn2he s) (c_adjVF2Cn s) (c_adjV2Cn s) (c_adjF2Cn s) (c_face_id s) (c_bnd_edges s) (c_int_edges s) (c_vborder b) (c_bnd_verts s) (c_int_verts s)
  | A_boundary_vertices => mkCache (c_adjV2V s) (c_edge_id s) (c_he s) (c_Cn2he s) (c_adjVF2Cn s) (c_adjV2Cn s) (c_adjF2Cn s) (c_face_id s) (c_bnd_edges s) (c_int_edges s) (c_vborder s) (c_bnd_verts b) (c_int_verts s)
  | A_interior_vertices => mkCache (c_adjV2V s) (c_edge_id s) (c_he s) (c_Cn2he s) (c_adjVF2Cn s) (c_adjV2Cn s) (c_adjF2Cn s) (c_face_id s) (c_bnd_edges s) (c_int_edges s) (c_vborder s) (c_bnd_verts s) (c_int_verts b)
  end.

Definition copy_attrs (b : cache) (l : list attr) (s : cache) : cache := fold_left (copy_attr b) l s.

Definition cache_of_tables (T : tables) : cache :=
  mkCache (Some (t_adjV2V T)) None (Some (t_he T)) (Some (t_Cn2he T)) (Some (t_adjVF2Cn T)) (Some (t_adjV2Cn T))
          (Some (t_adjF2Cn T)) None None None None None None.

(* ------------------------------------------------------------------ state + exception monad of the accessors *)
Definition M (X : Type) := cache -> cache * res X.
Definition ret {X} (x : X) : M X := fun s => (s, Ok x).
Definition raise {X} (e : err) : M X := fun s => (s, Err e).
Definition bindM {X Y} (a : M X) (f : X -> M Y) : M Y :=
  fun s => let '(s1, r) := a s in match r with Ok x => f x s1 | Err e => (s1, Err e) end.
Notation "'doM' x <- a ;; k" := (bindM a (fun x => k)) (at level 200, x name, a at level 100, k at level 200, right associativity).
Definition lift {X} (r : res X) : M X := fun s => (s, r).
(* reading a lazily initialised attribute and using it: AttributeError/TypeError while it is None *)
Definition rd {V} (f : cache -> option V) : M V := fun s => (s, of_opt EAttr (f s)).

Fixpoint mapMM {A B} (f : A -> M B) (l : list A) : M (list B) :=
  match l with
  | [] => ret []
  | x :: t => doM y <- f x ;; doM ys <- mapMM f t ;; ret (y :: ys)
  end.

Section Accessors.
  Variable m : mesh.
  Variable sortflag : bool.   (* config.sort_neighborhoods *)

  Definition run_comp1 (k : comp1) (s : cache) : res cache :=
    match k with
    | K_connectivity =>
        do T <- compute_connectivity m sortflag; Ok (copy_attrs (cache_of_tables T) sets_connectivity s)
    | K_edge_id =>
        Ok (copy_attrs (mkCache None (Some (compute_edge_id m)) None None None None None None None None None None None)
                       sets_edge_id s)
    | K_face_ids =>
        Ok (copy_attrs (mkCache None None None None None None None (Some (compute_face_ids m)) None None None None None)
                       sets_face_ids s)
    end.

  (* `if self._X is None: self._compute_Y()`; an exception inside the computation leaves the caches as they were
     (the partially assigned state is not modelled; it cannot arise on well-formed meshes) *)
  Definition guard1 (g : option (attr * comp1)) : M unit :=
    fun s => match g with
             | Some (a, k) =>
                 if attr_is_none a s
                 then match run_comp1 k s with Ok s' => (s', Ok tt) | Err e => (s, Err e) end
                 else (s, Ok tt)
             | None => (s, Ok tt)
             end.

  (* ---------------- PolyLine._Connectivity *)
  Definition acc_edge_id (u v : Z) : M (option Z) :=
    doM _ <- guard1 guard_edge_id ;; doM t <- rd c_edge_id ;; ret (zzget (g_edge_id_key u v) t).

  Definition edge_at (E : Z) : M (Z * Z) := lift (of_opt EIndex (zth (m_edges m) E)).

  Definition acc_other_edge_end (E V : Z) : M (option Z) :=
    doM _ <- guard1 guard_other_edge_end ;; doM ab <- edge_at E ;;
    let '(A, B) := ab in
    ret (g_other_edge_end V A B).

  Definition acc_vertex_to_vertices (V : Z) : M (list Z) :=
    doM _ <- guard1 guard_vertex_to_vertices ;; doM t <- rd c_adjV2V ;; lift (of_opt EKey (zget V t)).

  Definition acc_vertex_to_edges (V : Z) : M (list (option Z)) :=
    doM _ <- guard1 guard_vertex_to_edges ;; doM l <- acc_vertex_to_vertices V ;; mapMM (fun u => let c := g_vertex_to_edges_call V u in acc_edge_id (fst c) (snd c)) l.

  Definition acc_edge_to_vertices (E : Z) : M (Z * Z) := doM _ <- guard1 guard_edge_to_vertices ;; edge_at E.

  (* ---------------- SurfaceMesh._Connectivity *)
  Definition acc_face_id (vs : list Z) : M (option Z) :=
    doM _ <- guard1 guard_face_id ;; doM t <- rd c_face_id ;; ret (lget (g_face_id_key vs) t).

  Definition acc_vertex_to_corners (V : Z) : M (option (list Z)) :=
    doM _ <- guard1 guard_vertex_to_corners ;; doM t <- rd c_adjV2Cn ;; ret (zget (g_vertex_to_corners_key V) t).

  Definition acc_corner_to_face (C : Z) : M Z :=
    doM _ <- guard1 guard_corner_to_face ;; doM vf <- lift (of_opt EIndex (zth (m_corners m) C)) ;; ret (snd vf).

  Definition acc_vertex_to_faces (V : Z) : M (list Z) :=
    doM _ <- guard1 guard_vertex_to_faces ;; doM cs <- acc_vertex_to_corners V ;;
    match cs with None => raise EType | Some l => mapMM acc_corner_to_face l end.

  Definition acc_vertex_to_corner_in_face (V F : Z) : M (option Z) :=
    doM _ <- guard1 guard_vertex_to_corner_in_face ;; doM t <- rd c_adjVF2Cn ;; ret (zzget (g_vcif_key V F) t).

  Definition acc_corner_field (g : option (attr * comp1)) (slot : nat) (C : Z) : M (option Z) :=
    doM _ <- guard1 g ;; doM c2h <- rd c_Cn2he ;;
    match zget C c2h with
    | None => ret None
    | Some key => doM he <- rd c_he ;; doM r <- lift (of_opt EKey (zzget key he)) ;; lift (rec_slot r slot)
    end.
  Definition acc_previous_corner := acc_corner_field guard_previous_corner slot_previous_corner.
  Definition acc_next_corner := acc_corner_field guard_next_corner slot_next_corner.
  Definition acc_opposite_corner := acc_corner_field guard_opposite_corner slot_opposite_corner.

  Definition acc_corner_to_half_edge (C : Z) : M (option (Z * Z)) :=
    doM _ <- guard1 guard_corner_to_half_edge ;; doM t <- rd c_Cn2he ;; ret (zget (g_c2he_key C) t).

  Definition acc_half_edge_to_corner (u v : Z) : M (option Z) :=
    doM _ <- guard1 guard_half_edge_to_corner ;; doM he <- rd c_he ;; lift (he_get_default he slot_half_edge_to_corner (key_half_edge_to_corner u v)).

  (* direct_face(u,v) and direct_face(u,v,True) *)
  Definition acc_direct_face (u v : Z) : M (option Z) :=
    doM _ <- guard1 guard_direct_face ;; doM he <- rd c_he ;;
    match zzget (key_direct_face u v) he with Some r => lift (rec_slot r slot_direct_face) | None => ret None end.
  Definition acc_direct_face_inds (u v : Z) : M (list (option Z)) :=
    doM _ <- guard1 guard_direct_face ;; doM he <- rd c_he ;;
    match zzget (key_direct_face u v) he with Some r => ret (skipn slot_direct_face_from r) | None => ret [None; None; None] end.

  Definition acc_edge_to_faces (u v : Z) : M (list (option Z)) :=
    doM _ <- guard1 guard_edge_to_faces ;;
    let '(c1, c2) := g_edge_to_faces_calls u v in
    doM a <- acc_direct_face (fst c1) (snd c1) ;; doM b <- acc_direct_face (fst c2) (snd c2) ;; ret [a; b].

  Definition acc_opposite_face (u v F : Z) : M (option Z) :=
    doM _ <- guard1 guard_opposite_face ;;
    let '(c1, c2) := g_opposite_face_calls u v in
    doM F1 <- acc_direct_face (fst c1) (snd c1) ;; doM F2 <- acc_direct_face (fst c2) (snd c2) ;;
    ret (g_opposite_face_ret F F1 F2).

  Definition unpack3 (l : list (option Z)) : M (option Z * option Z * option Z) :=
    match l with [a; b; c] => ret (a, b, c) | _ => raise EType end.

  Definition acc_opposite_face_inds (u v F : Z) : M (list (option Z)) :=
    doM _ <- guard1 guard_opposite_face ;;
    let '(c1, c2) := g_opposite_face_inds_calls u v in
    doM t1 <- acc_direct_face_inds (fst c1) (snd c1) ;; doM x1 <- unpack3 t1 ;;
    doM t2 <- acc_direct_face_inds (fst c2) (snd c2) ;; doM x2 <- unpack3 t2 ;;
    let '(a0, a1, a2) := x1 in
    let '(b0, b1, b2) := x2 in
    ret (g_opposite_face_inds_ret F a0 a1 a2 b0 b1 b2).

  Definition face_at (F : Z) : M (list Z) := lift (of_opt EIndex (zth (m_faces m) F)).

  Fixpoint common_edge_loop (F1 : list Z) (n iF1 iF2 : Z) (is : list Z) : M (list (option Z)) :=
    match is with
    | [] => ret g_common_edge_default
    | i :: t =>
        doM A <- lift (of_opt EIndex (zth F1 (fst (g_common_edge_idx i n)))) ;;
        doM B <- lift (of_opt EIndex (zth F1 (snd (g_common_edge_idx i n)))) ;;
        doM o <- (let c := g_common_edge_call A B iF1 iF2 in acc_opposite_face (fst (fst c)) (snd (fst c)) (snd c)) ;;
        if g_common_edge_test o A B iF1 iF2 then ret (g_common_edge_ret A B iF1 iF2)
        else common_edge_loop F1 n iF1 iF2 t
    end.
  Definition acc_common_edge (iF1 iF2 : Z) : M (list (option Z)) :=
    doM _ <- guard1 guard_common_edge ;; doM F1 <- face_at iF1 ;; common_edge_loop F1 (zlen F1) iF1 iF2 (zrange (zlen F1)).

  Definition acc_face_to_vertices (F : Z) : M (list Z) := doM _ <- guard1 guard_face_to_vertices ;; face_at F.

  (* for (i,x) in enumerate(faces[F]): if <test>: return <ret> ; return <default> *)
  Fixpoint in_face_index_loop (F V : Z) (l : list Z) (i : Z) : option Z :=
    match l with
    | [] => g_in_face_index_default
    | x :: t => if g_in_face_index_test i x F V then g_in_face_index_ret i x F V else in_face_index_loop F V t (i + 1)
    end.
  Definition acc_in_face_index (F V : Z) : M (option Z) :=
    doM _ <- guard1 guard_in_face_index ;; doM lF <- face_at F ;; ret (in_face_index_loop F V lF 0).

  Definition acc_face_to_edges (F : Z) : M (list (option Z)) :=
    doM _ <- guard1 guard_face_to_edges ;; doM lF <- face_at F ;;
    let n := zlen lF in
    mapMM (fun i => doM a <- lift (of_opt EIndex (zth lF (fst (g_face_to_edges_idx i n)))) ;;
                    doM b <- lift (of_opt EIndex (zth lF (snd (g_face_to_edges_idx i n)))) ;;
                    acc_edge_id a b) (zrange n).

  Definition acc_face_to_first_corner (F : Z) : M Z :=
    doM _ <- guard1 guard_face_to_first_corner ;; doM t <- rd c_adjF2Cn ;;
    doM c0 <- lift (of_opt EKey (zget (g_ftfc_key F) t)) ;; ret (g_ftfc_ret F c0).

  Definition acc_face_to_corners (F : Z) : M (list Z) :=
    doM _ <- guard1 guard_face_to_corners ;; doM lF <- face_at F ;;
    mapMM (fun i => doM t <- rd c_adjF2Cn ;; doM c <- lift (of_opt EKey (zget (g_ftc_key F i) t)) ;; ret (g_ftc_elem F c i))
          (zrange (zlen lF)).

  Definition acc_face_to_faces (F : Z) : M (list Z) :=
    doM _ <- guard1 guard_face_to_faces ;; doM cs <- acc_face_to_corners F ;;
    doM ops <- mapMM acc_opposite_corner cs ;;
    mapMM acc_corner_to_face (flat_map (fun o => match o with Some c => [c] | None => [] end) ops).

  (* ---------------- SurfaceMesh border API *)
  Definition acc_is_edge_on_border (u v : Z) : M bool :=
    doM e <- acc_edge_id u v ;;
    match e with
    | None => ret (edge_on_border_expr None None None)
    | Some _ => doM a <- acc_direct_face u v ;; doM b <- acc_direct_face v u ;; ret (edge_on_border_expr e a b)
    end.

  (* _compute_interior_boundary_edges *)
  (* <list attribute>.append(x) on the pair (interior, boundary) being built *)
  Definition ib_push (ax : attr * Z) (ib : list Z * list Z) : list Z * list Z :=
    match fst ax with
    | A_boundary_edges => (fst ib, snd ib ++ [snd ax])
    | A_interior_edges => (fst ib ++ [snd ax], snd ib)
    | _ => ib
    end.
  Fixpoint ib_edges_loop (es : list (Z * (Z * Z))) (inte bnd : list Z) : M (list Z * list Z) :=
    match es with
    | [] => ret (inte, bnd)
    | (e, (u, v)) :: t =>
        doM b <- (let c := g_ibe_call e u v in acc_is_edge_on_border (fst c) (snd c)) ;;
        let ib := ib_push (if g_ibe_test b e u v then g_ibe_then e u v else g_ibe_else e u v) (inte, bnd) in
        ib_edges_loop t (fst ib) (snd ib)
    end.
  Definition compute_ib_edges : M unit :=
    doM ib <- ib_edges_loop (enumerate (m_edges m)) [] [] ;;
    fun s => (copy_attrs (mkCache None None None None None None None None (Some (snd ib)) (Some (fst ib)) None None None)
                         sets_ib_edges s, Ok tt).

  Definition guard_edges (g : option attr) : M unit :=
    fun s => match g with
             | Some a => if attr_is_none a s then compute_ib_edges s else (s, Ok tt)
             | None => (s, Ok tt)
             end.
  (* return self.<list attribute> *)
  Definition rd_list (a : attr) : M (list Z) :=
    match a with
    | A_boundary_edges => rd c_bnd_edges
    | A_interior_edges => rd c_int_edges
    | A_boundary_vertices => rd c_bnd_verts
    | A_interior_vertices => rd c_int_verts
    | _ => raise EType
    end.
  Definition acc_boundary_edges : M (list Z) := doM _ <- guard_edges gattr_boundary_edges ;; rd_list gret_boundary_edges.
  Definition acc_interior_edges : M (list Z) := doM _ <- guard_edges gattr_interior_edges ;; rd_list gret_interior_edges.

  (* _compute_interior_boundary_vertices *)
  Fixpoint ib_verts_loop (es : list Z) (attr : zmap bool) (bset : list Z) : M (zmap bool * list Z) :=
    match es with
    | [] => ret (attr, bset)
    | e :: t =>
        doM ab <- edge_at e ;;
        let '(a, b) := ab in
        ib_verts_loop t (fold_left (fun tb kv => zset (fst kv) (snd kv) tb) (g_ibv_marks a b) attr)
                        (fold_left (fun s x => set_add x s) (g_ibv_adds a b) bset)
    end.
  Definition vb_get (attr : zmap bool) (x : Z) : bool := match zget x attr with Some b => b | None => false end.

  (* self._boundary_vertices = set(); self._is_vertex_on_border = fresh attribute (default False) *)
  Definition ib_verts_init : M unit :=
    fun s => (copy_attrs (mkCache None None None None None None None None None None (Some zempty) (Some []) None)
                         [A_boundary_vertices; A_is_vertex_on_border] s, Ok tt).
  (* self._boundary_vertices = list(self.boundary_vertices): the property is called while the attribute holds the set;
     were its guard to find None here the implementation would recurse without bound *)
  Definition ib_verts_selfcall : M unit :=
    fun s => match gattr_boundary_vertices with
             | Some a => if attr_is_none a s then (s, Err EFuel) else (s, Ok tt)
             | None => (s, Ok tt)
             end.
  Definition ib_verts_store (r : zmap bool * list Z) : M unit :=
    let inter := map g_ibv_interior_val (filter (fun x => g_ibv_interior_test (vb_get (fst r) x) x) (zrange (m_nv m))) in
    fun s => (copy_attrs (mkCache None None None None None None None None None None (Some (fst r)) (Some (snd r)) (Some inter))
                         sets_ib_vertices s, Ok tt).

  Definition compute_ib_vertices : M unit :=
    doM _ <- ib_verts_init ;;
    doM be <- acc_boundary_edges ;;
    doM r <- ib_verts_loop be zempty [] ;;
    doM _ <- ib_verts_selfcall ;;
    ib_verts_store r.

  Definition guard_verts (g : option attr) : M unit :=
    fun s => match g with
             | Some a => if attr_is_none a s then compute_ib_vertices s else (s, Ok tt)
             | None => (s, Ok tt)
             end.
  Definition acc_boundary_vertices : M (list Z) := doM _ <- guard_verts gattr_boundary_vertices ;; rd_list gret_boundary_vertices.
  Definition acc_interior_vertices : M (list Z) := doM _ <- guard_verts gattr_interior_vertices ;; rd_list gret_interior_vertices.
  Definition acc_is_vertex_on_border (u : Z) : M bool :=
    doM _ <- guard_verts gattr_is_vertex_on_border ;; doM t <- rd c_vborder ;; ret (vb_get t (g_is_vertex_on_border_key u)).

  Definition acc_clear : M unit := fun s => (copy_attrs empty_cache clears_connectivity s, Ok tt).
  Definition acc_clear_boundary_data : M unit := fun s => (copy_attrs empty_cache clears_boundary s, Ok tt).

  (* ------------------------------------------------------------------ queries *)
  Inductive query :=
  | Q_vertex_to_faces (V : Z) | Q_vertex_to_corners (V : Z) | Q_vertex_to_corner_in_face (V F : Z)
  | Q_previous_corner (C : Z) | Q_next_corner (C : Z) | Q_opposite_corner (C : Z)
  | Q_corner_to_half_edge (C : Z) | Q_corner_to_face (C : Z) | Q_half_edge_to_corner (u v : Z)
  | Q_direct_face (u v : Z) | Q_direct_face_inds (u v : Z) | Q_edge_to_faces (u v : Z)
  | Q_opposite_face (u v F : Z) | Q_opposite_face_inds (u v F : Z) | Q_common_edge (F1 F2 : Z)
  | Q_face_to_vertices (F : Z) | Q_in_face_index (F V : Z) | Q_face_to_edges (F : Z)
  | Q_face_to_first_corner (F : Z) | Q_face_to_corners (F : Z) | Q_face_to_faces (F : Z)
  | Q_face_id (vs : list Z) | Q_edge_id (u v : Z) | Q_other_edge_end (E V : Z)
  | Q_vertex_to_vertices (V : Z) | Q_vertex_to_edges (V : Z) | Q_edge_to_vertices (E : Z)
  | Q_boundary_edges | Q_interior_edges | Q_boundary_vertices | Q_interior_vertices
  | Q_is_edge_on_border (u v : Z) | Q_is_vertex_on_border (V : Z)
  | Q_clear | Q_clear_boundary_data.

  Definition fmapM {X Y} (f : X -> Y) (a : M X) : M Y := doM x <- a ;; ret (f x).
  Definition pair_ans (p : Z * Z) : ans := AList [Some (fst p); Some (snd p)].

  Definition run_query (q : query) : M ans :=
    match q with
    | Q_vertex_to_faces V => fmapM zl_ans (acc_vertex_to_faces V)
    | Q_vertex_to_corners V => fmapM (fun o => match o with Some l => zl_ans l | None => ANone end) (acc_vertex_to_corners V)
    | Q_vertex_to_corner_in_face V F => fmapM oz_ans (acc_vertex_to_corner_in_face V F)
    | Q_previous_corner C => fmapM oz_ans (acc_previous_corner C)
    | Q_next_corner C => fmapM oz_ans (acc_next_corner C)
    | Q_opposite_corner C => fmapM oz_ans (acc_opposite_corner C)
    | Q_corner_to_half_edge C => fmapM (fun o => match o with Some p => pair_ans p | None => ANone end) (acc_corner_to_half_edge C)
    | Q_corner_to_face C => fmapM AInt (acc_corner_to_face C)
    | Q_half_edge_to_corner u v => fmapM oz_ans (acc_half_edge_to_corner u v)
    | Q_direct_face u v => fmapM oz_ans (acc_direct_face u v)
    | Q_direct_face_inds u v => fmapM AList (acc_direct_face_inds u v)
    | Q_edge_to_faces u v => fmapM AList (acc_edge_to_faces u v)
    | Q_opposite_face u v F => fmapM oz_ans (acc_opposite_face u v F)
    | Q_opposite_face_inds u v F => fmapM AList (acc_opposite_face_inds u v F)
    | Q_common_edge F1 F2 => fmapM AList (acc_common_edge F1 F2)
    | Q_face_to_vertices F => fmapM zl_ans (acc_face_to_vertices F)
    | Q_in_face_index F V => fmapM oz_ans (acc_in_face_index F V)
    | Q_face_to_edges F => fmapM AList (acc_face_to_edges F)
    | Q_face_to_first_corner F => fmapM AInt (acc_face_to_first_corner F)
    | Q_face_to_corners F => fmapM zl_ans (acc_face_to_corners F)
    | Q_face_to_faces F => fmapM zl_ans (acc_face_to_faces F)
    | Q_face_id vs => fmapM oz_ans (acc_face_id vs)
    | Q_edge_id u v => fmapM oz_ans (acc_edge_id u v)
    | Q_other_edge_end E V => fmapM oz_ans (acc_other_edge_end E V)
    | Q_vertex_to_vertices V => fmapM zl_ans (acc_vertex_to_vertices V)
    | Q_vertex_to_edges V => fmapM AList (acc_vertex_to_edges V)
    | Q_edge_to_vertices E => fmapM pair_ans (acc_edge_to_vertices E)
    | Q_boundary_edges => fmapM zl_ans acc_boundary_edges
    | Q_interior_edges => fmapM zl_ans acc_interior_edges
    | Q_boundary_vertices => fmapM zl_ans acc_boundary_vertices
    | Q_interior_vertices => fmapM zl_ans acc_interior_vertices
    | Q_is_edge_on_border u v => fmapM ABool (acc_is_edge_on_border u v)
    | Q_is_vertex_on_border V => fmapM ABool (acc_is_vertex_on_border V)
    | Q_clear => fmapM (fun _ => ANone) acc_clear
    | Q_clear_boundary_data => fmapM (fun _ => ANone) acc_clear_boundary_data
    end.

  (* one public call: new cache state and canonical answer (an exception is an answer) *)
  Definition query_step (s : cache) (q : query) : cache * ans :=
    let '(s', r) := run_query q s in (s', match r with Ok a => a | Err e => AErr e end).

  (* the cache after a script, from a fresh mesh *)
  Definition run_script (qs : list query) : cache := fold_left (fun s q => fst (query_step s q)) qs empty_cache.
End Accessors.
