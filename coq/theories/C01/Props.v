(* C01 property theorems only: each closed by `exact <lemma>` with Print Assumptions beneath.
   Vocabulary: Model.v (executable model of surface.py/linear.py; guards, keys, entries, index formulas, argument orders,
   return expressions, branch tests generated in Gen.v), Pure.v (`pure_answer`: the answer of a query as a function of mesh,
   configuration and query alone), Spec.v ("direct inspection of the face list": sp_* functions on the corner list,
   ring_spec, wf_faces / wf_mesh = oriented manifold polygon surface, and their boolean checkers).
   Further specification vocabulary is defined next to the lemmas that use it (definitions only, no proof content):
   ProofsTables.v (edge_valid, mesh_of: the mesh seen by the connectivity code is built from these faces; nbrs),
   ProofsVerts.v (edges_exact, sp_target, sp_source_prev, sp_vertex_ring), ProofsMore.v (sp_corner_face, sp_other_edge_end,
   sp_side, sp_opposite_face_inds, sp_common_edge_loop), ProofsRing.v (valid_corner),
   ProofsMain.v (tables_answers_correct, border_partition_stmt, derived_lists_stmt, remaining_accessors_stmt: the
   statements spelled out). *)
From Coq Require Import ZArith List Bool Sorting.Permutation.
Require Import MV.C01.Defs MV.C01.Gen MV.C01.Model MV.C01.Spec MV.C01.Pure MV.C01.ProofsTables MV.C01.ProofsQuery
        MV.C01.ProofsMore MV.C01.ProofsVerts MV.C01.ProofsMain.
Open Scope Z_scope.

(* 1. Query-order independence, all oriented manifold polygon surfaces, sorting on or off: whatever script of public
      queries (including clear / clear_boundary_data) was issued on a fresh mesh before, every query is answered by its
      pure answer.  With the empty script this is "a query on a fresh mesh answers what it answers later".
      The pure answer may itself be an exception value (AErr) for arguments that name no element (e.g. an absent face id):
      the statement is equality of answers, not absence of errors; that the table computations raise nothing is theorem 2,
      that the answers for existing elements are the values of direct inspection is theorems 3-9. *)
Theorem C01_query_order_independent :
  forall nv faces m sortflag, wf_mesh nv faces -> mesh_of nv faces m ->
  forall (qs : list query) (q : query),
    snd (query_step m sortflag (run_script m sortflag qs) q) = pure_answer m sortflag q.
Proof. exact query_order_independent_wf. Qed.
Print Assumptions C01_query_order_independent.

(* 2. The lazily computed tables never raise on a manifold surface, whatever the configuration. *)
Theorem C01_compute_total :
  forall nv faces m sortflag, wf_mesh nv faces -> mesh_of nv faces m ->
  exists T, compute_connectivity m sortflag = Ok T.
Proof. exact compute_total. Qed.
Print Assumptions C01_compute_total.

(* 3. Order-free answers = direct inspection of the face list: next / previous / opposite corner, corner <-> half-edge,
      face on either side of an edge (with local indices), opposite face, corner of a vertex in a face, first corner of a
      face, edge and face identifiers.  Needs only oriented faces (no vertex-manifoldness), sorting on or off. *)
Theorem C01_tables_correct :
  forall nv faces m sortflag T,
    wf_faces nv faces -> mesh_of nv faces m -> compute_connectivity m sortflag = Ok T ->
    tables_answers_correct faces m sortflag.
Proof. exact tables_correct. Qed.
Print Assumptions C01_tables_correct.

(* 4. Sorting on: vertex_to_corners lists the corners at the vertex once each in rotational order - a closed ring for an
      interior vertex, an open fan starting at the corner whose incoming edge is a border edge for a border vertex
      (ring_spec) - and vertex_to_vertices is the matching vertex order: for a border vertex first the neighbour across
      that incoming border edge (the one without a half-edge from A), then the target of every corner of the ring
      (sp_vertex_ring).  (vertex_to_faces / vertex_to_edges follow these two rings element by element: theorem 8.) *)
Theorem C01_vertex_ring_sorted :
  forall nv faces m, wf_mesh nv faces -> mesh_of nv faces m -> edges_exact faces (m_edges m) ->
  forall A, 0 <= A < nv ->
    exists l, p_vertex_to_corners m true A = Ok (Some l) /\ ring_spec faces A l
              /\ p_vertex_to_vertices m true A = Ok (sp_vertex_ring faces l).
Proof. exact vertex_ring_sorted. Qed.
Print Assumptions C01_vertex_ring_sorted.

(* 5. Sorting off: the corners at the vertex / the neighbours of the vertex (the model lists them in corner / edge order;
      the implementation's set order is compared as a set by the correspondence). *)
Theorem C01_unsorted_sets :
  forall nv faces m, wf_faces nv faces -> mesh_of nv faces m ->
  forall A, 0 <= A < nv ->
    p_vertex_to_corners m false A = Ok (Some (corners_at faces A))
    /\ p_vertex_to_vertices m false A = Ok (nbrs (m_edges m) A)
    /\ (forall w, In w (nbrs (m_edges m) A) <-> In (A, w) (m_edges m) \/ In (w, A) (m_edges m)).
Proof. exact unsorted_sets. Qed.
Print Assumptions C01_unsorted_sets.

(* 6. Border / interior classification: boundary_edges ++ interior_edges is a rearrangement of all edge ids, an edge is in
      the first iff one of its two directed versions has no face; vertices likewise (touched by a border edge). *)
Theorem C01_border_partition :
  forall nv faces m sortflag T,
    wf_faces nv faces -> mesh_of nv faces m -> compute_connectivity m sortflag = Ok T ->
    border_partition_stmt faces m sortflag.
Proof. exact border_partition. Qed.
Print Assumptions C01_border_partition.

(* 8. Derived list answers: corner -> face; faces / edges around a vertex follow the corner / vertex ring element by
      element; corners, faces and edges around a face side by side (corner i of face F is first_corner + i and holds
      F[i]; the faces across the sides in the order of the sides, border sides skipped). *)
Theorem C01_derived_lists :
  forall nv faces m sortflag T,
    wf_faces nv faces -> mesh_of nv faces m -> compute_connectivity m sortflag = Ok T ->
    derived_lists_stmt faces m sortflag.
Proof. exact derived_lists. Qed.
Print Assumptions C01_derived_lists.

(* 9. The remaining accessors: face_to_vertices / edge_to_vertices are the stored face / edge; other_edge_end is the other
      end of the stored edge (None when V is not an end); in_face_index is the first position of V in the face (None when
      absent); opposite_face with indices is the face across the edge with the local indices of u and v in it;
      common_edge is the first side of face F1 (in side order) across which lies F2, as a sorted pair. *)
Theorem C01_remaining_accessors :
  forall nv faces m sortflag T,
    wf_faces nv faces -> mesh_of nv faces m -> compute_connectivity m sortflag = Ok T ->
    remaining_accessors_stmt faces m sortflag.
Proof. exact remaining_accessors. Qed.
Print Assumptions C01_remaining_accessors.

(* 7. The mesh mouette builds from a face list (edges and corners completed from the faces) is such a mesh. *)
Theorem C01_build_mesh_of :
  forall nv faces, wf_faces nv faces ->
    mesh_of nv faces (build_mesh nv faces) /\ edges_exact faces (m_edges (build_mesh nv faces)).
Proof. exact build_mesh_ok. Qed.
Print Assumptions C01_build_mesh_of.

(* 10. The per-case checks of the correspondence (wf_mesh_b on the finished object's face list, edges_ok_b on its edge
       container, its corner container = gen_corners of its faces) imply the hypotheses of theorems 1-9 for it, whatever
       route built the object. *)
Theorem C01_case_hypotheses_sound :
  forall nv faces edges, wf_mesh_b nv faces = true -> edges_ok_b faces edges = true ->
  wf_mesh nv faces /\ mesh_of nv faces (mkMesh nv faces edges (gen_corners faces)) /\ edges_exact faces edges.
Proof. exact case_hypotheses_sound. Qed.
Print Assumptions C01_case_hypotheses_sound.

(* 11. "A query on a freshly built mesh never fails where the same query succeeds after other queries have been made":
       on a fresh mesh every query is answered exactly as after ANY script of public queries (all 35 calls of the
       connectivity and border API, clear() / clear_boundary_data() included). *)
Theorem C01_fresh_as_later :
  forall nv faces m sortflag, wf_mesh nv faces -> mesh_of nv faces m ->
  forall (qs : list query) (q : query),
    snd (query_step m sortflag empty_cache q) = snd (query_step m sortflag (run_script m sortflag qs) q).
Proof. exact fresh_as_later. Qed.
Print Assumptions C01_fresh_as_later.

(* 12. The rotational-order clause for border vs interior vertices: the sorted corner ring of a vertex is an open fan
       (first corner after an incoming border edge, last corner before an outgoing one) exactly when is_vertex_on_border
       answers True, and a closed ring exactly when it answers False - rings and border classification never disagree. *)
Theorem C01_ring_kind_is_border_class :
  forall nv faces m, wf_mesh nv faces -> mesh_of nv faces m -> edges_exact faces (m_edges m) ->
  forall A l, 0 <= A < nv -> p_vertex_to_corners m true A = Ok (Some l) -> l <> nil ->
    ring_spec faces A l
    /\ (ring_open faces l <-> p_is_vertex_on_border m true A = Ok true)
    /\ (ring_closed faces l <-> p_is_vertex_on_border m true A = Ok false).
Proof. exact ring_kind_is_border_class. Qed.
Print Assumptions C01_ring_kind_is_border_class.

(* 13. No failure on a manifold surface: every query the property names, when it names an element of the mesh (an existing
       corner, a vertex id in range, an existing face; any vertex pair / tuple for the keyed ones), is ANSWERED - its pure
       answer is a value, not an exception - sorting on or off; with theorem 1 this holds in every reachable cache state. *)
Theorem C01_named_queries_answered :
  forall nv faces m sortflag, wf_mesh nv faces -> mesh_of nv faces m -> named_queries_answered nv faces m sortflag.
Proof. exact named_answered. Qed.
Print Assumptions C01_named_queries_answered.
