(* C01 property theorems only: each closed by `exact <lemma>` with Print Assumptions beneath. *)
From Coq Require Import ZArith List Bool.
Require Import MV.C01.Defs MV.C01.Gen MV.C01.Model MV.C01.Spec MV.C01.Proofs.

Theorem C01_edge_id_symmetric : forall m f s u v,
  snd (query_step m f s (Q_edge_id u v)) = snd (query_step m f s (Q_edge_id v u)).
Proof. exact edge_id_symmetric. Qed.
Print Assumptions C01_edge_id_symmetric.
