(* C01 - "direct inspection of the face list": the specification side.  Every function here reads the face list
   (through the list of its corners with their coordinates) by linear search / position arithmetic only; none of it
   mentions the tables of the model.  Also the hypotheses of the theorems (oriented manifold polygon surface) as
   Props together with the boolean checkers the correspondence evaluates on every generated mesh. No proofs.
   (The remaining specification vocabulary of Props.v - mesh_of, nbrs, edges_exact, sp_vertex_ring, sp_corner_face,
   sp_opposite_face_inds, sp_common_edge_loop, the *_stmt conjunctions - is defined in the Proofs*.v file that first uses
   it; the list is at the top of Props.v.) *)
From Coq Require Import ZArith List Bool.
Import ListNotations.
Require Import MV.C01.Defs.
Open Scope Z_scope.

(* a corner with its coordinates: id, vertex, face, position in the face, arity of the face,
   the vertex that follows / precedes it in the face *)
Record crn := mkC { cid : Z; cv : Z; cf : Z; ci : Z; cn : Z; ct : Z; cp : Z }.

Definition zth_d (l : list Z) (i : Z) : Z := match zth l i with Some x => x | None => 0 end.

Definition face_corners (F : list Z) (f c0 : Z) : list crn :=
  let n := zlen F in
  map (fun iv => mkC (c0 + fst iv) (snd iv) f (fst iv) n (zth_d F ((fst iv + 1) mod n)) (zth_d F ((fst iv - 1) mod n)))
      (enumerate F).

Fixpoint corners_from (faces : list (list Z)) (f c0 : Z) : list crn :=
  match faces with
  | [] => []
  | F :: t => face_corners F f c0 ++ corners_from t (f + 1) (c0 + zlen F)
  end.

(* all corners, in corner order: corner c of face f at position i is  (number of corners of the faces before f) + i *)
Definition all_corners (faces : list (list Z)) : list crn := corners_from faces 0 0.

Definition sp_corner (faces : list (list Z)) (c : Z) : option crn :=
  find (fun x => cid x =? c) (all_corners faces).

(* next / previous corner around the face, by position *)
Definition sp_next (faces : list (list Z)) (c : Z) : option Z :=
  match sp_corner faces c with Some x => Some (cid x - ci x + (ci x + 1) mod cn x) | None => None end.
Definition sp_prev (faces : list (list Z)) (c : Z) : option Z :=
  match sp_corner faces c with Some x => Some (cid x - ci x + (ci x - 1) mod cn x) | None => None end.

(* the corner whose half-edge is u -> v : the face in which v follows u *)
Definition sp_he (faces : list (list Z)) (u v : Z) : option crn :=
  find (fun x => (cv x =? u) && (ct x =? v)) (all_corners faces).

(* opposite corner: the corner whose half-edge is the reversed one *)
Definition sp_opp (faces : list (list Z)) (c : Z) : option Z :=
  match sp_corner faces c with
  | Some x => match sp_he faces (ct x) (cv x) with Some y => Some (cid y) | None => None end
  | None => None
  end.

Definition sp_corner_to_half_edge (faces : list (list Z)) (c : Z) : option (Z * Z) :=
  match sp_corner faces c with Some x => Some (cv x, ct x) | None => None end.

Definition sp_direct_face (faces : list (list Z)) (u v : Z) : option Z :=
  match sp_he faces u v with Some x => Some (cf x) | None => None end.
Definition sp_half_edge_to_corner (faces : list (list Z)) (u v : Z) : option Z :=
  match sp_he faces u v with Some x => Some (cid x) | None => None end.
Definition sp_direct_face_inds (faces : list (list Z)) (u v : Z) : list (option Z) :=
  match sp_he faces u v with
  | Some x => [Some (cf x); Some (ci x); Some ((ci x + 1) mod cn x)]
  | None => [None; None; None]
  end.

Definition sp_vertex_to_corner_in_face (faces : list (list Z)) (V F : Z) : option Z :=
  match find (fun x => (cv x =? V) && (cf x =? F)) (all_corners faces) with Some x => Some (cid x) | None => None end.

Definition sp_face_to_first_corner (faces : list (list Z)) (F : Z) : option Z :=
  match find (fun x => cf x =? F) (all_corners faces) with Some x => Some (cid x) | None => None end.
Definition sp_face_to_corners (faces : list (list Z)) (F : Z) : list Z :=
  map cid (filter (fun x => cf x =? F) (all_corners faces)).
(* faces across the sides of F, in the order of the sides, border sides skipped *)
Definition sp_face_to_faces (faces : list (list Z)) (F : Z) : list Z :=
  flat_map (fun x => match sp_he faces (ct x) (cv x) with Some y => [cf y] | None => [] end)
           (filter (fun x => cf x =? F) (all_corners faces)).

(* corners at a vertex, rotation around a vertex *)
Definition corners_at (faces : list (list Z)) (A : Z) : list Z :=
  map cid (filter (fun x => cv x =? A) (all_corners faces)).
Definition sp_cw (faces : list (list Z)) (c : Z) : option Z :=
  match sp_prev faces c with Some p => sp_opp faces p | None => None end.
Definition sp_ccw (faces : list (list Z)) (c : Z) : option Z :=
  match sp_opp faces c with Some o => sp_next faces o | None => None end.

(* identifiers *)
Definition pair_eqb' (a b : Z * Z) : bool := (fst a =? fst b) && (snd a =? snd b).
(* position of the LAST occurrence (a dict built by successive assignment keeps the last) *)
Fixpoint last_index {A} (p : A -> bool) (l : list A) (k : Z) : option Z :=
  match l with
  | [] => None
  | x :: t => match last_index p t (k + 1) with Some r => Some r | None => if p x then Some k else None end
  end.
Definition sp_edge_id (edges : list (Z * Z)) (u v : Z) : option Z :=
  last_index (fun e => pair_eqb' (keyify2 (fst e) (snd e)) (keyify2 u v)) edges 0.
Definition sp_face_id (faces : list (list Z)) (vs : list Z) : option Z :=
  last_index (fun F => lz_eqb (zsort F) (zsort vs)) faces 0.

(* border classification *)
Definition sp_edge_on_border (faces : list (list Z)) (edges : list (Z * Z)) (u v : Z) : bool :=
  match sp_edge_id edges u v with
  | None => false
  | Some _ => match sp_he faces u v, sp_he faces v u with Some _, Some _ => false | _, _ => true end
  end.
Definition sp_vertex_on_border (faces : list (list Z)) (edges : list (Z * Z)) (A : Z) : bool :=
  existsb (fun e => ((fst e =? A) || (snd e =? A)) && sp_edge_on_border faces edges (fst e) (snd e)) edges.

(* ------------------------------------------------------------------ rotational order around a vertex *)
(* consecutive corners a, b of the list satisfy  a = opp (prev b)  *)
Fixpoint chain_cw (faces : list (list Z)) (l : list Z) : Prop :=
  match l with
  | a :: ((b :: _) as t) => sp_cw faces b = Some a /\ chain_cw faces t
  | _ => True
  end.

Definition ring_closed (faces : list (list Z)) (l : list Z) : Prop :=
  match l with [] => True | a :: _ => sp_cw faces a = Some (last l a) end.
Definition ring_open (faces : list (list Z)) (l : list Z) : Prop :=
  match l with [] => True | a :: _ => sp_cw faces a = None /\ sp_ccw faces (last l a) = None end.

(* l enumerates the corners at A once each in rotational order: a closed ring (interior vertex) or an open fan that
   starts at the corner whose incoming edge has no face on the other side and ends where the outgoing edge has none *)
Definition ring_spec (faces : list (list Z)) (A : Z) (l : list Z) : Prop :=
  NoDup l /\ (forall c, In c l <-> In c (corners_at faces A)) /\ chain_cw faces l /\
  (ring_closed faces l \/ ring_open faces l).

(* ------------------------------------------------------------------ oriented manifold polygon surface *)
Definition face_ok (nv : Z) (F : list Z) : Prop :=
  3 <= zlen F /\ NoDup F /\ Forall (fun v => 0 <= v < nv) F.
Definition oriented (faces : list (list Z)) : Prop :=
  NoDup (map (fun x => (cv x, ct x)) (all_corners faces)).
Definition wf_faces (nv : Z) (faces : list (list Z)) : Prop :=
  Forall (face_ok nv) faces /\ oriented faces.
Definition wf_mesh (nv : Z) (faces : list (list Z)) : Prop :=
  wf_faces nv faces /\ forall A, 0 <= A < nv -> exists l, ring_spec faces A l.

(* ---- boolean checkers *)
Fixpoint nodupZ (l : list Z) : bool :=
  match l with [] => true | x :: t => negb (existsb (Z.eqb x) t) && nodupZ t end.
Fixpoint nodupZZ (l : list (Z * Z)) : bool :=
  match l with [] => true | x :: t => negb (existsb (pair_eqb' x) t) && nodupZZ t end.
Definition face_ok_b (nv : Z) (F : list Z) : bool :=
  (3 <=? zlen F) && nodupZ F && forallb (fun v => (0 <=? v) && (v <? nv)) F.
Definition oriented_b (faces : list (list Z)) : bool :=
  nodupZZ (map (fun x => (cv x, ct x)) (all_corners faces)).
Definition wf_faces_b (nv : Z) (faces : list (list Z)) : bool :=
  forallb (face_ok_b nv) faces && oriented_b faces.

Definition oZ_eqb (a b : option Z) : bool :=
  match a, b with Some x, Some y => x =? y | None, None => true | _, _ => false end.
Fixpoint chain_cw_b (faces : list (list Z)) (l : list Z) : bool :=
  match l with
  | a :: ((b :: _) as t) => oZ_eqb (sp_cw faces b) (Some a) && chain_cw_b faces t
  | _ => true
  end.
Definition ring_spec_b (faces : list (list Z)) (A : Z) (l : list Z) : bool :=
  nodupZ l
  && forallb (fun c => existsb (Z.eqb c) (corners_at faces A)) l
  && forallb (fun c => existsb (Z.eqb c) l) (corners_at faces A)
  && chain_cw_b faces l
  && match l with
     | [] => true
     | a :: _ => oZ_eqb (sp_cw faces a) (Some (last l a))
                 || (oZ_eqb (sp_cw faces a) None && oZ_eqb (sp_ccw faces (last l a)) None)
     end.

(* search for the ring by walking with the specification's own step functions *)
Fixpoint ring_back (faces : list (list Z)) (fuel : nat) (c0 c : Z) : Z :=
  match fuel with
  | O => c
  | S k => match sp_cw faces c with
           | None => c
           | Some p => if p =? c0 then c0 else ring_back faces k c0 p
           end
  end.
Fixpoint ring_fwd (faces : list (list Z)) (fuel : nat) (c : Z) : list Z :=
  match fuel with
  | O => []
  | S k => c :: match sp_ccw faces c with None => [] | Some n => ring_fwd faces k n end
  end.
Definition find_ring (faces : list (list Z)) (A : Z) : list Z :=
  match corners_at faces A with
  | [] => []
  | (c0 :: _) as cs => ring_fwd faces (length cs) (ring_back faces (length cs) c0 c0)
  end.

Definition wf_mesh_b (nv : Z) (faces : list (list Z)) : bool :=
  wf_faces_b nv faces && forallb (fun A => ring_spec_b faces A (find_ring faces A)) (zrange nv).

(* every row of the edge list is a side of a face written smallest vertex first, and every side has a row
   (hypotheses edge_valid / edges_exact of the theorems, as a boolean on the implementation's own edge container).
   A side may have several rows: mouette keeps an edge the caller declared twice twice (C02's known finding
   edge-list/duplicate-declared); the theorems do not need the rows to be distinct. *)
Definition edges_ok_b (faces : list (list Z)) (edges : list (Z * Z)) : bool :=
  forallb (fun e => fst e <? snd e) edges
  && forallb (fun e => existsb (fun x => pair_eqb' (keyify2 (cv x) (ct x)) e) (all_corners faces)) edges
  && forallb (fun x => existsb (pair_eqb' (keyify2 (cv x) (ct x))) edges) (all_corners faces).
