(* C01 - derived list answers: corner_to_face, faces / edges around a vertex, corners / faces / edges around a face *)
From Coq Require Import ZArith List Bool Lia Sorting.Permutation.
Import ListNotations.
Require Import MV.C01.Defs MV.C01.Gen MV.C01.Model MV.C01.Spec MV.C01.Pure
        MV.C01.ProofsMaps MV.C01.ProofsCorners MV.C01.ProofsTables MV.C01.ProofsAccess MV.C01.ProofsEdges
        MV.C01.ProofsSort MV.C01.ProofsRing.
Open Scope Z_scope.

(* the face a corner belongs to, by inspection of the corner list (0 for a non-corner; never used on one) *)
Definition sp_corner_face (faces : list (list Z)) (c : Z) : Z :=
  match sp_corner faces c with Some x => cf x | None => 0 end.

Lemma corners_zth faces c :
  zth (gen_corners faces) c = match sp_corner faces c with Some x => Some (cv x, cf x) | None => None end.
Proof.
  destruct (sp_corner faces c) as [x|] eqn:E.
  - apply sp_corner_In in E as [Hx Ec]. apply enumerate_In. rewrite enumerate_gen_corners.
    apply in_map_iff. exists x. split; [rewrite Ec; reflexivity|exact Hx].
  - destruct (zth (gen_corners faces) c) as [p|] eqn:Ez; [|reflexivity]. exfalso.
    apply enumerate_In in Ez. rewrite enumerate_gen_corners in Ez. apply in_map_iff in Ez as (x & Ex & Hx).
    inversion Ex; subst. unfold sp_corner in E. pose proof (find_none _ _ E x Hx) as Hn. cbn in Hn.
    rewrite Z.eqb_refl in Hn. discriminate.
Qed.

Section More.
  Variable nv : Z.
  Variable faces : list (list Z).
  Variable m : mesh.
  Variable f : bool.
  Variable T : tables.
  Hypothesis Hwf : wf_faces nv faces.
  Hypothesis Hm : mesh_of nv faces m.
  Hypothesis HT : compute_connectivity m f = Ok T.

  Lemma corner_to_face_correct c :
    p_corner_to_face m f c = match sp_corner faces c with Some x => Ok (cf x) | None => Err EIndex end.
  Proof.
    unfold p_corner_to_face. rewrite (guard_ok m f T HT). cbn [bind].
    destruct Hm as (_ & _ & Ec & _). rewrite Ec, corners_zth. destruct (sp_corner faces c); reflexivity.
  Qed.

  Lemma corner_to_face_valid c : valid_corner faces c -> p_corner_to_face m f c = Ok (sp_corner_face faces c).
  Proof.
    intros (x & Hx & <-). rewrite corner_to_face_correct. unfold sp_corner_face. rewrite (sp_corner_self faces x Hx). reflexivity.
  Qed.

  (* faces around a vertex = the faces of its corner list, in the same order *)
  Lemma vertex_to_faces_correct A l :
    p_vertex_to_corners m f A = Ok (Some l) -> (forall c, In c l -> valid_corner faces c) ->
    p_vertex_to_faces m f A = Ok (map (sp_corner_face faces) l).
  Proof.
    intros E Hv. unfold p_vertex_to_faces. rewrite (guard_ok m f T HT), E. cbn [bind].
    apply mapM_ok. intros c Hc. apply corner_to_face_valid, Hv, Hc.
  Qed.

  (* edges around a vertex = the edge ids towards its vertex list, in the same order *)
  Lemma vertex_to_edges_correct A vs :
    p_vertex_to_vertices m f A = Ok vs ->
    p_vertex_to_edges m f A = Ok (map (sp_edge_id (m_edges m) A) vs).
  Proof.
    intros E. unfold p_vertex_to_edges. rewrite (guard_ok m f T HT), E. cbn [bind].
    apply mapM_ok. intros u _. apply edge_id_correct.
  Qed.

  (* ---- the first corner of a face is its corner at position 0 *)
  Lemma find_face_none F G f0 c0 : f0 <> F -> find (fun y => cf y =? F) (face_corners G f0 c0) = None.
  Proof.
    intros N. destruct (find _ _) as [x|] eqn:E; [|reflexivity]. apply find_some in E as [Hx Ef].
    apply face_corners_In in Hx as (_ & Ecf & _). apply Z.eqb_eq in Ef. congruence.
  Qed.

  Lemma find_face_first fs : forall f0 c0 F x,
    find (fun y => cf y =? F) (corners_from fs f0 c0) = Some x -> ci x = 0.
  Proof.
    induction fs as [|G t IH]; intros f0 c0 F x; cbn [corners_from]; [discriminate|].
    rewrite find_app. destruct (Z.eq_dec f0 F) as [->|N].
    - destruct G as [|v G']; [cbn; apply IH|].
      unfold face_corners, enumerate. cbn [enum_from map find cf fst snd]. rewrite Z.eqb_refl. intros E. inversion E. reflexivity.
    - rewrite (find_face_none F G f0 c0 N). apply IH.
  Qed.

  Lemma first_corner_pos0 F c0 :
    sp_face_to_first_corner faces F = Some c0 ->
    exists x, In x (all_corners faces) /\ cid x = c0 /\ cf x = F /\ ci x = 0.
  Proof.
    unfold sp_face_to_first_corner. destruct (find (fun x => cf x =? F) (all_corners faces)) as [x|] eqn:E; [|discriminate].
    intros H. inversion H; subst. pose proof (find_face_first faces 0 0 F x E) as E0.
    apply find_some in E as [Hx Ef]. apply Z.eqb_eq in Ef. eauto.
  Qed.

  Lemma face_has_first F lF : zth faces F = Some lF -> lF <> [] -> exists c0, sp_face_to_first_corner faces F = Some c0.
  Proof.
    intros Ez Hne. unfold sp_face_to_first_corner.
    destruct (find (fun x => cf x =? F) (all_corners faces)) as [x|] eqn:E; [eauto|]. exfalso.
    destruct lF as [|v lF']; [congruence|].
    set (x := mkC (off faces (Z.to_nat F) + 0) v F 0 (zlen (v :: lF')) (zth_d (v :: lF') ((0 + 1) mod zlen (v :: lF')))
                  (zth_d (v :: lF') ((0 - 1) mod zlen (v :: lF')))).
    assert (Hx : In x (all_corners faces)).
    { apply all_corners_In. exists (v :: lF'). cbn. repeat split; auto. }
    pose proof (find_none _ _ E x Hx) as Hn. cbn in Hn. rewrite Z.eqb_refl in Hn. discriminate.
  Qed.

  (* corners around a face: position by position *)
  Lemma face_to_corners_correct F lF :
    zth faces F = Some lF -> lF <> [] ->
    exists c0, sp_face_to_first_corner faces F = Some c0
      /\ p_face_to_corners m f F = Ok (map (fun i => c0 + i) (zrange (zlen lF)))
      /\ forall i, 0 <= i < zlen lF ->
           exists x, In x (all_corners faces) /\ cf x = F /\ ci x = i /\ cid x = c0 + i /\ zth lF i = Some (cv x).
  Proof.
    intros Ez Hne. destruct (face_has_first F lF Ez Hne) as (c0 & Ec0). exists c0. split; [exact Ec0|]. split.
    - unfold p_face_to_corners, p_face_at. rewrite (guard_ok m f T HT). destruct Hm as (_ & Ef & _). rewrite Ef, Ez. cbn [of_opt bind].
      apply mapM_ok. intros i _. unfold p_adjF2Cn, CR. rewrite HT. cbn [bind].
      destruct (T4 nv faces m f T Hwf Hm HT) as (T0 & es & S & (_ & _ & _ & E4)). rewrite E4, (ts_f2c _ _ _ _ S), Ec0. reflexivity.
    - intros i Hi. destruct (first_corner_pos0 F c0 Ec0) as (x0 & Hx0 & E1 & E2 & E3).
      assert (En : cn x0 = zlen lF).
      { apply all_corners_In in Hx0 as (G & H1 & _ & H3 & _). rewrite E2 in H1. congruence. }
      destruct (sibling faces x0 i Hx0 ltac:(lia)) as (y & Hy & A1 & A2 & A3 & A4 & G & B1 & B2).
      exists y. rewrite E2 in B1. assert (G = lF) by congruence. subst G.
      repeat split; auto; try congruence. lia.
  Qed.

  (* edges around a face *)
  Lemma face_to_edges_correct F lF :
    zth faces F = Some lF ->
    p_face_to_edges m f F
    = Ok (map (fun i => sp_edge_id (m_edges m) (zth_d lF i) (zth_d lF ((i + 1) mod zlen lF))) (zrange (zlen lF))).
  Proof.
    intros Ez. unfold p_face_to_edges, p_face_at. rewrite (guard_ok m f T HT). destruct Hm as (_ & Ef & _). rewrite Ef, Ez.
    cbn [of_opt bind]. apply mapM_ok. intros i Hi. apply In_zrange in Hi.
    destruct (zth_in_range lF i Hi) as (a & Ea).
    destruct (zth_in_range lF ((i + 1) mod zlen lF)) as (b & Eb); [apply Z.mod_pos_bound; lia|].
    rewrite Ea, Eb. cbn [of_opt bind]. rewrite (zth_d_Some _ _ _ Ea), (zth_d_Some _ _ _ Eb). apply edge_id_correct.
  Qed.

  (* faces around a face: across each side in the order of the sides, border sides skipped *)
  Lemma face_to_faces_correct F lF :
    zth faces F = Some lF -> lF <> [] ->
    exists cs, p_face_to_corners m f F = Ok cs /\
      p_face_to_faces m f F
      = Ok (flat_map (fun c => match sp_opp faces c with Some o => [sp_corner_face faces o] | None => [] end) cs).
  Proof.
    intros Ez Hne. destruct (face_to_corners_correct F lF Ez Hne) as (c0 & _ & Ecs & _).
    eexists. split; [exact Ecs|]. unfold p_face_to_faces. rewrite (guard_ok m f T HT), Ecs. cbn [bind].
    set (cs := map (fun i => c0 + i) (zrange (zlen lF))).
    rewrite (mapM_ok _ (sp_opp faces)) by (intros c _; apply (opposite_corner_correct nv faces m f T Hwf Hm HT)).
    cbn [bind]. rewrite (mapM_ok _ (sp_corner_face faces)).
    - f_equal. induction cs as [|c t IH]; [reflexivity|]. cbn [map flat_map]. rewrite map_app, IH.
      destruct (sp_opp faces c); reflexivity.
    - intros o Ho. apply in_flat_map in Ho as (oc & Hoc & Ho). apply in_map_iff in Hoc as (c & Ec & _).
      destruct oc as [o'|]; [|destruct Ho]. destruct Ho as [<-|[]]. apply corner_to_face_valid.
      unfold sp_opp in Ec. destruct (sp_corner faces c) as [x|]; [|discriminate].
      destruct (sp_he faces (ct x) (cv x)) as [y|] eqn:E; [|discriminate]. inversion Ec.
      apply (sp_he_some faces) in E as (Hy & _). exists y. auto.
  Qed.
End More.
