(* C01 - derived list answers: corner_to_face, faces / edges around a vertex, corners / faces / edges around a face *)
From Coq Require Import ZArith List Bool Lia Sorting.Permutation.
Import ListNotations.
Require Import MV.C01.Defs MV.C01.Gen MV.C01.Model MV.C01.Spec MV.C01.Pure
        MV.C01.ProofsMaps MV.C01.ProofsCorners MV.C01.ProofsTables MV.C01.ProofsAccess MV.C01.ProofsEdges
        MV.C01.ProofsSort MV.C01.ProofsRing.
Open Scope Z_scope.

(* the face a corner belongs to, by inspection of the corner list (0 for a non-corner; never used on one) *)
Definition sp_corner_face (faces : list (list Z)) (c : Z) : Z :=
  match sp_corner faces c with Some x => cf x | None => 0 end.

Lemma corners_zth faces c :
  zth (gen_corners faces) c = match sp_corner faces c with Some x => Some (cv x, cf x) | None => None end.
Proof.
  destruct (sp_corner faces c) as [x|] eqn:E.
  - apply sp_corner_In in E as [Hx Ec]. apply enumerate_In. rewrite enumerate_gen_corners.
    apply in_map_iff. exists x. split; [rewrite Ec; reflexivity|exact Hx].
  - destruct (zth (gen_corners faces) c) as [p|] eqn:Ez; [|reflexivity]. exfalso.
    apply enumerate_In in Ez. rewrite enumerate_gen_corners in Ez. apply in_map_iff in Ez as (x & Ex & Hx).
    inversion Ex; subst. unfold sp_corner in E. pose proof (find_none _ _ E x Hx) as Hn. cbn in Hn.
    rewrite Z.eqb_refl in Hn. discriminate.
Qed.

Section More.
  Variable nv : Z.
  Variable faces : list (list Z).
  Variable m : mesh.
  Variable f : bool.
  Variable T : tables.
  Hypothesis Hwf : wf_faces nv faces.
  Hypothesis Hm : mesh_of nv faces m.
  Hypothesis HT : compute_connectivity m f = Ok T.

  Lemma corner_to_face_correct c :
    p_corner_to_face m f c = match sp_corner faces c with Some x => Ok (cf x) | None => Err EIndex end.
  Proof.
    unfold p_corner_to_face. rewrite (guard_ok m f T HT). cbn [bind].
    destruct Hm as (_ & _ & Ec & _). rewrite Ec, corners_zth. destruct (sp_corner faces c); reflexivity.
  Qed.

  Lemma corner_to_face_valid c : valid_corner faces c -> p_corner_to_face m f c = Ok (sp_corner_face faces c).
  Proof.
    intros (x & Hx & <-). rewrite corner_to_face_correct. unfold sp_corner_face. rewrite (sp_corner_self faces x Hx). reflexivity.
  Qed.

  (* faces around a vertex = the faces of its corner list, in the same order *)
  Lemma vertex_to_faces_correct A l :
    p_vertex_to_corners m f A = Ok (Some l) -> (forall c, In c l -> valid_corner faces c) ->
    p_vertex_to_faces m f A = Ok (map (sp_corner_face faces) l).
  Proof.
    intros E Hv. unfold p_vertex_to_faces. rewrite (guard_ok m f T HT), E. cbn [bind].
    apply mapM_ok. intros c Hc. apply corner_to_face_valid, Hv, Hc.
  Qed.

  (* edges around a vertex = the edge ids towards its vertex list, in the same order *)
  Lemma vertex_to_edges_correct A vs :
    p_vertex_to_vertices m f A = Ok vs ->
    p_vertex_to_edges m f A = Ok (map (sp_edge_id (m_edges m) A) vs).
  Proof.
    intros E. unfold p_vertex_to_edges. rewrite (guard_ok m f T HT), E. cbn [bind].
    apply mapM_ok. intros u _. apply edge_id_correct.
  Qed.

  (* ---- the first corner of a face is its corner at position 0 *)
  Lemma find_face_none F G f0 c0 : f0 <> F -> find (fun y => cf y =? F) (face_corners G f0 c0) = None.
  Proof.
    intros N. destruct (find _ _) as [x|] eqn:E; [|reflexivity]. apply find_some in E as [Hx Ef].
    apply face_corners_In in Hx as (_ & Ecf & _). apply Z.eqb_eq in Ef. congruence.
  Qed.

  Lemma find_face_first fs : forall f0 c0 F x,
    find (fun y => cf y =? F) (corners_from fs f0 c0) = Some x -> ci x = 0.
  Proof.
    induction fs as [|G t IH]; intros f0 c0 F x; cbn [corners_from]; [discriminate|].
    rewrite find_app. destruct (Z.eq_dec f0 F) as [->|N].
    - destruct G as [|v G']; [cbn; apply IH|].
      unfold face_corners, enumerate. cbn [enum_from map find cf fst snd]. rewrite Z.eqb_refl. intros E. inversion E. reflexivity.
    - rewrite (find_face_none F G f0 c0 N). apply IH.
  Qed.

  Lemma first_corner_pos0 F c0 :
    sp_face_to_first_corner faces F = Some c0 ->
    exists x, In x (all_corners faces) /\ cid x = c0 /\ cf x = F /\ ci x = 0.
  Proof.
    unfold sp_face_to_first_corner. destruct (find (fun x => cf x =? F) (all_corners faces)) as [x|] eqn:E; [|discriminate].
    intros H. inversion H; subst. pose proof (find_face_first faces 0 0 F x E) as E0.
    apply find_some in E as [Hx Ef]. apply Z.eqb_eq in Ef. eauto.
  Qed.

  Lemma face_has_first F lF : zth faces F = Some lF -> lF <> [] -> exists c0, sp_face_to_first_corner faces F = Some c0.
  Proof.
    intros Ez Hne. unfold sp_face_to_first_corner.
    destruct (find (fun x => cf x =? F) (all_corners faces)) as [x|] eqn:E; [eauto|]. exfalso.
    destruct lF as [|v lF']; [congruence|].
    set (x := mkC (off faces (Z.to_nat F) + 0) v F 0 (zlen (v :: lF')) (zth_d (v :: lF') ((0 + 1) mod zlen (v :: lF')))
                  (zth_d (v :: lF') ((0 - 1) mod zlen (v :: lF')))).
    assert (Hx : In x (all_corners faces)).
    { apply all_corners_In. exists (v :: lF'). cbn. repeat split; auto. }
    pose proof (find_none _ _ E x Hx) as Hn. cbn in Hn. rewrite Z.eqb_refl in Hn. discriminate.
  Qed.

  (* corners around a face: position by position *)
  Lemma face_to_corners_correct F lF :
    zth faces F = Some lF -> lF <> [] ->
    exists c0, sp_face_to_first_corner faces F = Some c0
      /\ p_face_to_corners m f F = Ok (map (fun i => c0 + i) (zrange (zlen lF)))
      /\ forall i, 0 <= i < zlen lF ->
           exists x, In x (all_corners faces) /\ cf x = F /\ ci x = i /\ cid x = c0 + i /\ zth lF i = Some (cv x).
  Proof.
    intros Ez Hne. destruct (face_has_first F lF Ez Hne) as (c0 & Ec0). exists c0. split; [exact Ec0|]. split.
    - unfold p_face_to_corners, p_face_at. rewrite (guard_ok m f T HT). destruct Hm as (_ & Ef & _). rewrite Ef, Ez. cbn [of_opt bind].
      apply mapM_ok. intros i _. unfold p_adjF2Cn, CR, g_ftc_key, g_ftc_elem. rewrite HT. cbn [bind].
      destruct (T4 nv faces m f T Hwf Hm HT) as (T0 & es & S & (_ & _ & _ & E4)). rewrite E4, (ts_f2c _ _ _ _ S), Ec0. reflexivity.
    - intros i Hi. destruct (first_corner_pos0 F c0 Ec0) as (x0 & Hx0 & E1 & E2 & E3).
      assert (En : cn x0 = zlen lF).
      { apply all_corners_In in Hx0 as (G & H1 & _ & H3 & _). rewrite E2 in H1. congruence. }
      destruct (sibling faces x0 i Hx0 ltac:(lia)) as (y & Hy & A1 & A2 & A3 & A4 & G & B1 & B2).
      exists y. rewrite E2 in B1. assert (G = lF) by congruence. subst G.
      repeat split; auto; try congruence. lia.
  Qed.

  (* edges around a face *)
  Lemma face_to_edges_correct F lF :
    zth faces F = Some lF ->
    p_face_to_edges m f F
    = Ok (map (fun i => sp_edge_id (m_edges m) (zth_d lF i) (zth_d lF ((i + 1) mod zlen lF))) (zrange (zlen lF))).
  Proof.
    intros Ez. unfold p_face_to_edges, p_face_at. rewrite (guard_ok m f T HT). destruct Hm as (_ & Ef & _). rewrite Ef, Ez.
    cbn [of_opt bind]. apply mapM_ok. intros i Hi. apply In_zrange in Hi.
    unfold g_face_to_edges_idx. cbn [fst snd].
    destruct (zth_in_range lF i Hi) as (a & Ea).
    destruct (zth_in_range lF ((i + 1) mod zlen lF)) as (b & Eb); [apply Z.mod_pos_bound; lia|].
    rewrite Ea, Eb. cbn [of_opt bind]. rewrite (zth_d_Some _ _ _ Ea), (zth_d_Some _ _ _ Eb). apply edge_id_correct.
  Qed.

  (* faces around a face: across each side in the order of the sides, border sides skipped *)
  Lemma face_to_faces_correct F lF :
    zth faces F = Some lF -> lF <> [] ->
    exists cs, p_face_to_corners m f F = Ok cs /\
      p_face_to_faces m f F
      = Ok (flat_map (fun c => match sp_opp faces c with Some o => [sp_corner_face faces o] | None => [] end) cs).
  Proof.
    intros Ez Hne. destruct (face_to_corners_correct F lF Ez Hne) as (c0 & _ & Ecs & _).
    eexists. split; [exact Ecs|]. unfold p_face_to_faces. rewrite (guard_ok m f T HT), Ecs. cbn [bind].
    set (cs := map (fun i => c0 + i) (zrange (zlen lF))).
    rewrite (mapM_ok _ (sp_opp faces)) by (intros c _; apply (opposite_corner_correct nv faces m f T Hwf Hm HT)).
    cbn [bind]. rewrite (mapM_ok _ (sp_corner_face faces)).
    - f_equal. induction cs as [|c t IH]; [reflexivity|]. cbn [map flat_map]. rewrite map_app, IH.
      destruct (sp_opp faces c); reflexivity.
    - intros o Ho. apply in_flat_map in Ho as (oc & Hoc & Ho). apply in_map_iff in Hoc as (c & Ec & _).
      destruct oc as [o'|]; [|destruct Ho]. destruct Ho as [<-|[]]. apply corner_to_face_valid.
      unfold sp_opp in Ec. destruct (sp_corner faces c) as [x|]; [|discriminate].
      destruct (sp_he faces (ct x) (cv x)) as [y|] eqn:E; [|discriminate]. inversion Ec.
      apply (sp_he_some faces) in E as (Hy & _). exists y. auto.
  Qed.

  (* ---------------------------------------------------------------- uncached reads *)
  Lemma face_to_vertices_correct F : p_face_to_vertices m f F = of_opt EIndex (zth faces F).
  Proof.
    unfold p_face_to_vertices, p_face_at. rewrite (guard_ok m f T HT). destruct Hm as (_ & Ef & _). rewrite Ef. reflexivity.
  Qed.

  Lemma edge_to_vertices_correct E : p_edge_to_vertices m f E = of_opt EIndex (zth (m_edges m) E).
  Proof. unfold p_edge_to_vertices, p_edge_at. rewrite (guard_ok m f T HT). reflexivity. Qed.

  (* the other end of edge E seen from V: None when V is not an end of E *)
  Definition sp_other_edge_end (edges : list (Z * Z)) (E V : Z) : res (option Z) :=
    match zth edges E with
    | Some (A, B) => Ok (if V =? A then Some B else if V =? B then Some A else None)
    | None => Err EIndex
    end.
  Lemma other_edge_end_correct E V : p_other_edge_end m f E V = sp_other_edge_end (m_edges m) E V.
  Proof.
    unfold p_other_edge_end, p_edge_at, sp_other_edge_end, g_other_edge_end. rewrite (guard_ok m f T HT). cbn [bind].
    destruct (zth (m_edges m) E) as [[A B]|]; reflexivity.
  Qed.

  (* position of the first occurrence *)
  Lemma index_of_spec F V l : forall k,
    match in_face_index_loop F V l k with
    | Some i => k <= i /\ zth l (i - k) = Some V /\ (forall j, 0 <= j < i - k -> zth l j <> Some V)
    | None => ~ In V l
    end.
  Proof.
    induction l as [|x t IH]; intros k; cbn [in_face_index_loop];
      unfold g_in_face_index_default, g_in_face_index_test, g_in_face_index_ret; [intros []|].
    destruct (Z.eqb_spec x V) as [->|N].
    - split; [lia|]. replace (k - k) with 0 by lia. split; [reflexivity|]. intros j Hj. lia.
    - specialize (IH (k + 1)). destruct (in_face_index_loop F V t (k + 1)) as [i|].
      + destruct IH as (H1 & H2 & H3). split; [lia|]. split.
        * rewrite zth_cons_S by lia. replace (i - k - 1) with (i - (k + 1)) by lia. exact H2.
        * intros j Hj. destruct (Z.eq_dec j 0) as [->|Nj]; [cbn; congruence|].
          rewrite zth_cons_S by lia. apply H3. lia.
      + intros [E|Hin]; [congruence|contradiction].
  Qed.

  Lemma in_face_index_correct F V lF :
    zth faces F = Some lF ->
    exists r, p_in_face_index m f F V = Ok r /\
      match r with
      | Some i => zth lF i = Some V /\ (forall j, 0 <= j < i -> zth lF j <> Some V)
      | None => ~ In V lF
      end.
  Proof.
    intros Ez. unfold p_in_face_index, p_face_at. rewrite (guard_ok m f T HT). destruct Hm as (_ & Ef & _). rewrite Ef, Ez.
    cbn [of_opt bind]. eexists. split; [reflexivity|]. pose proof (index_of_spec F V lF 0) as H.
    destruct (in_face_index_loop F V lF 0) as [i|]; [|exact H]. destruct H as (H1 & H2 & H3).
    replace (i - 0) with i in * by lia. split; assumption.
  Qed.

  (* ---------------------------------------------------------------- opposite face with local indices, common edge *)
  Definition sp_side (a b : Z) : option Z * option Z * option Z :=
    match sp_he faces a b with
    | Some x => (Some (cf x), Some (ci x), Some ((ci x + 1) mod cn x))
    | None => (None, None, None)
    end.
  (* across edge (u,v) from face F: the other face with the local indices of u and of v in it *)
  Definition sp_opposite_face_inds (u v F : Z) : list (option Z) :=
    let '(F1, u1, v1) := sp_side u v in
    let '(F2, v2, u2) := sp_side v u in
    if oz_eqb F1 F then [F2; u2; v2] else if oz_eqb F2 F then [F1; u1; v1] else [None; None; None].

  Lemma opposite_face_inds_correct u v F : p_opposite_face_inds m f u v F = Ok (sp_opposite_face_inds u v F).
  Proof.
    unfold p_opposite_face_inds, g_opposite_face_inds_calls, g_opposite_face_inds_ret. cbn beta iota zeta delta [fst snd].
    rewrite (guard_ok m f T HT).
    rewrite !(direct_face_inds_correct nv faces m f T Hwf Hm HT). cbn [bind].
    unfold sp_opposite_face_inds, sp_side, sp_direct_face_inds.
    destruct (sp_he faces u v), (sp_he faces v u); reflexivity.
  Qed.

  Lemma side_corner_of_face F lF i :
    zth faces F = Some lF -> 0 <= i < zlen lF ->
    exists x, In x (all_corners faces) /\ cf x = F /\ ci x = i /\ zth lF i = Some (cv x)
              /\ zth lF ((i + 1) mod zlen lF) = Some (ct x).
  Proof.
    intros Ez Hi. destruct (zth_in_range lF i Hi) as (v & Ev).
    destruct (zth_in_range lF ((i + 1) mod zlen lF)) as (w & Ew); [apply Z.mod_pos_bound; lia|].
    exists (mkC (off faces (Z.to_nat F) + i) v F i (zlen lF) (zth_d lF ((i + 1) mod zlen lF)) (zth_d lF ((i - 1) mod zlen lF))).
    cbn [cf ci cv ct]. rewrite (zth_d_Some _ _ _ Ew). repeat split; auto.
    apply all_corners_In. exists lF. cbn. rewrite (zth_d_Some _ _ _ Ew). repeat split; auto.
  Qed.

  (* the first side of face iF1 (in the order of its sides) across which lies face iF2, as a sorted vertex pair *)
  Fixpoint sp_common_edge_loop (lF : list Z) (iF2 : Z) (is : list Z) : list (option Z) :=
    match is with
    | [] => [None; None]
    | i :: t =>
        let A := zth_d lF i in
        let B := zth_d lF ((i + 1) mod zlen lF) in
        if oz_eqb (sp_direct_face faces B A) iF2
        then (let k := keyify2 A B in [Some (fst k); Some (snd k)])
        else sp_common_edge_loop lF iF2 t
    end.

  Lemma common_edge_correct iF1 iF2 lF :
    zth faces iF1 = Some lF ->
    p_common_edge m f iF1 iF2 = Ok (sp_common_edge_loop lF iF2 (zrange (zlen lF))).
  Proof.
    intros Ez. unfold p_common_edge, p_face_at. rewrite (guard_ok m f T HT). destruct Hm as (_ & Ef & _). rewrite Ef, Ez.
    cbn [of_opt bind].
    assert (G : forall is, (forall i, In i is -> 0 <= i < zlen lF) ->
                p_common_edge_loop m f lF (zlen lF) iF1 iF2 is = Ok (sp_common_edge_loop lF iF2 is)).
    { induction is as [|i t IH]; intros Hr; [reflexivity|]. cbn [p_common_edge_loop sp_common_edge_loop].
      unfold g_common_edge_idx, g_common_edge_call, g_common_edge_test, g_common_edge_ret. cbn [fst snd].
      destruct (side_corner_of_face iF1 lF i Ez (Hr i (or_introl eq_refl))) as (x & Hx & Ecf & Eci & Ea & Eb).
      rewrite Ea, Eb. cbn [of_opt bind]. rewrite (zth_d_Some _ _ _ Ea), (zth_d_Some _ _ _ Eb).
      rewrite (opposite_face_correct nv faces m f T Hwf Hm HT). cbn [bind].
      assert (Ed : sp_direct_face faces (cv x) (ct x) = Some iF1).
      { unfold sp_direct_face. rewrite (sp_he_self faces (proj2 Hwf) x Hx). congruence. }
      rewrite Ed. cbn [oz_eqb]. rewrite Z.eqb_refl.
      destruct (oz_eqb (sp_direct_face faces (ct x) (cv x)) iF2); [reflexivity|].
      apply IH. intros j Hj. apply Hr. right. exact Hj. }
    apply G. intros i Hi. apply In_zrange, Hi.
  Qed.
End More.
