(* C01 - generic lemmas for the rotational sort: walking along a chain of a partial function while assigning
   consecutive indices, and the stable insertion sort by key returns THE strictly increasing arrangement. *)
From Coq Require Import ZArith List Bool Lia Sorting.Permutation Sorting.Sorted.
Import ListNotations.
Require Import MV.C01.Defs MV.C01.Model MV.C01.ProofsMaps.
Open Scope Z_scope.

(* ------------------------------------------------------------------ the walk on an abstract step function *)
Fixpoint walk_spec (step : Z -> option Z) (delta : Z) (fuel : nat) (c ind : Z) (si : zmap Z) : zmap Z * bool :=
  match fuel with
  | O => (si, false)
  | S k =>
      let si' := zset c ind si in
      match step c with
      | None => (si', true)
      | Some c' => walk_spec step delta k c' (ind + delta) si'
      end
  end.

Fixpoint chain (step : Z -> option Z) (w : list Z) : Prop :=
  match w with
  | a :: ((b :: _) as t) => step a = Some b /\ chain step t
  | _ => True
  end.

Fixpoint assign (w : list Z) (ind delta : Z) (si : zmap Z) : zmap Z :=
  match w with [] => si | x :: t => assign t (ind + delta) delta (zset x ind si) end.

Lemma last_cons {A} (b : A) t d : last (b :: t) d = last t b.
Proof.
  revert b d. induction t as [|a t IH]; intros b d; [reflexivity|].
  change (last (b :: a :: t) d) with (last (a :: t) d). rewrite (IH a d), (IH a b). reflexivity.
Qed.

Lemma walk_closed step delta rest : forall x0 ind si z,
  chain step (x0 :: rest) -> step (last rest x0) = Some z ->
  walk_spec step delta (length (x0 :: rest)) x0 ind si = (assign (x0 :: rest) ind delta si, false).
Proof.
  induction rest as [|b t IH]; intros x0 ind si z Hc Hl.
  - cbn [last] in Hl. cbn [length walk_spec assign]. rewrite Hl. reflexivity.
  - destruct Hc as [E Hc]. rewrite last_cons in Hl.
    change (length (x0 :: b :: t)) with (S (length (b :: t))).
    cbn [walk_spec]. rewrite E. rewrite (IH b (ind + delta) (zset x0 ind si) z Hc Hl). reflexivity.
Qed.

Lemma walk_open step delta rest : forall x0 ind si fuel,
  chain step (x0 :: rest) -> step (last rest x0) = None -> (length (x0 :: rest) <= fuel)%nat ->
  walk_spec step delta fuel x0 ind si = (assign (x0 :: rest) ind delta si, true).
Proof.
  induction rest as [|b t IH]; intros x0 ind si fuel Hc Hl Hf.
  - destruct fuel; [cbn in Hf; lia|]. cbn [last] in Hl. cbn [walk_spec assign]. rewrite Hl. reflexivity.
  - destruct fuel; [cbn in Hf; lia|]. destruct Hc as [E Hc]. rewrite last_cons in Hl.
    cbn [walk_spec]. rewrite E.
    rewrite (IH b (ind + delta) (zset x0 ind si) fuel Hc Hl); [reflexivity|]. cbn [length] in *. lia.
Qed.

Lemma assign_other w ind delta si c : ~ In c w -> zget c (assign w ind delta si) = zget c si.
Proof.
  revert ind si. induction w as [|x t IH]; intros ind si H; cbn [assign]; [reflexivity|].
  rewrite IH by (intros Hc; apply H; right; exact Hc).
  apply zget_zset_other. intros ->. apply H. left. reflexivity.
Qed.

Lemma assign_nth w ind delta si j c :
  NoDup w -> nth_error w j = Some c -> zget c (assign w ind delta si) = Some (ind + Z.of_nat j * delta).
Proof.
  revert ind si j. induction w as [|x t IH]; intros ind si j Hn Hj; [destruct j; discriminate|].
  inversion Hn; subst. cbn [assign]. destruct j as [|j]; cbn in Hj.
  - inversion Hj; subst. rewrite assign_other by assumption. rewrite zget_zset_same. f_equal. lia.
  - rewrite (IH (ind + delta) _ j); [f_equal; lia|assumption|assumption].
Qed.

(* ------------------------------------------------------------------ insertion sort: permutation, for any comparison *)
Lemma insert_perm_gen {A} (leb : A -> A -> bool) x l : Permutation (insert_by leb x l) (x :: l).
Proof.
  induction l as [|y t IH]; cbn; [apply Permutation_refl|].
  destruct (leb x y); [apply Permutation_refl|].
  eapply Permutation_trans; [apply perm_skip, IH|apply perm_swap].
Qed.
Lemma sort_perm_gen {A} (leb : A -> A -> bool) l : Permutation (sort_by leb l) l.
Proof.
  induction l as [|x t IH]; cbn; [constructor|].
  eapply Permutation_trans; [apply insert_perm_gen|]. apply perm_skip, IH.
Qed.

(* ------------------------------------------------------------------ insertion sort by an integer key *)
Section SortKey.
  Context {A : Type} (key : A -> Z).
  Let leb (a b : A) : bool := key a <=? key b.

  Lemma insert_perm x l : Permutation (insert_by leb x l) (x :: l).
  Proof.
    induction l as [|y t IH]; cbn; [apply Permutation_refl|].
    destruct (leb x y); [apply Permutation_refl|].
    eapply Permutation_trans; [apply perm_skip, IH|apply perm_swap].
  Qed.
  Lemma sort_perm l : Permutation (sort_by leb l) l.
  Proof.
    induction l as [|x t IH]; cbn; [constructor|].
    eapply Permutation_trans; [apply insert_perm|]. apply perm_skip, IH.
  Qed.

  Definition incr (l : list A) : Prop := StronglySorted (fun a b => key a < key b) l.
  Definition nondecr (l : list A) : Prop := StronglySorted (fun a b => key a <= key b) l.

  Lemma insert_sorted x l : nondecr l -> nondecr (insert_by leb x l).
  Proof.
    induction l as [|y t IH]; intros H; cbn.
    - constructor; constructor.
    - unfold leb at 1. destruct (key x <=? key y) eqn:E.
      + constructor; [exact H|]. inversion H; subst. constructor; [lia|].
        eapply Forall_impl; [|eassumption]. intros a Ha. cbn in Ha. lia.
      + inversion H; subst. constructor; [apply IH; assumption|].
        rewrite Forall_forall. intros a Ha. apply (Permutation_in _ (insert_perm x t)) in Ha.
        destruct Ha as [<-|Ha]; [lia|]. rewrite Forall_forall in H3. apply H3, Ha.
  Qed.
  Lemma sort_sorted l : nondecr (sort_by leb l).
  Proof. induction l as [|x t IH]; cbn; [constructor|apply insert_sorted, IH]. Qed.

  (* two key-sorted arrangements of the same elements, one of them strictly: equal *)
  Lemma sorted_unique l1 l2 : Permutation l1 l2 -> nondecr l1 -> incr l2 -> l1 = l2.
  Proof.
    revert l2. induction l1 as [|a t IH]; intros l2 Hp H1 H2.
    - apply Permutation_nil in Hp. subst. reflexivity.
    - destruct l2 as [|b s]; [apply Permutation_sym, Permutation_nil in Hp; discriminate|].
      inversion H1 as [|? ? Ht Ha]; subst. inversion H2 as [|? ? Hs Hb]; subst.
      rewrite Forall_forall in Ha, Hb.
      assert (Eab : a = b).
      { assert (Ia : In a (b :: s)) by (apply (Permutation_in _ Hp); left; reflexivity).
        assert (Ib : In b (a :: t)) by (apply (Permutation_in _ (Permutation_sym Hp)); left; reflexivity).
        destruct Ia as [->|Ia]; [reflexivity|]. destruct Ib as [->|Ib]; [reflexivity|].
        specialize (Ha b Ib). specialize (Hb a Ia). lia. }
      subst b. f_equal. apply IH; auto. eapply Permutation_cons_inv; eauto.
  Qed.

  Lemma sort_by_unique l l' : Permutation l l' -> incr l' -> sort_by leb l = l'.
  Proof.
    intros Hp Hi. apply sorted_unique; [|apply sort_sorted|exact Hi].
    eapply Permutation_trans; [apply sort_perm|exact Hp].
  Qed.
End SortKey.

(* strictly increasing keys along l, given positionally *)
Lemma incr_by_index {A} (key : A -> Z) (l : list A) (base : Z) :
  (forall j x, nth_error l j = Some x -> key x = base + Z.of_nat j) -> incr key l.
Proof.
  revert base. induction l as [|a t IH]; intros base H; [constructor|].
  constructor.
  - apply (IH (base + 1)). intros j x Hj. rewrite (H (S j) x Hj). lia.
  - rewrite Forall_forall. intros x Hx. apply In_nth_error in Hx as (j & Hj).
    rewrite (H 0%nat a eq_refl), (H (S j) x Hj). lia.
Qed.

Lemma NoDup_perm_same {A} (l1 l2 : list A) :
  NoDup l1 -> NoDup l2 -> (forall x, In x l1 <-> In x l2) -> Permutation l1 l2.
Proof. intros. apply NoDup_Permutation; assumption. Qed.

(* ------------------------------------------------------------------ keys left by `assign` *)
Definition key_of (si : zmap Z) (c : Z) : Z := match zget c si with Some k => k | None => 0 end.

Lemma incr_app {A} (key : A -> Z) l1 l2 :
  incr key l1 -> incr key l2 -> (forall a b, In a l1 -> In b l2 -> key a < key b) -> incr key (l1 ++ l2).
Proof.
  induction l1 as [|x t IH]; intros H1 H2 H; cbn; [exact H2|].
  inversion H1; subst. constructor.
  - apply IH; auto. intros a b Ha Hb. apply H; [right; exact Ha|exact Hb].
  - rewrite Forall_forall in *. intros y Hy. apply in_app_or in Hy as [Hy|Hy]; [auto|].
    apply H; [left; reflexivity|exact Hy].
Qed.

Lemma incr_ext {A} (k1 k2 : A -> Z) l : (forall a, In a l -> k1 a = k2 a) -> incr k1 l -> incr k2 l.
Proof.
  induction l as [|x t IH]; intros He H; [constructor|].
  inversion H; subst. constructor.
  - apply IH; auto. intros a Ha. apply He. right. exact Ha.
  - rewrite Forall_forall in *. intros y Hy. rewrite <- (He x), <- (He y); [auto|right; exact Hy|left; reflexivity].
Qed.

Lemma assign_decr w : NoDup w -> forall ind si,
  let g := key_of (assign w ind (-1) si) in
  incr g (rev w) /\ (forall c, In c w -> ind - Z.of_nat (length w) < g c <= ind)
  /\ (match w with x :: _ => g x = ind | [] => True end).
Proof.
  induction w as [|x t IH]; intros Hn ind si g; [split; [constructor|split; [intros c []|exact I]]|].
  inversion Hn; subst. specialize (IH H2 (ind + -1) (zset x ind si)). cbn zeta in IH.
  destruct IH as (I1 & I2 & _).
  assert (Ex : g x = ind).
  { unfold g, key_of. cbn [assign]. rewrite assign_other by assumption. rewrite zget_zset_same. reflexivity. }
  split; [|split; [|exact Ex]].
  - cbn [rev]. apply incr_app; [exact I1|constructor; constructor|].
    intros a b Ha [<-|[]]. apply in_rev in Ha. rewrite Ex. specialize (I2 a Ha). unfold g. cbn [assign]. lia.
  - intros c [<-|Hc]; [cbn [length]; lia|]. specialize (I2 c Hc). unfold g. cbn [assign length]. lia.
Qed.

Lemma assign_incr w : NoDup w -> forall ind si,
  let g := key_of (assign w ind 1 si) in
  incr g w /\ (forall c, In c w -> ind <= g c)
  /\ (match w with x :: t => g x = ind /\ (forall c, In c t -> ind < g c) | [] => True end).
Proof.
  induction w as [|x t IH]; intros Hn ind si g; [split; [constructor|split; [intros c []|exact I]]|].
  inversion Hn; subst. specialize (IH H2 (ind + 1) (zset x ind si)). cbn zeta in IH.
  destruct IH as (I1 & I2 & _).
  assert (Ex : g x = ind).
  { unfold g, key_of. cbn [assign]. rewrite assign_other by assumption. rewrite zget_zset_same. reflexivity. }
  assert (Ht : forall c, In c t -> ind < g c).
  { intros c Hc. specialize (I2 c Hc). unfold g. cbn [assign]. lia. }
  split; [|split; [|split; assumption]].
  - constructor; [exact I1|]. rewrite Forall_forall. intros c Hc. rewrite Ex. apply Ht, Hc.
  - intros c [<-|Hc]; [lia|]. specialize (Ht c Hc). lia.
Qed.

Lemma chain_snoc step w a d : chain step w -> (w <> [] -> step (last w d) = Some a) -> chain step (w ++ [a]).
Proof.
  induction w as [|x t IH]; intros Hc Hl; [exact I|].
  destruct t as [|y t].
  - cbn. split; [apply Hl; discriminate|exact I].
  - destruct Hc as [E Hc]. change ((x :: y :: t) ++ [a]) with (x :: (y :: t) ++ [a]). cbn [app chain].
    split; [exact E|]. apply IH; [exact Hc|]. intros _. exact (Hl ltac:(discriminate)).
Qed.

Lemma mapM_ok {A B} (f : A -> res B) (g : A -> B) l : (forall x, In x l -> f x = Ok (g x)) -> mapM f l = Ok (map g l).
Proof.
  induction l as [|x t IH]; intros H; [reflexivity|].
  cbn [mapM map]. rewrite (H x (or_introl eq_refl)), IH; [reflexivity|]. intros y Hy. apply H. right. exact Hy.
Qed.

(* ------------------------------------------------------------------ sorting with two comparisons that agree on the list *)
Lemma insert_by_ext {A} (l1 l2 : A -> A -> bool) x l :
  (forall y, In y l -> l1 x y = l2 x y) -> insert_by l1 x l = insert_by l2 x l.
Proof.
  induction l as [|y t IH]; intros H; [reflexivity|]. cbn [insert_by].
  rewrite (H y (or_introl eq_refl)). destruct (l2 x y); [reflexivity|]. f_equal. apply IH. intros z Hz. apply H. right. exact Hz.
Qed.

Lemma sort_by_ext {A} (l1 l2 : A -> A -> bool) l :
  (forall a b, In a l -> In b l -> l1 a b = l2 a b) -> sort_by l1 l = sort_by l2 l.
Proof.
  induction l as [|x t IH]; intros H; [reflexivity|]. cbn [sort_by fold_right].
  change (fold_right (insert_by l1) [] t) with (sort_by l1 t). change (fold_right (insert_by l2) [] t) with (sort_by l2 t).
  rewrite IH by (intros a b Ha Hb; apply H; right; assumption).
  apply insert_by_ext. intros y Hy. apply H; [left; reflexivity|]. right.
  eapply Permutation_in; [apply sort_perm_gen|exact Hy].
Qed.

Lemma assign_some w : forall ind d si c, In c w -> zget c (assign w ind d si) <> None.
Proof.
  induction w as [|x t IH]; intros ind d si c Hc; [destruct Hc|]. cbn [assign].
  destruct (in_dec Z.eq_dec c t) as [Ht|Ht]; [apply IH, Ht|].
  destruct Hc as [->|Hc]; [|contradiction]. rewrite assign_other by exact Ht. rewrite zget_zset_same. discriminate.
Qed.

Lemma incr_map {A B} (key : B -> Z) (h : A -> B) l : incr (fun a => key (h a)) l -> incr key (map h l).
Proof.
  induction l as [|a t IH]; intros H; [constructor|]. inversion H; subst. cbn [map]. constructor; [apply IH; assumption|].
  rewrite Forall_forall in *. intros b Hb. apply in_map_iff in Hb as (a' & <- & Ha'). auto.
Qed.

Lemma incr_NoDup {A} (key : A -> Z) l : incr key l -> NoDup l.
Proof.
  induction l as [|a t IH]; intros H; [constructor|]. inversion H; subst. constructor; [|apply IH; assumption].
  intros Hin. rewrite Forall_forall in H3. specialize (H3 a Hin). lia.
Qed.
