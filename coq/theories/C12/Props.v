(* C12 property theorems only: each closed by `exact <lemma>` with Print Assumptions beneath. *)
From Coq Require Import Reals List.
Import ListNotations.
Require Import MV.C12.Model MV.C12.Gen MV.C12.Proofs.
Open Scope R_scope.

Theorem C12_cross_expansion : forall a0 a1 a2 b0 b1 b2 : R,
  g_cross R Rops [a0; a1; a2] [b0; b1; b2] = [a1 * b2 - a2 * b1; a2 * b0 - a0 * b2; a0 * b1 - a1 * b0].
Proof. exact cross_expansion. Qed.
Print Assumptions C12_cross_expansion.
