(* C12 property theorems only: each closed by `exact <lemma>` with Print Assumptions beneath.
   All definitions named g_*, aabb_*, vec_*, rot_*, m_* and fx_table are GENERATED from the current source
   (Gen.v); RO = Rops, the operations record instantiated with Coq's reals. *)
From Coq Require Import Reals List Bool String.
Import ListNotations.
Require Import MV.C12.Model MV.C12.Gen MV.C12.ProofsLib MV.C12.ProofsBox MV.C12.ProofsVec MV.C12.ProofsFx MV.C12.ProofsEx MV.C12.ProofsR7.
Open Scope R_scope.

(* ---------------------------------------------------------------- boxes *)
(* the projection lies in the closed box and realises the point-box distance in each of the three norms *)
Theorem C12_box_project : forall (b : box R) (p q : vec R) (k : nkind),
  nonempty b -> k <> KBad -> aabb_project R RO b p = Ret q ->
  in_box b q /\
  exists d, aabb_distance R RO b p k = Ret d /\
            g_norm R RO (vsub RO p q) k = Ret d /\
            forall q' d', in_box b q' -> g_norm R RO (vsub RO p q') k = Ret d' -> d <= d'.
Proof. exact box_project. Qed.
Print Assumptions C12_box_project.

Theorem C12_box_project_total : forall (b : box R) (p : vec R),
  wf_box b -> List.length p = bdim b -> exists q, aabb_project R RO b p = Ret q.
Proof. exact box_project_total. Qed.
Print Assumptions C12_box_project_total.

Theorem C12_box_wrong_dimension_raises : forall (b : box R) (p : vec R) (k : nkind),
  List.length p <> bdim b ->
  aabb_project R RO b p = Raise IncompatibleDimension /\
  aabb_distance R RO b p k = Raise IncompatibleDimension /\
  aabb_contains_point R RO b p = Raise IncompatibleDimension.
Proof. exact box_wrong_dimension. Qed.
Print Assumptions C12_box_wrong_dimension_raises.

Theorem C12_box_contained_distance_zero : forall (b : box R) (p : vec R) (k : nkind),
  wf_box b -> k <> KBad -> aabb_contains_point R RO b p = Ret true -> aabb_distance R RO b p k = Ret 0.
Proof. exact box_contained_distance_zero. Qed.
Print Assumptions C12_box_contained_distance_zero.

Theorem C12_box_contains_half_open : forall (b : box R) (p : vec R) (c : bool),
  wf_box b -> aabb_contains_point R RO b p = Ret c ->
  (c = true <-> all3 (fun l h x => l <= x < h) (blo b) (bhi b) p).
Proof. exact box_contains_spec. Qed.
Print Assumptions C12_box_contains_half_open.

Theorem C12_box_union : forall b1 b2 u : box R,
  wf_box b1 -> wf_box b2 -> aabb_union R RO b1 b2 = Ret u ->
  (forall p, in_box b1 p -> in_box u p) /\ (forall p, in_box b2 p -> in_box u p) /\
  (forall v, wf_box v -> bdim v = bdim b1 ->
             (forall p, in_box b1 p -> in_box v p) -> (forall p, in_box b2 p -> in_box v p) ->
             nonempty b1 -> nonempty b2 -> forall p, in_box u p -> in_box v p).
Proof. exact box_union. Qed.
Print Assumptions C12_box_union.

Theorem C12_box_intersection : forall b1 b2 w : box R,
  wf_box b1 -> wf_box b2 -> aabb_intersection R RO b1 b2 = Ret w ->
  forall p, in_box w p <-> in_box b1 p /\ in_box b2 p.
Proof. exact box_intersection. Qed.
Print Assumptions C12_box_intersection.

Theorem C12_box_do_intersect : forall (b1 b2 w : box R) (r : bool),
  wf_box b1 -> wf_box b2 -> aabb_do_intersect R RO b1 b2 = Ret r -> aabb_intersection R RO b1 b2 = Ret w ->
  (r = true <-> Forall (fun e => 0 <= e) (aabb_span R RO w)) /\
  (r = true <-> exists p, in_box b1 p /\ in_box b2 p).
Proof. exact box_do_intersect. Qed.
Print Assumptions C12_box_do_intersect.

Theorem C12_box_of_points_tight : forall (pts : list (vec R)) (pad : R) (b : box R),
  aabb_of_points R RO pts pad = Ret b ->
  pts <> [] /\ wf_box b /\
  (forall p, In p pts -> all3 (fun l h x => l + pad <= x <= h - pad) (blo b) (bhi b) p) /\
  (forall j, (j < bdim b)%nat ->
     (exists p, In p pts /\ nth j p 0 = nth j (blo b) 0 + pad) /\
     (exists p, In p pts /\ nth j p 0 = nth j (bhi b) 0 - pad)).
Proof. exact box_of_points. Qed.
Print Assumptions C12_box_of_points_tight.

Theorem C12_box_pad : forall (b b' : box R) (v : vec R),
  wf_box b -> aabb_pad_vec R RO b v = Ret b' ->
  wf_box b' /\ (forall p, in_box b p -> in_box b' p) /\ (Forall (fun y => y <= 0) v -> b' = b).
Proof. exact box_pad. Qed.
Print Assumptions C12_box_pad.

Theorem C12_box_unit_cube : forall (n : nat) (c : bool) (b : box R),
  aabb_unit_cube R RO n c = Ret b -> bdim b = n /\ nonempty b /\ aabb_span R RO b = repeat 1 n.
Proof. exact box_unit_cube. Qed.
Print Assumptions C12_box_unit_cube.

(* the default values extracted from the def lines of the optional parameters are the documented ones *)
Theorem C12_defaults_documented :
  dflt_vec_norm_which R RO = L2 /\ dflt_vec_normalized_which R RO = L2 /\ dflt_vec_normalize_which R RO = L2 /\
  dflt_g_norm_which R RO = L2 /\ dflt_g_distance_which R RO = L2 /\ dflt_aabb_distance_which R RO = L2 /\
  dflt_aabb_unit_cube_centered R RO = false /\
  dflt_aabb_of_points_padding R RO = 0 /\ dflt_aabb_of_mesh_padding R RO = 0.
Proof. exact defaults_documented. Qed.
Print Assumptions C12_defaults_documented.

(* operators and properties of AABB / Vec: & | dim mini maxi, x y z xy and their setters *)
Theorem C12_operators_and_properties : forall (b1 b2 : box R) (v : vec R) (a : R),
  aabb_and R RO b1 b2 = aabb_intersection R RO b1 b2 /\ aabb_or R RO b1 b2 = aabb_union R RO b1 b2 /\
  aabb_dim R RO b1 = bdim b1 /\ aabb_mini R RO b1 = blo b1 /\ aabb_maxi R RO b1 = bhi b1 /\
  vec_x R RO v = nth 0 v 0 /\ vec_y R RO v = nth 1 v 0 /\ vec_z R RO v = nth 2 v 0 /\ vec_xy R RO v = firstn 2 v /\
  vec_set_x R RO v a = vset v 0 a /\ vec_set_y R RO v a = vset v 1 a /\ vec_set_z R RO v a = vset v 2 a.
Proof. exact operators_and_properties. Qed.
Print Assumptions C12_operators_and_properties.

Theorem C12_setter_writes_one_component : forall (v : vec R) (i j : nat) (a : R), (i < List.length v)%nat ->
  List.length (vset v i a) = List.length v /\ nth j (vset v i a) 0 = if Nat.eqb j i then a else nth j v 0.
Proof. exact vset_spec. Qed.
Print Assumptions C12_setter_writes_one_component.

(* ---------------------------------------------------------------- cross / determinants *)
Theorem C12_cross_expansion : forall a0 a1 a2 b0 b1 b2 : R,
  g_cross R RO [a0; a1; a2] [b0; b1; b2] = [a1 * b2 - a2 * b1; a2 * b0 - a0 * b2; a0 * b1 - a1 * b0].
Proof. exact cross_expansion. Qed.
Print Assumptions C12_cross_expansion.

Theorem C12_det_expansions : forall a0 a1 a2 b0 b1 b2 c0 c1 c2 : R,
  g_det_2x2 R RO [a0; a1] [b0; b1] = a0 * b1 - a1 * b0 /\
  g_det_3x3 R RO [a0; a1; a2] [b0; b1; b2] [c0; c1; c2]
  = a0 * (b1 * c2 - b2 * c1) - a1 * (b0 * c2 - b2 * c0) + a2 * (b0 * c1 - b1 * c0) /\
  g_det_3x3 R RO [a0; a1; a2] [b0; b1; b2] [c0; c1; c2]
  = g_dot R RO [a0; a1; a2] (g_cross R RO [b0; b1; b2] [c0; c1; c2]).
Proof. exact det_expansions. Qed.
Print Assumptions C12_det_expansions.

(* each column of det_2x2 may independently be a complex number or an array: all four combinations give
   x1*y2 - y1*x2 (rep2 true = complex, rep2 false = array), as does the array-only instance used by the callers *)
Theorem C12_det_2x2_representation_independent : forall (ca cb : bool) (x1 y1 x2 y2 : R),
  g_det_2x2_any R RO (rep2 ca x1 y1) (rep2 cb x2 y2) = Ret (x1 * y2 - y1 * x2) /\
  g_det_2x2 R RO [x1; y1] [x2; y2] = x1 * y2 - y1 * x2.
Proof. exact det2_representation_independent. Qed.
Print Assumptions C12_det_2x2_representation_independent.

Theorem C12_lagrange : forall a0 a1 a2 b0 b1 b2 : R,
  let a := [a0; a1; a2] in let b := [b0; b1; b2] in
  g_dot R RO (g_cross R RO a b) (g_cross R RO a b)
  = g_dot R RO a a * g_dot R RO b b - g_dot R RO a b * g_dot R RO a b /\
  g_dot R RO (g_cross R RO a b) a = 0 /\ g_dot R RO (g_cross R RO a b) b = 0 /\
  g_cross R RO b a = vneg RO (g_cross R RO a b).
Proof. exact lagrange. Qed.
Print Assumptions C12_lagrange.

(* ---------------------------------------------------------------- rotations *)
Theorem C12_rotation_isometry : forall (x y z a0 a1 a2 angle c s : R) (out : vec R),
  c * c + s * s = 1 ->
  rot_rotate_around_axis R RO [x; y; z] [a0; a1; a2] angle c s = Ret out -> sumsq out = sumsq [x; y; z].
Proof. exact rotation_isometry. Qed.
Print Assumptions C12_rotation_isometry.

Theorem C12_rotation_fixes_axis : forall (a0 a1 a2 angle c s : R) (out : vec R),
  rot_rotate_around_axis R RO [a0; a1; a2] [a0; a1; a2] angle c s = Ret out -> out = [a0; a1; a2].
Proof. exact rotation_fixes_axis. Qed.
Print Assumptions C12_rotation_fixes_axis.

(* angle_ok a : a = 0 or |a| >= 1e-12, the code's own cut-off below which it does not rotate at all *)
Theorem C12_rotation_additive : forall (x y z a0 a1 a2 a b : R) (r1 r2 : vec R),
  angle_ok a -> angle_ok b -> angle_ok (a + b) ->
  rot_rotate_around_axis R RO [x; y; z] [a0; a1; a2] a (cos a) (sin a) = Ret r1 ->
  rot_rotate_around_axis R RO r1 [a0; a1; a2] b (cos b) (sin b) = Ret r2 ->
  rot_rotate_around_axis R RO [x; y; z] [a0; a1; a2] (a + b) (cos (a + b)) (sin (a + b)) = Ret r2.
Proof. exact rotation_additive. Qed.
Print Assumptions C12_rotation_additive.

Theorem C12_rotate_2d : forall x y a b : R,
  sumsq (rot_rotate_2d R RO [x; y] a (cos a) (sin a)) = sumsq [x; y] /\
  rot_rotate_2d R RO (rot_rotate_2d R RO [x; y] a (cos a) (sin a)) b (cos b) (sin b)
  = rot_rotate_2d R RO [x; y] (a + b) (cos (a + b)) (sin (a + b)).
Proof. exact rotate_2d_laws. Qed.
Print Assumptions C12_rotate_2d.

(* ---------------------------------------------------------------- angles (a pair (x, y) is what atan2(y, x) receives) *)
Theorem C12_angle_3pts_symmetric : forall a0 a1 a2 b0 b1 b2 c0 c1 c2 : R,
  let A := [a0; a1; a2] in let B := [b0; b1; b2] in let C := [c0; c1; c2] in
  g_angle_3pts R RO A B C = g_angle_3pts R RO C B A /\ 0 <= snd (g_angle_3pts R RO A B C) /\
  fst (g_angle_3pts R RO A B C) = g_dot R RO (vsub RO A B) (vsub RO C B) /\
  snd (g_angle_3pts R RO A B C) = sqrt (sumsq (g_cross R RO (vsub RO A B) (vsub RO C B))).
Proof. exact angle_3pts_pair. Qed.
Print Assumptions C12_angle_3pts_symmetric.

Theorem C12_angle_3pts_in_0_pi : forall (A B C : vec R) (theta : R),
  is_atan2 theta (snd (g_angle_3pts R RO A B C)) (fst (g_angle_3pts R RO A B C)) -> 0 <= theta <= PI.
Proof. exact angle_3pts_range. Qed.
Print Assumptions C12_angle_3pts_in_0_pi.

(* Full statement: for all V1 V2 N, signed_angle(V2, V1, N) = - signed_angle(V1, V2, N) (mod 2 pi).
   Proved under the guard that N orients the pair ((V1 x V2).N <> 0) or the vectors are collinear;
   C12_signed_angle_guard_is_needed shows the guard cannot be dropped (N in the plane of V1, V2). *)
Theorem C12_signed_angle_antisymmetric_partial : forall a0 a1 a2 b0 b1 b2 n0 n1 n2 : R,
  let V1 := [a0; a1; a2] in let V2 := [b0; b1; b2] in let N := [n0; n1; n2] in
  g_dot R RO (g_cross R RO V1 V2) N <> 0 \/ g_cross R RO V1 V2 = [0; 0; 0] ->
  g_signed_angle_2vec3D R RO V2 V1 N = conj (g_signed_angle_2vec3D R RO V1 V2 N).
Proof. exact signed_angle_antisym. Qed.
Print Assumptions C12_signed_angle_antisymmetric_partial.

(* the FULL statement is false of the faithful model (known finding fn/sangle2/antisymmetric/normal-in-plane): with the
   reference normal in the plane of the two vectors both orders return the same angle pi/2 *)
Theorem C12_signed_angle_antisymmetric_refuted :
  exists V1 V2 N : vec R,
    g_signed_angle_2vec3D R RO V2 V1 N <> conj (g_signed_angle_2vec3D R RO V1 V2 N) /\
    g_signed_angle_2vec3D R RO V1 V2 N = (0, 1) /\ g_signed_angle_2vec3D R RO V2 V1 N = (0, 1).
Proof. exact signed_angle_antisymmetry_refuted. Qed.
Print Assumptions C12_signed_angle_antisymmetric_refuted.

Theorem C12_signed_angle_guard_is_needed :
  g_signed_angle_2vec3D R RO [0; 1; 0] [1; 0; 0] [1; 0; 0] = g_signed_angle_2vec3D R RO [1; 0; 0] [0; 1; 0] [1; 0; 0]
  /\ snd (g_signed_angle_2vec3D R RO [1; 0; 0] [0; 1; 0] [1; 0; 0]) = 1.
Proof. exact signed_angle_guard_needed. Qed.
Print Assumptions C12_signed_angle_guard_is_needed.

Theorem C12_angle_2vec2D_antisymmetric : forall a0 a1 b0 b1 : R,
  g_angle_2vec2D R RO [b0; b1] [a0; a1] = conj (g_angle_2vec2D R RO [a0; a1] [b0; b1]).
Proof. exact angle_2vec2D_antisym. Qed.
Print Assumptions C12_angle_2vec2D_antisymmetric.

(* cotan * tan = 1 with tan(ABC) = |BA x BC| / (BA . BC) *)
Theorem C12_cotan_reciprocal_tangent : forall a0 a1 a2 b0 b1 b2 c0 c1 c2 k : R,
  let u := vsub RO [a0; a1; a2] [b0; b1; b2] in let v := vsub RO [c0; c1; c2] [b0; b1; b2] in
  sumsq (g_cross R RO u v) <> 0 ->
  g_cotan R RO [a0; a1; a2] [b0; b1; b2] [c0; c1; c2] = Ret k ->
  k * sqrt (sumsq (g_cross R RO u v)) = g_dot R RO u v.
Proof. exact cotan_spec. Qed.
Print Assumptions C12_cotan_reciprocal_tangent.

Theorem C12_circumcenter_equidistant : forall (a0 a1 a2 b0 b1 b2 c0 c1 c2 : R) (P : vec R),
  g_circumcenter R RO [a0; a1; a2] [b0; b1; b2] [c0; c1; c2] = Ret P ->
  sumsq (vsub RO P [a0; a1; a2]) = sumsq (vsub RO P [b0; b1; b2]) /\
  sumsq (vsub RO P [a0; a1; a2]) = sumsq (vsub RO P [c0; c1; c2]) /\
  g_det_3x3 R RO (vsub RO P [a0; a1; a2]) (vsub RO [b0; b1; b2] [a0; a1; a2]) (vsub RO [c0; c1; c2] [a0; a1; a2]) = 0.
Proof. exact circumcenter_equidistant. Qed.
Print Assumptions C12_circumcenter_equidistant.

(* ---------------------------------------------------------------- maths.py *)
Theorem C12_principal_angle : forall a : R,
  (exists k : Z, m_principal_angle R RO a = a + 2 * PI * IZR k) /\ - PI < m_principal_angle R RO a <= PI.
Proof. exact principal_angle_spec. Qed.
Print Assumptions C12_principal_angle.

Theorem C12_angle_diff : forall a b : R,
  (exists k : Z, m_angle_diff R RO a b = (a - b) + 2 * PI * IZR k) /\ - PI <= m_angle_diff R RO a b < PI.
Proof. exact angle_diff_spec. Qed.
Print Assumptions C12_angle_diff.

(* with (|c|, t) = cmath.polar(c): every returned root, to the n-th power, is (cos t, sin t) = c / |c| *)
Theorem C12_roots_power : forall (t : R) (n k : nat), (0 < n)%nat ->
  let th := m_root_angle R RO t (INR k) (INR n) in
  cpow (cos th, sin th) n = (cos t, sin t).
Proof. exact roots_power. Qed.
Print Assumptions C12_roots_power.

(* every root returned by solve_quadratic is a root (outside the code's own |delta| < 1e-14 tolerance) *)
Theorem C12_solve_quadratic_roots : forall A B C x : R,
  In x (m_solve_quadratic R RO A B C) -> A = 0 \/ eps14 <= Rabs (B * B - 4 * A * C) -> A * x * x + B * x + C = 0.
Proof. exact solve_quadratic_roots. Qed.
Print Assumptions C12_solve_quadratic_roots.

(* the whole comprehension of roots(c, n) with normalize=True: n angles, radius 1, every one an n-th root of c/|c|
   (cmath.polar / cmath.rect themselves are the numerical shell) *)
Theorem C12_roots_list : forall (t : R) (n : nat),
  List.length (m_roots_angles R RO t n) = n /\
  forall th, In th (m_roots_angles R RO t n) -> cpow (cos th, sin th) n = (cos t, sin t).
Proof. exact roots_list. Qed.
Print Assumptions C12_roots_list.

(* the modulus handed to cmath.rect, both branches of `1 if normalize else r**(1/pow)` (r = |c| > 0): 1 when normalising,
   else the positive n-th root of |c| - so that root^n = c (normalize=False) resp. c/|c| (True, the default) *)
Theorem C12_roots_radius : forall (r : R) (n : nat), 0 < r -> (0 < n)%nat ->
  m_root_radius R RO true r (INR n) = 1 /\
  0 < m_root_radius R RO false r (INR n) /\ (m_root_radius R RO false r (INR n)) ^ n = r /\
  dflt_m_roots_normalize R RO = true.
Proof. exact roots_radius. Qed.
Print Assumptions C12_roots_radius.

(* degenerate inputs (zero vectors, collinear points, parallel lines) *)
Theorem C12_cotan_degenerate : forall a0 a1 a2 b0 b1 b2 c0 c1 c2 : R,
  let u0 := a0 - b0 in let u1 := a1 - b1 in let u2 := a2 - b2 in
  let v0 := c0 - b0 in let v1 := c1 - b1 in let v2 := c2 - b2 in
  (u0 * u0 + u1 * u1 + u2 * u2 = 0 \/ v0 * v0 + v1 * v1 + v2 * v2 = 0 ->
   g_cotan R RO [a0; a1; a2] [b0; b1; b2] [c0; c1; c2] = Raise FloatingPoint) /\
  (u0 * u0 + u1 * u1 + u2 * u2 <> 0 -> v0 * v0 + v1 * v1 + v2 * v2 <> 0 ->
   sumsq (g_cross R RO [u0; u1; u2] [v0; v1; v2]) = 0 ->
   exists c, (c = 1 \/ c = -1) /\ g_cotan R RO [a0; a1; a2] [b0; b1; b2] [c0; c1; c2] = Ret (c / 0)).
Proof. exact cotan_degenerate. Qed.
Print Assumptions C12_cotan_degenerate.

Theorem C12_circumcenter_degenerate : forall a0 a1 a2 b0 b1 b2 c0 c1 c2 : R,
  sumsq (g_cross R RO [b0 - a0; b1 - a1; b2 - a2] [c0 - a0; c1 - a1; c2 - a2]) = 0 ->
  g_circumcenter R RO [a0; a1; a2] [b0; b1; b2] [c0; c1; c2] = Raise FloatingPoint.
Proof. exact circumcenter_degenerate. Qed.
Print Assumptions C12_circumcenter_degenerate.

(* ---------------------------------------------------------------- no side effects *)
(* the event table regenerated from the five source files passes the purity check ... *)
Theorem C12_fx_table_safe : table_ok fx_table = true.
Proof. exact fx_table_safe. Qed.
Print Assumptions C12_fx_table_safe.

(* ... hence any call of any of their functions, from any state, with any arguments, returning or raising,
   leaves numpy's error register as found, changes no cell that existed before the call - except, for the
   functions documented to modify self, the cells of argument 0 - and stores only fresh arrays in a box *)
Theorem C12_no_side_effects_call : forall (V E : Type) (f : string) (body : list ev) (n0 : nat) (env : nat -> list nat)
    (s : st V E) (o : outcome) (s' : st V E) (sd : list nat),
  lookup fx_table f = Some body -> exec V E fx_table n0 env body s o s' sd ->
  err V E s' = err V E s /\
  (forall c, (c < n0)%nat -> (str_in f self_mutators = false \/ ~ In c (env 0%nat)) -> cells V E s' c = cells V E s c) /\
  Forall (fun c => (n0 <= c)%nat) sd.
Proof. exact no_side_effects_call. Qed.
Print Assumptions C12_no_side_effects_call.

(* the constructors / classmethods / primitives that promise a new object (Model.fresh_returners: unit_cube, infinite,
   of_points, of_mesh, union, intersection, span, center, Vec.zeros/random/X/Y/Z/from_complex, cross, rotate_2d) never
   return a view of an argument, a field of self or an object that outlives the call: what they return is fresh *)
Theorem C12_constructors_return_fresh : forall (f : string) (body : list ev) (n0 : nat) (env : nat -> list nat) (c : nat),
  lookup fx_table f = Some body -> str_in f fresh_returners = true -> may_return n0 env body c -> (n0 <= c)%nat.
Proof. exact constructors_return_fresh. Qed.
Print Assumptions C12_constructors_return_fresh.

(* ... and so does any sequence of calls *)
Theorem C12_no_side_effects_history : forall (V E : Type) (s : st V E) (h : list (string * (nat -> list nat) * nat)) (s' : st V E),
  hist V E fx_table s h s' ->
  err V E s' = err V E s /\
  forall c, (forall f env n0, In (f, env, n0) h -> (c < n0)%nat /\ (str_in f self_mutators = false \/ ~ In c (env 0%nat))) ->
            cells V E s' c = cells V E s c.
Proof. exact no_side_effects_history. Qed.
Print Assumptions C12_no_side_effects_history.
