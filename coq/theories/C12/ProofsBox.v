(* C12 - box algebra: theorems about the GENERATED definitions aabb_* of Gen.v, instantiated at R. *)
From Coq Require Import Reals List Bool Arith Lra Lia.
Import ListNotations.
Require Import MV.C12.Model MV.C12.Gen MV.C12.ProofsLib.
Open Scope R_scope.

(* ------------------------------------------------------------------ the norms *)
Definition sumsq (v : list R) : R := fold_right Rplus 0 (map (fun x => x * x) v).
Definition nrm (k : nkind) (v : list R) : R :=
  match k with
  | L2 => sqrt (sumsq v)
  | L1 => fold_right Rplus 0 (map Rabs v)
  | Linf => fold_right Rmax 0 (map Rabs v)
  | KBad => 0
  end.

Lemma vdot_self v : vdot RO v v = sumsq v.
Proof. induction v as [|x v IH]; [reflexivity|]. rewrite vdot_cons, IH. reflexivity. Qed.
Lemma vsum_abs v : vsum RO (vabs RO v) = fold_right Rplus 0 (map Rabs v).
Proof.
  induction v as [|x v IH]; [reflexivity|].
  change (vabs RO (x :: v)) with (oabs RO x :: vabs RO v). rewrite vsum_cons, oabs_R, IH. reflexivity.
Qed.

Lemma vec_norm_spec v k : vec_norm R RO v k = nrm k v.
Proof.
  unfold vec_norm. destruct k; cbn [nkind_eqb nrm]; cbv zeta.
  - cbn [osqrt RO]. now rewrite vdot_self.
  - apply vsum_abs.
  - apply vmaxl_abs.
  - reflexivity.
Qed.
Lemma g_norm_spec v k : k <> KBad -> g_norm R RO v k = Ret (nrm k v).
Proof.
  intros Hk. unfold g_norm. destruct k; try congruence; cbn [nkind_eqb existsb negb orb nrm]; cbv zeta.
  - cbn [osqrt RO]. now rewrite vdot_self.
  - now rewrite vsum_abs.
  - now rewrite vmaxl_abs.
Qed.
Lemma g_norm_bad v : g_norm R RO v KBad = Raise BadArgument.
Proof. reflexivity. Qed.

Lemma sq_abs_le a b : Rabs a <= Rabs b -> a * a <= b * b.
Proof. intros H. apply Rsqr_le_abs_1 in H. exact H. Qed.
Lemma sumsq_nonneg v : 0 <= sumsq v.
Proof. induction v; simpl; [unfold sumsq; simpl; lra|]. unfold sumsq in *. simpl. nra. Qed.

Lemma nrm_mono k u v : all2 (fun a b => Rabs a <= Rabs b) u v -> nrm k u <= nrm k v.
Proof.
  intros H. destruct k; cbn [nrm]; try lra.
  - apply sqrt_le_1; try apply sumsq_nonneg.
    revert v H; induction u as [|a u IH]; destruct v as [|b v]; simpl; try tauto; try (unfold sumsq; simpl; lra).
    intros [H1 H2]. unfold sumsq in *. simpl. apply sq_abs_le in H1. specialize (IH v H2). lra.
  - revert v H; induction u as [|a u IH]; destruct v as [|b v]; simpl; try tauto; try lra.
    intros [H1 H2]. specialize (IH v H2). lra.
  - revert v H; induction u as [|a u IH]; destruct v as [|b v]; simpl; try tauto; try lra.
    intros [H1 H2]. specialize (IH v H2). apply Rmax_lub.
    + eapply Rle_trans; [exact H1|apply Rmax_l].
    + eapply Rle_trans; [exact IH|apply Rmax_r].
Qed.
Lemma nrm_abs_eq k u v : all2 (fun a b => Rabs a = Rabs b) u v -> nrm k u = nrm k v.
Proof.
  intros H. apply Rle_antisym; apply nrm_mono.
  - eapply all2_impl; [|exact H]. intros; simpl in *; lra.
  - clear -H. revert v H. induction u; destruct v; simpl; try tauto. intros [? ?]; split; [lra|auto].
Qed.
Lemma nrm_zero k v : Forall (fun x => x = 0) v -> nrm k v = 0.
Proof.
  intros H. destruct k; cbn [nrm]; auto.
  - replace (sumsq v) with 0; [apply sqrt_0|]. induction H; [reflexivity|]. unfold sumsq in *. simpl. subst. lra.
  - induction H; simpl; [reflexivity|]. subst. rewrite Rabs_R0. lra.
  - induction H; simpl; [reflexivity|]. subst. rewrite Rabs_R0, IHForall. apply Rmax_left. lra.
Qed.

(* ------------------------------------------------------------------ one coordinate *)
Lemma clamp_coord l h x : l <= h ->
  l <= Rmax l (Rmin h x) <= h /\
  Rabs (Rmax (Rmax (l - x) (x - h)) 0) = Rabs (x - Rmax l (Rmin h x)) /\
  forall q', l <= q' <= h -> Rabs (Rmax (Rmax (l - x) (x - h)) 0) <= Rabs (x - q').
Proof.
  intros Hlh. unfold Rmax, Rmin.
  repeat (destruct (Rle_dec _ _)); repeat split; intros; unfold Rabs; repeat (destruct (Rcase_abs _)); lra.
Qed.

Lemma half_open_coord l h x : l <= x -> x < h -> Rmax l (Rmin h x) = x /\ Rmax (Rmax (l - x) (x - h)) 0 = 0.
Proof. intros. unfold Rmax, Rmin. repeat (destruct (Rle_dec _ _)); split; lra. Qed.

(* ------------------------------------------------------------------ vectors *)
Definition clampv (lo hi p : list R) : list R := vmax RO lo (vmin RO hi p).
Definition distv (lo hi p : list R) : list R := vmaxs RO (vmax RO (vsub RO lo p) (vsub RO p hi)) (oZ RO 0).

Lemma clamp_vec lo hi p : all2 (fun l h => l <= h) lo hi -> length p = length lo ->
  all3 (fun l h x => l <= x <= h) lo hi (clampv lo hi p) /\
  all2 (fun a b => Rabs a = Rabs b) (distv lo hi p) (vsub RO p (clampv lo hi p)) /\
  forall q', all3 (fun l h x => l <= x <= h) lo hi q' ->
             all2 (fun a b => Rabs a <= Rabs b) (distv lo hi p) (vsub RO p q').
Proof.
  revert hi p. induction lo as [|l lo IH]; intros [|h hi] [|x p] Hle Hlen; simpl in Hle, Hlen; try tauto; try discriminate.
  destruct Hle as [Hlh H]. injection Hlen as Hlen. destruct (IH hi p H Hlen) as [I1 [I2 I3]].
    destruct (clamp_coord l h x Hlh) as [C1 [C2 C3]].
    unfold clampv, distv in *. cbn [vmax vmin vsub vmaxs map2 map oZ RO osub all2 all3].
    rewrite !omax_R, !omin_R. repeat split; auto; try apply C1.
    intros [|y q']; cbn [all3 all2 map2]; [tauto|]. intros [Hy Hq]. split; [apply C3; exact Hy|apply I3; exact Hq].
Qed.

Lemma contained_vec lo hi p :
  vle RO lo p && vlt RO p hi = true -> length p = length lo -> length lo = length hi ->
  clampv lo hi p = p /\ Forall (fun x => x = 0) (distv lo hi p).
Proof.
  revert hi p. induction lo as [|l lo IH]; intros [|h hi] [|x p]; simpl; try discriminate; auto.
  { intros _ _ _. split; [reflexivity|constructor]. }
  intros H Hlen Hlen2. injection Hlen as Hlen. injection Hlen2 as Hlen2.
  unfold vle, vlt in H. cbn [forallb2] in H.
  apply andb_true_iff in H as [H1 H2]. apply andb_true_iff in H1 as [H1 H1']. apply andb_true_iff in H2 as [H2 H2'].
  apply oleb_R in H1. apply oltb_R in H2.
  destruct (IH hi p) as [I1 I2]; auto.
  { unfold vle, vlt. rewrite H1', H2'. reflexivity. }
  destruct (half_open_coord l h x H1 H2) as [C1 C2].
  unfold clampv, distv in *. cbn [vmax vmin vsub vmaxs map2 map oZ RO osub].
  rewrite !omax_R, !omin_R. split.
  - f_equal; auto.
  - constructor; auto.
Qed.

(* ------------------------------------------------------------------ project / distance / contains *)
Lemma dim_test (p : list R) (b : box R) :
  negb (Nat.eqb (length p) (bdim b)) = false <-> length p = bdim b.
Proof. rewrite negb_false_iff. apply Nat.eqb_eq. Qed.

Lemma project_value b p : wf_box b -> length p = bdim b ->
  aabb_project R RO b p = Ret (clampv (blo b) (bhi b) p).
Proof.
  intros Hwf Hlen. unfold aabb_project, aabb_contains_point. cbv zeta.
  apply dim_test in Hlen as Hd. rewrite Hd. cbn [bind].
  destruct (vle RO (blo b) p && vlt RO p (bhi b)) eqn:E; [|reflexivity].
  destruct (contained_vec (blo b) (bhi b) p E) as [C _]; auto. now rewrite C.
Qed.
Lemma distance_value b p k : length p = bdim b -> k <> KBad ->
  aabb_distance R RO b p k = Ret (nrm k (distv (blo b) (bhi b) p)).
Proof.
  intros Hlen Hk. unfold aabb_distance. cbv zeta. apply dim_test in Hlen. rewrite Hlen.
  destruct k; try congruence; cbn [existsb nkind_eqb orb negb]; apply g_norm_spec; congruence.
Qed.

Lemma box_wrong_dimension b p k : length p <> bdim b ->
  aabb_project R RO b p = Raise IncompatibleDimension /\
  aabb_distance R RO b p k = Raise IncompatibleDimension /\
  aabb_contains_point R RO b p = Raise IncompatibleDimension.
Proof.
  intros H. apply Nat.eqb_neq in H.
  unfold aabb_project, aabb_distance, aabb_contains_point. cbv zeta. rewrite H. auto.
Qed.

(* The projection of a point lies in the closed box and realises the point-box distance in each norm. *)
Lemma box_project (b : box R) (p q : vec R) (k : nkind) :
  nonempty b -> k <> KBad -> aabb_project R RO b p = Ret q ->
  in_box b q /\
  exists d, aabb_distance R RO b p k = Ret d /\
            g_norm R RO (vsub RO p q) k = Ret d /\
            forall q' d', in_box b q' -> g_norm R RO (vsub RO p q') k = Ret d' -> d <= d'.
Proof.
  intros Hne Hk Hp.
  destruct (Nat.eq_dec (length p) (bdim b)) as [Hlen|Hlen].
  2:{ destruct (box_wrong_dimension b p k Hlen) as [E _]. congruence. }
  pose proof (nonempty_wf b Hne) as Hwf.
  rewrite project_value in Hp by auto. injection Hp as <-.
  destruct (clamp_vec (blo b) (bhi b) p Hne Hlen) as [C1 [C2 C3]].
  split; [exact C1|].
  exists (nrm k (distv (blo b) (bhi b) p)). split; [apply distance_value; auto|]. split.
  - rewrite g_norm_spec by auto. f_equal. symmetry. apply nrm_abs_eq. exact C2.
  - intros q' d' Hq' Hd'. rewrite g_norm_spec in Hd' by auto. injection Hd' as <-.
    apply nrm_mono. apply C3. exact Hq'.
Qed.
Lemma box_project_total (b : box R) (p : vec R) :
  wf_box b -> length p = bdim b -> exists q, aabb_project R RO b p = Ret q.
Proof. intros. eexists. apply project_value; auto. Qed.

(* A contained point is at distance zero. *)
Lemma box_contained_distance_zero (b : box R) (p : vec R) (k : nkind) :
  wf_box b -> k <> KBad -> aabb_contains_point R RO b p = Ret true -> aabb_distance R RO b p k = Ret 0.
Proof.
  intros Hwf Hk H.
  destruct (Nat.eq_dec (length p) (bdim b)) as [Hlen|Hlen].
  2:{ destruct (box_wrong_dimension b p k Hlen) as [_ [_ E]]. congruence. }
  unfold aabb_contains_point in H. cbv zeta in H. apply dim_test in Hlen as Hd. rewrite Hd in H. injection H as H.
  rewrite distance_value by auto. f_equal. apply nrm_zero.
  apply (contained_vec (blo b) (bhi b) p H); auto.
Qed.
(* ... and is its own projection; containment is the half-open test lo <= p < hi *)
Lemma box_contains_spec (b : box R) (p : vec R) (c : bool) :
  wf_box b -> aabb_contains_point R RO b p = Ret c ->
  (c = true <-> all3 (fun l h x => l <= x < h) (blo b) (bhi b) p).
Proof.
  intros Hwf H.
  destruct (Nat.eq_dec (length p) (bdim b)) as [Hlen|Hlen].
  2:{ destruct (box_wrong_dimension b p L2 Hlen) as [_ [_ E]]. congruence. }
  unfold aabb_contains_point in H. cbv zeta in H. apply dim_test in Hlen as Hd. rewrite Hd in H. injection H as <-.
  clear Hd. unfold wf_box, bdim in *. destruct b as [lo hi]. cbn [blo bhi fst snd] in *.
  revert hi p Hwf Hlen. induction lo as [|l lo IH]; intros [|h hi] [|x p]; simpl; try discriminate; try tauto.
  intros Hwf Hlen. injection Hwf as Hwf. injection Hlen as Hlen. specialize (IH hi p Hwf Hlen).
  unfold vle, vlt in *. cbn [forallb2].
  rewrite <- IH. rewrite !andb_true_iff. rewrite oleb_R, oltb_R. tauto.
Qed.

(* ------------------------------------------------------------------ union / intersection / do_intersect *)
Lemma init_value (lo hi : list R) : length lo = length hi -> aabb_init R RO lo hi = Ret (lo, hi).
Proof. intros H. unfold aabb_init. cbv zeta. apply Nat.eqb_eq in H. rewrite H. reflexivity. Qed.
Lemma init_ret (lo hi : list R) b : aabb_init R RO lo hi = Ret b -> b = (lo, hi) /\ length lo = length hi.
Proof.
  unfold aabb_init. cbv zeta. destruct (Nat.eqb (length lo) (length hi)) eqn:E; cbn [negb]; [|discriminate].
  intros H. injection H as <-. split; auto. now apply Nat.eqb_eq.
Qed.

Lemma union_value b1 b2 u : aabb_union R RO b1 b2 = Ret u ->
  bdim b1 = bdim b2 /\ u = (vmin RO (blo b2) (blo b1), vmax RO (bhi b2) (bhi b1)).
Proof.
  unfold aabb_union. cbv zeta. destruct (Nat.eqb (bdim b1) (bdim b2)) eqn:E; cbn [negb]; [|discriminate].
  intros H. apply init_ret in H as [H _]. split; [now apply Nat.eqb_eq|exact H].
Qed.
Lemma inter_value b1 b2 w : aabb_intersection R RO b1 b2 = Ret w ->
  bdim b1 = bdim b2 /\ w = (vmax RO (blo b1) (blo b2), vmin RO (bhi b1) (bhi b2)).
Proof.
  unfold aabb_intersection. cbv zeta. destruct (Nat.eqb (bdim b1) (bdim b2)) eqn:E; cbn [negb]; [|discriminate].
  intros H. apply init_ret in H as [H _]. split; [now apply Nat.eqb_eq|exact H].
Qed.
Lemma union_total b1 b2 : wf_box b1 -> wf_box b2 -> bdim b1 = bdim b2 -> exists u, aabb_union R RO b1 b2 = Ret u.
Proof.
  intros W1 W2 D. unfold aabb_union. cbv zeta. apply Nat.eqb_eq in D as D'. rewrite D'. cbn [negb].
  eexists. apply init_value. unfold vmin_axis0, vmax_axis0. cbn [fold_right].
  unfold vmin, vmax. rewrite !map2_length. unfold wf_box, bdim in *. lia.
Qed.
Lemma inter_total b1 b2 : wf_box b1 -> wf_box b2 -> bdim b1 = bdim b2 -> exists u, aabb_intersection R RO b1 b2 = Ret u.
Proof.
  intros W1 W2 D. unfold aabb_intersection. cbv zeta. apply Nat.eqb_eq in D as D'. rewrite D'. cbn [negb].
  eexists. apply init_value. unfold vmin, vmax. rewrite !map2_length. unfold wf_box, bdim in *. lia.
Qed.

Lemma hull_coords lo1 hi1 lo2 hi2 p :
  length lo1 = length lo2 -> length hi1 = length hi2 ->
  (all3 (fun l h x => l <= x <= h) lo1 hi1 p -> all3 (fun l h x => l <= x <= h) (vmin RO lo2 lo1) (vmax RO hi2 hi1) p) /\
  (all3 (fun l h x => l <= x <= h) lo2 hi2 p -> all3 (fun l h x => l <= x <= h) (vmin RO lo2 lo1) (vmax RO hi2 hi1) p).
Proof.
  revert hi1 lo2 hi2 p. induction lo1 as [|l1 lo1 IH]; intros [|h1 hi1] [|l2 lo2] [|h2 hi2] [|x p]; simpl; try tauto; try discriminate.
  intros E1 E2. injection E1 as E1. injection E2 as E2. destruct (IH hi1 lo2 hi2 p E1 E2) as [I1 I2].
  unfold vmin, vmax in *. rewrite omin_R, omax_R.
  pose proof (Rmin_l l2 l1). pose proof (Rmin_r l2 l1). pose proof (Rmax_l h2 h1). pose proof (Rmax_r h2 h1).
  split; intros [? ?]; (split; [lra|auto]).
Qed.

(* The union contains both operands (and is the least such box: its bounds are the componentwise min / max). *)
Lemma box_union (b1 b2 u : box R) :
  wf_box b1 -> wf_box b2 -> aabb_union R RO b1 b2 = Ret u ->
  (forall p, in_box b1 p -> in_box u p) /\ (forall p, in_box b2 p -> in_box u p) /\
  (forall v, wf_box v -> bdim v = bdim b1 ->
             (forall p, in_box b1 p -> in_box v p) -> (forall p, in_box b2 p -> in_box v p) ->
             nonempty b1 -> nonempty b2 -> forall p, in_box u p -> in_box v p).
Proof.
  intros W1 W2 H. apply union_value in H as [D ->].
  unfold in_box, wf_box, bdim in *. cbn [blo bhi fst snd].
  assert (E2 : length (bhi b1) = length (bhi b2)) by (unfold blo, bhi in *; lia).
  split; [|split].
  - intros p. apply hull_coords; auto.
  - intros p. apply hull_coords; auto.
  - intros v Wv Dv V1 V2 N1 N2 p Hp.
    (* every coordinate bound of u is attained by a corner of b1 or b2, which lies in v *)
    pose proof (V1 (blo b1)) as A1. pose proof (V1 (bhi b1)) as A2.
    pose proof (V2 (blo b2)) as A3. pose proof (V2 (bhi b2)) as A4.
    unfold nonempty in *.
    destruct b1 as [lo1 hi1], b2 as [lo2 hi2], v as [lov hiv]. cbn [blo bhi fst snd] in *.
    assert (B1 : all3 (fun l h x => l <= x <= h) lov hiv lo1).
    { apply A1. clear -N1. revert hi1 N1. induction lo1; destruct hi1; simpl; try tauto. intros [? ?]; split; [lra|auto]. }
    assert (B2 : all3 (fun l h x => l <= x <= h) lov hiv hi1).
    { apply A2. clear -N1. revert hi1 N1. induction lo1; destruct hi1; simpl; try tauto. intros [? ?]; split; [lra|auto]. }
    assert (B3 : all3 (fun l h x => l <= x <= h) lov hiv lo2).
    { apply A3. clear -N2. revert hi2 N2. induction lo2; destruct hi2; simpl; try tauto. intros [? ?]; split; [lra|auto]. }
    assert (B4 : all3 (fun l h x => l <= x <= h) lov hiv hi2).
    { apply A4. clear -N2. revert hi2 N2. induction lo2; destruct hi2; simpl; try tauto. intros [? ?]; split; [lra|auto]. }
    clear A1 A2 A3 A4 V1 V2 N1 N2 Wv Dv W1 W2 D E2.
    revert hiv lo1 hi1 lo2 hi2 p B1 B2 B3 B4 Hp.
    induction lov as [|lv lov IH]; intros [|hv hiv] [|l1 lo1] [|h1 hi1] [|l2 lo2] [|h2 hi2] [|x p]; simpl; try tauto.
    unfold vmin, vmax in *. cbn [map2]. rewrite omin_R, omax_R.
    intros [? B1] [? B2] [? B3] [? B4] [Hx Hp]. split.
    + unfold Rmin, Rmax in Hx. destruct (Rle_dec l2 l1), (Rle_dec h2 h1); lra.
    + apply (IH hiv lo1 hi1 lo2 hi2 p); assumption.
Qed.

Lemma overlap_coords lo1 hi1 lo2 hi2 p :
  length lo1 = length hi1 -> length lo2 = length hi2 -> length lo1 = length lo2 ->
  (all3 (fun l h x => l <= x <= h) (vmax RO lo1 lo2) (vmin RO hi1 hi2) p <->
   all3 (fun l h x => l <= x <= h) lo1 hi1 p /\ all3 (fun l h x => l <= x <= h) lo2 hi2 p).
Proof.
  revert hi1 lo2 hi2 p. induction lo1 as [|l1 lo1 IH]; intros [|h1 hi1] [|l2 lo2] [|h2 hi2] [|x p]; simpl; try tauto; try discriminate.
  intros E1 E2 E3. injection E1 as E1. injection E2 as E2. injection E3 as E3.
  specialize (IH hi1 lo2 hi2 p E1 E2 E3). unfold vmin, vmax in *. rewrite omin_R, omax_R, IH.
  unfold Rmin, Rmax. destruct (Rle_dec l1 l2), (Rle_dec h1 h2); split; intros; repeat split; try tauto; lra.
Qed.

(* The intersection is the componentwise overlap: exactly the points of both boxes. *)
Lemma box_intersection (b1 b2 w : box R) :
  wf_box b1 -> wf_box b2 -> aabb_intersection R RO b1 b2 = Ret w ->
  forall p, in_box w p <-> in_box b1 p /\ in_box b2 p.
Proof.
  intros W1 W2 H p. apply inter_value in H as [D ->]. unfold in_box. cbn [blo bhi fst snd].
  apply overlap_coords; auto.
Qed.

Lemma forallb_map_seq (f : nat -> bool) n :
  forallb (fun b : bool => b) (map f (seq 0 n)) = true <-> forall i, (i < n)%nat -> f i = true.
Proof.
  rewrite forallb_forall. split.
  - intros H i Hi. apply H. apply in_map. apply in_seq. lia.
  - intros H b Hb. apply in_map_iff in Hb as [i [<- Hi]]. apply H. apply in_seq in Hi. lia.
Qed.

Lemma map2_nth {A B C} (f : A -> B -> C) a b da db dc i :
  (i < length a)%nat -> (i < length b)%nat -> nth i (map2 f a b) dc = f (nth i a da) (nth i b db).
Proof.
  revert b i. induction a as [|x a IH]; intros [|y b] i; simpl; try lia.
  destruct i; auto. intros. apply IH; lia.
Qed.

Lemma span_nonneg (lo hi : list R) : length lo = length hi ->
  (all2 (fun l h => l <= h) lo hi <-> Forall (fun e => 0 <= e) (vsub RO hi lo)).
Proof.
  revert hi. induction lo as [|l lo IH]; intros [|h hi]; simpl; try discriminate.
  - intros _. split; auto. intros _. constructor.
  - intros E. injection E as E. specialize (IH hi E). unfold vsub in *. cbn [map2 osub RO]. split.
    + intros [? ?]. constructor; [lra|tauto].
    + intros F. inversion F; subst. split; [lra|tauto].
Qed.
Lemma lo_in_box (lo hi : list R) : all2 (fun l h => l <= h) lo hi -> all3 (fun l h x => l <= x <= h) lo hi lo.
Proof. revert hi. induction lo; destruct hi; simpl; try tauto. intros [? ?]. split; [lra|auto]. Qed.
Lemma hi_in_box (lo hi : list R) : all2 (fun l h => l <= h) lo hi -> all3 (fun l h x => l <= x <= h) lo hi hi.
Proof. revert hi. induction lo; destruct hi; simpl; try tauto. intros [? ?]. split; [lra|auto]. Qed.
Lemma in_box_nonempty (lo hi p : list R) : all3 (fun l h x => l <= x <= h) lo hi p -> all2 (fun l h => l <= h) lo hi.
Proof. revert hi p. induction lo; destruct hi, p; simpl; try tauto. intros [? ?]. split; [lra|eauto]. Qed.

(* Two boxes intersect exactly when the overlap has non-negative extent in every dimension;
   equivalently, exactly when they have a common point. *)
Lemma box_do_intersect (b1 b2 w : box R) (r : bool) :
  wf_box b1 -> wf_box b2 -> aabb_do_intersect R RO b1 b2 = Ret r -> aabb_intersection R RO b1 b2 = Ret w ->
  (r = true <-> Forall (fun e => 0 <= e) (aabb_span R RO w)) /\
  (r = true <-> exists p, in_box b1 p /\ in_box b2 p).
Proof.
  intros W1 W2 Hr Hw. pose proof (box_intersection b1 b2 w W1 W2 Hw) as HI.
  apply inter_value in Hw as [D ->].
  unfold aabb_do_intersect in Hr. cbv zeta in Hr. apply Nat.eqb_eq in D as D'. rewrite D' in Hr. cbn [negb] in Hr.
  injection Hr as <-.
  set (lo := vmax RO (blo b1) (blo b2)). set (hi := vmin RO (bhi b1) (bhi b2)).
  assert (Hlen : length lo = length hi).
  { unfold lo, hi, vmax, vmin. rewrite !map2_length. unfold wf_box, bdim, blo, bhi in *. lia. }
  assert (Hn : length lo = bdim b1).
  { unfold lo, vmax. rewrite map2_length. unfold bdim, blo, bhi in *. lia. }
  assert (Key : forallb (fun b : bool => b)
            (map (fun i_ : nat => oleb RO (omax RO (vnth RO (blo b1) i_) (vnth RO (blo b2) i_))
                                         (omin RO (vnth RO (bhi b1) i_) (vnth RO (bhi b2) i_))) (seq 0 (bdim b1))) = true
          <-> all2 (fun l h => l <= h) lo hi).
  { rewrite forallb_map_seq. rewrite (all2_nth _ 0 0). split.
    - intros H. split; [exact Hlen|]. intros i Hi. rewrite Hn in Hi. specialize (H i Hi). apply oleb_R in H.
      unfold lo, hi, vmax, vmin. rewrite (map2_nth _ _ _ 0 0), (map2_nth _ _ _ 0 0); unfold wf_box, bdim, blo, bhi in *; try lia.
      exact H.
    - intros [_ H] i Hi. apply oleb_R. rewrite <- Hn in Hi. specialize (H i Hi).
      unfold lo, hi, vmax, vmin in H. rewrite (map2_nth _ _ _ 0 0), (map2_nth _ _ _ 0 0) in H; unfold wf_box, bdim, blo, bhi in *; try lia.
      exact H. }
  split.
  - rewrite Key. unfold aabb_span. cbv zeta. cbn [blo bhi fst snd]. fold lo hi. apply span_nonneg. exact Hlen.
  - rewrite Key. split.
    + intros H. exists lo. apply HI. unfold in_box. cbn [blo bhi fst snd]. fold lo hi. apply lo_in_box. exact H.
    + intros [p Hp]. apply HI in Hp. unfold in_box in Hp. cbn [blo bhi fst snd] in Hp. fold lo hi in Hp.
      eapply in_box_nonempty. exact Hp.
Qed.

(* ------------------------------------------------------------------ of_points is tight *)
Lemma all3_nth {A B C} (P : A -> B -> C -> Prop) da db dc a b c :
  all3 P a b c <-> length a = length b /\ length b = length c /\
                   forall i, (i < length a)%nat -> P (nth i a da) (nth i b db) (nth i c dc).
Proof.
  revert b c; induction a as [|x s IH]; destruct b as [|y t], c as [|z u]; simpl;
    try (split; [tauto|intros [? [? _]]; discriminate]).
  - split; auto. intros _. repeat split; auto. intros; lia.
  - rewrite IH. split.
    + intros [H0 [HL [HL2 H]]]. repeat split; try lia. intros [|i] Hi; auto. apply H. lia.
    + intros [HL [HL2 H]]. split; [apply (H 0%nat); lia|]. repeat split; try lia. intros i Hi. apply (H (S i)). lia.
Qed.

Lemma fold_vmin_spec (p0 : list R) (t : list (list R)) :
  Forall (fun q => length q = length p0) t ->
  let m := fold_right (vmin RO) p0 t in
  length m = length p0 /\
  forall j, (j < length p0)%nat ->
    (forall p, In p (p0 :: t) -> nth j m 0 <= nth j p 0) /\ (exists p, In p (p0 :: t) /\ nth j p 0 = nth j m 0).
Proof.
  induction t as [|q t IH]; intros F; cbn [fold_right].
  - split; auto. intros j Hj. split.
    + intros p [<-|[]]. lra.
    + exists p0. split; [left; auto|auto].
  - inversion F as [|? ? Hq Ft]; subst. destruct (IH Ft) as [L IHj]. cbv zeta. split.
    + unfold vmin in *. rewrite map2_length. lia.
    + intros j Hj. destruct (IHj j Hj) as [I1 [pm [I2 I3]]].
      unfold vmin, vec in *. rewrite (map2_nth _ _ _ 0 0) by lia. rewrite omin_R. split.
      * intros p [<-|[<-|Hp]].
        -- eapply Rle_trans; [apply Rmin_r|]. apply I1. left; auto.
        -- apply Rmin_l.
        -- eapply Rle_trans; [apply Rmin_r|]. apply I1. right; auto.
      * destruct (Rle_dec (nth j q 0) (nth j (fold_right (map2 (omin RO)) p0 t) 0)) as [r|r].
        -- exists q. split; [right; left; auto|]. rewrite Rmin_left; auto.
        -- exists pm. split; [destruct I2 as [<-|I2]; [left; auto|right; right; auto]|].
           rewrite Rmin_right by lra. exact I3.
Qed.
Lemma fold_vmax_spec (p0 : list R) (t : list (list R)) :
  Forall (fun q => length q = length p0) t ->
  let m := fold_right (vmax RO) p0 t in
  length m = length p0 /\
  forall j, (j < length p0)%nat ->
    (forall p, In p (p0 :: t) -> nth j p 0 <= nth j m 0) /\ (exists p, In p (p0 :: t) /\ nth j p 0 = nth j m 0).
Proof.
  induction t as [|q t IH]; intros F; cbn [fold_right].
  - split; auto. intros j Hj. split.
    + intros p [<-|[]]. lra.
    + exists p0. split; [left; auto|auto].
  - inversion F as [|? ? Hq Ft]; subst. destruct (IH Ft) as [L IHj]. cbv zeta. split.
    + unfold vmax in *. rewrite map2_length. lia.
    + intros j Hj. destruct (IHj j Hj) as [I1 [pm [I2 I3]]].
      unfold vmax, vec in *. rewrite (map2_nth _ _ _ 0 0) by lia. rewrite omax_R. split.
      * intros p [<-|[<-|Hp]].
        -- eapply Rle_trans; [|apply Rmax_r]. apply I1. left; auto.
        -- apply Rmax_l.
        -- eapply Rle_trans; [|apply Rmax_r]. apply I1. right; auto.
      * destruct (Rle_dec (nth j q 0) (nth j (fold_right (map2 (omax RO)) p0 t) 0)) as [r|r].
        -- exists pm. split; [destruct I2 as [<-|I2]; [left; auto|right; right; auto]|].
           rewrite Rmax_right by lra. exact I3.
        -- exists q. split; [right; left; auto|]. rewrite Rmax_left by lra. reflexivity.
Qed.

Lemma nth_repeat_R (x : R) n j : (j < n)%nat -> nth j (repeat x n) 0 = x.
Proof. revert j; induction n; intros [|j] H; simpl; try lia; auto. apply IHn. lia. Qed.

(* The box of a point set is tight: it contains every point and each bound is attained by some point
   (with a padding, the bounds are exactly the padding away). *)
Lemma box_of_points (pts : list (vec R)) (pad : R) (b : box R) :
  aabb_of_points R RO pts pad = Ret b ->
  pts <> [] /\ wf_box b /\
  (forall p, In p pts -> all3 (fun l h x => l + pad <= x <= h - pad) (blo b) (bhi b) p) /\
  (forall j, (j < bdim b)%nat ->
     (exists p, In p pts /\ nth j p 0 = nth j (blo b) 0 + pad) /\
     (exists p, In p pts /\ nth j p 0 = nth j (bhi b) 0 - pad)).
Proof.
  unfold aabb_of_points. cbv zeta. destruct (pts_rank2 pts) eqn:Rk; cbn [negb]; [|discriminate].
  destruct pts as [|p0 t]; [discriminate|]. cbn [pts_rank2] in Rk.
  assert (F : Forall (fun q => length q = length p0) t).
  { apply Forall_forall. intros q Hq. rewrite forallb_forall in Rk. apply Nat.eqb_eq. auto. }
  intros H. apply init_ret in H as [-> Hl]. cbn [pts_dim vmin_axis0 vmax_axis0] in *.
  destruct (fold_vmin_spec p0 t F) as [Lm Hm]. destruct (fold_vmax_spec p0 t F) as [LM HM].
  set (m := fold_right (vmin RO) p0 t) in *. set (M := fold_right (vmax RO) p0 t) in *.
  set (n := length p0) in *.
  assert (Llo : length (vsub RO m (vfull n pad)) = n).
  { unfold vsub, vfull. rewrite map2_length, repeat_length. lia. }
  assert (Lhi : length (vadd RO M (vfull n pad)) = n).
  { unfold vadd, vfull. rewrite map2_length, repeat_length. lia. }
  assert (Nlo : forall j, (j < n)%nat -> nth j (vsub RO m (vfull n pad)) 0 = nth j m 0 - pad).
  { intros j Hj. unfold vsub, vfull. rewrite (map2_nth _ _ _ 0 0) by (rewrite ?repeat_length; lia).
    rewrite nth_repeat_R by lia. reflexivity. }
  assert (Nhi : forall j, (j < n)%nat -> nth j (vadd RO M (vfull n pad)) 0 = nth j M 0 + pad).
  { intros j Hj. unfold vadd, vfull. rewrite (map2_nth _ _ _ 0 0) by (rewrite ?repeat_length; lia).
    rewrite nth_repeat_R by lia. reflexivity. }
  split; [discriminate|]. split; [exact Hl|]. cbn [blo bhi bdim fst snd]. split.
  - intros p Hp. apply (all3_nth _ 0 0 0). rewrite Llo, Lhi.
    assert (length p = n).
    { destruct Hp as [<-|Hp]; auto. rewrite Forall_forall in F. apply F. exact Hp. }
    split; [reflexivity|]. split; [auto|]. intros j Hj. rewrite Nlo, Nhi by lia.
    destruct (Hm j Hj) as [A1 _]. destruct (HM j Hj) as [A2 _]. specialize (A1 p Hp). specialize (A2 p Hp). lra.
  - unfold bdim. cbn [fst]. rewrite Llo. intros j Hj. rewrite Nlo, Nhi by lia.
    destruct (Hm j Hj) as [_ [p1 [I1 E1]]]. destruct (HM j Hj) as [_ [p2 [I2 E2]]]. split.
    + exists p1. split; auto. lra.
    + exists p2. split; auto. lra.
Qed.

(* ------------------------------------------------------------------ pad *)
Lemma pad_vec_value (b b' : box R) (v : vec R) : aabb_pad_vec R RO b v = Ret b' ->
  length v = bdim b /\ b' = (vsub RO (blo b) (vmaxs RO v 0), vadd RO (bhi b) (vmaxs RO v 0)).
Proof.
  unfold aabb_pad_vec. cbv zeta. destruct (Nat.eqb (length v) (bdim b)) eqn:E; cbn [negb]; [|discriminate].
  intros H. injection H as <-. split; [now apply Nat.eqb_eq|reflexivity].
Qed.
Lemma pad_scalar_value (b b' : box R) (x : R) : aabb_pad_scalar R RO b x = Ret b' ->
  aabb_pad_vec R RO b (vfull (bdim b) x) = Ret b'.
Proof.
  unfold aabb_pad_scalar, aabb_pad_vec. cbv zeta. unfold vfull. rewrite repeat_length, Nat.eqb_refl. cbn [negb]. auto.
Qed.

Lemma pad_coords (lo hi v p : list R) :
  length v = length lo ->
  all3 (fun l h x => l <= x <= h) lo hi p ->
  all3 (fun l h x => l <= x <= h) (vsub RO lo (vmaxs RO v 0)) (vadd RO hi (vmaxs RO v 0)) p.
Proof.
  revert hi v p. induction lo as [|l lo IH]; intros [|h hi] [|y v] [|x p]; simpl; try tauto; try discriminate.
  intros E [H1 H2]. injection E as E. rewrite omax_R. pose proof (Rmax_r y 0). split; [lra|]. apply IH; auto.
Qed.
Lemma pad_nonpositive (lo v : list R) : length v = length lo -> Forall (fun y => y <= 0) v ->
  vsub RO lo (vmaxs RO v 0) = lo /\ vadd RO lo (vmaxs RO v 0) = lo.
Proof.
  revert v. induction lo as [|l lo IH]; intros [|y v]; simpl; try discriminate; auto.
  intros E F. injection E as E. inversion F; subst. destruct (IH v E) as [I1 I2]; auto.
  rewrite omax_R, Rmax_right by lra.
  change (vsub RO (l :: lo) (0 :: vmaxs RO v 0)) with ((l - 0) :: vsub RO lo (vmaxs RO v 0)).
  change (vadd RO (l :: lo) (0 :: vmaxs RO v 0)) with ((l + 0) :: vadd RO lo (vmaxs RO v 0)).
  rewrite I1, I2. split; f_equal; lra.
Qed.

(* pad enlarges the box (never shrinks it) and does nothing for non-positive paddings *)
Lemma box_pad (b b' : box R) (v : vec R) :
  wf_box b -> aabb_pad_vec R RO b v = Ret b' ->
  wf_box b' /\ (forall p, in_box b p -> in_box b' p) /\ (Forall (fun y => y <= 0) v -> b' = b).
Proof.
  intros W H. apply pad_vec_value in H as [L ->]. unfold in_box, wf_box, bdim in *. cbn [blo bhi fst snd].
  split; [|split].
  - unfold vsub, vadd, vmaxs. rewrite !map2_length, !map_length. unfold blo, bhi in *. lia.
  - intros p. apply pad_coords. exact L.
  - intros F. destruct b as [lo hi]. cbn [blo bhi fst snd] in *.
    destruct (pad_nonpositive lo v L F) as [-> _]. destruct (pad_nonpositive hi v) as [_ ->]; auto. lia.
Qed.

(* ------------------------------------------------------------------ unit_cube *)
Lemma vsub_repeat (a b : R) n : vsub RO (repeat a n) (repeat b n) = repeat (a - b) n.
Proof. induction n; [reflexivity|]. cbn [repeat]. change (vsub RO (a :: repeat a n) (b :: repeat b n)) with ((a - b) :: vsub RO (repeat a n) (repeat b n)). rewrite IHn. reflexivity. Qed.
Lemma repeat_nonempty (a b : R) n : a <= b -> all2 (fun l h => l <= h) (repeat a n) (repeat b n).
Proof. intros H. induction n; simpl; auto. Qed.
Lemma box_unit_cube (n : nat) (c : bool) (b : box R) :
  aabb_unit_cube R RO n c = Ret b -> bdim b = n /\ nonempty b /\ aabb_span R RO b = repeat 1 n.
Proof.
  unfold aabb_unit_cube. cbv zeta. unfold vfull, oQ. cbn [odiv oZ RO Rops].
  destruct c; intros H; apply init_ret in H as [-> _]; unfold bdim, nonempty, aabb_span; cbv zeta; cbn [blo bhi fst snd];
    rewrite repeat_length, vsub_repeat; (split; [reflexivity|split; [apply repeat_nonempty; lra|f_equal; lra]]).
Qed.
Example unit_cube_ex : exists b, aabb_unit_cube R RO 3 true = Ret b.
Proof. eexists. unfold aabb_unit_cube. cbv zeta. reflexivity. Qed.

(* ------------------------------------------------------------------ default values of the optional parameters *)
(* the defaults written in the `def` lines are the documented ones: norms are l2, paddings 0, unit_cube not centred *)
Lemma defaults_documented :
  dflt_vec_norm_which R RO = L2 /\ dflt_vec_normalized_which R RO = L2 /\ dflt_vec_normalize_which R RO = L2 /\
  dflt_g_norm_which R RO = L2 /\ dflt_g_distance_which R RO = L2 /\ dflt_aabb_distance_which R RO = L2 /\
  dflt_aabb_unit_cube_centered R RO = false /\
  dflt_aabb_of_points_padding R RO = 0 /\ dflt_aabb_of_mesh_padding R RO = 0.
Proof. repeat split; reflexivity. Qed.
