(* C12 - the operations record at R: the bare operations are the real ones; per-coordinate predicates. *)
From Coq Require Import Reals List Bool Arith Lra Lia.
Import ListNotations.
Require Import MV.C12.Model.
Open Scope R_scope.

Notation RO := Rops.

Lemma Rleb_true a b : Rleb a b = true <-> a <= b.
Proof. unfold Rleb. destruct (Rle_dec a b); split; intros; try lra; try discriminate; auto. Qed.
Lemma Rleb_false a b : Rleb a b = false <-> b < a.
Proof. unfold Rleb. destruct (Rle_dec a b); split; intros; try lra; try discriminate; auto. Qed.

Lemma oleb_R a b : oleb RO a b = true <-> a <= b. Proof. apply Rleb_true. Qed.
Lemma oltb_R a b : oltb RO a b = true <-> a < b.
Proof. unfold oltb. cbn [oleb RO]. rewrite negb_true_iff. apply Rleb_false. Qed.
Lemma ogeb_R a b : ogeb RO a b = true <-> b <= a. Proof. apply Rleb_true. Qed.
Lemma ogtb_R a b : ogtb RO a b = true <-> b < a.
Proof. unfold ogtb. cbn [oleb RO]. rewrite negb_true_iff. apply Rleb_false. Qed.
Lemma oeqb_R a b : oeqb RO a b = true <-> a = b.
Proof. unfold oeqb. cbn [oleb RO]. rewrite andb_true_iff, !Rleb_true. lra. Qed.

Lemma zero_R : @zero R RO = 0. Proof. reflexivity. Qed.
Lemma one_R : @one R RO = 1. Proof. reflexivity. Qed.
Lemma neg_R x : neg RO x = - x. Proof. unfold neg. cbn. lra. Qed.
Lemma omax_R a b : omax RO a b = Rmax a b.
Proof. unfold omax, Rmax. cbn [oleb RO]. unfold Rleb. destruct (Rle_dec a b); reflexivity. Qed.
Lemma omin_R a b : omin RO a b = Rmin a b.
Proof. unfold omin, Rmin. cbn [oleb RO]. unfold Rleb. destruct (Rle_dec a b); reflexivity. Qed.
Lemma oabs_R x : oabs RO x = Rabs x.
Proof.
  unfold oabs. cbn [oleb RO]. unfold Rleb, zero. cbn [oZ RO].
  destruct (Rle_dec 0 x).
  - rewrite Rabs_right; lra.
  - rewrite neg_R. rewrite Rabs_left; lra.
Qed.

(* ------------------------------------------------------------------ per-coordinate predicates *)
Fixpoint all2 {A B} (P : A -> B -> Prop) (a : list A) (b : list B) : Prop :=
  match a, b with
  | x :: s, y :: t => P x y /\ all2 P s t
  | [], [] => True
  | _, _ => False
  end.
Fixpoint all3 {A B C} (P : A -> B -> C -> Prop) (a : list A) (b : list B) (c : list C) : Prop :=
  match a, b, c with
  | x :: s, y :: t, z :: u => P x y z /\ all3 P s t u
  | [], [], [] => True
  | _, _, _ => False
  end.

Lemma all2_length {A B} (P : A -> B -> Prop) a b : all2 P a b -> length a = length b.
Proof. revert b; induction a; destruct b; simpl; intros; try tauto. f_equal. apply IHa. tauto. Qed.
Lemma all3_length {A B C} (P : A -> B -> C -> Prop) a b c : all3 P a b c -> length a = length b /\ length b = length c.
Proof.
  revert b c; induction a; destruct b, c; simpl; intros; try tauto.
  destruct H as [_ H]. apply IHa in H. lia.
Qed.
Lemma all2_impl {A B} (P Q : A -> B -> Prop) a b : (forall x y, P x y -> Q x y) -> all2 P a b -> all2 Q a b.
Proof. intros H. revert b; induction a; destruct b; simpl; auto. intros [? ?]; split; auto. Qed.
Lemma all2_nth {A B} (P : A -> B -> Prop) da db a b :
  all2 P a b <-> length a = length b /\ forall i, (i < length a)%nat -> P (nth i a da) (nth i b db).
Proof.
  revert b; induction a as [|x s IH]; destruct b as [|y t]; simpl.
  - split; auto. intros _. split; auto. intros; lia.
  - split; [tauto|]. intros [? _]; discriminate.
  - split; [tauto|]. intros [? _]; discriminate.
  - rewrite IH. split.
    + intros [H0 [HL H]]. split; [lia|]. intros [|i] Hi; auto. apply H. lia.
    + intros [HL H]. split; [apply (H 0%nat); lia|]. split; [lia|]. intros i Hi. apply (H (S i)). lia.
Qed.

Lemma map2_length {A B C} (f : A -> B -> C) a b : length (map2 f a b) = Nat.min (length a) (length b).
Proof. revert b; induction a; destruct b; simpl; auto. Qed.

(* a point in the closed box / a box that is not empty *)
Definition in_box (b : box R) (p : vec R) : Prop := all3 (fun l h x => l <= x <= h) (blo b) (bhi b) p.
Definition nonempty (b : box R) : Prop := all2 (fun l h => l <= h) (blo b) (bhi b).
Definition wf_box (b : box R) : Prop := length (blo b) = length (bhi b).

Lemma in_box_wf b p : in_box b p -> wf_box b /\ length p = bdim b.
Proof. intros H. apply all3_length in H. unfold wf_box, bdim, blo, bhi in *. lia. Qed.
Lemma nonempty_wf b : nonempty b -> wf_box b.
Proof. apply all2_length. Qed.

(* the three norms over R, in closed form *)
Lemma vsum_cons (x : R) v : vsum RO (x :: v) = x + vsum RO v. Proof. reflexivity. Qed.
Lemma vdot_cons (x y : R) u v : vdot RO (x :: u) (y :: v) = x * y + vdot RO u v. Proof. reflexivity. Qed.

Lemma vsum_abs_nonneg v : 0 <= vsum RO (vabs RO v).
Proof.
  induction v as [|a v IH].
  - cbn. lra.
  - change (vabs RO (a :: v)) with (oabs RO a :: vabs RO v).
    rewrite vsum_cons, oabs_R. pose proof (Rabs_pos a). lra.
Qed.
Lemma vdot_self_nonneg v : 0 <= vdot RO v v.
Proof. induction v. - cbn; lra. - rewrite vdot_cons. nra. Qed.

(* max over a list of absolute values = fold of Rmax from 0 *)
Lemma fold_omax_base x t : 0 <= x ->
  fold_right (omax RO) x (map (oabs RO) t) = Rmax x (fold_right Rmax 0 (map Rabs t)).
Proof.
  intros Hx. induction t as [|y t IH]; cbn [map fold_right].
  - rewrite Rmax_left; lra.
  - rewrite omax_R, oabs_R, IH.
    rewrite !Rmax_assoc. f_equal. apply Rmax_comm.
Qed.
Lemma vmaxl_abs v : vmaxl RO (vabs RO v) = fold_right Rmax 0 (map Rabs v).
Proof.
  destruct v as [|x t]; [reflexivity|].
  unfold vmaxl, vabs. cbn [map]. rewrite oabs_R. rewrite fold_omax_base by apply Rabs_pos. reflexivity.
Qed.
Lemma fold_Rmax_nonneg l : 0 <= fold_right Rmax 0 l.
Proof. induction l; simpl; [lra|]. eapply Rle_trans; [apply IHl|apply Rmax_r]. Qed.
