(* C12 - non-vacuity: concrete objects meeting the hypotheses of the property theorems. *)
From Coq Require Import Reals List Bool Arith Lra Lia.
Import ListNotations.
Require Import MV.C12.Model MV.C12.Gen MV.C12.ProofsLib MV.C12.ProofsBox MV.C12.ProofsVec.
Open Scope R_scope.

Ltac rleb :=
  repeat match goal with
  | |- context [Rleb ?a ?b] =>
      first [ replace (Rleb a b) with true by (symmetry; apply Rleb_true; lra)
            | replace (Rleb a b) with false by (symmetry; apply Rleb_false; lra) ]
  end.

Definition bx : box R := ([0; 0], [1; 1]).
Definition by2 : box R := ([1 / 2; -1], [3; 1 / 2]).

Example ex_nonempty : nonempty bx /\ nonempty by2 /\ wf_box bx /\ wf_box by2.
Proof. unfold nonempty, wf_box, bx, by2. simpl. repeat split; lra. Qed.

Example ex_project : exists q, aabb_project R RO bx [3 / 2; -1 / 2] = Ret q /\ q = [1; 0].
Proof.
  eexists. split; [apply project_value; [apply ex_nonempty|reflexivity]|].
  unfold clampv, bx. cbn [blo bhi fst snd vmax vmin map2]. rewrite !omax_R, !omin_R.
  unfold Rmax, Rmin. repeat destruct (Rle_dec _ _); try lra; repeat f_equal; lra.
Qed.
Example ex_contains : aabb_contains_point R RO bx [1 / 2; 0] = Ret true.
Proof.
  unfold aabb_contains_point, bx. cbv zeta. cbn [List.length bdim fst snd Nat.eqb negb blo bhi].
  unfold vle, vlt, oltb. cbn [forallb2 oleb RO Rops]. rleb; try reflexivity.
Qed.
Example ex_union : exists u, aabb_union R RO bx by2 = Ret u.
Proof. apply union_total; try apply ex_nonempty; reflexivity. Qed.
Example ex_inter : exists w r, aabb_intersection R RO bx by2 = Ret w /\ aabb_do_intersect R RO bx by2 = Ret r.
Proof.
  destruct (inter_total bx by2) as [w Hw]; try apply ex_nonempty; try reflexivity.
  exists w. eexists. split; [exact Hw|]. unfold aabb_do_intersect. cbv zeta. reflexivity.
Qed.
Example ex_of_points : exists b, aabb_of_points R RO [[0; 1]; [2; 0]; [1; 1]] 0 = Ret b.
Proof. eexists. unfold aabb_of_points. cbv zeta. reflexivity. Qed.
Example ex_pad : exists b', aabb_pad_vec R RO bx [1; -1] = Ret b'.
Proof. eexists. unfold aabb_pad_vec. cbv zeta. reflexivity. Qed.

Lemma n3_val a b c n : 0 <= n -> a * a + b * b + c * c = n * n -> n3 a b c = n.
Proof. intros Hn H. unfold n3. replace (a * a + (b * b + (c * c + 0))) with (n * n) by lra. apply sqrt_square. exact Hn. Qed.

Example ex_angle_ok : angle_ok 1 /\ angle_ok 0 /\ angle_ok (1 + 1).
Proof.
  unfold angle_ok, eps12. repeat split.
  - right. rewrite Rabs_R1. lra.
  - left. reflexivity.
  - right. rewrite Rabs_right; lra.
Qed.
Example ex_rotation : exists out, rot_rotate_around_axis R RO [1; 0; 0] [0; 0; 2] 1 (cos 1) (sin 1) = Ret out.
Proof.
  eexists. apply rot_as_rod; [apply ex_angle_ok|].
  rewrite (n3_val 0 0 2 2) by lra. unfold eps12. lra.
Qed.
Example ex_signed_guard :
  g_dot R RO (g_cross R RO [1; 0; 0] [0; 1; 0]) [0; 0; 1] <> 0.
Proof. rewrite cross_expansion. rewrite (proj1 (dot_expansion _ _ _ _ _ _)). lra. Qed.

Lemma n3_nonzero a b c : 0 < a * a + b * b + c * c -> n3 a b c <> 0.
Proof. intros H. unfold n3. apply Rgt_not_eq. apply sqrt_lt_R0. lra. Qed.

Example ex_cotan : exists k, g_cotan R RO [1; 0; 0] [0; 0; 0] [1; 1; 0] = Ret k.
Proof.
  unfold g_cotan. cbv zeta. cbn [vsub map2 osub RO Rops].
  destruct (normalized3 (1 - 0) (0 - 0) (0 - 0)) as [N1 _]. cbv zeta in N1. rewrite N1 by (apply n3_nonzero; lra).
  destruct (normalized3 (1 - 0) (1 - 0) (0 - 0)) as [N2 _]. cbv zeta in N2. rewrite N2 by (apply n3_nonzero; lra).
  cbn [bind]. rewrite g_norm_spec by discriminate. cbn [bind]. eexists. reflexivity.
Qed.
Example ex_roots : (0 < 4)%nat. Proof. lia. Qed.
Example ex_face_basis : exists X Y Z, g_face_basis R RO [0; 0; 1] [2; 0; 1] [0; 2; 1] = Ret (X, Y, Z).
Proof.
  unfold g_face_basis. cbv zeta. cbn [vsub map2 osub RO Rops].
  destruct (normalized3 (2 - 0) (0 - 0) (1 - 1)) as [N1 _]. cbv zeta in N1.
  rewrite N1 by (apply n3_nonzero; lra). cbn [bind].
  rewrite (n3_val (2 - 0) (0 - 0) (1 - 1) 2) by lra.
  rewrite cross_expansion.
  match goal with |- context [vec_normalized R RO [?a; ?b; ?c] L2] =>
    destruct (normalized3 a b c) as [N2 _]; cbv zeta in N2; rewrite N2 by (apply n3_nonzero; lra);
    rewrite (n3_val a b c 2) by lra end.
  cbn [bind]. rewrite cross_expansion.
  match goal with |- context [vec_normalized R RO [?a; ?b; ?c] L2] =>
    destruct (normalized3 a b c) as [N3 _]; cbv zeta in N3; rewrite N3 by (apply n3_nonzero; lra) end.
  cbn [bind]. do 3 eexists. reflexivity.
Qed.

Example ex_circumcenter : exists P, g_circumcenter R RO [0; 0; 1] [2; 0; 1] [0; 2; 1] = Ret P.
Proof.
  unfold g_circumcenter, g_face_basis. cbv zeta. cbn [vsub map2 osub RO Rops].
  destruct (normalized3 (2 - 0) (0 - 0) (1 - 1)) as [N1 _]. cbv zeta in N1.
  rewrite N1 by (apply n3_nonzero; lra). cbn [bind].
  rewrite (n3_val (2 - 0) (0 - 0) (1 - 1) 2) by lra.
  rewrite cross_expansion.
  match goal with |- context [vec_normalized R RO [?a; ?b; ?c] L2] =>
    destruct (normalized3 a b c) as [N2 _]; cbv zeta in N2; rewrite N2 by (apply n3_nonzero; lra);
    rewrite (n3_val a b c 2) by lra end.
  cbn [bind]. rewrite cross_expansion.
  match goal with |- context [vec_normalized R RO [?a; ?b; ?c] L2] =>
    destruct (normalized3 a b c) as [N3 _]; cbv zeta in N3; rewrite N3 by (apply n3_nonzero; lra);
    rewrite (n3_val a b c 1) by lra end.
  cbn [bind]. rewrite !(proj1 (dot_expansion _ _ _ _ _ _)).
  cbn [vadd vsub vdivs map map2 oadd osub odiv oZ RO Rops vnth List.nth neg].
  unfold g_intersect_2lines2D. cbv zeta. cbn [vhead2 firstn]. rewrite det2_expansion.
  cbv [g_dot vdot vsum vmul map2 fold_right oQ neg RO Rops omul oadd osub odiv oZ oleb zero].
  match goal with |- context [Rleb ?a ?b] =>
    replace (Rleb a b) with false by (symmetry; apply Rleb_false; lra) end.
  cbn [bind_opt]. eexists. reflexivity.
Qed.
