(* C12 - the call-sequence machine the correspondence batches evaluate.

   State: caller arrays (slot -> contents) and boxes (slot -> (mini, maxi)), all exact rationals.  Every call
   is answered by the GENERATED definitions of Gen.v - through Qops when the quantity is sqrt- and
   division-free (compared exactly), through Fops (binary64) otherwise (compared with tolerance 1e-9, angles
   through their (cos, sin)).  The side-effect half of the model is what the machine does NOT do: no call
   changes a caller array, another box or numpy's error register, no box shares memory with anything; only
   `pad` updates its own box.  The implementation's observations of exactly these facts are part of each case.
   Executable definitions only - no proofs. *)
From Coq Require Import ZArith QArith List Bool Arith String.
From Coq Require Import Uint63 PrimFloat.
Require Import MV.Lib.Base MV.Lib.FloatLit MV.C12.Model MV.C12.Gen.
Import ListNotations.

Inductive fn :=
  | FCross | FDot | FVDot | FNorm | FVNorm | FDistance | FNormalized | FDet2 | FDet3 | FCotan | FAngle3
  | FSAngle2 | FSAngle3 | FAngle2D | FAngle3D | FCircum | FFaceBasis | FLine2 | FPlane | FTriArea | FTriArea2D
  | FRot2D | FRotAxis | FRot2D2 | FRotAxis2 | FSign0 | FSign | FPrincipal | FAngleDiff | FRoots
  | FQuadArea | FAspect | FDistSeg | FSolveQuad | FOuter | FAxisRotZ.

Inductive op :=
  | OArr (s : Z) (v : list Q)
  | OSetErr
  | OBox (b sa sb : Z)
  | OOfPts (b : Z) (ss : list Z) (pad : option Q)      (* None = the argument is omitted: the default written in the def *)
  | OPadS (b : Z) (p : Q)
  | OPadV (b s : Z)
  | OContains (b s : Z)
  | OProject (b s : Z)
  | ODistance (b s : Z) (k : option nkind)
  | OUnion (nb b1 b2 : Z)
  | OInter (nb b1 b2 : Z)
  | ODoInt (b1 b2 : Z)
  | OIsEmpty (b : Z)
  | OSpan (b : Z)
  | OCenter (b : Z)
  | OUnitCube (nb : Z) (dim : Z) (centered : option bool)
  | OInfinite (nb : Z) (dim : Z)                 (* corners at infinity: outside the field model, only observed *)
  | OOfMesh (nb : Z) (ss : list Z) (pad : option Q)
  | OSpanStore (b s : Z) | OCenterStore (b s : Z)    (* span / center, the returned array kept by the caller as array s *)
  | ONormalize (s : Z) (k : option nkind) (after : list Q)   (* Vec.normalize, in place; `after` = the contents observed afterwards *)
  | ODim (b : Z) | OMini (b : Z) | OMaxi (b : Z)   (* the properties dim / mini / maxi *)
  | OAnd (nb b1 b2 : Z) | OOr (nb b1 b2 : Z)       (* b1 & b2, b1 | b2 *)
  | OGetC (s : Z) (c : Z)                          (* Vec(arr).x / .y / .z (c = 0, 1, 2) or .xy (c = 3) *)
  | OVecSet (s : Z) (c : Z) (v : Q)                (* Vec(arr).x = v (.y, .z): the documented in-place setters *)
  | OVecCtor (c : Z) (n : Z) (sa sb : Z) (va vb : list Q)
      (* a Vec constructor (0 zeros(n), 1 X, 2 Y, 3 Z, other: random(n)) called TWICE with the same arguments; the two
         results become caller arrays sa, sb; va, vb = the observed contents (the model's own for 0..3) *)
  | OSetComp (s : Z) (i : Z) (v : Q)              (* the caller writes arr[s][i] = v *)
  | OFn (f : fn) (args : list Z) (k : option nkind) (sc : list Q) (fl : list float) (cx : list bool).
      (* cx: which arguments are passed as complex numbers (2-D primitives) *)
      (* sc: exact scalar arguments; fl: what the numerical shell computed on the Python side
         (cos/sin of the angle argument, or cmath.polar's angle) *)

(* what the implementation was seen to answer *)
Inductive robs :=
  | RNone
  | RBool (b : bool)
  | RQ (q : Q)
  | RVQ (v : list Q)
  | RBoxQ (lo hi : list Q)
  | RF (x : float)
  | RVF (v : list float)
  | RVsF (vs : list (list float))
  | RAng (c s : float)                       (* cos and sin of the returned angle *)
  | RRoots (rs : list (float * float * float))   (* re, im, phase of every returned root *)
  | RRaised        (* the call raised; which exception class / message is NOT compared (the property leaves it free) *)
  | RSkip          (* ill-conditioned input (collinear points): any answer of the float pipeline is accepted here *)
  | ROther.

Record obs := mkobs {
  o_r : robs;
  o_err_same : bool;                          (* np.geterr()/geterrcall() after the call = before *)
  o_arrchg : Z;                               (* number of caller arrays whose contents/dtype/shape/identity changed *)
  o_boxchg : list (Z * (list Q * list Q));    (* boxes whose corners changed, with the new corners *)
  o_alias : Z                                 (* pairs (box corner, caller array / other box corner) sharing memory *)
}.

(* what the model answers *)
Inductive mres :=
  | MNone | MB (b : bool) | MQ (q : Q) | MVQ (v : list Q) | MBoxQ (b : list Q * list Q)
  | MF (x : float) | MVF (v : list float) | MVsF (vs : list (list float))
  | MAng (x y : float)                        (* the pair handed to atan2 *)
  | MAngles (l : list float) (unit : bool) (r : float) (n : Z)
      (* angles of the n-th roots; their modulus: the generated radius when normalising, else the positive x with x^n = r *)
  | MPer (x : float)                          (* an angle, up to the 2 pi ambiguity at the branch cut *)
  | MExc (e : exn) | MBad.

Definition q2f (q : Q) : float := PrimFloat.div (mkf (Qnum q) 0) (mkf (Zpos (Qden q)) 0).
Definition vq2f (v : list Q) : list float := map q2f v.

Definition fis_nan (x : float) : bool := negb (PrimFloat.eqb x x).
Definition fagree (a b : float) : bool :=
  if fis_nan a then fis_nan b
  else if PrimFloat.eqb a b then true        (* also +-inf *)
  else fclose tol9 a b.
Definition exn_eqb (a b : exn) : bool :=
  match a, b with
  | IncompatibleDimension, IncompatibleDimension | FloatingPoint, FloatingPoint | BadArgument, BadArgument
  | PlainException, PlainException | NoneDeref, NoneDeref => true
  | _, _ => false
  end.
Definition vq_eqb (a b : list Q) : bool := list_eqb Qeq_bool a b.
(* vectors are compared relatively to the size of the WHOLE vector: a component that cancels to ~0 carries the absolute
   rounding error of the large ones *)
Definition fmaxabs (v : list float) : float :=
  fold_right (fun x m => if PrimFloat.ltb m (PrimFloat.abs x) then PrimFloat.abs x else m) PrimFloat.zero v.
Definition fagree_rel (m a b : float) : bool :=
  if fis_nan a then fis_nan b
  else if PrimFloat.eqb a b then true
  else PrimFloat.leb (PrimFloat.abs (PrimFloat.sub a b)) (PrimFloat.mul tol9 (PrimFloat.add PrimFloat.one m)).
Definition vf_agree (a b : list float) : bool :=
  let m := fmaxabs (List.filter (fun x => negb (fis_nan x) && PrimFloat.ltb (PrimFloat.abs x) PrimFloat.infinity) b) in
  list_eqb (fagree_rel m) a b.

Definition two_pi : float := PrimFloat.mul (mkf 2 0) fpi.
Definition tol6 : float := mkf 4722366482869645 (-72).   (* 1e-6: angles near the branch cut *)

Definition fpowz (x : float) (n : Z) : float :=
  fold_right (fun _ acc => PrimFloat.mul x acc) PrimFloat.one (zrange n).

Definition agree (m : mres) (r : robs) : bool :=
  match m, r with
  | MNone, RNone => true
  | MB a, RBool b => Bool.eqb a b
  | MQ a, RQ b => Qeq_bool a b
  | MVQ a, RVQ b => vq_eqb a b
  | MBoxQ (l, h), RBoxQ l' h' => vq_eqb l l' && vq_eqb h h'
  | MF a, RF b => fagree a b
  | MQ a, RF b => fagree (q2f a) b
  | MVF a, RVF b => vf_agree a b
  | MVQ a, RVF b => vf_agree (vq2f a) b
  | MVsF a, RVsF b => list_eqb vf_agree a b
  | MAng x y, RAng c s =>
      (* (x, y) / |(x, y)| = (c, s); atan2(0, 0) = 0 *)
      let n := PrimFloat.sqrt (PrimFloat.add (PrimFloat.mul x x) (PrimFloat.mul y y)) in
      if PrimFloat.eqb n PrimFloat.zero then fagree PrimFloat.one c && fagree PrimFloat.zero s
      else fagree (PrimFloat.div x n) c && fagree (PrimFloat.div y n) s
  | MPer a, RF b =>
      fagree a b || fagree (PrimFloat.add a two_pi) b || fagree (PrimFloat.sub a two_pi) b
  | MAngles l unit r n, RRoots rs =>
      (* same number of roots; each of phase congruent to the model's angle (when its modulus is not 0) and of the right
         modulus: the generated m_root_radius when normalising, else by the defining equation |z|^n = r *)
      let rho := m_root_radius float Fops true r (mkf n 0) in
      Nat.eqb (List.length l) (List.length rs) &&
      forallb2 (fun a (z : float * float * float) =>
                  let '(re, im, ph) := z in
                  let m := PrimFloat.sqrt (PrimFloat.add (PrimFloat.mul re re) (PrimFloat.mul im im)) in
                  (if unit then fagree m rho
                   else PrimFloat.leb (PrimFloat.abs (PrimFloat.sub (fpowz m n) r))
                                      (PrimFloat.mul (PrimFloat.mul tol9 (mkf 64 0)) r)) &&
                  (PrimFloat.eqb m PrimFloat.zero ||
                   PrimFloat.leb (PrimFloat.abs (m_angle_diff float Fops a ph)) tol6)) l rs
  | MExc _, RRaised => true
  | _, RSkip => true
  | _, _ => false
  end.

Record state := mkst { arrs : list (Z * list Q); boxes : list (Z * (list Q * list Q)) }.
Definition st0 : state := mkst [] [].

Fixpoint lookup {A} (k : Z) (l : list (Z * A)) : option A :=
  match l with [] => None | (k', v) :: t => if Z.eqb k k' then Some v else lookup k t end.
Fixpoint all_some {A} (l : list (option A)) : option (list A) :=
  match l with
  | [] => Some []
  | None :: _ => None
  | Some x :: t => match all_some t with Some r => Some (x :: r) | None => None end
  end.

Definition of_res {A} (f : A -> mres) (r : res A) : mres :=
  match r with Ret a => f a | Raise e => MExc e end.

Definition QO := Qops.
Definition FO := Fops.

(* one primitive on caller arrays *)
Definition dflt {A} (x : option A) (d : A) : A := match x with Some v => v | None => d end.

Definition run_fn (f : fn) (a : list (list Q)) (ko : option nkind) (sc : list Q) (fl : list float) (cx : list bool) : mres :=
  let k := dflt ko match f with
                   | FNorm => dflt_g_norm_which Q QO
                   | FVNorm => dflt_vec_norm_which Q QO
                   | FDistance => dflt_g_distance_which Q QO
                   | FNormalized => dflt_vec_normalized_which Q QO
                   | _ => L2
                   end in
  let af := map vq2f a in
  let P2 i := if nth i cx false then ACplx (nth 0 (nth i a []) 0%Q) (nth 1 (nth i a []) 0%Q) else AVec (nth i a []) in
  let A i := nth i a [] in
  let F i := nth i af [] in
  let S i := nth i sc 0%Q in
  let L i := nth i fl PrimFloat.zero in
  match f with
  | FCross => MVQ (g_cross Q QO (A 0%nat) (A 1%nat))
  | FDot => MQ (g_dot Q QO (A 0%nat) (A 1%nat))
  | FVDot => MQ (vec_dot Q QO (A 0%nat) (A 1%nat))
  | FNorm =>
      match k with
      | L2 => of_res MF (g_norm float FO (F 0%nat) k)
      | _ => of_res MQ (g_norm Q QO (A 0%nat) k)
      end
  | FVNorm =>
      match k with
      | L2 => MF (vec_norm float FO (F 0%nat) k)
      | _ => MQ (vec_norm Q QO (A 0%nat) k)
      end
  | FDistance =>
      match k with
      | L2 => of_res MF (g_distance float FO (F 0%nat) (F 1%nat) k)
      | _ => of_res MQ (g_distance Q QO (A 0%nat) (A 1%nat) k)
      end
  | FNormalized => of_res MVF (vec_normalized float FO (F 0%nat) k)
  | FDet2 => of_res MQ (g_det_2x2_any Q QO (P2 0%nat) (P2 1%nat))
  | FDet3 => MQ (g_det_3x3 Q QO (A 0%nat) (A 1%nat) (A 2%nat))
  | FCotan => of_res MF (g_cotan float FO (F 0%nat) (F 1%nat) (F 2%nat))
  | FAngle3 => let p := g_angle_3pts float FO (F 0%nat) (F 1%nat) (F 2%nat) in MAng (fst p) (snd p)
  | FSAngle2 => let p := g_signed_angle_2vec3D float FO (F 0%nat) (F 1%nat) (F 2%nat) in MAng (fst p) (snd p)
  | FSAngle3 => let p := g_signed_angle_3pts float FO (F 0%nat) (F 1%nat) (F 2%nat) (F 3%nat) in MAng (fst p) (snd p)
  | FAngle2D => let p := g_angle_2vec2D float FO (F 0%nat) (F 1%nat) in MAng (fst p) (snd p)
  | FAngle3D => let p := g_angle_2vec3D float FO (F 0%nat) (F 1%nat) in MAng (fst p) (snd p)
  | FCircum => of_res MVF (g_circumcenter float FO (F 0%nat) (F 1%nat) (F 2%nat))
  | FFaceBasis => of_res (fun t => let '(X, Y, Z) := t in MVsF [X; Y; Z]) (g_face_basis float FO (F 0%nat) (F 1%nat) (F 2%nat))
  | FLine2 =>
      match g_intersect_2lines2D float FO (F 0%nat) (F 1%nat) (F 2%nat) (F 3%nat) with
      | None => MNone | Some v => MVF v
      end
  | FPlane => MVF (g_project_to_plane float FO (F 0%nat) (F 1%nat) (F 2%nat))
  | FTriArea => MF (g_triangle_area float FO (F 0%nat) (F 1%nat) (F 2%nat))
  | FTriArea2D => MQ (g_triangle_area_2D Q QO (A 0%nat) (A 1%nat) (A 2%nat))
  | FRot2D => MVF (rot_rotate_2d float FO (F 0%nat) (q2f (S 0%nat)) (L 0%nat) (L 1%nat))
  | FRotAxis => of_res MVF (rot_rotate_around_axis float FO (F 0%nat) (F 1%nat) (q2f (S 0%nat)) (L 0%nat) (L 1%nat))
  | FRot2D2 =>
      (* sc = [a; b], fl = [cos a; sin a; cos b; sin b; cos (a+b); sin (a+b)] *)
      let r1 := rot_rotate_2d float FO (rot_rotate_2d float FO (F 0%nat) (q2f (S 0%nat)) (L 0%nat) (L 1%nat))
                              (q2f (S 1%nat)) (L 2%nat) (L 3%nat) in
      let r2 := rot_rotate_2d float FO (F 0%nat) (q2f (S 0%nat + S 1%nat)) (L 4%nat) (L 5%nat) in
      MVsF [r1; r2]
  | FRotAxis2 =>
      of_res (fun x => x)
        (bind (rot_rotate_around_axis float FO (F 0%nat) (F 1%nat) (q2f (S 0%nat)) (L 0%nat) (L 1%nat)) (fun y =>
         bind (rot_rotate_around_axis float FO y (F 1%nat) (q2f (S 1%nat)) (L 2%nat) (L 3%nat)) (fun r1 =>
         bind (rot_rotate_around_axis float FO (F 0%nat) (F 1%nat) (q2f (S 0%nat + S 1%nat)) (L 4%nat) (L 5%nat)) (fun r2 =>
         Ret (MVsF [r1; r2])))))
  | FSign0 => MQ (g_sign0 Q QO (S 0%nat))
  | FSign => MQ (g_sign Q QO (S 0%nat))
  | FPrincipal => MPer (m_principal_angle float FO (q2f (S 0%nat)))
  | FAngleDiff => MPer (m_angle_diff float FO (q2f (S 0%nat)) (q2f (S 1%nat)))
  | FQuadArea => MF (g_quad_area float FO (F 0%nat) (F 1%nat) (F 2%nat) (F 3%nat))
  | FAspect => of_res MF (g_aspect_ratio float FO (F 0%nat) (F 1%nat) (F 2%nat))
  | FDistSeg => of_res MF (g_distance_to_segment2D float FO (F 0%nat) (F 1%nat) (F 2%nat))
  | FSolveQuad => MVF (m_solve_quadratic float FO (q2f (S 0%nat)) (q2f (S 1%nat)) (q2f (S 2%nat)))
  | FOuter => MVsF (vec_outer float FO (F 0%nat) (F 1%nat))
  | FAxisRotZ => MNone          (* uses the numerical value of atan2: observed and judged by the oracle only *)
  | FRoots =>
      (* sc = [re; im; n], fl = [t] with (r, t) = cmath.polar(c) *)
      let n := Qnum (S 2%nat) in
      (* sc = [re; im; n; nz] with nz = 1 / 0 / -1 (normalize True / False / omitted), fl = [t; r] = cmath.polar(c) *)
      let nz := Qnum (S 3%nat) in
      let unit := if (nz <? 0)%Z then dflt_m_roots_normalize Q QO else (nz =? 1)%Z in
      MAngles (m_roots_angles float FO (L 0%nat) (Z.to_nat n)) unit (L 1%nat) n
  end.

(* one call: model answer, new state (boxes created / padded) *)
Definition step (st : state) (o : op) : mres * state * list (Z * (list Q * list Q)) * Z :=
  let A s := lookup s (arrs st) in
  let B b := lookup b (boxes st) in
  let keep m := (m, st, [], 0%Z) in
  let newbox nb r :=
    match r with
    | Ret bx => (MBoxQ bx, mkst (arrs st) ((nb, bx) :: boxes st), [], 0%Z)
    | Raise e => (MExc e, st, [], 0%Z)
    end in
  let padded b old r :=
    match r with
    | Ret bx => (MNone, mkst (arrs st) ((b, bx) :: boxes st),
                 if vq_eqb (fst old) (fst bx) && vq_eqb (snd old) (snd bx) then [] else [(b, bx)], 0%Z)
    | Raise e => (MExc e, st, [], 0%Z)
    end in
  match o with
  | OArr s v => (MNone, mkst ((s, v) :: arrs st) (boxes st), [], 0%Z)
  | OSetErr => keep MNone
  | OBox nb sa sb =>
      match A sa, A sb with
      | Some a, Some b => newbox nb (aabb_init Q QO a b)
      | _, _ => keep MBad
      end
  | OOfPts nb ss pad =>
      match all_some (map A ss) with
      | Some pts => newbox nb (aabb_of_points Q QO pts (dflt pad (dflt_aabb_of_points_padding Q QO)))
      | None => keep MBad
      end
  | OPadS b p => match B b with Some bx => padded b bx (aabb_pad_scalar Q QO bx p) | None => keep MBad end
  | OPadV b s => match B b, A s with Some bx, Some v => padded b bx (aabb_pad_vec Q QO bx v) | _, _ => keep MBad end
  | OContains b s => match B b, A s with Some bx, Some v => keep (of_res MB (aabb_contains_point Q QO bx v)) | _, _ => keep MBad end
  | OProject b s => match B b, A s with Some bx, Some v => keep (of_res MVQ (aabb_project Q QO bx v)) | _, _ => keep MBad end
  | ODistance b s ko =>
      let k := dflt ko (dflt_aabb_distance_which Q QO) in
      match B b, A s with
      | Some bx, Some v =>
          match k with
          | L2 => keep (of_res MF (aabb_distance float FO (vq2f (fst bx), vq2f (snd bx)) (vq2f v) k))
          | _ => keep (of_res MQ (aabb_distance Q QO bx v k))
          end
      | _, _ => keep MBad
      end
  | OUnion nb b1 b2 => match B b1, B b2 with Some x, Some y => newbox nb (aabb_union Q QO x y) | _, _ => keep MBad end
  | OInter nb b1 b2 => match B b1, B b2 with Some x, Some y => newbox nb (aabb_intersection Q QO x y) | _, _ => keep MBad end
  | ODoInt b1 b2 => match B b1, B b2 with Some x, Some y => keep (of_res MB (aabb_do_intersect Q QO x y)) | _, _ => keep MBad end
  | OIsEmpty b => match B b with Some x => keep (MB (aabb_is_empty Q QO x)) | None => keep MBad end
  | OSpan b => match B b with Some x => keep (MVQ (aabb_span Q QO x)) | None => keep MBad end
  | OCenter b => match B b with Some x => keep (MVQ (aabb_center Q QO x)) | None => keep MBad end
  | OUnitCube nb dim c => newbox nb (aabb_unit_cube Q QO (Z.to_nat dim) (dflt c (dflt_aabb_unit_cube_centered Q QO)))
  | OInfinite nb dim => keep MNone
  | OOfMesh nb ss pad =>
      match all_some (map A ss) with
      | Some pts => newbox nb (aabb_of_mesh Q QO pts (dflt pad (dflt_aabb_of_mesh_padding Q QO)))
      | None => keep MBad
      end
  | OSpanStore b s =>
      match B b with
      | Some x => let r := aabb_span Q QO x in (MVQ r, mkst ((s, r) :: arrs st) (boxes st), [], 0%Z)
      | None => keep MBad
      end
  | OCenterStore b s =>
      match B b with
      | Some x => let r := aabb_center Q QO x in (MVQ r, mkst ((s, r) :: arrs st) (boxes st), [], 0%Z)
      | None => keep MBad
      end
  | ONormalize s ko after =>
      let k := dflt ko (dflt_vec_normalize_which Q QO) in
      match A s with
      | Some v => (MVF (vec_normalize float FO (vq2f v) k), mkst ((s, after) :: arrs st) (boxes st), [],
                   if vq_eqb v after then 0%Z else 1%Z)
      | None => keep MBad
      end
  | ODim b => match B b with Some x => keep (MQ (inject_Z (Z.of_nat (aabb_dim Q QO x)))) | None => keep MBad end
  | OMini b => match B b with Some x => keep (MVQ (aabb_mini Q QO x)) | None => keep MBad end
  | OMaxi b => match B b with Some x => keep (MVQ (aabb_maxi Q QO x)) | None => keep MBad end
  | OAnd nb b1 b2 => match B b1, B b2 with Some x, Some y => newbox nb (aabb_and Q QO x y) | _, _ => keep MBad end
  | OOr nb b1 b2 => match B b1, B b2 with Some x, Some y => newbox nb (aabb_or Q QO x y) | _, _ => keep MBad end
  | OGetC s c =>
      match A s with
      | Some v => keep (if Z.eqb c 0 then MQ (vec_x Q QO v) else if Z.eqb c 1 then MQ (vec_y Q QO v)
                        else if Z.eqb c 2 then MQ (vec_z Q QO v) else MVQ (vec_xy Q QO v))
      | None => keep MBad
      end
  | OVecSet s c v =>
      match A s with
      | Some w => let w' := if Z.eqb c 0 then vec_set_x Q QO w v else if Z.eqb c 1 then vec_set_y Q QO w v
                            else vec_set_z Q QO w v in
                  (MNone, mkst ((s, w') :: arrs st) (boxes st), [], if vq_eqb w w' then 0%Z else 1%Z)
      | None => keep MBad
      end
  | OVecCtor c n sa sb va vb =>
      let m := if Z.eqb c 0 then Some (vec_zeros Q QO (Z.to_nat n)) else if Z.eqb c 1 then Some (vec_X Q QO)
               else if Z.eqb c 2 then Some (vec_Y Q QO) else if Z.eqb c 3 then Some (vec_Z Q QO) else None in
      let ca := match m with Some v => v | None => va end in
      let cb := match m with Some v => v | None => vb end in
      (MVQ (ca ++ cb), mkst ((sa, ca) :: (sb, cb) :: arrs st) (boxes st), [], 0%Z)
  | OSetComp s i v =>
      match A s with
      | Some w => let w' := vset w (Z.to_nat i) v in
                  (MNone, mkst ((s, w') :: arrs st) (boxes st), [], if vq_eqb w w' then 0%Z else 1%Z)
      | None => keep MBad
      end
  | OFn f args k sc fl cx =>
      match all_some (map A args) with
      | Some a => keep (run_fn f a k sc fl cx)
      | None => keep MBad
      end
  end.

Definition boxchg_eqb (a b : list (Z * (list Q * list Q))) : bool :=
  list_eqb (fun x y => Z.eqb (fst x) (fst y) && vq_eqb (fst (snd x)) (fst (snd y)) && vq_eqb (snd (snd x)) (snd (snd y))) a b.

(* a program agrees when, call after call, the model's answer is the implementation's, the only
   state change is the one the model makes, and nothing else moved *)
Fixpoint run (st : state) (p : list (op * obs)) : bool :=
  match p with
  | [] => true
  | (o, w) :: t =>
      let '(m, st', chg, nchg) := step st o in
      agree m (o_r w) && o_err_same w && Z.eqb (o_arrchg w) nchg && Z.eqb (o_alias w) 0
      && boxchg_eqb chg (o_boxchg w) && run st' t
  end.

Definition check_prog (p : list (op * obs)) : bool := run st0 p.

(* diagnostics: per-call agreement flags (used by the harness to name the disagreeing call) *)
Fixpoint run_flags (st : state) (p : list (op * obs)) : list bool :=
  match p with
  | [] => []
  | (o, w) :: t =>
      let '(m, st', chg, nchg) := step st o in
      (agree m (o_r w) && o_err_same w && Z.eqb (o_arrchg w) nchg && Z.eqb (o_alias w) 0
       && boxchg_eqb chg (o_boxchg w)) :: run_flags st' t
  end.
Fixpoint run_answers (st : state) (p : list (op * obs)) : list mres :=
  match p with
  | [] => []
  | (o, w) :: t => let '(m, st', chg, nchg) := step st o in m :: run_answers st' t
  end.
