(* C12 - no side effects: a reference-cell semantics of the event summaries of Gen.fx_table and the frame
   theorem.  Arrays are cells; numpy's floating-point error configuration is one global register.  A call may
   raise at ANY point (rule x_raise); `with np.errstate` restores the register on both exits. *)
From Coq Require Import List Bool Arith Lia String.
Import ListNotations.
Require Import MV.C12.Model MV.C12.Gen.

Section Fx.
  Variable V : Type.      (* contents of an array *)
  Variable E : Type.      (* value of the error register *)
  Variable tbl : list (string * list ev).

  Record st := mkst { cells : nat -> V; err : E }.
  Definition upd (s : st) (c : nat) (v : V) : st :=
    mkst (fun k => if Nat.eqb k c then v else cells s k) (err s).
  Definition seterr (s : st) (m : E) : st := mkst (cells s) m.

  (* env i = the cells occupied by the arrays of argument i (one cell for an array, the two corner cells for
     a box, none for a scalar) *)
  Definition denotes (env : nat -> list nat) (r : list nat) (c : nat) : Prop := exists i, In i r /\ In c (env i).
  Definition callee_env (env : nat -> list nat) (args : list (list nat)) (i : nat) : list nat :=
    flat_map env (nth i args []).
  Definition lookup (f : string) : option (list ev) :=
    match find (fun p => String.eqb f (fst p)) tbl with Some p => Some (snd p) | None => None end.

  Inductive outcome := Returned | Raised.

  (* exec n0 env body s o s' stored : running `body` from s ends (returning or raising) in s';
     cells >= n0 are the ones allocated by the call; `stored` = cells put into self's fields *)
  Inductive exec (n0 : nat) : (nat -> list nat) -> list ev -> st -> outcome -> st -> list nat -> Prop :=
  | x_nil env s : exec n0 env [] s Returned s []
  | x_raise env l s : exec n0 env l s Raised s []
  | x_mut env r l s c v o s' sd :
      denotes env r c \/ n0 <= c -> exec n0 env l (upd s c v) o s' sd -> exec n0 env (EMut r :: l) s o s' sd
  | x_seterr env l s m o s' sd :
      exec n0 env l (seterr s m) o s' sd -> exec n0 env (ESetErr :: l) s o s' sd
  | x_with_ret env b l s m s1 sd1 o s' sd :
      exec n0 env b (seterr s m) Returned s1 sd1 -> exec n0 env l (seterr s1 (err s)) o s' sd ->
      exec n0 env (EWith b :: l) s o s' (sd1 ++ sd)
  | x_with_raise env b l s m s1 sd1 :
      exec n0 env b (seterr s m) Raised s1 sd1 -> exec n0 env (EWith b :: l) s Raised (seterr s1 (err s)) sd1
  | x_store env r l s c o s' sd :
      denotes env r c \/ n0 <= c -> exec n0 env l s o s' sd -> exec n0 env (EStore r :: l) s o s' (c :: sd)
  | x_call_ret env f args body l s s1 sd1 o s' sd :
      lookup f = Some body -> exec n0 (callee_env env args) body s Returned s1 sd1 -> exec n0 env l s1 o s' sd ->
      exec n0 env (ECall f args :: l) s o s' sd
  | x_ret env r l s o s' sd :
      exec n0 env l s o s' sd -> exec n0 env (ERet r :: l) s o s' sd
  | x_call_raise env f args body l s s1 sd1 :
      lookup f = Some body -> exec n0 (callee_env env args) body s Raised s1 sd1 ->
      exec n0 env (ECall f args :: l) s Raised s1 [].

  Lemma ev_ok_with may0 ctor inw b : ev_ok tbl may0 ctor inw (EWith b) = forallb (ev_ok tbl may0 ctor true) b.
  Proof. induction b as [|x t IH]; [reflexivity|]. simpl in *. rewrite IH. reflexivity. Qed.

  Lemma lookup_ok f body : table_ok tbl = true -> lookup f = Some body ->
    body_ok tbl (str_in f self_mutators) (str_in f constructors) false body = true.
  Proof.
    unfold table_ok, lookup. intros T H.
    destruct (find (fun p => String.eqb f (fst p)) tbl) as [p|] eqn:F; [|discriminate].
    injection H as <-. apply find_some in F as [I Q]. apply String.eqb_eq in Q. subst f.
    rewrite forallb_forall in T. specialize (T p I). unfold fun_ok in T. apply andb_true_iff in T as [T _]. exact T.
  Qed.
  Lemma lookup_rets f body : table_ok tbl = true -> lookup f = Some body -> str_in f fresh_returners = true ->
    forallb is_nil (rets body) = true.
  Proof.
    unfold table_ok, lookup. intros T H F.
    destruct (find (fun p => String.eqb f (fst p)) tbl) as [p|] eqn:Q; [|discriminate].
    injection H as <-. apply find_some in Q as [I Q]. apply String.eqb_eq in Q. subst f.
    rewrite forallb_forall in T. specialize (T p I). unfold fun_ok in T. apply andb_true_iff in T as [_ T].
    rewrite F in T. exact T.
  Qed.

  Definition untouched (may0 : bool) (n0 : nat) (env : nat -> list nat) (s s' : st) : Prop :=
    forall c, c < n0 -> (may0 = false \/ ~ In c (env 0)) -> cells s' c = cells s c.

  Lemma roots_ok_denotes may0 env r c : roots_ok may0 r = true -> denotes env r c -> may0 = true /\ In c (env 0).
  Proof.
    unfold roots_ok. rewrite forallb_forall. intros H [i [Hi Hc]]. specialize (H i Hi).
    apply andb_true_iff in H as [H1 H2]. apply Nat.eqb_eq in H2. subst i. auto.
  Qed.

  (* the frame lemma, for any checked event list *)
  Lemma frame_body (T : table_ok tbl = true) n0 env l s o s' sd :
    exec n0 env l s o s' sd ->
    forall may0 ctor inw, body_ok tbl may0 ctor inw l = true ->
      (inw = false -> err s' = err s) /\ untouched may0 n0 env s s' /\ Forall (fun c => n0 <= c) sd.
  Proof.
    induction 1 as
      [env s | env l s | env r l s c v o s' sd Hc Hx IH | env l s m o s' sd Hx IH
       | env b l s m s1 sd1 o s' sd Hb IHb Hl IHl | env b l s m s1 sd1 Hb IHb
       | env r l s c o s' sd Hc Hx IH
       | env f args body l s s1 sd1 o s' sd Hf Hb IHb Hl IHl
       | env r l s o s' sd Hx IH
       | env f args body l s s1 sd1 Hf Hb IHb];
      intros may0 ctor inw OK; unfold body_ok in OK; cbn [forallb] in OK.
    - split; [auto|split; [intros c _ _; reflexivity|constructor]].
    - split; [auto|split; [intros c _ _; reflexivity|constructor]].
    - apply andb_true_iff in OK as [O1 O2]. cbn [ev_ok] in O1.
      destruct (IH may0 ctor inw O2) as [I1 [I2 I3]]. split; [exact I1|split; [|exact I3]].
      intros k Hk Hm. rewrite (I2 k Hk Hm). cbn [upd cells].
      destruct (Nat.eqb k c) eqn:Q; [|reflexivity]. apply Nat.eqb_eq in Q. subst k. exfalso.
      destruct Hc as [Hc|Hc]; [|lia].
      destruct (roots_ok_denotes may0 env r c O1 Hc) as [M I]. destruct Hm as [Hm|Hm]; [congruence|auto].
    - apply andb_true_iff in OK as [O1 O2]. cbn [ev_ok] in O1. subst inw.
      destruct (IH may0 ctor true O2) as [_ [I2 I3]]. split; [discriminate|split; [|exact I3]].
      intros k Hk Hm. apply (I2 k Hk Hm).
    - apply andb_true_iff in OK as [O1 O2]. rewrite ev_ok_with in O1.
      destruct (IHb may0 ctor true O1) as [_ [B2 B3]]. destruct (IHl may0 ctor inw O2) as [L1 [L2 L3]].
      split; [|split].
      + intros Hi. rewrite (L1 Hi). reflexivity.
      + intros k Hk Hm. rewrite (L2 k Hk Hm). cbn [seterr cells]. apply (B2 k Hk Hm).
      + apply Forall_app. split; auto.
    - apply andb_true_iff in OK as [O1 O2]. rewrite ev_ok_with in O1.
      destruct (IHb may0 ctor true O1) as [_ [B2 B3]]. split; [reflexivity|split; [|exact B3]].
      intros k Hk Hm. cbn [seterr cells]. apply (B2 k Hk Hm).
    - apply andb_true_iff in OK as [O1 O2]. cbn [ev_ok] in O1. apply andb_true_iff in O1 as [O1 O1'].
      destruct r as [|? ?]; [|discriminate].
      destruct (IH may0 ctor inw O2) as [I1 [I2 I3]]. split; [exact I1|split; [exact I2|]].
      constructor; auto. destruct Hc as [[i [[] _]]|Hc]. exact Hc.
    - apply andb_true_iff in OK as [O1 O2]. cbn [ev_ok] in O1. apply andb_true_iff in O1 as [O1 O1'].
      pose proof (lookup_ok f body T Hf) as OKb.
      destruct (IHb _ _ _ OKb) as [B1 [B2 B3]]. destruct (IHl may0 ctor inw O2) as [L1 [L2 L3]].
      split; [|split; [|exact L3]].
      + intros Hi. rewrite (L1 Hi). apply B1. reflexivity.
      + intros k Hk Hm. rewrite (L2 k Hk Hm). apply (B2 k Hk).
        destruct (str_in f self_mutators) eqn:SM; [|left; reflexivity]. right.
        destruct args as [|r0 args]; [discriminate|]. unfold callee_env. cbn [nth]. intros I.
        apply in_flat_map in I as [i [Hi Hc]].
        destruct (roots_ok_denotes may0 env r0 k O1') as [M I0]; [exists i; auto|].
        destruct Hm as [Hm|Hm]; [congruence|auto].
    - apply andb_true_iff in OK as [O1 O2]. apply (IH may0 ctor inw O2).
    - apply andb_true_iff in OK as [O1 O2]. cbn [ev_ok] in O1. apply andb_true_iff in O1 as [O1 O1'].
      pose proof (lookup_ok f body T Hf) as OKb.
      destruct (IHb _ _ _ OKb) as [B1 [B2 B3]]. split; [|split; [|constructor]].
      + intros _. apply B1. reflexivity.
      + intros k Hk Hm. apply (B2 k Hk).
        destruct (str_in f self_mutators) eqn:SM; [|left; reflexivity]. right.
        destruct args as [|r0 args]; [discriminate|]. unfold callee_env. cbn [nth]. intros I.
        apply in_flat_map in I as [i [Hi Hc]].
        destruct (roots_ok_denotes may0 env r0 k O1') as [M I0]; [exists i; auto|].
        destruct Hm as [Hm|Hm]; [congruence|auto].
  Qed.

  (* one call of a function of the table, from any state, with any arguments, returning or raising *)
  Theorem frame_call (T : table_ok tbl = true) f body n0 env s o s' sd :
    lookup f = Some body -> exec n0 env body s o s' sd ->
    err s' = err s /\
    (forall c, c < n0 -> (str_in f self_mutators = false \/ ~ In c (env 0)) -> cells s' c = cells s c) /\
    Forall (fun c => n0 <= c) sd.
  Proof.
    intros L X. destruct (frame_body T n0 env body s o s' sd X _ _ _ (lookup_ok f body T L)) as [A [B C]].
    split; [apply A; reflexivity|]. split; [exact B|exact C].
  Qed.

  (* what a body may hand back: a cell denoted by the roots of one of its return statements, or a fresh one *)
  Definition may_return (n0 : nat) (env : nat -> list nat) (body : list ev) (c : nat) : Prop :=
    exists r, In r (rets body) /\ (denotes env r c \/ n0 <= c).
  (* a function that promises a new object never returns (a view of) an argument, a field of self or a cached object *)
  Theorem returns_fresh (T : table_ok tbl = true) f body n0 env c :
    lookup f = Some body -> str_in f fresh_returners = true -> may_return n0 env body c -> n0 <= c.
  Proof.
    intros L F [r [I H]].
    pose proof (lookup_rets f body T L F) as N. rewrite forallb_forall in N. specialize (N r I).
    destruct r; [|discriminate]. destruct H as [[i [[] _]]|H]. exact H.
  Qed.

  (* any sequence of calls *)
  Inductive hist : st -> list (string * (nat -> list nat) * nat) -> st -> Prop :=
  | h_nil s : hist s [] s
  | h_cons s f env n0 body o s1 sd rest s2 :
      lookup f = Some body -> exec n0 env body s o s1 sd -> hist s1 rest s2 -> hist s ((f, env, n0) :: rest) s2.

  Theorem frame_history (T : table_ok tbl = true) s h s' : hist s h s' ->
    err s' = err s /\
    forall c, (forall f env n0, In (f, env, n0) h -> c < n0 /\ (str_in f self_mutators = false \/ ~ In c (env 0))) ->
              cells s' c = cells s c.
  Proof.
    induction 1 as [s | s f env n0 body o s1 sd rest s2 L X Hh IH].
    - split; auto.
    - destruct (frame_call T f body n0 env s o s1 sd L X) as [A [B _]]. destruct IH as [I1 I2]. split; [congruence|].
      intros c Hc. rewrite I2.
      + destruct (Hc f env n0 (or_introl eq_refl)) as [K1 K2]. apply B; auto.
      + intros f' env' n' I. apply Hc. right. exact I.
  Qed.
End Fx.

(* the table regenerated from the current source passes the check *)
Lemma fx_table_safe : table_ok fx_table = true.
Proof. vm_compute. reflexivity. Qed.

(* non-vacuity: the table has the functions the property names, and a mutating call really is an execution *)
Example fx_table_has :
  lookup fx_table "Vec.normalized" <> None /\ lookup fx_table "AABB.pad" <> None /\
  lookup fx_table "AABB.__init__" <> None /\ lookup fx_table "rotate_around_axis" <> None.
Proof. vm_compute. repeat split; discriminate. Qed.

(* a documented self-mutator really may write its own cells (the semantics is not vacuous) *)
Example pad_may_write (s : st nat bool) :
  exists s', exec nat bool fx_table 5 (fun i => if Nat.eqb i 0 then [1; 2] else [3]) [EMut [0]; EMut [0]] s Returned s' []
             /\ cells nat bool s' 1 = 7.
Proof.
  eexists. split.
  - eapply x_mut with (c := 1) (v := 7); [left; exists 0; split; [left; reflexivity|left; reflexivity]|].
    eapply x_mut with (c := 2) (v := 8); [left; exists 0; split; [left; reflexivity|right; left; reflexivity]|].
    apply x_nil.
  - reflexivity.
Qed.

Lemma no_side_effects_call (V E : Type) (f : string) (body : list ev) (n0 : nat) (env : nat -> list nat)
    (s : st V E) (o : outcome) (s' : st V E) (sd : list nat) :
  lookup fx_table f = Some body -> exec V E fx_table n0 env body s o s' sd ->
  err V E s' = err V E s /\
  (forall c, c < n0 -> (str_in f self_mutators = false \/ ~ In c (env 0)) -> cells V E s' c = cells V E s c) /\
  Forall (fun c => n0 <= c) sd.
Proof. apply (frame_call V E fx_table fx_table_safe). Qed.
Lemma no_side_effects_history (V E : Type) (s : st V E) (h : list (string * (nat -> list nat) * nat)) (s' : st V E) :
  hist V E fx_table s h s' ->
  err V E s' = err V E s /\
  forall c, (forall f env n0, In (f, env, n0) h -> c < n0 /\ (str_in f self_mutators = false \/ ~ In c (env 0))) ->
            cells V E s' c = cells V E s c.
Proof. apply (frame_history V E fx_table fx_table_safe). Qed.

Lemma constructors_return_fresh (f : string) (body : list ev) (n0 : nat) (env : nat -> list nat) (c : nat) :
  lookup fx_table f = Some body -> str_in f fresh_returners = true -> may_return n0 env body c -> n0 <= c.
Proof. apply (returns_fresh fx_table fx_table_safe). Qed.
Example fresh_returners_in_table : forallb (fun f => match lookup fx_table f with Some b => negb (is_nil (rets b)) | None => false end) fresh_returners = true.
Proof. vm_compute. reflexivity. Qed.
