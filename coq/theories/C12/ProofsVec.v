(* C12 - vector and angle identities: theorems about the GENERATED definitions of Gen.v at R. *)
From Coq Require Import Reals List Bool Arith Lra Lia Nsatz Psatz.
Import ListNotations.
Require Import MV.C12.Model MV.C12.Gen MV.C12.ProofsLib MV.C12.ProofsBox.
Open Scope R_scope.

Ltac vec_eq := repeat (apply (f_equal2 (@cons R)); [try ring|]); try reflexivity.
Ltac gen_unfold :=
  cbv [g_cross g_dot g_det_2x2 g_det_3x3 vec_dot vdot vsum vmul vsub vadd map2 fold_right vnth List.nth
       RO Rops omul osub oadd odiv oZ zero].

Definition dot3 (a b : list R) : R := vnth RO a 0 * vnth RO b 0 + vnth RO a 1 * vnth RO b 1 + vnth RO a 2 * vnth RO b 2.

(* ------------------------------------------------------------------ cross / determinants *)
Lemma cross_expansion (a0 a1 a2 b0 b1 b2 : R) :
  g_cross R RO [a0; a1; a2] [b0; b1; b2] = [a1 * b2 - a2 * b1; a2 * b0 - a0 * b2; a0 * b1 - a1 * b0].
Proof. gen_unfold. vec_eq. Qed.

Lemma dot_expansion (a0 a1 a2 b0 b1 b2 : R) :
  g_dot R RO [a0; a1; a2] [b0; b1; b2] = a0 * b0 + a1 * b1 + a2 * b2 /\
  vec_dot R RO [a0; a1; a2] [b0; b1; b2] = a0 * b0 + a1 * b1 + a2 * b2.
Proof. gen_unfold. split; ring. Qed.

Lemma det2_expansion (a0 a1 b0 b1 : R) : g_det_2x2 R RO [a0; a1] [b0; b1] = a0 * b1 - a1 * b0.
Proof. gen_unfold. ring. Qed.

(* Sarrus = Laplace expansion = triple product A . (B x C) *)
Lemma det3_expansion (a0 a1 a2 b0 b1 b2 c0 c1 c2 : R) :
  g_det_3x3 R RO [a0; a1; a2] [b0; b1; b2] [c0; c1; c2]
  = a0 * (b1 * c2 - b2 * c1) - a1 * (b0 * c2 - b2 * c0) + a2 * (b0 * c1 - b1 * c0) /\
  g_det_3x3 R RO [a0; a1; a2] [b0; b1; b2] [c0; c1; c2]
  = g_dot R RO [a0; a1; a2] (g_cross R RO [b0; b1; b2] [c0; c1; c2]).
Proof. gen_unfold. split; ring. Qed.

(* Lagrange: |a x b|^2 = |a|^2 |b|^2 - (a.b)^2 ; the cross product is orthogonal to both factors *)
Lemma lagrange (a0 a1 a2 b0 b1 b2 : R) :
  let a := [a0; a1; a2] in let b := [b0; b1; b2] in
  g_dot R RO (g_cross R RO a b) (g_cross R RO a b)
  = g_dot R RO a a * g_dot R RO b b - g_dot R RO a b * g_dot R RO a b /\
  g_dot R RO (g_cross R RO a b) a = 0 /\ g_dot R RO (g_cross R RO a b) b = 0 /\
  g_cross R RO b a = vneg RO (g_cross R RO a b).
Proof.
  cbv zeta. gen_unfold. repeat split; try ring.
  cbv [vneg map neg RO Rops osub oZ zero]. vec_eq.
Qed.

(* ------------------------------------------------------------------ rotate_2d *)
Lemma rot2d_value (x y a c s : R) : rot_rotate_2d R RO [x; y] a c s = [x * c - y * s; x * s + y * c].
Proof. cbv [rot_rotate_2d vset vnth List.nth RO Rops omul osub oadd oZ]. reflexivity. Qed.

(* an isometry, additive on (cos, sin) pairs *)
Lemma rot2d_isometry (x y a c s : R) : c * c + s * s = 1 ->
  sumsq (rot_rotate_2d R RO [x; y] a c s) = sumsq [x; y].
Proof. intros H. rewrite rot2d_value. unfold sumsq. simpl. nsatz. Qed.
Lemma rot2d_additive_pairs (x y a b ab c1 s1 c2 s2 : R) :
  rot_rotate_2d R RO (rot_rotate_2d R RO [x; y] a c1 s1) b c2 s2
  = rot_rotate_2d R RO [x; y] ab (c1 * c2 - s1 * s2) (s1 * c2 + c1 * s2).
Proof. rewrite !rot2d_value. vec_eq. Qed.
Lemma rot2d_additive (x y a b : R) :
  rot_rotate_2d R RO (rot_rotate_2d R RO [x; y] a (cos a) (sin a)) b (cos b) (sin b)
  = rot_rotate_2d R RO [x; y] (a + b) (cos (a + b)) (sin (a + b)).
Proof. rewrite (rot2d_additive_pairs x y a b (a + b)). rewrite cos_plus, sin_plus. reflexivity. Qed.
Lemma rot2d_isometry_angle (x y a : R) : sumsq (rot_rotate_2d R RO [x; y] a (cos a) (sin a)) = sumsq [x; y].
Proof. apply rot2d_isometry. pose proof (sin2_cos2 a) as H. unfold Rsqr in H. lra. Qed.

(* ------------------------------------------------------------------ angles
   An angle is the pair (x, y) handed to atan2(y, x).  What atan2 returns is a hypothesis: *)
Definition is_atan2 (theta y x : R) : Prop :=
  - PI < theta <= PI /\ exists r, 0 <= r /\ x = r * cos theta /\ y = r * sin theta /\ (r = 0 -> theta = 0).

Lemma atan2_range_nonneg theta y x : is_atan2 theta y x -> 0 <= y -> 0 <= theta <= PI.
Proof.
  intros [[Hlo Hhi] [r [Hr [Hx [Hy Hz]]]]] Hy0. split; [|exact Hhi].
  destruct (Req_dec r 0) as [E|E]; [rewrite (Hz E); lra|].
  destruct (Rlt_dec theta 0) as [N|N]; [|lra].
  exfalso. pose proof (sin_lt_0_var theta Hlo N). nra.
Qed.
Example atan2_example : is_atan2 (PI / 2) 1 0.
Proof.
  pose proof PI_RGT_0. split; [lra|]. exists 1. rewrite cos_PI2, sin_PI2. repeat split; lra.
Qed.

Definition conj (a : ang R) : ang R := (fst a, - snd a).

(* the three-point angle: symmetric in its outer points, with a non-negative sine component *)
Lemma angle_3pts_pair (a0 a1 a2 b0 b1 b2 c0 c1 c2 : R) :
  let A := [a0; a1; a2] in let B := [b0; b1; b2] in let C := [c0; c1; c2] in
  g_angle_3pts R RO A B C = g_angle_3pts R RO C B A /\ 0 <= snd (g_angle_3pts R RO A B C) /\
  fst (g_angle_3pts R RO A B C) = g_dot R RO (vsub RO A B) (vsub RO C B) /\
  snd (g_angle_3pts R RO A B C) = sqrt (sumsq (g_cross R RO (vsub RO A B) (vsub RO C B))).
Proof.
  cbv zeta. unfold g_angle_3pts. cbv zeta. rewrite !vec_norm_spec. cbn [nrm mk_atan2 fst snd].
  split; [|split; [apply sqrt_pos|split; reflexivity]].
  f_equal; try (gen_unfold; ring). f_equal. gen_unfold. unfold sumsq. simpl. ring.
Qed.
Lemma angle_3pts_range (A B C : vec R) theta :
  is_atan2 theta (snd (g_angle_3pts R RO A B C)) (fst (g_angle_3pts R RO A B C)) -> 0 <= theta <= PI.
Proof.
  intros H. apply (atan2_range_nonneg _ _ _ H).
  unfold g_angle_3pts. cbv zeta. rewrite vec_norm_spec. cbn [nrm mk_atan2 snd]. apply sqrt_pos.
Qed.
Lemma angle_2vec3D_pair (a0 a1 a2 b0 b1 b2 : R) :
  let A := [a0; a1; a2] in let B := [b0; b1; b2] in
  g_angle_2vec3D R RO A B = g_angle_2vec3D R RO B A /\ 0 <= snd (g_angle_2vec3D R RO A B).
Proof.
  cbv zeta. unfold g_angle_2vec3D. cbv zeta. rewrite !vec_norm_spec. cbn [nrm mk_atan2 fst snd].
  split; [|apply sqrt_pos]. f_equal; try (gen_unfold; ring). f_equal. gen_unfold. unfold sumsq. simpl. ring.
Qed.

Lemma sign0_R x : g_sign0 R RO x = if Rle_dec 0 x then 1 else -1.
Proof. unfold g_sign0. cbv zeta. unfold ogeb. cbn [oleb oZ RO Rops]. unfold Rleb. destruct (Rle_dec 0 x); reflexivity. Qed.

(* the signed angle is antisymmetric (its pair is conjugated when the two vectors are swapped) as soon as
   the reference normal N orients the pair: (V1 x V2).N <> 0 - or when V1 x V2 = 0 (collinear vectors:
   the angle is 0 or pi, and pi = -pi modulo 2 pi). *)
Lemma signed_angle_antisym (a0 a1 a2 b0 b1 b2 n0 n1 n2 : R) :
  let V1 := [a0; a1; a2] in let V2 := [b0; b1; b2] in let N := [n0; n1; n2] in
  g_dot R RO (g_cross R RO V1 V2) N <> 0 \/ g_cross R RO V1 V2 = [0; 0; 0] ->
  g_signed_angle_2vec3D R RO V2 V1 N = conj (g_signed_angle_2vec3D R RO V1 V2 N).
Proof.
  cbv zeta. intros H. unfold g_signed_angle_2vec3D, conj. cbv zeta. rewrite !vec_norm_spec, !sign0_R.
  cbn [nrm mk_atan2 ang_sgn fst snd omul RO Rops].
  assert (E : sumsq (g_cross R RO [b0; b1; b2] [a0; a1; a2]) = sumsq (g_cross R RO [a0; a1; a2] [b0; b1; b2])).
  { gen_unfold. unfold sumsq. simpl. ring. }
  assert (D : g_dot R RO (g_cross R RO [b0; b1; b2] [a0; a1; a2]) [n0; n1; n2]
              = - g_dot R RO (g_cross R RO [a0; a1; a2] [b0; b1; b2]) [n0; n1; n2]).
  { gen_unfold. ring. }
  rewrite E, D.
  assert (C : g_dot R RO [b0; b1; b2] [a0; a1; a2] = g_dot R RO [a0; a1; a2] [b0; b1; b2]) by (gen_unfold; ring).
  rewrite C. unfold ang_sgn, mk_atan2. cbn [fst snd omul RO Rops].
  destruct H as [H|H].
  - destruct (Rle_dec 0 (- g_dot R RO (g_cross R RO [a0; a1; a2] [b0; b1; b2]) [n0; n1; n2])),
             (Rle_dec 0 (g_dot R RO (g_cross R RO [a0; a1; a2] [b0; b1; b2]) [n0; n1; n2])); try lra; f_equal; ring.
  - rewrite H. unfold sumsq. simpl. replace (0 * 0 + (0 * 0 + (0 * 0 + 0))) with 0 by ring. rewrite sqrt_0.
    repeat destruct (Rle_dec _ _); f_equal; ring.
Qed.
(* the guard is needed: with N in the plane of V1, V2 both orders give the same (unsigned) angle *)
Lemma signed_angle_guard_needed :
  g_signed_angle_2vec3D R RO [0; 1; 0] [1; 0; 0] [1; 0; 0] = g_signed_angle_2vec3D R RO [1; 0; 0] [0; 1; 0] [1; 0; 0]
  /\ snd (g_signed_angle_2vec3D R RO [1; 0; 0] [0; 1; 0] [1; 0; 0]) = 1.
Proof.
  unfold g_signed_angle_2vec3D. cbv zeta. rewrite !vec_norm_spec, !sign0_R. unfold ang_sgn, mk_atan2.
  cbn [nrm fst snd omul RO Rops]. gen_unfold. unfold sumsq. simpl.
  repeat match goal with |- context [sqrt ?e] => replace e with 1 by ring; rewrite sqrt_1 end.
  repeat destruct (Rle_dec _ _); split; try f_equal; try lra.
Qed.

(* the 2D angle atan2(V2) - atan2(V1): antisymmetric for all vectors, zero ones included (atan2(0,0) = 0) *)
Lemma angle_2vec2D_antisym (a0 a1 b0 b1 : R) :
  g_angle_2vec2D R RO [b0; b1] [a0; a1] = conj (g_angle_2vec2D R RO [a0; a1] [b0; b1]).
Proof.
  unfold g_angle_2vec2D, conj, ang_sub, ang_nz. cbv zeta. cbn [mk_atan2 vnth List.nth fst snd].
  destruct (oeqb RO b0 (zero RO) && oeqb RO b1 (zero RO)), (oeqb RO a0 (zero RO) && oeqb RO a1 (zero RO));
    cbn [fst snd oadd osub omul RO Rops one zero oZ]; f_equal; ring.
Qed.

(* ------------------------------------------------------------------ maths.py: angle reduction, roots *)
Lemma floor_R x : IZR (ofloor RO x) <= x < IZR (ofloor RO x) + 1.
Proof. cbn [ofloor RO Rops]. rewrite minus_IZR. destruct (archimed x). lra. Qed.

Lemma fmod_R a m : 0 < m -> exists k : Z, ofmod RO a m = a - m * IZR k /\ 0 <= ofmod RO a m < m.
Proof.
  intros Hm. unfold ofmod. cbn [osub omul odiv oZ ofloor RO Rops]. set (k := (up (a / m) - 1)%Z).
  exists k. split; [reflexivity|].
  pose proof (floor_R (a / m)) as [H1 H2]. cbn [ofloor RO Rops] in H1, H2. fold k in H1, H2.
  assert (E : a = m * (a / m)) by (field; lra).
  split.
  - apply Rmult_le_compat_l with (r := m) in H1; [|lra]. lra.
  - apply Rmult_lt_compat_l with (r := m) in H2; [|lra]. lra.
Qed.

(* principal_angle a is congruent to a modulo 2 pi and lies in (-pi, pi] *)
Lemma principal_angle_spec a :
  (exists k : Z, m_principal_angle R RO a = a + 2 * PI * IZR k) /\ - PI < m_principal_angle R RO a <= PI.
Proof.
  pose proof PI_RGT_0 as Hpi.
  unfold m_principal_angle. cbv zeta. cbn [oZ opi omul RO Rops].
  destruct (fmod_R a (2 * PI)) as [k [E [H1 H2]]]; [lra|].
  fold (@ofmod R RO a (2 * PI)). cbn [osub RO Rops].
  destruct (ogtb RO (ofmod RO a (2 * PI)) PI) eqn:G.
  - apply ogtb_R in G. split; [exists (- k - 1)%Z; rewrite E, minus_IZR, opp_IZR; lra|lra].
  - assert (ofmod RO a (2 * PI) <= PI).
    { destruct (Rle_dec (ofmod RO a (2 * PI)) PI); auto. exfalso.
      assert (ogtb RO (ofmod RO a (2 * PI)) PI = true) by (apply ogtb_R; lra). congruence. }
    split; [exists (- k)%Z; rewrite E, opp_IZR; lra|lra].
Qed.
(* angle_diff a b is congruent to a - b modulo 2 pi and lies in [-pi, pi) *)
Lemma angle_diff_spec a b :
  (exists k : Z, m_angle_diff R RO a b = (a - b) + 2 * PI * IZR k) /\ - PI <= m_angle_diff R RO a b < PI.
Proof.
  pose proof PI_RGT_0 as Hpi.
  unfold m_angle_diff. cbv zeta. cbn [oZ opi omul oadd osub RO Rops].
  destruct (fmod_R (a - b + PI) (2 * PI)) as [k [E [H1 H2]]]; [lra|].
  split; [exists (- k)%Z; rewrite E, opp_IZR; lra|lra].
Qed.

(* complex power of a pair *)
Fixpoint cpow (z : R * R) (n : nat) : R * R :=
  match n with
  | O => (1, 0)
  | S m => let w := cpow z m in (fst z * fst w - snd z * snd w, fst z * snd w + snd z * fst w)
  end.
Lemma de_moivre x n : cpow (cos x, sin x) n = (cos (INR n * x), sin (INR n * x)).
Proof.
  induction n as [|n IH].
  - simpl. rewrite Rmult_0_l, cos_0, sin_0. reflexivity.
  - cbn [cpow]. rewrite IH. cbn [fst snd]. rewrite S_INR.
    replace ((INR n + 1) * x) with (x + INR n * x) by ring. rewrite cos_plus, sin_plus. f_equal; ring.
Qed.
(* every root returned by roots(c, n), raised to the n-th power, gives back (cos t, sin t) = c / |c|
   where (|c|, t) = cmath.polar(c) *)
Lemma roots_power (t : R) (n k : nat) : (0 < n)%nat ->
  let th := m_root_angle R RO t (INR k) (INR n) in
  cpow (cos th, sin th) n = (cos t, sin t).
Proof.
  intros Hn. cbv zeta. rewrite de_moivre. unfold m_root_angle. cbn [odiv oadd omul oZ opi RO Rops].
  assert (INR n <> 0) by (apply not_0_INR; lia).
  replace (INR n * ((t + 2 * INR k * PI) / INR n)) with (t + 2 * INR k * PI) by (field; auto).
  rewrite cos_period, sin_period. reflexivity.
Qed.
Lemma polar_unit (re im r t : R) : 0 < r -> re = r * cos t -> im = r * sin t -> (re / r, im / r) = (cos t, sin t).
Proof. intros Hr -> ->. f_equal; field; lra. Qed.

(* ------------------------------------------------------------------ normalisation *)
Definition n3 (a0 a1 a2 : R) : R := sqrt (a0 * a0 + (a1 * a1 + (a2 * a2 + 0))).
Lemma n3_sq a0 a1 a2 : n3 a0 a1 a2 * n3 a0 a1 a2 = a0 * a0 + a1 * a1 + a2 * a2.
Proof. unfold n3. rewrite sqrt_sqrt; [ring|nra]. Qed.
Lemma n3_nonneg a0 a1 a2 : 0 <= n3 a0 a1 a2. Proof. apply sqrt_pos. Qed.

Lemma normalized3 (a0 a1 a2 : R) :
  let n := n3 a0 a1 a2 in
  (n <> 0 -> vec_normalized R RO [a0; a1; a2] L2 = Ret [a0 / n; a1 / n; a2 / n]) /\
  (n = 0 -> vec_normalized R RO [a0; a1; a2] L2 = Raise FloatingPoint).
Proof.
  cbv zeta. unfold vec_normalized. cbv zeta. rewrite vec_norm_spec. cbn [nrm]. unfold sumsq. cbn [map fold_right].
  fold (n3 a0 a1 a2). unfold vdivs_raise. cbn [oleb RO Rops odiv map]. unfold zero. cbn [oZ RO Rops].
  split; intros H.
  - assert (E : Rleb (n3 a0 a1 a2) 0 && Rleb 0 (n3 a0 a1 a2) = false).
    { apply andb_false_iff. pose proof (n3_nonneg a0 a1 a2). left. apply Rleb_false. lra. }
    rewrite E. reflexivity.
  - assert (E : Rleb (n3 a0 a1 a2) 0 && Rleb 0 (n3 a0 a1 a2) = true).
    { apply andb_true_iff. split; apply Rleb_true; lra. }
    rewrite E. reflexivity.
Qed.
Lemma normalized3_ret (a0 a1 a2 : R) u :
  vec_normalized R RO [a0; a1; a2] L2 = Ret u ->
  let n := n3 a0 a1 a2 in 0 < n /\ u = [a0 / n; a1 / n; a2 / n].
Proof.
  intros H. cbv zeta. destruct (normalized3 a0 a1 a2) as [N1 N2].
  destruct (Req_dec (n3 a0 a1 a2) 0) as [E|E].
  - rewrite (N2 E) in H. discriminate.
  - rewrite (N1 E) in H. injection H as <-. pose proof (n3_nonneg a0 a1 a2). split; [lra|reflexivity].
Qed.
Lemma unit3 a0 a1 a2 : n3 a0 a1 a2 <> 0 ->
  let n := n3 a0 a1 a2 in (a0 / n) * (a0 / n) + (a1 / n) * (a1 / n) + (a2 / n) * (a2 / n) = 1.
Proof.
  intros H. cbv zeta. pose proof (n3_sq a0 a1 a2) as S.
  replace (a0 / n3 a0 a1 a2 * (a0 / n3 a0 a1 a2) + a1 / n3 a0 a1 a2 * (a1 / n3 a0 a1 a2) + a2 / n3 a0 a1 a2 * (a2 / n3 a0 a1 a2))
    with ((a0 * a0 + a1 * a1 + a2 * a2) / (n3 a0 a1 a2 * n3 a0 a1 a2)) by (field; exact H).
  rewrite <- S. field. exact H.
Qed.

(* ------------------------------------------------------------------ rotate_around_axis (Rodrigues) *)
Definition rod (u v w c s x y z : R) : list R :=
  [ (c + u * u * (1 - c)) * x + (u * v * (1 - c) - w * s) * y + (u * w * (1 - c) + v * s) * z;
    (u * v * (1 - c) + w * s) * x + (c + v * v * (1 - c)) * y + (v * w * (1 - c) - u * s) * z;
    (u * w * (1 - c) - v * s) * x + (v * w * (1 - c) + u * s) * y + (c + w * w * (1 - c)) * z ].
Definition eps12 : R := 1 / 1000000000000.

Lemma rot_axis_value (x y z a0 a1 a2 angle c s : R) :
  let n := n3 a0 a1 a2 in
  (Rabs angle < eps12 \/ n < eps12 -> rot_rotate_around_axis R RO [x; y; z] [a0; a1; a2] angle c s = Ret [x; y; z]) /\
  (eps12 <= Rabs angle -> eps12 <= n ->
   rot_rotate_around_axis R RO [x; y; z] [a0; a1; a2] angle c s = Ret (rod (a0 / n) (a1 / n) (a2 / n) c s x y z)).
Proof.
  cbv zeta. unfold rot_rotate_around_axis. cbv zeta. rewrite vec_norm_spec, oabs_R. cbn [nrm]. unfold sumsq.
  cbn [map fold_right]. fold (n3 a0 a1 a2). unfold oQ. cbn [odiv oZ RO Rops]. fold eps12.
  split.
  - intros H. assert (E : oltb RO (Rabs angle) eps12 || oltb RO (n3 a0 a1 a2) eps12 = true).
    { apply orb_true_iff. destruct H; [left|right]; apply oltb_R; auto. }
    rewrite E. reflexivity.
  - intros H1 H2. assert (E : oltb RO (Rabs angle) eps12 || oltb RO (n3 a0 a1 a2) eps12 = false).
    { apply orb_false_iff. split.
      - destruct (oltb RO (Rabs angle) eps12) eqn:F; auto. apply oltb_R in F. lra.
      - destruct (oltb RO (n3 a0 a1 a2) eps12) eqn:F; auto. apply oltb_R in F. lra. }
    rewrite E. assert (N : n3 a0 a1 a2 <> 0) by (unfold eps12 in H2; lra).
    destruct (normalized3 a0 a1 a2) as [NV _]. cbv zeta in NV. rewrite (NV N). cbn [bind].
    cbv [rod vset vnth List.nth RO Rops omul osub oadd oZ]. reflexivity.
Qed.

Lemma rod_isometry u v w c s x y z : u * u + v * v + w * w = 1 -> c * c + s * s = 1 ->
  sumsq (rod u v w c s x y z) = sumsq [x; y; z].
Proof. intros H1 H2. unfold rod, sumsq. simpl. nsatz. Qed.
Lemma rod_axis u v w c s n : u * u + v * v + w * w = 1 ->
  rod u v w c s (n * u) (n * v) (n * w) = [n * u; n * v; n * w].
Proof. intros H. unfold rod. repeat (apply (f_equal2 (@cons R)); [nsatz|]). reflexivity. Qed.
Lemma rod_compose u v w c1 s1 c2 s2 x y z : u * u + v * v + w * w = 1 ->
  match rod u v w c1 s1 x y z with
  | [x'; y'; z'] => rod u v w c2 s2 x' y' z' = rod u v w (c1 * c2 - s1 * s2) (s1 * c2 + c1 * s2) x y z
  | _ => False
  end.
Proof. intros H. unfold rod. repeat (apply (f_equal2 (@cons R)); [nsatz|]). reflexivity. Qed.
Lemma rod_identity u v w x y z : rod u v w 1 0 x y z = [x; y; z].
Proof. unfold rod. vec_eq. Qed.

(* rotations are isometries ... *)
Lemma rotation_isometry (x y z a0 a1 a2 angle c s : R) out :
  c * c + s * s = 1 ->
  rot_rotate_around_axis R RO [x; y; z] [a0; a1; a2] angle c s = Ret out -> sumsq out = sumsq [x; y; z].
Proof.
  intros Hcs H. destruct (rot_axis_value x y z a0 a1 a2 angle c s) as [V1 V2].
  destruct (Rlt_dec (Rabs angle) eps12) as [A|A]; [rewrite V1 in H by auto; injection H as <-; reflexivity|].
  destruct (Rlt_dec (n3 a0 a1 a2) eps12) as [B|B]; [rewrite V1 in H by auto; injection H as <-; reflexivity|].
  rewrite V2 in H by lra. injection H as <-. apply rod_isometry; auto.
  apply unit3. unfold eps12 in B. lra.
Qed.
(* ... fixing their axis ... *)
Lemma rotation_fixes_axis (a0 a1 a2 angle c s : R) out :
  rot_rotate_around_axis R RO [a0; a1; a2] [a0; a1; a2] angle c s = Ret out -> out = [a0; a1; a2].
Proof.
  intros H. destruct (rot_axis_value a0 a1 a2 a0 a1 a2 angle c s) as [V1 V2].
  destruct (Rlt_dec (Rabs angle) eps12) as [A|A]; [rewrite V1 in H by auto; injection H as <-; reflexivity|].
  destruct (Rlt_dec (n3 a0 a1 a2) eps12) as [B|B]; [rewrite V1 in H by auto; injection H as <-; reflexivity|].
  rewrite V2 in H by lra. injection H as <-.
  assert (N : n3 a0 a1 a2 <> 0) by (unfold eps12 in B; lra).
  pose proof (unit3 a0 a1 a2 N) as U. cbv zeta in U.
  set (n := n3 a0 a1 a2) in *.
  assert (E0 : n * (a0 / n) = a0) by (field; auto).
  assert (E1 : n * (a1 / n) = a1) by (field; auto).
  assert (E2 : n * (a2 / n) = a2) by (field; auto).
  pose proof (rod_axis (a0 / n) (a1 / n) (a2 / n) c s n U) as RA.
  rewrite E0, E1, E2 in RA. exact RA.
Qed.
(* ... and composing additively.  The code treats |angle| < 1e-12 as "no rotation": the law is exact for
   angles that are 0 or outside that cut-off. *)
Definition angle_ok (a : R) : Prop := a = 0 \/ eps12 <= Rabs a.
Lemma rot_as_rod (x y z a0 a1 a2 a : R) : angle_ok a -> eps12 <= n3 a0 a1 a2 ->
  let n := n3 a0 a1 a2 in
  rot_rotate_around_axis R RO [x; y; z] [a0; a1; a2] a (cos a) (sin a) = Ret (rod (a0 / n) (a1 / n) (a2 / n) (cos a) (sin a) x y z).
Proof.
  intros [->|H] Hn; cbv zeta; destruct (rot_axis_value x y z a0 a1 a2) with (angle := 0) (c := cos 0) (s := sin 0) as [V1 _].
  - rewrite V1. + rewrite cos_0, sin_0, rod_identity. reflexivity.
    + left. rewrite Rabs_R0. unfold eps12. lra.
  - destruct (rot_axis_value x y z a0 a1 a2 a (cos a) (sin a)) as [_ V2]. apply V2; auto.
Qed.
Lemma rotation_additive (x y z a0 a1 a2 a b : R) r1 r2 :
  angle_ok a -> angle_ok b -> angle_ok (a + b) ->
  rot_rotate_around_axis R RO [x; y; z] [a0; a1; a2] a (cos a) (sin a) = Ret r1 ->
  rot_rotate_around_axis R RO r1 [a0; a1; a2] b (cos b) (sin b) = Ret r2 ->
  rot_rotate_around_axis R RO [x; y; z] [a0; a1; a2] (a + b) (cos (a + b)) (sin (a + b)) = Ret r2.
Proof.
  intros Ha Hb Hab H1 H2.
  destruct (Rlt_dec (n3 a0 a1 a2) eps12) as [B|B].
  - (* degenerate axis: every call returns its input *)
    destruct (rot_axis_value x y z a0 a1 a2 a (cos a) (sin a)) as [V1 _]. rewrite V1 in H1 by auto. injection H1 as <-.
    destruct (rot_axis_value x y z a0 a1 a2 b (cos b) (sin b)) as [V2 _]. rewrite V2 in H2 by auto. injection H2 as <-.
    destruct (rot_axis_value x y z a0 a1 a2 (a + b) (cos (a + b)) (sin (a + b))) as [V3 _]. apply V3. auto.
  - assert (Hn : eps12 <= n3 a0 a1 a2) by lra.
    assert (N : n3 a0 a1 a2 <> 0) by (unfold eps12 in Hn; lra).
    pose proof (unit3 a0 a1 a2 N) as U. cbv zeta in U.
    rewrite rot_as_rod in H1 by auto. injection H1 as <-.
    pose proof (rod_compose _ _ _ (cos a) (sin a) (cos b) (sin b) x y z U) as C.
    unfold rod at 1 in C. unfold rod at 1 in H2.
    rewrite rot_as_rod in H2 by auto. injection H2 as <-.
    rewrite rot_as_rod by auto. rewrite cos_plus, sin_plus, <- C. reflexivity.
Qed.

(* ------------------------------------------------------------------ cotan *)
Lemma sumsq3 (x y z : R) : sumsq [x; y; z] = x * x + y * y + z * z.
Proof. unfold sumsq. simpl. ring. Qed.
Lemma sumsq3_n3 (x y z : R) : sqrt (sumsq [x; y; z]) = n3 x y z.
Proof. reflexivity. Qed.

(* cotan(A, B, C) * tan(ABC) = 1, where tan(ABC) = |BA x BC| / (BA . BC):  cotan * |BA x BC| = BA . BC *)
Lemma cotan_spec (a0 a1 a2 b0 b1 b2 c0 c1 c2 k : R) :
  let u := vsub RO [a0; a1; a2] [b0; b1; b2] in let v := vsub RO [c0; c1; c2] [b0; b1; b2] in
  sumsq (g_cross R RO u v) <> 0 ->
  g_cotan R RO [a0; a1; a2] [b0; b1; b2] [c0; c1; c2] = Ret k ->
  k * sqrt (sumsq (g_cross R RO u v)) = g_dot R RO u v.
Proof.
  cbv zeta. cbn [vsub map2 osub RO Rops].
  set (u0 := a0 - b0). set (u1 := a1 - b1). set (u2 := a2 - b2).
  set (v0 := c0 - b0). set (v1 := c1 - b1). set (v2 := c2 - b2).
  intros HS H. unfold g_cotan in H. cbv zeta in H. cbn [vsub map2 osub RO Rops] in H.
  fold u0 u1 u2 v0 v1 v2 in H.
  destruct (vec_normalized R RO [u0; u1; u2] L2) as [BA|e] eqn:E1; [|discriminate]. cbn [bind] in H.
  apply normalized3_ret in E1 as [P1 ->].
  destruct (vec_normalized R RO [v0; v1; v2] L2) as [BC|e] eqn:E2; [|discriminate]. cbn [bind] in H.
  apply normalized3_ret in E2 as [P2 ->].
  rewrite g_norm_spec in H by discriminate. cbn [bind nrm] in H. injection H as <-.
  set (n1 := n3 u0 u1 u2) in *. set (n2 := n3 v0 v1 v2) in *.
  assert (SS : sumsq (g_cross R RO [u0 / n1; u1 / n1; u2 / n1] [v0 / n2; v1 / n2; v2 / n2])
               = sumsq (g_cross R RO [u0; u1; u2] [v0; v1; v2]) / ((n1 * n2) * (n1 * n2))).
  { rewrite !cross_expansion, !sumsq3. field. lra. }
  assert (PP : 0 < n1 * n2) by (apply Rmult_lt_0_compat; assumption).
  assert (PP2 : 0 < n1 * n2 * (n1 * n2)) by (apply Rmult_lt_0_compat; assumption).
  rewrite SS. rewrite sqrt_div_alt by exact PP2. rewrite sqrt_square by (apply Rlt_le; exact PP).
  assert (Q : sqrt (sumsq (g_cross R RO [u0; u1; u2] [v0; v1; v2])) <> 0).
  { intros Q. apply sqrt_eq_0 in Q; [contradiction|apply sumsq_nonneg]. }
  set (sq := sqrt (sumsq (g_cross R RO [u0; u1; u2] [v0; v1; v2]))) in *.
  gen_unfold. field. repeat split; lra.
Qed.

(* ------------------------------------------------------------------ face basis and circumcenter *)
Lemma face_basis_spec (a0 a1 a2 b0 b1 b2 c0 c1 c2 : R) X Y Z :
  g_face_basis R RO [a0; a1; a2] [b0; b1; b2] [c0; c1; c2] = Ret (X, Y, Z) ->
  exists x0 x1 x2 z0 z1 z2,
    X = [x0; x1; x2] /\ Z = [z0; z1; z2] /\
    Y = [z1 * x2 - z2 * x1; z2 * x0 - z0 * x2; z0 * x1 - z1 * x0] /\
    x0 * x0 + x1 * x1 + x2 * x2 = 1 /\ z0 * z0 + z1 * z1 + z2 * z2 = 1 /\ x0 * z0 + x1 * z1 + x2 * z2 = 0 /\
    z0 * (b0 - a0) + z1 * (b1 - a1) + z2 * (b2 - a2) = 0 /\
    z0 * (c0 - a0) + z1 * (c1 - a1) + z2 * (c2 - a2) = 0 /\
    (exists n, 0 < n /\ b0 - a0 = n * x0 /\ b1 - a1 = n * x1 /\ b2 - a2 = n * x2).
Proof.
  unfold g_face_basis. cbv zeta. cbn [vsub map2 osub RO Rops].
  set (e0 := b0 - a0). set (e1 := b1 - a1). set (e2 := b2 - a2).
  set (f0 := c0 - a0). set (f1 := c1 - a1). set (f2 := c2 - a2).
  destruct (vec_normalized R RO [e0; e1; e2] L2) as [X'|e] eqn:E1; [|discriminate]. cbn [bind].
  apply normalized3_ret in E1 as [P1 ->]. set (n1 := n3 e0 e1 e2) in *.
  set (x0 := e0 / n1). set (x1 := e1 / n1). set (x2 := e2 / n1).
  rewrite cross_expansion.
  destruct (vec_normalized R RO [x1 * f2 - x2 * f1; x2 * f0 - x0 * f2; x0 * f1 - x1 * f0] L2) as [Z'|e] eqn:E2; [|discriminate].
  cbn [bind]. apply normalized3_ret in E2 as [P2 ->].
  set (w0 := x1 * f2 - x2 * f1) in *. set (w1 := x2 * f0 - x0 * f2) in *. set (w2 := x0 * f1 - x1 * f0) in *.
  set (n2 := n3 w0 w1 w2) in *.
  set (z0 := w0 / n2). set (z1 := w1 / n2). set (z2 := w2 / n2).
  rewrite cross_expansion.
  assert (UX : x0 * x0 + x1 * x1 + x2 * x2 = 1) by (apply unit3; unfold n1 in P1; lra).
  assert (UZ : z0 * z0 + z1 * z1 + z2 * z2 = 1) by (apply unit3; unfold n2 in P2; lra).
  assert (XZ : x0 * z0 + x1 * z1 + x2 * z2 = 0).
  { unfold z0, z1, z2, w0, w1, w2. field. lra. }
  assert (NV : n3 (z1 * x2 - z2 * x1) (z2 * x0 - z0 * x2) (z0 * x1 - z1 * x0) = 1).
  { unfold n3. replace ((z1 * x2 - z2 * x1) * (z1 * x2 - z2 * x1) +
      ((z2 * x0 - z0 * x2) * (z2 * x0 - z0 * x2) + ((z0 * x1 - z1 * x0) * (z0 * x1 - z1 * x0) + 0))) with 1 by nsatz.
    apply sqrt_1. }
  destruct (vec_normalized R RO [z1 * x2 - z2 * x1; z2 * x0 - z0 * x2; z0 * x1 - z1 * x0] L2) as [Y'|e] eqn:E3; [|discriminate].
  cbn [bind]. apply normalized3_ret in E3 as [P3 ->]. rewrite NV.
  intros H. injection H as <- <- <-.
  exists x0, x1, x2, z0, z1, z2. repeat split; auto.
  - repeat (apply (f_equal2 (@cons R)); [field|]). reflexivity.
  - (* Z . e = n1 (Z . X) = 0 *)
    replace e0 with (n1 * x0) by (unfold x0; field; lra).
    replace e1 with (n1 * x1) by (unfold x1; field; lra).
    replace e2 with (n1 * x2) by (unfold x2; field; lra).
    replace (z0 * (n1 * x0) + z1 * (n1 * x1) + z2 * (n1 * x2)) with (n1 * (x0 * z0 + x1 * z1 + x2 * z2)) by ring.
    rewrite XZ. ring.
  - unfold z0, z1, z2, w0, w1, w2. field. lra.
  - exists n1. repeat split; auto; unfold x0, x1, x2; field; lra.
Qed.

Lemma line2_some (p10 p11 d10 d11 p20 p21 d20 d21 : R) S :
  g_intersect_2lines2D R RO [p10; p11] [d10; d11] [p20; p21] [d20; d21] = Some S ->
  d10 * d21 - d11 * d20 <> 0 /\
  exists t, t * (d10 * d21 - d11 * d20) = (p20 - p10) * d21 - (p21 - p11) * d20 /\
            S = [p10 + t * d10; p11 + t * d11].
Proof.
  unfold g_intersect_2lines2D. cbv zeta. cbn [vhead2 firstn]. rewrite det2_expansion.
  match goal with |- (if ?c then _ else _) = _ -> _ => destruct c eqn:E end; [discriminate|].
  intros H. injection H as <-.
  assert (D : d10 * d21 - d11 * d20 <> 0).
  { intros Z. rewrite Z in E.
    cbv [g_dot vdot vsum vmul map2 fold_right oQ RO Rops omul oadd odiv oZ zero] in E. apply Rleb_false in E.
    assert (0 <= d10 * d10 + (d11 * d11 + 0)) by nra. assert (0 <= d20 * d20 + (d21 * d21 + 0)) by nra.
    assert (0 <= 1 / 1000000000000000000000000 * (d10 * d10 + (d11 * d11 + 0)) * (d20 * d20 + (d21 * d21 + 0))).
    { apply Rmult_le_pos; [apply Rmult_le_pos|]; auto. lra. }
    lra. }
  split; [exact D|].
  cbv [g_dot vdot vsum vmul vsub vadd vscale map map2 fold_right vnth List.nth neg RO Rops omul osub oadd odiv oZ zero].
  match goal with |- context [?T * d10] => exists T end. split; [|reflexivity].
  field. intros Q. apply D. rewrite <- Q. ring.
Qed.

(* a point p + t * perp(B - A) of the bisector of AB is equidistant from A and B; it is equidistant from A and C
   when t solves the intersection equation *)
Lemma circ2d (ax ay bx by_ cx cy t : R) :
  let p10 := (ax + bx) / 2 in let p11 := (ay + by_) / 2 in
  let p20 := (ax + cx) / 2 in let p21 := (ay + cy) / 2 in
  let d10 := by_ - ay in let d11 := - (bx - ax) in
  let d20 := cy - ay in let d21 := - (cx - ax) in
  t * (d10 * d21 - d11 * d20) = (p20 - p10) * d21 - (p21 - p11) * d20 ->
  let s0 := p10 + t * d10 in let s1 := p11 + t * d11 in
  (s0 - ax) * (s0 - ax) + (s1 - ay) * (s1 - ay) = (s0 - bx) * (s0 - bx) + (s1 - by_) * (s1 - by_) /\
  (s0 - ax) * (s0 - ax) + (s1 - ay) * (s1 - ay) = (s0 - cx) * (s0 - cx) + (s1 - cy) * (s1 - cy).
Proof.
  cbv zeta. intros H. split; [field|].
  assert (H2 : 2 * (t * ((by_ - ay) * - (cx - ax) - - (bx - ax) * (cy - ay)))
               = (cx - bx) * - (cx - ax) - (cy - by_) * (cy - ay)) by (rewrite H; field).
  clear H.
  replace ((ax + bx) / 2) with ((ax + bx) * / 2) by reflexivity.
  replace ((ay + by_) / 2) with ((ay + by_) * / 2) by reflexivity.
  set (hf := / 2). assert (Hh : 2 * hf = 1) by (unfold hf; field). clearbody hf.
  nsatz.
Qed.

Lemma dist_decomp (x0 x1 x2 z0 z1 z2 q0 q1 q2 s0 s1 h : R) :
  x0*x0+x1*x1+x2*x2 = 1 -> z0*z0+z1*z1+z2*z2 = 1 -> x0*z0+x1*z1+x2*z2 = 0 ->
  let y0 := z1*x2 - z2*x1 in let y1 := z2*x0 - z0*x2 in let y2 := z0*x1 - z1*x0 in
  let p0 := x0*s0 + y0*s1 + z0*h in let p1 := x1*s0 + y1*s1 + z1*h in let p2 := x2*s0 + y2*s1 + z2*h in
  (p0-q0)*(p0-q0) + (p1-q1)*(p1-q1) + (p2-q2)*(p2-q2)
  = (s0 - (x0*q0+x1*q1+x2*q2))*(s0 - (x0*q0+x1*q1+x2*q2)) + (s1 - (y0*q0+y1*q1+y2*q2))*(s1 - (y0*q0+y1*q1+y2*q2))
    + (h - (z0*q0+z1*q1+z2*q2))*(h - (z0*q0+z1*q1+z2*q2)).
Proof. intros H1 H2 H3. cbv zeta. nsatz. Qed.

(* The circumcentre is equidistant from the three vertices, and lies in their plane. *)
Lemma circumcenter_equidistant (a0 a1 a2 b0 b1 b2 c0 c1 c2 : R) P :
  g_circumcenter R RO [a0; a1; a2] [b0; b1; b2] [c0; c1; c2] = Ret P ->
  sumsq (vsub RO P [a0; a1; a2]) = sumsq (vsub RO P [b0; b1; b2]) /\
  sumsq (vsub RO P [a0; a1; a2]) = sumsq (vsub RO P [c0; c1; c2]) /\
  g_det_3x3 R RO (vsub RO P [a0; a1; a2]) (vsub RO [b0; b1; b2] [a0; a1; a2]) (vsub RO [c0; c1; c2] [a0; a1; a2]) = 0.
Proof.
  unfold g_circumcenter. cbv zeta.
  destruct (g_face_basis R RO [a0; a1; a2] [b0; b1; b2] [c0; c1; c2]) as [[[X Y] Z]|e] eqn:FB; [|discriminate].
  cbn [bind].
  destruct (face_basis_spec _ _ _ _ _ _ _ _ _ X Y Z FB)
    as [x0 [x1 [x2 [z0 [z1 [z2 [-> [-> [-> [UX [UZ [XZ [ZE [ZF [n [Hn [N0 [N1 N2]]]]]]]]]]]]]]]]]].
  set (y0 := z1 * x2 - z2 * x1). set (y1 := z2 * x0 - z0 * x2). set (y2 := z0 * x1 - z1 * x0).
  rewrite !(proj1 (dot_expansion _ _ _ _ _ _)).
  cbn [vadd vsub vdivs map map2 oadd osub odiv oZ RO Rops vnth List.nth neg].
  match goal with |- bind_opt ?t _ = _ -> _ => destruct t as [S|] eqn:L2 end; [|discriminate].
  cbn [bind_opt]. apply line2_some in L2 as [D [t [Ht ES]]]. subst S.
  intros H. injection H as <-.
  cbv [vscaler vadd vsub map map2 vnth List.nth oadd osub omul RO Rops].
  set (ax := x0 * a0 + x1 * a1 + x2 * a2) in *. set (ay := y0 * a0 + y1 * a1 + y2 * a2) in *.
  set (bx := x0 * b0 + x1 * b1 + x2 * b2) in *. set (by_ := y0 * b0 + y1 * b1 + y2 * b2) in *.
  set (cx := x0 * c0 + x1 * c1 + x2 * c2) in *. set (cy := y0 * c0 + y1 * c1 + y2 * c2) in *.
  set (h := z0 * a0 + z1 * a1 + z2 * a2) in *.
  unfold neg in *. cbn [osub oZ RO Rops zero] in *.
  replace (0 - (bx - ax)) with (- (bx - ax)) in * by ring.
  replace (0 - (cx - ax)) with (- (cx - ax)) in * by ring.
  pose proof (circ2d ax ay bx by_ cx cy t Ht) as C2. cbv zeta in C2.
  set (s0 := (ax + bx) / 2 + t * (by_ - ay)) in *. set (s1 := (ay + by_) / 2 + t * - (bx - ax)) in *.
  destruct C2 as [C2b C2c].
  rewrite !sumsq3.
  pose proof (dist_decomp x0 x1 x2 z0 z1 z2 a0 a1 a2 s0 s1 h UX UZ XZ) as DA.
  pose proof (dist_decomp x0 x1 x2 z0 z1 z2 b0 b1 b2 s0 s1 h UX UZ XZ) as DB.
  pose proof (dist_decomp x0 x1 x2 z0 z1 z2 c0 c1 c2 s0 s1 h UX UZ XZ) as DC.
  cbv zeta in DA, DB, DC. fold y0 y1 y2 in DA, DB, DC. fold ax ay h in DA. fold bx by_ in DB. fold cx cy in DC.
  assert (HB : z0 * b0 + z1 * b1 + z2 * b2 = h) by (unfold h; lra).
  assert (HC : z0 * c0 + z1 * c1 + z2 * c2 = h) by (unfold h; lra).
  rewrite HB in DB. rewrite HC in DC.
  split; [|split].
  - lra.
  - lra.
  - rewrite (proj1 (det3_expansion _ _ _ _ _ _ _ _ _)).
    (* P - A, B - A and C - A are all orthogonal to the unit normal Z: they are linearly dependent *)
    set (u0 := x0 * s0 + y0 * s1 + z0 * h - a0). set (u1 := x1 * s0 + y1 * s1 + z1 * h - a1).
    set (u2 := x2 * s0 + y2 * s1 + z2 * h - a2).
    assert (ZU : z0 * u0 + z1 * u1 + z2 * u2 = 0).
    { unfold u0, u1, u2, y0, y1, y2, h.
      replace (z0 * (x0 * s0 + (z1 * x2 - z2 * x1) * s1 + z0 * (z0 * a0 + z1 * a1 + z2 * a2) - a0) +
               z1 * (x1 * s0 + (z2 * x0 - z0 * x2) * s1 + z1 * (z0 * a0 + z1 * a1 + z2 * a2) - a1) +
               z2 * (x2 * s0 + (z0 * x1 - z1 * x0) * s1 + z2 * (z0 * a0 + z1 * a1 + z2 * a2) - a2))
        with (s0 * (x0 * z0 + x1 * z1 + x2 * z2) + (z0 * a0 + z1 * a1 + z2 * a2) * ((z0 * z0 + z1 * z1 + z2 * z2) - 1)) by ring.
      rewrite XZ, UZ. ring. }
    clearbody u0 u1 u2. clear -ZU ZE ZF UZ.
    set (e0 := b0 - a0) in *. set (e1 := b1 - a1) in *. set (e2 := b2 - a2) in *.
    set (f0 := c0 - a0) in *. set (f1 := c1 - a1) in *. set (f2 := c2 - a2) in *.
    clearbody e0 e1 e2 f0 f1 f2. nsatz.
Qed.

Lemma det_expansions (a0 a1 a2 b0 b1 b2 c0 c1 c2 : R) :
  g_det_2x2 R RO [a0; a1] [b0; b1] = a0 * b1 - a1 * b0 /\
  g_det_3x3 R RO [a0; a1; a2] [b0; b1; b2] [c0; c1; c2]
  = a0 * (b1 * c2 - b2 * c1) - a1 * (b0 * c2 - b2 * c0) + a2 * (b0 * c1 - b1 * c0) /\
  g_det_3x3 R RO [a0; a1; a2] [b0; b1; b2] [c0; c1; c2]
  = g_dot R RO [a0; a1; a2] (g_cross R RO [b0; b1; b2] [c0; c1; c2]).
Proof. split; [apply det2_expansion|apply det3_expansion]. Qed.
Lemma rotate_2d_laws (x y a b : R) :
  sumsq (rot_rotate_2d R RO [x; y] a (cos a) (sin a)) = sumsq [x; y] /\
  rot_rotate_2d R RO (rot_rotate_2d R RO [x; y] a (cos a) (sin a)) b (cos b) (sin b)
  = rot_rotate_2d R RO [x; y] (a + b) (cos (a + b)) (sin (a + b)).
Proof. split; [apply rot2d_isometry_angle|apply rot2d_additive]. Qed.

(* ------------------------------------------------------------------ det_2x2: every accepted representation *)
(* each column may independently be a complex number or an array: the value does not depend on the choice *)
Definition rep2 (c : bool) (x y : R) : arg2 R := if c then ACplx x y else AVec [x; y].
Ltac det2_any := unfold g_det_2x2_any; cbv zeta; cbn [is_cplx a2_re a2_im a2_nth bind List.nth];
                 cbn [osub omul RO Rops]; apply f_equal; ring.
Lemma det2_cc (x1 y1 x2 y2 : R) : g_det_2x2_any R RO (ACplx x1 y1) (ACplx x2 y2) = Ret (x1 * y2 - y1 * x2).
Proof. det2_any. Qed.
Lemma det2_cv (x1 y1 x2 y2 : R) : g_det_2x2_any R RO (ACplx x1 y1) (AVec [x2; y2]) = Ret (x1 * y2 - y1 * x2).
Proof. det2_any. Qed.
Lemma det2_vc (x1 y1 x2 y2 : R) : g_det_2x2_any R RO (AVec [x1; y1]) (ACplx x2 y2) = Ret (x1 * y2 - y1 * x2).
Proof. det2_any. Qed.
Lemma det2_vv (x1 y1 x2 y2 : R) : g_det_2x2_any R RO (AVec [x1; y1]) (AVec [x2; y2]) = Ret (x1 * y2 - y1 * x2).
Proof. det2_any. Qed.
Lemma det2_representation_independent (ca cb : bool) (x1 y1 x2 y2 : R) :
  g_det_2x2_any R RO (rep2 ca x1 y1) (rep2 cb x2 y2) = Ret (x1 * y2 - y1 * x2) /\
  g_det_2x2 R RO [x1; y1] [x2; y2] = x1 * y2 - y1 * x2.
Proof.
  split; [|apply det2_expansion].
  destruct ca, cb; unfold rep2; [apply det2_cc|apply det2_cv|apply det2_vc|apply det2_vv].
Qed.

(* ------------------------------------------------------------------ solve_quadratic *)
Definition eps14 : R := 1 / 100000000000000.
(* every returned root is a root (outside the code's own |delta| < 1e-14 "double root" tolerance) *)
Lemma solve_quadratic_roots (A B C x : R) :
  In x (m_solve_quadratic R RO A B C) ->
  A = 0 \/ eps14 <= Rabs (B * B - 4 * A * C) ->
  A * x * x + B * x + C = 0.
Proof.
  unfold m_solve_quadratic. cbv zeta. cbn [oZ omul osub oadd odiv osqrt RO Rops]. rewrite oabs_R, !neg_R.
  unfold oQ. cbn [odiv oZ RO Rops]. fold eps14.
  destruct (oeqb RO A 0) eqn:EA.
  - apply oeqb_R in EA. subst A. destruct (oeqb RO B 0) eqn:EB; [intros []|].
    intros [<-|[]] _. assert (B <> 0). { intros ->. assert (oeqb RO 0 0 = true) by (apply oeqb_R; reflexivity). congruence. }
    field. auto.
  - assert (NA : A <> 0). { intros ->. assert (oeqb RO 0 0 = true) by (apply oeqb_R; reflexivity). congruence. }
    set (d := B * B - 4 * A * C).
    destruct (oltb RO d 0) eqn:E1; [intros []|].
    destruct (oltb RO (Rabs d) eps14) eqn:E2.
    + intros _ [H|H]; [contradiction|]. apply oltb_R in E2. lra.
    + assert (D0 : 0 <= d). { destruct (Rle_dec 0 d); auto. exfalso. assert (oltb RO d 0 = true) by (apply oltb_R; lra). congruence. }
      pose proof (sqrt_sqrt d D0) as SS. set (s := sqrt d) in *.
      assert (K : forall y, 2 * A * y + B = s \/ 2 * A * y + B = - s -> A * y * y + B * y + C = 0).
      { intros y Hy. assert (Q : 4 * A * (A * y * y + B * y + C) = (2 * A * y + B) * (2 * A * y + B) - d) by (unfold d; ring).
        assert (Z : 4 * A * (A * y * y + B * y + C) = 0) by (destruct Hy as [Hy|Hy]; rewrite Hy in Q; lra).
        apply Rmult_integral in Z as [Z|Z]; [lra|exact Z]. }
      intros [<-|[<-|[]]] _; apply K; [left|right]; field; auto.
Qed.
Example solve_quadratic_ex : eps14 <= Rabs (0 * 0 - 4 * 1 * -1).
Proof. unfold eps14. rewrite Rabs_right; lra. Qed.

(* ------------------------------------------------------------------ roots: the whole comprehension *)
Lemma roots_list (t : R) (n : nat) :
  List.length (m_roots_angles R RO t n) = n /\
  forall th, In th (m_roots_angles R RO t n) -> cpow (cos th, sin th) n = (cos t, sin t).
Proof.
  unfold m_roots_angles. split; [now rewrite map_length, seq_length|].
  intros th H. apply in_map_iff in H as [k [<- Hk]]. apply in_seq in Hk.
  cbn [oZ RO Rops]. rewrite <- !INR_IZR_INZ.
  apply (roots_power t n k). lia.
Qed.
(* the modulus of the returned roots: 1 when normalize, else |c| ** (1/n), whose n-th power is |c| *)
Lemma roots_radius (r : R) (n : nat) : 0 < r -> (0 < n)%nat ->
  m_root_radius R RO true r (INR n) = 1 /\
  0 < m_root_radius R RO false r (INR n) /\ (m_root_radius R RO false r (INR n)) ^ n = r /\
  dflt_m_roots_normalize R RO = true.
Proof.
  intros Hr Hn. unfold m_root_radius. cbn [opow odiv oZ RO Rops].
  assert (P : 0 < Rpower r (1 / INR n)) by (unfold Rpower; apply exp_pos).
  assert (N : INR n <> 0) by (apply not_0_INR; lia).
  repeat split; auto.
  rewrite <- Rpower_pow by exact P. rewrite Rpower_mult.
  replace (1 / INR n * INR n) with 1 by (field; exact N). apply Rpower_1. exact Hr.
Qed.

(* ------------------------------------------------------------------ degenerate inputs *)
Lemma n3_zero_iff a b c : n3 a b c = 0 <-> a * a + b * b + c * c = 0.
Proof.
  unfold n3. split; intros H.
  - apply sqrt_eq_0 in H; nra.
  - replace (a * a + (b * b + (c * c + 0))) with 0 by lra. apply sqrt_0.
Qed.
Lemma sq3_zero a b c : a * a + b * b + c * c = 0 -> a = 0 /\ b = 0 /\ c = 0.
Proof. intros H. repeat split; nra. Qed.

(* cotan on degenerate input: coincident points (a zero vector is normalised) raise FloatingPointError;
   collinear distinct points do not raise: the value is (+-1) / 0 - a division by zero (inf in binary64) *)
Lemma cotan_degenerate (a0 a1 a2 b0 b1 b2 c0 c1 c2 : R) :
  let u0 := a0 - b0 in let u1 := a1 - b1 in let u2 := a2 - b2 in
  let v0 := c0 - b0 in let v1 := c1 - b1 in let v2 := c2 - b2 in
  (u0 * u0 + u1 * u1 + u2 * u2 = 0 \/ v0 * v0 + v1 * v1 + v2 * v2 = 0 ->
   g_cotan R RO [a0; a1; a2] [b0; b1; b2] [c0; c1; c2] = Raise FloatingPoint) /\
  (u0 * u0 + u1 * u1 + u2 * u2 <> 0 -> v0 * v0 + v1 * v1 + v2 * v2 <> 0 ->
   sumsq (g_cross R RO [u0; u1; u2] [v0; v1; v2]) = 0 ->
   exists c, (c = 1 \/ c = -1) /\ g_cotan R RO [a0; a1; a2] [b0; b1; b2] [c0; c1; c2] = Ret (c / 0)).
Proof.
  cbv zeta.
  set (u0 := a0 - b0). set (u1 := a1 - b1). set (u2 := a2 - b2).
  set (v0 := c0 - b0). set (v1 := c1 - b1). set (v2 := c2 - b2).
  unfold g_cotan. cbv zeta. cbn [vsub map2 osub RO Rops]. fold u0 u1 u2 v0 v1 v2.
  destruct (normalized3 u0 u1 u2) as [NU1 NU0]. destruct (normalized3 v0 v1 v2) as [NV1 NV0]. cbv zeta in *.
  split.
  - intros [H|H].
    + rewrite NU0 by (apply n3_zero_iff; exact H). reflexivity.
    + destruct (Req_dec (n3 u0 u1 u2) 0) as [E|E]; [rewrite NU0 by exact E; reflexivity|].
      rewrite NU1 by exact E. cbn [bind]. rewrite NV0 by (apply n3_zero_iff; exact H). reflexivity.
  - intros HU HV HS.
    assert (EU : n3 u0 u1 u2 <> 0) by (intros Q; apply n3_zero_iff in Q; contradiction).
    assert (EV : n3 v0 v1 v2 <> 0) by (intros Q; apply n3_zero_iff in Q; contradiction).
    rewrite NU1, NV1 by assumption. cbn [bind]. rewrite g_norm_spec by discriminate. cbn [bind nrm].
    pose proof (n3_sq u0 u1 u2) as SU. pose proof (n3_sq v0 v1 v2) as SV.
    set (n1 := n3 u0 u1 u2) in *. set (n2 := n3 v0 v1 v2) in *.
    assert (SS : sumsq (g_cross R RO [u0 / n1; u1 / n1; u2 / n1] [v0 / n2; v1 / n2; v2 / n2])
                 = sumsq (g_cross R RO [u0; u1; u2] [v0; v1; v2]) / ((n1 * n2) * (n1 * n2))).
    { rewrite !cross_expansion, !sumsq3. field. auto. }
    rewrite SS, HS. replace (0 / (n1 * n2 * (n1 * n2))) with 0 by (field; auto). rewrite sqrt_0.
    eexists. split; [|reflexivity].
    (* cosine^2 = 1 by Lagrange *)
    set (c := vdot RO [u0 / n1; u1 / n1; u2 / n1] [v0 / n2; v1 / n2; v2 / n2]).
    assert (C2 : c * c = 1).
    { rewrite cross_expansion, sumsq3 in HS.
      assert (L : (u0 * v0 + u1 * v1 + u2 * v2) * (u0 * v0 + u1 * v1 + u2 * v2) = (n1 * n1) * (n2 * n2)) by (rewrite SU, SV; nra).
      unfold c. cbv [vdot vsum vmul map2 fold_right RO Rops omul oadd oZ zero].
      replace ((u0 / n1 * (v0 / n2) + (u1 / n1 * (v1 / n2) + (u2 / n1 * (v2 / n2) + 0))) *
               (u0 / n1 * (v0 / n2) + (u1 / n1 * (v1 / n2) + (u2 / n1 * (v2 / n2) + 0))))
        with ((u0 * v0 + u1 * v1 + u2 * v2) * (u0 * v0 + u1 * v1 + u2 * v2) / ((n1 * n1) * (n2 * n2))) by (field; auto).
      rewrite L. field. auto. }
    destruct (Rle_dec 0 c); [left|right]; nra.
Qed.

(* circumcenter on degenerate input: coincident or collinear points raise FloatingPointError
   (a zero vector is normalised in face_basis) *)
Lemma circumcenter_degenerate (a0 a1 a2 b0 b1 b2 c0 c1 c2 : R) :
  sumsq (g_cross R RO [b0 - a0; b1 - a1; b2 - a2] [c0 - a0; c1 - a1; c2 - a2]) = 0 ->
  g_circumcenter R RO [a0; a1; a2] [b0; b1; b2] [c0; c1; c2] = Raise FloatingPoint.
Proof.
  intros HS. rewrite cross_expansion, sumsq3 in HS. apply sq3_zero in HS as [Z0 [Z1 Z2]].
  unfold g_circumcenter, g_face_basis. cbv zeta. cbn [vsub map2 osub RO Rops].
  set (e0 := b0 - a0) in *. set (e1 := b1 - a1) in *. set (e2 := b2 - a2) in *.
  set (f0 := c0 - a0) in *. set (f1 := c1 - a1) in *. set (f2 := c2 - a2) in *.
  destruct (normalized3 e0 e1 e2) as [N1 N0]. cbv zeta in *.
  destruct (Req_dec (n3 e0 e1 e2) 0) as [E|E]; [rewrite N0 by exact E; reflexivity|].
  rewrite N1 by exact E. cbn [bind]. rewrite cross_expansion.
  set (n1 := n3 e0 e1 e2) in *.
  match goal with |- context [vec_normalized R RO [?w0; ?w1; ?w2] L2] =>
    destruct (normalized3 w0 w1 w2) as [_ W0]; cbv zeta in W0; rewrite W0; [reflexivity|] end.
  apply n3_zero_iff.
  replace (e1 / n1 * f2 - e2 / n1 * f1) with ((e1 * f2 - e2 * f1) / n1) by (field; auto).
  replace (e2 / n1 * f0 - e0 / n1 * f2) with ((e2 * f0 - e0 * f2) / n1) by (field; auto).
  replace (e0 / n1 * f1 - e1 / n1 * f0) with ((e0 * f1 - e1 * f0) / n1) by (field; auto).
  rewrite Z0, Z1, Z2. field. auto.
Qed.
