(* C12 - round 7: the full signed-angle antisymmetry is false of the faithful model; call plumbing of the operators and
   properties of aabb.py / vector.py *)
From Coq Require Import Reals List Bool Arith Lra Lia.
Import ListNotations.
Require Import MV.C12.Model MV.C12.Gen MV.C12.ProofsLib MV.C12.ProofsBox MV.C12.ProofsVec.
Open Scope R_scope.

(* Full statement (property text): for ALL V1 V2 N, signed_angle(V2, V1, N) = - signed_angle(V1, V2, N) (mod 2 pi), i.e. the
   pair of the swapped call is the conjugate.  It is FALSE of the code: sign0(0) = +1, so when the reference normal N lies
   in the plane of V1, V2 ((V1 x V2).N = 0 with V1 x V2 <> 0) both orders return the same unsigned angle. *)
Lemma signed_angle_antisymmetry_refuted :
  exists V1 V2 N : vec R,
    g_signed_angle_2vec3D R RO V2 V1 N <> conj (g_signed_angle_2vec3D R RO V1 V2 N) /\
    g_signed_angle_2vec3D R RO V1 V2 N = (0, 1) /\ g_signed_angle_2vec3D R RO V2 V1 N = (0, 1).
Proof.
  exists [1; 0; 0], [0; 1; 0], [1; 0; 0].
  destruct signed_angle_guard_needed as [E S].
  assert (P : g_signed_angle_2vec3D R RO [1; 0; 0] [0; 1; 0] [1; 0; 0] = (0, 1)).
  { destruct (g_signed_angle_2vec3D R RO [1; 0; 0] [0; 1; 0] [1; 0; 0]) as [x y] eqn:Q. cbn [snd] in S. subst y.
    f_equal. change x with (fst (x, 1)). rewrite <- Q.
    unfold g_signed_angle_2vec3D. cbv zeta. unfold ang_sgn, mk_atan2. cbn [fst].
    cbv [g_dot vdot vsum vmul map2 fold_right RO Rops omul oadd oZ zero]. ring. }
  split; [|split; [exact P|rewrite E; exact P]].
  rewrite E, P. unfold conj. cbn [fst snd]. intros H. apply (f_equal snd) in H. cbn [snd] in H. lra.
Qed.

(* the operators and properties are the call plumbing one expects: & is intersection, | is union; dim / mini / maxi read
   the corners; x / y / z / xy read components 0 / 1 / 2 / the first two; the setters write exactly that component *)
Lemma operators_and_properties (b1 b2 : box R) (v : vec R) (a : R) :
  aabb_and R RO b1 b2 = aabb_intersection R RO b1 b2 /\ aabb_or R RO b1 b2 = aabb_union R RO b1 b2 /\
  aabb_dim R RO b1 = bdim b1 /\ aabb_mini R RO b1 = blo b1 /\ aabb_maxi R RO b1 = bhi b1 /\
  vec_x R RO v = nth 0 v 0 /\ vec_y R RO v = nth 1 v 0 /\ vec_z R RO v = nth 2 v 0 /\ vec_xy R RO v = firstn 2 v /\
  vec_set_x R RO v a = vset v 0 a /\ vec_set_y R RO v a = vset v 1 a /\ vec_set_z R RO v a = vset v 2 a.
Proof. repeat split; reflexivity. Qed.
(* a setter changes its own component and nothing else *)
Lemma vset_spec (v : vec R) (i j : nat) (a : R) : (i < length v)%nat ->
  length (vset v i a) = length v /\ nth j (vset v i a) 0 = if Nat.eqb j i then a else nth j v 0.
Proof.
  revert i j. induction v as [|x v IH]; intros i j H; [simpl in H; lia|].
  destruct i as [|i]; cbn [vset length].
  - split; [reflexivity|]. destruct j; reflexivity.
  - simpl in H. destruct (IH i (pred j)) as [L N]; [lia|]. split; [now rewrite L|].
    destruct j as [|j]; [reflexivity|]. cbn [nth Nat.eqb pred] in *. exact N.
Qed.
Example operators_ex : exists w, aabb_and R RO ([0; 0], [1; 1]) ([1 / 2; -1], [3; 1 / 2]) = Ret w.
Proof. eexists. unfold aabb_and, aabb_intersection. cbv zeta. reflexivity. Qed.
