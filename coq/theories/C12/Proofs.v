(* C12 - proofs, part 0 (placeholder while the pipeline is brought up) *)
From Coq Require Import Reals List Lra.
Import ListNotations.
Require Import MV.C12.Model MV.C12.Gen.
Open Scope R_scope.

Lemma cross_expansion (a0 a1 a2 b0 b1 b2 : R) :
  g_cross R Rops [a0; a1; a2] [b0; b1; b2] = [a1 * b2 - a2 * b1; a2 * b0 - a0 * b2; a0 * b1 - a1 * b0].
Proof. cbv [g_cross vnth nth Rops omul osub]. repeat f_equal; ring. Qed.
