(* C12 - run-time library of the executable model of mouette/geometry/{aabb,geometry,rotations,vector}.py
   and mouette/utils/maths.py.

   Every geometric function is defined ONCE (in the generated file Gen.v, by vf/translate/c12.py from the
   current source) over a bare record of operations [ops T] - no laws.  It is instantiated with
     Rops  (Coq reals)      for the theorems,
     Qops  (exact rationals) for kernel evaluation of sqrt-free quantities,
     Fops  (binary64)        for kernel evaluation of sqrt-bearing ones.
   This file holds only what the generated definitions are written with: the record, the three
   instances, numpy's per-coordinate vocabulary on lists, exceptions as values, angles as (x, y) pairs
   (the arguments of atan2; no transcendental function is evaluated in the model), and the event
   language of the side-effect model.  Executable definitions only - no proofs. *)
From Coq Require Import ZArith QArith Qround Reals List Bool Arith String.
From Coq Require Import Uint63 PrimFloat FloatOps SpecFloat.
Require Import MV.Lib.Base MV.Lib.FloatLit.
Import ListNotations.

Record ops (T : Type) : Type := mkops {
  oZ : Z -> T;              (* integer literals; rational literals are written oZ p / oZ q *)
  oadd : T -> T -> T;
  osub : T -> T -> T;
  omul : T -> T -> T;
  odiv : T -> T -> T;
  osqrt : T -> T;
  oleb : T -> T -> bool;    (* a <= b *)
  ofloor : T -> Z;          (* used only by Python's float % *)
  opi : T;
  opow : T -> T -> T        (* x ** y for a positive base (only use: |c| ** (1/n) in maths.roots); a real function: it is
                               reasoned about over R (Rpower) and never evaluated - the correspondence checks the modulus of
                               the returned roots by its defining equation |z|^n = |c| instead *)
}.
Arguments oZ {T}. Arguments oadd {T}. Arguments osub {T}. Arguments omul {T}. Arguments odiv {T}.
Arguments osqrt {T}. Arguments oleb {T}. Arguments ofloor {T}. Arguments opi {T}. Arguments opow {T}.

(* ------------------------------------------------------------------ the three instances *)
Definition Rleb (a b : R) : bool := if Rle_dec a b then true else false.
Definition Rops : ops R :=
  mkops R IZR Rplus Rminus Rmult Rdiv R_sqrt.sqrt Rleb (fun x => (up x - 1)%Z) PI Rpower.

(* sqrt and pi do not exist in Q: sqrt-bearing definitions are never evaluated with Qops *)
Definition Qops : ops Q :=
  mkops Q inject_Z (fun a b => Qred (a + b)) (fun a b => Qred (a - b)) (fun a b => Qred (a * b))
        (fun a b => Qred (a / b)) (fun _ => 0%Q) Qle_bool Qfloor 0%Q (fun _ _ => 0%Q).

Definition ffloor (x : float) : Z :=
  match Prim2SF x with
  | S754_finite s m e =>
      let p := Zpos m in
      if (0 <=? e)%Z then (if s then - (p * 2 ^ e) else p * 2 ^ e)%Z
      else let d := (2 ^ (- e))%Z in
           if s then (- ((p + d - 1) / d))%Z else (p / d)%Z
  | _ => 0%Z
  end.
Definition fpi : float := mkf 7074237752028440 (-51).   (* math.pi *)
Definition Fops : ops float :=
  mkops float (fun z => mkf z 0) PrimFloat.add PrimFloat.sub PrimFloat.mul PrimFloat.div PrimFloat.sqrt
        PrimFloat.leb ffloor fpi (fun _ _ => PrimFloat.nan).

(* ------------------------------------------------------------------ exceptions as values *)
Inductive exn :=
  | IncompatibleDimension     (* AABB.IncompatibleDimensionError *)
  | FloatingPoint             (* FloatingPointError: Vec.normalized of a zero vector *)
  | BadArgument               (* InvalidArgumentValueError of check_argument *)
  | PlainException            (* raise Exception(...) *)
  | NoneDeref                 (* attribute access on None: circumcenter of a triangle whose bisectors are parallel *)
  | WrongRepresentation.      (* .real/.imag of an array, or indexing a complex: the per-argument isinstance dispatch went wrong *)
Inductive res (A : Type) := Ret (a : A) | Raise (e : exn).
Arguments Ret {A} a. Arguments Raise {A} e.
Definition bind {A B} (x : res A) (f : A -> res B) : res B :=
  match x with Ret a => f a | Raise e => Raise e end.
Definition bind_opt {A B} (x : option A) (f : A -> res B) : res B :=
  match x with Some a => f a | None => Raise NoneDeref end.

(* the `which` argument of the norms *)
Inductive nkind := L2 | L1 | Linf | KBad.
Definition nkind_eqb (a b : nkind) : bool :=
  match a, b with L2, L2 | L1, L1 | Linf, Linf | KBad, KBad => true | _, _ => false end.

(* a 2D argument in either of its accepted representations: an array / Vec / list, or a complex number *)
Inductive arg2 (T : Type) := AVec (v : list T) | ACplx (re im : T).
Arguments AVec {T} v. Arguments ACplx {T} re im.
Definition is_cplx {T} (a : arg2 T) : bool := match a with ACplx _ _ => true | AVec _ => false end.
Definition a2_re {T} (a : arg2 T) : res T := match a with ACplx re _ => Ret re | AVec _ => Raise WrongRepresentation end.
Definition a2_im {T} (a : arg2 T) : res T := match a with ACplx _ im => Ret im | AVec _ => Raise WrongRepresentation end.

Fixpoint map2 {A B C} (f : A -> B -> C) (a : list A) (b : list B) : list C :=
  match a, b with x :: s, y :: t => f x y :: map2 f s t | _, _ => [] end.
Fixpoint forallb2 {A B} (f : A -> B -> bool) (a : list A) (b : list B) : bool :=
  match a, b with x :: s, y :: t => f x y && forallb2 f s t | _, _ => true end.

Section Lib.
  Variable T : Type.
  Variable o : ops T.

  Definition zero : T := oZ o 0.
  Definition one : T := oZ o 1.
  Definition neg (x : T) : T := osub o zero x.
  Definition oltb (a b : T) : bool := negb (oleb o b a).      (* a < b *)
  Definition ogeb (a b : T) : bool := oleb o b a.
  Definition ogtb (a b : T) : bool := negb (oleb o a b).
  Definition oeqb (a b : T) : bool := oleb o a b && oleb o b a.
  Definition oabs (x : T) : T := if oleb o zero x then x else neg x.
  Definition omax (a b : T) : T := if oleb o a b then b else a.
  Definition omin (a b : T) : T := if oleb o a b then a else b.
  Definition oQ (p : Z) (q : positive) : T := odiv o (oZ o p) (oZ o (Zpos q)).
  (* Python's float  a % m  (m > 0):  a - m * floor(a / m) *)
  Definition ofmod (a m : T) : T := osub o a (omul o m (oZ o (ofloor o (odiv o a m)))).

  Definition vec := list T.
  Definition vnth (v : vec) (i : nat) : T := nth i v zero.
  Definition vadd : vec -> vec -> vec := map2 (oadd o).
  Definition vsub : vec -> vec -> vec := map2 (osub o).
  Definition vmul : vec -> vec -> vec := map2 (omul o).
  Definition vdiv : vec -> vec -> vec := map2 (odiv o).
  Definition vmax : vec -> vec -> vec := map2 omax.           (* np.maximum(a, b) *)
  Definition vmin : vec -> vec -> vec := map2 omin.           (* np.minimum(a, b) *)
  Definition vmaxs (v : vec) (s : T) : vec := map (fun x => omax x s) v.   (* np.maximum(v, s) *)
  Definition vmins (v : vec) (s : T) : vec := map (fun x => omin x s) v.
  Definition vadds (v : vec) (s : T) : vec := map (fun x => oadd o x s) v.
  Definition vsubs (v : vec) (s : T) : vec := map (fun x => osub o x s) v.
  Definition vscale (s : T) (v : vec) : vec := map (fun x => omul o s x) v.   (* s * v *)
  Definition vscaler (v : vec) (s : T) : vec := map (fun x => omul o x s) v.  (* v * s *)
  Definition vdivs (v : vec) (s : T) : vec := map (fun x => odiv o x s) v.    (* v / s *)
  Definition vneg (v : vec) : vec := map neg v.
  Definition vabs (v : vec) : vec := map oabs v.
  Definition vsum (v : vec) : T := fold_right (oadd o) zero v.
  Definition vmaxl (v : vec) : T := match v with [] => zero | x :: t => fold_right omax x t end.
  Definition vdot (a b : vec) : T := vsum (vmul a b).
  Definition vfull (n : nat) (s : T) : vec := repeat s n.       (* np.full(n, s) *)
  Definition a2_nth (a : arg2 T) (i : nat) : res T :=           (* a[i] *)
    match a with AVec v => Ret (nth i v zero) | ACplx _ _ => Raise WrongRepresentation end.
  Definition vouter (a b : vec) : list vec := map (fun x => map (fun y => omul o x y) b) a.   (* np.outer(a, b) *)
  Fixpoint vset (v : vec) (i : nat) (x : T) : vec :=            (* v[i] = x  /  v.x = x *)
    match v, i with
    | [], _ => []
    | _ :: t, O => x :: t
    | h :: t, S j => h :: vset t j x
    end.
  (* v / s under np.errstate(all='raise'): 0/0 and x/0 raise FloatingPointError *)
  Definition vdivs_raise (v : vec) (s : T) : res vec :=
    match v with
    | [] => Ret []
    | _ => if oleb o s zero && oleb o zero s then Raise FloatingPoint else Ret (map (fun x => odiv o x s) v)
    end.
  (* len(np.array(points).shape) == 2 : a non-empty list of equally long rows *)
  Definition pts_rank2 (pts : list vec) : bool :=
    match pts with [] => false | p :: t => forallb (fun q => Nat.eqb (List.length q) (List.length p)) t end.
  Definition pts_dim (pts : list vec) : nat := match pts with [] => O | p :: _ => List.length p end.  (* points.shape[1] *)
  Definition vle (a b : vec) : bool := forallb2 (oleb o) a b.   (* (a <= b).all() *)
  Definition vlt (a b : vec) : bool := forallb2 oltb a b.       (* (a < b).all() *)
  Definition vge_any (a b : vec) : bool := negb (forallb2 oltb a b).   (* np.any(a >= b) *)
  Definition vhead2 (v : vec) : vec := firstn 2 v.              (* v[:2] *)
  (* np.min(points, axis=0) / np.max(points, axis=0) *)
  Definition vmin_axis0 (pts : list vec) : vec := match pts with [] => [] | p :: t => fold_right vmin p t end.
  Definition vmax_axis0 (pts : list vec) : vec := match pts with [] => [] | p :: t => fold_right vmax p t end.

  (* a box is (mini, maxi) *)
  Definition box := (vec * vec)%type.
  Definition blo (b : box) : vec := fst b.
  Definition bhi (b : box) : vec := snd b.
  Definition bdim (b : box) : nat := List.length (fst b).

  (* an angle is carried as the pair (x, y) handed to atan2(y, x) - unnormalised *)
  Definition ang := (T * T)%type.
  Definition mk_atan2 (y x : T) : ang := (x, y).
  (* atan2(0, 0) = 0: the pair (0, 0) stands for the angle of (1, 0) *)
  Definition ang_nz (a : ang) : ang :=
    if oeqb (fst a) zero && oeqb (snd a) zero then (one, zero) else a.
  (* theta2 - theta1 : z2 * conj z1 *)
  Definition ang_sub (a2 a1 : ang) : ang :=
    let a2 := ang_nz a2 in
    let a1 := ang_nz a1 in
    (oadd o (omul o (fst a2) (fst a1)) (omul o (snd a2) (snd a1)),
     osub o (omul o (snd a2) (fst a1)) (omul o (fst a2) (snd a1))).
  (* sigma * theta for sigma = +-1 (the only use: sign0(..) * atan2(..)) *)
  Definition ang_sgn (sg : T) (a : ang) : ang := (fst a, omul o sg (snd a)).
End Lib.

Arguments zero {T}. Arguments one {T}. Arguments neg {T}. Arguments oltb {T}. Arguments ogeb {T}.
Arguments ogtb {T}. Arguments oeqb {T}. Arguments oabs {T}. Arguments omax {T}. Arguments omin {T}.
Arguments oQ {T}. Arguments ofmod {T}. Arguments vnth {T}. Arguments vadd {T}. Arguments vsub {T}.
Arguments vmul {T}. Arguments vdiv {T}. Arguments vmax {T}. Arguments vmin {T}. Arguments vmaxs {T}.
Arguments vmins {T}. Arguments vadds {T}. Arguments vsubs {T}. Arguments vscale {T}. Arguments vscaler {T}.
Arguments vdivs {T}. Arguments vneg {T}. Arguments vabs {T}. Arguments vsum {T}. Arguments vmaxl {T}.
Arguments vdot {T}. Arguments vfull {T}. Arguments a2_nth {T}. Arguments vouter {T}. Arguments vset {T}. Arguments vdivs_raise {T}. Arguments pts_rank2 {T}. Arguments pts_dim {T}. Arguments vle {T}. Arguments vlt {T}. Arguments vge_any {T}.
Arguments vhead2 {T}. Arguments vmin_axis0 {T}. Arguments vmax_axis0 {T}. Arguments blo {T}. Arguments bhi {T}.
Arguments bdim {T}. Arguments mk_atan2 {T}. Arguments ang_nz {T}. Arguments ang_sub {T}. Arguments ang_sgn {T}.

(* ------------------------------------------------------------------ side effects: the event language
   The translator summarises EVERY function of the five anchored files as a list of events, in source
   order (Gen.fx_table).  Arrays are reference cells; a "root" says which of the caller's arrays a local
   name may be a view of ([] = an array freshly allocated by the call).  For a method, argument 0 is self;
   for an AABB method "the arrays of argument 0" are the two corner arrays held in its fields. *)
Inductive ev :=
  | EMut (r : list nat)                 (* in-place write (x -= .., x[i] = .., x.attr = ..) to an array rooted at r *)
  | ESetErr                             (* np.seterr(..) / seterrcall / seterrobj: overwrites the global register *)
  | EWith (body : list ev)              (* with np.errstate(..): saves, sets, runs body, restores - also on raise *)
  | EStore (r : list nat)               (* self.<field> = array rooted at r  (object construction) *)
  | ECall (f : string) (args : list (list nat))    (* call of another function of the table, with the roots of its arguments *)
  | ERet (r : list nat).                (* return <array / box rooted at r>  ([] = an object created by this call) *)

(* functions DOCUMENTED to modify their first argument (self): everything else must be read-only *)
Definition self_mutators : list string :=
  ["AABB.pad"; "Vec.normalize"; "Vec.x.setter"; "Vec.y.setter"; "Vec.z.setter"]%string.
(* object constructors (may store into self's fields) *)
Definition constructors : list string := ["AABB.__init__"]%string.
(* constructors / classmethods / primitives that PROMISE a new object on every call: what they return must not be
   (a view of) an argument, a field of self, or anything that outlives the call (a memo cache, a module-level object) *)
Definition fresh_returners : list string :=
  ["AABB.unit_cube"; "AABB.infinite"; "AABB.of_points"; "AABB.of_mesh"; "AABB.intersection"; "AABB.union";
   "AABB.span"; "AABB.center"; "Vec.zeros"; "Vec.random"; "Vec.X"; "Vec.Y"; "Vec.Z"; "Vec.from_complex";
   "cross"; "rotate_2d"]%string.
Definition str_in (s : string) (l : list string) : bool := existsb (String.eqb s) l.
(* the roots of everything a body may return (also from inside `with` blocks) *)
Fixpoint rets_ev (e : ev) : list (list nat) :=
  match e with
  | ERet r => [r]
  | EWith body => (fix go (l : list ev) : list (list nat) := match l with [] => [] | x :: t => rets_ev x ++ go t end) body
  | _ => []
  end.
Definition rets (l : list ev) : list (list nat) := flat_map rets_ev l.
Definition is_nil {A} (l : list A) : bool := match l with [] => true | _ => false end.

Section Check.
  Variable tbl : list (string * list ev).
  Definition in_tbl (f : string) : bool := existsb (fun p => String.eqb f (fst p)) tbl.
  (* may0: writes to arrays rooted ONLY at argument 0 are allowed (the function is a documented self-mutator)
     inw : we are inside a `with np.errstate` block (a seterr there is undone by the block's exit)
     ctor: stores into self's fields are allowed, but only of fresh arrays *)
  Definition roots_ok (may0 : bool) (r : list nat) : bool :=
    forallb (fun i => may0 && Nat.eqb i 0) r.
  Fixpoint ev_ok (may0 ctor inw : bool) (e : ev) {struct e} : bool :=
    match e with
    | EMut r => roots_ok may0 r
    | ESetErr => inw
    | EWith body => (fix go (l : list ev) : bool := match l with [] => true | x :: t => ev_ok may0 ctor true x && go t end) body
    | EStore r => ctor && match r with [] => true | _ => false end
    | ECall f args =>
        in_tbl f &&
        (if str_in f self_mutators
         then match args with r0 :: _ => roots_ok may0 r0 | [] => false end
         else true)
    | ERet _ => true
    end.
  Definition body_ok (may0 ctor inw : bool) (l : list ev) : bool := forallb (ev_ok may0 ctor inw) l.
  Definition fun_ok (p : string * list ev) : bool :=
    body_ok (str_in (fst p) self_mutators) (str_in (fst p) constructors) false (snd p)
    && (if str_in (fst p) fresh_returners then forallb is_nil (rets (snd p)) else true).
  Definition table_ok : bool := forallb fun_ok tbl.
End Check.
