(* C03 - executable model of mouette's volume connectivity (volume.py VolumeMesh._Connectivity,
   _BoundaryConnectivity), of the face/edge completion it relies on (mesh_data.py) and of the standalone
   boundary extractor (processing/border.py extract_boundary_of_volume).  NO proofs in this file.

   Conventions.  Vertex / edge / face / cell ids are [nat].  A cell, a face, an edge is the list of its
   vertex ids in stored order.  Python exceptions are the explicit result [Exn]; exhaustion of the fuel of the
   two pivot walks is the distinct result [Fuel] (Proofs show it cannot happen).  Everything that is a table,
   an index expression or a comparison in the anchored source comes from Gen.v (regenerated on every run). *)
From Coq Require Import String List Arith Bool ZArith.
Import ListNotations.
Require Import MV.Lib.Base MV.C03.Gen.

Inductive res (A : Type) : Type := Ok (a : A) | Exn | Fuel.
Arguments Ok {A} a.
Arguments Exn {A}.
Arguments Fuel {A}.

(* ------------------------------------------------------------------ keys (utils.keyify = sorted tuple) *)
Fixpoint insert (x : nat) (l : list nat) : list nat :=
  match l with
  | [] => [x]
  | y :: t => if x <=? y then x :: l else y :: insert x t
  end.
Fixpoint key (l : list nat) : list nat :=
  match l with
  | [] => []
  | x :: t => insert x (key t)
  end.
Definition leqb (a b : list nat) : bool := list_eqb Nat.eqb a b.
Definition memb (x : nat) (l : list nat) : bool := existsb (Nat.eqb x) l.
Definition subsetb (a b : list nat) : bool := forallb (fun x => memb x b) a.
Definition opt_is (o : option nat) (n : nat) : bool :=
  match o with Some m => m =? n | None => false end.
Definition is_some {A} (o : option A) : bool := match o with Some _ => true | None => false end.

(* a dict filled by `for i, X in enumerate(l): d[keyify(X)] = i` then read with .get(k): the LAST index wins *)
Fixpoint index_last {A} (p : A -> bool) (l : list A) (i : nat) : option nat :=
  match l with
  | [] => None
  | x :: t =>
      match index_last p t (S i) with
      | Some j => Some j
      | None => if p x then Some i else None
      end
  end.
Definition id_of (tbl : list (list nat)) (k : list nat) : option nat :=
  index_last (fun F => leqb (key F) k) tbl 0.

(* ------------------------------------------------------------------ completion (mesh_data.py) *)
Definition tet_faces (C : list nat) : list (list nat) :=
  match C with
  | [v0; v1; v2; v3] => tet_faces_completion v0 v1 v2 v3
  | _ => []
  end.

(* `if key not in seen: seen.add(key); out.append(x)` *)
Fixpoint dedup_by (kf : list nat -> list nat) (seen : list (list nat)) (l : list (list nat)) : list (list nat) :=
  match l with
  | [] => []
  | f :: t => if existsb (leqb (kf f)) seen then dedup_by kf seen t
              else f :: dedup_by kf (kf f :: seen) t
  end.

Definition complete_faces (faces0 cells : list (list nat)) : list (list nat) :=
  faces0 ++ dedup_by key (map key faces0) (flat_map tet_faces cells).

Definition face_sides (F : list nat) : list (list nat) :=
  let n := length F in map (fun i => key [nth i F 0; nth ((i + 1) mod n) F 0]) (seq 0 n).

Definition complete_edges (edges0 faces : list (list nat)) : list (list nat) :=
  map key edges0 ++ dedup_by (fun e => e) (map key edges0) (flat_map face_sides faces).

(* _prepare_edges (mesh_data.py): of the DECLARED edges only the valid ones (two distinct vertices in range) are kept, and of
   several declarations of one undirected edge - in either direction - the first; completion then runs on that list *)
Definition edge_valid (nv : nat) (E : list nat) : bool :=
  match E with
  | [a; b] => negb (a =? b) && (a <? nv) && (b <? nv)
  | _ => false
  end.
Definition norm_edges (nv : nat) (edges0 : list (list nat)) : list (list nat) :=
  dedup_by key [] (filter (edge_valid nv) edges0).

(* ------------------------------------------------------------------ incidence tables (volume.py) *)
Fixpoint index_first (p : nat -> bool) (l : list nat) (i : nat) : option nat :=
  match l with
  | [] => None
  | x :: t => if p x then Some i else index_first p t (S i)
  end.

Section Conn.
  Variables (nv : nat) (cells faces edges : list (list nat)).

  Definition face_id (vs : list nat) : option nat := id_of faces (key vs).
  Definition edge_id (u v : nat) : option nat := id_of edges (key [u; v]).

  Definition all_tets : bool := forallb (fun C => length C =? cell_adj_arity) cells.

  (* _compute_cell_adj, tetrahedral branch: adjC2F[iC] = [face_id(C[:i]+C[i+1:]) for i in range(4)] *)
  Definition c2f_row (C : list nat) : list (option nat) :=
    map (fun i => face_id (cell_adj_face C i)) (seq 0 cell_adj_range).
  Definition c2f_tab : list (list (option nat)) := map c2f_row cells.
  (* a missing face makes `_adjF2C[None]` a KeyError *)
  Definition cell_adj_ok (c2f : list (list (option nat))) : bool :=
    all_tets && forallb (fun r => forallb is_some r) c2f.
  (* adjF2C[iF]: cells appended in cell order, once per (cell, i) hit *)
  Definition f2c_of (c2f : list (list (option nat))) (iF : nat) : list nat :=
    flat_map (fun iC => flat_map (fun o => if opt_is o iF then [iC] else []) (nth iC c2f []))
             (seq 0 (length c2f)).
  Definition f2c_tab (c2f : list (list (option nat))) : list (list nat) :=
    map (f2c_of c2f) (seq 0 (length faces)).

  Definition C2F (c2f : list (list (option nat))) (iC : nat) : list nat :=
    flat_map (fun o => match o with Some f => [f] | None => [] end) (nth iC c2f []).
  Definition F2C (f2c : list (list nat)) (iF : nat) : list nat := nth iF f2c [].

  (* _compute_adjacent_cell: for each cell, the 4 faces by the adjacency table, the other cell through each
     (dict assignment: the last cell different from iC wins); cell_to_cell drops NOT_AN_ID entries *)
  Definition adj_faces (C : list nat) : list (list nat) :=
    match C with
    | [v0; v1; v2; v3] => tet_faces_adjacent v0 v1 v2 v3
    | _ => []
    end.
  Definition last_other (iC : nat) (l : list nat) : option nat :=
    fold_left (fun acc c => if c =? iC then acc else Some c) l None.
  Definition c2c_row (f2c : list (list nat)) (iC : nat) : res (list (option nat)) :=
    fold_right (fun F acc =>
                  match acc, face_id F with
                  | Ok l, Some f => Ok (last_other iC (F2C f2c f) :: l)
                  | _, _ => Exn
                  end) (Ok []) (adj_faces (nth iC cells [])).
  Definition c2c_tab (f2c : list (list nat)) : res (list (list (option nat))) :=
    fold_right (fun iC acc =>
                  match acc, c2c_row f2c iC with
                  | Ok l, Ok r => Ok (r :: l)
                  | _, _ => Exn
                  end) (Ok []) (seq 0 (length cells)).
  Definition C2C (c2c : list (list (option nat))) (iC : nat) : list nat :=
    flat_map (fun o => match o with Some c => [c] | None => [] end) (nth iC c2c []).

  (* other_face_side *)
  Definition other_face_side (f2c : list (list nat)) (c f : nat) : option nat :=
    let l := F2C f2c f in
    if ofs_not_two (length l) then None
    else match l with
         | [c1; c2] => if c =? c1 then Some c2 else if c =? c2 then Some c1 else None
         | _ => None
         end.

  (* vertex_to_cell (_compute_connectivity): `for iC,C in enumerate(cells): for V in C: adjV2C[V].add(iC)` then
     list(set): here the set in first-insertion order, compared as a set *)
  Definition V2C (v : nat) : list nat :=
    nodup Nat.eq_dec
      (flat_map (fun iC => flat_map (fun V => if V =? v then [iC] else []) (nth iC cells []))
                (seq 0 (length cells))).

  (* face_to_edges (surface.py): edge ids of the cyclic sides *)
  Definition f2e_row (F : list nat) : list (option nat) :=
    let n := length F in map (fun i => edge_id (nth i F 0) (nth ((i + 1) mod n) F 0)) (seq 0 n).
  Definition f2e_tab : list (list (option nat)) := map f2e_row faces.

  (* _compute_edge_id: adjE2F[e] in face order; adjE2C[e] = union of the cells of those faces (a set) *)
  Definition e2f_of (f2e : list (list (option nat))) (e : nat) : list nat :=
    flat_map (fun f => flat_map (fun o => if opt_is o e then [f] else []) (nth f f2e []))
             (seq 0 (length f2e)).
  Definition e2f_tab (f2e : list (list (option nat))) : list (list nat) :=
    map (e2f_of f2e) (seq 0 (length edges)).
  Definition e2c_tab (f2c e2f : list (list nat)) : list (list nat) :=
    map (fun fs => nodup Nat.eq_dec (flat_map (F2C f2c) fs)) e2f.

  (* cell_to_edge: for i in range(n): for j in range(i): edge_id(verts[i], verts[j]) if not None *)
  Definition C2E (c : nat) : list nat :=
    let C := nth c cells [] in
    flat_map (fun i => flat_map (fun j => match edge_id (nth i C 0) (nth j C 0) with Some e => [e] | None => [] end)
                                (seq 0 i)) (seq 0 (length C)).

  (* in_cell_index / in_cell_face_index / common_face *)
  Definition in_cell_index (c v : nat) : option nat := index_first (Nat.eqb v) (nth c cells []) 0.
  Definition set_eqb (a b : list nat) : bool := subsetb a b && subsetb b a.
  Definition in_cell_face_index (c f : nat) : option nat :=
    let C := nth c cells [] in
    index_first (fun i => set_eqb (nth f faces []) (in_cell_face_sub C i)) (seq 0 (length C)) 0.
  Definition common_face (c1 c2 : nat) : option nat :=
    let cv := nodup Nat.eq_dec (filter (fun x => memb x (nth c2 cells [])) (nth c1 cells [])) in
    if length cv =? 3 then face_id cv else None.

  (* ---------------------------------------------------------------- rotational sorting around an edge *)
  Definition others (C excl : list nat) : list nat := filter (fun x => negb (memb x excl)) C.

  (* one `while True` loop of _sort_edge_neighborhoods: cells newly keyed (in order) and faces crossed (in order) *)
  Fixpoint walk (fuel : nat) (f2c : list (list nat)) (A B : nat) (seen : list nat) (c p : nat)
    : res (list nat * list nat) :=
    match fuel with
    | 0 => Fuel
    | S k =>
        match face_id [A; B; p] with
        | None => Exn                                    (* face_to_cells(None): KeyError *)
        | Some f =>
            match other_face_side f2c c f with
            | None => Ok ([], [f])
            | Some c' =>
                if memb c' seen then Ok ([], [f])
                else match others (nth c' cells []) [A; B; p] with
                     | [] => Exn                          (* [...][0]: IndexError *)
                     | q :: _ =>
                         match walk k f2c A B (c' :: seen) c' q with
                         | Ok (cs, fs) => Ok (c' :: cs, f :: fs)
                         | Exn => Exn
                         | Fuel => Fuel
                         end
                     end
            end
        end
    end.

  Definition keys_up (l : list nat) : list (nat * Z) :=
    combine l (map (fun i => Z.of_nat (S i)) (seq 0 (length l))).
  Definition keys_down (l : list nat) : list (nat * Z) :=
    combine l (map (fun i => (- Z.of_nat (S i))%Z) (seq 0 (length l))).
  (* dict semantics: the last assignment wins *)
  Fixpoint lookup_last (k : nat) (l : list (nat * Z)) : option Z :=
    match l with
    | [] => None
    | (a, z) :: t =>
        match lookup_last k t with
        | Some r => Some r
        | None => if a =? k then Some z else None
        end
    end.
  Fixpoint insert_by (x : nat * Z) (l : list (nat * Z)) : list (nat * Z) :=
    match l with
    | [] => [x]
    | y :: t => if (snd x <=? snd y)%Z then x :: l else y :: insert_by x t
    end.
  (* list.sort(key=lambda c: keys[c]) : stable; KeyError on an element without key *)
  Fixpoint sort_by (keys : list (nat * Z)) (l : list nat) : res (list (nat * Z)) :=
    match l with
    | [] => Ok []
    | x :: t =>
        match lookup_last x keys, sort_by keys t with
        | Some z, Ok r => Ok (insert_by (x, z) r)
        | None, _ => Exn
        | _, Exn => Exn
        | _, Fuel => Fuel
        end
    end.
  Definition sort_ids (keys : list (nat * Z)) (l : list nat) : res (list nat) :=
    match sort_by keys l with
    | Ok r => Ok (map fst r)
    | Exn => Exn
    | Fuel => Fuel
    end.

  Definition has_key (keys : list (nat * Z)) (x : nat) : bool :=
    match lookup_last x keys with Some _ => true | None => false end.

  (* the body of the `for e,(A,B)` loop, for the start cell `start` (= adjE2C[e][0], an unspecified element of a set).
     Result: (sorted?, cells, faces).  Since the repair e464500 the two lists are sorted only when both walks
     reached every cell and every face around the edge; otherwise they are left as they were. *)
  Definition sorted_edge (f2c : list (list nat)) (e2c_e e2f_e : list nat) (e start : nat)
    : res (bool * list nat * list nat) :=
    match nth e edges [] with
    | [A; B] =>
        match others (nth start cells []) [A; B] with
        | [p1; p2] =>
            let fuel := S (length cells) in
            match walk fuel f2c A B [start] start p1 with
            | Ok (cs1, fs1) =>
                match walk fuel f2c A B (cs1 ++ [start]) start p2 with
                | Ok (cs2, fs2) =>
                    let kc := (start, 0%Z) :: keys_up cs1 ++ keys_down cs2 in
                    let kf := keys_up fs1 ++ keys_down fs2 in
                    if forallb (has_key kc) e2c_e && forallb (has_key kf) e2f_e
                    then match sort_ids kc e2c_e, sort_ids kf e2f_e with
                         | Ok cs, Ok fs => Ok (true, cs, fs)
                         | Fuel, _ => Fuel
                         | _, Fuel => Fuel
                         | _, _ => Exn
                         end
                    else Ok (false, e2c_e, e2f_e)
                | Exn => Exn
                | Fuel => Fuel
                end
            | Exn => Exn
            | Fuel => Fuel
            end
        | _ => Exn                                      (* p1,p2 = (...) : ValueError *)
        end
    | _ => Exn
    end.

  (* ---------------------------------------------------------------- border / interior classification *)
  Definition is_face_on_border (f2c : list (list nat)) (f : nat) : bool :=
    face_border_test (length (F2C f2c f)).
  Definition boundary_faces (f2c : list (list nat)) : list nat :=
    filter (is_face_on_border f2c) (seq 0 (length faces)).
  Definition interior_faces (f2c : list (list nat)) : list nat :=
    filter (fun f => negb (is_face_on_border f2c f)) (seq 0 (length faces)).

  Definition vertex_flag (bf : list nat) (v : nat) : bool :=
    existsb (fun f => memb v (nth f faces [])) bf.
  Definition boundary_vertices (bf : list nat) : list nat := filter (vertex_flag bf) (seq 0 nv).
  Definition interior_vertices (bf : list nat) : list nat :=
    filter (fun v => negb (vertex_flag bf v)) (seq 0 nv).

  (* _compute_interior_boundary_edges: flag edge_id(F[i], F[(i+1)%n]) for every border face *)
  Definition bnd_face_edges (F : list nat) : list (option nat) :=
    let n := length F in map (fun i => edge_id (nth i F 0) (nth (bnd_edge_next i n) F 0)) (seq 0 n).
  Definition edge_flag (bf : list nat) (e : nat) : bool :=
    existsb (fun f => existsb (fun o => opt_is o e) (bnd_face_edges (nth f faces []))) bf.
  Definition boundary_edges (bf : list nat) : list nat := filter (edge_flag bf) (seq 0 (length edges)).
  Definition interior_edges (bf : list nat) : list nat :=
    filter (fun e => negb (edge_flag bf e)) (seq 0 (length edges)).
End Conn.

(* ------------------------------------------------------------------ boundary surface extraction *)
Definition vec := (Z * Z * Z)%type.

(* position of v in the enumeration `vs` of the set of border vertices: m2b_vertex / map_m2b;
   `vs` itself is b2m_vertex.  The enumeration order of a Python set is not specified: `vs` is a parameter. *)
Definition m2b (vs : list nat) (v : nat) : option nat := index_first (Nat.eqb v) vs 0.
Definition b2m (vs : list nat) (i : nat) : option nat := nth_error vs i.

(* the set the code enumerates: vertices of the border faces (first-occurrence order here) *)
Definition border_vertex_set (faces : list (list nat)) (bf : list nat) : list nat :=
  nodup Nat.eq_dec (flat_map (fun f => nth f faces []) bf).

Fixpoint map_opt {A B} (f : A -> option B) (l : list A) : option (list B) :=
  match l with
  | [] => Some []
  | x :: t => match f x, map_opt f t with Some y, Some r => Some (y :: r) | _, _ => None end
  end.
Fixpoint map_res {A B} (f : A -> res B) (l : list A) : res (list B) :=
  match l with
  | [] => Ok []
  | x :: t => match f x, map_res f t with
              | Ok y, Ok r => Ok (y :: r)
              | Fuel, _ => Fuel
              | _, Fuel => Fuel
              | _, _ => Exn
              end
  end.

Section Boundary.
  Variables (cells faces : list (list nat)) (pos : nat -> vec) (f2c : list (list nat)).

  (* _BoundaryConnectivity._extract_surface_boundary: one face of the boundary surface *)
  Definition bc_face (vs : list nat) (iF : nat) : res (list nat) :=
    match F2C f2c iF with
    | [] => Exn                                           (* face_to_cells(iF)[0] : IndexError *)
    | iC :: _ =>
        match nth iF faces [] with
        | [a; b; c] =>
            match others (nth iC cells []) [a; b; c] with
            | [] => Exn
            | d :: _ =>
                match m2b vs a, m2b vs b, m2b vs c with
                | Some ba, Some bb, Some bc =>
                    Ok (if orient_test_Z (pos a) (pos b) (pos c) (pos d)
                        then orient_then ba bb bc else orient_else ba bb bc)
                | _, _, _ => Exn
                end
            end
        | _ => Exn                                        (* pA,pB,pC = ... : ValueError *)
        end
    end.
  Definition bc_faces (vs bf : list nat) : res (list (list nat)) := map_res (bc_face vs) bf.

  (* extract_boundary_of_volume (after the repair 832f457): the stored vertices renumbered, then - for a triangle
     that lies in a cell - oriented outwards by the same determinant test *)
  Definition ex_face (vs : list nat) (iF : nat) : res (list nat) :=
    match map_opt (m2b vs) (ex_face_order (nth iF faces [])) with
    | None => Exn                                         (* map_m2b[v] : KeyError *)
    | Some face =>
        let cs := F2C f2c iF in
        if ex_orient_guard (length face) (length cs)
        then match cs, nth iF faces [], face with
             | iC :: _, [a; b; c], [x0; x1; x2] =>
                 match others (nth iC cells []) [a; b; c] with
                 | [] => Exn
                 | d :: _ => Ok (if ex_flip_test (pos a) (pos b) (pos c) (pos d) then ex_flip x0 x1 x2 else face)
                 end
             | _, _, _ => Exn
             end
        else Ok face
    end.
  Definition ex_faces (vs bf : list nat) : res (list (list nat)) := map_res (ex_face vs) bf.
End Boundary.

(* edge indirection of _BoundaryConnectivity: for e in boundary_edges: be = edge_id_b(m2b u, m2b v) *)
Definition bc_edge_map (edges bedges : list (list nat)) (vs be : list nat) : res (list (nat * nat)) :=
  map_res (fun e => match nth e edges [] with
                    | [u; v] => match m2b vs u, m2b vs v with
                                | Some bu, Some bv =>
                                    match id_of bedges (key [bu; bv]) with
                                    | Some b => Ok (e, b)
                                    | None => Exn
                                    end
                                | _, _ => Exn            (* m2b_vertex[u] : KeyError *)
                                end
                    | _ => Exn
                    end) be.

(* a dict filled inside `for i, x in enumerate(l)` with the (key, value) pair `entry i x` (Gen.v) *)
Definition dict_enum (entry : nat -> nat -> nat * nat) (l : list nat) : list (nat * nat) :=
  map (fun p => entry (fst p) (snd p)) (combine (seq 0 (length l)) l).

(* ------------------------------------------------------------------ geometry used by the theorems *)
Definition cross3 (a b : vec) : vec :=
  let '(a0, a1, a2) := a in let '(b0, b1, b2) := b in
  ((a1 * b2 - a2 * b1)%Z, (a2 * b0 - a0 * b2)%Z, (a0 * b1 - a1 * b0)%Z).
Definition dot3 (a b : vec) : Z :=
  let '(a0, a1, a2) := a in let '(b0, b1, b2) := b in (a0 * b0 + a1 * b1 + a2 * b2)%Z.
(* the triangle (a,b,c) of the tetrahedron with fourth vertex d is OUTWARD when its right-hand normal
   (b-a)x(c-a) points away from d *)
Definition outward_Z (a b c d : vec) : bool :=
  (dot3 (cross3 (vsub3 b a) (vsub3 c a)) (vsub3 d a) <? 0)%Z.

(* ------------------------------------------------------------------ lazy caches: which attribute an accessor
   tests and which compute method fills it (tables from Gen.v); tables themselves are pure functions of the mesh *)
Definition str_mem (s : string) (l : list string) : bool := existsb (String.eqb s) l.
Fixpoint assoc {B} (s : string) (l : list (string * B)) : option B :=
  match l with
  | [] => None
  | (k, v) :: t => if String.eqb s k then Some v else assoc s t
  end.
(* state = attributes that exist on the object (set in __init__ or assigned since) *)
Definition cstate := list string.
Definition cache_step (guards : list (string * (string * string))) (assigns : list (string * list string))
           (st : cstate) (accessor : string) : cstate * bool (* false = AttributeError *) :=
  match assoc accessor guards with
  | None => (st, true)
  | Some (field, compute) =>
      if str_mem field st
      then (match assoc compute assigns with Some fs => fs ++ st | None => st end, true)
      else (st, false)
  end.
Fixpoint cache_run guards assigns (st : cstate) (qs : list string) : bool :=
  match qs with
  | [] => true
  | q :: t => let '(st', ok) := cache_step guards assigns st q in ok && cache_run guards assigns st' t
  end.
