(* C03 - the incidence tables built by volume.py equal the brute-force incidences read off the cell list. *)
From Coq Require Import String List Arith Bool ZArith Lia Permutation.
Import ListNotations.
Require Import MV.Lib.Base MV.C03.Gen MV.C03.Model MV.C03.Proofs_Base MV.C03.Proofs_Simplex.

Definition cell_ok (C : list nat) : Prop := length C = 4 /\ NoDup C.
Definition face_ok (F : list nat) : Prop := length F = 3 /\ NoDup F.
Definition edge_ok (E : list nat) : Prop := length E = 2 /\ NoDup E.

(* the face list names every triangle of every cell exactly once (what face completion establishes) *)
Record faces_wf (cells faces : list (list nat)) : Prop := {
  fw_keys : NoDup (map key faces);
  fw_shape : Forall face_ok faces;
  fw_complete : forall C i, In C cells -> i < 4 -> In (key (rm i C)) (map key faces)
}.
(* the edge list names every side of every face exactly once *)
Record edges_wf (faces edges : list (list nat)) : Prop := {
  ew_keys : NoDup (map key edges);
  ew_shape : Forall edge_ok edges;
  ew_complete : forall F i, In F faces -> i < 3 -> In (key (rm i F)) (map key edges)
}.

Lemma cell_adj_range_4 : cell_adj_range = 4.
Proof. reflexivity. Qed.
Lemma cell_adj_arity_4 : cell_adj_arity = 4.
Proof. reflexivity. Qed.

Lemma bool_eq_iff (a b : bool) : (a = true <-> b = true) -> a = b.
Proof. destruct a, b; intros [H1 H2]; try reflexivity; [symmetry; now apply H1 | now apply H2]. Qed.

Section Tables.
  Variables (cells faces : list (list nat)).
  Hypothesis Hcells : Forall cell_ok cells.
  Hypothesis Hfaces : faces_wf cells faces.

  Lemma cell_ok_nth iC : iC < length cells -> cell_ok (nth iC cells []).
  Proof. intros H. apply (proj1 (Forall_forall _ _) Hcells). now apply nth_In. Qed.
  Lemma face_ok_nth iF : iF < length faces -> face_ok (nth iF faces []).
  Proof. intros H. apply (proj1 (Forall_forall _ _) (fw_shape _ _ Hfaces)). now apply nth_In. Qed.

  (* looking a facet of a cell up gives face iF  iff  that facet is face iF as a set *)
  Lemma face_id_facet C i iF :
    iF < length faces ->
    (face_id faces (cell_adj_face C i) = Some iF <-> Permutation (rm i C) (nth iF faces [])).
  Proof.
    intros H. unfold face_id. rewrite cell_adj_face_rm.
    rewrite (id_of_iff _ _ _ (fw_keys _ _ Hfaces)). rewrite <- key_eq_iff. intuition congruence.
  Qed.

  Lemma face_id_facet_some C i : In C cells -> i < 4 -> exists iF, face_id faces (cell_adj_face C i) = Some iF /\ iF < length faces.
  Proof.
    intros HC Hi. unfold face_id. rewrite cell_adj_face_rm.
    destruct (id_of faces (key (rm i C))) as [f|] eqn:E.
    - exists f. split; [reflexivity|]. now apply id_of_sound in E.
    - exfalso. apply id_of_none in E. apply E. now apply (fw_complete _ _ Hfaces).
  Qed.

  Lemma row_hit (iC iF : nat) (C : list nat) :
    cell_ok C -> iF < length faces ->
    flat_map (fun o => if opt_is o iF then [iC] else []) (c2f_row faces C)
    = if subsetb (nth iF faces []) C then [iC] else [].
  Proof.
    intros [LC NC] HF. pose proof (face_ok_nth iF HF) as [LF NF].
    unfold c2f_row. rewrite flat_map_map, cell_adj_range_4.
    rewrite (flat_map_at_most_one (fun i => opt_is (face_id faces (cell_adj_face C i)) iF) iC).
    - match goal with |- (if ?a then _ else _) = (if ?b then _ else _) => assert (EB : a = b); [|now rewrite EB] end.
      apply bool_eq_iff. rewrite existsb_exists, subsetb_incl.
      rewrite <- (facet_iff C (nth iF faces [])) by (try assumption; lia). rewrite LC.
      split.
      + intros [i [Hi Hp]]. apply in_seq in Hi. apply opt_is_true in Hp.
        exists i. split; [lia|]. now apply face_id_facet.
      + intros [i [Hi Hp]]. exists i. split; [apply in_seq; lia|].
        apply opt_is_true. now apply face_id_facet.
    - intros a b Ha Hb Pa Pb. apply in_seq in Ha, Hb. apply opt_is_true in Pa, Pb.
      apply face_id_facet in Pa, Pb; try assumption.
      apply (facet_unique C (nth iF faces [])); try assumption; lia.
    - apply seq_NoDup.
  Qed.

  (* face_to_cells = brute force *)
  Theorem face_to_cells_correct iF :
    iF < length faces ->
    f2c_of (c2f_tab cells faces) iF
    = filter (fun iC => subsetb (nth iF faces []) (nth iC cells [])) (seq 0 (length cells)).
  Proof.
    intros HF. unfold f2c_of, c2f_tab. rewrite map_length.
    rewrite <- flat_map_single_filter. apply flat_map_ext_in.
    intros iC Hi. apply in_seq in Hi.
    rewrite (nth_map_in _ _ _ []) by lia.
    apply row_hit; [apply cell_ok_nth; lia | assumption].
  Qed.

  Lemma F2C_tab iF : iF < length faces ->
    F2C (f2c_tab faces (c2f_tab cells faces)) iF = f2c_of (c2f_tab cells faces) iF.
  Proof.
    intros H. unfold F2C, f2c_tab. rewrite (nth_map_in _ _ _ 0) by now rewrite seq_length.
    now rewrite seq_nth.
  Qed.

  (* no KeyError: every facet is found *)
  Theorem cell_adj_ok_true : cell_adj_ok cells (c2f_tab cells faces) = true.
  Proof.
    unfold cell_adj_ok, all_tets. apply andb_true_iff. split.
    - apply forallb_forall. intros C HC. rewrite cell_adj_arity_4. apply Nat.eqb_eq.
      apply (proj1 (Forall_forall _ _) Hcells C HC).
    - apply forallb_forall. intros r Hr. unfold c2f_tab in Hr. apply in_map_iff in Hr.
      destruct Hr as [C [<- HC]]. apply forallb_forall. intros o Ho.
      unfold c2f_row in Ho. apply in_map_iff in Ho. destruct Ho as [i [<- Hi]].
      rewrite cell_adj_range_4 in Hi. apply in_seq in Hi.
      destruct (face_id_facet_some C i HC) as [f [E _]]; [lia|]. now rewrite E.
  Qed.

  (* cell_to_face: 4 faces, the i-th is the facet without the i-th vertex *)
  Theorem cell_to_face_correct iC :
    iC < length cells ->
    let C := nth iC cells [] in
    exists l, C2F (c2f_tab cells faces) iC = l /\ length l = 4 /\
      forall i, i < 4 ->
        let f := nth i l 0 in
        f < length faces /\ Permutation (nth f faces []) (rm i C)
        /\ incl (nth f faces []) C /\ ~ In (nth i C 0) (nth f faces []).
  Proof.
    intros H C. eexists. split; [reflexivity|].
    unfold C2F, c2f_tab. rewrite (nth_map_in _ _ _ []) by assumption. fold C.
    assert (HC : In C cells) by (apply nth_In; assumption).
    pose proof (cell_ok_nth iC H) as [LC NC]. fold C in LC, NC.
    unfold c2f_row. rewrite cell_adj_range_4.
    destruct (face_id_facet_some C 0 HC) as [f0 [E0 L0]]; [lia|].
    destruct (face_id_facet_some C 1 HC) as [f1 [E1 L1]]; [lia|].
    destruct (face_id_facet_some C 2 HC) as [f2 [E2 L2]]; [lia|].
    destruct (face_id_facet_some C 3 HC) as [f3 [E3 L3]]; [lia|].
    cbn [seq map flat_map app]. rewrite E0, E1, E2, E3. cbn [app length].
    split; [reflexivity|]. intros i Hi.
    assert (G : forall j f, j < 4 -> face_id faces (cell_adj_face C j) = Some f -> f < length faces ->
              f < length faces /\ Permutation (nth f faces []) (rm j C)
              /\ incl (nth f faces []) C /\ ~ In (nth j C 0) (nth f faces [])).
    { intros j f Hj E L. apply face_id_facet in E; [|assumption].
      split; [assumption|]. split; [now symmetry|]. split.
      - intros x Hx. apply (rm_incl j). now apply (Permutation_in _ (Permutation_sym E)).
      - intros I. apply (rm_not_in j C NC); [lia|]. now apply (Permutation_in _ (Permutation_sym E)). }
    destruct i as [|[|[|[|]]]]; cbn [nth]; try lia; apply G; auto; lia.
  Qed.

  (* vertex_to_cell: the set loop of _compute_connectivity collects exactly the cells having the vertex *)
  Theorem vertex_to_cell_correct v iC :
    In iC (V2C cells v) <-> iC < length cells /\ In v (nth iC cells []).
  Proof.
    unfold V2C. rewrite nodup_In, in_flat_map. split.
    - intros [c [Hc Hx]]. apply in_seq in Hc. apply in_flat_map in Hx. destruct Hx as [V [HV Hi]].
      destruct (V =? v) eqn:E; [|contradiction]. destruct Hi as [<-|[]]. apply Nat.eqb_eq in E. subst V.
      split; [lia|assumption].
    - intros [L I]. exists iC. split; [apply in_seq; lia|]. apply in_flat_map. exists v. split; [assumption|].
      rewrite Nat.eqb_refl. now left.
  Qed.
  Theorem vertex_to_cell_NoDup v : NoDup (V2C cells v).
  Proof. apply NoDup_nodup. Qed.
End Tables.
