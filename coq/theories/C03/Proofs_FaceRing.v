(* C03 - the faces crossed by the two pivot walks: each walk crosses pairwise distinct faces, consecutive ones bound a
   common cell, and a face crossed by both walks can only be the LAST face of the forward walk (the closing face of a
   ring).  Hence the sorted face list is  rev(backward faces) ++ forward faces (minus that closing face)  and is in
   rotational order. *)
From Coq Require Import String List Arith Bool ZArith Lia Permutation Sorted.
Import ListNotations.
Require Import MV.Lib.Base MV.C03.Gen MV.C03.Model MV.C03.Run MV.C03.Proofs_Base MV.C03.Proofs_Simplex
        MV.C03.Proofs_Incidence MV.C03.Proofs_Complete MV.C03.Proofs_Incidence2 MV.C03.Proofs_Border
        MV.C03.Proofs_Closed MV.C03.Proofs_Sort MV.C03.Proofs_Ring MV.C03.Proofs_Cover MV.C03.Proofs_FaceSort.
Local Open Scope nat_scope.

Lemma NoDup_suffix {A} (l t : list A) : NoDup (l ++ t) -> NoDup t.
Proof. induction l as [|a r IH]; simpl; intros H; [assumption|]. inversion H; subst. now apply IH. Qed.

Section FaceRing.
  Variables (cells faces : list (list nat)).
  Hypothesis Hcells : Forall cell_ok cells.
  Hypothesis Hfaces : faces_wf cells faces.
  Let f2c := f2c_tab faces (c2f_tab cells faces).
  Variables (A B : nat).
  Hypothesis NAB : A <> B.

  (* two faces bound a common cell *)
  Definition face_adj (g h : nat) : Prop := exists c, In c (F2C f2c g) /\ In c (F2C f2c h).

  Lemma face_adj_sym g h : face_adj g h -> face_adj h g.
  Proof. intros [c [X Y]]. exists c. tauto. Qed.

  Lemma distinct_pivot_faces p q f :
    ~ In q [A; B; p] -> face_id faces [A; B; p] = Some f -> face_id faces [A; B; q] = Some f -> False.
  Proof.
    intros N E1 E2. unfold face_id in *. apply id_of_sound in E1, E2. destruct E1 as [_ K1], E2 as [_ K2].
    assert (P : Permutation [A; B; q] [A; B; p]) by (apply key_eq_iff; congruence).
    apply N. apply (Permutation_in _ P). right. right. now left.
  Qed.

  Lemma others_not_in C excl q rest : others C excl = q :: rest -> ~ In q excl.
  Proof.
    intros E. assert (I : In q (others C excl)) by (rewrite E; now left).
    unfold others in I. apply filter_In in I. destruct I as [_ N]. now apply memb_false, negb_true_iff.
  Qed.

  (* every crossed face is the leaving face of a cell of the walk *)
  Lemma owner c p seen cs fs :
    pchain cells faces f2c A B c p seen cs fs -> Inv cells A B c p -> ~ In c cs -> NoDup cs ->
    forall g, In g fs -> exists x r, In x (c :: cs) /\ Inv cells A B x r /\ face_id faces [A; B; r] = Some g
                                  /\ (x = c -> r = p).
  Proof.
    induction 1 as [c p seen f Ef Stop | c p seen f c' q rest cs fs Ef Eo Nin EO _ IH]; intros IV NC ND g Hg.
    - destruct Hg as [<-|[]]. exists c, p. split; [now left|]. split; [exact IV|]. split; [exact Ef|reflexivity].
    - destruct Hg as [<-|Hg].
      { exists c, p. split; [now left|]. split; [exact IV|]. split; [exact Ef|reflexivity]. }
      destruct (step_inv cells faces Hcells Hfaces A B c p f c' IV Ef Eo) as [q' [rest' [EO' IV']]].
      assert (q' = q) by congruence. subst q'. inversion ND as [|? ? Nc' ND']; subst.
      destruct (IH IV' Nc' ND' g Hg) as [x [r [Ix [IVx [Ex _]]]]].
      exists x, r. split; [now right|]. split; [assumption|]. split; [assumption|].
      intros ->. exfalso. apply NC. exact Ix.
  Qed.

  (* every crossed face but the last is shared by its cell and the next cell of the walk *)
  Lemma step_faces c p seen cs fs :
    pchain cells faces f2c A B c p seen cs fs -> Inv cells A B c p -> ~ In c cs -> NoDup cs ->
    forall g, In g (removelast fs) ->
      exists x x' r, In x (c :: cs) /\ In x' cs /\ Inv cells A B x r /\ face_id faces [A; B; r] = Some g
                     /\ (x = c -> r = p) /\ (F2C f2c g = [x; x'] \/ F2C f2c g = [x'; x]).
  Proof.
    induction 1 as [c p seen f Ef Stop | c p seen f c' q rest cs fs Ef Eo Nin EO PC IH]; intros IV NC ND g Hg;
      [contradiction|].
    destruct (pchain_head _ _ _ _ _ _ _ _ _ _ PC) as [f' [rest2 [-> _]]].
    change (removelast (f :: f' :: rest2)) with (f :: removelast (f' :: rest2)) in Hg.
    destruct Hg as [<-|Hg].
    - exists c, c', p. split; [now left|]. split; [now left|]. split; [assumption|]. split; [assumption|].
      split; [reflexivity|]. now apply other_face_side_pair.
    - destruct (step_inv cells faces Hcells Hfaces A B c p f c' IV Ef Eo) as [q' [rest' [EO' IV']]].
      assert (q' = q) by congruence. subst q'. inversion ND as [|? ? Nc' ND']; subst.
      destruct (IH IV' Nc' ND' g Hg) as [x [x' [r [Ix [Ix' [IVx [Ex [_ PR]]]]]]]].
      exists x, x', r. split; [now right|]. split; [now right|]. split; [assumption|]. split; [assumption|].
      split; [|assumption]. intros ->. exfalso. apply NC. exact Ix.
  Qed.

  Lemma chain_faces_NoDup c p seen cs fs :
    pchain cells faces f2c A B c p seen cs fs -> Inv cells A B c p -> In c seen -> ~ In c cs -> NoDup cs -> NoDup fs.
  Proof.
    induction 1 as [c p seen f Ef Stop | c p seen f c' q rest cs fs Ef Eo Nin EO PC IH]; intros IV CS NC ND.
    - constructor; [intros []|constructor].
    - destruct (step_inv cells faces Hcells Hfaces A B c p f c' IV Ef Eo) as [q' [rest' [EO' IV']]].
      assert (q' = q) by congruence. subst q'. inversion ND as [|? ? Nc' ND']; subst.
      constructor; [|apply IH; try assumption; now left].
      intros I. destruct (owner c' q (c' :: seen) cs fs PC IV' Nc' ND' f I) as [x [r [Ix [IVx [Ex Hx]]]]].
      destruct (own_face_contains cells faces Hcells Hfaces A B NAB x r f IVx Ex) as [_ Ixf]. fold f2c in Ixf.
      assert (X : x = c \/ x = c').
      { destruct (other_face_side_pair f2c c f c' Eo) as [E|E]; rewrite E in Ixf;
          destruct Ixf as [<-|[<-|[]]]; auto. }
      destruct X as [->| ->].
      + apply NC. exact Ix.
      + rewrite (Hx eq_refl) in Ex. apply (distinct_pivot_faces p q f (others_not_in _ _ _ _ EO) Ef Ex).
  Qed.

  Lemma chain_faces_sorted c p seen cs fs :
    pchain cells faces f2c A B c p seen cs fs -> Inv cells A B c p -> Sorted face_adj fs.
  Proof.
    induction 1 as [c p seen f Ef Stop | c p seen f c' q rest cs fs Ef Eo Nin EO PC IH]; intros IV.
    - constructor; constructor.
    - destruct (step_inv cells faces Hcells Hfaces A B c p f c' IV Ef Eo) as [q' [rest' [EO' IV']]].
      assert (q' = q) by congruence. subst q'.
      constructor; [now apply IH|].
      destruct (pchain_head _ _ _ _ _ _ _ _ _ _ PC) as [f' [rest2 [-> Ef']]]. constructor.
      exists c'. split.
      + apply other_face_side_In in Eo. tauto.
      + destruct (own_face_contains cells faces Hcells Hfaces A B NAB c' q f' IV' Ef') as [_ I]. exact I.
  Qed.

  (* a face crossed by both walks is the last face of the forward walk *)
  Lemma cross start p1 p2 cs1 fs1 cs2 fs2 :
    pchain cells faces f2c A B start p1 [start] cs1 fs1 ->
    pchain cells faces f2c A B start p2 (cs1 ++ [start]) cs2 fs2 ->
    Inv cells A B start p1 -> Inv cells A B start p2 -> ~ In p2 [A; B; p1] ->
    NoDup (cs2 ++ start :: cs1) ->
    forall g, In g (removelast fs1) -> ~ In g fs2.
  Proof.
    intros PC1 PC2 IV1 IV2 NP ND g H1 H2.
    assert (ND1 : NoDup (start :: cs1)) by (apply NoDup_suffix in ND; exact ND).
    inversion ND1 as [|? ? Ns1 NDc1]; subst.
    assert (NDc2 : NoDup cs2) by (now apply NoDup_prefix in ND).
    assert (Ns2 : ~ In start cs2).
    { intros I. apply NoDup_remove_2 in ND. apply ND. apply in_or_app. now left. }
    assert (DJ : forall x, In x cs1 -> In x cs2 -> False).
    { intros x X1 X2. apply in_split in X2. destruct X2 as [l1 [l2 ->]].
      rewrite <- app_assoc in ND. simpl in ND. apply NoDup_remove_2 in ND. apply ND.
      apply in_or_app. right. apply in_or_app. right. now right. }
    destruct (step_faces start p1 [start] cs1 fs1 PC1 IV1 Ns1 NDc1 g H1) as [x [x' [r1 [Ix [Ix' [IVx [Ex [Hx PR]]]]]]]].
    destruct (owner start p2 (cs1 ++ [start]) cs2 fs2 PC2 IV2 Ns2 NDc2 g H2) as [y [r2 [Iy [IVy [Ey Hy]]]]].
    destruct (own_face_contains cells faces Hcells Hfaces A B NAB y r2 g IVy Ey) as [_ Iyg]. fold f2c in Iyg.
    assert (Y : y = x \/ y = x') by (destruct PR as [E|E]; rewrite E in Iyg; destruct Iyg as [<-|[<-|[]]]; auto).
    destruct Y as [->| ->].
    - destruct Ix as [<-|Ix], Iy as [Es|Iy]; try subst.
      + rewrite (Hx eq_refl) in Ex. rewrite (Hy eq_refl) in Ey. apply (distinct_pivot_faces p1 p2 g NP Ex Ey).
      + now apply Ns2.
      + now apply Ns1.
      + now apply (DJ x).
    - destruct Iy as [<-|Iy]; [now apply Ns1|]. now apply (DJ x').
  Qed.
End FaceRing.

Lemma Sorted_removelast {A} (R : A -> A -> Prop) l : Sorted R l -> Sorted R (removelast l).
Proof.
  induction 1 as [|a l S IH H]; simpl; [constructor|].
  destruct l as [|b t]; [constructor|]. constructor; [exact IH|].
  inversion H; subst. destruct t; simpl; now constructor.
Qed.

Section FaceRingFinal.
  Variables (cells faces edges : list (list nat)).
  Hypothesis Hcells : Forall cell_ok cells.
  Hypothesis Hfaces : faces_wf cells faces.
  Hypothesis Hedges : edges_wf faces edges.
  Let f2c := f2c_tab faces (c2f_tab cells faces).
  Let e2f := e2f_tab edges (f2e_tab faces edges).
  Let e2c := e2c_tab f2c e2f.
  Let n := length cells.

  (* THE FACE HALF OF THE EDGE RING.  When the sort reports "sorted", the face list is duplicate-free and consecutive
     faces bound a common cell: it is  rev(backward walk's faces) ++ forward walk's faces  (without the closing face when
     both walks crossed it). *)
  Theorem edge_ring_faces e start b cs fs :
    e < length edges -> In start (nth e e2c []) ->
    sorted_edge cells faces edges f2c (nth e e2c []) (nth e e2f []) e start = Ok (b, cs, fs) -> b = true ->
    NoDup fs /\ Sorted (face_adj cells faces) fs.
  Proof.
    intros He Hs.
    pose proof (edge_ok_nth faces edges Hedges e He) as OKE.
    destruct (edge_ok_shape _ OKE) as [A [B [EE NAB]]].
    apply (edge_to_cell_correct cells faces edges Hcells Hfaces Hedges e start He) in Hs. destruct Hs as [Ls Is].
    rewrite EE in Is.
    destruct (others_two (nth start cells []) A B (cell_ok_nth cells Hcells start Ls) NAB Is)
      as [p1 [p2 [EO [N1 [N2 [I1 I2]]]]]].
    unfold sorted_edge. rewrite EE, EO.
    assert (IV1 : Inv cells A B start p1) by (split; [exact Ls|split; assumption]).
    assert (IV2 : Inv cells A B start p2) by (split; [exact Ls|split; assumption]).
    assert (NP : ~ In p2 [A; B; p1]).
    { assert (Ip : In p2 (others (nth start cells []) [A; B])) by (rewrite EO; right; now left).
      assert (NDo : NoDup (others (nth start cells []) [A; B])) by (apply NoDup_filter, (cell_ok_nth cells Hcells start Ls)).
      unfold others in Ip. apply filter_In in Ip. destruct Ip as [Ip Np]. apply negb_true_iff, memb_false in Np.
      rewrite EO in NDo. inversion NDo as [|? ? N12 _]; subst.
      intros [H|[H|[H|[]]]]; [apply Np; now left | apply Np; right; now left | apply N12; now left]. }
    destruct (edge_walks_rotational cells faces edges Hcells Hfaces e start A B p1 p2 EE EO Ls) as [_ W]. fold f2c in W.
    destruct (walk cells faces (S (length cells)) f2c A B [start] start p1) as [[cs1 fs1]| |] eqn:W1; try discriminate.
    destruct (W cs1 fs1 eq_refl) as [_ [ND1 [_ [_ W']]]].
    destruct (walk cells faces (S (length cells)) f2c A B (cs1 ++ [start]) start p2) as [[cs2 fs2]| |] eqn:W2; try discriminate.
    destruct (W' cs2 fs2 eq_refl) as [_ [ND2 _]].
    set (kc := (start, 0%Z) :: keys_up cs1 ++ keys_down cs2). set (kf := keys_up fs1 ++ keys_down fs2).
    pose proof (walk_pchain cells faces f2c _ A B _ _ _ _ _ W1) as PC1.
    pose proof (walk_pchain cells faces f2c _ A B _ _ _ _ _ W2) as PC2.
    inversion ND1 as [|? ? Ns1 NDc1]; subst.
    assert (NDc2 : NoDup cs2) by (now apply NoDup_prefix in ND2).
    assert (Ns2 : ~ In start cs2).
    { intros I. pose proof ND2 as X. apply NoDup_remove_2 in X. apply X. apply in_or_app. now left. }
    pose proof (chain_faces_NoDup cells faces Hcells Hfaces A B NAB start p1 [start] cs1 fs1 PC1 IV1 (or_introl eq_refl) Ns1 NDc1) as NF1.
    assert (Iss : In start (cs1 ++ [start])) by (apply in_or_app; right; now left).
    pose proof (chain_faces_NoDup cells faces Hcells Hfaces A B NAB start p2 (cs1 ++ [start]) cs2 fs2 PC2 IV2 Iss Ns2 NDc2) as NF2.
    pose proof (cross cells faces Hcells Hfaces A B NAB start p1 p2 cs1 fs1 cs2 fs2 PC1 PC2 IV1 IV2 NP ND2) as CR.
    pose proof (chain_faces_sorted cells faces Hcells Hfaces A B NAB start p1 [start] cs1 fs1 PC1 IV1) as SF1.
    pose proof (chain_faces_sorted cells faces Hcells Hfaces A B NAB start p2 (cs1 ++ [start]) cs2 fs2 PC2 IV2) as SF2.
    destruct (pchain_head _ _ _ _ _ _ _ _ _ _ PC1) as [f1 [rest1 [E1 Ef1]]].
    destruct (pchain_head _ _ _ _ _ _ _ _ _ _ PC2) as [g1 [rest2 [E2 Eg1]]].
    destruct (forallb (has_key kc) (nth e e2c []) && forallb (has_key kf) (nth e e2f [])) eqn:T;
      [|intros H Hb; inversion H; subst; discriminate].
    apply andb_true_iff in T. destruct T as [T1 T2].
    destruct (sort_ids_spec kc (nth e e2c []) T1) as [Oc [SC _]]. rewrite SC.
    (* which prefix of the forward faces survives *)
    assert (SPLIT : exists fs1' t, fs1 = fs1' ++ t /\ (forall g, In g t -> In g fs2) /\ (forall g, In g fs1' -> ~ In g fs2)
                                 /\ Sorted (face_adj cells faces) fs1' /\ (fs1' = [] \/ exists r, fs1' = f1 :: r)).
    { assert (NE : fs1 <> []) by (rewrite E1; discriminate).
      pose proof (app_removelast_last 0 NE) as AL.
      destruct (in_dec Nat.eq_dec (last fs1 0) fs2) as [Y|Nn].
      - exists (removelast fs1), [last fs1 0]. split; [exact AL|]. split; [intros g [<-|[]]; exact Y|].
        split; [exact CR|]. split; [now apply Sorted_removelast|].
        rewrite E1. destruct rest1 as [|x r]; [now left|right]. simpl. now eexists.
      - exists fs1, []. split; [now rewrite app_nil_r|]. split; [intros g []|]. split.
        + intros g Hg. rewrite AL in Hg. apply in_app_or in Hg. destruct Hg as [Hg|[<-|[]]]; [now apply CR|exact Nn].
        + split; [exact SF1|]. right. now exists rest1. }
    destruct SPLIT as [fs1' [t [EF [Ht [D [SF1' HD]]]]]].
    assert (EQ : forall g, In g (nth e e2f []) <-> In g fs1 \/ In g fs2).
    { intros g. split.
      - intros Hg. rewrite forallb_forall in T2. specialize (T2 g Hg). apply has_key_In in T2.
        unfold kf in T2. rewrite map_app, keys_up_ku, keys_down_kd, ku_fst, kd_fst in T2. now apply in_app_or in T2.
      - intros Hg.
        assert (OW : exists x r, Inv cells A B x r /\ face_id faces [A; B; r] = Some g).
        { destruct Hg as [Hg|Hg].
          - destruct (owner cells faces Hcells Hfaces A B start p1 [start] cs1 fs1 PC1 IV1 Ns1 NDc1 g Hg) as [x [r [_ [X [Y _]]]]]. now exists x, r.
          - destruct (owner cells faces Hcells Hfaces A B start p2 _ cs2 fs2 PC2 IV2 Ns2 NDc2 g Hg) as [x [r [_ [X [Y _]]]]]. now exists x, r. }
        destruct OW as [x [r [_ Eg]]]. unfold face_id in Eg. apply id_of_sound in Eg. destruct Eg as [Lg Kg].
        apply key_eq_iff in Kg.
        unfold e2f. rewrite (E2F_tab faces edges) by assumption.
        rewrite (edge_to_face_correct cells faces edges Hfaces Hedges e He).
        apply filter_In. split; [apply in_seq; lia|]. apply subsetb_incl. rewrite EE.
        intros v [<-|[<-|[]]]; apply (Permutation_in _ (Permutation_sym Kg)); [now left | right; now left]. }
    assert (NDl : NoDup (nth e e2f [])).
    { unfold e2f. rewrite (E2F_tab faces edges) by assumption.
      rewrite (edge_to_face_correct cells faces edges Hfaces Hedges e He). apply NoDup_filter, seq_NoDup. }
    unfold kf. rewrite (sort_faces_is fs1 fs2 fs1' t (nth e e2f []) NF1 NF2 EF Ht D NDl EQ).
    intros H _. inversion H; subst fs. clear H. split.
    - apply NoDup_app_intro'.
      + now apply (Permutation_NoDup (Permutation_rev fs2)).
      + rewrite EF in NF1. now apply NoDup_prefix in NF1.
      + intros x X2 X1. apply in_rev in X2. now apply (D x).
    - rewrite E2 in *. cbn [rev]. rewrite <- app_assoc. cbn [app].
      apply Sorted_app_mid.
      + apply Sorted_rev_sym; [apply face_adj_sym | exact SF2].
      + constructor; [exact SF1'|]. destruct HD as [->|[r ->]]; constructor.
        exists start. split.
        * destruct (own_face_contains cells faces Hcells Hfaces A B NAB start p2 g1 IV2 Eg1) as [_ I]. exact I.
        * destruct (own_face_contains cells faces Hcells Hfaces A B NAB start p1 f1 IV1 Ef1) as [_ I]. exact I.
  Qed.
End FaceRingFinal.
