(* C03 - the edge indirection of _BoundaryConnectivity is total both ways: every border edge of the volume gets a
   surface edge (no KeyError), and every edge of the surface is the image of a border edge. *)
From Coq Require Import String List Arith Bool ZArith Lia Permutation.
Import ListNotations.
Require Import MV.Lib.Base MV.C03.Gen MV.C03.Model MV.C03.Run MV.C03.Proofs_Base MV.C03.Proofs_Simplex
        MV.C03.Proofs_Incidence MV.C03.Proofs_Complete MV.C03.Proofs_Incidence2 MV.C03.Proofs_Border
        MV.C03.Proofs_Orient MV.C03.Proofs_Maps.
Local Open Scope nat_scope.

Lemma map_res_Forall2 {A B} (f : A -> res B) l r : map_res f l = Ok r -> Forall2 (fun x y => f x = Ok y) l r.
Proof. apply map_res_ok. Qed.

Lemma map_res_total {A B} (f : A -> res B) l : (forall x, In x l -> exists y, f x = Ok y) -> exists r, map_res f l = Ok r.
Proof.
  induction l as [|x t IH]; simpl; intros H; [now eexists|].
  destruct (H x (or_introl eq_refl)) as [y ->]. destruct IH as [r ->]; [intros z Hz; apply H; now right|]. now eexists.
Qed.

Lemma Forall2_In_l {A B} (R : A -> B -> Prop) l r x : Forall2 R l r -> In x l -> exists y, In y r /\ R x y.
Proof.
  induction 1 as [|a b t s Hab _ IH]; intros Hx; [contradiction|].
  destruct Hx as [<-|Hx]; [exists b; split; [now left|assumption]|].
  destruct (IH Hx) as [y [Hy Ry]]. exists y. split; [now right|assumption].
Qed.
Lemma Forall2_In_r {A B} (R : A -> B -> Prop) l r y : Forall2 R l r -> In y r -> exists x, In x l /\ R x y.
Proof.
  induction 1 as [|a b t s Hab _ IH]; intros Hy; [contradiction|].
  destruct Hy as [<-|Hy]; [exists a; split; [now left|assumption]|].
  destruct (IH Hy) as [x [Hx Rx]]. exists x. split; [now right|assumption].
Qed.

Section EdgeMap.
  Variables (cells faces edges : list (list nat)) (pos : nat -> vec).
  Hypothesis Hcells : Forall cell_ok cells.
  Hypothesis Hfaces : faces_wf cells faces.
  Hypothesis Hedges : edges_wf faces edges.
  Hypothesis Hminimal : forall F, In F faces -> exists C, In C cells /\ incl F C.
  Let f2c := f2c_tab faces (c2f_tab cells faces).
  Let bf := boundary_faces faces f2c.

  (* an enumeration of the border vertices *)
  Variable vs : list nat.
  Hypothesis NDvs : NoDup vs.
  Hypothesis Hvs : forall f v, In f bf -> In v (nth f faces []) -> In v vs.

  Lemma bf_lt f : In f bf -> f < length faces.
  Proof. intros H. apply (boundary_faces_correct cells faces Hcells Hfaces Hminimal) in H. tauto. Qed.

  (* a surface face is the border face renumbered *)
  Definition renumbers (T F : list nat) : Prop :=
    exists x y z p q r, T = [x; y; z] /\ b2m vs x = Some p /\ b2m vs y = Some q /\ b2m vs z = Some r
                        /\ Permutation [p; q; r] F.

  Lemma bc_face_renumbers f T : bc_face cells faces pos f2c vs f = Ok T -> renumbers T (nth f faces []).
  Proof.
    intros H. destruct (bc_face_outward _ _ _ _ _ _ _ H) as [a [b [c [d [iC [p [q [r [EF [_ [_ [EM [P _]]]]]]]]]]]]].
    destruct T as [|x [|y [|z [|? ?]]]]; try discriminate. cbn [map] in EM. inversion EM.
    exists x, y, z, p, q, r. rewrite EF. tauto.
  Qed.

  Lemma bc_face_total f : In f bf -> exists T, bc_face cells faces pos f2c vs f = Ok T.
  Proof.
    intros Hf. pose proof (bf_lt f Hf) as Lf. unfold bc_face.
    pose proof (n_cells_pos cells faces Hminimal f Lf) as NP. unfold n_cells_with in NP.
    unfold f2c. rewrite (F2C_is_cells_with cells faces Hcells Hfaces) by assumption.
    destruct (cells_with cells (nth f faces [])) as [|iC rest] eqn:EC; [cbn [length] in NP; lia|].
    assert (IC : In iC (cells_with cells (nth f faces []))) by (rewrite EC; now left).
    unfold cells_with in IC. apply filter_In in IC. destruct IC as [LiC S]. apply in_seq in LiC. apply subsetb_incl in S.
    pose proof (face_ok_nth cells faces Hfaces f Lf) as OK. destruct (face_ok_shape _ OK) as [a [b [c EF]]]. rewrite EF in *.
    pose proof (cell_ok_nth cells Hcells iC ltac:(lia)) as [LC NC].
    destruct (others (nth iC cells []) [a; b; c]) as [|d rest'] eqn:EO.
    - exfalso. destruct (exists_not_in (nth iC cells []) [a; b; c] NC) as [x [Hx Nx]]; [cbn [length]; lia|].
      assert (In x (others (nth iC cells []) [a; b; c])).
      { unfold others. apply filter_In. split; [assumption|]. apply negb_true_iff. now apply memb_false. }
      rewrite EO in H. contradiction.
    - assert (M : forall v, In v [a; b; c] -> exists i, m2b vs v = Some i).
      { intros v Hv. assert (Iv : In v vs) by (apply (Hvs f); [assumption|now rewrite EF]).
        destruct (In_nth_error _ _ Iv) as [i Ei]. exists i. now apply b2m_m2b. }
      destruct (M a) as [ba ->]; [now left|]. destruct (M b) as [bb ->]; [right; now left|].
      destruct (M c) as [bc ->]; [right; right; now left|]. now eexists.
  Qed.

  Variable bfs : list (list nat).
  Hypothesis Hbfs : bc_faces cells faces pos f2c vs bf = Ok bfs.
  Let bedges := complete_edges [] bfs.
  Let be := boundary_edges faces edges bf.

  Lemma bfs_F2 : Forall2 (fun f T => bc_face cells faces pos f2c vs f = Ok T) bf bfs.
  Proof. now apply map_res_Forall2. Qed.

  Lemma renumbers_face_ok T F : face_ok F -> renumbers T F -> face_ok T.
  Proof.
    intros [LF NF] [x [y [z [p [q [r [-> [Ex [Ey [Ez P]]]]]]]]]]. split; [reflexivity|].
    pose proof (Permutation_NoDup (Permutation_sym P) NF) as N3.
    inversion N3 as [|? ? Np N2]; subst. inversion N2 as [|? ? Nq _]; subst.
    constructor; [intros [H|[H|[]]]; subst; [apply Np; left; congruence | apply Np; right; left; congruence]|].
    constructor; [intros [H|[]]; subst; apply Nq; left; congruence|]. constructor; [intros []|constructor].
  Qed.

  Lemma bfs_shape : Forall face_ok bfs.
  Proof.
    apply Forall_forall. intros T HT. destruct (Forall2_In_r _ _ _ _ bfs_F2 HT) as [f [Hf E]].
    apply (renumbers_face_ok T (nth f faces [])); [apply (face_ok_nth cells faces Hfaces), bf_lt; assumption|].
    now apply bc_face_renumbers.
  Qed.

  Lemma bedges_wf : edges_wf bfs bedges.
  Proof. apply complete_edges_wf; [apply bfs_shape|]. split; constructor. Qed.

  (* two surface ids x,y lying in a renumbered border face: the volume edge between their vertices *)
  Lemma volume_edge_of_side f T a1 a2 :
    In f bf -> renumbers T (nth f faces []) -> In a1 T -> In a2 T -> a1 <> a2 ->
    exists e u v, In e be /\ b2m vs a1 = Some u /\ b2m vs a2 = Some v /\ Permutation (nth e edges []) [u; v].
  Proof.
    intros Hf [x [y [z [p [q [r [-> [Ex [Ey [Ez P]]]]]]]]]] I1 I2 N12.
    pose proof (bf_lt f Hf) as Lf. pose proof (face_ok_nth cells faces Hfaces f Lf) as [LF NF].
    assert (G : forall a, In a [x; y; z] -> exists u, b2m vs a = Some u /\ In u (nth f faces [])).
    { intros a [<-|[<-|[<-|[]]]]; eexists; (split; [eassumption|]); apply (Permutation_in _ P);
        [now left | right; now left | right; right; now left]. }
    destruct (G a1 I1) as [u [Eu Iu]]. destruct (G a2 I2) as [v [Ev Iv]].
    assert (Nuv : u <> v).
    { intros ->. apply N12. apply (b2m_m2b vs v a1 NDvs) in Eu. apply (b2m_m2b vs v a2 NDvs) in Ev. congruence. }
    assert (NE : NoDup [u; v]) by (constructor; [intros [H|[]]; now apply Nuv | constructor; [intros []|constructor]]).
    destruct (facet_exists (nth f faces []) [u; v] NE NF) as [j [Hj Pj]];
      [intros w [<-|[<-|[]]]; assumption | cbn [length]; lia|]. rewrite LF in Hj.
    pose proof (ew_complete _ _ Hedges (nth f faces []) j (nth_In _ _ Lf) Hj) as KE.
    apply in_map_iff in KE. destruct KE as [E' [KE' HE']]. destruct (In_nth _ _ [] HE') as [e [Le Ee]]. subst E'.
    apply key_eq_iff in KE'.
    exists e, u, v. split; [|split; [assumption|split; [assumption|]]].
    - apply (boundary_edges_correct cells faces edges Hcells Hfaces Hedges Hminimal). split; [assumption|].
      exists f. split; [assumption|]. intros w Hw. apply (rm_incl j). now apply (Permutation_in _ KE').
    - now rewrite KE'.
  Qed.

  Lemma entry_of_border_edge e u v a1 a2 b :
    Permutation (nth e edges []) [u; v] -> b2m vs a1 = Some u -> b2m vs a2 = Some v ->
    id_of bedges (key [a1; a2]) = Some b -> edge_entry edges bedges vs e = Ok (e, b).
  Proof.
    intros P E1 E2 Ib. unfold edge_entry.
    apply (b2m_m2b vs u a1 NDvs) in E1. apply (b2m_m2b vs v a2 NDvs) in E2.
    destruct (nth e edges []) as [|u' [|v' [|? ?]]] eqn:EE; try (apply Permutation_length in P; discriminate).
    apply Permutation_length_2 in P. destruct P as [[-> ->]|[-> ->]].
    - now rewrite E1, E2, Ib.
    - rewrite E2, E1. rewrite (key_of_perm [a2; a1] [a1; a2]) by apply perm_swap. now rewrite Ib.
  Qed.

  (* every border edge has an entry (no KeyError), and every surface edge is hit *)
  Theorem edge_map_total :
    exists m, bc_edge_map edges bedges vs be = Ok m
              /\ map fst m = be
              /\ forall b, b < length bedges -> exists e, In (e, b) m.
  Proof.
    assert (TOT : forall e, In e be -> exists pr, edge_entry edges bedges vs e = Ok pr).
    { intros e He. apply (boundary_edges_correct cells faces edges Hcells Hfaces Hedges Hminimal) in He.
      destruct He as [Le [f [Hf I]]]. pose proof (bf_lt f Hf) as Lf.
      pose proof (edge_ok_nth faces edges Hedges e Le) as OKE.
      destruct (Forall2_In_l _ _ _ _ bfs_F2 Hf) as [T [HT ET]]. apply bc_face_renumbers in ET.
      destruct OKE as [LE NE]. destruct (nth e edges []) as [|u [|v [|? ?]]] eqn:EE; try discriminate.
      destruct ET as [x [y [z [p [q [r [-> [Ex [Ey [Ez P]]]]]]]]]].
      assert (G : forall w, In w (nth f faces []) -> exists a, In a [x; y; z] /\ b2m vs a = Some w).
      { intros w Hw. apply (Permutation_in _ (Permutation_sym P)) in Hw.
        destruct Hw as [<-|[<-|[<-|[]]]]; [exists x | exists y | exists z]; (split; [|assumption]);
          [now left | right; now left | right; right; now left]. }
      destruct (G u) as [a1 [I1 E1]]; [apply I; now left|]. destruct (G v) as [a2 [I2 E2]]; [apply I; right; now left|].
      assert (N12 : a1 <> a2).
      { intros ->. inversion NE as [|? ? Nu _]; subst. apply Nu. left. congruence. }
      (* the side {a1,a2} of T is an edge of the surface *)
      assert (NA : NoDup [a1; a2]) by (constructor; [intros [H|[]]; now apply N12 | constructor; [intros []|constructor]]).
      pose proof (proj1 (Forall_forall _ _) bfs_shape _ HT) as [LT NT].
      destruct (facet_exists [x; y; z] [a1; a2] NA NT) as [j [Hj Pj]];
        [intros w [<-|[<-|[]]]; assumption | cbn [length]; lia|]. cbn [length] in Hj.
      pose proof (ew_complete _ _ bedges_wf [x; y; z] j HT Hj) as KE.
      destruct (id_of bedges (key [a1; a2])) as [b|] eqn:Ib.
      - exists (e, b). apply (entry_of_border_edge e u v a1 a2 b); try assumption. now rewrite EE.
      - exfalso. apply id_of_none in Ib. apply Ib. rewrite <- (key_of_perm _ _ Pj). exact KE. }
    destruct (map_res_total (edge_entry edges bedges vs) be TOT) as [m Em].
    exists m. split; [exact Em|].
    pose proof (bc_edge_map_entries edges bedges vs be m Em) as F2.
    split; [now apply (Forall2_fst_eq edges bedges vs)|].
    intros b Lb.
    (* the surface edge b is a side of some surface face T *)
    pose proof (nth_In bedges [] Lb) as Hb.
    destruct (complete_edges_origin [] bfs _ bfs_shape Hb) as [[]|[T [i [HT [Hi EB]]]]].
    destruct (Forall2_In_r _ _ _ _ bfs_F2 HT) as [f [Hf ET]]. apply bc_face_renumbers in ET.
    pose proof (proj1 (Forall_forall _ _) bfs_shape _ HT) as [LT NT].
    pose proof (rm_NoDup i T NT) as NR. pose proof (rm_length i T ltac:(lia)) as LR.
    destruct (rm i T) as [|a1 [|a2 [|? ?]]] eqn:ER; cbn [length] in LR; try lia.
    assert (I1 : In a1 T) by (apply (rm_incl i); rewrite ER; now left).
    assert (I2 : In a2 T) by (apply (rm_incl i); rewrite ER; right; now left).
    assert (N12 : a1 <> a2) by (inversion NR as [|? ? N _]; subst; intros ->; apply N; now left).
    destruct (volume_edge_of_side f T a1 a2 Hf ET I1 I2 N12) as [e [u [v [He [E1 [E2 P]]]]]].
    exists e. destruct (Forall2_In_l _ _ _ _ F2 He) as [pr [Hpr Epr]].
    assert (IB : id_of bedges (key [a1; a2]) = Some b).
    { apply id_of_complete; [apply (ew_keys _ _ bedges_wf) | assumption |]. rewrite EB. apply key_idem. }
    rewrite (entry_of_border_edge e u v a1 a2 b P E1 E2 IB) in Epr. inversion Epr; subst. exact Hpr.
  Qed.
End EdgeMap.
