(* C03 - basic facts: keyify (insertion sort) identifies lists up to permutation; last-wins dictionary lookup;
   small list lemmas. *)
From Coq Require Import String List Arith Bool ZArith Lia Permutation.
Import ListNotations.
Require Import MV.Lib.Base MV.C03.Gen MV.C03.Model.

(* ------------------------------------------------------------------ key *)
Lemma insert_perm x l : Permutation (x :: l) (insert x l).
Proof.
  induction l as [|y t IH]; simpl; [reflexivity|].
  destruct (x <=? y); [reflexivity|].
  rewrite perm_swap. now apply perm_skip.
Qed.

Lemma key_perm l : Permutation l (key l).
Proof.
  induction l as [|x t IH]; simpl; [reflexivity|].
  rewrite <- insert_perm. now apply perm_skip.
Qed.

Lemma insert_comm x y l : insert x (insert y l) = insert y (insert x l).
Proof.
  induction l as [|z t IH]; simpl.
  - destruct (x <=? y) eqn:A, (y <=? x) eqn:B; try reflexivity.
    + apply Nat.leb_le in A, B. assert (x = y) by lia. now subst.
    + apply Nat.leb_gt in A, B. lia.
  - destruct (y <=? z) eqn:A, (x <=? z) eqn:B; simpl; rewrite ?A, ?B.
    + destruct (x <=? y) eqn:C, (y <=? x) eqn:D; try reflexivity.
      * apply Nat.leb_le in C, D. assert (x = y) by lia. now subst.
      * apply Nat.leb_gt in C, D. lia.
    + destruct (x <=? y) eqn:C; [|reflexivity].
      apply Nat.leb_le in A, C. apply Nat.leb_gt in B. lia.
    + destruct (y <=? x) eqn:C; [|reflexivity].
      apply Nat.leb_le in B, C. apply Nat.leb_gt in A. lia.
    + now rewrite IH.
Qed.

Lemma key_of_perm a b : Permutation a b -> key a = key b.
Proof.
  induction 1; simpl; try congruence.
  apply insert_comm.
Qed.

Lemma key_eq_iff a b : key a = key b <-> Permutation a b.
Proof.
  split; [|apply key_of_perm].
  intros H. rewrite (key_perm a), H. symmetry. apply key_perm.
Qed.

Lemma key_idem l : key (key l) = key l.
Proof. apply key_of_perm. symmetry. apply key_perm. Qed.

Lemma leqb_eq a b : leqb a b = true <-> a = b.
Proof. unfold leqb. apply list_eqb_spec. intros x y. apply Nat.eqb_eq. Qed.

Lemma leqb_refl a : leqb a a = true.
Proof. now apply leqb_eq. Qed.

Lemma memb_In x l : memb x l = true <-> In x l.
Proof.
  unfold memb. rewrite existsb_exists. split.
  - intros [y [Hy E]]. apply Nat.eqb_eq in E. now subst.
  - intros H. exists x. split; [assumption|apply Nat.eqb_refl].
Qed.

Lemma memb_false x l : memb x l = false <-> ~ In x l.
Proof. rewrite <- memb_In. destruct (memb x l); split; congruence. Qed.

Lemma subsetb_incl a b : subsetb a b = true <-> incl a b.
Proof.
  unfold subsetb. rewrite forallb_forall. split; intros H x Hx.
  - apply memb_In. now apply H.
  - apply memb_In. now apply H.
Qed.

(* ------------------------------------------------------------------ list helpers *)
Lemma flat_map_single_filter {A} (b : A -> bool) l :
  flat_map (fun x => if b x then [x] else []) l = filter b l.
Proof. induction l as [|x t IH]; simpl; [reflexivity|]. destruct (b x); simpl; now rewrite IH. Qed.

Lemma flat_map_nil {A B} (f : A -> list B) l : (forall x, In x l -> f x = []) -> flat_map f l = [].
Proof.
  induction l as [|x t IH]; simpl; intros H; [reflexivity|].
  rewrite (H x) by now left. apply IH. intros y Hy. apply H. now right.
Qed.

(* at most one element of l satisfies p: the per-hit output collapses to one test *)
Lemma flat_map_at_most_one {A B} (p : A -> bool) (y : B) l :
  (forall a b, In a l -> In b l -> p a = true -> p b = true -> a = b) -> NoDup l ->
  flat_map (fun a => if p a then [y] else []) l = if existsb p l then [y] else [].
Proof.
  induction l as [|x t IH]; simpl; intros U ND; [reflexivity|].
  inversion ND as [|? ? Hx ND']; subst.
  destruct (p x) eqn:Px; simpl.
  - rewrite flat_map_nil; [reflexivity|].
    intros z Hz. destruct (p z) eqn:Pz; [|reflexivity].
    exfalso. apply Hx. rewrite (U x z); auto.
  - apply IH; [|assumption]. intros a b Ha Hb. apply U; now right.
Qed.

Lemma flat_map_map {A B C} (f : A -> B) (g : B -> list C) l :
  flat_map g (map f l) = flat_map (fun x => g (f x)) l.
Proof. induction l as [|x t IH]; simpl; [reflexivity|]. now rewrite IH. Qed.

Lemma flat_map_ext_in {A B} (f g : A -> list B) l :
  (forall x, In x l -> f x = g x) -> flat_map f l = flat_map g l.
Proof.
  induction l as [|x t IH]; simpl; intros H; [reflexivity|].
  rewrite (H x) by now left. f_equal. apply IH. intros y Hy. apply H. now right.
Qed.

Lemma filter_ext_in' {A} (f g : A -> bool) l :
  (forall x, In x l -> f x = g x) -> filter f l = filter g l.
Proof.
  induction l as [|x t IH]; simpl; intros H; [reflexivity|].
  rewrite (H x) by now left. rewrite IH; [reflexivity|]. intros y Hy. apply H. now right.
Qed.

Lemma nth_map_in {A B} (f : A -> B) l i d d' : i < length l -> nth i (map f l) d' = f (nth i l d).
Proof. intros H. rewrite (nth_indep _ d' (f d)) by now rewrite map_length. apply map_nth. Qed.

Lemma filter_partition_perm {A} (f : A -> bool) l :
  Permutation (filter f l ++ filter (fun x => negb (f x)) l) l.
Proof.
  induction l as [|x t IH]; simpl; [reflexivity|].
  destruct (f x); simpl.
  - now apply perm_skip.
  - rewrite <- Permutation_middle. now apply perm_skip.
Qed.

Lemma NoDup_filter {A} (f : A -> bool) l : NoDup l -> NoDup (filter f l).
Proof.
  induction 1 as [|x t Hx ND IH]; simpl; [constructor|].
  destruct (f x); [|assumption]. constructor; [|assumption].
  intros H. apply filter_In in H. tauto.
Qed.

(* ------------------------------------------------------------------ last-wins lookup *)
Lemma index_last_range {A} (p : A -> bool) l i j d :
  index_last p l i = Some j -> i <= j < i + length l /\ p (nth (j - i) l d) = true.
Proof.
  revert i. induction l as [|x t IH]; simpl; intros i H; [discriminate|].
  destruct (index_last p t (S i)) eqn:E.
  - inversion H; subst. apply (IH (S i)) in E. destruct E as [R P].
    split; [lia|]. replace (j - i) with (S (j - S i)) by lia. exact P.
  - destruct (p x) eqn:Px; [|discriminate]. inversion H; subst.
    split; [lia|]. now rewrite Nat.sub_diag.
Qed.

Lemma index_last_none {A} (p : A -> bool) l i :
  index_last p l i = None <-> forall x, In x l -> p x = false.
Proof.
  revert i. induction l as [|x t IH]; simpl; intros i.
  - split; [intros _ y []|reflexivity].
  - destruct (index_last p t (S i)) eqn:E.
    + split; [discriminate|]. intros H. exfalso.
      assert (N : index_last p t (S i) = None) by (apply IH; intros y Hy; apply H; now right).
      congruence.
    + destruct (p x) eqn:Px.
      * split; [discriminate|]. intros H. rewrite H in Px by now left. discriminate.
      * split; [|reflexivity]. intros _ y [<-|Hy]; [assumption|].
        apply (proj1 (IH (S i)) E). assumption.
Qed.

Lemma id_of_sound tbl k j : id_of tbl k = Some j -> j < length tbl /\ key (nth j tbl []) = k.
Proof.
  unfold id_of. intros H. apply (index_last_range _ _ _ _ []) in H. destruct H as [R P].
  rewrite Nat.sub_0_r in P. apply leqb_eq in P. split; [lia|assumption].
Qed.

Lemma NoDup_map_nth_inj {A B} (f : A -> B) l d i j :
  NoDup (map f l) -> i < length l -> j < length l -> f (nth i l d) = f (nth j l d) -> i = j.
Proof.
  intros ND Hi Hj E.
  apply (proj1 (NoDup_nth (map f l) (f d)) ND); rewrite ?map_length; try assumption.
  now rewrite !map_nth.
Qed.

Lemma id_of_complete tbl k j :
  NoDup (map key tbl) -> j < length tbl -> key (nth j tbl []) = k -> id_of tbl k = Some j.
Proof.
  intros ND Hj E. destruct (id_of tbl k) as [j'|] eqn:H.
  - apply id_of_sound in H. destruct H as [Hj' E'].
    f_equal. apply (NoDup_map_nth_inj key tbl [] j' j ND Hj' Hj). congruence.
  - exfalso. unfold id_of in H. rewrite index_last_none in H.
    specialize (H (nth j tbl []) (nth_In _ _ Hj)). rewrite E, leqb_refl in H. discriminate.
Qed.

Lemma id_of_iff tbl k j :
  NoDup (map key tbl) -> (id_of tbl k = Some j <-> j < length tbl /\ key (nth j tbl []) = k).
Proof.
  intros ND. split; [apply id_of_sound|]. intros [A B]. now apply id_of_complete.
Qed.

Lemma id_of_none tbl k : id_of tbl k = None <-> ~ In k (map key tbl).
Proof.
  unfold id_of. rewrite index_last_none. split.
  - intros H I. apply in_map_iff in I. destruct I as [F [E HF]].
    specialize (H F HF). rewrite E, leqb_refl in H. discriminate.
  - intros H F HF. destruct (leqb (key F) k) eqn:E; [|reflexivity].
    apply leqb_eq in E. exfalso. apply H. apply in_map_iff. now exists F.
Qed.

Lemma opt_is_true o n : opt_is o n = true <-> o = Some n.
Proof.
  destruct o as [m|]; simpl; [|split; discriminate].
  rewrite Nat.eqb_eq. split; congruence.
Qed.
