(* C03 - the property theorems stated about the cell list alone: faces and edges are the completed ones, the tables
   are those of Run.build (the very record the correspondence batches evaluate). *)
From Coq Require Import String List Arith Bool ZArith Lia Permutation Sorted.
Import ListNotations.
Require Import MV.Lib.Base MV.C03.Gen MV.C03.Model MV.C03.Run MV.C03.Proofs_Base MV.C03.Proofs_Simplex
        MV.C03.Proofs_Incidence MV.C03.Proofs_Complete MV.C03.Proofs_Incidence2 MV.C03.Proofs_Border
        MV.C03.Proofs_Orient MV.C03.Proofs_Maps MV.C03.Proofs_Ring MV.C03.Proofs_Closed MV.C03.Proofs_Sort MV.C03.Proofs_Cover MV.C03.Proofs_EdgeMap MV.C03.Proofs_Surface MV.C03.Proofs_FaceSort MV.C03.Proofs_FaceRing.
Local Open Scope nat_scope.

(* a volume as handed to the constructor: cells, plus the faces and edges declared beforehand (a .mesh file with boundary
   triangles, procedural.tetrahedron(volume=True), ...) *)
Record vmesh := { m_cells : list (list nat); m_faces0 : list (list nat); m_edges0 : list (list nat) }.
Definition faces_of (M : vmesh) : list (list nat) := complete_faces (m_faces0 M) (m_cells M).
Definition edges_of (M : vmesh) : list (list nat) := complete_edges (m_edges0 M) (faces_of M).
Definition tables (M : vmesh) : tabs := build (m_cells M) (faces_of M) (edges_of M).
(* a tetrahedral mesh: every cell is 4 distinct vertices; the declared faces are pairwise distinct triangles, EACH A TRIANGLE
   OF SOME CELL; the declared edges are pairwise distinct pairs of distinct vertices *)
Definition tet_mesh (M : vmesh) : Prop :=
  Forall cell_ok (m_cells M) /\ faces0_ok (m_faces0 M)
  /\ (forall F, In F (m_faces0 M) -> exists C, In C (m_cells M) /\ incl F C)
  /\ edges0_ok (m_edges0 M).
Definition face (M : vmesh) (f : nat) : list nat := nth f (faces_of M) [].
Definition edge (M : vmesh) (e : nat) : list nat := nth e (edges_of M) [].
Definition cell (M : vmesh) (c : nat) : list nat := nth c (m_cells M) [].
Definition only_cells (cells : list (list nat)) : vmesh := {| m_cells := cells; m_faces0 := []; m_edges0 := [] |}.

Section Main.
  Variable M : vmesh.
  Hypothesis HM : tet_mesh M.
  Let cells := m_cells M.
  Lemma H : Forall cell_ok cells.
  Proof. apply HM. Qed.

  Lemma Hf : faces_wf cells (faces_of M).
  Proof. apply complete_faces_wf; [exact H|apply HM]. Qed.
  Lemma He : edges_wf (faces_of M) (edges_of M).
  Proof. apply complete_edges_wf; [apply (fw_shape _ _ Hf)|apply HM]. Qed.

  (* --- completion *)
  Theorem faces_edges_from_cells :
    faces_wf cells (faces_of M) /\ edges_wf (faces_of M) (edges_of M)
    /\ (forall F, In F (faces_of M) -> In F (m_faces0 M) \/ exists C, In C cells /\ In F (tet_faces C))
    /\ (forall F, In F (faces_of M) -> exists C, In C cells /\ incl F C).
  Proof.
    split; [exact Hf|]. split; [exact He|]. split; [apply complete_faces_origin|].
    apply complete_faces_minimal; [exact H|apply HM].
  Qed.

  (* --- no exception while building the tables *)
  Theorem tables_ok : t_ok (tables M) = true.
  Proof. apply cell_adj_ok_true; [exact H|exact Hf]. Qed.

  (* --- incidence *)
  Theorem face_to_cells_is_brute_force f :
    f < length (faces_of M) ->
    F2C (t_f2c (tables M)) f
    = filter (fun c => subsetb (face M f) (cell M c)) (seq 0 (length cells)).
  Proof.
    intros L. cbn [tables build t_f2c]. rewrite (F2C_tab cells) by assumption.
    now apply face_to_cells_correct; [exact H|exact Hf|].
  Qed.

  Theorem cell_to_face_is_opposite_faces c :
    c < length cells ->
    exists l, C2F (t_c2f (tables M)) c = l /\ length l = 4 /\
      forall i, i < 4 ->
        let f := nth i l 0 in
        f < length (faces_of M) /\ Permutation (face M f) (rm i (cell M c))
        /\ incl (face M f) (cell M c) /\ ~ In (nth i (cell M c) 0) (face M f).
  Proof. intros L. apply (cell_to_face_correct cells (faces_of M) H Hf c L). Qed.

  Theorem cell_to_cell_is_brute_force :
    conforming cells ->
    exists t, t_c2c (tables M) = Ok t /\
      forall c, c < length cells ->
        C2C t c = flat_map (fun i => filter (fun c2 => negb (c2 =? c) && subsetb (rm i (cell M c)) (cell M c2))
                                            (seq 0 (length cells))) (seq 0 4).
  Proof.
    intros Cf. eexists. split.
    - cbn [tables build t_c2c]. apply (c2c_tab_correct cells (faces_of M) H Hf).
    - intros c L. now apply (cell_to_cell_correct cells Cf).
  Qed.

  Theorem vertex_to_cell_is_brute_force v c :
    (In c (V2C cells v) <-> c < length cells /\ In v (cell M c)) /\ NoDup (V2C cells v).
  Proof. split; [apply vertex_to_cell_correct|apply vertex_to_cell_NoDup]. Qed.

  Theorem edge_to_face_is_brute_force e :
    e < length (edges_of M) ->
    nth e (t_e2f (tables M)) []
    = filter (fun f => subsetb (edge M e) (face M f)) (seq 0 (length (faces_of M))).
  Proof.
    intros L. cbn [tables build t_e2f]. rewrite (E2F_tab (faces_of M) (edges_of M)) by assumption.
    now apply (edge_to_face_correct cells (faces_of M) (edges_of M) Hf He).
  Qed.

  Theorem edge_to_cell_is_brute_force e c :
    e < length (edges_of M) ->
    (In c (nth e (t_e2c (tables M)) []) <-> c < length cells /\ incl (edge M e) (cell M c))
    /\ NoDup (nth e (t_e2c (tables M)) []).
  Proof.
    intros L. cbn [tables build t_e2c]. split.
    - now apply (edge_to_cell_correct cells (faces_of M) (edges_of M) H Hf He).
    - apply edge_to_cell_NoDup.
  Qed.

  (* --- border *)
  Definition n_cells_of_face (f : nat) : nat := length (cells_with cells (face M f)).
  Let bf := t_bf (tables M).

  Lemma Hmin : forall F, In F (faces_of M) -> exists C, In C cells /\ incl F C.
  Proof. apply complete_faces_minimal; [exact H|apply HM]. Qed.

  Theorem border_classification :
    (forall f, In f bf <-> f < length (faces_of M) /\ n_cells_of_face f = 1)
    /\ (forall f, In f (interior_faces (faces_of M) (t_f2c (tables M))) <->
                  f < length (faces_of M) /\ 2 <= n_cells_of_face f)
    /\ (forall nv v, In v (boundary_vertices nv (faces_of M) bf) <->
                     v < nv /\ exists f, In f bf /\ In v (face M f))
    /\ (forall e, In e (boundary_edges (faces_of M) (edges_of M) bf) <->
                  e < length (edges_of M) /\ exists f, In f bf /\ incl (edge M e) (face M f)).
  Proof.
    split; [intros f; apply (boundary_faces_correct cells (faces_of M) H Hf Hmin)|].
    split; [intros f; apply (interior_faces_correct cells (faces_of M) H Hf)|].
    split; [intros nv v; apply boundary_vertices_correct|].
    intros e. apply (boundary_edges_correct cells (faces_of M) (edges_of M) H Hf He Hmin).
  Qed.

  Theorem border_partitions nv :
    Permutation (bf ++ interior_faces (faces_of M) (t_f2c (tables M))) (seq 0 (length (faces_of M)))
    /\ Permutation (boundary_vertices nv (faces_of M) bf ++ interior_vertices nv (faces_of M) bf) (seq 0 nv)
    /\ Permutation (boundary_edges (faces_of M) (edges_of M) bf ++ interior_edges (faces_of M) (edges_of M) bf)
                   (seq 0 (length (edges_of M))).
  Proof. split; [apply faces_partition|]. split; [apply vertices_partition|apply edges_partition]. Qed.

  (* --- the boundary is closed *)
  Theorem boundary_closed :
    conforming cells -> forall E, edge_ok E ->
    Nat.even (length (filter (fun f => subsetb E (face M f)) bf)) = true.
  Proof.
    intros Cf E HE. apply (border_faces_around_even cells (faces_of M) H Hf Cf Hmin E HE).
  Qed.

  (* --- _BoundaryConnectivity: nothing raises, edge maps total and inverse *)
  Theorem boundary_connectivity_maps pos vs :
    NoDup vs -> (forall f v, In f bf -> In v (face M f) -> In v vs) ->
    exists bfs m,
      bc_faces cells (faces_of M) pos (t_f2c (tables M)) vs bf = Ok bfs
      /\ bc_edge_map (edges_of M) (complete_edges [] bfs) vs
                     (boundary_edges (faces_of M) (edges_of M) bf) = Ok m
      /\ map fst m = boundary_edges (faces_of M) (edges_of M) bf
      /\ (forall b, b < length (complete_edges [] bfs) -> exists e, In (e, b) m)
      /\ (forall e b, dict_get m e = Some b <-> dict_get (map swap m) b = Some e).
  Proof.
    intros ND HV. cbn [tables build t_f2c t_bf] in *.
    destruct (map_res_total (bc_face cells (faces_of M) pos (f2c_tab (faces_of M) (c2f_tab cells (faces_of M))) vs)
                (boundary_faces (faces_of M) (f2c_tab (faces_of M) (c2f_tab cells (faces_of M)))))
      as [bfs Eb].
    { intros f Hfin. apply (bc_face_total cells (faces_of M) pos H Hf Hmin vs ND HV f Hfin). }
    exists bfs.
    destruct (edge_map_total cells (faces_of M) (edges_of M) pos H Hf He Hmin vs ND bfs Eb) as [m [Em [Fm Tm]]].
    exists m. split; [exact Eb|]. split; [exact Em|]. split; [exact Fm|]. split; [exact Tm|].
    assert (NDbe : NoDup (boundary_edges (faces_of M) (edges_of M)
                            (boundary_faces (faces_of M) (f2c_tab (faces_of M) (c2f_tab cells (faces_of M))))))
      by apply NoDup_filter, seq_NoDup.
    destruct (edge_maps_inverse _ _ _ _ _ (ew_keys _ _ He) NDbe Em) as [_ INV]. exact INV.
  Qed.

  (* --- closedness of the extracted surfaces *)
  Theorem extracted_surfaces_closed pos vs sfaces :
    conforming cells -> NoDup vs ->
    (bc_faces cells (faces_of M) pos (t_f2c (tables M)) vs bf = Ok sfaces
     \/ ex_faces cells (faces_of M) pos (t_f2c (tables M)) vs bf = Ok sfaces) ->
    (forall a1 a2 u v, b2m vs a1 = Some u -> b2m vs a2 = Some v -> a1 <> a2 ->
       Nat.even (length (filter (fun T => subsetb [a1; a2] T) sfaces)) = true)
    /\ (manifold_boundary cells (faces_of M) ->
        forall T a1 a2, In T sfaces -> In a1 T -> In a2 T -> a1 <> a2 ->
          length (filter (fun T' => subsetb [a1; a2] T') sfaces) = 2).
  Proof.
    intros Cf ND E. cbn [tables build t_f2c t_bf] in *.
    assert (R : Forall2 (fun f T => renumbers vs T (nth f (faces_of M) []))
                        (boundary_faces (faces_of M) (f2c_tab (faces_of M) (c2f_tab cells (faces_of M)))) sfaces).
    { destruct E as [E|E].
      - now apply (bc_faces_renumber cells (faces_of M) pos).
      - apply (ex_faces_renumber cells (faces_of M) pos (f2c_tab (faces_of M) (c2f_tab cells (faces_of M))) vs); [apply (fw_shape _ _ Hf) | | assumption].
        intros f Hfin. apply (boundary_faces_correct cells (faces_of M) H Hf Hmin) in Hfin. tauto. }
    split.
    - intros a1 a2 u v. now apply (surface_closed cells (faces_of M) H Hf Cf Hmin vs ND sfaces R).
    - intros MB. now apply (surface_edges_have_two_faces cells (faces_of M) H Hf Cf Hmin vs ND sfaces R).
  Qed.

  (* --- standalone extractor (after the repair 832f457): every border face comes out renumbered and outward *)
  Theorem standalone_faces_outward pos vs f T :
    In f bf -> ex_face cells (faces_of M) pos (t_f2c (tables M)) vs f = Ok T ->
    exists a b c d iC p q r,
      face M f = [a; b; c] /\ hd_error (F2C (t_f2c (tables M)) f) = Some iC
      /\ hd_error (others (cell M iC) [a; b; c]) = Some d
      /\ map (b2m vs) T = [Some p; Some q; Some r]
      /\ Permutation [p; q; r] [a; b; c]
      /\ (det_3x3 (vsub3 (pos a) (pos d)) (vsub3 (pos b) (pos d)) (vsub3 (pos c) (pos d)) <> 0%Z ->
          outward_Z (pos p) (pos q) (pos r) (pos d) = true).
  Proof.
    intros Hfin E. cbn [tables build t_f2c t_bf] in *.
    pose proof (proj1 (boundary_faces_correct cells (faces_of M) H Hf Hmin f) Hfin) as [L N1].
    apply (ex_face_outward cells (faces_of M) pos _ vs f T E).
    - apply (face_ok_nth cells (faces_of M) Hf f L).
    - rewrite (F2C_is_cells_with cells (faces_of M) H Hf) by assumption.
      unfold n_cells_with in N1. intros X. rewrite X in N1. discriminate.
  Qed.

  Theorem extractors_emit_the_same_faces pos vs f :
    In f bf ->
    ex_face cells (faces_of M) pos (t_f2c (tables M)) vs f = bc_face cells (faces_of M) pos (t_f2c (tables M)) vs f.
  Proof.
    intros Hfin. cbn [tables build t_f2c t_bf] in *.
    pose proof (proj1 (boundary_faces_correct cells (faces_of M) H Hf Hmin f) Hfin) as [L N1].
    apply extractors_agree.
    - apply (face_ok_nth cells (faces_of M) Hf f L).
    - rewrite (F2C_is_cells_with cells (faces_of M) H Hf) by assumption.
      unfold n_cells_with in N1. intros X. rewrite X in N1. discriminate.
  Qed.

  (* --- ring: the rotational sort (Proofs_Ring.v, Proofs_Sort.v, Proofs_Cover.v) *)
  Theorem edge_ring e start :
    e < length (edges_of M) -> In start (nth e (t_e2c (tables M)) []) ->
    exists A B b cs fs,
      edge M e = [A; B] /\
      sorted_edge cells (faces_of M) (edges_of M) (t_f2c (tables M))
                  (nth e (t_e2c (tables M)) []) (nth e (t_e2f (tables M)) []) e start = Ok (b, cs, fs)
      /\ Permutation cs (nth e (t_e2c (tables M)) []) /\ Permutation fs (nth e (t_e2f (tables M)) [])
      /\ (b = true -> NoDup cs /\ Sorted (adjacent_around cells (faces_of M) A B) cs /\ In start cs
                      /\ NoDup fs /\ Sorted (face_adj cells (faces_of M)) fs)
      /\ (conforming cells -> link_connected cells (faces_of M) A B (nth e (t_e2c (tables M)) []) -> b = true).
  Proof.
    intros L Hs. cbn [tables build t_f2c t_e2c t_e2f] in *.
    destruct (edge_ring_sorted cells (faces_of M) (edges_of M) H Hf He e start L Hs)
      as [A [B [b [cs [fs [EE [SE [P1 [P2 SO]]]]]]]]].
    exists A, B, b, cs, fs. split; [assumption|]. split; [assumption|]. split; [assumption|]. split; [assumption|].
    split.
    { intros Hb. destruct (SO Hb) as [X1 [X2 X3]]. split; [assumption|]. split; [assumption|]. split; [assumption|].
      apply (edge_ring_faces cells (faces_of M) (edges_of M) H Hf He e start b cs fs L Hs SE Hb). }
    intros Cf LC.
    apply (edge_ring_covered cells (faces_of M) (edges_of M) H Hf He Cf Hmin e start A B L Hs EE LC b cs fs SE).
  Qed.
End Main.

(* ------------------------------------------------------------------ non-vacuity: concrete meshes *)
(* the unit cube cut into 5 tetrahedra, vertex orders of both signs *)
Definition cube5 : list (list nat) := [[0; 3; 5; 6]; [1; 0; 3; 5]; [2; 3; 0; 6]; [4; 0; 5; 6]; [7; 6; 5; 3]].
(* the same with two border triangles and one interior triangle declared beforehand (arbitrary vertex order) and two
   declared edges *)
Definition cube5_declared : vmesh :=
  {| m_cells := cube5; m_faces0 := [[5; 0; 3]; [6; 3; 0]; [1; 3; 0]]; m_edges0 := [[3; 0]; [5; 6]] |}.
(* two tetrahedra glued along the edge {0,1} only: conforming, but the cells of that edge are not face-connected *)
Definition two_tets_on_an_edge : list (list nat) := [[0; 1; 2; 3]; [0; 1; 4; 5]].
(* four tetrahedra around the interior edge {0,1}: a closed ring *)
Definition ring4 : list (list nat) := [[0; 1; 2; 3]; [1; 0; 4; 3]; [0; 1; 4; 5]; [5; 2; 0; 1]].

Fixpoint nodupb (l : list nat) : bool := match l with [] => true | x :: t => negb (memb x t) && nodupb t end.
Lemma nodupb_NoDup l : nodupb l = true -> NoDup l.
Proof.
  induction l as [|x t IH]; simpl; intros E; [constructor|]. apply andb_true_iff in E. destruct E as [A B].
  constructor; [|now apply IH]. apply memb_false. now apply negb_true_iff.
Qed.
Fixpoint nodupkb (l : list (list nat)) : bool :=
  match l with [] => true | x :: t => negb (existsb (leqb (key x)) (map key t)) && nodupkb t end.
Lemma nodupkb_NoDup l : nodupkb l = true -> NoDup (map key l).
Proof.
  induction l as [|x t IH]; simpl; intros E; [constructor|]. apply andb_true_iff in E. destruct E as [A B].
  constructor; [|now apply IH]. intros I. apply negb_true_iff in A.
  assert (existsb (leqb (key x)) (map key t) = true) by (apply existsb_exists; exists (key x); split; [assumption|apply leqb_refl]).
  congruence.
Qed.
Definition shapeb (k : nat) (l : list (list nat)) : bool := forallb (fun C => (length C =? k) && nodupb C) l.
Lemma shapeb_spec k l : shapeb k l = true -> Forall (fun C => length C = k /\ NoDup C) l.
Proof.
  unfold shapeb. rewrite forallb_forall. intros E. apply Forall_forall. intros C HC.
  specialize (E C HC). apply andb_true_iff in E. destruct E as [A B]. split; [now apply Nat.eqb_eq|now apply nodupb_NoDup].
Qed.
Definition tet_meshb (M : vmesh) : bool :=
  shapeb 4 (m_cells M) && nodupkb (m_faces0 M) && shapeb 3 (m_faces0 M)
  && forallb (fun F => existsb (subsetb F) (m_cells M)) (m_faces0 M)
  && nodupkb (m_edges0 M) && shapeb 2 (m_edges0 M).
Lemma tet_meshb_spec M : tet_meshb M = true -> tet_mesh M.
Proof.
  unfold tet_meshb, tet_mesh. rewrite !andb_true_iff. intros [[[[[A B] C] D] E] F].
  split; [now apply (shapeb_spec 4)|]. split; [split; [now apply nodupkb_NoDup|now apply (shapeb_spec 3)]|].
  split; [|split; [now apply nodupkb_NoDup|now apply (shapeb_spec 2)]].
  intros X HX. rewrite forallb_forall in D. specialize (D X HX). apply existsb_exists in D.
  destruct D as [Cc [HC S]]. exists Cc. split; [assumption|now apply subsetb_incl].
Qed.

Example cube5_is_a_conforming_tet_mesh : tet_mesh (only_cells cube5) /\ conforming cube5.
Proof. split; [apply tet_meshb_spec|apply conformingb_spec]; vm_compute; reflexivity. Qed.
Example cube5_declared_is_a_tet_mesh : tet_mesh cube5_declared /\ length (faces_of cube5_declared) = 16
                                       /\ nth 0 (faces_of cube5_declared) [] = [5; 0; 3].
Proof. split; [apply tet_meshb_spec; vm_compute; reflexivity|]. vm_compute. split; reflexivity. Qed.
Example cube5_has_interior_and_border_faces :
  length (t_bf (tables (only_cells cube5))) = 12
  /\ length (interior_faces (faces_of (only_cells cube5)) (t_f2c (tables (only_cells cube5)))) = 4.
Proof. vm_compute. split; reflexivity. Qed.
Example cube5_edge_0_3_has_two_border_faces :
  length (filter (fun f => subsetb [0; 3] (face (only_cells cube5) f)) (t_bf (tables (only_cells cube5)))) = 2.
Proof. vm_compute. reflexivity. Qed.
Example two_tets_is_a_conforming_tet_mesh : tet_mesh (only_cells two_tets_on_an_edge) /\ conforming two_tets_on_an_edge.
Proof. split; [apply tet_meshb_spec|apply conformingb_spec]; vm_compute; reflexivity. Qed.
Example ring4_is_a_conforming_tet_mesh : tet_mesh (only_cells ring4) /\ conforming ring4.
Proof. split; [apply tet_meshb_spec|apply conformingb_spec]; vm_compute; reflexivity. Qed.

(* a declared pre-oriented face comes out of both extractors outward, whatever order it was declared in *)
Definition cube_pos (v : nat) : vec :=
  nth v [(0, 0, 0); (1, 0, 0); (0, 1, 0); (1, 1, 0); (0, 0, 1); (1, 0, 1); (0, 1, 1); (1, 1, 1)]%Z (0, 0, 0)%Z.
Example declared_face_extracted_outward :
  let M := cube5_declared in
  let vs := border_vertex_set (faces_of M) (t_bf (tables M)) in
  In 2 (t_bf (tables M)) /\ face M 2 = [1; 3; 0] /\ vs = [1; 2; 4; 0; 3; 7; 6; 5]
  /\ ex_face (m_cells M) (faces_of M) cube_pos (t_f2c (tables M)) vs 2 = Ok [0; 3; 4]
  /\ bc_face (m_cells M) (faces_of M) cube_pos (t_f2c (tables M)) vs 2 = Ok [0; 3; 4]
  /\ outward_Z (cube_pos 1) (cube_pos 0) (cube_pos 3) (cube_pos 5) = true
  /\ outward_Z (cube_pos 1) (cube_pos 3) (cube_pos 0) (cube_pos 5) = false.
Proof. vm_compute. repeat split; try reflexivity. now left. Qed.

(* both sign conventions are inhabited: the cell (0,3,5,6) of cube5 is positive in mouette's determinant
   det(pA-pD,pB-pD,pC-pD), i.e. LEFT-handed in the usual convention; swapping two vertices gives a right-handed cell *)
Example cube5_first_cell_signs :
  cell_positive cube_pos [0; 3; 5; 6]
  /\ (det_3x3 (vsub3 (cube_pos 3) (cube_pos 0)) (vsub3 (cube_pos 5) (cube_pos 0)) (vsub3 (cube_pos 6) (cube_pos 0)) < 0)%Z
  /\ (0 < det_3x3 (vsub3 (cube_pos 0) (cube_pos 3)) (vsub3 (cube_pos 5) (cube_pos 3)) (vsub3 (cube_pos 6) (cube_pos 3)))%Z.
Proof. repeat split; vm_compute; reflexivity. Qed.

(* ------------------------------------------------------------------ the former known finding (repaired by e464500):
   two tetrahedra sharing only an edge - the cells of that edge are not face-connected, the lists are left unsorted,
   nothing is raised *)
Example two_tets_edge_left_unsorted :
  let M := only_cells two_tets_on_an_edge in
  forallb (fun s => match sorted_edge two_tets_on_an_edge (faces_of M) (edges_of M)
                                  (t_f2c (tables M)) (nth 5 (t_e2c (tables M)) [])
                                  (nth 5 (t_e2f (tables M)) []) 5 s with
                    | Ok (false, [0; 1], [2; 3; 6; 7]) => true
                    | _ => false
                    end) (nth 5 (t_e2c (tables M)) []) = true
  /\ nth 5 (t_e2c (tables M)) [] = [0; 1].
Proof. vm_compute. split; reflexivity. Qed.

(* every edge of cube5 is sorted (open fans), and the interior edge {0,1} of ring4 is sorted as a CLOSED ring
   (as many faces as cells) from every start cell *)
Definition sorts_all (M : vmesh) : bool :=
  forallb (fun e => forallb (fun s =>
             match sorted_edge (m_cells M) (faces_of M) (edges_of M) (t_f2c (tables M))
                               (nth e (t_e2c (tables M)) []) (nth e (t_e2f (tables M)) []) e s with
             | Ok (true, cs, fs) => (length fs =? S (length cs)) || (length fs =? length cs)
             | _ => false
             end) (nth e (t_e2c (tables M)) [])) (seq 0 (length (edges_of M))).
Example cube5_edges_sort : sorts_all (only_cells cube5) = true /\ sorts_all cube5_declared = true.
Proof. vm_compute. split; reflexivity. Qed.
Example ring4_closed_ring :
  let M := only_cells ring4 in
  edge M 5 = [0; 1] /\ length (nth 5 (t_e2c (tables M)) []) = 4 /\
  forallb (fun s => match sorted_edge ring4 (faces_of M) (edges_of M) (t_f2c (tables M))
                                  (nth 5 (t_e2c (tables M)) []) (nth 5 (t_e2f (tables M)) []) 5 s with
                    | Ok (true, cs, fs) => (length cs =? 4) && (length fs =? 4)
                    | _ => false
                    end) (nth 5 (t_e2c (tables M)) []) = true.
Proof. vm_compute. repeat split; reflexivity. Qed.

(* link_connected is inhabited: an edge with one cell, or with two cells sharing a face through it *)
Lemma link_connected_two cells faces A B a b :
  adjacent_around cells faces A B a b -> link_connected cells faces A B [a; b].
Proof.
  intros AD S [s [Hs Ss]] CL c Hc.
  assert (Sa : S a).
  { destruct Hs as [E|[E|[]]]; subst s; [assumption|]. apply (CL b a Ss); [now left|]. now apply adjacent_sym. }
  destruct Hc as [E|[E|[]]]; subst c; [assumption|]. apply (CL a b Sa); [right; now left|assumption].
Qed.
Lemma link_connected_one cells faces A B a : link_connected cells faces A B [a].
Proof. intros S [s [[E|[]] Ss]] _ c [E'|[]]. now subst. Qed.
Example single_tet_edges_link_connected :
  let M := only_cells [[0; 1; 2; 3]] in
  forall e, e < length (edges_of M) ->
    exists A B, edge M e = [A; B] /\ link_connected (m_cells M) (faces_of M) A B (nth e (t_e2c (tables M)) []).
Proof.
  intros M e L. change (length (edges_of M)) with 6 in L.
  destruct e as [|[|[|[|[|[|]]]]]]; try lia; eexists; eexists; (split; [vm_compute; reflexivity|]);
    apply link_connected_one.
Qed.

(* manifold_boundary is decidable on the vertices of the border faces and holds of cube5 *)
Definition manifold_boundaryb (cells faces : list (list nat)) : bool :=
  let bf := boundary_faces faces (f2c_tab faces (c2f_tab cells faces)) in
  let V := border_vertex_set faces bf in
  forallb (fun u => forallb (fun v => (u =? v) || (length (filter (fun f => subsetb [u; v] (nth f faces [])) bf) <=? 2)) V) V.
Lemma manifold_boundaryb_spec cells faces : manifold_boundaryb cells faces = true -> manifold_boundary cells faces.
Proof.
  unfold manifold_boundaryb, manifold_boundary. intros E u v N.
  set (bf := boundary_faces faces (f2c_tab faces (c2f_tab cells faces))) in *.
  destruct (filter (fun f => subsetb [u; v] (nth f faces [])) bf) as [|f rest] eqn:EF; [cbn [length]; lia|].
  assert (Hf : In f (filter (fun f => subsetb [u; v] (nth f faces [])) bf)) by (rewrite EF; now left).
  apply filter_In in Hf. destruct Hf as [Hf S]. apply subsetb_incl in S.
  assert (IV : forall w, In w [u; v] -> In w (border_vertex_set faces bf)).
  { intros w Hw. unfold border_vertex_set. apply nodup_In. apply in_flat_map. exists f. split; [assumption|now apply S]. }
  rewrite forallb_forall in E. specialize (E u (IV u (or_introl eq_refl))).
  rewrite forallb_forall in E. specialize (E v (IV v (or_intror (or_introl eq_refl)))).
  apply orb_true_iff in E. destruct E as [E|E]; [apply Nat.eqb_eq in E; contradiction|].
  apply Nat.leb_le in E. now rewrite <- EF.
Qed.
Example cube5_boundary_is_a_manifold : manifold_boundary cube5 (faces_of (only_cells cube5)).
Proof. apply manifold_boundaryb_spec. vm_compute. reflexivity. Qed.

(* OUTSIDE the quantifier (the guard `each declared face is a triangle of some cell` in tet_mesh): a declared face lying in
   no cell is listed among boundary_faces (is_face_on_border tests n < 2) and makes _BoundaryConnectivity raise
   (face_to_cells(iF)[0]: IndexError); the model says so too *)
Example declared_face_in_no_cell_is_outside :
  let M := {| m_cells := [[0; 1; 2; 3]]; m_faces0 := [[0; 1; 4]]; m_edges0 := [] |} in
  tet_meshb M = false /\ In 0 (t_bf (tables M)) /\ F2C (t_f2c (tables M)) 0 = []
  /\ bc_faces (m_cells M) (faces_of M) (fun _ => (0, 0, 0)%Z) (t_f2c (tables M)) [0; 1; 4; 3; 2] (t_bf (tables M)) = Exn.
Proof. vm_compute. repeat split; try reflexivity. now left. Qed.
