(* C03 - the property theorems stated about the cell list alone: faces and edges are the completed ones, the tables
   are those of Run.build (the very record the correspondence batches evaluate). *)
From Coq Require Import String List Arith Bool ZArith Lia Permutation Sorted.
Import ListNotations.
Require Import MV.Lib.Base MV.C03.Gen MV.C03.Model MV.C03.Run MV.C03.Proofs_Base MV.C03.Proofs_Simplex
        MV.C03.Proofs_Incidence MV.C03.Proofs_Complete MV.C03.Proofs_Incidence2 MV.C03.Proofs_Border
        MV.C03.Proofs_Orient MV.C03.Proofs_Maps MV.C03.Proofs_Ring MV.C03.Proofs_Closed MV.C03.Proofs_Sort MV.C03.Proofs_Cover MV.C03.Proofs_EdgeMap MV.C03.Proofs_Surface.
Local Open Scope nat_scope.

Definition faces_of (cells : list (list nat)) : list (list nat) := complete_faces [] cells.
Definition edges_of (cells : list (list nat)) : list (list nat) := complete_edges [] (faces_of cells).
Definition tables (cells : list (list nat)) : tabs := build cells (faces_of cells) (edges_of cells).
(* a tetrahedral cell list: every cell is 4 distinct vertices *)
Definition tet_mesh (cells : list (list nat)) : Prop := Forall cell_ok cells.
Definition face (cells : list (list nat)) (f : nat) : list nat := nth f (faces_of cells) [].
Definition edge (cells : list (list nat)) (e : nat) : list nat := nth e (edges_of cells) [].
Definition cell (cells : list (list nat)) (c : nat) : list nat := nth c cells [].

Section Main.
  Variable cells : list (list nat).
  Hypothesis H : tet_mesh cells.

  Lemma Hf : faces_wf cells (faces_of cells).
  Proof. now apply complete_faces_wf. Qed.
  Lemma He : edges_wf (faces_of cells) (edges_of cells).
  Proof. apply complete_edges_wf. apply (fw_shape _ _ Hf). Qed.

  (* --- completion *)
  Theorem faces_edges_from_cells :
    faces_wf cells (faces_of cells) /\ edges_wf (faces_of cells) (edges_of cells)
    /\ (forall F, In F (faces_of cells) -> exists C, In C cells /\ In F (tet_faces C)).
  Proof. split; [exact Hf|]. split; [exact He|]. apply complete_faces_origin. Qed.

  (* --- no exception while building the tables *)
  Theorem tables_ok : t_ok (tables cells) = true.
  Proof. apply cell_adj_ok_true; [exact H|exact Hf]. Qed.

  (* --- incidence *)
  Theorem face_to_cells_is_brute_force f :
    f < length (faces_of cells) ->
    F2C (t_f2c (tables cells)) f
    = filter (fun c => subsetb (face cells f) (cell cells c)) (seq 0 (length cells)).
  Proof.
    intros L. cbn [tables build t_f2c]. rewrite (F2C_tab cells) by assumption.
    now apply face_to_cells_correct; [exact H|exact Hf|].
  Qed.

  Theorem cell_to_face_is_opposite_faces c :
    c < length cells ->
    exists l, C2F (t_c2f (tables cells)) c = l /\ length l = 4 /\
      forall i, i < 4 ->
        let f := nth i l 0 in
        f < length (faces_of cells) /\ Permutation (face cells f) (rm i (cell cells c))
        /\ incl (face cells f) (cell cells c) /\ ~ In (nth i (cell cells c) 0) (face cells f).
  Proof. intros L. apply (cell_to_face_correct cells (faces_of cells) H Hf c L). Qed.

  Theorem cell_to_cell_is_brute_force :
    conforming cells ->
    exists t, t_c2c (tables cells) = Ok t /\
      forall c, c < length cells ->
        C2C t c = flat_map (fun i => filter (fun c2 => negb (c2 =? c) && subsetb (rm i (cell cells c)) (cell cells c2))
                                            (seq 0 (length cells))) (seq 0 4).
  Proof.
    intros Cf. eexists. split.
    - cbn [tables build t_c2c]. apply (c2c_tab_correct cells (faces_of cells) H Hf).
    - intros c L. now apply (cell_to_cell_correct cells Cf).
  Qed.

  Theorem vertex_to_cell_is_brute_force v c :
    (In c (V2C cells v) <-> c < length cells /\ In v (cell cells c)) /\ NoDup (V2C cells v).
  Proof. split; [apply vertex_to_cell_correct|apply vertex_to_cell_NoDup]. Qed.

  Theorem edge_to_face_is_brute_force e :
    e < length (edges_of cells) ->
    nth e (t_e2f (tables cells)) []
    = filter (fun f => subsetb (edge cells e) (face cells f)) (seq 0 (length (faces_of cells))).
  Proof.
    intros L. cbn [tables build t_e2f]. rewrite (E2F_tab (faces_of cells) (edges_of cells)) by assumption.
    now apply (edge_to_face_correct cells (faces_of cells) (edges_of cells) Hf He).
  Qed.

  Theorem edge_to_cell_is_brute_force e c :
    e < length (edges_of cells) ->
    (In c (nth e (t_e2c (tables cells)) []) <-> c < length cells /\ incl (edge cells e) (cell cells c))
    /\ NoDup (nth e (t_e2c (tables cells)) []).
  Proof.
    intros L. cbn [tables build t_e2c]. split.
    - now apply (edge_to_cell_correct cells (faces_of cells) (edges_of cells) H Hf He).
    - apply edge_to_cell_NoDup.
  Qed.

  (* --- border *)
  Definition n_cells_of_face (f : nat) : nat := length (cells_with cells (face cells f)).
  Let bf := t_bf (tables cells).

  Lemma Hmin : forall F, In F (faces_of cells) -> exists C, In C cells /\ incl F C.
  Proof. now apply complete_faces_minimal. Qed.

  Theorem border_classification :
    (forall f, In f bf <-> f < length (faces_of cells) /\ n_cells_of_face f = 1)
    /\ (forall f, In f (interior_faces (faces_of cells) (t_f2c (tables cells))) <->
                  f < length (faces_of cells) /\ 2 <= n_cells_of_face f)
    /\ (forall nv v, In v (boundary_vertices nv (faces_of cells) bf) <->
                     v < nv /\ exists f, In f bf /\ In v (face cells f))
    /\ (forall e, In e (boundary_edges (faces_of cells) (edges_of cells) bf) <->
                  e < length (edges_of cells) /\ exists f, In f bf /\ incl (edge cells e) (face cells f)).
  Proof.
    split; [intros f; apply (boundary_faces_correct cells (faces_of cells) H Hf Hmin)|].
    split; [intros f; apply (interior_faces_correct cells (faces_of cells) H Hf)|].
    split; [intros nv v; apply boundary_vertices_correct|].
    intros e. apply (boundary_edges_correct cells (faces_of cells) (edges_of cells) H Hf He Hmin).
  Qed.

  Theorem border_partitions nv :
    Permutation (bf ++ interior_faces (faces_of cells) (t_f2c (tables cells))) (seq 0 (length (faces_of cells)))
    /\ Permutation (boundary_vertices nv (faces_of cells) bf ++ interior_vertices nv (faces_of cells) bf) (seq 0 nv)
    /\ Permutation (boundary_edges (faces_of cells) (edges_of cells) bf ++ interior_edges (faces_of cells) (edges_of cells) bf)
                   (seq 0 (length (edges_of cells))).
  Proof. split; [apply faces_partition|]. split; [apply vertices_partition|apply edges_partition]. Qed.

  (* --- the boundary is closed *)
  Theorem boundary_closed :
    conforming cells -> forall E, edge_ok E ->
    Nat.even (length (filter (fun f => subsetb E (face cells f)) bf)) = true.
  Proof.
    intros Cf E HE. apply (border_faces_around_even cells (faces_of cells) H Hf Cf Hmin E HE).
  Qed.

  (* --- _BoundaryConnectivity: nothing raises, edge maps total and inverse *)
  Theorem boundary_connectivity_maps pos vs :
    NoDup vs -> (forall f v, In f bf -> In v (face cells f) -> In v vs) ->
    exists bfs m,
      bc_faces cells (faces_of cells) pos (t_f2c (tables cells)) vs bf = Ok bfs
      /\ bc_edge_map (edges_of cells) (complete_edges [] bfs) vs
                     (boundary_edges (faces_of cells) (edges_of cells) bf) = Ok m
      /\ map fst m = boundary_edges (faces_of cells) (edges_of cells) bf
      /\ (forall b, b < length (complete_edges [] bfs) -> exists e, In (e, b) m)
      /\ (forall e b, dict_get m e = Some b <-> dict_get (map swap m) b = Some e).
  Proof.
    intros ND HV. cbn [tables build t_f2c t_bf] in *.
    destruct (map_res_total (bc_face cells (faces_of cells) pos (f2c_tab (faces_of cells) (c2f_tab cells (faces_of cells))) vs)
                (boundary_faces (faces_of cells) (f2c_tab (faces_of cells) (c2f_tab cells (faces_of cells)))))
      as [bfs Eb].
    { intros f Hfin. apply (bc_face_total cells (faces_of cells) pos H Hf Hmin vs ND HV f Hfin). }
    exists bfs.
    destruct (edge_map_total cells (faces_of cells) (edges_of cells) pos H Hf He Hmin vs ND bfs Eb) as [m [Em [Fm Tm]]].
    exists m. split; [exact Eb|]. split; [exact Em|]. split; [exact Fm|]. split; [exact Tm|].
    assert (NDbe : NoDup (boundary_edges (faces_of cells) (edges_of cells)
                            (boundary_faces (faces_of cells) (f2c_tab (faces_of cells) (c2f_tab cells (faces_of cells))))))
      by apply NoDup_filter, seq_NoDup.
    destruct (edge_maps_inverse _ _ _ _ _ (ew_keys _ _ He) NDbe Em) as [_ INV]. exact INV.
  Qed.

  (* --- closedness of the extracted surfaces *)
  Theorem extracted_surfaces_closed pos vs sfaces :
    conforming cells -> NoDup vs ->
    (bc_faces cells (faces_of cells) pos (t_f2c (tables cells)) vs bf = Ok sfaces
     \/ ex_faces (faces_of cells) vs bf = Ok sfaces) ->
    (forall a1 a2 u v, b2m vs a1 = Some u -> b2m vs a2 = Some v -> a1 <> a2 ->
       Nat.even (length (filter (fun T => subsetb [a1; a2] T) sfaces)) = true)
    /\ (manifold_boundary cells (faces_of cells) ->
        forall T a1 a2, In T sfaces -> In a1 T -> In a2 T -> a1 <> a2 ->
          length (filter (fun T' => subsetb [a1; a2] T') sfaces) = 2).
  Proof.
    intros Cf ND E. cbn [tables build t_f2c t_bf] in *.
    assert (R : Forall2 (fun f T => renumbers vs T (nth f (faces_of cells) []))
                        (boundary_faces (faces_of cells) (f2c_tab (faces_of cells) (c2f_tab cells (faces_of cells)))) sfaces).
    { destruct E as [E|E].
      - now apply (bc_faces_renumber cells (faces_of cells) pos).
      - apply ex_faces_renumber; [apply (fw_shape _ _ Hf) | | assumption].
        intros f Hfin. apply (boundary_faces_correct cells (faces_of cells) H Hf Hmin) in Hfin. tauto. }
    split.
    - intros a1 a2 u v. now apply (surface_closed cells (faces_of cells) H Hf Cf Hmin vs ND sfaces R).
    - intros MB. now apply (surface_edges_have_two_faces cells (faces_of cells) H Hf Cf Hmin vs ND sfaces R).
  Qed.

  (* --- standalone extractor: stored order = convention order of a cell containing the face; outward if that cell is positive *)
  Theorem standalone_faces_outward pos f :
    f < length (faces_of cells) ->
    exists C i, In C cells /\ i < 4 /\ face cells f = nth i (tet_faces C) [] /\ incl (face cells f) C
                /\ ~ In (nth i C 0) (face cells f)
                /\ (cell_positive pos C -> face_outward pos (face cells f) (nth i C 0)).
  Proof.
    intros L. assert (I : In (face cells f) (faces_of cells)) by now apply nth_In.
    destruct (complete_faces_origin cells _ I) as [C [HC HF]].
    pose proof (proj1 (Forall_forall _ _) H C HC) as OK.
    destruct (cell_ok_shape C OK) as [v0 [v1 [v2 [v3 ->]]]].
    cbn [tet_faces] in HF. destruct (In_nth _ _ [] HF) as [i [Li Ei]].
    pose proof (tet_table_lengths v0 v1 v2 v3) as [LL _]. rewrite LL in Li.
    exists [v0; v1; v2; v3], i. split; [assumption|]. split; [assumption|].
    split; [now rewrite <- Ei|].
    pose proof (tet_row_perm_completion v0 v1 v2 v3 i Li) as P. rewrite Ei in P.
    split; [intros x Hx; apply (rm_incl i); now apply (Permutation_in _ P)|].
    split.
    - intros X. apply (rm_not_in i [v0; v1; v2; v3]); [apply OK | cbn [length]; lia |].
      now apply (Permutation_in _ P).
    - intros CP. rewrite <- Ei. now apply convention_faces_outward.
  Qed.

  (* --- ring: the rotational sort (Proofs_Ring.v, Proofs_Sort.v, Proofs_Cover.v) *)
  Theorem edge_ring e start :
    e < length (edges_of cells) -> In start (nth e (t_e2c (tables cells)) []) ->
    exists A B b cs fs,
      edge cells e = [A; B] /\
      sorted_edge cells (faces_of cells) (edges_of cells) (t_f2c (tables cells))
                  (nth e (t_e2c (tables cells)) []) (nth e (t_e2f (tables cells)) []) e start = Ok (b, cs, fs)
      /\ Permutation cs (nth e (t_e2c (tables cells)) []) /\ Permutation fs (nth e (t_e2f (tables cells)) [])
      /\ (b = true -> NoDup cs /\ Sorted (adjacent_around cells (faces_of cells) A B) cs /\ In start cs)
      /\ (conforming cells -> link_connected cells (faces_of cells) A B (nth e (t_e2c (tables cells)) []) -> b = true).
  Proof.
    intros L Hs. cbn [tables build t_f2c t_e2c t_e2f] in *.
    destruct (edge_ring_sorted cells (faces_of cells) (edges_of cells) H Hf He e start L Hs)
      as [A [B [b [cs [fs [EE [SE [P1 [P2 SO]]]]]]]]].
    exists A, B, b, cs, fs. repeat (split; [assumption|]).
    intros Cf LC.
    apply (edge_ring_covered cells (faces_of cells) (edges_of cells) H Hf He Cf Hmin e start A B L Hs EE LC b cs fs SE).
  Qed.
End Main.

(* ------------------------------------------------------------------ non-vacuity: concrete meshes *)
(* the unit cube cut into 5 tetrahedra, vertex orders of both signs *)
Definition cube5 : list (list nat) := [[0; 3; 5; 6]; [1; 0; 3; 5]; [2; 3; 0; 6]; [4; 0; 5; 6]; [7; 6; 5; 3]].
(* two tetrahedra glued along the edge {0,1} only: conforming, but the cells of that edge are not face-connected *)
Definition two_tets_on_an_edge : list (list nat) := [[0; 1; 2; 3]; [0; 1; 4; 5]].

Fixpoint nodupb (l : list nat) : bool := match l with [] => true | x :: t => negb (memb x t) && nodupb t end.
Lemma nodupb_NoDup l : nodupb l = true -> NoDup l.
Proof.
  induction l as [|x t IH]; simpl; intros E; [constructor|]. apply andb_true_iff in E. destruct E as [A B].
  constructor; [|now apply IH]. apply memb_false. now apply negb_true_iff.
Qed.
Definition tet_meshb (cells : list (list nat)) : bool := forallb (fun C => (length C =? 4) && nodupb C) cells.
Lemma tet_meshb_spec cells : tet_meshb cells = true -> tet_mesh cells.
Proof.
  unfold tet_meshb, tet_mesh. rewrite forallb_forall. intros E. apply Forall_forall. intros C HC.
  specialize (E C HC). apply andb_true_iff in E. destruct E as [A B]. split; [now apply Nat.eqb_eq|now apply nodupb_NoDup].
Qed.

Example cube5_is_a_conforming_tet_mesh : tet_mesh cube5 /\ conforming cube5.
Proof. split; [apply tet_meshb_spec|apply conformingb_spec]; vm_compute; reflexivity. Qed.
Example cube5_has_interior_and_border_faces :
  length (t_bf (tables cube5)) = 12 /\ length (interior_faces (faces_of cube5) (t_f2c (tables cube5))) = 4.
Proof. vm_compute. split; reflexivity. Qed.
Example cube5_edge_0_3_has_two_border_faces :
  length (filter (fun f => subsetb [0; 3] (face cube5 f)) (t_bf (tables cube5))) = 2.
Proof. vm_compute. reflexivity. Qed.
Example two_tets_is_a_conforming_tet_mesh : tet_mesh two_tets_on_an_edge /\ conforming two_tets_on_an_edge.
Proof. split; [apply tet_meshb_spec|apply conformingb_spec]; vm_compute; reflexivity. Qed.

(* ------------------------------------------------------------------ the former known finding (repaired by e464500):
   two tetrahedra sharing only an edge - the cells of that edge are not face-connected, the lists are left unsorted,
   nothing is raised *)
Example two_tets_edge_left_unsorted :
  forallb (fun s => match sorted_edge two_tets_on_an_edge (faces_of two_tets_on_an_edge) (edges_of two_tets_on_an_edge)
                                  (t_f2c (tables two_tets_on_an_edge)) (nth 5 (t_e2c (tables two_tets_on_an_edge)) [])
                                  (nth 5 (t_e2f (tables two_tets_on_an_edge)) []) 5 s with
                    | Ok (false, [0; 1], [2; 3; 6; 7]) => true
                    | _ => false
                    end) (nth 5 (t_e2c (tables two_tets_on_an_edge)) []) = true
  /\ nth 5 (t_e2c (tables two_tets_on_an_edge)) [] = [0; 1].
Proof. vm_compute. split; reflexivity. Qed.

(* on an edge whose cells are face-connected the same function succeeds and returns the ring *)
Example cube5_interior_edges_sort :
  forallb (fun e => match nth e (t_e2c (tables cube5)) [] with
                    | s :: _ => match sorted_edge cube5 (faces_of cube5) (edges_of cube5) (t_f2c (tables cube5))
                                                 (nth e (t_e2c (tables cube5)) []) (nth e (t_e2f (tables cube5)) []) e s with
                                | Ok (true, cs, fs) => (length fs =? S (length cs)) || (length fs =? length cs)
                                | _ => false
                                end
                    | [] => false
                    end) (seq 0 (length (edges_of cube5))) = true.
Proof. vm_compute. reflexivity. Qed.
