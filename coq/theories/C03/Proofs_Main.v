(* C03 - the property theorems stated about the cell list alone: faces and edges are the completed ones, the tables
   are those of Run.build (the very record the correspondence batches evaluate). *)
From Coq Require Import String List Arith Bool ZArith Lia Permutation Sorted.
Import ListNotations.
Require Import MV.Lib.Base MV.C03.Gen MV.C03.Model MV.C03.Run MV.C03.Proofs_Base MV.C03.Proofs_Simplex
        MV.C03.Proofs_Incidence MV.C03.Proofs_Complete MV.C03.Proofs_Incidence2 MV.C03.Proofs_Border
        MV.C03.Proofs_Orient MV.C03.Proofs_Maps MV.C03.Proofs_Ring MV.C03.Proofs_Closed.
Local Open Scope nat_scope.

Definition faces_of (cells : list (list nat)) : list (list nat) := complete_faces [] cells.
Definition edges_of (cells : list (list nat)) : list (list nat) := complete_edges [] (faces_of cells).
Definition tables (cells : list (list nat)) : tabs := build cells (faces_of cells) (edges_of cells).
(* a tetrahedral cell list: every cell is 4 distinct vertices *)
Definition tet_mesh (cells : list (list nat)) : Prop := Forall cell_ok cells.
Definition face (cells : list (list nat)) (f : nat) : list nat := nth f (faces_of cells) [].
Definition edge (cells : list (list nat)) (e : nat) : list nat := nth e (edges_of cells) [].
Definition cell (cells : list (list nat)) (c : nat) : list nat := nth c cells [].

Section Main.
  Variable cells : list (list nat).
  Hypothesis H : tet_mesh cells.

  Lemma Hf : faces_wf cells (faces_of cells).
  Proof. now apply complete_faces_wf. Qed.
  Lemma He : edges_wf (faces_of cells) (edges_of cells).
  Proof. apply complete_edges_wf. apply (fw_shape _ _ Hf). Qed.

  (* --- completion *)
  Theorem faces_edges_from_cells :
    faces_wf cells (faces_of cells) /\ edges_wf (faces_of cells) (edges_of cells)
    /\ (forall F, In F (faces_of cells) -> exists C, In C cells /\ In F (tet_faces C)).
  Proof. split; [exact Hf|]. split; [exact He|]. apply complete_faces_origin. Qed.

  (* --- no exception while building the tables *)
  Theorem tables_ok : t_ok (tables cells) = true.
  Proof. apply cell_adj_ok_true; [exact H|exact Hf]. Qed.

  (* --- incidence *)
  Theorem face_to_cells_is_brute_force f :
    f < length (faces_of cells) ->
    F2C (t_f2c (tables cells)) f
    = filter (fun c => subsetb (face cells f) (cell cells c)) (seq 0 (length cells)).
  Proof.
    intros L. cbn [tables build t_f2c]. rewrite (F2C_tab cells) by assumption.
    now apply face_to_cells_correct; [exact H|exact Hf|].
  Qed.

  Theorem cell_to_face_is_opposite_faces c :
    c < length cells ->
    exists l, C2F (t_c2f (tables cells)) c = l /\ length l = 4 /\
      forall i, i < 4 ->
        let f := nth i l 0 in
        f < length (faces_of cells) /\ Permutation (face cells f) (rm i (cell cells c))
        /\ incl (face cells f) (cell cells c) /\ ~ In (nth i (cell cells c) 0) (face cells f).
  Proof. intros L. apply (cell_to_face_correct cells (faces_of cells) H Hf c L). Qed.

  Theorem cell_to_cell_is_brute_force :
    conforming cells ->
    exists t, t_c2c (tables cells) = Ok t /\
      forall c, c < length cells ->
        C2C t c = flat_map (fun i => filter (fun c2 => negb (c2 =? c) && subsetb (rm i (cell cells c)) (cell cells c2))
                                            (seq 0 (length cells))) (seq 0 4).
  Proof.
    intros Cf. eexists. split.
    - cbn [tables build t_c2c]. apply (c2c_tab_correct cells (faces_of cells) H Hf).
    - intros c L. now apply (cell_to_cell_correct cells Cf).
  Qed.

  Theorem vertex_to_cell_is_brute_force v c :
    (In c (V2C cells v) <-> c < length cells /\ In v (cell cells c)) /\ NoDup (V2C cells v).
  Proof. split; [apply vertex_to_cell_correct|apply vertex_to_cell_NoDup]. Qed.

  Theorem edge_to_face_is_brute_force e :
    e < length (edges_of cells) ->
    nth e (t_e2f (tables cells)) []
    = filter (fun f => subsetb (edge cells e) (face cells f)) (seq 0 (length (faces_of cells))).
  Proof.
    intros L. cbn [tables build t_e2f]. rewrite (E2F_tab (faces_of cells) (edges_of cells)) by assumption.
    now apply (edge_to_face_correct cells (faces_of cells) (edges_of cells) Hf He).
  Qed.

  Theorem edge_to_cell_is_brute_force e c :
    e < length (edges_of cells) ->
    (In c (nth e (t_e2c (tables cells)) []) <-> c < length cells /\ incl (edge cells e) (cell cells c))
    /\ NoDup (nth e (t_e2c (tables cells)) []).
  Proof.
    intros L. cbn [tables build t_e2c]. split.
    - now apply (edge_to_cell_correct cells (faces_of cells) (edges_of cells) H Hf He).
    - apply edge_to_cell_NoDup.
  Qed.

  (* --- border *)
  Definition n_cells_of_face (f : nat) : nat := length (cells_with cells (face cells f)).
  Let bf := t_bf (tables cells).

  Lemma Hmin : forall F, In F (faces_of cells) -> exists C, In C cells /\ incl F C.
  Proof. now apply complete_faces_minimal. Qed.

  Theorem border_classification :
    (forall f, In f bf <-> f < length (faces_of cells) /\ n_cells_of_face f = 1)
    /\ (forall f, In f (interior_faces (faces_of cells) (t_f2c (tables cells))) <->
                  f < length (faces_of cells) /\ 2 <= n_cells_of_face f)
    /\ (forall nv v, In v (boundary_vertices nv (faces_of cells) bf) <->
                     v < nv /\ exists f, In f bf /\ In v (face cells f))
    /\ (forall e, In e (boundary_edges (faces_of cells) (edges_of cells) bf) <->
                  e < length (edges_of cells) /\ exists f, In f bf /\ incl (edge cells e) (face cells f)).
  Proof.
    split; [intros f; apply (boundary_faces_correct cells (faces_of cells) H Hf Hmin)|].
    split; [intros f; apply (interior_faces_correct cells (faces_of cells) H Hf)|].
    split; [intros nv v; apply boundary_vertices_correct|].
    intros e. apply (boundary_edges_correct cells (faces_of cells) (edges_of cells) H Hf He Hmin).
  Qed.

  Theorem border_partitions nv :
    Permutation (bf ++ interior_faces (faces_of cells) (t_f2c (tables cells))) (seq 0 (length (faces_of cells)))
    /\ Permutation (boundary_vertices nv (faces_of cells) bf ++ interior_vertices nv (faces_of cells) bf) (seq 0 nv)
    /\ Permutation (boundary_edges (faces_of cells) (edges_of cells) bf ++ interior_edges (faces_of cells) (edges_of cells) bf)
                   (seq 0 (length (edges_of cells))).
  Proof. split; [apply faces_partition|]. split; [apply vertices_partition|apply edges_partition]. Qed.

  (* --- the boundary is closed *)
  Theorem boundary_closed :
    conforming cells -> forall E, edge_ok E ->
    Nat.even (length (filter (fun f => subsetb E (face cells f)) bf)) = true.
  Proof.
    intros Cf E HE. apply (border_faces_around_even cells (faces_of cells) H Hf Cf Hmin E HE).
  Qed.

  (* --- standalone extractor: stored order = convention order of a cell containing the face; outward if that cell is positive *)
  Theorem standalone_faces_outward pos f :
    f < length (faces_of cells) ->
    exists C i, In C cells /\ i < 4 /\ face cells f = nth i (tet_faces C) [] /\ incl (face cells f) C
                /\ ~ In (nth i C 0) (face cells f)
                /\ (cell_positive pos C -> face_outward pos (face cells f) (nth i C 0)).
  Proof.
    intros L. assert (I : In (face cells f) (faces_of cells)) by now apply nth_In.
    destruct (complete_faces_origin cells _ I) as [C [HC HF]].
    pose proof (proj1 (Forall_forall _ _) H C HC) as OK.
    destruct (cell_ok_shape C OK) as [v0 [v1 [v2 [v3 ->]]]].
    cbn [tet_faces] in HF. destruct (In_nth _ _ [] HF) as [i [Li Ei]].
    pose proof (tet_table_lengths v0 v1 v2 v3) as [LL _]. rewrite LL in Li.
    exists [v0; v1; v2; v3], i. split; [assumption|]. split; [assumption|].
    split; [now rewrite <- Ei|].
    pose proof (tet_row_perm_completion v0 v1 v2 v3 i Li) as P. rewrite Ei in P.
    split; [intros x Hx; apply (rm_incl i); now apply (Permutation_in _ P)|].
    split.
    - intros X. apply (rm_not_in i [v0; v1; v2; v3]); [apply OK | cbn [length]; lia |].
      now apply (Permutation_in _ P).
    - intros CP. rewrite <- Ei. now apply convention_faces_outward.
  Qed.

  (* --- ring: what is proved of the rotational sort (see Proofs_Ring.v) *)
  Theorem edge_walks e start A B p1 p2 :
    edge cells e = [A; B] -> others (cell cells start) [A; B] = [p1; p2] -> start < length cells ->
    let f2c := t_f2c (tables cells) in
    let fuel := S (length cells) in
    walk cells (faces_of cells) fuel f2c A B [start] start p1 <> Fuel
    /\ forall cs1 fs1, walk cells (faces_of cells) fuel f2c A B [start] start p1 = Ok (cs1, fs1) ->
       Sorted (adjacent_around cells (faces_of cells) A B) (start :: cs1) /\ NoDup (start :: cs1)
       /\ length fs1 = S (length cs1)
       /\ walk cells (faces_of cells) fuel f2c A B (cs1 ++ [start]) start p2 <> Fuel
       /\ forall cs2 fs2, walk cells (faces_of cells) fuel f2c A B (cs1 ++ [start]) start p2 = Ok (cs2, fs2) ->
          Sorted (adjacent_around cells (faces_of cells) A B) (start :: cs2) /\ NoDup (cs2 ++ start :: cs1)
          /\ length fs2 = S (length cs2).
  Proof.
    intros E O L. cbn [tables build t_f2c].
    apply (edge_walks_rotational cells (faces_of cells) (edges_of cells) H Hf e start A B p1 p2 E O L).
  Qed.
End Main.

(* ------------------------------------------------------------------ non-vacuity: concrete meshes *)
(* the unit cube cut into 5 tetrahedra, vertex orders of both signs *)
Definition cube5 : list (list nat) := [[0; 3; 5; 6]; [1; 0; 3; 5]; [2; 3; 0; 6]; [4; 0; 5; 6]; [7; 6; 5; 3]].
(* two tetrahedra glued along the edge {0,1} only: conforming, but the cells of that edge are not face-connected *)
Definition two_tets_on_an_edge : list (list nat) := [[0; 1; 2; 3]; [0; 1; 4; 5]].

Fixpoint nodupb (l : list nat) : bool := match l with [] => true | x :: t => negb (memb x t) && nodupb t end.
Lemma nodupb_NoDup l : nodupb l = true -> NoDup l.
Proof.
  induction l as [|x t IH]; simpl; intros E; [constructor|]. apply andb_true_iff in E. destruct E as [A B].
  constructor; [|now apply IH]. apply memb_false. now apply negb_true_iff.
Qed.
Definition tet_meshb (cells : list (list nat)) : bool := forallb (fun C => (length C =? 4) && nodupb C) cells.
Lemma tet_meshb_spec cells : tet_meshb cells = true -> tet_mesh cells.
Proof.
  unfold tet_meshb, tet_mesh. rewrite forallb_forall. intros E. apply Forall_forall. intros C HC.
  specialize (E C HC). apply andb_true_iff in E. destruct E as [A B]. split; [now apply Nat.eqb_eq|now apply nodupb_NoDup].
Qed.

Example cube5_is_a_conforming_tet_mesh : tet_mesh cube5 /\ conforming cube5.
Proof. split; [apply tet_meshb_spec|apply conformingb_spec]; vm_compute; reflexivity. Qed.
Example cube5_has_interior_and_border_faces :
  length (t_bf (tables cube5)) = 12 /\ length (interior_faces (faces_of cube5) (t_f2c (tables cube5))) = 4.
Proof. vm_compute. split; reflexivity. Qed.
Example cube5_edge_0_3_has_two_border_faces :
  length (filter (fun f => subsetb [0; 3] (face cube5 f)) (t_bf (tables cube5))) = 2.
Proof. vm_compute. reflexivity. Qed.
Example two_tets_is_a_conforming_tet_mesh : tet_mesh two_tets_on_an_edge /\ conforming two_tets_on_an_edge.
Proof. split; [apply tet_meshb_spec|apply conformingb_spec]; vm_compute; reflexivity. Qed.

(* ------------------------------------------------------------------ REFUTED: rotational sorting on every conforming mesh.
   Full statement that is false of the faithful model (and of the code):
     forall cells, tet_mesh cells -> conforming cells -> forall e < |edges|, forall start in edge_to_cell(e),
       sorted_edge ... e start = Ok _ .
   Witness: two tetrahedra sharing only an edge; for that edge every start cell makes the sort raise (KeyError). *)
Theorem edge_ring_nonmanifold_refuted :
  exists cells, tet_mesh cells /\ conforming cells /\
    exists e, e < length (edges_of cells) /\ nth e (t_e2c (tables cells)) [] <> [] /\
      forall start, In start (nth e (t_e2c (tables cells)) []) ->
        sorted_edge cells (faces_of cells) (edges_of cells) (t_f2c (tables cells))
                    (nth e (t_e2c (tables cells)) []) (nth e (t_e2f (tables cells)) []) e start = Exn.
Proof.
  exists two_tets_on_an_edge. split; [apply two_tets_is_a_conforming_tet_mesh|].
  split; [apply two_tets_is_a_conforming_tet_mesh|].
  exists 5. split; [vm_compute; lia|]. split; [vm_compute; discriminate|].
  assert (E : nth 5 (t_e2c (tables two_tets_on_an_edge)) [] = [0; 1]) by (vm_compute; reflexivity).
  rewrite E. intros start [<-|[<-|[]]]; vm_compute; reflexivity.
Qed.

(* on an edge whose cells are face-connected the same function succeeds and returns the ring *)
Example cube5_interior_edges_sort :
  forallb (fun e => match nth e (t_e2c (tables cube5)) [] with
                    | s :: _ => match sorted_edge cube5 (faces_of cube5) (edges_of cube5) (t_f2c (tables cube5))
                                                 (nth e (t_e2c (tables cube5)) []) (nth e (t_e2f (tables cube5)) []) e s with
                                | Ok (cs, fs) => (length fs =? S (length cs)) || (length fs =? length cs)
                                | _ => false
                                end
                    | [] => false
                    end) (seq 0 (length (edges_of cube5))) = true.
Proof. vm_compute. reflexivity. Qed.
