(* C03 - query-order independence at the level the lazy caches can break it: an accessor tests an attribute and
   fills it with a compute method (tables regenerated from the source, Gen.v).  For every sequence of accessor calls on a
   fresh object no tested attribute is missing (no AttributeError); the tables themselves are pure functions of the
   mesh in the model, so every answer is the pure answer. *)
From Coq Require Import String List Arith Bool ZArith Lia.
Import ListNotations.
Require Import MV.Lib.Base MV.C03.Gen MV.C03.Model.

Definition guards_initialised (init : list string) (guards : list (string * (string * string))) : bool :=
  forallb (fun g => str_mem (fst (snd g)) init) guards.

Lemma str_mem_In s l : str_mem s l = true <-> In s l.
Proof.
  unfold str_mem. rewrite existsb_exists. split.
  - intros [x [Hx E]]. apply String.eqb_eq in E. now subst.
  - intros H. exists s. split; [assumption|apply String.eqb_refl].
Qed.

Lemma assoc_In {B} s (l : list (string * B)) v : assoc s l = Some v -> In (s, v) l.
Proof.
  induction l as [|[k w] t IH]; simpl; [discriminate|].
  destruct (String.eqb s k) eqn:E.
  - intros H. inversion H; subst. apply String.eqb_eq in E. subst. now left.
  - intros H. right. now apply IH.
Qed.

Theorem cache_run_ok guards assigns init :
  guards_initialised init guards = true ->
  forall qs st, incl init st -> cache_run guards assigns st qs = true.
Proof.
  intros G qs. induction qs as [|q t IH]; intros st I; [reflexivity|].
  cbn [cache_run]. unfold cache_step. destruct (assoc q guards) as [[field compute]|] eqn:A.
  - apply assoc_In in A. unfold guards_initialised in G. rewrite forallb_forall in G.
    specialize (G _ A). cbn [fst snd] in G. apply str_mem_In in G.
    assert (M : str_mem field st = true) by (apply str_mem_In; now apply I).
    rewrite M. cbn [andb]. apply IH.
    destruct (assoc compute assigns); [|assumption]. intros x Hx. apply in_or_app. right. now apply I.
  - cbn [andb]. now apply IH.
Qed.

Lemma conn_guards_ok : guards_initialised conn_init_fields conn_guards = true.
Proof. vm_compute. reflexivity. Qed.
Lemma mesh_guards_ok : guards_initialised mesh_init_fields mesh_guards = true.
Proof. vm_compute. reflexivity. Qed.

(* the accessors the property speaks about all have their guard recorded (the table is not vacuous) *)
Lemma conn_guards_cover :
  forallb (fun a => match assoc a conn_guards with Some _ => true | None => false end)
          ["face_to_cells"; "cell_to_face"; "cell_to_cell"; "vertex_to_cell"; "edge_to_face"; "edge_to_cell";
           "face_id"; "edge_id"]%string = true.
Proof. vm_compute. reflexivity. Qed.
Lemma mesh_guards_cover :
  forallb (fun a => match assoc a mesh_guards with Some _ => true | None => false end)
          ["boundary_faces"; "interior_faces"; "boundary_edges"; "interior_edges"; "boundary_vertices";
           "interior_vertices"; "is_vertex_on_border"; "is_edge_on_border"]%string = true.
Proof. vm_compute. reflexivity. Qed.

Theorem no_attribute_error_any_order :
  (forall qs, cache_run conn_guards conn_assigns conn_init_fields qs = true)
  /\ (forall qs, cache_run mesh_guards mesh_assigns mesh_init_fields qs = true).
Proof.
  split; intros qs.
  - apply (cache_run_ok _ _ _ conn_guards_ok). apply incl_refl.
  - apply (cache_run_ok _ _ _ mesh_guards_ok). apply incl_refl.
Qed.

(* the model does distinguish: an accessor whose attribute __init__ forgot fails on a fresh object *)
Example cache_model_detects_missing_init :
  cache_run [("edge_to_face", ("_adjE2F", "_compute_edge_id"))]%string [] ["_adjE2C"]%string ["edge_to_face"]%string = false.
Proof. reflexivity. Qed.
