(* C03 - the orientation identity over the real numbers (all coordinates, not only lattice points):
   det(pA-pD, pB-pD, pC-pD) > 0  iff  ((B-A) x (C-A)) . (D-A) < 0. *)
From Coq Require Import Reals Lra.
Require Import MV.C03.GenR.
Open Scope R_scope.

Definition vecR := (R * R * R)%type.
Definition cross3_R (a b : vecR) : vecR :=
  let '(a0, a1, a2) := a in let '(b0, b1, b2) := b in
  (a1 * b2 - a2 * b1, a2 * b0 - a0 * b2, a0 * b1 - a1 * b0).
Definition dot3_R (a b : vecR) : R :=
  let '(a0, a1, a2) := a in let '(b0, b1, b2) := b in a0 * b0 + a1 * b1 + a2 * b2.
(* signed volume form: the right-hand normal of (a,b,c) against the direction towards d *)
Definition triple_R (a b c d : vecR) : R := dot3_R (cross3_R (vsub3_R b a) (vsub3_R c a)) (vsub3_R d a).
Definition outward_R (a b c d : vecR) : Prop := triple_R a b c d < 0.

Lemma det_is_minus_triple_R (a b c d : vecR) :
  det_3x3_R (vsub3_R a d) (vsub3_R b d) (vsub3_R c d) = - triple_R a b c d.
Proof.
  destruct a as [[a0 a1] a2], b as [[b0 b1] b2], c as [[c0 c1] c2], d as [[d0 d1] d2].
  cbv beta iota zeta delta [det_3x3_R vsub3_R triple_R dot3_R cross3_R]. ring.
Qed.

Lemma orient_test_R_iff_outward (a b c d : vecR) : orient_test_R a b c d <-> outward_R a b c d.
Proof. unfold orient_test_R, outward_R. rewrite det_is_minus_triple_R. lra. Qed.

Lemma triple_swap_R (a b c d : vecR) : triple_R a c b d = - triple_R a b c d.
Proof.
  destruct a as [[a0 a1] a2], b as [[b0 b1] b2], c as [[c0 c1] c2], d as [[d0 d1] d2].
  cbv beta iota zeta delta [vsub3_R triple_R dot3_R cross3_R]. ring.
Qed.

(* the two branches of the test: (A,B,C) is kept when the test holds, (A,C,B) is emitted otherwise;
   for a non-degenerate cell the emitted triangle is outward *)
Lemma orient_branches_outward_R (a b c d : vecR) :
  triple_R a b c d <> 0 ->
  (orient_test_R a b c d -> outward_R a b c d) /\ (~ orient_test_R a b c d -> outward_R a c b d).
Proof.
  intros ND. split.
  - apply orient_test_R_iff_outward.
  - intros N. rewrite orient_test_R_iff_outward in N. unfold outward_R in *. rewrite triple_swap_R. lra.
Qed.
