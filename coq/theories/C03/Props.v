(* C03 property theorems only: each closed by `exact <lemma>` with Print Assumptions beneath. *)
From Coq Require Import String List Arith Bool ZArith.
Require Import MV.Lib.Base MV.C03.Gen MV.C03.Model MV.C03.Proofs_Orient.

Theorem C03_orientation_test_is_outward_Z : forall a b c d : vec, orient_test_Z a b c d = outward_Z a b c d.
Proof. exact orient_test_iff_outward. Qed.
Print Assumptions C03_orientation_test_is_outward_Z.
