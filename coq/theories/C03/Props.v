(* C03 property theorems only: each closed by `exact <lemma>` with Print Assumptions beneath.
   Vocabulary (Proofs_Main.v): tet_mesh cells = every cell is 4 distinct vertices; faces_of / edges_of = the completed
   face / edge lists (mesh_data.py); tables cells = Run.build (the record the correspondence batches evaluate);
   face / edge / cell = the vertex list of an element; conforming = a triangle of a cell lies in at most two cells.
   Full / partial / refuted status is in each name and in the comment above it. *)
From Coq Require Import String List Arith Bool ZArith Reals Permutation Sorted.
Import ListNotations.
Require Import MV.Lib.Base MV.C03.Gen MV.C03.GenR MV.C03.Model MV.C03.Run MV.C03.Proofs_Simplex MV.C03.Proofs_Incidence
        MV.C03.Proofs_Incidence2 MV.C03.Proofs_Orient MV.C03.Proofs_OrientR MV.C03.Proofs_Maps MV.C03.Proofs_Ring
        MV.C03.Proofs_Cache MV.C03.Proofs_Cover MV.C03.Proofs_Closed MV.C03.Proofs_EdgeMap MV.C03.Proofs_Surface MV.C03.Proofs_Main.
Local Open Scope nat_scope.

(* FULL. Completion: every triangle of every cell is a face exactly once, every side of every face an edge exactly
   once, every face is stored in the convention order of a cell that has it. *)
Theorem C03_faces_and_edges_from_cells : forall cells, tet_mesh cells ->
  faces_wf cells (faces_of cells) /\ edges_wf (faces_of cells) (edges_of cells)
  /\ (forall F, In F (faces_of cells) -> exists C, In C cells /\ In F (tet_faces C)).
Proof. exact faces_edges_from_cells. Qed.
Print Assumptions C03_faces_and_edges_from_cells.

(* FULL. Building the incidence tables raises nothing (no face_id miss) on any tetrahedral cell list. *)
Theorem C03_incidence_tables_built_without_error : forall cells, tet_mesh cells -> t_ok (tables cells) = true.
Proof. exact tables_ok. Qed.
Print Assumptions C03_incidence_tables_built_without_error.

(* FULL. face_to_cells(f) = the cells containing all three vertices of f, in increasing order. *)
Theorem C03_incidence_face_to_cells : forall cells, tet_mesh cells -> forall f, f < length (faces_of cells) ->
  F2C (t_f2c (tables cells)) f = filter (fun c => subsetb (face cells f) (cell cells c)) (seq 0 (length cells)).
Proof. exact face_to_cells_is_brute_force. Qed.
Print Assumptions C03_incidence_face_to_cells.

(* FULL. cell_to_face(c) has 4 entries; the i-th is the face made of the vertices of c other than its i-th vertex. *)
Theorem C03_incidence_cell_to_face : forall cells, tet_mesh cells -> forall c, c < length cells ->
  exists l, C2F (t_c2f (tables cells)) c = l /\ length l = 4 /\
    forall i, i < 4 ->
      let f := nth i l 0 in
      f < length (faces_of cells) /\ Permutation (face cells f) (rm i (cell cells c))
      /\ incl (face cells f) (cell cells c) /\ ~ In (nth i (cell cells c) 0) (face cells f).
Proof. exact cell_to_face_is_opposite_faces. Qed.
Print Assumptions C03_incidence_cell_to_face.

(* FULL (conforming meshes). cell_to_cell(c) = for i = 0..3 in order, the other cell containing the facet opposite
   the i-th vertex, when there is one. *)
Theorem C03_incidence_cell_to_cell : forall cells, tet_mesh cells -> conforming cells ->
  exists t, t_c2c (tables cells) = Ok t /\
    forall c, c < length cells ->
      C2C t c = flat_map (fun i => filter (fun c2 => negb (c2 =? c) && subsetb (rm i (cell cells c)) (cell cells c2))
                                          (seq 0 (length cells))) (seq 0 4).
Proof. exact cell_to_cell_is_brute_force. Qed.
Print Assumptions C03_incidence_cell_to_cell.

(* FULL. vertex_to_cell(v) is, as a duplicate-free set, the cells having v. *)
Theorem C03_incidence_vertex_to_cell : forall cells v c,
  (In c (V2C cells v) <-> c < length cells /\ In v (cell cells c)) /\ NoDup (V2C cells v).
Proof. exact vertex_to_cell_is_brute_force. Qed.
Print Assumptions C03_incidence_vertex_to_cell.

(* FULL (unsorted tables). edge_to_face(e) = the faces containing both end points, in increasing order. *)
Theorem C03_incidence_edge_to_face : forall cells, tet_mesh cells -> forall e, e < length (edges_of cells) ->
  nth e (t_e2f (tables cells)) [] = filter (fun f => subsetb (edge cells e) (face cells f)) (seq 0 (length (faces_of cells))).
Proof. exact edge_to_face_is_brute_force. Qed.
Print Assumptions C03_incidence_edge_to_face.

(* FULL (unsorted tables). edge_to_cell(e) is, as a duplicate-free set, the cells containing both end points. *)
Theorem C03_incidence_edge_to_cell : forall cells, tet_mesh cells -> forall e c, e < length (edges_of cells) ->
  (In c (nth e (t_e2c (tables cells)) []) <-> c < length cells /\ incl (edge cells e) (cell cells c))
  /\ NoDup (nth e (t_e2c (tables cells)) []).
Proof. exact edge_to_cell_is_brute_force. Qed.
Print Assumptions C03_incidence_edge_to_cell.

(* FULL. Border faces = faces in exactly one cell, interior faces = faces in at least two; border vertices / edges =
   those of the border faces. *)
Theorem C03_border_classification : forall cells, tet_mesh cells ->
  let bf := t_bf (tables cells) in
  (forall f, In f bf <-> f < length (faces_of cells) /\ n_cells_of_face cells f = 1)
  /\ (forall f, In f (interior_faces (faces_of cells) (t_f2c (tables cells))) <->
                f < length (faces_of cells) /\ 2 <= n_cells_of_face cells f)
  /\ (forall nv v, In v (boundary_vertices nv (faces_of cells) bf) <->
                   v < nv /\ exists f, In f bf /\ In v (face cells f))
  /\ (forall e, In e (boundary_edges (faces_of cells) (edges_of cells) bf) <->
                e < length (edges_of cells) /\ exists f, In f bf /\ incl (edge cells e) (face cells f)).
Proof. exact border_classification. Qed.
Print Assumptions C03_border_classification.

(* FULL. boundary_X ++ interior_X is a permutation of all ids of X, for faces, vertices and edges. *)
Theorem C03_border_partitions_exact : forall cells nv,
  let bf := t_bf (tables cells) in
  Permutation (bf ++ interior_faces (faces_of cells) (t_f2c (tables cells))) (seq 0 (length (faces_of cells)))
  /\ Permutation (boundary_vertices nv (faces_of cells) bf ++ interior_vertices nv (faces_of cells) bf) (seq 0 nv)
  /\ Permutation (boundary_edges (faces_of cells) (edges_of cells) bf ++ interior_edges (faces_of cells) (edges_of cells) bf)
                 (seq 0 (length (edges_of cells))).
Proof. exact border_partitions. Qed.
Print Assumptions C03_border_partitions_exact.

(* FULL (conforming meshes). The boundary is closed: every pair of distinct vertices lies in an even number of border
   faces (hence every edge of either extracted surface, whose faces are the border faces renumbered injectively, has an
   even number of incident faces; that it is exactly two needs manifoldness of the boundary and is only tested). *)
Theorem C03_boundary_closed : forall cells, tet_mesh cells -> conforming cells -> forall E, edge_ok E ->
  Nat.even (length (filter (fun f => subsetb E (face cells f)) (t_bf (tables cells)))) = true.
Proof. exact boundary_closed. Qed.
Print Assumptions C03_boundary_closed.

(* FULL, all real coordinates. The orientation test of _extract_surface_boundary (with geometry.det_3x3, both
   regenerated from the source) holds iff the right-hand normal of (A,B,C) points away from D. *)
Theorem C03_orientation_test_iff_outward_R : forall a b c d : vecR, orient_test_R a b c d <-> outward_R a b c d.
Proof. exact orient_test_R_iff_outward. Qed.
Print Assumptions C03_orientation_test_iff_outward_R.

(* FULL, all real coordinates. Both branches of the test emit an outward triangle for a non-degenerate cell. *)
Theorem C03_orientation_branches_outward_R : forall a b c d : vecR, (triple_R a b c d <> 0)%R ->
  (orient_test_R a b c d -> outward_R a b c d) /\ (~ orient_test_R a b c d -> outward_R a c b d).
Proof. exact orient_branches_outward_R. Qed.
Print Assumptions C03_orientation_branches_outward_R.

(* FULL (lattice coordinates, the executable model). A face emitted by _BoundaryConnectivity is the border face's three
   vertices, renumbered by m2b, in an order that is outward w.r.t. the fourth vertex of its cell. *)
Theorem C03_boundary_connectivity_faces_outward : forall cells faces pos f2c vs iF T,
  bc_face cells faces pos f2c vs iF = Ok T ->
  exists a b c d iC p q r,
    nth iF faces [] = [a; b; c] /\ hd_error (F2C f2c iF) = Some iC
    /\ hd_error (others (nth iC cells []) [a; b; c]) = Some d
    /\ map (b2m vs) T = [Some p; Some q; Some r]
    /\ Permutation [p; q; r] [a; b; c]
    /\ (det_3x3 (vsub3 (pos a) (pos d)) (vsub3 (pos b) (pos d)) (vsub3 (pos c) (pos d)) <> 0%Z ->
        outward_Z (pos p) (pos q) (pos r) (pos d) = true).
Proof. exact bc_face_outward. Qed.
Print Assumptions C03_boundary_connectivity_faces_outward.

(* FULL. Standalone extractor: a stored face is the convention-order face of a cell containing it (its only cell when it
   is a border face), opposite that cell's i-th vertex, and is outward whenever that cell is positive in mouette's own
   determinant det(pA-pD,pB-pD,pC-pD) of the cell (A,B,C,D). *)
Theorem C03_standalone_faces_outward_when_positive : forall cells, tet_mesh cells -> forall pos f,
  f < length (faces_of cells) ->
  exists C i, In C cells /\ i < 4 /\ face cells f = nth i (tet_faces C) [] /\ incl (face cells f) C
              /\ ~ In (nth i C 0) (face cells f)
              /\ (cell_positive pos C -> face_outward pos (face cells f) (nth i C 0)).
Proof. exact standalone_faces_outward. Qed.
Print Assumptions C03_standalone_faces_outward_when_positive.

(* FULL. Vertex index maps: for every duplicate-free enumeration of the border vertices m2b and b2m are mutually
   inverse; the same holds of the face maps (an enumeration of boundary_faces) read as dicts. *)
Theorem C03_vertex_and_face_maps_inverse : forall l : list nat, NoDup l ->
  (forall v i, m2b l v = Some i <-> b2m l i = Some v)
  /\ (forall v i, dict_get (combine l (seq 0 (length l))) v = Some i <-> dict_get (combine (seq 0 (length l)) l) i = Some v)
  /\ (forall v i, dict_get (combine (seq 0 (length l)) l) i = Some v <-> b2m l i = Some v).
Proof.
  exact (fun l ND => conj (fun v i => vertex_maps_inverse l v i ND)
                          (conj (fun v i => enumeration_maps_inverse l v i ND) (fun v i => dict_get_enum l i v ND))).
Qed.
Print Assumptions C03_vertex_and_face_maps_inverse.

(* FULL. _BoundaryConnectivity on any tetrahedral cell list and any duplicate-free enumeration vs of the border vertices:
   the surface faces and the edge indirection are built without exception; m2b_edge is defined exactly on the border
   edges, b2m_edge on EVERY edge of the surface, and the two dicts are mutually inverse. *)
Theorem C03_edge_maps_total_and_inverse : forall cells, tet_mesh cells -> forall pos vs,
  let bf := t_bf (tables cells) in
  NoDup vs -> (forall f v, In f bf -> In v (face cells f) -> In v vs) ->
  exists bfs m,
    bc_faces cells (faces_of cells) pos (t_f2c (tables cells)) vs bf = Ok bfs
    /\ bc_edge_map (edges_of cells) (complete_edges [] bfs) vs
                   (boundary_edges (faces_of cells) (edges_of cells) bf) = Ok m
    /\ map fst m = boundary_edges (faces_of cells) (edges_of cells) bf
    /\ (forall b, b < length (complete_edges [] bfs) -> exists e, In (e, b) m)
    /\ (forall e b, dict_get m e = Some b <-> dict_get (map swap m) b = Some e).
Proof. exact boundary_connectivity_maps. Qed.
Print Assumptions C03_edge_maps_total_and_inverse.

(* FULL (conforming meshes). Closedness of BOTH extracted surfaces (their faces renumber the border faces through the
   injective map m2b): every pair of distinct surface vertices lies in an even number of surface faces; and under the
   stated guard `manifold_boundary` (a vertex pair lies in at most two border faces) every edge of the surface has
   exactly two incident faces. *)
Theorem C03_extracted_surfaces_closed : forall cells, tet_mesh cells -> forall pos vs sfaces,
  let bf := t_bf (tables cells) in
  conforming cells -> NoDup vs ->
  (bc_faces cells (faces_of cells) pos (t_f2c (tables cells)) vs bf = Ok sfaces
   \/ ex_faces (faces_of cells) vs bf = Ok sfaces) ->
  (forall a1 a2 u v, b2m vs a1 = Some u -> b2m vs a2 = Some v -> a1 <> a2 ->
     Nat.even (length (filter (fun T => subsetb [a1; a2] T) sfaces)) = true)
  /\ (manifold_boundary cells (faces_of cells) ->
      forall T a1 a2, In T sfaces -> In a1 T -> In a2 T -> a1 <> a2 ->
        length (filter (fun T' => subsetb [a1; a2] T') sfaces) = 2).
Proof. exact extracted_surfaces_closed. Qed.
Print Assumptions C03_extracted_surfaces_closed.

(* FULL (cache discipline). Whatever the order of accessor calls on a fresh object, no accessor tests an attribute
   that does not exist; guard tables regenerated from the source. Tables are pure functions of the mesh in the model. *)
Theorem C03_query_order_no_attribute_error :
  (forall qs, cache_run conn_guards conn_assigns conn_init_fields qs = true)
  /\ (forall qs, cache_run mesh_guards mesh_assigns mesh_init_fields qs = true).
Proof. exact no_attribute_error_any_order. Qed.
Print Assumptions C03_query_order_no_attribute_error.

(* FULL for the cells, PARTIAL for the faces. Rotational order around an edge (_sort_edge_neighborhoods after the repair
   e464500), for EVERY start cell the set order may pick: the sort never raises and never runs out of fuel; it returns
   the cells / faces of the edge (permutations of the unsorted tables); when it reports "sorted" the cell list is
   duplicate-free, contains the start, and consecutive cells share a face containing the edge; and it does report
   "sorted" on a conforming mesh whenever the cells around the edge are connected through faces containing the edge.
   Missing (tested only): the sorted FACE list is in rotational order too (it is proved to be the faces of the edge
   sorted by the walk keys). *)
Theorem C03_edge_ring : forall cells, tet_mesh cells -> forall e start,
  e < length (edges_of cells) -> In start (nth e (t_e2c (tables cells)) []) ->
  exists A B b cs fs,
    edge cells e = [A; B] /\
    sorted_edge cells (faces_of cells) (edges_of cells) (t_f2c (tables cells))
                (nth e (t_e2c (tables cells)) []) (nth e (t_e2f (tables cells)) []) e start = Ok (b, cs, fs)
    /\ Permutation cs (nth e (t_e2c (tables cells)) []) /\ Permutation fs (nth e (t_e2f (tables cells)) [])
    /\ (b = true -> NoDup cs /\ Sorted (adjacent_around cells (faces_of cells) A B) cs /\ In start cs)
    /\ (conforming cells -> link_connected cells (faces_of cells) A B (nth e (t_e2c (tables cells)) []) -> b = true).
Proof. exact edge_ring. Qed.
Print Assumptions C03_edge_ring.
