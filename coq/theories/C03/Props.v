(* C03 property theorems only: each closed by `exact <lemma>` with Print Assumptions beneath.
   Vocabulary (Proofs_Main.v): tet_mesh cells = every cell is 4 distinct vertices; faces_of / edges_of = the completed
   face / edge lists (mesh_data.py); tables M = Run.build (the record the correspondence batches evaluate);
   face / edge / cell = the vertex list of an element; conforming = a triangle of a cell lies in at most two cells.
   Full / partial / refuted status is in each name and in the comment above it. *)
From Coq Require Import String List Arith Bool ZArith Reals Permutation Sorted.
Import ListNotations.
Require Import MV.Lib.Base MV.C03.Gen MV.C03.GenR MV.C03.Model MV.C03.Run MV.C03.Proofs_Simplex MV.C03.Proofs_Incidence
        MV.C03.Proofs_Incidence2 MV.C03.Proofs_Orient MV.C03.Proofs_OrientR MV.C03.Proofs_Maps MV.C03.Proofs_Ring
        MV.C03.Proofs_Cache MV.C03.Proofs_FaceRing MV.C03.Proofs_Cover MV.C03.Proofs_Closed MV.C03.Proofs_EdgeMap MV.C03.Proofs_Surface MV.C03.Proofs_Main.
Local Open Scope nat_scope.

(* FULL. Completion: every triangle of every cell is a face exactly once, every side of every face an edge exactly
   once; a face is a declared one or is stored in the convention order of a cell that has it; every face lies in a cell. *)
Theorem C03_faces_and_edges_from_cells : forall M, tet_mesh M ->
  faces_wf (m_cells M) (faces_of M) /\ edges_wf (faces_of M) (edges_of M)
  /\ (forall F, In F (faces_of M) -> In F (m_faces0 M) \/ exists C, In C (m_cells M) /\ In F (tet_faces C))
  /\ (forall F, In F (faces_of M) -> exists C, In C (m_cells M) /\ incl F C).
Proof. exact faces_edges_from_cells. Qed.
Print Assumptions C03_faces_and_edges_from_cells.

(* FULL. Building the incidence tables raises nothing (no face_id miss) on any tetrahedral cell list. *)
Theorem C03_incidence_tables_built_without_error : forall M, tet_mesh M -> t_ok (tables M) = true.
Proof. exact tables_ok. Qed.
Print Assumptions C03_incidence_tables_built_without_error.

(* FULL. face_to_cells(f) = the cells containing all three vertices of f, in increasing order. *)
Theorem C03_incidence_face_to_cells : forall M, tet_mesh M -> forall f, f < length (faces_of M) ->
  F2C (t_f2c (tables M)) f = filter (fun c => subsetb (face M f) (cell M c)) (seq 0 (length (m_cells M))).
Proof. exact face_to_cells_is_brute_force. Qed.
Print Assumptions C03_incidence_face_to_cells.

(* FULL. cell_to_face(c) has 4 entries; the i-th is the face made of the vertices of c other than its i-th vertex. *)
Theorem C03_incidence_cell_to_face : forall M, tet_mesh M -> forall c, c < length (m_cells M) ->
  exists l, C2F (t_c2f (tables M)) c = l /\ length l = 4 /\
    forall i, i < 4 ->
      let f := nth i l 0 in
      f < length (faces_of M) /\ Permutation (face M f) (rm i (cell M c))
      /\ incl (face M f) (cell M c) /\ ~ In (nth i (cell M c) 0) (face M f).
Proof. exact cell_to_face_is_opposite_faces. Qed.
Print Assumptions C03_incidence_cell_to_face.

(* FULL (conforming meshes). cell_to_cell(c) = for i = 0..3 in order, the other cell containing the facet opposite
   the i-th vertex, when there is one. *)
Theorem C03_incidence_cell_to_cell : forall M, tet_mesh M -> conforming (m_cells M) ->
  exists t, t_c2c (tables M) = Ok t /\
    forall c, c < length (m_cells M) ->
      C2C t c = flat_map (fun i => filter (fun c2 => negb (c2 =? c) && subsetb (rm i (cell M c)) (cell M c2))
                                          (seq 0 (length (m_cells M)))) (seq 0 4).
Proof. exact cell_to_cell_is_brute_force. Qed.
Print Assumptions C03_incidence_cell_to_cell.

(* FULL. vertex_to_cell(v): the set collected by the double loop of _compute_connectivity is, duplicate-free, the cells having v. *)
Theorem C03_incidence_vertex_to_cell : forall M v c,
  (In c (V2C (m_cells M) v) <-> c < length (m_cells M) /\ In v (cell M c)) /\ NoDup (V2C (m_cells M) v).
Proof. exact vertex_to_cell_is_brute_force. Qed.
Print Assumptions C03_incidence_vertex_to_cell.

(* FULL (unsorted tables). edge_to_face(e) = the faces containing both end points, in increasing order. *)
Theorem C03_incidence_edge_to_face : forall M, tet_mesh M -> forall e, e < length (edges_of M) ->
  nth e (t_e2f (tables M)) [] = filter (fun f => subsetb (edge M e) (face M f)) (seq 0 (length (faces_of M))).
Proof. exact edge_to_face_is_brute_force. Qed.
Print Assumptions C03_incidence_edge_to_face.

(* FULL (unsorted tables). edge_to_cell(e) is, as a duplicate-free set, the cells containing both end points. *)
Theorem C03_incidence_edge_to_cell : forall M, tet_mesh M -> forall e c, e < length (edges_of M) ->
  (In c (nth e (t_e2c (tables M)) []) <-> c < length (m_cells M) /\ incl (edge M e) (cell M c))
  /\ NoDup (nth e (t_e2c (tables M)) []).
Proof. exact edge_to_cell_is_brute_force. Qed.
Print Assumptions C03_incidence_edge_to_cell.

(* FULL. Border faces = faces in exactly one cell, interior faces = faces in at least two; border vertices / edges =
   those of the border faces. *)
Theorem C03_border_classification : forall M, tet_mesh M ->
  let bf := t_bf (tables M) in
  (forall f, In f bf <-> f < length (faces_of M) /\ n_cells_of_face M f = 1)
  /\ (forall f, In f (interior_faces (faces_of M) (t_f2c (tables M))) <->
                f < length (faces_of M) /\ 2 <= n_cells_of_face M f)
  /\ (forall nv v, In v (boundary_vertices nv (faces_of M) bf) <->
                   v < nv /\ exists f, In f bf /\ In v (face M f))
  /\ (forall e, In e (boundary_edges (faces_of M) (edges_of M) bf) <->
                e < length (edges_of M) /\ exists f, In f bf /\ incl (edge M e) (face M f)).
Proof. exact border_classification. Qed.
Print Assumptions C03_border_classification.

(* FULL but structural (both lists are the two halves of one filter in the model; that the code's loops are such filters is
   what the correspondence ties): boundary_X ++ interior_X is a permutation of all ids of X, for faces, vertices, edges. *)
Theorem C03_border_partitions_exact : forall M nv,
  let bf := t_bf (tables M) in
  Permutation (bf ++ interior_faces (faces_of M) (t_f2c (tables M))) (seq 0 (length (faces_of M)))
  /\ Permutation (boundary_vertices nv (faces_of M) bf ++ interior_vertices nv (faces_of M) bf) (seq 0 nv)
  /\ Permutation (boundary_edges (faces_of M) (edges_of M) bf ++ interior_edges (faces_of M) (edges_of M) bf)
                 (seq 0 (length (edges_of M))).
Proof. exact border_partitions. Qed.
Print Assumptions C03_border_partitions_exact.

(* FULL (conforming meshes). The boundary is closed: every pair of distinct vertices lies in an even number of border
   faces (hence every edge of either extracted surface, whose faces are the border faces renumbered injectively, has an
   even number of incident faces; that it is exactly two needs manifoldness of the boundary and is only tested). *)
Theorem C03_boundary_closed : forall M, tet_mesh M -> conforming (m_cells M) -> forall E, edge_ok E ->
  Nat.even (length (filter (fun f => subsetb E (face M f)) (t_bf (tables M)))) = true.
Proof. exact boundary_closed. Qed.
Print Assumptions C03_boundary_closed.

(* FULL, all real coordinates. The orientation test of _extract_surface_boundary (with geometry.det_3x3, both
   regenerated from the source) holds iff the right-hand normal of (A,B,C) points away from D. *)
Theorem C03_orientation_test_iff_outward_R : forall a b c d : vecR, orient_test_R a b c d <-> outward_R a b c d.
Proof. exact orient_test_R_iff_outward. Qed.
Print Assumptions C03_orientation_test_iff_outward_R.

(* FULL, all real coordinates. Both branches of the test emit an outward triangle for a non-degenerate cell. *)
Theorem C03_orientation_branches_outward_R : forall a b c d : vecR, (triple_R a b c d <> 0)%R ->
  (orient_test_R a b c d -> outward_R a b c d) /\ (~ orient_test_R a b c d -> outward_R a c b d).
Proof. exact orient_branches_outward_R. Qed.
Print Assumptions C03_orientation_branches_outward_R.

(* FULL (lattice coordinates, the executable model). A face emitted by _BoundaryConnectivity is the border face's three
   vertices, renumbered by m2b, in an order that is outward w.r.t. the fourth vertex of its cell. *)
Theorem C03_boundary_connectivity_faces_outward : forall cells faces pos f2c vs iF T,
  bc_face cells faces pos f2c vs iF = Ok T ->
  exists a b c d iC p q r,
    nth iF faces [] = [a; b; c] /\ hd_error (F2C f2c iF) = Some iC
    /\ hd_error (others (nth iC cells []) [a; b; c]) = Some d
    /\ map (b2m vs) T = [Some p; Some q; Some r]
    /\ Permutation [p; q; r] [a; b; c]
    /\ (det_3x3 (vsub3 (pos a) (pos d)) (vsub3 (pos b) (pos d)) (vsub3 (pos c) (pos d)) <> 0%Z ->
        outward_Z (pos p) (pos q) (pos r) (pos d) = true).
Proof. exact bc_face_outward. Qed.
Print Assumptions C03_boundary_connectivity_faces_outward.

(* FULL. Standalone extractor extract_boundary_of_volume (after the repair 832f457; its face expression, guard, flip test
   and flipped tuple are regenerated from border.py): the face it emits for a border face is that face's three vertices
   renumbered by m2b in an order that is outward w.r.t. the fourth vertex of its cell - whatever the orientation of the
   cell and whatever the order a declared face was given in. *)
Theorem C03_standalone_faces_outward : forall M, tet_mesh M -> forall pos vs f T,
  In f (t_bf (tables M)) -> ex_face (m_cells M) (faces_of M) pos (t_f2c (tables M)) vs f = Ok T ->
  exists a b c d iC p q r,
    face M f = [a; b; c] /\ hd_error (F2C (t_f2c (tables M)) f) = Some iC
    /\ hd_error (others (cell M iC) [a; b; c]) = Some d
    /\ map (b2m vs) T = [Some p; Some q; Some r]
    /\ Permutation [p; q; r] [a; b; c]
    /\ (det_3x3 (vsub3 (pos a) (pos d)) (vsub3 (pos b) (pos d)) (vsub3 (pos c) (pos d)) <> 0%Z ->
        outward_Z (pos p) (pos q) (pos r) (pos d) = true).
Proof. exact standalone_faces_outward. Qed.
Print Assumptions C03_standalone_faces_outward.

(* FULL. The two extractors emit the same oriented triangle for every border face (they disagreed before 832f457: for a
   right-handed cell det(p1-p0,p2-p0,p3-p0) > 0 the stored convention order is inward, Proofs_Orient.
   convention_faces_inward_if_right_handed). *)
Theorem C03_extractors_agree : forall M, tet_mesh M -> forall pos vs f,
  In f (t_bf (tables M)) ->
  ex_face (m_cells M) (faces_of M) pos (t_f2c (tables M)) vs f = bc_face (m_cells M) (faces_of M) pos (t_f2c (tables M)) vs f.
Proof. exact extractors_emit_the_same_faces. Qed.
Print Assumptions C03_extractors_agree.

(* FULL. The vertex and face index dicts as the code writes them (entries regenerated from volume.py / border.py): for
   every duplicate-free enumeration l, m2b sends the i-th enumerated element to i and b2m sends i back - mutually
   inverse, m2b defined exactly on the enumerated elements, b2m exactly on 0..|l|-1. *)
Theorem C03_vertex_and_face_dicts_inverse : forall l : list nat, NoDup l -> forall x i,
  (dict_get (dict_enum bc_m2b_vertex_entry l) x = Some i <-> nth_error l i = Some x)
  /\ (dict_get (dict_enum bc_b2m_vertex_entry l) i = Some x <-> nth_error l i = Some x)
  /\ (dict_get (dict_enum bc_m2b_face_entry l) x = Some i <-> nth_error l i = Some x)
  /\ (dict_get (dict_enum bc_b2m_face_entry l) i = Some x <-> nth_error l i = Some x)
  /\ (dict_get (dict_enum ex_m2b_entry l) x = Some i <-> nth_error l i = Some x)
  /\ (dict_get (dict_enum ex_b2m_entry l) i = Some x <-> nth_error l i = Some x).
Proof. exact written_dicts. Qed.
Print Assumptions C03_vertex_and_face_dicts_inverse.

(* FULL. _BoundaryConnectivity on any tetrahedral cell list and any duplicate-free enumeration vs of the border vertices:
   the surface faces and the edge indirection are built without exception; m2b_edge is defined exactly on the border
   edges, b2m_edge on EVERY edge of the surface, and the two dicts are mutually inverse. *)
Theorem C03_edge_maps_total_and_inverse : forall M, tet_mesh M -> forall pos vs,
  let bf := t_bf (tables M) in
  NoDup vs -> (forall f v, In f bf -> In v (face M f) -> In v vs) ->
  exists bfs m,
    bc_faces (m_cells M) (faces_of M) pos (t_f2c (tables M)) vs bf = Ok bfs
    /\ bc_edge_map (edges_of M) (complete_edges [] bfs) vs
                   (boundary_edges (faces_of M) (edges_of M) bf) = Ok m
    /\ map fst m = boundary_edges (faces_of M) (edges_of M) bf
    /\ (forall b, b < length (complete_edges [] bfs) -> exists e, In (e, b) m)
    /\ (forall e b, dict_get m e = Some b <-> dict_get (map swap m) b = Some e).
Proof. exact boundary_connectivity_maps. Qed.
Print Assumptions C03_edge_maps_total_and_inverse.

(* FULL (conforming meshes). Closedness of BOTH extracted surfaces (their faces renumber the border faces through the
   injective map m2b): every pair of distinct surface vertices lies in an even number of surface faces; and under the
   stated guard `manifold_boundary` (a vertex pair lies in at most two border faces) every edge of the surface has
   exactly two incident faces. *)
Theorem C03_extracted_surfaces_closed : forall M, tet_mesh M -> forall pos vs sfaces,
  let bf := t_bf (tables M) in
  conforming (m_cells M) -> NoDup vs ->
  (bc_faces (m_cells M) (faces_of M) pos (t_f2c (tables M)) vs bf = Ok sfaces
   \/ ex_faces (m_cells M) (faces_of M) pos (t_f2c (tables M)) vs bf = Ok sfaces) ->
  (forall a1 a2 u v, b2m vs a1 = Some u -> b2m vs a2 = Some v -> a1 <> a2 ->
     Nat.even (length (filter (fun T => subsetb [a1; a2] T) sfaces)) = true)
  /\ (manifold_boundary (m_cells M) (faces_of M) ->
      forall T a1 a2, In T sfaces -> In a1 T -> In a2 T -> a1 <> a2 ->
        length (filter (fun T' => subsetb [a1; a2] T') sfaces) = 2).
Proof. exact extracted_surfaces_closed. Qed.
Print Assumptions C03_extracted_surfaces_closed.

(* FULL (cache discipline). Whatever the order of accessor calls on a fresh object, no accessor tests an attribute
   that does not exist; guard tables regenerated from the source. Tables are pure functions of the mesh in the model. *)
Theorem C03_query_order_no_attribute_error :
  (forall qs, cache_run conn_guards conn_assigns conn_init_fields qs = true)
  /\ (forall qs, cache_run mesh_guards mesh_assigns mesh_init_fields qs = true).
Proof. exact no_attribute_error_any_order. Qed.
Print Assumptions C03_query_order_no_attribute_error.

(* FULL. Rotational order around an edge (_sort_edge_neighborhoods after the repair e464500), for EVERY start cell the
   set order may pick: the sort never raises and never runs out of fuel; it returns the cells / faces of the edge
   (permutations of the unsorted tables); when it reports "sorted", the cell list is duplicate-free, contains the start
   and consecutive cells share a face containing the edge, AND the face list is duplicate-free with consecutive faces
   bounding a common cell; and it does report "sorted" on a conforming mesh whenever the cells around the edge are
   connected through faces containing the edge.  (The mutual offset of the two lists is not part of the property.) *)
Theorem C03_edge_ring : forall M, tet_mesh M -> forall e start,
  e < length (edges_of M) -> In start (nth e (t_e2c (tables M)) []) ->
  exists A B b cs fs,
    edge M e = [A; B] /\
    sorted_edge (m_cells M) (faces_of M) (edges_of M) (t_f2c (tables M))
                (nth e (t_e2c (tables M)) []) (nth e (t_e2f (tables M)) []) e start = Ok (b, cs, fs)
    /\ Permutation cs (nth e (t_e2c (tables M)) []) /\ Permutation fs (nth e (t_e2f (tables M)) [])
    /\ (b = true -> NoDup cs /\ Sorted (adjacent_around (m_cells M) (faces_of M) A B) cs /\ In start cs
                    /\ NoDup fs /\ Sorted (face_adj (m_cells M) (faces_of M)) fs)
    /\ (conforming (m_cells M) -> link_connected (m_cells M) (faces_of M) A B (nth e (t_e2c (tables M)) []) -> b = true).
Proof. exact edge_ring. Qed.
Print Assumptions C03_edge_ring.
