(* C03 - cell_to_cell, edge_to_face, edge_to_cell equal the brute-force incidences. *)
From Coq Require Import String List Arith Bool ZArith Lia Permutation.
Import ListNotations.
Require Import MV.Lib.Base MV.C03.Gen MV.C03.Model MV.C03.Proofs_Base MV.C03.Proofs_Simplex
        MV.C03.Proofs_Incidence MV.C03.Proofs_Complete.

(* the cells containing every vertex of F *)
Definition cells_with (cells : list (list nat)) (F : list nat) : list nat :=
  filter (fun c => subsetb F (nth c cells [])) (seq 0 (length cells)).

(* conforming: a triangle of a cell lies in at most two cells *)
Definition conforming (cells : list (list nat)) : Prop :=
  forall c i, c < length cells -> i < 4 -> length (cells_with cells (rm i (nth c cells []))) <= 2.
Definition conformingb (cells : list (list nat)) : bool :=
  forallb (fun c => forallb (fun i => length (cells_with cells (rm i (nth c cells []))) <=? 2) (seq 0 4))
          (seq 0 (length cells)).

Lemma subsetb_perm a a' b : Permutation a a' -> subsetb a b = subsetb a' b.
Proof.
  intros P. apply bool_eq_iff. rewrite !subsetb_incl. split; intros H x Hx; apply H.
  - now apply (Permutation_in _ (Permutation_sym P)).
  - now apply (Permutation_in _ P).
Qed.

Lemma existsb_map {A B} (f : B -> bool) (g : A -> B) l : existsb f (map g l) = existsb (fun x => f (g x)) l.
Proof. induction l as [|x t IH]; simpl; [reflexivity|]. now rewrite IH. Qed.

Lemma filter_filter {A} (f g : A -> bool) l : filter f (filter g l) = filter (fun x => f x && g x) l.
Proof.
  induction l as [|x t IH]; simpl; [reflexivity|].
  destruct (g x); simpl; rewrite ?andb_true_r, ?andb_false_r; [destruct (f x)|]; now rewrite IH.
Qed.

Lemma filter_length_split {A} (f : A -> bool) l :
  length (filter f l) + length (filter (fun x => negb (f x)) l) = length l.
Proof. induction l as [|x t IH]; simpl; [reflexivity|]. destruct (f x); simpl; lia. Qed.

(* ------------------------------------------------------------------ last_other *)
Definition opt_list (o : option nat) : list nat := match o with Some c => [c] | None => [] end.

Lemma last_other_gen iC l acc :
  fold_left (fun a c => if c =? iC then a else Some c) l acc
  = fold_left (fun _ c => Some c) (filter (fun c => negb (c =? iC)) l) acc.
Proof.
  revert acc. induction l as [|x t IH]; simpl; intros acc; [reflexivity|].
  destruct (x =? iC); simpl; apply IH.
Qed.

Lemma last_other_short iC l :
  length (filter (fun c => negb (c =? iC)) l) <= 1 ->
  opt_list (last_other iC l) = filter (fun c => negb (c =? iC)) l.
Proof.
  unfold last_other. rewrite last_other_gen.
  destruct (filter (fun c => negb (c =? iC)) l) as [|a [|b t]]; simpl; intros H; try reflexivity; lia.
Qed.

Lemma fold_right_ok {A B} (f : A -> res B) (g : A -> B) l :
  (forall x, In x l -> f x = Ok (g x)) ->
  fold_right (fun x acc => match acc, f x with Ok r, Ok y => Ok (y :: r) | _, _ => Exn end) (Ok []) l
  = Ok (map g l).
Proof.
  induction l as [|x t IH]; simpl; intros H; [reflexivity|].
  rewrite IH by (intros y Hy; apply H; now right). now rewrite (H x) by now left.
Qed.

Section CellCell.
  Variables (cells faces : list (list nat)).
  Hypothesis Hcells : Forall cell_ok cells.
  Hypothesis Hfaces : faces_wf cells faces.
  Hypothesis Hconf : conforming cells.

  Let f2c := f2c_tab faces (c2f_tab cells faces).
  Let n := length cells.

  Lemma F2C_is_cells_with f : f < length faces -> F2C f2c f = cells_with cells (nth f faces []).
  Proof.
    intros H. unfold f2c. rewrite F2C_tab by assumption. now apply face_to_cells_correct.
  Qed.

  (* one entry of the adjacency row *)
  Lemma adj_entry iC i R :
    iC < n -> i < 4 -> Permutation R (rm i (nth iC cells [])) ->
    exists f, face_id faces R = Some f /\
              last_other iC (F2C f2c f) = last_other iC (cells_with cells (rm i (nth iC cells []))).
  Proof.
    intros HiC Hi P. set (C := nth iC cells []) in *.
    assert (HC : In C cells) by (apply nth_In; assumption).
    destruct (face_id_facet_some cells faces Hfaces C i HC Hi) as [f [E L]].
    exists f. split.
    - unfold face_id in *. rewrite (key_of_perm _ _ P). rewrite cell_adj_face_rm in E. exact E.
    - rewrite F2C_is_cells_with by assumption. unfold cells_with.
      apply (face_id_facet cells faces Hfaces) in E; [|assumption].
      f_equal. apply filter_ext_in'. intros c _. symmetry. now apply subsetb_perm.
  Qed.

  Definition c2c_spec_row (iC : nat) : list (option nat) :=
    map (fun i => last_other iC (cells_with cells (rm i (nth iC cells [])))) (seq 0 4).

  Lemma c2c_row_correct iC : iC < n -> c2c_row cells faces f2c iC = Ok (c2c_spec_row iC).
  Proof.
    intros H. unfold c2c_row, c2c_spec_row.
    pose proof (cell_ok_nth cells Hcells iC H) as OK.
    destruct (cell_ok_shape _ OK) as [v0 [v1 [v2 [v3 EC]]]].
    rewrite EC. cbn [adj_faces]. rewrite <- EC.
    destruct (adj_entry iC 0 (nth 0 (tet_faces_adjacent v0 v1 v2 v3) []) H) as [f0 [E0 L0]];
      [lia | rewrite EC; apply tet_row_perm_adjacent; lia|].
    destruct (adj_entry iC 1 (nth 1 (tet_faces_adjacent v0 v1 v2 v3) []) H) as [f1 [E1 L1]];
      [lia | rewrite EC; apply tet_row_perm_adjacent; lia|].
    destruct (adj_entry iC 2 (nth 2 (tet_faces_adjacent v0 v1 v2 v3) []) H) as [f2 [E2 L2]];
      [lia | rewrite EC; apply tet_row_perm_adjacent; lia|].
    destruct (adj_entry iC 3 (nth 3 (tet_faces_adjacent v0 v1 v2 v3) []) H) as [f3 [E3 L3]];
      [lia | rewrite EC; apply tet_row_perm_adjacent; lia|].
    cbn [nth tet_faces_adjacent] in E0, E1, E2, E3.
    cbn [tet_faces_adjacent fold_right]. rewrite E0, E1, E2, E3.
    cbn [seq map]. now rewrite L0, L1, L2, L3.
  Qed.

  Theorem c2c_tab_correct : c2c_tab cells faces f2c = Ok (map c2c_spec_row (seq 0 n)).
  Proof.
    unfold c2c_tab. fold n.
    apply (fold_right_ok (c2c_row cells faces f2c) c2c_spec_row).
    intros iC H. apply in_seq in H. apply c2c_row_correct. lia.
  Qed.

  Lemma cells_with_facet_short iC i :
    iC < n -> i < 4 -> length (filter (fun c => negb (c =? iC)) (cells_with cells (rm i (nth iC cells [])))) <= 1.
  Proof.
    intros H Hi. set (F := rm i (nth iC cells [])).
    pose proof (Hconf iC i H Hi) as L. fold F in L.
    pose proof (filter_length_split (fun c => c =? iC) (cells_with cells F)) as S.
    assert (I : In iC (filter (fun c => c =? iC) (cells_with cells F))).
    { apply filter_In. split; [|apply Nat.eqb_refl]. unfold cells_with. apply filter_In. split.
      - apply in_seq. fold n. lia.
      - apply subsetb_incl. apply rm_incl. }
    destruct (filter (fun c => c =? iC) (cells_with cells F)); [contradiction|]. simpl in S. lia.
  Qed.

  (* cell_to_cell = for i = 0..3, the other cells containing the facet opposite the i-th vertex *)
  Theorem cell_to_cell_correct iC :
    iC < n ->
    C2C (map c2c_spec_row (seq 0 n)) iC
    = flat_map (fun i => filter (fun c => negb (c =? iC) && subsetb (rm i (nth iC cells [])) (nth c cells []))
                                (seq 0 n)) (seq 0 4).
  Proof.
    intros H. unfold C2C. rewrite (nth_map_in _ _ _ 0) by now rewrite seq_length.
    rewrite seq_nth by assumption. cbn [plus]. unfold c2c_spec_row. rewrite flat_map_map.
    apply flat_map_ext_in. intros i Hi. apply in_seq in Hi.
    change (match last_other iC (cells_with cells (rm i (nth iC cells []))) with Some c => [c] | None => [] end)
      with (opt_list (last_other iC (cells_with cells (rm i (nth iC cells []))))).
    rewrite last_other_short by (apply cells_with_facet_short; [assumption|lia]).
    unfold cells_with. now rewrite filter_filter.
  Qed.
End CellCell.

Lemma conformingb_spec cells : conformingb cells = true -> conforming cells.
Proof.
  unfold conformingb, conforming. rewrite forallb_forall. intros H c i Hc Hi.
  specialize (H c). rewrite forallb_forall in H. apply Nat.leb_le. apply H; apply in_seq; lia.
Qed.

(* ------------------------------------------------------------------ edges *)
Section Edges.
  Variables (cells faces edges : list (list nat)).
  Hypothesis Hcells : Forall cell_ok cells.
  Hypothesis Hfaces : faces_wf cells faces.
  Hypothesis Hedges : edges_wf faces edges.

  Lemma edge_ok_nth e : e < length edges -> edge_ok (nth e edges []).
  Proof. intros H. apply (proj1 (Forall_forall _ _) (ew_shape _ _ Hedges)). now apply nth_In. Qed.

  (* looking side i of triangle F up gives edge e iff the facet opposite vertex (i+2) mod 3 is edge e as a set *)
  Lemma edge_id_side a b c i e :
    i < 3 -> e < length edges ->
    (edge_id edges (nth i [a; b; c] 0) (nth ((i + 1) mod 3) [a; b; c] 0) = Some e
     <-> Permutation (rm ((i + 2) mod 3) [a; b; c]) (nth e edges [])).
  Proof.
    intros Hi He. unfold edge_id. rewrite (id_of_iff _ _ _ (ew_keys _ _ Hedges)).
    rewrite (key_of_perm _ _ (side_perm a b c i Hi)). rewrite <- key_eq_iff. intuition congruence.
  Qed.

  Lemma side_hit (f e : nat) (F : list nat) :
    face_ok F -> e < length edges ->
    flat_map (fun o => if opt_is o e then [f] else []) (f2e_row edges F)
    = if subsetb (nth e edges []) F then [f] else [].
  Proof.
    intros OK He. destruct (face_ok_shape F OK) as [a [b [c ->]]]. destruct OK as [LF NF].
    pose proof (edge_ok_nth e He) as [LE NE].
    unfold f2e_row. cbn [length]. rewrite flat_map_map.
    rewrite (flat_map_at_most_one
               (fun i => opt_is (edge_id edges (nth i [a; b; c] 0) (nth ((i + 1) mod 3) [a; b; c] 0)) e) f).
    - match goal with |- (if ?x then _ else _) = (if ?y then _ else _) => assert (EB : x = y); [|now rewrite EB] end.
      apply bool_eq_iff. rewrite existsb_exists, subsetb_incl.
      rewrite <- (facet_iff [a; b; c] (nth e edges [])) by (try assumption; cbn [length]; lia).
      cbn [length]. split.
      + intros [i [Hi Hp]]. apply in_seq in Hi. apply opt_is_true in Hp.
        exists ((i + 2) mod 3). split; [apply Nat.mod_upper_bound; lia|].
        apply edge_id_side; try assumption; lia.
      + intros [j [Hj Hp]]. exists ((j + 1) mod 3). split; [apply in_seq; pose proof (Nat.mod_upper_bound (j + 1) 3); lia|].
        apply opt_is_true. apply edge_id_side; [apply Nat.mod_upper_bound; lia | assumption |].
        replace (((j + 1) mod 3 + 2) mod 3) with j by (destruct j as [|[|[|]]]; try lia; reflexivity). exact Hp.
    - intros i j Hi Hj Pi Pj. apply in_seq in Hi, Hj. apply opt_is_true in Pi, Pj.
      apply edge_id_side in Pi, Pj; try assumption; try lia.
      assert (E : (i + 2) mod 3 = (j + 2) mod 3).
      { apply (facet_unique [a; b; c] (nth e edges [])); try assumption; cbn [length]; apply Nat.mod_upper_bound; lia. }
      destruct i as [|[|[|]]], j as [|[|[|]]]; try lia; cbn in E; try lia.
    - apply seq_NoDup.
  Qed.

  Theorem edge_to_face_correct e :
    e < length edges ->
    e2f_of (f2e_tab faces edges) e
    = filter (fun f => subsetb (nth e edges []) (nth f faces [])) (seq 0 (length faces)).
  Proof.
    intros He. unfold e2f_of, f2e_tab. rewrite map_length.
    rewrite <- flat_map_single_filter. apply flat_map_ext_in.
    intros f Hf. apply in_seq in Hf.
    rewrite (nth_map_in _ _ _ []) by lia.
    apply side_hit; [apply (face_ok_nth cells faces Hfaces); lia | assumption].
  Qed.

  Let f2c := f2c_tab faces (c2f_tab cells faces).
  Let e2f := e2f_tab edges (f2e_tab faces edges).

  Lemma E2F_tab e : e < length edges -> nth e e2f [] = e2f_of (f2e_tab faces edges) e.
  Proof.
    intros H. unfold e2f, e2f_tab. rewrite (nth_map_in _ _ _ 0) by now rewrite seq_length.
    now rewrite seq_nth.
  Qed.

  (* edge_to_cell (a set): exactly the cells containing both end points *)
  Theorem edge_to_cell_correct e c :
    e < length edges ->
    (In c (nth e (e2c_tab f2c e2f) []) <-> c < length cells /\ incl (nth e edges []) (nth c cells [])).
  Proof.
    intros He. unfold e2c_tab.
    assert (Le : e < length e2f) by (unfold e2f, e2f_tab; now rewrite map_length, seq_length).
    rewrite (nth_map_in _ _ _ []) by assumption.
    rewrite nodup_In, in_flat_map. rewrite E2F_tab by assumption. rewrite edge_to_face_correct by assumption.
    pose proof (edge_ok_nth e He) as [LE NE]. split.
    - intros [f [Hf Hc]]. apply filter_In in Hf. destruct Hf as [Hf S]. apply in_seq in Hf.
      unfold f2c in Hc. rewrite (F2C_is_cells_with cells faces Hcells Hfaces) in Hc by lia.
      apply filter_In in Hc. destruct Hc as [Hc S2]. apply in_seq in Hc.
      split; [lia|]. apply subsetb_incl in S, S2. intros x Hx. auto.
    - intros [Hc I]. set (C := nth c cells []) in *.
      pose proof (cell_ok_nth cells Hcells c Hc) as [LC NC]. fold C in LC, NC.
      destruct (exists_not_in C (nth e edges []) NC) as [x [Hx Nx]]; [lia|].
      destruct (In_nth C x 0 Hx) as [i [Hi Ex]].
      assert (HC : In C cells) by (apply nth_In; assumption).
      destruct (face_id_facet_some cells faces Hfaces C i HC) as [f [E Lf]]; [lia|].
      apply (face_id_facet cells faces Hfaces) in E; [|assumption].
      exists f. split.
      + apply filter_In. split; [apply in_seq; lia|]. apply subsetb_incl.
        intros y Hy. apply (Permutation_in _ E).
        destruct (In_nth C y 0 (I y Hy)) as [j [Hj Ey]]. rewrite <- Ey.
        apply rm_in_other; try assumption. intros ->. apply Nx. congruence.
      + unfold f2c. rewrite (F2C_is_cells_with cells faces Hcells Hfaces) by assumption.
        apply filter_In. split; [apply in_seq; lia|]. apply subsetb_incl.
        intros y Hy. apply (rm_incl i). now apply (Permutation_in _ (Permutation_sym E)).
  Qed.

  Theorem edge_to_cell_NoDup e : NoDup (nth e (e2c_tab f2c e2f) []).
  Proof.
    unfold e2c_tab. destruct (Nat.lt_ge_cases e (length e2f)) as [H|H].
    - rewrite (nth_map_in _ _ _ []) by assumption. apply NoDup_nodup.
    - rewrite nth_overflow by now rewrite map_length. constructor.
  Qed.
End Edges.
