(* C03 - border / interior classification of faces, vertices and edges equals direct inspection; partitions exact. *)
From Coq Require Import String List Arith Bool ZArith Lia Permutation.
Import ListNotations.
Require Import MV.Lib.Base MV.C03.Gen MV.C03.Model MV.C03.Proofs_Base MV.C03.Proofs_Simplex
        MV.C03.Proofs_Incidence MV.C03.Proofs_Complete MV.C03.Proofs_Incidence2.

Lemma face_border_test_spec n : face_border_test n = true <-> n < 2.
Proof. unfold face_border_test. apply Nat.ltb_lt. Qed.

Section Border.
  Variables (nv : nat) (cells faces edges : list (list nat)).
  Hypothesis Hcells : Forall cell_ok cells.
  Hypothesis Hfaces : faces_wf cells faces.
  Hypothesis Hedges : edges_wf faces edges.
  (* every face is a triangle of some cell (true of completed faces): then "fewer than 2 cells" is "exactly one" *)
  Hypothesis Hminimal : forall F, In F faces -> exists C, In C cells /\ incl F C.

  Let f2c := f2c_tab faces (c2f_tab cells faces).
  Let bf := boundary_faces faces f2c.

  Definition n_cells_with (F : list nat) : nat := length (cells_with cells F).

  Lemma n_cells_pos f : f < length faces -> 1 <= n_cells_with (nth f faces []).
  Proof.
    intros H. destruct (Hminimal (nth f faces [])) as [C [HC I]]; [now apply nth_In|].
    destruct (In_nth cells C [] HC) as [c [Hc E]].
    unfold n_cells_with, cells_with.
    assert (X : In c (filter (fun c0 => subsetb (nth f faces []) (nth c0 cells [])) (seq 0 (length cells)))).
    { apply filter_In. split; [apply in_seq; lia|]. rewrite E. now apply subsetb_incl. }
    destruct (filter _ _); [contradiction|simpl; lia].
  Qed.

  (* border faces = faces lying in exactly one cell *)
  Theorem boundary_faces_correct f :
    In f bf <-> f < length faces /\ n_cells_with (nth f faces []) = 1.
  Proof.
    unfold bf, boundary_faces. rewrite filter_In, in_seq. unfold is_face_on_border.
    rewrite face_border_test_spec. split.
    - intros [R L]. split; [lia|].
      unfold f2c in L. rewrite (F2C_is_cells_with cells faces Hcells Hfaces) in L by lia.
      pose proof (n_cells_pos f ltac:(lia)). unfold n_cells_with in *. lia.
    - intros [R L]. split; [lia|].
      unfold f2c. rewrite (F2C_is_cells_with cells faces Hcells Hfaces) by lia.
      unfold n_cells_with in L. lia.
  Qed.

  Theorem interior_faces_correct f :
    In f (interior_faces faces f2c) <-> f < length faces /\ 2 <= n_cells_with (nth f faces []).
  Proof.
    unfold interior_faces. rewrite filter_In, in_seq. unfold is_face_on_border.
    rewrite negb_true_iff. rewrite <- not_true_iff_false, face_border_test_spec.
    split; intros [R L]; (split; [lia|]).
    - unfold f2c in L. rewrite (F2C_is_cells_with cells faces Hcells Hfaces) in L by lia.
      unfold n_cells_with. lia.
    - unfold f2c. rewrite (F2C_is_cells_with cells faces Hcells Hfaces) by lia.
      unfold n_cells_with in L. lia.
  Qed.

  Theorem faces_partition : Permutation (bf ++ interior_faces faces f2c) (seq 0 (length faces)).
  Proof. apply filter_partition_perm. Qed.

  (* border vertices = the vertices of the border faces *)
  Theorem boundary_vertices_correct v :
    In v (boundary_vertices nv faces bf) <-> v < nv /\ exists f, In f bf /\ In v (nth f faces []).
  Proof.
    unfold boundary_vertices, vertex_flag. rewrite filter_In, in_seq, existsb_exists.
    split; intros [R [f [Hf I]]]; (split; [lia|]); exists f; (split; [assumption|]); now apply memb_In.
  Qed.
  Theorem interior_vertices_correct v :
    In v (interior_vertices nv faces bf) <-> v < nv /\ ~ exists f, In f bf /\ In v (nth f faces []).
  Proof.
    unfold interior_vertices, vertex_flag. rewrite filter_In, in_seq, negb_true_iff.
    rewrite <- not_true_iff_false, existsb_exists.
    split; intros [R N]; (split; [lia|]); intros [f [Hf I]]; apply N; exists f; (split; [assumption|]); now apply memb_In.
  Qed.
  Theorem vertices_partition :
    Permutation (boundary_vertices nv faces bf ++ interior_vertices nv faces bf) (seq 0 nv).
  Proof. apply filter_partition_perm. Qed.

  (* border edges = the sides of the border faces *)
  Lemma bnd_face_edges_row F : bnd_face_edges edges F = f2e_row edges F.
  Proof. reflexivity. Qed.

  Lemma side_exists (F : list nat) e :
    face_ok F -> e < length edges ->
    existsb (fun o => opt_is o e) (f2e_row edges F) = subsetb (nth e edges []) F.
  Proof.
    intros OK He. pose proof (side_hit faces edges Hedges 0 e F OK He) as H.
    destruct (subsetb (nth e edges []) F) eqn:S.
    - destruct (existsb (fun o => opt_is o e) (f2e_row edges F)) eqn:X; [reflexivity|exfalso].
      rewrite flat_map_nil in H; [discriminate|].
      intros o Ho. destruct (opt_is o e) eqn:O; [|reflexivity].
      assert (existsb (fun o => opt_is o e) (f2e_row edges F) = true) by (apply existsb_exists; now exists o).
      congruence.
    - destruct (existsb (fun o => opt_is o e) (f2e_row edges F)) eqn:X; [exfalso|reflexivity].
      apply existsb_exists in X. destruct X as [o [Ho O]].
      assert (I : In 0 (flat_map (fun o => if opt_is o e then [0] else []) (f2e_row edges F))).
      { apply in_flat_map. exists o. split; [assumption|]. rewrite O. now left. }
      rewrite H in I. contradiction.
  Qed.

  Theorem boundary_edges_correct e :
    In e (boundary_edges faces edges bf) <->
    e < length edges /\ exists f, In f bf /\ incl (nth e edges []) (nth f faces []).
  Proof.
    unfold boundary_edges, edge_flag. rewrite filter_In, in_seq, existsb_exists.
    assert (BF : forall f, In f bf -> f < length faces).
    { intros f Hf. apply boundary_faces_correct in Hf. tauto. }
    split.
    - intros [R [f [Hf X]]]. split; [lia|]. exists f. split; [assumption|].
      rewrite bnd_face_edges_row, side_exists in X; [| apply (face_ok_nth cells faces Hfaces); auto | lia].
      now apply subsetb_incl.
    - intros [R [f [Hf I]]]. split; [lia|]. exists f. split; [assumption|].
      rewrite bnd_face_edges_row, side_exists; [| apply (face_ok_nth cells faces Hfaces); auto | lia].
      now apply subsetb_incl.
  Qed.
  Theorem edges_partition :
    Permutation (boundary_edges faces edges bf ++ interior_edges faces edges bf) (seq 0 (length edges)).
  Proof. apply filter_partition_perm. Qed.
End Border.

(* completed faces are minimal - each lies in some cell - as soon as the declared ones are *)
Lemma complete_faces_minimal faces0 cells :
  Forall cell_ok cells -> (forall F, In F faces0 -> exists C, In C cells /\ incl F C) ->
  forall F, In F (complete_faces faces0 cells) -> exists C, In C cells /\ incl F C.
Proof.
  intros HC H0 F HF. destruct (complete_faces_origin faces0 cells F HF) as [I0|[C [HCin I]]]; [now apply H0|].
  exists C. split; [assumption|].
  destruct (tet_faces_in C F (proj1 (Forall_forall _ _) HC C HCin) I) as [i [_ P]].
  intros x Hx. apply (rm_incl i). now apply (Permutation_in _ P).
Qed.
