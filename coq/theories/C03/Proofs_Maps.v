(* C03 - index maps between the volume and its boundary surface are mutually inverse.
   A dict is the list of its (key, value) assignments, read with last-wins lookup. *)
From Coq Require Import String List Arith Bool ZArith Lia Permutation.
Import ListNotations.
Require Import MV.Lib.Base MV.C03.Gen MV.C03.Model MV.C03.Run MV.C03.Proofs_Base MV.C03.Proofs_Simplex
        MV.C03.Proofs_Incidence MV.C03.Proofs_Orient.
Local Open Scope nat_scope.

Fixpoint dict_get (m : list (nat * nat)) (k : nat) : option nat :=
  match m with
  | [] => None
  | (a, b) :: t => match dict_get t k with Some r => Some r | None => if a =? k then Some b else None end
  end.

Lemma dict_get_In m k v : dict_get m k = Some v -> In (k, v) m.
Proof.
  induction m as [|[a b] t IH]; simpl; [discriminate|].
  destruct (dict_get t k) eqn:E.
  - intros H. inversion H; subst. right. now apply IH.
  - destruct (a =? k) eqn:A; [|discriminate]. intros H. inversion H; subst.
    apply Nat.eqb_eq in A. subst. now left.
Qed.

Lemma dict_get_complete m k v : NoDup (map fst m) -> In (k, v) m -> dict_get m k = Some v.
Proof.
  induction m as [|[a b] t IH]; simpl; intros ND I; [contradiction|].
  inversion ND as [|? ? Ha ND']; subst. destruct I as [E|I].
  - inversion E; subst. destruct (dict_get t k) eqn:G.
    + exfalso. apply Ha. apply dict_get_In in G. apply in_map_iff. now exists (k, n).
    + now rewrite Nat.eqb_refl.
  - now rewrite (IH ND' I).
Qed.

Lemma swap_In a b m : In (a, b) m <-> In (b, a) (map swap m).
Proof.
  rewrite in_map_iff. split.
  - intros H. exists (a, b). split; [reflexivity|assumption].
  - intros [[x y] [E H]]. unfold swap in E. cbn in E. inversion E; subst. assumption.
Qed.

Lemma map_fst_swap m : map fst (map swap m) = map snd m.
Proof. rewrite map_map. apply map_ext. now intros [a b]. Qed.

(* two dicts holding the same pairs read both ways, with no repeated key and no repeated value, are inverse *)
Theorem dicts_inverse m a b :
  NoDup (map fst m) -> NoDup (map snd m) ->
  (dict_get m a = Some b <-> dict_get (map swap m) b = Some a).
Proof.
  intros N1 N2. split; intros H.
  - apply dict_get_complete; [now rewrite map_fst_swap|]. apply (proj1 (swap_In a b m)). now apply dict_get_In.
  - apply dict_get_complete; [assumption|]. apply (proj2 (swap_In a b m)). now apply dict_get_In.
Qed.

(* ------------------------------------------------------------------ enumerations: vertices and faces *)
Lemma combine_seq_fst (l : list nat) k : map fst (combine l (seq k (length l))) = l.
Proof. revert k. induction l as [|x t IH]; simpl; intros k; [reflexivity|]. now rewrite IH. Qed.
Lemma combine_seq_snd (l : list nat) k : map snd (combine l (seq k (length l))) = seq k (length l).
Proof. revert k. induction l as [|x t IH]; simpl; intros k; [reflexivity|]. now rewrite IH. Qed.

Lemma swap_combine (l r : list nat) : map swap (combine l r) = combine r l.
Proof. revert r. induction l as [|x t IH]; intros [|y s]; simpl; try reflexivity. now rewrite IH. Qed.

(* the observed dicts of an enumeration `l` are  m2b = {l[i] : i}  and  b2m = {i : l[i]} *)
Theorem enumeration_maps_inverse (l : list nat) v i :
  NoDup l ->
  (dict_get (combine l (seq 0 (length l))) v = Some i <-> dict_get (combine (seq 0 (length l)) l) i = Some v).
Proof.
  intros ND. rewrite <- (swap_combine l (seq 0 (length l))).
  apply dicts_inverse; [now rewrite combine_seq_fst | rewrite combine_seq_snd; apply seq_NoDup].
Qed.

(* and they are the functions m2b / b2m of the model *)
Lemma dict_get_enum (l : list nat) i v :
  NoDup l -> (dict_get (combine (seq 0 (length l)) l) i = Some v <-> b2m l i = Some v).
Proof.
  intros ND. unfold b2m.
  assert (G : forall k j, In (j, v) (combine (seq k (length l)) l) <-> k <= j /\ nth_error l (j - k) = Some v).
  { induction l as [|x t IH]; intros k j; simpl.
    - split; [contradiction|]. intros [_ H]. destruct (j - k); discriminate.
    - inversion ND; subst. rewrite IH by assumption. split.
      + intros [E|[L H]]; [inversion E; subst; split; [lia|now rewrite Nat.sub_diag]|].
        split; [lia|]. replace (j - k) with (S (j - S k)) by lia. exact H.
      + intros [L H]. destruct (Nat.eq_dec j k) as [->|N].
        * left. rewrite Nat.sub_diag in H. simpl in H. congruence.
        * right. split; [lia|]. replace (j - k) with (S (j - S k)) in H by lia. exact H. }
  split; intros H.
  - apply dict_get_In in H. apply G in H. destruct H as [_ H]. now rewrite Nat.sub_0_r in H.
  - apply dict_get_complete.
    + rewrite <- (swap_combine l), map_fst_swap, combine_seq_snd. apply seq_NoDup.
    + apply G. split; [lia|]. now rewrite Nat.sub_0_r.
Qed.

(* ------------------------------------------------------------------ the dicts the code writes (entries from Gen.v) *)
Lemma dict_enum_fwd entry (l : list nat) :
  (forall i x, entry i x = (x, i)) -> dict_enum entry l = combine l (seq 0 (length l)).
Proof.
  intros E. unfold dict_enum. rewrite <- (swap_combine (seq 0 (length l)) l). apply map_ext. intros [i x]. now rewrite E.
Qed.
Lemma dict_enum_bwd entry (l : list nat) :
  (forall i x, entry i x = (i, x)) -> dict_enum entry l = combine (seq 0 (length l)) l.
Proof.
  intros E. unfold dict_enum. rewrite <- (map_id (combine (seq 0 (length l)) l)) at 2. apply map_ext. intros [i x]. now rewrite E.
Qed.

(* the dicts of both extractors, as written by the code: m2b sends the i-th enumerated element to i, b2m sends i back *)
Theorem written_dicts (l : list nat) :
  NoDup l ->
  forall x i,
    (dict_get (dict_enum bc_m2b_vertex_entry l) x = Some i <-> nth_error l i = Some x)
    /\ (dict_get (dict_enum bc_b2m_vertex_entry l) i = Some x <-> nth_error l i = Some x)
    /\ (dict_get (dict_enum bc_m2b_face_entry l) x = Some i <-> nth_error l i = Some x)
    /\ (dict_get (dict_enum bc_b2m_face_entry l) i = Some x <-> nth_error l i = Some x)
    /\ (dict_get (dict_enum ex_m2b_entry l) x = Some i <-> nth_error l i = Some x)
    /\ (dict_get (dict_enum ex_b2m_entry l) i = Some x <-> nth_error l i = Some x).
Proof.
  intros ND x i.
  assert (F : dict_get (combine l (seq 0 (length l))) x = Some i <-> nth_error l i = Some x).
  { rewrite (enumeration_maps_inverse l x i ND). apply (dict_get_enum l i x ND). }
  assert (B : dict_get (combine (seq 0 (length l)) l) i = Some x <-> nth_error l i = Some x)
    by apply (dict_get_enum l i x ND).
  repeat split; intros H;
    first [ rewrite dict_enum_fwd in * by reflexivity; now apply F
          | rewrite dict_enum_bwd in * by reflexivity; now apply B ].
Qed.

(* ------------------------------------------------------------------ the edge indirection *)
Lemma map_res_ok {A B} (f : A -> res B) l r :
  map_res f l = Ok r -> Forall2 (fun x y => f x = Ok y) l r.
Proof.
  revert r. induction l as [|x t IH]; simpl; intros r H.
  - inversion H. constructor.
  - destruct (f x) eqn:E; destruct (map_res f t) eqn:M; try discriminate.
    inversion H; subst. constructor; [assumption|]. now apply IH.
Qed.

Definition edge_entry (edges bedges : list (list nat)) (vs : list nat) (e : nat) : res (nat * nat) :=
  match nth e edges [] with
  | [u; v] => match m2b vs u, m2b vs v with
              | Some bu, Some bv =>
                  match id_of bedges (key [bu; bv]) with
                  | Some b => Ok (e, b)
                  | None => Exn
                  end
              | _, _ => Exn
              end
  | _ => Exn
  end.

Lemma bc_edge_map_entries edges bedges vs be m :
  bc_edge_map edges bedges vs be = Ok m -> Forall2 (fun e p => edge_entry edges bedges vs e = Ok p) be m.
Proof. intros H. apply map_res_ok in H. exact H. Qed.

Lemma m2b_inj vs u v i : m2b vs u = Some i -> m2b vs v = Some i -> u = v.
Proof. intros A B. apply m2b_b2m in A, B. congruence. Qed.

Lemma edge_entry_inj edges bedges vs e1 e2 b :
  NoDup (map key edges) ->
  edge_entry edges bedges vs e1 = Ok (e1, b) -> edge_entry edges bedges vs e2 = Ok (e2, b) -> e1 = e2.
Proof.
  intros NK H1 H2. unfold edge_entry in *.
  destruct (nth e1 edges []) as [|u1 [|v1 [|? ?]]] eqn:E1; try discriminate.
  destruct (nth e2 edges []) as [|u2 [|v2 [|? ?]]] eqn:E2; try discriminate.
  destruct (m2b vs u1) as [bu1|] eqn:A1; [|discriminate]. destruct (m2b vs v1) as [bv1|] eqn:B1; [|discriminate].
  destruct (m2b vs u2) as [bu2|] eqn:A2; [|discriminate]. destruct (m2b vs v2) as [bv2|] eqn:B2; [|discriminate].
  destruct (id_of bedges (key [bu1; bv1])) as [b1|] eqn:I1; [|discriminate].
  destruct (id_of bedges (key [bu2; bv2])) as [b2|] eqn:I2; [|discriminate].
  inversion H1; inversion H2; subst b1 b2.
  apply id_of_sound in I1, I2. destruct I1 as [_ K1], I2 as [_ K2].
  assert (P : Permutation [bu1; bv1] [bu2; bv2]) by (apply key_eq_iff; congruence).
  assert (Q : Permutation [u1; v1] [u2; v2]).
  { apply Permutation_length_2 in P. destruct P as [[X Y]|[X Y]]; subst.
    - rewrite (m2b_inj vs u1 u2 _ A1 A2), (m2b_inj vs v1 v2 _ B1 B2). reflexivity.
    - rewrite (m2b_inj vs u1 v2 _ A1 B2), (m2b_inj vs v1 u2 _ B1 A2). apply perm_swap. }
  assert (L1 : e1 < length edges).
  { destruct (Nat.lt_ge_cases e1 (length edges)) as [L|L]; [assumption|]. rewrite nth_overflow in E1 by assumption. discriminate. }
  assert (L2 : e2 < length edges).
  { destruct (Nat.lt_ge_cases e2 (length edges)) as [L|L]; [assumption|]. rewrite nth_overflow in E2 by assumption. discriminate. }
  apply (NoDup_map_nth_inj key edges [] e1 e2 NK L1 L2). rewrite E1, E2. now apply key_of_perm.
Qed.

Lemma Forall2_fst_eq edges bedges vs be m :
  Forall2 (fun e p => edge_entry edges bedges vs e = Ok p) be m -> map fst m = be.
Proof.
  induction 1 as [|e p t r H _ IH]; simpl; [reflexivity|]. rewrite IH. f_equal.
  unfold edge_entry in H. repeat (match type of H with context [match ?x with _ => _ end] => destruct x; try discriminate end).
  now inversion H.
Qed.

(* m2b_edge = m, b2m_edge = map swap m: mutually inverse *)
Theorem edge_maps_inverse edges bedges vs be m :
  NoDup (map key edges) -> NoDup be ->
  bc_edge_map edges bedges vs be = Ok m ->
  map fst m = be /\ forall e b, dict_get m e = Some b <-> dict_get (map swap m) b = Some e.
Proof.
  intros NK NB H. apply bc_edge_map_entries in H.
  pose proof (Forall2_fst_eq _ _ _ _ _ H) as F. split; [assumption|].
  intros e b. apply dicts_inverse; [now rewrite F|].
  (* values are pairwise distinct *)
  clear e b. revert NB F. induction H as [|e p t r Hp Ht IH]; simpl; intros NB F; [constructor|].
  inversion NB as [|? ? He NB']; subst. inversion F as [[F1 F2]].
  constructor; [|apply IH; assumption].
  intros I. apply in_map_iff in I. destruct I as [[e' b'] [Eb Hin]]. cbn in Eb.
  destruct p as [pe pb]. cbn in *. subst b'.
  (* (e', pb) comes from some e' in t *)
  assert (X : In e' (map fst r) /\ edge_entry edges bedges vs e' = Ok (e', pb)).
  { clear - Ht Hin. induction Ht as [|x q t' r' Hq _ IH2]; [contradiction|].
    destruct Hin as [->|Hin].
    - assert (x = e').
      { unfold edge_entry in Hq. repeat (match type of Hq with context [match ?z with _ => _ end] => destruct z; try discriminate end). now inversion Hq. }
      subst. split; [now left|assumption].
    - destruct (IH2 Hin) as [A B]. split; [now right|assumption]. }
  destruct X as [X1 X2].
  assert (pe = e).
  { unfold edge_entry in Hp. repeat (match type of Hp with context [match ?z with _ => _ end] => destruct z; try discriminate end). now inversion Hp. }
  subst pe. assert (e = e') by (eapply edge_entry_inj; eassumption). subst e'. apply He. rewrite <- F2. exact X1.
Qed.
