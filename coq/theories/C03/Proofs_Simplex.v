(* C03 - facets of a simplex: the index expression C[:i] + C[i+1:] (Gen.cell_adj_face) enumerates, for a list C of
   distinct vertices, exactly the sub-lists with one vertex less, each once. *)
From Coq Require Import String List Arith Bool ZArith Lia Permutation.
Import ListNotations.
Require Import MV.Lib.Base MV.C03.Gen MV.C03.Model MV.C03.Proofs_Base.

Definition rm (i : nat) (C : list nat) : list nat := firstn i C ++ skipn (S i) C.

(* the generated expression IS the removal of the i-th element *)
Lemma cell_adj_face_rm C i : cell_adj_face C i = rm i C.
Proof. unfold cell_adj_face, rm. now rewrite Nat.add_1_r. Qed.

Lemma in_cell_face_sub_rm C i : in_cell_face_sub C i = rm i C.
Proof. unfold in_cell_face_sub, rm. now rewrite Nat.add_1_r. Qed.

Lemma skipn_nth_cons {A} (l : list A) i d : i < length l -> skipn i l = nth i l d :: skipn (S i) l.
Proof.
  revert i. induction l as [|x t IH]; simpl; intros i H; [lia|].
  destruct i; [reflexivity|]. apply IH. lia.
Qed.

Lemma split_at {A} (l : list A) i d : i < length l -> l = firstn i l ++ nth i l d :: skipn (S i) l.
Proof. intros H. rewrite <- skipn_nth_cons by assumption. symmetry. apply firstn_skipn. Qed.

Lemma rm_incl i C : incl (rm i C) C.
Proof.
  unfold rm. intros x Hx. apply in_app_or in Hx. destruct Hx as [H|H].
  - rewrite <- (firstn_skipn i C). apply in_or_app. now left.
  - rewrite <- (firstn_skipn (S i) C). apply in_or_app. now right.
Qed.

Lemma rm_length i C : i < length C -> S (length (rm i C)) = length C.
Proof.
  intros H. unfold rm. rewrite app_length, firstn_length, skipn_length. lia.
Qed.

Lemma rm_NoDup i C : NoDup C -> NoDup (rm i C).
Proof.
  intros ND. destruct (Nat.lt_ge_cases i (length C)) as [H|H].
  - assert (ND' : NoDup (firstn i C ++ nth i C 0 :: skipn (S i) C)) by now rewrite <- split_at.
    apply NoDup_remove_1 in ND'. exact ND'.
  - unfold rm. assert (E1 : firstn i C = C) by (apply firstn_all2; lia).
    assert (E2 : skipn (S i) C = []) by (apply skipn_all2; lia).
    rewrite E1, E2, app_nil_r. exact ND.
Qed.

Lemma rm_not_in i C : NoDup C -> i < length C -> ~ In (nth i C 0) (rm i C).
Proof.
  intros ND H. assert (ND' : NoDup (firstn i C ++ nth i C 0 :: skipn (S i) C)) by now rewrite <- split_at.
  apply NoDup_remove_2 in ND'. exact ND'.
Qed.

Lemma rm_in_other i j C : NoDup C -> i < length C -> j < length C -> i <> j -> In (nth j C 0) (rm i C).
Proof.
  intros ND Hi Hj Nij.
  assert (I : In (nth j C 0) (firstn i C ++ nth i C 0 :: skipn (S i) C))
    by (rewrite <- split_at by assumption; now apply nth_In).
  apply in_app_or in I. unfold rm.
  destruct I as [I|[I|I]]; [apply in_or_app; now left | | apply in_or_app; now right].
  exfalso. apply Nij. apply (proj1 (NoDup_nth C 0) ND); assumption.
Qed.

Lemma facet_unique C F i j :
  NoDup C -> i < length C -> j < length C ->
  Permutation (rm i C) F -> Permutation (rm j C) F -> i = j.
Proof.
  intros ND Hi Hj Pi Pj. destruct (Nat.eq_dec i j) as [|N]; [assumption|exfalso].
  apply (rm_not_in j C ND Hj).
  apply (Permutation_in _ (Permutation_sym Pj)). apply (Permutation_in _ Pi).
  now apply rm_in_other.
Qed.

Lemma exists_not_in (C F : list nat) :
  NoDup C -> length F < length C -> exists x, In x C /\ ~ In x F.
Proof.
  intros ND L. destruct (find (fun x => negb (memb x F)) C) as [x|] eqn:E.
  - apply find_some in E. destruct E as [I N]. exists x. split; [assumption|].
    cbv beta in N. apply memb_false. now destruct (memb x F).
  - exfalso. assert (incl C F).
    { intros x Hx. pose proof (find_none _ _ E x Hx) as N. cbv beta in N. apply memb_In. now destruct (memb x F). }
    pose proof (NoDup_incl_length ND H). lia.
Qed.

Lemma facet_exists C F :
  NoDup F -> NoDup C -> incl F C -> length C = S (length F) ->
  exists i, i < length C /\ Permutation (rm i C) F.
Proof.
  intros NF NC I L.
  destruct (exists_not_in C F NC) as [x [Hx Nx]]; [lia|].
  destruct (In_nth C x 0 Hx) as [i [Hi E]]. exists i. split; [assumption|].
  symmetry. apply NoDup_Permutation_bis; [assumption| |].
  - pose proof (rm_length i C Hi). lia.
  - intros y Hy. pose proof (I y Hy) as Hc.
    destruct (In_nth C y 0 Hc) as [j [Hj Ej]]. rewrite <- Ej.
    apply rm_in_other; try assumption. intros ->. apply Nx. congruence.
Qed.

(* facets as sets *)
Lemma facet_iff C F :
  NoDup F -> NoDup C -> length C = S (length F) ->
  ((exists i, i < length C /\ Permutation (rm i C) F) <-> incl F C).
Proof.
  intros NF NC L. split.
  - intros [i [_ P]] x Hx. apply (rm_incl i). apply (Permutation_in _ (Permutation_sym P)). assumption.
  - intros I. now apply facet_exists.
Qed.
