(* C03 - coverage: on a conforming mesh, if the cells around an edge are connected through faces containing the edge,
   the two pivot walks of _sort_edge_neighborhoods reach every cell and every face of the edge - the lists ARE sorted. *)
From Coq Require Import String List Arith Bool ZArith Lia Permutation Sorted.
Import ListNotations.
Require Import MV.Lib.Base MV.C03.Gen MV.C03.Model MV.C03.Run MV.C03.Proofs_Base MV.C03.Proofs_Simplex
        MV.C03.Proofs_Incidence MV.C03.Proofs_Complete MV.C03.Proofs_Incidence2 MV.C03.Proofs_Border
        MV.C03.Proofs_Closed MV.C03.Proofs_Sort MV.C03.Proofs_Ring.
Local Open Scope nat_scope.

(* the walk with its pivots and its stopping reason *)
Section PChain.
  Variables (cells faces : list (list nat)) (f2c : list (list nat)).

  Inductive pchain (A B : nat) : nat -> nat -> list nat -> list nat -> list nat -> Prop :=
  | pc_end c p seen f :
      face_id faces [A; B; p] = Some f ->
      (other_face_side f2c c f = None \/ exists c', other_face_side f2c c f = Some c' /\ In c' seen) ->
      pchain A B c p seen [] [f]
  | pc_step c p seen f c' q rest cs fs :
      face_id faces [A; B; p] = Some f -> other_face_side f2c c f = Some c' -> ~ In c' seen ->
      others (nth c' cells []) [A; B; p] = q :: rest ->
      pchain A B c' q (c' :: seen) cs fs -> pchain A B c p seen (c' :: cs) (f :: fs).

  Lemma walk_pchain fuel A B : forall seen c p cs fs,
    walk cells faces fuel f2c A B seen c p = Ok (cs, fs) -> pchain A B c p seen cs fs.
  Proof.
    induction fuel as [|k IH]; intros seen c p cs fs H; [discriminate|].
    cbn [walk] in H. destruct (face_id faces [A; B; p]) as [f|] eqn:Ef; [|discriminate].
    destruct (other_face_side f2c c f) as [c'|] eqn:Eo.
    - destruct (memb c' seen) eqn:Em.
      + inversion H; subst. apply pc_end; [assumption|]. right. exists c'. split; [assumption|now apply memb_In].
      + destruct (others (nth c' cells []) [A; B; p]) as [|q rest] eqn:Eq; [discriminate|].
        destruct (walk cells faces k f2c A B (c' :: seen) c' q) as [[cs' fs']| |] eqn:Ew; try discriminate.
        inversion H; subst. eapply pc_step; try eassumption; [now apply memb_false | now apply IH].
    - inversion H; subst. apply pc_end; [assumption|now left].
  Qed.

  Lemma pchain_head A B c p seen cs fs :
    pchain A B c p seen cs fs -> exists f rest, fs = f :: rest /\ face_id faces [A; B; p] = Some f.
  Proof. intros H. inversion H; subst; eauto. Qed.
End PChain.

Lemma other_face_side_pair f2c c f c' :
  other_face_side f2c c f = Some c' -> F2C f2c f = [c; c'] \/ F2C f2c f = [c'; c].
Proof.
  unfold other_face_side. destruct (ofs_not_two (length (F2C f2c f))); [discriminate|].
  destruct (F2C f2c f) as [|c1 [|c2 [|? ?]]]; try discriminate.
  destruct (c =? c1) eqn:E1; [|destruct (c =? c2) eqn:E2; [|discriminate]]; intros H; inversion H; subst.
  - apply Nat.eqb_eq in E1. subst. now left.
  - apply Nat.eqb_eq in E2. subst. now right.
Qed.

Lemma other_face_side_none_single f2c c f :
  other_face_side f2c c f = None -> In c (F2C f2c f) -> NoDup (F2C f2c f) -> length (F2C f2c f) <= 2 ->
  F2C f2c f = [c].
Proof.
  unfold other_face_side. intros H I ND L.
  destruct (F2C f2c f) as [|c1 [|c2 [|? ?]]]; cbn [length] in *; try lia; try contradiction.
  - destruct I as [->|[]]. reflexivity.
  - exfalso. change (ofs_not_two 2) with false in H. cbn iota in H.
    destruct I as [->|[->|[]]].
    + now rewrite Nat.eqb_refl in H.
    + destruct (c =? c1); [discriminate|]. now rewrite Nat.eqb_refl in H.
Qed.

Section Cover.
  Variables (cells faces edges : list (list nat)).
  Hypothesis Hcells : Forall cell_ok cells.
  Hypothesis Hfaces : faces_wf cells faces.
  Hypothesis Hedges : edges_wf faces edges.
  Hypothesis Hconf : conforming cells.
  Hypothesis Hminimal : forall F, In F faces -> exists C, In C cells /\ incl F C.
  Let f2c := f2c_tab faces (c2f_tab cells faces).
  Let n := length cells.

  Variables (A B : nat).
  Hypothesis NAB : A <> B.
  Variable V : list nat.

  Definition resolved (g : nat) : Prop := forall y, In y (F2C f2c g) -> In y V.

  Lemma F2C_props g : g < length faces -> NoDup (F2C f2c g) /\ length (F2C f2c g) <= 2.
  Proof.
    intros L. unfold f2c. rewrite (F2C_is_cells_with cells faces Hcells Hfaces) by assumption. split.
    - apply NoDup_filter, seq_NoDup.
    - pose proof (n_cells_one_or_two cells faces Hcells Hfaces Hconf Hminimal g L) as O. unfold n_cells_with in O. lia.
  Qed.

  Lemma own_face_contains c p f :
    Inv cells A B c p -> face_id faces [A; B; p] = Some f -> f < length faces /\ In c (F2C f2c f).
  Proof.
    intros IV Ef. destruct (face_of_triple cells faces Hcells Hfaces A B c p IV) as [f' [Ef' [Lf P]]].
    assert (f' = f) by congruence. subst f'. split; [assumption|].
    unfold f2c. rewrite (F2C_is_cells_with cells faces Hcells Hfaces) by assumption.
    destruct IV as [Hc [_ I]]. apply filter_In. split; [apply in_seq; unfold n in Hc; lia|].
    apply subsetb_incl. intros x Hx. apply I. now apply (Permutation_in _ P).
  Qed.

  (* every face crossed by a walk has all its cells among the visited ones *)
  Lemma chain_resolved c p seen cs fs :
    pchain cells faces f2c A B c p seen cs fs -> Inv cells A B c p ->
    incl seen V -> In c V -> incl cs V -> forall g, In g fs -> resolved g.
  Proof.
    induction 1 as [c p seen f Ef Stop | c p seen f c' q rest cs fs Ef Eo Nin EO _ IH]; intros IV SV CV CSV g Hg.
    - destruct Hg as [<-|[]]. destruct (own_face_contains c p f IV Ef) as [Lf Ic].
      destruct (F2C_props f Lf) as [ND L2]. intros y Hy. destruct Stop as [No|[c' [Eo Ic']]].
      + rewrite (other_face_side_none_single f2c c f No Ic ND L2) in Hy. destruct Hy as [<-|[]]. assumption.
      + destruct (other_face_side_pair f2c c f c' Eo) as [E|E]; rewrite E in Hy;
          destruct Hy as [<-|[<-|[]]]; auto.
    - destruct Hg as [<-|Hg].
      + intros y Hy. destruct (other_face_side_pair f2c c f c' Eo) as [E|E]; rewrite E in Hy;
          destruct Hy as [<-|[<-|[]]]; auto; apply CSV; now left.
      + destruct (step_inv cells faces Hcells Hfaces A B c p f c' IV Ef Eo) as [q' [rest' [EO' IV']]].
        assert (q' = q) by congruence. subst q'.
        apply IH; try assumption.
        * intros x [<-|Hx]; [apply CSV; now left | now apply SV].
        * apply CSV. now left.
        * intros x Hx. apply CSV. now right.
  Qed.

  Lemma pivots_of_cell c p q r :
    c < n -> NoDup [A; B; p] -> incl [A; B; p] (nth c cells []) -> In q (nth c cells []) -> ~ In q [A; B; p] ->
    Inv cells A B c r -> r = p \/ r = q.
  Proof.
    intros Hc ND I Iq Nq [_ [NDr Ir]].
    pose proof (cell_ok_nth cells Hcells c Hc) as [LC NC].
    assert (N4 : NoDup [A; B; p; q]).
    { inversion ND as [|? ? NA ND1]; subst. inversion ND1 as [|? ? NB ND2]; subst. inversion ND2 as [|? ? Np _]; subst.
      constructor; [intros [H|[H|[H|[]]]]; [apply NA; now left | apply NA; right; now left | subst; apply Nq; now left]|].
      constructor; [intros [H|[H|[]]]; [apply NB; now left | subst; apply Nq; right; now left]|].
      constructor; [intros [H|[]]; subst; apply Nq; right; right; now left|]. constructor; [intros []|constructor]. }
    assert (I4 : incl [A; B; p; q] (nth c cells [])).
    { intros x [<-|[<-|[<-|[<-|[]]]]]; try assumption; apply I; [now left | right; now left | right; right; now left]. }
    assert (R : incl (nth c cells []) [A; B; p; q]) by (apply NoDup_length_incl; [assumption | cbn [length]; lia | assumption]).
    assert (Hr : In r [A; B; p; q]) by (apply R, Ir; right; right; now left).
    inversion NDr as [|? ? NA ND1]; subst. inversion ND1 as [|? ? NB _]; subst.
    destruct Hr as [H|[H|[H|[H|[]]]]]; subst; auto; exfalso; [apply NA; right; now left | apply NB; now left].
  Qed.

  (* the faces crossed by a walk include both faces around the edge of every cell it keys, and the leaving face of its
     own start *)
  Lemma chain_faces c p seen cs fs :
    pchain cells faces f2c A B c p seen cs fs -> Inv cells A B c p ->
    forall x r, In x cs -> Inv cells A B x r -> exists g, In g fs /\ face_id faces [A; B; r] = Some g.
  Proof.
    induction 1 as [c p seen f Ef Stop | c p seen f c' q rest cs fs Ef Eo Nin EO PC IH]; intros IV x r Hx IVr;
      [contradiction|].
    destruct (step_inv cells faces Hcells Hfaces A B c p f c' IV Ef Eo) as [q' [rest' [EO' IV']]].
    assert (q' = q) by congruence. subst q'.
    destruct Hx as [<-|Hx].
    - (* x = c': pivots p (entering) or q (leaving) *)
      destruct IV' as [Hc' [NDq Iq]].
      assert (Iqc : In q (others (nth c' cells []) [A; B; p])) by (rewrite EO; now left).
      unfold others in Iqc. apply filter_In in Iqc. destruct Iqc as [Iq1 Nq]. apply negb_true_iff, memb_false in Nq.
      destruct (face_of_triple cells faces Hcells Hfaces A B c p IV) as [f' [Ef' [Lf P]]].
      assert (f' = f) by congruence. subst f'.
      assert (I3 : incl [A; B; p] (nth c' cells [])).
      { apply other_face_side_In in Eo. destruct Eo as [_ [Ic' _]].
        unfold f2c in Ic'. rewrite (F2C_is_cells_with cells faces Hcells Hfaces) in Ic' by assumption.
        apply filter_In in Ic'. destruct Ic' as [_ S]. apply subsetb_incl in S.
        intros v Hv. apply S. now apply (Permutation_in _ (Permutation_sym P)). }
      destruct IV as [_ [NDp _]].
      destruct (pivots_of_cell c' p q r Hc' NDp I3 Iq1 Nq IVr) as [->| ->].
      + exists f. split; [now left|assumption].
      + destruct (pchain_head cells faces f2c A B c' q (c' :: seen) cs fs PC) as [g [rest2 [-> Eg]]].
        exists g. split; [right; now left|assumption].
    - destruct (IH IV' x r Hx IVr) as [g [Hg Eg]]. exists g. split; [now right|assumption].
  Qed.
End Cover.

(* third vertex of a triangle through A and B *)
Lemma face_third F A B : face_ok F -> A <> B -> In A F -> In B F -> exists r, Permutation F [A; B; r] /\ NoDup [A; B; r].
Proof.
  intros [L N] NAB IA IB.
  assert (NE : NoDup [A; B]) by (constructor; [intros [H|[]]; now apply NAB | constructor; [intros []|constructor]]).
  assert (I : incl [A; B] F) by (intros x [<-|[<-|[]]]; assumption).
  destruct (facet_exists F [A; B] NE N I) as [i [Hi P]]; [cbn [length]; lia|].
  exists (nth i F 0).
  assert (PF : Permutation F (nth i F 0 :: rm i F)).
  { rewrite (split_at F i 0 Hi) at 1. unfold rm. symmetry. apply Permutation_middle. }
  assert (P3 : Permutation F [A; B; nth i F 0]).
  { apply (perm_trans PF). apply (perm_trans (perm_skip (nth i F 0) P)). apply (Permutation_cons_append [A; B]). }
  split; [assumption|]. now apply (Permutation_NoDup P3).
Qed.

Section CoverFinal.
  Variables (cells faces edges : list (list nat)).
  Hypothesis Hcells : Forall cell_ok cells.
  Hypothesis Hfaces : faces_wf cells faces.
  Hypothesis Hedges : edges_wf faces edges.
  Hypothesis Hconf : conforming cells.
  Hypothesis Hminimal : forall F, In F faces -> exists C, In C cells /\ incl F C.
  Let f2c := f2c_tab faces (c2f_tab cells faces).
  Let e2f := e2f_tab edges (f2e_tab faces edges).
  Let e2c := e2c_tab f2c e2f.
  Let n := length cells.

  (* the cells around the edge {A,B} form ONE fan or ring: every set of them that contains one and is closed under
     "shares a face through the edge" contains all *)
  Definition link_connected (A B : nat) (L : list nat) : Prop :=
    forall S : nat -> Prop,
      (exists s, In s L /\ S s) ->
      (forall x y, S x -> In y L -> adjacent_around cells faces A B x y -> S y) ->
      forall c, In c L -> S c.

  Theorem edge_ring_covered e start A B :
    e < length edges -> In start (nth e e2c []) -> nth e edges [] = [A; B] ->
    link_connected A B (nth e e2c []) ->
    forall b cs fs, sorted_edge cells faces edges f2c (nth e e2c []) (nth e e2f []) e start = Ok (b, cs, fs) -> b = true.
  Proof.
    intros He Hs EE LC b cs fs.
    pose proof (edge_ok_nth faces edges Hedges e He) as OKE. rewrite EE in OKE.
    assert (NAB : A <> B).
    { destruct OKE as [_ N]. inversion N as [|? ? NA _]; subst. intros ->. apply NA. now left. }
    pose proof Hs as Hs0.
    apply (edge_to_cell_correct cells faces edges Hcells Hfaces Hedges e start He) in Hs. destruct Hs as [Ls Is].
    rewrite EE in Is.
    destruct (others_two (nth start cells []) A B (cell_ok_nth cells Hcells start Ls) NAB Is)
      as [p1 [p2 [EO [N1 [N2 [I1 I2]]]]]].
    unfold sorted_edge. rewrite EE, EO.
    assert (IV1 : Inv cells A B start p1) by (split; [exact Ls|split; assumption]).
    assert (IV2 : Inv cells A B start p2) by (split; [exact Ls|split; assumption]).
    destruct (walk cells faces (S (length cells)) f2c A B [start] start p1) as [[cs1 fs1]| |] eqn:W1; try discriminate.
    destruct (walk cells faces (S (length cells)) f2c A B (cs1 ++ [start]) start p2) as [[cs2 fs2]| |] eqn:W2; try discriminate.
    set (kc := (start, 0%Z) :: keys_up cs1 ++ keys_down cs2). set (kf := keys_up fs1 ++ keys_down fs2).
    set (V := cs2 ++ start :: cs1).
    pose proof (walk_pchain cells faces f2c _ A B _ _ _ _ _ W1) as PC1.
    pose proof (walk_pchain cells faces f2c _ A B _ _ _ _ _ W2) as PC2.
    pose proof (walk_spec cells faces f2c (f2c_bound cells faces) _ A B _ _ _ _ _ W1) as [_ [_ [FR1 _]]].
    pose proof (walk_spec cells faces f2c (f2c_bound cells faces) _ A B _ _ _ _ _ W2) as [_ [_ [FR2 _]]].
    assert (Vn : forall x, In x V -> x < n).
    { intros x Hx. unfold V in Hx. apply in_app_or in Hx. destruct Hx as [Hx|[<-|Hx]];
        [now apply FR2 | exact Ls | now apply FR1]. }
    assert (sV : In start V) by (unfold V; apply in_or_app; right; now left).
    assert (c1V : incl cs1 V) by (intros x Hx; unfold V; apply in_or_app; right; now right).
    assert (c2V : incl cs2 V) by (intros x Hx; unfold V; apply in_or_app; now left).
    (* crossed faces are resolved *)
    assert (RES : forall g, In g (fs1 ++ fs2) -> resolved cells faces V g).
    { intros g Hg. apply in_app_or in Hg. destruct Hg as [Hg|Hg].
      - apply (chain_resolved cells faces Hcells Hfaces Hconf Hminimal A B NAB V start p1 [start] cs1 fs1 PC1 IV1); try assumption.
        intros x [<-|[]]. exact sV.
      - apply (chain_resolved cells faces Hcells Hfaces Hconf Hminimal A B NAB V start p2 (cs1 ++ [start]) cs2 fs2 PC2 IV2); try assumption.
        intros x Hx. apply in_app_or in Hx. destruct Hx as [Hx|[<-|[]]]; [now apply c1V|exact sV]. }
    (* every face around the edge of a visited cell was crossed *)
    assert (p2facts : In p2 (nth start cells []) /\ ~ In p2 [A; B; p1]).
    { assert (Ip : In p2 (others (nth start cells []) [A; B])) by (rewrite EO; right; now left).
      assert (NDo : NoDup (others (nth start cells []) [A; B])) by (apply NoDup_filter, (cell_ok_nth cells Hcells start Ls)).
      unfold others in Ip. apply filter_In in Ip. destruct Ip as [Ip Np]. apply negb_true_iff, memb_false in Np.
      split; [assumption|]. rewrite EO in NDo. inversion NDo as [|? ? N12 _]; subst.
      intros [H|[H|[H|[]]]]; [apply Np; now left | apply Np; right; now left | apply N12; now left]. }
    assert (FOF : forall x r, In x V -> Inv cells A B x r -> exists g, In g (fs1 ++ fs2) /\ face_id faces [A; B; r] = Some g).
    { intros x r Hx IVr. unfold V in Hx. apply in_app_or in Hx. destruct Hx as [Hx|[<-|Hx]].
      - destruct (chain_faces cells faces Hcells Hfaces A B NAB start p2 _ cs2 fs2 PC2 IV2 x r Hx IVr) as [g [Hg Eg]].
        exists g. split; [apply in_or_app; now right|assumption].
      - destruct p2facts as [Ip2 Np2].
        destruct (pivots_of_cell cells Hcells A B NAB start p1 p2 r Ls N1 I1 Ip2 Np2 IVr) as [->| ->].
        + destruct (pchain_head cells faces f2c A B _ _ _ _ _ PC1) as [g [rest [-> Eg]]].
          exists g. split; [now left|assumption].
        + destruct (pchain_head cells faces f2c A B _ _ _ _ _ PC2) as [g [rest [-> Eg]]].
          exists g. split; [apply in_or_app; right; now left|assumption].
      - destruct (chain_faces cells faces Hcells Hfaces A B NAB start p1 _ cs1 fs1 PC1 IV1 x r Hx IVr) as [g [Hg Eg]].
        exists g. split; [apply in_or_app; now left|assumption]. }
    (* a face through {A,B} inside a visited cell is a crossed face *)
    assert (FIN : forall x g, In x V -> g < length faces -> In A (nth g faces []) -> In B (nth g faces []) ->
                              incl (nth g faces []) (nth x cells []) -> In g (fs1 ++ fs2)).
    { intros x g Hx Lg IA IB Ix.
      destruct (face_third (nth g faces []) A B (face_ok_nth cells faces Hfaces g Lg) NAB IA IB) as [r [P Nr]].
      assert (IVr : Inv cells A B x r).
      { split; [now apply Vn|]. split; [assumption|]. intros v Hv. apply Ix. now apply (Permutation_in _ (Permutation_sym P)). }
      destruct (FOF x r Hx IVr) as [g' [Hg' Eg']].
      assert (Eg : face_id faces [A; B; r] = Some g).
      { unfold face_id. apply id_of_complete; [apply (fw_keys _ _ Hfaces) | assumption | now apply key_of_perm]. }
      assert (g' = g) by congruence. now subst g'. }
    (* closure, hence coverage *)
    assert (COV : forall c, In c (nth e e2c []) -> In c V).
    { apply (LC (fun c => In c V)).
      - exists start. split; assumption.
      - intros x y Hx Hy [g [Lg [IA [IB [Ix Iy]]]]].
        apply (RES g (FIN x g Hx Lg IA IB Ix)).
        unfold f2c. rewrite (F2C_is_cells_with cells faces Hcells Hfaces) by assumption.
        apply (edge_to_cell_correct cells faces edges Hcells Hfaces Hedges e y He) in Hy. destruct Hy as [Ly _].
        apply filter_In. split; [apply in_seq; lia|]. now apply subsetb_incl. }
    assert (T1 : forallb (has_key kc) (nth e e2c []) = true).
    { apply forallb_forall. intros x Hx. apply has_key_In. unfold kc. simpl.
      rewrite map_app, keys_up_ku, keys_down_kd, ku_fst, kd_fst.
      apply COV in Hx. unfold V in Hx. apply in_app_or in Hx.
      destruct Hx as [Hx|[<-|Hx]]; [right; apply in_or_app; now right | now left | right; apply in_or_app; now left]. }
    assert (T2 : forallb (has_key kf) (nth e e2f []) = true).
    { apply forallb_forall. intros g Hg. apply has_key_In. unfold kf.
      rewrite map_app, keys_up_ku, keys_down_kd, ku_fst, kd_fst.
      unfold e2f in Hg. rewrite (E2F_tab faces edges) in Hg by assumption.
      rewrite (edge_to_face_correct cells faces edges Hfaces Hedges e He) in Hg.
      apply filter_In in Hg. destruct Hg as [Lg Sg]. apply in_seq in Lg. apply subsetb_incl in Sg. rewrite EE in Sg.
      destruct (Hminimal (nth g faces [])) as [C [HC IC]]; [apply nth_In; lia|].
      destruct (In_nth cells C [] HC) as [x [Lx Ex]]. subst C.
      assert (HxL : In x (nth e e2c [])).
      { apply (edge_to_cell_correct cells faces edges Hcells Hfaces Hedges e x He). split; [assumption|].
        rewrite EE. intros v Hv. apply IC. now apply Sg. }
      apply (FIN x g (COV x HxL)); [lia | apply Sg; now left | apply Sg; right; now left | assumption]. }
    fold kc kf. rewrite T1, T2. cbn [andb].
    destruct (sort_ids kc (nth e e2c [])); destruct (sort_ids kf (nth e e2f [])); intros H; inversion H; reflexivity.
  Qed.
End CoverFinal.
