(* C03 - closedness transported to the extracted surfaces (both extractors renumber the border faces through an
   injective vertex map): every pair of surface vertices lies in an even number of surface faces; exactly two for each
   edge of the surface when the boundary is a manifold (guard stated). *)
From Coq Require Import String List Arith Bool ZArith Lia Permutation.
Import ListNotations.
Require Import MV.Lib.Base MV.C03.Gen MV.C03.Model MV.C03.Run MV.C03.Proofs_Base MV.C03.Proofs_Simplex
        MV.C03.Proofs_Incidence MV.C03.Proofs_Complete MV.C03.Proofs_Incidence2 MV.C03.Proofs_Border
        MV.C03.Proofs_Orient MV.C03.Proofs_Maps MV.C03.Proofs_Closed MV.C03.Proofs_EdgeMap.
Local Open Scope nat_scope.

Lemma Forall2_filter_length {A B} (R : A -> B -> Prop) (p : A -> bool) (q : B -> bool) l r :
  Forall2 R l r -> (forall x y, R x y -> p x = q y) -> length (filter p l) = length (filter q r).
Proof.
  induction 1 as [|a b t s Hab _ IH]; intros E; simpl; [reflexivity|].
  rewrite (E a b Hab). destruct (q b); simpl; now rewrite IH.
Qed.

Lemma map_opt_Forall2 {A B} (f : A -> option B) l r : map_opt f l = Some r -> Forall2 (fun x y => f x = Some y) l r.
Proof.
  revert r. induction l as [|x t IH]; simpl; intros r H; [inversion H; constructor|].
  destruct (f x) eqn:E; [|discriminate]. destruct (map_opt f t); [|discriminate]. inversion H; subst.
  constructor; [assumption|now apply IH].
Qed.

Section Surface.
  Variables (cells faces : list (list nat)).
  Hypothesis Hcells : Forall cell_ok cells.
  Hypothesis Hfaces : faces_wf cells faces.
  Hypothesis Hconf : conforming cells.
  Hypothesis Hminimal : forall F, In F faces -> exists C, In C cells /\ incl F C.
  Let f2c := f2c_tab faces (c2f_tab cells faces).
  Let bf := boundary_faces faces f2c.
  Variable vs : list nat.
  Hypothesis NDvs : NoDup vs.

  (* membership is preserved by the renumbering *)
  Lemma renumbers_mem T F a u : renumbers vs T F -> b2m vs a = Some u -> (memb a T = memb u F).
  Proof.
    intros [x [y [z [p [q [r [-> [Ex [Ey [Ez P]]]]]]]]]] Ea. apply bool_eq_iff. rewrite !memb_In. split.
    - intros [<-|[<-|[<-|[]]]]; apply (Permutation_in _ P);
        [left | right; left | right; right; left]; congruence.
    - intros Hu. apply (Permutation_in _ (Permutation_sym P)) in Hu.
      apply (b2m_m2b vs u a NDvs) in Ea.
      destruct Hu as [<-|[<-|[<-|[]]]].
      + apply (b2m_m2b vs p x NDvs) in Ex. left. congruence.
      + apply (b2m_m2b vs q y NDvs) in Ey. right. left. congruence.
      + apply (b2m_m2b vs r z NDvs) in Ez. right. right. left. congruence.
  Qed.

  Lemma renumbers_pair T F a1 a2 u v :
    renumbers vs T F -> b2m vs a1 = Some u -> b2m vs a2 = Some v -> subsetb [a1; a2] T = subsetb [u; v] F.
  Proof.
    intros R E1 E2. unfold subsetb. cbn [forallb].
    now rewrite (renumbers_mem T F a1 u R E1), (renumbers_mem T F a2 v R E2).
  Qed.

  (* any list of surface faces that renumbers the border faces one by one *)
  Variable sfaces : list (list nat).
  Hypothesis Hs : Forall2 (fun f T => renumbers vs T (nth f faces [])) bf sfaces.

  Theorem surface_closed a1 a2 u v :
    b2m vs a1 = Some u -> b2m vs a2 = Some v -> a1 <> a2 ->
    Nat.even (length (filter (fun T => subsetb [a1; a2] T) sfaces)) = true.
  Proof.
    intros E1 E2 N.
    assert (Nuv : u <> v).
    { intros ->. apply N. apply (b2m_m2b vs v a1 NDvs) in E1. apply (b2m_m2b vs v a2 NDvs) in E2. congruence. }
    assert (OK : edge_ok [u; v]).
    { split; [reflexivity|]. constructor; [intros [H|[]]; now apply Nuv | constructor; [intros []|constructor]]. }
    rewrite <- (Forall2_filter_length _ (fun f => subsetb [u; v] (nth f faces [])) _ _ _ Hs).
    - apply (border_faces_around_even cells faces Hcells Hfaces Hconf Hminimal [u; v] OK).
    - intros f T R. symmetry. now apply renumbers_pair.
  Qed.

  (* manifold boundary: a pair of vertices lies in at most two border faces *)
  Definition manifold_boundary : Prop :=
    forall u v, u <> v -> length (filter (fun f => subsetb [u; v] (nth f faces [])) bf) <= 2.

  Theorem surface_edges_have_two_faces :
    manifold_boundary ->
    forall T a1 a2, In T sfaces -> In a1 T -> In a2 T -> a1 <> a2 ->
    length (filter (fun T' => subsetb [a1; a2] T') sfaces) = 2.
  Proof.
    intros MB T a1 a2 HT I1 I2 N.
    destruct (Forall2_In_r _ _ _ _ Hs HT) as [f [Hf R]].
    assert (G : forall a, In a T -> exists u, b2m vs a = Some u).
    { destruct R as [x [y [z [p [q [r [-> [Ex [Ey [Ez _]]]]]]]]]]. intros a [<-|[<-|[<-|[]]]]; eauto. }
    destruct (G a1 I1) as [u E1]. destruct (G a2 I2) as [v E2].
    pose proof (surface_closed a1 a2 u v E1 E2 N) as EV.
    assert (Nuv : u <> v).
    { intros ->. apply N. apply (b2m_m2b vs v a1 NDvs) in E1. apply (b2m_m2b vs v a2 NDvs) in E2. congruence. }
    assert (LE : length (filter (fun T' => subsetb [a1; a2] T') sfaces) <= 2).
    { rewrite <- (Forall2_filter_length _ (fun f => subsetb [u; v] (nth f faces [])) _ _ _ Hs).
      - now apply MB.
      - intros f' T' R'. symmetry. now apply renumbers_pair. }
    assert (GE : 1 <= length (filter (fun T' => subsetb [a1; a2] T') sfaces)).
    { assert (X : In T (filter (fun T' => subsetb [a1; a2] T') sfaces)).
      { apply filter_In. split; [assumption|]. apply subsetb_incl. intros w [<-|[<-|[]]]; assumption. }
      destruct (filter _ sfaces); [contradiction|cbn [length]; lia]. }
    destruct (length (filter (fun T' => subsetb [a1; a2] T') sfaces)) as [|[|[|k]]]; try lia. discriminate.
  Qed.
End Surface.

(* both extractors produce such a renumbering *)
Lemma bc_faces_renumber cells faces pos vs bf bfs :
  bc_faces cells faces pos (f2c_tab faces (c2f_tab cells faces)) vs bf = Ok bfs -> Forall2 (fun f T => renumbers vs T (nth f faces [])) bf bfs.
Proof.
  intros H. apply map_res_ok in H. induction H as [|f T t s E _ IH]; constructor; [|assumption].
  now apply (bc_face_renumbers cells faces pos).
Qed.

Lemma ex_face_renumbers cells faces pos f2c vs f T :
  face_ok (nth f faces []) -> ex_face cells faces pos f2c vs f = Ok T -> renumbers vs T (nth f faces []).
Proof.
  intros OK. destruct (face_ok_shape _ OK) as [a [b [c EF]]]. unfold ex_face. rewrite ex_face_order_id, EF.
  destruct (map_opt (m2b vs) [a; b; c]) as [face|] eqn:M; [|discriminate].
  destruct (map_opt_three _ _ _ _ _ M) as [x [y [z [-> [Ma [Mb Mc]]]]]].
  apply m2b_b2m in Ma, Mb, Mc.
  assert (R1 : renumbers vs [x; y; z] [a; b; c]) by (exists x, y, z, a, b, c; repeat split; assumption || reflexivity).
  assert (R2 : renumbers vs [x; z; y] [a; b; c]).
  { exists x, z, y, a, c, b. repeat split; try assumption; try reflexivity. apply perm_skip, perm_swap. }
  destruct (ex_orient_guard (length [x; y; z]) (length (F2C f2c f))).
  - destruct (F2C f2c f) as [|iC rest]; [discriminate|].
    destruct (others (nth iC cells []) [a; b; c]) as [|d r']; [discriminate|].
    rewrite ex_flip_def. destruct (ex_flip_test (pos a) (pos b) (pos c) (pos d)); intros H; inversion H; subst; assumption.
  - intros H. inversion H; subst. assumption.
Qed.

Lemma ex_faces_renumber cells faces pos f2c vs bf xfs :
  Forall face_ok faces -> (forall f, In f bf -> f < length faces) ->
  ex_faces cells faces pos f2c vs bf = Ok xfs -> Forall2 (fun f T => renumbers vs T (nth f faces [])) bf xfs.
Proof.
  intros HF HB H. apply map_res_ok in H.
  assert (G : forall f T, In f bf -> ex_face cells faces pos f2c vs f = Ok T -> renumbers vs T (nth f faces [])).
  { intros f T Hf E. apply (ex_face_renumbers cells faces pos f2c); [|assumption].
    apply (proj1 (Forall_forall _ _) HF). apply nth_In. now apply HB. }
  clear HB. revert G. generalize dependent xfs. induction bf as [|f t IH]; intros xfs H G; inversion H; subst; constructor.
  - apply G; [now left|assumption].
  - apply IH; [assumption|]. intros f' T' Hf'. apply G. now right.
Qed.
