(* C03 - orientation: the test of _extract_surface_boundary (Gen.v) against the geometric meaning of "outward" *)
From Coq Require Import String List Arith Bool ZArith Lia.
Import ListNotations.
Require Import MV.Lib.Base MV.C03.Gen MV.C03.Model.
Open Scope Z_scope.

(* det(pA-pD, pB-pD, pC-pD) = - ((B-A) x (C-A)) . (D-A) *)
Lemma det_is_minus_triple (a b c d : vec) :
  det_3x3 (vsub3 a d) (vsub3 b d) (vsub3 c d) = - dot3 (cross3 (vsub3 b a) (vsub3 c a)) (vsub3 d a).
Proof.
  destruct a as [[a0 a1] a2], b as [[b0 b1] b2], c as [[c0 c1] c2], d as [[d0 d1] d2].
  unfold det_3x3, vsub3, dot3, cross3. ring.
Qed.

Lemma orient_test_iff_outward (a b c d : vec) : orient_test_Z a b c d = outward_Z a b c d.
Proof.
  unfold orient_test_Z, outward_Z. rewrite det_is_minus_triple.
  destruct (0 <? _) eqn:E1; destruct (_ <? 0) eqn:E2; lia.
Qed.
