(* C03 - orientation: the test of _extract_surface_boundary (Gen.v) against the geometric meaning of "outward" *)
From Coq Require Import String List Arith Bool ZArith Lia Permutation.
Import ListNotations.
Require Import MV.Lib.Base MV.C03.Gen MV.C03.Model.
Local Open Scope Z_scope.

(* det(pA-pD, pB-pD, pC-pD) = - ((B-A) x (C-A)) . (D-A) *)
Lemma det_is_minus_triple (a b c d : vec) :
  det_3x3 (vsub3 a d) (vsub3 b d) (vsub3 c d) = - dot3 (cross3 (vsub3 b a) (vsub3 c a)) (vsub3 d a).
Proof.
  destruct a as [[a0 a1] a2], b as [[b0 b1] b2], c as [[c0 c1] c2], d as [[d0 d1] d2].
  unfold det_3x3, vsub3, dot3, cross3. ring.
Qed.

Lemma orient_test_iff_outward (a b c d : vec) : orient_test_Z a b c d = outward_Z a b c d.
Proof.
  unfold orient_test_Z, outward_Z. rewrite det_is_minus_triple.
  destruct (0 <? _) eqn:E1; destruct (_ <? 0) eqn:E2; lia.
Qed.

Lemma det_swap_last (u v w : vec) : det_3x3 u w v = - det_3x3 u v w.
Proof.
  destruct u as [[u0 u1] u2], v as [[v0 v1] v2], w as [[w0 w1] w2]. unfold det_3x3. ring.
Qed.

Lemma orient_then_def {A} (x y z : A) : orient_then x y z = [x; y; z].
Proof. reflexivity. Qed.
Lemma orient_else_def {A} (x y z : A) : orient_else x y z = [x; z; y].
Proof. reflexivity. Qed.

(* whichever branch is taken, the emitted triple is outward for a non-degenerate cell *)
Lemma orient_branch_outward (a b c d : vec) :
  det_3x3 (vsub3 a d) (vsub3 b d) (vsub3 c d) <> 0 ->
  if orient_test_Z a b c d then outward_Z a b c d = true else outward_Z a c b d = true.
Proof.
  intros ND. destruct (orient_test_Z a b c d) eqn:T.
  - now rewrite <- orient_test_iff_outward.
  - rewrite <- orient_test_iff_outward. unfold orient_test_Z in *.
    rewrite det_swap_last. apply Z.ltb_lt. apply Z.ltb_ge in T. lia.
Qed.

(* ------------------------------------------------------------------ m2b / b2m *)
Close Scope Z_scope.
Lemma index_first_sound p l k j :
  index_first p l k = Some j -> k <= j /\ exists x, nth_error l (j - k) = Some x /\ p x = true.
Proof.
  revert k. induction l as [|x t IH]; simpl; intros k H; [discriminate|].
  destruct (p x) eqn:P.
  - inversion H; subst. split; [lia|]. rewrite Nat.sub_diag. now exists x.
  - apply IH in H. destruct H as [L [y [E Py]]]. split; [lia|].
    replace (j - k) with (S (j - S k)) by lia. now exists y.
Qed.

Lemma m2b_b2m vs v i : m2b vs v = Some i -> b2m vs i = Some v.
Proof.
  unfold m2b, b2m. intros H. apply index_first_sound in H. destruct H as [_ [x [E P]]].
  rewrite Nat.sub_0_r in E. apply Nat.eqb_eq in P. now subst.
Qed.

Lemma index_first_complete v l k j :
  NoDup l -> nth_error l j = Some v -> index_first (Nat.eqb v) l k = Some (k + j).
Proof.
  revert k j. induction l as [|x t IH]; intros k j ND E; [destruct j; discriminate|].
  simpl. destruct j as [|j]; simpl in E.
  - inversion E; subst. rewrite Nat.eqb_refl. f_equal. lia.
  - inversion ND as [|? ? Hx ND']; subst.
    destruct (v =? x) eqn:V.
    + apply Nat.eqb_eq in V. subst. exfalso. apply Hx. eapply nth_error_In; eassumption.
    + rewrite (IH (S k) j ND' E). f_equal. lia.
Qed.

Lemma b2m_m2b vs v i : NoDup vs -> b2m vs i = Some v -> m2b vs v = Some i.
Proof. unfold m2b, b2m. intros ND H. now rewrite (index_first_complete v vs 0 i ND H). Qed.

(* vertex index maps are mutually inverse for every duplicate-free enumeration of the border vertices *)
Theorem vertex_maps_inverse vs v i : NoDup vs -> (m2b vs v = Some i <-> b2m vs i = Some v).
Proof. intros ND. split; [apply m2b_b2m | now apply b2m_m2b]. Qed.

(* ------------------------------------------------------------------ _BoundaryConnectivity faces *)
Theorem bc_face_outward cells faces pos f2c vs iF T :
  bc_face cells faces pos f2c vs iF = Ok T ->
  exists a b c d iC p q r,
    nth iF faces [] = [a; b; c] /\ hd_error (F2C f2c iF) = Some iC
    /\ hd_error (others (nth iC cells []) [a; b; c]) = Some d
    /\ map (b2m vs) T = [Some p; Some q; Some r]
    /\ Permutation [p; q; r] [a; b; c]
    /\ (det_3x3 (vsub3 (pos a) (pos d)) (vsub3 (pos b) (pos d)) (vsub3 (pos c) (pos d)) <> 0%Z ->
        outward_Z (pos p) (pos q) (pos r) (pos d) = true).
Proof.
  unfold bc_face. destruct (F2C f2c iF) as [|iC rest] eqn:E1; [discriminate|].
  destruct (nth iF faces []) as [|a [|b [|c [|? ?]]]] eqn:E2; try discriminate.
  destruct (others (nth iC cells []) [a; b; c]) as [|d rest'] eqn:E3; [discriminate|].
  destruct (m2b vs a) as [ba|] eqn:Ma; [|discriminate].
  destruct (m2b vs b) as [bb|] eqn:Mb; [|discriminate].
  destruct (m2b vs c) as [bc|] eqn:Mc; [|discriminate].
  apply m2b_b2m in Ma, Mb, Mc. intros H. inversion H; subst T; clear H.
  pose proof (orient_branch_outward (pos a) (pos b) (pos c) (pos d)) as OB.
  destruct (orient_test_Z (pos a) (pos b) (pos c) (pos d)).
  - exists a, b, c, d, iC, a, b, c. rewrite orient_then_def. cbn [map]. rewrite Ma, Mb, Mc.
    split; [reflexivity|]. split; [reflexivity|]. split; [now rewrite E3|].
    split; [reflexivity|]. split; [reflexivity|exact OB].
  - exists a, b, c, d, iC, a, c, b. rewrite orient_else_def. cbn [map]. rewrite Ma, Mb, Mc.
    split; [reflexivity|]. split; [reflexivity|]. split; [now rewrite E3|].
    split; [reflexivity|]. split; [apply perm_skip, perm_swap | exact OB].
Qed.

(* ------------------------------------------------------------------ extract_boundary_of_volume (after 832f457) *)
Lemma ex_face_order_id {A} (l : list A) : ex_face_order l = l.
Proof. reflexivity. Qed.
Lemma ex_orient_guard_spec nf nc : ex_orient_guard nf nc = true <-> nf = 3 /\ 0 < nc.
Proof. unfold ex_orient_guard. rewrite andb_true_iff, Nat.eqb_eq, Nat.ltb_lt. tauto. Qed.
Lemma ex_flip_test_spec a b c d : ex_flip_test a b c d = negb (orient_test_Z a b c d).
Proof. reflexivity. Qed.
Lemma ex_flip_def {A} (x0 x1 x2 : A) : ex_flip x0 x1 x2 = [x0; x2; x1].
Proof. reflexivity. Qed.

Lemma map_opt_three {A B} (f : A -> option B) a b c l :
  map_opt f [a; b; c] = Some l -> exists x y z, l = [x; y; z] /\ f a = Some x /\ f b = Some y /\ f c = Some z.
Proof.
  cbn [map_opt]. destruct (f a) as [x|]; [|discriminate]. destruct (f b) as [y|]; [|discriminate].
  destruct (f c) as [z|]; [|discriminate]. intros H. inversion H. now exists x, y, z.
Qed.

(* a triangle that lies in a cell comes out renumbered and outward, exactly like _BoundaryConnectivity's *)
Theorem ex_face_outward cells faces pos f2c vs iF T :
  ex_face cells faces pos f2c vs iF = Ok T -> length (nth iF faces []) = 3 -> F2C f2c iF <> [] ->
  exists a b c d iC p q r,
    nth iF faces [] = [a; b; c] /\ hd_error (F2C f2c iF) = Some iC
    /\ hd_error (others (nth iC cells []) [a; b; c]) = Some d
    /\ map (b2m vs) T = [Some p; Some q; Some r]
    /\ Permutation [p; q; r] [a; b; c]
    /\ (det_3x3 (vsub3 (pos a) (pos d)) (vsub3 (pos b) (pos d)) (vsub3 (pos c) (pos d)) <> 0%Z ->
        outward_Z (pos p) (pos q) (pos r) (pos d) = true).
Proof.
  unfold ex_face. rewrite ex_face_order_id. intros H L3 NE.
  destruct (nth iF faces []) as [|a [|b [|c [|? ?]]]] eqn:E2; try discriminate.
  destruct (map_opt (m2b vs) [a; b; c]) as [face|] eqn:M; [|discriminate].
  destruct (map_opt_three _ _ _ _ _ M) as [x [y [z [-> [Ma [Mb Mc]]]]]].
  destruct (F2C f2c iF) as [|iC rest] eqn:E1; [congruence|].
  assert (G : ex_orient_guard (length [x; y; z]) (length (iC :: rest)) = true)
    by (apply ex_orient_guard_spec; cbn [length]; lia).
  rewrite G in H.
  destruct (others (nth iC cells []) [a; b; c]) as [|d rest'] eqn:E3; [discriminate|].
  apply m2b_b2m in Ma, Mb, Mc. inversion H; subst T; clear H.
  pose proof (orient_branch_outward (pos a) (pos b) (pos c) (pos d)) as OB.
  rewrite ex_flip_test_spec. destruct (orient_test_Z (pos a) (pos b) (pos c) (pos d)); cbn [negb].
  - exists a, b, c, d, iC, a, b, c. cbn [map]. rewrite Ma, Mb, Mc.
    split; [reflexivity|]. split; [reflexivity|]. split; [now rewrite E3|].
    split; [reflexivity|]. split; [reflexivity|exact OB].
  - exists a, b, c, d, iC, a, c, b. rewrite ex_flip_def. cbn [map]. rewrite Ma, Mb, Mc.
    split; [reflexivity|]. split; [reflexivity|]. split; [now rewrite E3|].
    split; [reflexivity|]. split; [apply perm_skip, perm_swap | exact OB].
Qed.

(* the two extractors emit the same triangle for the same enumeration of the border vertices *)
Theorem extractors_agree cells faces pos f2c vs iF :
  length (nth iF faces []) = 3 -> F2C f2c iF <> [] ->
  ex_face cells faces pos f2c vs iF = bc_face cells faces pos f2c vs iF.
Proof.
  intros L3 NE. unfold ex_face, bc_face. rewrite ex_face_order_id.
  destruct (nth iF faces []) as [|a [|b [|c [|? ?]]]] eqn:E2; try discriminate.
  destruct (F2C f2c iF) as [|iC rest] eqn:E1; [congruence|].
  cbn [map_opt].
  destruct (m2b vs a) as [x|]; [|destruct (others (nth iC cells []) [a; b; c]); reflexivity].
  destruct (m2b vs b) as [y|]; [|destruct (others (nth iC cells []) [a; b; c]); reflexivity].
  destruct (m2b vs c) as [z|]; [|destruct (others (nth iC cells []) [a; b; c]); reflexivity].
  assert (G : ex_orient_guard (length [x; y; z]) (length (iC :: rest)) = true)
    by (apply ex_orient_guard_spec; cbn [length]; lia).
  rewrite G. destruct (others (nth iC cells []) [a; b; c]) as [|d r']; [reflexivity|].
  rewrite ex_flip_test_spec, ex_flip_def, orient_then_def, orient_else_def.
  destruct (orient_test_Z (pos a) (pos b) (pos c) (pos d)); reflexivity.
Qed.

(* ------------------------------------------------------------------ the convention order (standalone extractor) *)
Local Open Scope Z_scope.
(* a cell (A,B,C,D) is positive in mouette's own determinant det(pA-pD, pB-pD, pC-pD) (attr_cells.cell_volume) *)
Definition cell_positive (pos : nat -> vec) (C : list nat) : Prop :=
  match C with
  | [v0; v1; v2; v3] => 0 < det_3x3 (vsub3 (pos v0) (pos v3)) (vsub3 (pos v1) (pos v3)) (vsub3 (pos v2) (pos v3))
  | _ => False
  end.
Definition face_outward (pos : nat -> vec) (F : list nat) (d : nat) : Prop :=
  match F with
  | [a; b; c] => outward_Z (pos a) (pos b) (pos c) (pos d) = true
  | _ => False
  end.

Theorem convention_faces_outward pos v0 v1 v2 v3 i :
  cell_positive pos [v0; v1; v2; v3] -> (i < 4)%nat ->
  face_outward pos (nth i (tet_faces_completion v0 v1 v2 v3) []) (nth i [v0; v1; v2; v3] 0%nat).
Proof.
  unfold cell_positive. intros P Hi.
  destruct (pos v0) as [[x0 y0] z0] eqn:E0, (pos v1) as [[x1 y1] z1] eqn:E1,
           (pos v2) as [[x2 y2] z2] eqn:E2, (pos v3) as [[x3 y3] z3] eqn:E3.
  unfold det_3x3, vsub3 in P.
  destruct i as [|[|[|[|]]]]; try lia; cbn [nth tet_faces_completion face_outward];
    rewrite ?E0, ?E1, ?E2, ?E3; unfold outward_Z, dot3, cross3, vsub3; apply Z.ltb_lt; lia.
Qed.

(* with the opposite (right-handed) sign convention det(p1-p0, p2-p0, p3-p0) > 0 the same faces all point inwards *)
Theorem convention_faces_inward_if_right_handed pos v0 v1 v2 v3 i :
  0 < det_3x3 (vsub3 (pos v1) (pos v0)) (vsub3 (pos v2) (pos v0)) (vsub3 (pos v3) (pos v0)) -> (i < 4)%nat ->
  match nth i (tet_faces_completion v0 v1 v2 v3) [] with
  | [a; b; c] => outward_Z (pos a) (pos c) (pos b) (pos (nth i [v0; v1; v2; v3] 0%nat)) = true
  | _ => False
  end.
Proof.
  intros P Hi.
  destruct (pos v0) as [[x0 y0] z0] eqn:E0, (pos v1) as [[x1 y1] z1] eqn:E1,
           (pos v2) as [[x2 y2] z2] eqn:E2, (pos v3) as [[x3 y3] z3] eqn:E3.
  unfold det_3x3, vsub3 in P.
  destruct i as [|[|[|[|]]]]; try lia; cbn [nth tet_faces_completion];
    rewrite ?E0, ?E1, ?E2, ?E3; unfold outward_Z, dot3, cross3, vsub3; apply Z.ltb_lt; lia.
Qed.
Close Scope Z_scope.
