(* C03 - sorting the faces of an edge by the walk keys (dict with overwriting: the backward walk's keys win). *)
From Coq Require Import String List Arith Bool ZArith Lia Permutation Sorted.
Import ListNotations.
Require Import MV.Lib.Base MV.C03.Gen MV.C03.Model MV.C03.Proofs_Base MV.C03.Proofs_Simplex MV.C03.Proofs_Incidence MV.C03.Proofs_Complete MV.C03.Proofs_Sort.
Local Open Scope nat_scope.

Lemma lookup_last_app k l1 l2 :
  lookup_last k (l1 ++ l2) = match lookup_last k l2 with Some z => Some z | None => lookup_last k l1 end.
Proof.
  induction l1 as [|[a w] t IH]; simpl; [now destruct (lookup_last k l2)|].
  rewrite IH. destruct (lookup_last k l2); [reflexivity|]. reflexivity.
Qed.

Lemma lookup_last_none k l : ~ In k (map fst l) -> lookup_last k l = None.
Proof.
  intros N. destruct (lookup_last k l) as [z|] eqn:E; [|reflexivity].
  exfalso. apply N. apply lookup_last_In in E. apply in_map_iff. now exists (k, z).
Qed.

Lemma ku_app j l1 l2 : ku j (l1 ++ l2) = ku j l1 ++ ku (j + length l1) l2.
Proof.
  revert j. induction l1 as [|x t IH]; intros j; simpl; [now rewrite Nat.add_0_r|].
  unfold ku in *. simpl. f_equal. rewrite app_length in *. specialize (IH (S j)).
  replace (j + S (length t)) with (S j + length t) by lia. exact IH.
Qed.

Lemma NoDup_prefix {A} (l t : list A) : NoDup (l ++ t) -> NoDup l.
Proof.
  induction l as [|a r IH]; simpl; intros H; [constructor|]. inversion H as [|? ? Na Nr]; subst.
  constructor; [|now apply IH]. intros I. apply Na. apply in_or_app. now left.
Qed.

Definition face_pairs (fs1' fs2 : list nat) : list (nat * Z) := rev (keys_down fs2) ++ keys_up fs1'.

Lemma face_pairs_sorted fs1' fs2 : StronglySorted keylt (face_pairs fs1' fs2).
Proof.
  unfold face_pairs. rewrite keys_up_ku, keys_down_kd. apply SS_app.
  - apply SS_rev. apply kd_sorted.
  - apply ku_sorted.
  - intros x y Hx Hy. apply in_rev in Hx. apply kd_bound in Hx. apply ku_bound in Hy. unfold keylt. lia.
Qed.

Lemma face_pairs_fst fs1' fs2 : map fst (face_pairs fs1' fs2) = rev fs2 ++ fs1'.
Proof. unfold face_pairs. rewrite map_app, map_rev, keys_up_ku, keys_down_kd. now rewrite ku_fst, kd_fst. Qed.

(* fs1 = fs1' ++ t where the dropped tail t was re-keyed by the backward walk *)
Theorem sort_faces_is fs1 fs2 fs1' t l :
  NoDup fs1 -> NoDup fs2 -> fs1 = fs1' ++ t -> (forall g, In g t -> In g fs2) ->
  (forall g, In g fs1' -> ~ In g fs2) -> NoDup l -> (forall g, In g l <-> In g fs1 \/ In g fs2) ->
  sort_ids (keys_up fs1 ++ keys_down fs2) l = Ok (rev fs2 ++ fs1').
Proof.
  intros N1 N2 E1 Ht D NL EQ. set (kf := keys_up fs1 ++ keys_down fs2).
  assert (FK : map fst kf = fs1 ++ fs2).
  { unfold kf. rewrite map_app, keys_up_ku, keys_down_kd, ku_fst, kd_fst. reflexivity. }
  assert (HK : forallb (has_key kf) l = true).
  { apply forallb_forall. intros x Hx. apply has_key_In. rewrite FK. apply in_or_app. now apply EQ. }
  destruct (sort_ids_spec kf l HK) as [O [E [P [F S]]]]. rewrite E. f_equal.
  rewrite <- (face_pairs_fst fs1' fs2). f_equal.
  apply sorted_unique; [apply face_pairs_sorted | assumption |].
  set (g := fun x => (x, match lookup_last x kf with Some z => z | None => 0%Z end)).
  assert (GO : O = map g (map fst O)).
  { rewrite map_map. rewrite <- (map_id O) at 1. apply map_ext_in. intros [x z] Hp.
    rewrite Forall_forall in F. specialize (F _ Hp). cbn [fst snd] in F. unfold g. cbn [fst]. now rewrite F. }
  assert (LK : forall p, In p (face_pairs fs1' fs2) -> lookup_last (fst p) kf = Some (snd p)).
  { intros [x z] Hp. unfold face_pairs in Hp. apply in_app_or in Hp. cbn [fst snd]. unfold kf. rewrite lookup_last_app.
    destruct Hp as [Hp|Hp].
    - apply in_rev in Hp. rewrite (lookup_last_complete x (keys_down fs2) z); [reflexivity| |assumption].
      now rewrite keys_down_kd, kd_fst.
    - assert (Ix : In x fs1') by (rewrite <- (ku_fst 0 fs1'), <- keys_up_ku; apply in_map_iff; now exists (x, z)).
      rewrite lookup_last_none by (rewrite keys_down_kd, kd_fst; now apply D).
      apply lookup_last_complete; [now rewrite keys_up_ku, ku_fst|].
      rewrite keys_up_ku, E1, ku_app. apply in_or_app. left. now rewrite <- keys_up_ku. }
  assert (GL : face_pairs fs1' fs2 = map g (map fst (face_pairs fs1' fs2))).
  { rewrite map_map. rewrite <- (map_id (face_pairs fs1' fs2)) at 1. apply map_ext_in. intros [x z] Hp.
    pose proof (LK _ Hp) as Q. cbn [fst snd] in Q. unfold g. cbn [fst]. now rewrite Q. }
  rewrite GO, GL. apply Permutation_map. rewrite P, face_pairs_fst.
  apply NoDup_Permutation; [assumption| |].
  - apply NoDup_app_intro'.
    + apply (Permutation_NoDup (Permutation_rev fs2)). assumption.
    + rewrite E1 in N1. now apply NoDup_prefix in N1.
    + intros x H2 H1. apply in_rev in H2. now apply (D x).
  - intros x. rewrite EQ, in_app_iff, <- in_rev, E1, in_app_iff. split.
    + intros [[H|H]|H]; [now right | left; now apply Ht | now left].
    + intros [H|H]; [now right | left; now left].
Qed.
