(* C03 - `list.sort(key = dict lookup)` as modelled by sort_by: a permutation, sorted by key, and therefore equal to
   THE strictly increasing arrangement when one exists; the key tables written by the two walks. *)
From Coq Require Import String List Arith Bool ZArith Lia Permutation Sorted.
Import ListNotations.
Require Import MV.Lib.Base MV.C03.Gen MV.C03.Model MV.C03.Proofs_Base.
Local Open Scope nat_scope.

Definition keyle (a b : nat * Z) : Prop := (snd a <= snd b)%Z.
Definition keylt (a b : nat * Z) : Prop := (snd a < snd b)%Z.

Lemma insert_by_perm x l : Permutation (x :: l) (insert_by x l).
Proof.
  induction l as [|y t IH]; simpl; [reflexivity|].
  destruct (snd x <=? snd y)%Z; [reflexivity|]. rewrite perm_swap. now apply perm_skip.
Qed.

Lemma insert_by_sorted x l : StronglySorted keyle l -> StronglySorted keyle (insert_by x l).
Proof.
  induction 1 as [|y t SS IH F]; simpl; [constructor; constructor|].
  destruct (snd x <=? snd y)%Z eqn:E.
  - apply Z.leb_le in E. constructor; [now constructor|]. constructor; [exact E|].
    eapply Forall_impl; [|exact F]. intros a Ha. unfold keyle in *. lia.
  - apply Z.leb_gt in E. constructor; [assumption|].
    apply (Permutation_Forall (insert_by_perm x t)). constructor; [unfold keyle; lia|assumption].
Qed.

Lemma sort_by_spec keys l O :
  sort_by keys l = Ok O ->
  Permutation (map fst O) l /\ Forall (fun p => lookup_last (fst p) keys = Some (snd p)) O /\ StronglySorted keyle O.
Proof.
  revert O. induction l as [|x t IH]; simpl; intros O H.
  - inversion H; subst. repeat split; constructor.
  - destruct (lookup_last x keys) as [z|] eqn:L; [|discriminate].
    destruct (sort_by keys t) as [r| |]; try discriminate. inversion H; subst.
    destruct (IH r eq_refl) as [P [F S]]. split; [|split].
    + rewrite <- (Permutation_map fst (insert_by_perm (x, z) r)). simpl. now apply perm_skip.
    + apply (Permutation_Forall (insert_by_perm (x, z) r)). constructor; [exact L|assumption].
    + now apply insert_by_sorted.
Qed.

Lemma sort_by_total keys l : forallb (has_key keys) l = true -> exists O, sort_by keys l = Ok O.
Proof.
  induction l as [|x t IH]; simpl; intros H; [now exists []|].
  apply andb_true_iff in H. destruct H as [H1 H2]. destruct (IH H2) as [r ->].
  unfold has_key in H1. destruct (lookup_last x keys) as [z|]; [|discriminate]. now eexists.
Qed.

Lemma sort_ids_spec keys l :
  forallb (has_key keys) l = true ->
  exists O, sort_ids keys l = Ok (map fst O) /\ Permutation (map fst O) l
            /\ Forall (fun p => lookup_last (fst p) keys = Some (snd p)) O /\ StronglySorted keyle O.
Proof.
  intros H. destruct (sort_by_total keys l H) as [O E]. exists O. unfold sort_ids. rewrite E.
  split; [reflexivity|]. now apply sort_by_spec.
Qed.

(* a key-sorted permutation of a strictly key-increasing list is that list *)
Lemma sorted_unique L : forall O,
  StronglySorted keylt L -> StronglySorted keyle O -> Permutation O L -> O = L.
Proof.
  induction L as [|a t IH]; intros O SL SO P.
  - apply Permutation_sym in P. now apply Permutation_nil in P.
  - destruct O as [|b s]; [apply Permutation_nil in P; discriminate|].
    inversion SL as [|? ? SLt Fa]; subst. inversion SO as [|? ? SOs Fb]; subst.
    assert (E : a = b).
    { assert (Ia : In a (b :: s)) by (apply (Permutation_in _ (Permutation_sym P)); now left).
      assert (Ib : In b (a :: t)) by (apply (Permutation_in _ P); now left).
      destruct Ia as [->|Ia]; [reflexivity|]. destruct Ib as [->|Ib]; [reflexivity|].
      rewrite Forall_forall in Fa, Fb. specialize (Fa b Ib). specialize (Fb a Ia).
      unfold keylt, keyle in *. lia. }
    subst b. f_equal. apply IH; try assumption. now apply Permutation_cons_inv in P.
Qed.

(* ------------------------------------------------------------------ dict lookups *)
Lemma lookup_last_In k l z : lookup_last k l = Some z -> In (k, z) l.
Proof.
  induction l as [|[a w] t IH]; simpl; [discriminate|].
  destruct (lookup_last k t) eqn:E.
  - intros H. inversion H; subst. right. now apply IH.
  - destruct (a =? k) eqn:A; [|discriminate]. intros H. inversion H; subst.
    apply Nat.eqb_eq in A. subst. now left.
Qed.

Lemma lookup_last_complete k l z : NoDup (map fst l) -> In (k, z) l -> lookup_last k l = Some z.
Proof.
  induction l as [|[a w] t IH]; simpl; intros ND I; [contradiction|].
  inversion ND as [|? ? Ha ND']; subst. destruct I as [E|I].
  - inversion E; subst. destruct (lookup_last k t) eqn:G.
    + exfalso. apply Ha. apply lookup_last_In in G. apply in_map_iff. now exists (k, z0).
    + now rewrite Nat.eqb_refl.
  - now rewrite (IH ND' I).
Qed.

Lemma has_key_In k l : has_key l k = true <-> In k (map fst l).
Proof.
  unfold has_key. split.
  - destruct (lookup_last k l) eqn:E; [|discriminate]. intros _. apply lookup_last_In in E.
    apply in_map_iff. now exists (k, z).
  - intros I. induction l as [|[a w] t IH]; simpl in *; [contradiction|].
    destruct (lookup_last k t); [reflexivity|]. destruct I as [->|I]; [now rewrite Nat.eqb_refl|].
    specialize (IH I). discriminate.
Qed.

(* ------------------------------------------------------------------ the key tables of the walks *)
Definition ku (j : nat) (l : list nat) : list (nat * Z) :=
  combine l (map (fun i => Z.of_nat (S i)) (seq j (length l))).
Definition kd (j : nat) (l : list nat) : list (nat * Z) :=
  combine l (map (fun i => (- Z.of_nat (S i))%Z) (seq j (length l))).

Lemma keys_up_ku l : keys_up l = ku 0 l.
Proof. reflexivity. Qed.
Lemma keys_down_kd l : keys_down l = kd 0 l.
Proof. reflexivity. Qed.

Lemma ku_fst j l : map fst (ku j l) = l.
Proof. revert j. induction l as [|x t IH]; intros j; simpl; [reflexivity|]. unfold ku in IH. now rewrite IH. Qed.
Lemma kd_fst j l : map fst (kd j l) = l.
Proof. revert j. induction l as [|x t IH]; intros j; simpl; [reflexivity|]. unfold kd in IH. now rewrite IH. Qed.

Lemma ku_bound j l p : In p (ku j l) -> (Z.of_nat j < snd p)%Z.
Proof.
  revert j. induction l as [|x t IH]; intros j; simpl; [contradiction|].
  intros [<-|H]; [simpl; lia|]. apply (IH (S j)) in H. lia.
Qed.
Lemma kd_bound j l p : In p (kd j l) -> (snd p < - Z.of_nat j)%Z.
Proof.
  revert j. induction l as [|x t IH]; intros j; simpl; [contradiction|].
  intros [<-|H]; [simpl; lia|]. apply (IH (S j)) in H. lia.
Qed.

Lemma ku_sorted j l : StronglySorted keylt (ku j l).
Proof.
  revert j. induction l as [|x t IH]; intros j; simpl; [constructor|].
  constructor; [apply (IH (S j))|]. apply Forall_forall. intros p Hp.
  apply (ku_bound (S j)) in Hp. unfold keylt. simpl. lia.
Qed.
Lemma kd_sorted j l : StronglySorted (fun a b => keylt b a) (kd j l).
Proof.
  revert j. induction l as [|x t IH]; intros j; simpl; [constructor|].
  constructor; [apply (IH (S j))|]. apply Forall_forall. intros p Hp.
  apply (kd_bound (S j)) in Hp. unfold keylt. simpl. lia.
Qed.

Lemma SS_app {A} (R : A -> A -> Prop) l1 l2 :
  StronglySorted R l1 -> StronglySorted R l2 -> (forall x y, In x l1 -> In y l2 -> R x y) ->
  StronglySorted R (l1 ++ l2).
Proof.
  induction 1 as [|a t SS IH F]; simpl; intros S2 C; [assumption|].
  constructor.
  - apply IH; [assumption|]. intros x y Hx Hy. apply C; [now right|assumption].
  - apply Forall_app. split; [assumption|]. apply Forall_forall. intros y Hy. apply C; [now left|assumption].
Qed.

Lemma SS_rev {A} (R : A -> A -> Prop) l :
  StronglySorted (fun a b => R b a) l -> StronglySorted R (rev l).
Proof.
  induction 1 as [|a t SS IH F]; simpl; [constructor|].
  apply SS_app; [assumption | constructor; constructor |].
  intros x y Hx [<-|[]]. apply in_rev in Hx. rewrite Forall_forall in F. now apply F.
Qed.

(* the strictly increasing arrangement of the cell keys: backward walk reversed, start, forward walk *)
Definition ring_pairs (start : nat) (cs1 cs2 : list nat) : list (nat * Z) :=
  rev (keys_down cs2) ++ (start, 0%Z) :: keys_up cs1.

Lemma ring_pairs_sorted start cs1 cs2 : StronglySorted keylt (ring_pairs start cs1 cs2).
Proof.
  unfold ring_pairs. rewrite keys_up_ku, keys_down_kd. apply SS_app.
  - apply SS_rev. apply kd_sorted.
  - constructor; [apply ku_sorted|]. apply Forall_forall. intros p Hp. apply ku_bound in Hp.
    unfold keylt. simpl. lia.
  - intros x y Hx Hy. apply in_rev in Hx. apply kd_bound in Hx. unfold keylt.
    destruct Hy as [<-|Hy]; [simpl; lia|]. apply ku_bound in Hy. lia.
Qed.

Lemma ring_pairs_fst start cs1 cs2 : map fst (ring_pairs start cs1 cs2) = rev cs2 ++ start :: cs1.
Proof.
  unfold ring_pairs. rewrite map_app, map_rev, keys_up_ku, keys_down_kd. simpl. now rewrite ku_fst, kd_fst.
Qed.

Lemma ring_pairs_in start cs1 cs2 p :
  In p (ring_pairs start cs1 cs2) <-> In p ((start, 0%Z) :: keys_up cs1 ++ keys_down cs2).
Proof.
  unfold ring_pairs. rewrite in_app_iff, <- in_rev. simpl. rewrite in_app_iff. tauto.
Qed.

(* sorting a duplicate-free list that consists exactly of the keyed cells by the walk keys gives the ring *)
Theorem sort_cells_is_ring start cs1 cs2 l :
  NoDup (cs2 ++ start :: cs1) -> NoDup l ->
  (forall x, In x l <-> In x (cs2 ++ start :: cs1)) ->
  sort_ids ((start, 0%Z) :: keys_up cs1 ++ keys_down cs2) l = Ok (rev cs2 ++ start :: cs1).
Proof.
  intros ND NL EQ. set (kc := (start, 0%Z) :: keys_up cs1 ++ keys_down cs2).
  assert (FK : map fst kc = start :: cs1 ++ cs2).
  { unfold kc. simpl. rewrite map_app, keys_up_ku, keys_down_kd, ku_fst, kd_fst. reflexivity. }
  assert (NK : NoDup (map fst kc)).
  { rewrite FK. apply (Permutation_NoDup (l := cs2 ++ start :: cs1)); [|assumption].
    rewrite <- Permutation_middle. apply perm_skip. apply Permutation_app_comm. }
  assert (HK : forallb (has_key kc) l = true).
  { apply forallb_forall. intros x Hx. apply has_key_In. rewrite FK. apply EQ in Hx.
    apply in_app_or in Hx. destruct Hx as [H|[<-|H]]; [right; apply in_or_app; now right | now left | right; apply in_or_app; now left]. }
  destruct (sort_ids_spec kc l HK) as [O [E [P [F S]]]]. rewrite E. f_equal.
  rewrite <- (ring_pairs_fst start cs1 cs2). f_equal.
  apply sorted_unique; [apply ring_pairs_sorted | assumption |].
  set (g := fun x => (x, match lookup_last x kc with Some z => z | None => 0%Z end)).
  assert (GO : O = map g (map fst O)).
  { rewrite map_map. rewrite <- (map_id O) at 1. apply map_ext_in. intros [x z] Hp.
    rewrite Forall_forall in F. specialize (F _ Hp). cbn [fst snd] in F. unfold g. cbn [fst]. now rewrite F. }
  assert (GL : ring_pairs start cs1 cs2 = map g (map fst (ring_pairs start cs1 cs2))).
  { rewrite map_map. rewrite <- (map_id (ring_pairs start cs1 cs2)) at 1. apply map_ext_in. intros [x z] Hp.
    apply ring_pairs_in in Hp. fold kc in Hp. unfold g. cbn [fst]. now rewrite (lookup_last_complete x kc z NK Hp). }
  rewrite GO, GL. apply Permutation_map. rewrite P, ring_pairs_fst.
  apply NoDup_Permutation; [assumption| |].
  - apply (Permutation_NoDup (l := cs2 ++ start :: cs1)); [|assumption].
    apply Permutation_app_tail. apply Permutation_rev.
  - intros x. rewrite EQ, !in_app_iff, <- in_rev. tauto.
Qed.
